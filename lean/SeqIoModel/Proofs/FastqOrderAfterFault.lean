import SeqIoModel.Proofs.FastqHistoryGenuine
import SeqIoModel.Proofs.FastqSeekAfterFault
import SeqIoModel.Proofs.AbstractReader
/-!
# C06, order (FASTQ): after errors, further records come IN ORDER

`fastq_history_genuine` (C06) says that every record shown by any history – arbitrary read scripts
with failures, refusing policies – is a record of `Spec.fastq inp`.  This file adds the ORDER: along
a history without seeks everything that is delivered (single reads and the batches of record set
reads, in the order of the calls) is a sub-sequence of S's records.

The invariant behind C06, `Good inp False r its`, says that the reader is somewhere before the items
`its` of S.  Here the monotone version: every operation without a seek leaves the reader good for
items `its'` such that (what it delivered) ++ `its'` is a sub-sequence of `its`.

In FASTQ every error but a failed FIRST refill finishes the reader (nothing more is delivered, see
`fastq_after_error_end`); after a failed first refill the reader is still `new`, and reading starts
from the beginning – nothing had been delivered before (`next_found2`, `readSet_spec2`: a reader
that is `new` after a call was `new` before it).
-/

namespace SeqIo.Fastq
open SeqIo SeqIo.Spec SeqIo.FillProofs SeqIo.Fastq.Hist SeqIo.WriteProofs

/-! ## a reader is only ever `new` before its first successful refill -/

theorem found_ne_new {inp : List UInt8} {G : Prop} {its : List FqItem} {x : Reader × Res Bool}
    (h : Found inp G .parsing its x) : x.1.state ≠ .new := by
  rcases h with ⟨-, rec, its', -, hsh⟩ | ⟨-, -, hfin⟩ | ⟨e, b, l, -, -, hfin⟩ | ⟨e, -, -, -, hfin⟩
  · rcases hsh.rest with ⟨hst, -⟩ | ⟨hst, -⟩ <;> rw [hst] <;> intro h <;> cases h
  · rw [hfin.1]; intro h; cases h
  · rw [hfin.1]; intro h; cases h
  · rw [hfin.1]; intro h; cases h

/-- `next` from a state that is not `new`: S's next item (the cases of `next_found` for the states
`positioned`, `finished`, `parsing`) -/
theorem next_found_old (inp : List UInt8) (G : Prop) (fuel : Nat) (r : Reader) (its : List FqItem)
    (hg : Good inp G r its) (hfuel : r.br.src.inp.length + 2 ≤ fuel) (hne : r.state ≠ .new) :
    Found inp G .parsing its (next fuel r) := by
  cases hst : r.state with
  | positioned =>
    simp only [Good, hst] at hg
    obtain ⟨hb, he, hip, hits⟩ := hg
    rw [hb.inp_eq] at hfuel
    have : next fuel r = nextCont fuel { r with state := .parsing } := by
      simp only [next, hst]
    rw [this, hits]
    exact nextCont_found inp G fuel { r with state := .parsing } (hb.set_state _) he hip hfuel
  | finished =>
    simp only [Good, hst] at hg
    obtain ⟨hw, hits⟩ := hg
    subst hits
    simp only [next, hst]
    exact Or.inr (Or.inl ⟨rfl, rfl, hst, hw⟩)
  | new => exact absurd hst hne
  | parsing =>
    simp only [Good, hst] at hg
    obtain ⟨hb, he, hip, h01, h1l, hitems⟩ := hg
    rw [hb.inp_eq] at hfuel
    have hinc : incrementRecord r = some { r with
        byte := r.byte + (r.bp.pos1 + 1 - r.bp.pos0), line := r.line + 4,
        bp := { r.bp with pos0 := r.bp.pos1 + 1 } } := by
      simp only [incrementRecord, csub_of_le h01]
    have : next fuel r = nextCont fuel { r with
        byte := r.byte + (r.bp.pos1 + 1 - r.bp.pos0), line := r.line + 4,
        bp := { r.bp with pos0 := r.bp.pos1 + 1 } } := by
      simp only [next, hst, hinc]
    rw [this, hitems]
    have hp0 := hb.pos0_le
    have h := nextCont_found inp G fuel { r with
        byte := r.byte + (r.bp.pos1 + 1 - r.bp.pos0), line := r.line + 4,
        bp := { r.bp with pos0 := r.bp.pos1 + 1 } } ?_ he
        (by intro ip h; simp only [hip] at h; cases h) hfuel
    · simpa only [hst] using h
    · obtain ⟨⟨a, b, c, d, e, f, g, i, w, k, z⟩, -⟩ := hb
      exact ⟨⟨a, b, c, d, e, f, g, i, w, by simp only; omega, z⟩, h1l⟩

theorem good_new_items {inp : List UInt8} {G : Prop} {r : Reader} {its : List FqItem}
    (h : Good inp G r its) (hst : r.state = .new) : its = itemsAt inp 0 1 := by
  simp only [Good, hst] at h
  exact h.2.2.2.2.2.2

theorem good_finished_items {inp : List UInt8} {G : Prop} {r : Reader} {its : List FqItem}
    (h : Good inp G r its) (hst : r.state = .finished) : its = [] := by
  simp only [Good, hst] at h
  exact h.2

/-- `next_found` with the items after a call that stopped the reader: none (`finished`), or the same
as before (still `new`) -/
theorem next_found2 (inp : List UInt8) (G : Prop) (fuel : Nat) (r : Reader) (its : List FqItem)
    (hg : Good inp G r its) (hfuel : r.br.src.inp.length + 2 ≤ fuel) :
    Found inp G .parsing its (next fuel r) ∨
    ((next fuel r).2 ≠ .ok true ∧ (Good inp G (next fuel r).1 [] ∨ Good inp G (next fuel r).1 its)) := by
  rcases next_found inp G fuel r its hg hfuel with h | ⟨-, hres, its', hg', hst'⟩
  · exact Or.inl h
  · refine Or.inr ⟨?_, ?_⟩
    · rcases hres with h | ⟨k, h⟩ <;> rw [h] <;> intro hh <;> cases hh
    · rcases hst' with hst' | hst'
      · left
        rw [← good_finished_items hg' hst']; exact hg'
      · right
        have hnew : r.state = .new := by
          rcases Decidable.em (r.state = .new) with h | h
          · exact h
          · exact absurd hst' (found_ne_new (next_found_old inp G fuel r its hg hfuel h))
        rw [good_new_items hg hnew, ← good_new_items hg' hst']; exact hg'

/-! ## the same for record set reads -/

theorem setOut_ne_new {inp : List UInt8} {G : Prop} {n : Option Nat} {xs : List Rec}
    {its : List FqItem} {x : Reader × RecordSet × Res Bool} (h : SetOut inp G n xs its x) :
    x.1.state ≠ .new := by
  rcases h with ⟨-, ys, its', -, -, hl, -⟩ | ⟨-, -, -, -, hfin⟩ | ⟨ys, e, b, l, -, -, -, hfin, -⟩ |
    ⟨e, -, -, -, -, hfin⟩
  · rcases hl.2 with h | h <;> rw [h] <;> intro hh <;> cases hh
  · rw [hfin.1]; intro h; cases h
  · rw [hfin.1]; intro h; cases h
  · rw [hfin.1]; intro h; cases h

theorem setFin_fst (x : Reader × RecordSet × Res Bool) : (setFin x).1 = x.1 := by
  rcases x with ⟨r, rs, (b | _ | _ | _)⟩
  · cases b <;> rfl
  all_goals rfl

/-- the loop from a positioned good state, before the snapshot of the buffer is taken
(`loop_from` without `SetOut.res`) -/
theorem loop_from_out (inp : List UInt8) (G : Prop) (fuel : Nat) (hfuel : 2 * inp.length + 4 ≤ fuel)
    (n : Option Nat) (hn : ∀ n', n = some n' → 1 ≤ n') (r : Reader) (rs : RecordSet)
    (its : List FqItem) (hg : Good inp G r its) (hst : r.state = .positioned) :
    SetOut inp G n [] its (setLoop fuel fuel n true r { rs with positions := [] }) := by
  apply setLoop_spec inp G fuel (by omega) n fuel true r _ its [] ⟨hg, Or.inl hst⟩ rfl
  · intro _ _ _; rfl
  · intro n' hn'; exact hn n' hn'
  · intro h; rw [hst] at h; cases h
  · have hb : r.byte ≤ inp.length := by
      simp only [Good, hst] at hg
      exact byte_le_of_base hg.1
    unfold lm
    rw [hst]
    simp only [reduceCtorEq, if_false]
    split <;> omega

/-- a record set read from a state that is not `new` does not leave the reader `new` -/
theorem readSet_old (inp : List UInt8) (G : Prop) (fuel : Nat) (r : Reader) (rs : RecordSet)
    (n : Option Nat) (its : List FqItem) (hg : Good inp G r its)
    (hfuel : 2 * r.br.src.inp.length + 4 ≤ fuel) (hn : ∀ n', n = some n' → 1 ≤ n')
    (hne : r.state ≠ .new) : (readRecordSetExact fuel r rs n).1.state ≠ .new := by
  cases hst : r.state with
  | positioned =>
    have hi : r.br.src.inp = inp := by
      simp only [Good, hst] at hg; exact hg.1.inp_eq
    rw [hi] at hfuel
    rw [readSet_loop fuel r rs n hst, setFin_fst]
    exact setOut_ne_new (loop_from_out inp G fuel hfuel n hn r rs its hg hst)
  | finished =>
    have : readRecordSetExact fuel r rs n = (r, rs, .ok false) := by
      simp only [readRecordSetExact, hst]
    rw [this]
    show r.state ≠ .new
    rw [hst]; intro h; cases h
  | new => exact absurd hst hne
  | parsing =>
    simp only [Good, hst] at hg
    obtain ⟨hb, he, hip, h01, h1l, hitems⟩ := hg
    rw [hb.inp_eq] at hfuel
    have hinc := incrementRecord_eq r h01
    have heq : readRecordSetExact fuel r rs n =
        setFin (setLoop fuel fuel n true { stepOver r with state := .positioned }
          { rs with positions := [] }) := by
      rw [← readSet_loop fuel { stepOver r with state := .positioned } rs n rfl]
      simp only [readRecordSetExact, hst, hinc]
    rw [heq, setFin_fst]
    refine setOut_ne_new (loop_from_out inp G fuel hfuel n hn _ rs its ?_ rfl)
    have hw : Win inp G (stepOver r) := by
      obtain ⟨⟨a, b, c, d, e, f, g, i, w, k, z⟩, hp⟩ := hb
      exact ⟨a, b, c, d, e, f, g, i, w, by simp only [stepOver]; omega, z⟩
    have hb2 : Base inp G (stepOver r) := ⟨hw, h1l⟩
    refine good_positioned_of (hb2.set_state _) he ?_ hitems rfl
    intro ip h
    simp only [stepOver, hip] at h
    cases h

/-- `readSet_spec` with the items after the call in all cases: a batch is a segment `ys` of S's
records at the front of `its` and leaves the items behind it; every other outcome delivers nothing
and leaves no items (reader finished) or the same items (reader still `new`) -/
theorem readSet_spec2 (inp : List UInt8) (G : Prop) (fuel : Nat) (r : Reader) (rs : RecordSet)
    (n : Option Nat) (its : List FqItem) (hg : Good inp G r its)
    (hfuel : 2 * r.br.src.inp.length + 4 ≤ fuel) (hn : ∀ n', n = some n' → 1 ≤ n') :
    ((readRecordSetExact fuel r rs n).2.2 = .ok true ∧ ∃ (ys : List FqRec) (its' : List FqItem),
        its = ys.map FqItem.record ++ its' ∧ ys ≠ [] ∧
        viewAll (readRecordSetExact fuel r rs n).2.1.buffer
          (readRecordSetExact fuel r rs n).2.1.positions = some (ys.map recOf) ∧
        Good inp G (readRecordSetExact fuel r rs n).1 its') ∨
    ((readRecordSetExact fuel r rs n).2.2 ≠ .ok true ∧
      (Good inp G (readRecordSetExact fuel r rs n).1 [] ∨
       Good inp G (readRecordSetExact fuel r rs n).1 its)) := by
  have hold := readSet_old inp G fuel r rs n its hg hfuel hn
  rcases readSet_spec inp G fuel r rs n its hg hfuel hn with
    ⟨hr, ys, its', hi, hv, hne, hl, -⟩ | ⟨hr, -, hfin, -⟩ | ⟨ys, e, b, l, hr, -, -, hfin, -⟩ |
    ⟨e, hr, -, -, -, hfin⟩ | ⟨-, hres, -, its', hg', hst'⟩
  · exact Or.inl ⟨hr, ys, its', hi, hne, hv, hl.1⟩
  · exact Or.inr ⟨(by rw [hr]; intro h; cases h), Or.inl hfin.good⟩
  · exact Or.inr ⟨(by rw [hr]; intro h; cases h), Or.inl hfin.good⟩
  · exact Or.inr ⟨(by rw [hr]; intro h; cases h), Or.inl hfin.good⟩
  · refine Or.inr ⟨?_, ?_⟩
    · rcases hres with h | ⟨k, h⟩ <;> rw [h] <;> intro hh <;> cases hh
    · rcases hst' with hst' | hst'
      · left
        rw [← good_finished_items hg' hst']; exact hg'
      · right
        have hnew : r.state = .new := by
          rcases Decidable.em (r.state = .new) with h | h
          · exact h
          · exact absurd hst' (hold h)
        rw [good_new_items hg hnew, ← good_new_items hg' hst']; exact hg'

/-! ## histories: what is delivered, in the order of the calls -/

namespace Hist

/-- the record shown by a single read -/
def single : ObsH → List Rec
  | .record x => [x]
  | _ => []

/-- the records shown by single reads (`next` / owned reads), in the order they were returned -/
def singles : List ObsH → List Rec
  | [] => []
  | o :: os => single o ++ singles os

/-- the records an iteration over a set shows -/
def shown : ObsH → List Rec
  | .dump xs => xs
  | _ => []

/-- the records one operation delivers: the record of a single read, and for a record set read
that returned `Some(Ok(()))` the records a `dump` of that set shows right after the call -/
def deliveredBy (m : MSt) : Op → List Rec
  | .set j n =>
    match (stepM m (.set j n)).2 with
    | .batch _ => shown (stepM (stepM m (.set j n)).1 (.dump j)).2
    | _ => []
  | op => single (stepM m op).2

/-- everything delivered along a history – single reads and batches – in the order of the calls -/
def delivered (m : MSt) : List Op → List Rec
  | [] => []
  | op :: ops => deliveredBy m op ++ delivered (stepM m op).1 ops

end Hist

/-- the records among a list of items -/
def recsIn (its : List FqItem) : List Rec :=
  its.filterMap fun
    | .record x => some (recOf x)
    | .err _ _ _ => none

theorem allRecs_eq (inp : List UInt8) : allRecs inp = recsIn (Spec.fastq inp) := rfl

theorem recsIn_records (ys : List FqRec) (rest : List FqItem) :
    recsIn (ys.map FqItem.record ++ rest) = ys.map recOf ++ recsIn rest := by
  induction ys with
  | nil => rfl
  | cons y ys ih =>
    show recOf y :: recsIn (ys.map FqItem.record ++ rest) = _
    rw [ih]
    rfl

theorem single_obsSet (rs : RecordSet) (res : Res Bool) : single (obsSet rs res) = [] := by
  rcases res with (b | _ | _ | _)
  · cases b <;> rfl
  all_goals rfl

theorem single_obsDump (rs : RecordSet) : single (obsDump rs) = [] := by
  unfold obsDump
  split <;> rfl

theorem getSet_self (m : MSt) (j : Nat) (rs : RecordSet) : (m.putSet j rs).getSet j = rs := by
  rw [MSt.getSet_putSet, if_pos rfl]

/-- a record set read from a good state: a batch of `c` records is a segment `ys` (`c = ys.length`,
`c ≥ 1`) of S's records at the front of the items ahead – this is what a `dump` of the set shows
right after the call – and leaves the items behind it; every other outcome leaves no items or the
same items -/
theorem set_stepQ (inp : List UInt8) (m : MSt) (its : List FqItem) (hg : Good inp False m.r its)
    (j : Nat) (n : Option Nat) (hwf : (Op.set j n).wf = true) :
    (∃ (ys : List FqRec) (its' : List FqItem), its = ys.map FqItem.record ++ its' ∧ ys ≠ [] ∧
        (stepM m (.set j n)).2 = .batch ys.length ∧
        (stepM (stepM m (.set j n)).1 (.dump j)).2 = .dump (ys.map recOf) ∧
        Good inp False (stepM m (.set j n)).1.r its') ∨
    ((∀ c, (stepM m (.set j n)).2 ≠ .batch c) ∧
      (Good inp False (stepM m (.set j n)).1.r [] ∨ Good inp False (stepM m (.set j n)).1.r its)) := by
  have hR := readSet_spec2 inp False (fuelOf m.r) m.r (m.getSet j) n its hg (fuelOf_ge m.r) (wf_set hwf)
  simp only [stepM, stepSet]
  rcases hx : readRecordSetExact (fuelOf m.r) m.r (m.getSet j) n with ⟨r', rs', res⟩
  rw [hx] at hR
  simp only at hR ⊢
  rw [MSt.putSet_r, getSet_self]
  rcases hR with ⟨hr, ys, its', hi, hne, hv, hg'⟩ | ⟨hr, hg'⟩
  · subst hr
    refine Or.inl ⟨ys, its', hi, hne, ?_, ?_, hg'⟩
    · have := viewAll_length hv
      simp only [List.length_map] at this
      simp only [obsSet, this]
    · simp only [obsDump, hv]
  · refine Or.inr ⟨?_, hg'⟩
    intro c hc
    rcases res with (b | _ | _ | _)
    · cases b
      · cases hc
      · exact absurd rfl hr
    all_goals cases hc

/-- **every operation but a seek: (what it delivers) ++ (the items S prescribes afterwards) is a
sub-sequence of the items S prescribed before** -/
theorem stepQ (inp : List UInt8) (m : MSt) (its : List FqItem) (hg : Good inp False m.r its)
    (op : Op) (hwf : op.wf = true) (hop : op.isSeek = false) :
    ∃ (ys : List FqRec) (its' : List FqItem), Good inp False (stepM m op).1.r its' ∧
      deliveredBy m op = ys.map recOf ∧ (ys.map FqItem.record ++ its').Sublist its := by
  have nextCase : ∃ (ys : List FqRec) (its' : List FqItem), Good inp False (stepNext m).1.r its' ∧
      single (stepNext m).2 = ys.map recOf ∧ (ys.map FqItem.record ++ its').Sublist its := by
    have hF := next_found2 inp False (fuelOf m.r) m.r its hg (by have := fuelOf_ge m.r; omega)
    simp only [stepNext]
    rcases hx : next (fuelOf m.r) m.r with ⟨r', res⟩
    rw [hx] at hF
    simp only at hF ⊢
    rcases hF with (⟨hr, x, its', hi, hsh⟩ | ⟨hr, hi, hfin⟩ | ⟨e, b, l, hr, hi, hfin⟩ |
      ⟨e, hr, -, -, hfin⟩) | ⟨hres, hg'⟩
    · simp only at hr hi hsh
      subst hr
      refine ⟨[x], its', hsh.good, ?_, by rw [hi]; exact List.Sublist.refl _⟩
      simp only [obsNext, hsh.view]
      rfl
    · simp only at hr hfin
      subst hr
      exact ⟨[], [], hfin.good, rfl, List.nil_sublist _⟩
    · simp only at hr hfin
      subst hr
      exact ⟨[], [], hfin.good, rfl, List.nil_sublist _⟩
    · simp only at hr hfin
      subst hr
      exact ⟨[], [], hfin.good, rfl, List.nil_sublist _⟩
    · have hs : single (obsNext r' res) = [] := by
        rcases res with (b | _ | _ | _)
        · cases b
          · rfl
          · exact absurd rfl hres
        all_goals rfl
      rcases hg' with hg' | hg'
      · exact ⟨[], [], hg', hs, List.nil_sublist _⟩
      · exact ⟨[], its, hg', hs, List.Sublist.refl _⟩
  cases op with
  | next => exact nextCase
  | owned => exact nextCase
  | set j n =>
    show ∃ (ys : List FqRec) (its' : List FqItem), Good inp False (stepM m (.set j n)).1.r its' ∧
      (match (stepM m (.set j n)).2 with
        | .batch _ => shown (stepM (stepM m (.set j n)).1 (.dump j)).2
        | _ => []) = ys.map recOf ∧ (ys.map FqItem.record ++ its').Sublist its
    rcases set_stepQ inp m its hg j n hwf with ⟨ys, its', hi, -, hb, hd, hg'⟩ | ⟨hnb, hg'⟩
    · refine ⟨ys, its', hg', ?_, by rw [hi]; exact List.Sublist.refl _⟩
      rw [hb, hd]
      rfl
    · have hd : (match (stepM m (.set j n)).2 with
          | .batch _ => shown (stepM (stepM m (.set j n)).1 (.dump j)).2
          | _ => ([] : List Rec)) = [] := by
        cases ho : (stepM m (.set j n)).2 with
        | batch c => exact absurd ho (hnb c)
        | _ => rfl
      rcases hg' with hg' | hg'
      · exact ⟨[], [], hg', hd, List.nil_sublist _⟩
      · exact ⟨[], its, hg', hd, List.Sublist.refl _⟩
  | dump j => exact ⟨[], its, hg, single_obsDump _, List.Sublist.refl _⟩
  | pos => exact ⟨[], its, hg, rfl, List.Sublist.refl _⟩
  | seekItem i => cases hop

/-- along a well-formed history without seeks, everything delivered is a sub-sequence of the
records among the items ahead -/
theorem delivered_sublist (inp : List UInt8) : ∀ (ops : List Op) (m : MSt) (its : List FqItem),
    Good inp False m.r its → (∀ op ∈ ops, op.wf = true) → SeekFree ops →
    (delivered m ops).Sublist (recsIn its) := by
  intro ops
  induction ops with
  | nil => intro m its _ _ _; exact List.nil_sublist _
  | cons op ops ih =>
    intro m its hg hops hsf
    obtain ⟨ys, its', hg', hd, hsub⟩ :=
      stepQ inp m its hg op (hops op List.mem_cons_self) (hsf op List.mem_cons_self)
    have := ih (stepM m op).1 its' hg' (fun o ho => hops o (List.mem_cons_of_mem _ ho))
      (fun o ho => hsf o (List.mem_cons_of_mem _ ho))
    show (deliveredBy m op ++ delivered (stepM m op).1 ops).Sublist _
    rw [hd]
    have h1 : (ys.map recOf ++ delivered (stepM m op).1 ops).Sublist
        (recsIn (ys.map FqItem.record ++ its')) := by
      rw [recsIn_records]
      exact List.Sublist.append (List.Sublist.refl _) this
    exact h1.trans (hsub.filterMap _)

theorem single_stepM_set (m : MSt) (j : Nat) (n : Option Nat) :
    single (stepM m (.set j n)).2 = [] := single_obsSet _ _

/-- the single reads are part of what is delivered -/
theorem singles_sublist_delivered : ∀ (ops : List Op) (m : MSt),
    (singles (runM m ops)).Sublist (delivered m ops) := by
  intro ops
  induction ops with
  | nil => intro m; exact List.Sublist.refl _
  | cons op ops ih =>
    intro m
    show (single (stepM m op).2 ++ singles (runM (stepM m op).1 ops)).Sublist
      (deliveredBy m op ++ delivered (stepM m op).1 ops)
    refine List.Sublist.append ?_ (ih _)
    cases op with
    | set j n => rw [single_stepM_set]; exact List.nil_sublist _
    | next => exact List.Sublist.refl _
    | owned => exact List.Sublist.refl _
    | dump j => exact List.Sublist.refl _
    | pos => exact List.Sublist.refl _
    | seekItem i => exact List.Sublist.refl _

/-- **C06, order, all deliveries (FASTQ).** For every input, capacity ≥ 3, policy that answers more
than it is passed or refuses, read script (failures of any kind at any call), scripted seek failures
and well-formed history WITHOUT seeks: all records delivered – by `next`, by owned reads and by
record set reads (each batch as a `dump` right after the call shows it), in the order of the calls –
form a sub-sequence of S's records: none twice, none out of order. -/
theorem fastq_all_delivered_in_order_after_faults (inp : List UInt8) (cap : Nat) (hcap : 3 ≤ cap)
    (pol : Pol) (hpol : PolWf pol) (script : List ReadEv) (chunk : Nat)
    (seekFails : List (Nat × IoKind)) (ops : List Op) (hops : ∀ op ∈ ops, op.wf = true)
    (hsf : SeekFree ops) :
    List.Sublist (delivered (mkM inp cap pol script chunk seekFails) ops) (allRecs inp) :=
  delivered_sublist inp ops _ _
    (good_mkReader'' inp False cap hcap pol (PolWf.wf1 hpol) (fun h => h.elim) script
      (fun h => h.elim) chunk seekFails (fun h => h.elim)) hops hsf

/-- **C06, order, single reads (FASTQ).** The records returned by single reads form, in the order
they were returned, a sub-sequence of S's records. -/
theorem fastq_records_in_order_after_faults (inp : List UInt8) (cap : Nat) (hcap : 3 ≤ cap)
    (pol : Pol) (hpol : PolWf pol) (script : List ReadEv) (chunk : Nat)
    (seekFails : List (Nat × IoKind)) (ops : List Op) (hops : ∀ op ∈ ops, op.wf = true)
    (hsf : SeekFree ops) :
    List.Sublist (singles (runM (mkM inp cap pol script chunk seekFails) ops)) (allRecs inp) :=
  (singles_sublist_delivered ops _).trans
    (fastq_all_delivered_in_order_after_faults inp cap hcap pol hpol script chunk seekFails ops hops hsf)

/-- **every batch is a contiguous segment** (histories WITH seeks included): whenever, after any
well-formed history, a record set read returns `Some(Ok(()))` with `c` records, a `dump` of that
set right after the call shows exactly `c ≥ 1` consecutive records of S: the items `k, …, k + c - 1`
of S are records, and the dump shows them. -/
theorem fastq_batch_contiguous_after_faults (inp : List UInt8) (cap : Nat) (hcap : 3 ≤ cap)
    (pol : Pol) (hpol : PolWf pol) (script : List ReadEv) (chunk : Nat)
    (seekFails : List (Nat × IoKind)) (ops : List Op) (hops : ∀ op ∈ ops, op.wf = true)
    (j : Nat) (n : Option Nat) (hwf : (Op.set j n).wf = true) (c : Nat) (o : ObsH)
    (h : runM (mkM inp cap pol script chunk seekFails) (ops ++ [.set j n, .dump j]) =
      runM (mkM inp cap pol script chunk seekFails) ops ++ [.batch c, o]) :
    ∃ (k : Nat) (ys : List FqRec), 1 ≤ c ∧ ys.length = c ∧
      ((Spec.fastq inp).drop k).take c = ys.map FqItem.record ∧ o = .dump (ys.map recOf) := by
  rw [runM_append] at h
  have h' := List.append_cancel_left h
  generalize hm : runMSt (mkM inp cap pol script chunk seekFails) ops = m at h'
  have hgen : GenM inp m := by
    rw [← hm]
    exact (genM_runMSt inp ops _
      (genM_mkM inp cap hcap pol (PolWf.wf1 hpol) script chunk seekFails) hops).1
  obtain ⟨⟨k, hg⟩, -⟩ := hgen
  have e : runM m [.set j n, .dump j] =
      [(stepM m (.set j n)).2, (stepM (stepM m (.set j n)).1 (.dump j)).2] := rfl
  rw [e] at h'
  simp only [List.cons.injEq, and_true] at h'
  rcases set_stepQ inp m _ hg j n hwf with ⟨ys, its', hi, hne, hb, hd, -⟩ | ⟨hnb, -⟩
  · rw [hb] at h'
    have hc : ys.length = c := by
      have := h'.1
      injection this
    refine ⟨k, ys, ?_, hc, ?_, by rw [← h'.2]; exact hd⟩
    · rw [← hc]
      cases ys with
      | nil => exact absurd rfl hne
      | cons y ys => simp
    · rw [hi, ← hc]
      have : (ys.map FqItem.record).length = ys.length := List.length_map _
      rw [← this, List.take_left]
  · exact absurd h'.1 (hnb c)

end SeqIo.Fastq

/-! ## non-vacuity: concrete data (checked by `decide`) -/

namespace SeqIo.Fastq.OrderAfterFaultExample
open SeqIo.Fastq.Hist

/-- `@a\nAC\n+\nII\n@b\nGG\n+\nII\n` -/
def inp : List UInt8 :=
  [64, 97, 10, 65, 67, 10, 43, 10, 73, 73, 10, 64, 98, 10, 71, 71, 10, 43, 10, 73, 73, 10]

example : allRecs inp =
    [{ head := [97], seq := [65, 67], qual := [73, 73] },
     { head := [98], seq := [71, 71], qual := [73, 73] }] := by decide

/-- capacity 64; the first refill hands out 10 bytes and then fails: the error is reported, the
reader stays `new`, and reading goes on – both records, in order -/
def m1 : MSt := mkM inp 64 PolDesc.std.toPol [.data 10, .fail 7] 0 []

example : runM m1 [.next, .next, .next, .next] =
    [.error (.io 7), .record { head := [97], seq := [65, 67], qual := [73, 73] },
      .record { head := [98], seq := [71, 71], qual := [73, 73] }, .none] := by decide

example : singles (runM m1 [.next, .next, .next, .next]) = allRecs inp := by decide

/-- the same with record set reads -/
example : runM m1 [.set 0 none, .set 0 none, .dump 0, .next] =
    [.error (.io 7), .batch 2,
      .dump [{ head := [97], seq := [65, 67], qual := [73, 73] },
             { head := [98], seq := [71, 71], qual := [73, 73] }], .none] := by decide

example : delivered m1 [.set 0 none, .set 0 none, .dump 0, .next] = allRecs inp := by decide

/-- capacity 12: an error of the first refill, a batch of one record, then a failed refill inside
`resume_incomplete_search`: that error finishes the reader – record `b` is never delivered
(sub-sequence, not all of S) -/
def m3 : MSt := mkM inp 12 PolDesc.std.toPol [.data 5, .fail 7, .data 7, .fail 8, .data 30] 0 []

example : runM m3 [.next, .set 1 (some 1), .dump 1, .next, .next, .next] =
    [.error (.io 7), .batch 1, .dump [{ head := [97], seq := [65, 67], qual := [73, 73] }],
      .error (.io 8), .none, .none] := by decide

example : delivered m3 [.next, .set 1 (some 1), .dump 1, .next, .next, .next] =
    [{ head := [97], seq := [65, 67], qual := [73, 73] }] := by decide

end SeqIo.Fastq.OrderAfterFaultExample
