import SeqIoModel.Proofs.FastqHistory
/-!
# FASTQ histories, part 3: totality

No history of API calls – with read scripts that fail, seeks that fail, policies that refuse –
makes the reader panic or run out of fuel.  The invariant is purely structural (offsets and line
feeds in the buffer); it does not mention the contents of the input.
-/

namespace SeqIo.Fastq
open SeqIo SeqIo.Spec SeqIo.FillProofs SeqIo.Fastq.Hist

/-- buffer-level safety facts (`L` = length of the input) -/
structure SafeB (L : Nat) (r : Reader) : Prop where
  inpL : r.br.src.inp.length = L
  polwf : PolWf1 r.pol
  cap1 : 1 ≤ r.br.cap
  len_le : r.br.buf.length ≤ r.br.cap
  len_cur : r.br.buf.length ≤ r.br.src.cursor
  beyond : L < r.br.src.cursor → r.br.buf.length = 0

/-- bytes not yet consumed: the rest of the buffer and the unread input -/
def avail (L : Nat) (r : Reader) : Nat :=
  (r.br.buf.length - r.bp.pos0) + (L - r.br.src.cursor)

theorem SafeB.set_bp {L r} (h : SafeB L r) (bp' : BufPos) (ip' : Option RecordPos) :
    SafeB L { r with bp := bp', incompletePos := ip' } := by
  obtain ⟨a, b, c, d, e, f⟩ := h
  exact ⟨a, b, c, d, e, f⟩

theorem SafeB.set_state {L r} (h : SafeB L r) (st : State) : SafeB L { r with state := st } := by
  obtain ⟨a, b, c, d, e, f⟩ := h
  exact ⟨a, b, c, d, e, f⟩

/-- one `fill_buf` call, whether it succeeds or fails -/
theorem fill_safe (L : Nat) (r : Reader) (sb : SafeB L r) :
    ∃ br' ext res, fillBuf r.br = (br', res) ∧ br'.buf = r.br.buf ++ ext ∧ br'.cap = r.br.cap ∧
      br'.src.cursor = r.br.src.cursor + ext.length ∧ br'.src.inp = r.br.src.inp ∧
      ext.length ≤ min (r.br.cap - r.br.buf.length) (L - r.br.src.cursor) ∧
      (∀ n, res = .ok n → ext.length = min (r.br.cap - r.br.buf.length) (L - r.br.src.cursor)) := by
  have hrem : r.br.src.remaining = L - r.br.src.cursor := by
    simp only [Src.remaining, sb.inpL]
  rcases h : fillBuf r.br with ⟨br', res⟩
  cases res with
  | ok n =>
    obtain ⟨hn, used, hstep⟩ := fillBuf_ok r.br br' n h
    rw [hrem] at hn
    have hlen : ((r.br.src.inp.drop r.br.src.cursor).take n).length = n := by
      apply length_take_drop
      rw [sb.inpL]; omega
    exact ⟨br', _, _, rfl, hstep.buf, hstep.cap, by rw [hstep.cursor, hlen], hstep.inp,
      by rw [hlen, hn]; exact Nat.le_refl _, fun n' _ => by rw [hlen, hn]⟩
  | error k =>
    obtain ⟨used, rest, m, -, -, -, hm, hbuf, hcap, hinp, hcur⟩ := fillBuf_error r.br br' k h
    rw [hrem] at hm
    have hlen : ((r.br.src.inp.drop r.br.src.cursor).take m).length = m := by
      apply length_take_drop
      rw [sb.inpL]; omega
    exact ⟨br', _, _, rfl, hbuf, hcap, by rw [hcur, hlen], hinp, by rw [hlen]; exact hm,
      fun n' h' => by cases h'⟩

theorem SafeB.after_fill {L r} (sb : SafeB L r) {br' : BufRd} {ext : List UInt8}
    (hbuf : br'.buf = r.br.buf ++ ext) (hcap : br'.cap = r.br.cap)
    (hcur : br'.src.cursor = r.br.src.cursor + ext.length) (hinp : br'.src.inp = r.br.src.inp)
    (hle : ext.length ≤ min (r.br.cap - r.br.buf.length) (L - r.br.src.cursor)) :
    SafeB L { r with br := br' } := by
  obtain ⟨a, b, c, d, e, f⟩ := sb
  refine ⟨by simp only [hinp]; exact a, b, by simp only [hcap]; exact c, ?_, ?_, ?_⟩
  · simp only [hbuf, hcap, List.length_append]; omega
  · simp only [hbuf, hcur, List.length_append]; omega
  · simp only [hbuf, hcur, List.length_append]; omega

/-- structural facts about a record that has just been found (`A` bounds the bytes that are
not yet consumed) -/
structure ShownS (L A : Nat) (st : State) (r : Reader) : Prop where
  sb : SafeB L r
  view : (viewRec r.br.buf r.bp).isSome = true
  p01 : r.bp.pos0 < r.bp.pos1
  p1l : r.bp.pos1 ≤ r.br.buf.length
  av : avail L r ≤ A
  rest : (r.state = st ∧ r.incompletePos = none ∧ r.bp.pos1 + 1 ≤ r.br.buf.length) ∨
    r.state = .finished

/-- a reader that has given up -/
def FinS (L : Nat) (r : Reader) : Prop := r.state = .finished ∧ SafeB L r

/-- safe results of looking for the next record -/
def FoundS (L A : Nat) (st : State) (x : Reader × Res Bool) : Prop :=
  (x.2 = .ok true ∧ ShownS L A st x.1) ∨ (x.2 = .ok false ∧ FinS L x.1) ∨
  (∃ e, x.2 = .err e ∧ FinS L x.1)

/-- `validate` on a completely found record -/
theorem validated_safe (r : Reader) (hrec : Rec4 r.br.buf r.bp) :
    (validated r = (r, .ok true) ∧ (viewRec r.br.buf r.bp).isSome = true) ∨
    (∃ e, validated r = ({ r with state := .finished }, .err e)) := by
  have hv := validate_spec r hrec
  generalize fqGroup false (hP r.br.buf r.bp) (sP r.br.buf r.bp) (pP r.br.buf r.bp)
    (qP r.br.buf r.bp) r.byte r.line = g at hv
  cases g with
  | record x =>
    obtain ⟨v1, v2, v3, v4, -, -⟩ := hv
    exact Or.inl ⟨by simp only [validated, v1], by rw [viewRec_of_views v2 v3 v4]; rfl⟩
  | err e b l =>
    exact Or.inr ⟨specErr e, by simp only [validated, hv.1]⟩

theorem complete_safe (L : Nat) (r : Reader) (sb : SafeB L r) (hip : r.incompletePos = none)
    (hf : Found4 r.br.buf r.bp) : FoundS L (avail L r) r.state (validated r) := by
  have hrec := hf.rec4
  have h1 : r.bp.pos1 + 1 ≤ r.br.buf.length := (nl_some hf.2.2.2).2.1
  rcases validated_safe r hrec with ⟨hv, hview⟩ | ⟨e, hv⟩
  · rw [hv]
    refine Or.inl ⟨rfl, ?_⟩
    dsimp only
    refine ⟨sb, hview, ?_, by omega, Nat.le_refl _, Or.inl ⟨rfl, hip, h1⟩⟩
    have := hrec.h1; have := hrec.h2; have := hrec.h3; have := hrec.h4
    omega
  · rw [hv]
    exact Or.inr (Or.inr ⟨e, rfl, rfl, sb.set_state _⟩)

/-- `check_end` -/
theorem checkEnd_safe (L : Nat) (st : State) (r : Reader) (sb : SafeB L r)
    (hst : r.state = .finished) (h0 : r.bp.pos0 ≤ r.br.buf.length) (ip : RecordPos)
    (hsc : Pre r.br.buf r.bp ip) : FoundS L (avail L r) st (checkEnd r ip) := by
  by_cases hq : ip = .qual
  · subst hq
    obtain ⟨a, b, c⟩ := hsc
    have a' := nl_some a
    have b' := nl_some b
    have c' := nl_some c
    rw [checkEnd_qual]
    have sb' : SafeB L { r with bp := { r.bp with pos1 := r.br.buf.length } } :=
      sb.set_bp _ r.incompletePos
    have hav : avail L { r with bp := { r.bp with pos1 := r.br.buf.length } } = avail L r := rfl
    generalize hr' : ({ r with bp := { r.bp with pos1 := r.br.buf.length } } : Reader) = r' at sb' hav
    have e1 : r'.br = r.br := by rw [← hr']
    have e2 : r'.bp = { r.bp with pos1 := r.br.buf.length } := by rw [← hr']
    have e5 : r'.state = .finished := by rw [← hr']; exact hst
    have hrec : Rec4 r'.br.buf r'.bp := by
      rw [e1, e2]
      exact ⟨a'.1, b'.1, c'.1, by simp only; omega, by simp only; omega, a'.2.2.1, c'.2.2.1⟩
    have hv := validate_spec r' hrec
    have hseqle : r'.bp.seq ≤ r'.br.buf.length := by
      have := hrec.h2; have := hrec.h3; have := hrec.h4; have := hrec.h5
      omega
    have hge := getErrorPos_true r' 0 hrec.h1 hseqle
    generalize fqGroup false (hP r'.br.buf r'.bp) (sP r'.br.buf r'.bp) (pP r'.br.buf r'.bp)
      (qP r'.br.buf r'.bp) r'.byte r'.line = g at hv
    cases g with
    | record x =>
      obtain ⟨v1, v2, v3, v4, -, -⟩ := hv
      simp only [checkEndQ, v1, v3, v4, hge]
      by_cases hl : x.seq.length ≠ x.qual.length
      · rw [if_pos hl]
        exact Or.inr (Or.inr ⟨_, rfl, e5, sb'⟩)
      · rw [if_neg hl]
        refine Or.inl ⟨rfl, ?_⟩
        dsimp only
        refine ⟨sb', by rw [viewRec_of_views v2 v3 v4]; rfl, ?_, hrec.h5,
          by rw [hav]; exact Nat.le_refl _, Or.inr e5⟩
        have := hrec.h1; have := hrec.h2; have := hrec.h3; have := hrec.h4
        omega
    | err e b l =>
      simp only [checkEndQ, hv.1]
      exact Or.inr (Or.inr ⟨_, rfl, rfl, sb'.set_state _⟩)
  · have key : ∃ ep, getErrorPos r ip.ord (decide (ip.ord > RecordPos.head.ord)) = some ep := by
      cases ip with
      | qual => exact absurd rfl hq
      | head => exact ⟨_, getErrorPos_false r 0⟩
      | seq =>
        have a : nl r.br.buf r.bp.pos0 = some r.bp.seq := hsc
        have a' := nl_some a
        exact ⟨_, getErrorPos_true r 1 a'.1 a'.2.1⟩
      | sep =>
        have a' := nl_some hsc.1
        exact ⟨_, getErrorPos_true r 2 a'.1 a'.2.1⟩
    obtain ⟨ep, hep⟩ := key
    rw [checkEnd_few r ip hq h0 ep hep]
    split
    · exact Or.inr (Or.inl ⟨rfl, hst, sb⟩)
    · exact Or.inr (Or.inr ⟨_, rfl, hst, sb⟩)


theorem FoundS.mono {L A A' st x} (h : FoundS L A st x) (hle : A ≤ A') : FoundS L A' st x := by
  rcases h with ⟨h1, h2⟩ | h | h
  · exact Or.inl ⟨h1, h2.sb, h2.view, h2.p01, h2.p1l, Nat.le_trans h2.av hle, h2.rest⟩
  · exact Or.inr (Or.inl h)
  · exact Or.inr (Or.inr h)

/-! ## the loop of `resume_incomplete_search` -/

def muS (L : Nat) (r : Reader) : Nat :=
  (L - r.br.src.cursor) + (if r.br.buf.length < r.br.cap then 0 else 1)

theorem resumeK_safe (L : Nat) (f : Nat) (ip : RecordPos) (mk : Bool) (r : Reader)
    (ih : ∀ (r : Reader) (ip : RecordPos), SafeB L r → r.bp.pos0 ≤ r.br.buf.length →
      Pre r.br.buf r.bp ip → muS L r + 1 ≤ f →
      FoundS L (avail L r) r.state (resume f ip mk r) ∧ Ext mk r (resume f ip mk r).1)
    (sb : SafeB L r) (h0 : r.bp.pos0 ≤ r.br.buf.length)
    (hpre : Pre r.br.buf r.bp ip) (hmu : muS L r + 1 ≤ f) :
    FoundS L (avail L r) r.state (resumeK f ip mk r) ∧ Ext mk r (resumeK f ip mk r).1 := by
  rcases si_spec r ip h0 hpre with ⟨bp', ip', hp0, hsc, hres⟩ | ⟨bp', hp0, hf4, hres⟩
  · simp only [resumeK, hres]
    have := ih { r with bp := bp', incompletePos := some ip' } ip' (sb.set_bp _ _)
      (by simpa only [hp0] using h0) hsc.1 hmu
    have hav : avail L { r with bp := bp', incompletePos := some ip' } = avail L r := by
      simp only [avail, hp0]
    rw [hav] at this
    exact this
  · have : resumeK f ip mk r = validated { r with bp := bp', incompletePos := none } := by
      rw [← wrapS_wrapV_validate]
      simp only [resumeK, hres]
      generalize validate _ = v
      rcases v with ⟨r', (_ | _ | _ | _)⟩ <;> rfl
    rw [this]
    have hav : avail L { r with bp := bp', incompletePos := none } = avail L r := by
      simp only [avail, hp0]
    refine ⟨?_, fun _ => ⟨[], by rw [validated_br, List.append_nil]⟩⟩
    have := complete_safe L { r with bp := bp', incompletePos := none } (sb.set_bp _ _) rfl hf4
    rw [hav] at this
    exact this

theorem resume_safe (L : Nat) (mk : Bool) (f : Nat) :
    ∀ (r : Reader) (ip : RecordPos), SafeB L r → r.bp.pos0 ≤ r.br.buf.length →
      Pre r.br.buf r.bp ip → muS L r + 1 ≤ f →
      FoundS L (avail L r) r.state (resume f ip mk r) ∧ Ext mk r (resume f ip mk r).1 := by
  induction f with
  | zero => intro r ip _ _ _ h; omega
  | succ f ih =>
    intro r ip sb h0 hsc hmu
    by_cases hlt : r.br.buf.length < r.br.cap
    · rw [resume_eof f ip mk r hlt]
      refine ⟨?_, fun _ => ⟨[], by rw [checkEnd_br, List.append_nil]⟩⟩
      exact checkEnd_safe L r.state { r with state := .finished } (sb.set_state _) rfl h0 ip hsc
    · have hfull : r.br.buf.length = r.br.cap := by have := sb.len_le; omega
      have hmu0 : muS L r = L - r.br.src.cursor + 1 := by
        simp only [muS, hlt, if_false]
      cases hp : (!mk || decide (r.bp.pos0 = 0)) with
      | true =>
        rcases grow_spec r sb.polwf hfull sb.cap1 with ⟨n, hn, hans, hg⟩ | ⟨hans, hg⟩
        · generalize hr1 : growOk r n = r1 at hg
          have e1 : r1.br.buf = r.br.buf := by subst hr1; rfl
          have e2 : r1.bp = r.bp := by subst hr1; rfl
          have e5 : r1.state = r.state := by subst hr1; rfl
          have e6 : r1.br.cap = n := by subst hr1; rfl
          have e7 : r1.br.src = r.br.src := by subst hr1; rfl
          have sb1 : SafeB L r1 := by
            obtain ⟨a, b, c, d, e, f⟩ := sb
            subst hr1
            exact ⟨a, b, by simp only [growOk]; omega, by simp only [growOk]; omega, e, f⟩
          obtain ⟨br', ext, res, hfill, hbuf, hcap, hcur, hinp, hle, hok⟩ := fill_safe L r1 sb1
          have sb2 := sb1.after_fill hbuf hcap hcur hinp hle
          cases res with
          | error k =>
            rw [resume_grow_err f ip mk r r1 br' k hlt hp hg hfill]
            exact ⟨Or.inr (Or.inr ⟨_, rfl, rfl, sb2.set_state _⟩),
              fun _ => ⟨ext, by simp only [hbuf, e1]⟩⟩
          | ok m =>
            have hext := hok m rfl
            rw [resume_grow f ip mk r r1 br' m hlt hp hg hfill]
            have hav : avail L { r1 with br := br' } = avail L r := by
              simp only [avail, hbuf, hcur, List.length_append, e1, e2, e7]
              simp only [e1, e7] at hle
              omega
            have := resumeK_safe L f ip mk { r1 with br := br' } ih sb2
              (by simp only [hbuf, e1, e2, List.length_append]; omega)
              (by simp only [hbuf, e1, e2]; exact hsc.append ext)
              (by
                simp only [muS, hcur, hcap, hbuf, List.length_append, e1, e6, e7] at hext ⊢
                split <;> omega)
            rw [hav] at this
            obtain ⟨hfound, hext'⟩ := this
            refine ⟨by simpa only [e5] using hfound, fun hmk => ?_⟩
            obtain ⟨e, he⟩ := hext' hmk
            exact ⟨ext ++ e, by rw [he]; simp only [hbuf, e1, List.append_assoc]⟩
        · rw [resume_refused f ip mk r _ _ hlt hp hg]
          refine ⟨Or.inr (Or.inr ⟨_, rfl, rfl, ?_⟩), fun _ => ⟨[], by simp [growNo]⟩⟩
          obtain ⟨a, b, c, d, e, f⟩ := sb
          exact ⟨a, b, c, d, e, f⟩
      | false =>
        obtain ⟨hmr, hpre'⟩ := makeRoom_spec r ip hsc
        generalize hr1 : ({ r with br := r.br.consume r.bp.pos0, bp := shiftBp r.bp ip } : Reader)
          = r1 at hmr
        have hpne : r.bp.pos0 ≠ 0 := by
          intro h0'
          simp [h0'] at hp
        have e1 : r1.br.buf = r.br.buf.drop r.bp.pos0 := by subst hr1; rfl
        have e2 : r1.bp = shiftBp r.bp ip := by subst hr1; rfl
        have e5 : r1.state = r.state := by subst hr1; rfl
        have e6 : r1.br.cap = r.br.cap := by subst hr1; rfl
        have e7 : r1.br.src = r.br.src := by subst hr1; rfl
        have sb1 : SafeB L r1 := by
          obtain ⟨a, b, c, d, e, f⟩ := sb
          subst hr1
          refine ⟨a, b, c, ?_, ?_, ?_⟩
          · simp only [BufRd.consume, List.length_drop]; omega
          · simp only [BufRd.consume, List.length_drop]; omega
          · simp only [BufRd.consume, List.length_drop]; omega
        obtain ⟨br', ext, res, hfill, hbuf, hcap, hcur, hinp, hle, hok⟩ := fill_safe L r1 sb1
        have sb2 := sb1.after_fill hbuf hcap hcur hinp hle
        cases res with
        | error k =>
          rw [resume_room_err f ip mk r r1 br' k hlt hp hmr hfill]
          refine ⟨Or.inr (Or.inr ⟨_, rfl, rfl, sb2.set_state _⟩), fun hmk => ?_⟩
          rw [hmk] at hp
          simp at hp
        | ok m =>
          have hext := hok m rfl
          rw [resume_room f ip mk r r1 br' m hlt hp hmr hfill]
          have hav : avail L { r1 with br := br' } = avail L r := by
            simp only [avail, hbuf, hcur, List.length_append, e1, e2, e7, shiftBp,
              List.length_drop]
            simp only [e1, e7, List.length_drop] at hle
            omega
          have := resumeK_safe L f ip mk { r1 with br := br' } ih sb2
            (by simp only [e2, shiftBp]; omega)
            (by simp only [hbuf, e1, e2]; exact hpre'.append ext)
            (by
              simp only [muS, hcur, hcap, hbuf, List.length_append, e1, e6, e7,
                List.length_drop] at hext ⊢
              split <;> omega)
          rw [hav] at this
          refine ⟨by simpa only [e5] using this.1, fun hmk => ?_⟩
          rw [hmk] at hp
          simp at hp


/-! ## `next` -/

/-- a pending incomplete search: the line starts found so far are in the buffer -/
def IpOkS (r : Reader) : Prop := ∀ ip, r.incompletePos = some ip → Pre r.br.buf r.bp ip

/-- structural invariant of reader states between API calls -/
def SafeSt (L : Nat) (r : Reader) : Prop :=
  SafeB L r ∧
  match r.state with
  | .new => r.bp.pos0 ≤ r.br.buf.length ∧ r.incompletePos = none
  | .positioned => r.bp.pos0 ≤ r.br.buf.length ∧ IpOkS r
  | .parsing => r.bp.pos0 ≤ r.bp.pos1 + 1 ∧ r.bp.pos1 + 1 ≤ r.br.buf.length ∧
      r.incompletePos = none
  | .finished => True

theorem nextCont_safe (L : Nat) (fuel : Nat) (r : Reader) (sb : SafeB L r)
    (h0 : r.bp.pos0 ≤ r.br.buf.length) (hip : IpOkS r) (hfuel : L + 2 ≤ fuel) :
    FoundS L (avail L r) r.state (nextCont fuel r) := by
  have hmu : ∀ r' : Reader, muS L r' + 1 ≤ fuel := by
    intro r'
    simp only [muS]
    split <;> omega
  cases hipv : r.incompletePos with
  | some ip =>
    have : nextCont fuel r = resume fuel ip true r := by
      simp only [nextCont, hipv, Option.isNone_some, Bool.false_eq_true, if_false]
    rw [this]
    exact (resume_safe L true fuel r ip sb h0 (hip ip hipv) (hmu r)).1
  | none =>
    rcases si_spec r .head h0 trivial with ⟨bp', ip', hp0, hsc, hres⟩ | ⟨bp', hp0, hf4, hres⟩
    · have : nextCont fuel r =
          resume fuel ip' true { r with bp := bp', incompletePos := some ip' } := by
        simp only [nextCont, hipv, Option.isNone_none, if_true, search_eq r hipv, hres, wrapS]
      rw [this]
      have := (resume_safe L true fuel { r with bp := bp', incompletePos := some ip' } ip'
        (sb.set_bp _ _) (by simpa only [hp0] using h0) hsc.1 (hmu _)).1
      have hav : avail L { r with bp := bp', incompletePos := some ip' } = avail L r := by
        simp only [avail, hp0]
      rw [hav] at this
      exact this
    · have : nextCont fuel r = validated { r with bp := bp', incompletePos := none } := by
        have h1 := validate_ip { r with bp := bp', incompletePos := none }
        simp only [nextCont, hipv, Option.isNone_none, if_true, search_eq r hipv, hres]
        unfold validated
        revert h1
        generalize validate _ = v
        rcases v with ⟨r', (_ | _ | _ | _)⟩ <;> intro h1
        · simp only at h1
          simp only [wrapS, wrapV, h1]
        all_goals rfl
      rw [this]
      have := complete_safe L { r with bp := bp', incompletePos := none } (sb.set_bp _ _) rfl hf4
      have hav : avail L { r with bp := bp', incompletePos := none } = avail L r := by
        simp only [avail, hp0]
      rw [hav] at this
      exact this

/-- a result that is neither a panic nor "out of fuel" -/
def ResOk {α : Type} (res : Res α) : Prop := res ≠ .panic ∧ res ≠ .fuel

theorem resOk_ok {α : Type} (a : α) : ResOk (Out.ok a : Res α) :=
  ⟨fun h => (by cases h), fun h => (by cases h)⟩

theorem resOk_err {α : Type} (e : Err) : ResOk (Out.err e : Res α) :=
  ⟨fun h => (by cases h), fun h => (by cases h)⟩

theorem FoundS.resOk {L A st x} (h : FoundS L A st x) : ResOk x.2 := by
  rcases h with ⟨h, -⟩ | ⟨h, -⟩ | ⟨e, h, -⟩ <;> rw [h]
  · exact resOk_ok _
  · exact resOk_ok _
  · exact resOk_err _

theorem FoundS.safeSt {L A x} (h : FoundS L A .parsing x) : SafeSt L x.1 := by
  rcases h with ⟨-, hs⟩ | ⟨-, hst, sb⟩ | ⟨e, -, hst, sb⟩
  · rcases hs.rest with ⟨hst, hip, h1l⟩ | hst
    · refine ⟨hs.sb, ?_⟩
      rw [hst]
      exact ⟨Nat.le_succ_of_le (Nat.le_of_lt hs.p01), h1l, hip⟩
    · refine ⟨hs.sb, ?_⟩
      rw [hst]
      trivial
  · refine ⟨sb, ?_⟩; rw [hst]; trivial
  · refine ⟨sb, ?_⟩; rw [hst]; trivial

theorem FoundS.view {L A st x} (h : FoundS L A st x) (hr : x.2 = .ok true) :
    (viewRec x.1.br.buf x.1.bp).isSome = true := by
  rcases h with ⟨-, hs⟩ | ⟨h, -⟩ | ⟨e, h, -⟩
  · exact hs.view
  · rw [hr] at h; cases h
  · rw [hr] at h; cases h

theorem stepOver_safeB {L r} (sb : SafeB L r) : SafeB L (stepOver r) := by
  obtain ⟨a, b, c, d, e, f⟩ := sb
  exact ⟨a, b, c, d, e, f⟩

/-- one `next` call from a safe state -/
theorem next_safe (L : Nat) (fuel : Nat) (r : Reader) (hs : SafeSt L r) (hfuel : L + 2 ≤ fuel) :
    ResOk (next fuel r).2 ∧ SafeSt L (next fuel r).1 ∧
      ((next fuel r).2 = .ok true →
        (viewRec (next fuel r).1.br.buf (next fuel r).1.bp).isSome = true) := by
  obtain ⟨sb, hs⟩ := hs
  have fromFound : ∀ {A x}, FoundS L A .parsing x →
      ResOk x.2 ∧ SafeSt L x.1 ∧ (x.2 = .ok true → (viewRec x.1.br.buf x.1.bp).isSome = true) :=
    fun h => ⟨h.resOk, h.safeSt, h.view⟩
  cases hst : r.state with
  | positioned =>
    rw [hst] at hs
    have : next fuel r = nextCont fuel { r with state := .parsing } := by
      simp only [next, hst]
    rw [this]
    exact fromFound (nextCont_safe L fuel { r with state := .parsing } (sb.set_state _) hs.1 hs.2 hfuel)
  | finished =>
    have : next fuel r = (r, .ok false) := by simp only [next, hst]
    rw [this]
    refine ⟨resOk_ok _, ⟨sb, by rw [hst]; trivial⟩, fun h => by cases h⟩
  | new =>
    rw [hst] at hs
    obtain ⟨br', ext, res, hfill, hbuf, hcap, hcur, hinp, hle, hok⟩ := fill_safe L r sb
    have sb2 := sb.after_fill hbuf hcap hcur hinp hle
    cases res with
    | error k =>
      have : next fuel r = ({ r with br := br' }, .err (.io k)) := by
        simp only [next, hst, init, hfill]
      rw [this]
      refine ⟨resOk_err _, ⟨sb2, ?_⟩, fun h => by cases h⟩
      simp only [hst]
      exact ⟨by simp only [hbuf, List.length_append]; omega, hs.2⟩
    | ok n =>
      cases n with
      | zero =>
        have : next fuel r = ({ r with br := br', state := .finished }, .ok false) := by
          simp only [next, hst, init, hfill]
        rw [this]
        exact ⟨resOk_ok _, ⟨sb2.set_state _, trivial⟩, fun h => by cases h⟩
      | succ n =>
        have : next fuel r = nextCont fuel { r with br := br', state := .parsing } := by
          simp only [next, hst, init, hfill]
        rw [this]
        exact fromFound (nextCont_safe L fuel { r with br := br', state := .parsing }
          (sb2.set_state _) (by simp only [hbuf, List.length_append]; omega)
          (by intro ip h; simp only [hs.2] at h; cases h) hfuel)
  | parsing =>
    rw [hst] at hs
    obtain ⟨h01, h1l, hip⟩ := hs
    have hinc := incrementRecord_eq r h01
    have : next fuel r = nextCont fuel (stepOver r) := by
      simp only [next, hst, hinc]
    rw [this]
    have := nextCont_safe L fuel (stepOver r) (stepOver_safeB sb) h1l
      (by intro ip h; simp only [stepOver, hip] at h; cases h) hfuel
    have hst' : (stepOver r).state = .parsing := hst
    rw [hst'] at this
    exact fromFound this


/-! ## record-set reads -/

/-- safe states at the top of the record-set loop -/
def LoopS (L : Nat) (r : Reader) : Prop :=
  SafeSt L r ∧ (r.state = .positioned ∨ r.state = .finished)

/-- safe results of the loop -/
def SetOutS (L : Nat) (res : Reader × RecordSet × Res Bool) : Prop :=
  ResOk res.2.2 ∧ LoopS L res.1 ∧
    (res.2.2 = .ok true → (viewAll res.1.br.buf res.2.1.positions).isSome = true) ∧
    (res.2.2 ≠ .ok true → res.2.1.positions = [])

def lmS (L : Nat) (r : Reader) : Nat :=
  if r.state = .finished then 1
  else 2 * avail L r + (if r.incompletePos.isNone then 2 else 1)

theorem lmS_pos {L : Nat} {r : Reader} : 1 ≤ lmS L r := by
  unfold lmS; split
  · exact Nat.le_refl _
  · split <;> omega

theorem store_safe {L A : Nat} {r : Reader} {rs : RecordSet} (n : Option Nat)
    (hsh : ShownS L A .positioned r) (hv : (viewAll r.br.buf rs.positions).isSome = true) :
    storeStep n r rs = some (stepOver r, { rs with positions := rs.positions ++ [r.bp] },
        decide (n = some (rs.positions.length + 1))) ∧
      LoopS L (stepOver r) ∧
      (viewAll (stepOver r).br.buf (rs.positions ++ [r.bp])).isSome = true ∧
      ((stepOver r).state = .positioned →
        (stepOver r).incompletePos = none ∧ avail L (stepOver r) + 1 ≤ A) ∧ 1 ≤ A := by
  have h01 := hsh.p01
  have h1l' := hsh.p1l
  have hinc := incrementRecord_eq r (show r.bp.pos0 ≤ r.bp.pos1 + 1 by omega)
  obtain ⟨xs, hxs⟩ := Option.isSome_iff_exists.mp hv
  obtain ⟨x, hx⟩ := Option.isSome_iff_exists.mp hsh.view
  refine ⟨by simp only [storeStep, hinc, List.length_append, List.length_singleton], ?_,
    by rw [show (stepOver r).br = r.br from rfl, viewAll_snoc hxs hx]; rfl, ?_, ?_⟩
  · rcases hsh.rest with ⟨hst, hip, h1l⟩ | hst
    · have hst2 : (stepOver r).state = .positioned := hst
      refine ⟨⟨stepOver_safeB hsh.sb, ?_⟩, Or.inl hst2⟩
      rw [hst2]
      exact ⟨h1l, by intro ip h; rw [show (stepOver r).incompletePos = none from hip] at h; cases h⟩
    · have hst2 : (stepOver r).state = .finished := hst
      refine ⟨⟨stepOver_safeB hsh.sb, ?_⟩, Or.inr hst2⟩
      rw [hst2]
      trivial
  · intro hst
    rcases hsh.rest with ⟨-, hip, h1l⟩ | hst'
    · refine ⟨hip, ?_⟩
      have := hsh.av
      simp only [avail, stepOver] at this ⊢
      omega
    · rw [show (stepOver r).state = r.state from rfl, hst'] at hst; cases hst
  · have := hsh.av
    simp only [avail] at this
    omega

theorem setLoop_safe (L : Nat) (fuel : Nat) (hfuel : L + 2 ≤ fuel) (n : Option Nat) (f : Nat) :
    ∀ (isNew : Bool) (r : Reader) (rs : RecordSet),
      LoopS L r → (viewAll r.br.buf rs.positions).isSome = true →
      (isNew = true → r.state = .positioned → r.incompletePos ≠ none → rs.positions = []) →
      (r.state = .finished → rs.positions ≠ []) →
      lmS L r ≤ f →
      SetOutS L (setLoop f fuel n isNew r rs) := by
  induction f with
  | zero =>
    intro isNew r rs _ _ _ _ h
    have := @lmS_pos L r
    omega
  | succ f ih =>
    intro isNew r rs hl hv hnew hfin hlm
    obtain ⟨⟨sb, hs⟩, hst⟩ := hl
    have after : ∀ (r1 : Reader), ShownS L (avail L r) .positioned r1 →
        (viewAll r1.br.buf rs.positions).isSome = true → r.state = .positioned →
        SetOutS L
          (if n = some (rs.positions.length + 1) then
            (stepOver r1, { rs with positions := rs.positions ++ [r1.bp] }, .ok true)
           else setLoop f fuel n isNew (stepOver r1)
            { rs with positions := rs.positions ++ [r1.bp] }) := by
      intro r1 hsh hv1 hstp
      obtain ⟨-, hl2, hv2, hm2, hA⟩ := store_safe n hsh hv1
      by_cases hk : n = some (rs.positions.length + 1)
      · rw [if_pos hk]
        exact ⟨resOk_ok _, hl2, fun _ => hv2, fun h => absurd rfl h⟩
      · rw [if_neg hk]
        apply ih isNew (stepOver r1) _ hl2 hv2
        · intro _ hs2 hne
          exact absurd (hm2 hs2).1 hne
        · intro _; simp
        · have hlm' : lmS L r ≥ 2 * avail L r + 1 := by
            unfold lmS; rw [hstp]; simp only [reduceCtorEq, if_false]; split <;> omega
          unfold lmS
          split
          · omega
          · rename_i hnf
            have hs2 : (stepOver r1).state = .positioned := by
              rcases hl2.2 with h | h
              · exact h
              · exact absurd h hnf
            obtain ⟨hip2, hb2⟩ := hm2 hs2
            rw [hip2]
            simp only [Option.isNone_none, if_true]
            omega
    have hmu : ∀ r' : Reader, muS L r' + 1 ≤ fuel := by
      intro r'
      simp only [muS]
      split <;> omega
    rcases hst with hst | hst
    · rw [hst] at hs
      obtain ⟨h0, hip⟩ := hs
      have hnf : ¬ r.state = .finished := by rw [hst]; simp
      cases hipv : r.incompletePos with
      | some ip =>
        obtain ⟨hF, hE⟩ := resume_safe L isNew fuel { r with incompletePos := none } ip
          (sb.set_bp r.bp none) h0 (hip ip hipv) (hmu _)
        have hvx : ∀ r' : Reader, (isNew = false → ∃ e, r'.br.buf = r.br.buf ++ e) →
            (viewAll r'.br.buf rs.positions).isSome = true := by
          intro r' hext
          cases hnw : isNew with
          | false =>
            obtain ⟨e, he'⟩ := hext hnw
            obtain ⟨xs, hxs⟩ := Option.isSome_iff_exists.mp hv
            rw [he', viewAll_append e hxs]; rfl
          | true =>
            have hp := hnew hnw hst (by rw [hipv]; simp)
            rw [hp]; rfl
        rcases hx : resume fuel ip isNew { r with incompletePos := none } with ⟨r1, res1⟩
        rw [hx] at hF hE
        replace hF : FoundS L (avail L r) .positioned (r1, res1) := by
          rw [show avail L { r with incompletePos := none } = avail L r from rfl,
            show ({ r with incompletePos := none } : Reader).state = .positioned from hst] at hF
          exact hF
        have hv1 := hvx r1 hE
        rcases hF with ⟨hr, hsh⟩ | ⟨hr, hfin1⟩ | ⟨e, hr, hfin1⟩
        · simp only at hr hsh
          subst hr
          obtain ⟨hstore, -⟩ := store_safe n hsh hv1
          have := after r1 hsh hv1 hst
          have heq : setLoop (f + 1) fuel n isNew r rs =
              (if n = some (rs.positions.length + 1) then
                (stepOver r1, { rs with positions := rs.positions ++ [r1.bp] }, .ok true)
               else setLoop f fuel n isNew (stepOver r1)
                { rs with positions := rs.positions ++ [r1.bp] }) := by
            rw [setLoop, if_neg hnf]
            simp only [hipv, hx, hstore]
            by_cases hk : n = some (rs.positions.length + 1)
            · simp only [hk, decide_true, if_true]
            · simp only [hk, decide_false, if_false]
          rw [heq]
          exact this
        · simp only at hr hfin1
          subst hr
          have hl1 : LoopS L r1 := ⟨⟨hfin1.2, by rw [hfin1.1]; trivial⟩, Or.inr hfin1.1⟩
          by_cases hemp : rs.positions.isEmpty = true
          · have heq : setLoop (f + 1) fuel n isNew r rs = (r1, rs, .ok false) := by
              rw [setLoop, if_neg hnf]
              simp only [hipv, hx, hemp, if_true]
            rw [heq]
            exact ⟨resOk_ok _, hl1, fun h => (by cases h), fun _ => List.isEmpty_iff.mp hemp⟩
          · have heq : setLoop (f + 1) fuel n isNew r rs = (r1, rs, .ok true) := by
              rw [setLoop, if_neg hnf]
              simp only [hipv, hx, hemp]
              rfl
            rw [heq]
            exact ⟨resOk_ok _, hl1, fun _ => hv1, fun h => absurd rfl h⟩
        · simp only at hr hfin1
          subst hr
          have hl1 : LoopS L r1 := ⟨⟨hfin1.2, by rw [hfin1.1]; trivial⟩, Or.inr hfin1.1⟩
          have heq : setLoop (f + 1) fuel n isNew r rs =
              (r1, { rs with positions := [] }, .err e) := by
            rw [setLoop, if_neg hnf]
            simp only [hipv, hx]
          rw [heq]
          exact ⟨resOk_err _, hl1, fun h => (by cases h), fun _ => rfl⟩
      | none =>
        rcases si_spec r .head h0 trivial with
          ⟨bp', ip', hp0, hsc, hres⟩ | ⟨bp', hp0, hf4, hres⟩
        · have hs' : search r = ({ r with bp := bp', incompletePos := some ip' }, .ok false) := by
            rw [search_eq r hipv, hres]; rfl
          have hl1 : LoopS L { r with bp := bp', incompletePos := some ip' } := by
            refine ⟨⟨sb.set_bp _ _, ?_⟩, Or.inl hst⟩
            rw [show ({ r with bp := bp', incompletePos := some ip' } : Reader).state = .positioned
              from hst]
            refine ⟨by simpa only [hp0] using h0, ?_⟩
            intro ip h
            simp only [Option.some.injEq] at h
            subst h
            exact hsc.1
          have hlm1 : lmS L { r with bp := bp', incompletePos := some ip' } ≤ f := by
            have h1 : lmS L r = 2 * avail L r + 2 := by
              unfold lmS; rw [hst, hipv]; simp
            have h2 : lmS L { r with bp := bp', incompletePos := some ip' } =
                2 * avail L r + 1 := by
              unfold lmS; simp [hst, avail, hp0]
            omega
          by_cases hemp : rs.positions.isEmpty = true
          · have heq : setLoop (f + 1) fuel n isNew r rs =
                setLoop f fuel n isNew { r with bp := bp', incompletePos := some ip' } rs := by
              rw [setLoop, if_neg hnf]
              simp only [hipv, hs', hemp, if_true]
            rw [heq]
            have hp : rs.positions = [] := List.isEmpty_iff.mp hemp
            exact ih isNew _ rs hl1 hv (fun _ _ _ => hp)
              (fun h => by simp only [hst] at h; cases h) hlm1
          · rcases Option.eq_none_or_eq_some n with hnv | ⟨n', hnv⟩
            · have heq : setLoop (f + 1) fuel n isNew r rs =
                  ({ r with bp := bp', incompletePos := some ip' }, rs, .ok true) := by
                rw [setLoop, if_neg hnf]
                simp only [hipv, hs', hemp, hnv]
                rfl
              rw [heq]
              exact ⟨resOk_ok _, hl1, fun _ => hv, fun h => absurd rfl h⟩
            · by_cases hlt : rs.positions.length < n'
              · have heq : setLoop (f + 1) fuel n isNew r rs =
                    setLoop f fuel n false { r with bp := bp', incompletePos := some ip' } rs := by
                  rw [setLoop, if_neg hnf]
                  simp only [hipv, hs', hemp, hnv, hlt, if_true]
                  rfl
                rw [heq]
                exact ih false _ rs hl1 hv (fun h => by cases h)
                  (fun h => by simp only [hst] at h; cases h) hlm1
              · have heq : setLoop (f + 1) fuel n isNew r rs =
                    ({ r with bp := bp', incompletePos := some ip' }, rs, .ok true) := by
                  rw [setLoop, if_neg hnf]
                  simp only [hipv, hs', hemp, hnv, hlt, if_false]
                  rfl
                rw [heq]
                exact ⟨resOk_ok _, hl1, fun _ => hv, fun h => absurd rfl h⟩
        · have hs' : search r = validated { r with bp := bp', incompletePos := none } := by
            rw [search_eq r hipv, hres, wrapS_wrapV_validate]
          have hav : avail L { r with bp := bp', incompletePos := none } = avail L r := by
            simp only [avail, hp0]
          have hrec := hf4.rec4
          have h1 : bp'.pos1 + 1 ≤ r.br.buf.length := (nl_some hf4.2.2.2).2.1
          rcases validated_safe { r with bp := bp', incompletePos := none } hrec with
            ⟨hval, hview⟩ | ⟨e, hval⟩
          · have hsh' : ShownS L (avail L r) .positioned
                { r with bp := bp', incompletePos := none } := by
              refine ⟨sb.set_bp _ _, hview, ?_, by simp only; omega, by rw [hav]; exact Nat.le_refl _,
                Or.inl ⟨hst, rfl, h1⟩⟩
              have := hrec.h1; have := hrec.h2; have := hrec.h3; have := hrec.h4
              simp only at *
              omega
            obtain ⟨hstore, -⟩ := store_safe n hsh' (rs := rs) hv
            have := after _ hsh' hv hst
            have heq : setLoop (f + 1) fuel n isNew r rs =
                (if n = some (rs.positions.length + 1) then
                  (stepOver { r with bp := bp', incompletePos := none },
                    { rs with positions := rs.positions ++ [bp'] }, .ok true)
                 else setLoop f fuel n isNew (stepOver { r with bp := bp', incompletePos := none })
                  { rs with positions := rs.positions ++ [bp'] }) := by
              rw [setLoop, if_neg hnf]
              simp only [hipv, hs', hval, hstore]
              by_cases hk : n = some (rs.positions.length + 1)
              · simp only [hk, decide_true, if_true]
              · simp only [hk, decide_false, if_false]
            rw [heq]
            exact this
          · have heq : setLoop (f + 1) fuel n isNew r rs =
                ({ r with bp := bp', incompletePos := none, state := .finished },
                  { rs with positions := [] }, .err e) := by
              rw [setLoop, if_neg hnf]
              simp only [hipv, hs', hval]
            rw [heq]
            refine ⟨resOk_err _, ⟨⟨?_, trivial⟩, Or.inr rfl⟩, fun h => (by cases h), fun _ => rfl⟩
            obtain ⟨a, b, c, d, e, f⟩ := sb
            exact ⟨a, b, c, d, e, f⟩
    · rw [setLoop_fin f fuel n isNew r rs hst]
      exact ⟨resOk_ok _, ⟨⟨sb, hs⟩, Or.inr hst⟩, fun _ => hv, fun h => absurd rfl h⟩


theorem avail_le {L : Nat} {r : Reader} (sb : SafeB L r) : avail L r ≤ L := by
  have := sb.len_cur
  have := sb.beyond
  simp only [avail]
  omega

theorem SetOutS.fin {L : Nat} {x : Reader × RecordSet × Res Bool} (h : SetOutS L x) :
    ResOk (setFin x).2.2 ∧ SafeSt L (setFin x).1 ∧
      (viewAll (setFin x).2.1.buffer (setFin x).2.1.positions).isSome = true := by
  rcases x with ⟨r, rs, res⟩
  obtain ⟨h1, h2, h3, h4⟩ := h
  by_cases hr : res = .ok true
  · subst hr
    exact ⟨h1, h2.1, h3 rfl⟩
  · have hp : rs.positions = [] := h4 hr
    have : setFin (r, rs, res) = (r, rs, res) := by
      rcases res with (b | _ | _ | _)
      · cases b
        · rfl
        · exact absurd rfl hr
      all_goals rfl
    rw [this]
    exact ⟨h1, h2.1, by simp only [hp]; rfl⟩

theorem loop_from_safe (L : Nat) (fuel : Nat) (hfuel : 2 * L + 4 ≤ fuel) (n : Option Nat)
    (r : Reader) (rs : RecordSet) (hs : SafeSt L r) (hst : r.state = .positioned) :
    SetOutS L (setLoop fuel fuel n true r { rs with positions := [] }) := by
  apply setLoop_safe L fuel (by omega) n fuel true r _ ⟨hs, Or.inl hst⟩ rfl
  · intro _ _ _; rfl
  · intro h; rw [hst] at h; cases h
  · have := avail_le hs.1
    unfold lmS
    rw [hst]
    simp only [reduceCtorEq, if_false]
    split <;> omega

/-- one record-set read from a safe state with a safe set -/
theorem readSet_safe (L : Nat) (fuel : Nat) (r : Reader) (rs : RecordSet) (n : Option Nat)
    (hs : SafeSt L r) (hrs : (viewAll rs.buffer rs.positions).isSome = true)
    (hfuel : 2 * L + 4 ≤ fuel) :
    ResOk (readRecordSetExact fuel r rs n).2.2 ∧ SafeSt L (readRecordSetExact fuel r rs n).1 ∧
      (viewAll (readRecordSetExact fuel r rs n).2.1.buffer
        (readRecordSetExact fuel r rs n).2.1.positions).isSome = true := by
  obtain ⟨sb, hs'⟩ := hs
  cases hst : r.state with
  | positioned =>
    rw [readSet_loop fuel r rs n hst]
    exact (loop_from_safe L fuel hfuel n r rs ⟨sb, hs'⟩ hst).fin
  | finished =>
    have : readRecordSetExact fuel r rs n = (r, rs, .ok false) := by
      simp only [readRecordSetExact, hst]
    rw [this]
    exact ⟨resOk_ok _, ⟨sb, hs'⟩, hrs⟩
  | new =>
    rw [hst] at hs'
    obtain ⟨br', ext, res, hfill, hbuf, hcap, hcur, hinp, hle, hok⟩ := fill_safe L r sb
    have sb2 := sb.after_fill hbuf hcap hcur hinp hle
    have hp0 : r.bp.pos0 ≤ br'.buf.length := by
      simp only [hbuf, List.length_append]; omega
    cases res with
    | error k =>
      have : readRecordSetExact fuel r rs n = ({ r with br := br' }, rs, .err (.io k)) := by
        simp only [readRecordSetExact, hst, init, hfill]
      rw [this]
      refine ⟨resOk_err _, ⟨sb2, ?_⟩, hrs⟩
      simp only [hst]
      exact ⟨hp0, hs'.2⟩
    | ok m =>
      cases m with
      | zero =>
        have : readRecordSetExact fuel r rs n =
            ({ r with br := br', state := .finished }, rs, .ok false) := by
          simp only [readRecordSetExact, hst, init, hfill]
        rw [this]
        exact ⟨resOk_ok _, ⟨sb2.set_state _, trivial⟩, hrs⟩
      | succ m =>
        have heq : readRecordSetExact fuel r rs n =
            setFin (setLoop fuel fuel n true { r with br := br', state := .positioned }
              { rs with positions := [] }) := by
          rw [← readSet_loop fuel { r with br := br', state := .positioned } rs n rfl]
          simp only [readRecordSetExact, hst, init, hfill]
        rw [heq]
        refine (loop_from_safe L fuel hfuel n _ rs ⟨sb2.set_state _, ?_⟩ rfl).fin
        exact ⟨hp0, by intro ip h; simp only [hs'.2] at h; cases h⟩
  | parsing =>
    rw [hst] at hs'
    obtain ⟨h01, h1l, hip⟩ := hs'
    have hinc := incrementRecord_eq r h01
    have heq : readRecordSetExact fuel r rs n =
        setFin (setLoop fuel fuel n true { stepOver r with state := .positioned }
          { rs with positions := [] }) := by
      rw [← readSet_loop fuel { stepOver r with state := .positioned } rs n rfl]
      simp only [readRecordSetExact, hst, hinc]
    rw [heq]
    refine (loop_from_safe L fuel hfuel n _ rs ⟨(stepOver_safeB sb).set_state _, ?_⟩ rfl).fin
    exact ⟨h1l, by intro ip h; simp only [stepOver, hip] at h; cases h⟩

/-! ## `seek` -/

/-- `BufReader::seek`: it fails and leaves the buffer alone, or succeeds and discards it -/
theorem bufSeek_cases (b : BufRd) (to : Nat) :
    (∃ k, (b.seek to).2 = some k ∧ (b.seek to).1.buf = b.buf ∧ (b.seek to).1.cap = b.cap ∧
      (b.seek to).1.src.cursor = b.src.cursor ∧ (b.seek to).1.src.inp = b.src.inp) ∨
    ((b.seek to).2 = none ∧ (b.seek to).1.buf = [] ∧ (b.seek to).1.cap = b.cap ∧
      (b.seek to).1.src.cursor = to ∧ (b.seek to).1.src.inp = b.src.inp) := by
  unfold BufRd.seek Src.seek
  split <;> rename_i h <;> split at h <;> simp only [Prod.mk.injEq] at h
  · obtain ⟨h1, h2⟩ := h
    subst h1
    exact Or.inl ⟨_, rfl, rfl, rfl, rfl, rfl⟩
  · exact absurd h.2 (by simp)
  · exact absurd h.2 (by simp)
  · obtain ⟨h1, -⟩ := h
    subst h1
    exact Or.inr ⟨rfl, rfl, rfl, rfl, rfl⟩

/-- the reader after a successful seek of the source, before the refill -/
def seekReset (r : Reader) (br1 : BufRd) (toLine toByte : Nat) : Reader :=
  { r with
    br := br1, line := toLine, byte := toByte, incompletePos := none,
    bp := { r.bp with pos0 := 0, pos1 := 0 }, state := .finished }

theorem seek_safe (L : Nat) (r : Reader) (hs : SafeSt L r) (toLine toByte : Nat) :
    ResOk (seek r toLine toByte).2 ∧ SafeSt L (seek r toLine toByte).1 := by
  obtain ⟨sb, hs'⟩ := hs
  unfold seek
  simp only
  split
  · -- inside the buffer: a partly filled buffer is completed first
    rename_i hpos
    have hp2 := hpos.2
    by_cases hlt : r.br.buf.length < r.br.cap
    · rw [if_pos hlt]
      obtain ⟨br', ext, res, hfill, hbuf, hcap, hcur, hinp, hle, hok⟩ := fill_safe L r sb
      have sb2 := sb.after_fill hbuf hcap hcur hinp hle
      rw [hfill]
      cases res with
      | error k =>
        refine ⟨resOk_err _, ⟨sb2, ?_⟩⟩
        cases hst : r.state with
        | new =>
          rw [hst] at hs'
          simp only [hbuf, List.length_append]
          exact ⟨by omega, hs'.2⟩
        | positioned =>
          -- the line starts found so far stay where they are when the buffer is extended
          rw [hst] at hs'
          simp only [hbuf, List.length_append]
          refine ⟨by omega, ?_⟩
          intro ip hip
          show Pre br'.buf r.bp ip
          rw [hbuf]
          exact (hs'.2 ip hip).append ext
        | parsing =>
          rw [hst] at hs'
          simp only [hbuf, List.length_append]
          exact ⟨hs'.1, by omega, hs'.2.2⟩
        | finished => trivial
      | ok m =>
        refine ⟨resOk_ok _, ⟨?_, ?_⟩⟩
        · obtain ⟨a, b, c, d, e, f⟩ := sb2
          exact ⟨a, b, c, d, e, f⟩
        · refine ⟨?_, fun ip h => by cases h⟩
          simp only [hbuf, List.length_append]
          omega
    · rw [if_neg hlt]
      refine ⟨resOk_ok _, ⟨?_, ?_⟩⟩
      · obtain ⟨a, b, c, d, e, f⟩ := sb
        exact ⟨a, b, c, d, e, f⟩
      · refine ⟨?_, fun ip h => by cases h⟩
        simp only
        omega
  · -- a real seek
    rcases hsk : r.br.seek toByte with ⟨br1, o⟩
    have hcases := bufSeek_cases r.br toByte
    rw [hsk] at hcases
    simp only at hcases
    rcases hcases with ⟨k, ho, hb1, hc1, hcu1, hi1⟩ | ⟨ho, hb1, hc1, hcu1, hi1⟩
    · subst ho
      simp only
      refine ⟨resOk_err _, ⟨?_, ?_⟩⟩
      · obtain ⟨a, b, c, d, e, f⟩ := sb
        exact ⟨by simp only [hi1]; exact a, b, by simp only [hc1]; exact c,
          by simp only [hb1, hc1]; exact d, by simp only [hb1, hcu1]; exact e,
          by simp only [hb1, hcu1]; exact f⟩
      · cases hst : r.state with
        | new => rw [hst] at hs'; simp only [hb1]; exact hs'
        | positioned =>
          rw [hst] at hs'
          simp only [hb1]
          exact ⟨hs'.1, fun ip h => by rw [hb1]; exact hs'.2 ip h⟩
        | parsing => rw [hst] at hs'; simp only [hb1]; exact hs'
        | finished => trivial
    · subst ho
      simp only
      have sb1 : SafeB L (seekReset r br1 toLine toByte) := by
        obtain ⟨a, b, c, d, e, f⟩ := sb
        refine ⟨by simp only [seekReset, hi1]; exact a, b, by simp only [seekReset, hc1]; exact c,
          by simp [seekReset, hb1], by simp [seekReset, hb1], fun _ => by simp [seekReset, hb1]⟩
      obtain ⟨br', ext, res, hfill, hbuf, hcap, hcur, hinp, hle, hok⟩ :=
        fill_safe L (seekReset r br1 toLine toByte) sb1
      have sb2 := sb1.after_fill hbuf hcap hcur hinp hle
      have hfill' : fillBuf br1 = (br', res) := hfill
      simp only [hfill']
      cases res with
      | error k =>
        refine ⟨resOk_err _, ⟨?_, trivial⟩⟩
        obtain ⟨a, b, c, d, e, f⟩ := sb2
        exact ⟨a, b, c, d, e, f⟩
      | ok m =>
        refine ⟨resOk_ok _, ⟨?_, ?_⟩⟩
        · obtain ⟨a, b, c, d, e, f⟩ := sb2
          exact ⟨a, b, c, d, e, f⟩
        · exact ⟨Nat.zero_le _, fun ip h => by cases h⟩

/-! ## histories -/

/-- the machine state is safe: the reader and the three record sets -/
def SafeM (L : Nat) (m : MSt) : Prop :=
  SafeSt L m.r ∧ ∀ j, (viewAll (m.getSet j).buffer (m.getSet j).positions).isSome = true

/-- an observation that is neither a panic nor "out of fuel" -/
def ObsOk (o : ObsH) : Prop := o ≠ .panic ∧ o ≠ .fuel

theorem fuelOf_ge' {L : Nat} {r : Reader} (h : r.br.src.inp.length = L) :
    2 * L + 4 ≤ fuelOf r := by
  simp only [fuelOf, opFuel, h]; omega

theorem step_safe (L : Nat) (m : MSt) (hm : SafeM L m) (op : Op) :
    SafeM L (stepM m op).1 ∧ ObsOk (stepM m op).2 := by
  obtain ⟨hs, hsets⟩ := hm
  have hfuel := fuelOf_ge' hs.1.inpL
  have nextCase : SafeM L (stepNext m).1 ∧ ObsOk (stepNext m).2 := by
    obtain ⟨h1, h2, h3⟩ := next_safe L (fuelOf m.r) m.r hs (by omega)
    simp only [stepNext]
    refine ⟨⟨h2, fun j => ?_⟩, ?_⟩
    · have : ({ m with r := (next (fuelOf m.r) m.r).1 } : MSt).getSet j = m.getSet j := by
        match j with
        | 0 => rfl
        | 1 => rfl
        | _ + 2 => rfl
      rw [this]; exact hsets j
    · rcases hres : (next (fuelOf m.r) m.r).2 with (b | e | _ | _)
      · cases b
        · simp only [obsNext]; exact (by constructor <;> (intro h; cases h))
        · have hv := h3 hres
          obtain ⟨x, hx⟩ := Option.isSome_iff_exists.mp hv
          simp only [obsNext, hx]; exact (by constructor <;> (intro h; cases h))
      · simp only [obsNext]; exact (by constructor <;> (intro h; cases h))
      · exact absurd hres h1.1
      · exact absurd hres h1.2
  cases op with
  | next => exact nextCase
  | owned => exact nextCase
  | set j n =>
    obtain ⟨h1, h2, h3⟩ := readSet_safe L (fuelOf m.r) m.r (m.getSet j) n hs (hsets j) hfuel
    simp only [stepM, stepSet]
    refine ⟨⟨by rw [MSt.putSet_r]; exact h2, fun i => ?_⟩, ?_⟩
    · rw [MSt.getSet_putSet]
      split
      · exact h3
      · have : ({ m with r := (readRecordSetExact (fuelOf m.r) m.r (m.getSet j) n).1 } : MSt).getSet i
            = m.getSet i := by
          match i with
          | 0 => rfl
          | 1 => rfl
          | _ + 2 => rfl
        rw [this]; exact hsets i
    · rcases hres : (readRecordSetExact (fuelOf m.r) m.r (m.getSet j) n).2.2 with (b | e | _ | _)
      · cases b <;> simp only [obsSet] <;> exact (by constructor <;> (intro h; cases h))
      · simp only [obsSet]; exact (by constructor <;> (intro h; cases h))
      · exact absurd hres h1.1
      · exact absurd hres h1.2
  | dump j =>
    refine ⟨⟨hs, hsets⟩, ?_⟩
    obtain ⟨xs, hxs⟩ := Option.isSome_iff_exists.mp (hsets j)
    simp only [stepM, obsDump, hxs]
    exact (by constructor <;> (intro h; cases h))
  | pos =>
    exact ⟨⟨hs, hsets⟩, by simp only [stepM]; exact (by constructor <;> (intro h; cases h))⟩
  | seekItem i =>
    simp only [stepM, stepSeek]
    split
    · exact ⟨⟨hs, hsets⟩, (by constructor <;> (intro h; cases h))⟩
    · rename_i it _
      obtain ⟨h1, h2⟩ := seek_safe L m.r hs (itemPos it).1 (itemPos it).2
      refine ⟨⟨h2, fun j => ?_⟩, ?_⟩
      · have : ({ m with r := (seek m.r (itemPos it).1 (itemPos it).2).1 } : MSt).getSet j
            = m.getSet j := by
          match j with
          | 0 => rfl
          | 1 => rfl
          | _ + 2 => rfl
        rw [this]; exact hsets j
      · rcases hres : (seek m.r (itemPos it).1 (itemPos it).2).2 with (b | e | _ | _)
        · simp only [obsSeek]; exact (by constructor <;> (intro h; cases h))
        · simp only [obsSeek]; exact (by constructor <;> (intro h; cases h))
        · exact absurd hres h1.1
        · exact absurd hres h1.2

theorem safeM_mkM (inp : List UInt8) (cap : Nat) (hcap : 1 ≤ cap) (pol : Pol) (hwf : PolWf1 pol)
    (script : List ReadEv) (chunk : Nat) (seekFails : List (Nat × IoKind)) :
    SafeM inp.length (mkM inp cap pol script chunk seekFails) := by
  refine ⟨⟨⟨rfl, hwf, hcap, Nat.zero_le _, Nat.zero_le _, fun _ => rfl⟩, ⟨Nat.zero_le _, rfl⟩⟩,
    fun j => ?_⟩
  match j with
  | 0 => rfl
  | 1 => rfl
  | _ + 2 => rfl

theorem run_safe (L : Nat) : ∀ (ops : List Op) (m : MSt), SafeM L m →
    ∀ o ∈ runM m ops, o ≠ .panic ∧ o ≠ .fuel := by
  intro ops
  induction ops with
  | nil => intro m _ o ho; cases ho
  | cons op ops ih =>
    intro m hm o ho
    obtain ⟨h1, h2⟩ := step_safe L m hm op
    simp only [runM, List.mem_cons] at ho
    rcases ho with rfl | ho
    · exact h2
    · exact ih _ h1 o ho

/-- **(c)** Totality: for every input, capacity ≥ 1, policy that answers more than the capacity
it is passed or refuses, **every** read script (failing reads included), chunking, failing
seeks, and every history of API calls: no observation is a panic or "out of fuel". -/
theorem fastq_history_total (inp : List UInt8) (cap : Nat) (hcap : 1 ≤ cap) (pol : Pol)
    (hpol : PolWf pol) (script : List ReadEv) (chunk : Nat) (seekFails : List (Nat × IoKind))
    (ops : List Op) :
    ∀ o ∈ runM (mkM inp cap pol script chunk seekFails) ops, o ≠ .panic ∧ o ≠ .fuel :=
  run_safe inp.length ops _ (safeM_mkM inp cap hcap pol (PolWf.wf1 hpol) script chunk seekFails)

end SeqIo.Fastq
