import SeqIoModel.Proofs.FastqStreamOutcome
/-!
# FASTQ stream proof, part 5: `grow`, `make_room`, refill and the loop of
`resume_incomplete_search`
-/

namespace SeqIo.Fastq
open SeqIo SeqIo.Spec SeqIo.WriteProofs SeqIo.FillProofs

theorem polGrows_hist {p : Pol} (h : PolGrows p) (hist : List Nat) :
    PolGrows { p with hist := hist } := h

/-- `grow` on a full buffer with a well-behaved policy: the capacity increases -/
theorem grow_spec (r : Reader) (hpol : PolGrows r.pol) (hfull : r.br.buf.length = r.br.cap)
    (hcap : 1 ≤ r.br.cap) :
    ∃ pol' log' n, r.br.cap < n ∧ PolGrows pol' ∧
      grow r = ({ r with pol := pol', log := log', br := { r.br with cap := n } }, .ok ()) := by
  obtain ⟨n, hn, hlt⟩ := hpol r.pol.hist r.br.cap hcap
  refine ⟨{ r.pol with hist := r.pol.hist ++ [r.br.cap] }, r.log ++ [(r.br.cap, some n)], n, hlt,
    polGrows_hist hpol _, ?_⟩
  have hne : r.br.buf.isEmpty = false := by
    cases hb : r.br.buf with
    | nil => rw [hb] at hfull; simp at hfull; omega
    | cons => rfl
  have hres : r.br.reserve (n - r.br.cap) = { r.br with cap := n } := by
    simp only [BufRd.reserve, hfull, Nat.sub_self, hne]
    rw [if_neg (by omega)]
    simp only [Bool.false_eq_true, if_false, Nat.sub_zero]
    congr 1
    omega
  simp only [grow, Pol.growTo, hn, csub_of_le (Nat.le_of_lt hlt), hres]

/-- the offsets after `make_room` -/
def shiftBp (bp : BufPos) (ip : RecordPos) : BufPos :=
  { bp with pos0 := 0,
            seq := if ip.ord ≥ RecordPos.seq.ord then bp.seq - bp.pos0 else bp.seq,
            sep := if ip.ord ≥ RecordPos.sep.ord then bp.sep - bp.pos0 else bp.sep,
            qual := if ip.ord ≥ RecordPos.qual.ord then bp.qual - bp.pos0 else bp.qual }

theorem makeRoom_spec (r : Reader) (ip : RecordPos)
    (hpre : Pre r.br.buf r.bp ip) :
    makeRoom r ip = some { r with br := r.br.consume r.bp.pos0, bp := shiftBp r.bp ip } ∧
      Pre (r.br.buf.drop r.bp.pos0) (shiftBp r.bp ip) ip := by
  cases ip with
  | head =>
    refine ⟨?_, trivial⟩
    simp [makeRoom, shiftBp, RecordPos.ord]
  | seq =>
    have a : nl r.br.buf r.bp.pos0 = some r.bp.seq := hpre
    have a' := nl_some a
    constructor
    · simp [makeRoom, shiftBp, RecordPos.ord, csub_of_le (Nat.le_of_lt a'.1)]
    · have := nl_drop_some r.bp.pos0 (Nat.le_refl _) a
      simpa [Pre, shiftBp, RecordPos.ord] using this
  | sep =>
    obtain ⟨a, b⟩ := hpre
    have a' := nl_some a
    have b' := nl_some b
    constructor
    · simp [makeRoom, shiftBp, RecordPos.ord, csub_of_le (Nat.le_of_lt a'.1),
        csub_of_le (show r.bp.pos0 ≤ r.bp.sep by omega)]
    · have h1 := nl_drop_some r.bp.pos0 (Nat.le_refl _) a
      have h2 := nl_drop_some r.bp.pos0 (Nat.le_of_lt a'.1) b
      simp only [Nat.sub_self] at h1
      simp only [Pre, shiftBp, RecordPos.ord]
      exact ⟨by simpa using h1, by simpa using h2⟩
  | qual =>
    obtain ⟨a, b, c⟩ := hpre
    have a' := nl_some a
    have b' := nl_some b
    have c' := nl_some c
    constructor
    · simp [makeRoom, shiftBp, RecordPos.ord, csub_of_le (Nat.le_of_lt a'.1),
        csub_of_le (show r.bp.pos0 ≤ r.bp.sep by omega),
        csub_of_le (show r.bp.pos0 ≤ r.bp.qual by omega)]
    · have h1 := nl_drop_some r.bp.pos0 (Nat.le_refl _) a
      have h2 := nl_drop_some r.bp.pos0 (Nat.le_of_lt a'.1) b
      have h3 := nl_drop_some r.bp.pos0 (show r.bp.pos0 ≤ r.bp.sep by omega) c
      simp only [Nat.sub_self] at h1
      simp only [Pre, shiftBp, RecordPos.ord]
      exact ⟨by simpa using h1, by simpa using h2, by simpa using h3⟩

theorem noFail_suffix {a b : List ReadEv} (h : NoFail (a ++ b)) : NoFail b :=
  fun e he k => h e (List.mem_append_right a he) k

/-- a refill keeps the window invariant and (re-)establishes the knowledge about the end -/
theorem fill_base (inp : List UInt8) (r : Reader) (hb : Base inp r) :
    ∃ br' ext n, fillBuf r.br = (br', .ok n) ∧ br'.buf = r.br.buf ++ ext ∧ br'.cap = r.br.cap ∧
      br'.src.cursor = r.br.src.cursor + ext.length ∧
      ext.length = min (r.br.cap - r.br.buf.length) (inp.length - r.br.src.cursor) ∧
      Base inp { r with br := br' } ∧ Eof inp { r with br := br' } ∧ n = ext.length := by
  obtain ⟨br', n, hfill⟩ := fillBuf_noFail_ok r.br hb.nofail
  obtain ⟨hn, used, hstep⟩ := fillBuf_ok r.br br' n hfill
  have hrem : r.br.src.remaining = inp.length - r.br.src.cursor := by
    simp only [Src.remaining, hb.inp_eq]
  rw [hrem] at hn
  have hlen : ((r.br.src.inp.drop r.br.src.cursor).take n).length = n := by
    apply length_take_drop
    rw [hb.inp_eq]; omega
  have hcur := hb.cur_le
  have hlen_le := hb.len_le
  have hp0 := hb.pos0_le
  refine ⟨br', (r.br.src.inp.drop r.br.src.cursor).take n, n, hfill, hstep.buf, hstep.cap,
    by rw [hstep.cursor, hlen], by rw [hlen, hn], ?_, ?_, hlen.symm⟩
  · refine ⟨?_, ?_, ?_, hb.polok, ?_, ?_, ?_, ?_, ?_⟩
    · simp only [hstep.inp, hb.inp_eq]
    · simp only [hstep.cursor]; omega
    · simp only
      have := hstep.script
      exact noFail_suffix (this ▸ hb.nofail)
    · simp only [hstep.cap]; exact hb.cap3
    · simp only [hstep.cap, hstep.buf, List.length_append, hlen]; omega
    · simp only [hstep.buf, List.length_append, hlen]; omega
    · simp only [hstep.buf, hstep.cursor, hb.inp_eq]
      rw [List.drop_append_of_le_length hp0, List.append_assoc, hb.win]
      congr 1
      rw [← List.drop_drop]
      exact (List.take_append_drop n _).symm
    · simp only [hstep.buf, hstep.cursor, List.length_append, hlen]
      have := hb.byte_eq
      omega
  · intro hlt
    simp only [hstep.cap, hstep.buf, List.length_append, hlen, hstep.cursor] at hlt ⊢
    omega


/-! ## the loop -/

/-- the part of a loop iteration after the refill -/
def resumeK (f : Nat) (ip : RecordPos) (r : Reader) : Reader × Res Bool :=
  match searchIncomplete r ip with
  | (r, .ok (some ip')) => resume f ip' true r
  | (r, .ok none) => (r, .ok true)
  | (r, .err e) => (r, .err e)
  | (r, .panic) => (r, .panic)
  | (r, .fuel) => (r, .fuel)

theorem resume_eof (f : Nat) (ip : RecordPos) (r : Reader) (h : r.br.buf.length < r.br.cap) :
    resume (f + 1) ip true r = checkEnd { r with state := .finished } ip := by
  rw [resume, if_pos h]

theorem resume_grow (f : Nat) (ip : RecordPos) (r r1 : Reader) (br' : BufRd) (n : Nat)
    (h : ¬ r.br.buf.length < r.br.cap) (hp : r.bp.pos0 = 0) (hg : grow r = (r1, .ok ()))
    (hfill : fillBuf r1.br = (br', .ok n)) :
    resume (f + 1) ip true r = resumeK f ip { r1 with br := br' } := by
  rw [resume, if_neg h]
  simp only [hp, Bool.not_true, Bool.false_or, decide_true, if_true, hg, hfill, resumeK]
  generalize searchIncomplete _ _ = v
  rcases v with ⟨r', ((_ | _) | _ | _ | _)⟩ <;> rfl

theorem resume_room (f : Nat) (ip : RecordPos) (r r1 : Reader) (br' : BufRd) (n : Nat)
    (h : ¬ r.br.buf.length < r.br.cap) (hp : r.bp.pos0 ≠ 0) (hg : makeRoom r ip = some r1)
    (hfill : fillBuf r1.br = (br', .ok n)) :
    resume (f + 1) ip true r = resumeK f ip { r1 with br := br' } := by
  rw [resume, if_neg h]
  simp only [hp, Bool.not_true, Bool.false_or, decide_false, Bool.false_eq_true, if_false, hg,
    hfill, resumeK]
  generalize searchIncomplete _ _ = v
  rcases v with ⟨r', ((_ | _) | _ | _ | _)⟩ <;> rfl

/-- measure of the loop: unread input, plus one while the buffer is full -/
def mu (inp : List UInt8) (r : Reader) : Nat :=
  (inp.length - r.br.src.cursor) + (if r.br.buf.length < r.br.cap then 0 else 1)

/-- after the refill: either the record is complete and `validate` decides, or the loop goes on -/
theorem resumeK_spec (inp : List UInt8) (f : Nat) (ip : RecordPos) (r : Reader)
    (ih : ∀ (r : Reader) (ip : RecordPos), Base inp r → Eof inp r → r.state = .parsing →
      Scan r.br.buf r.bp ip → mu inp r + 1 ≤ f →
      Outcome inp (itemsAt inp r.byte r.line) (resume f ip true r))
    (hb : Base inp r) (he : Eof inp r) (hst : r.state = .parsing)
    (hpre : Pre r.br.buf r.bp ip) (hmu : mu inp r + 1 ≤ f) :
    Outcome inp (itemsAt inp r.byte r.line) (resumeK f ip r) := by
  rcases si_spec r ip hb.pos0_le hpre with ⟨bp', ip', hp0, hsc, hres⟩ | ⟨bp', hp0, hf4, hres⟩
  · simp only [resumeK, hres]
    exact ih { r with bp := bp', incompletePos := some ip' } ip' (hb.set_bp bp' _ hp0) he hst hsc hmu
  · have : resumeK f ip r = validated { r with bp := bp', incompletePos := none } := by
      rw [← wrapS_wrapV_validate]
      simp only [resumeK, hres]
      generalize validate _ = v
      rcases v with ⟨r', (_ | _ | _ | _)⟩ <;> rfl
    rw [this]
    exact complete_outcome inp { r with bp := bp', incompletePos := none }
      (hb.set_bp bp' _ hp0) he hst rfl hf4

theorem resume_spec (inp : List UInt8) (f : Nat) :
    ∀ (r : Reader) (ip : RecordPos), Base inp r → Eof inp r → r.state = .parsing →
      Scan r.br.buf r.bp ip → mu inp r + 1 ≤ f →
      Outcome inp (itemsAt inp r.byte r.line) (resume f ip true r) := by
  induction f with
  | zero => intro r ip _ _ _ _ h; omega
  | succ f ih =>
    intro r ip hb he hst hsc hmu
    by_cases hlt : r.br.buf.length < r.br.cap
    · -- end of input
      rw [resume_eof f ip r hlt]
      have hcur := he hlt
      have hb' : Base inp { r with state := .finished } := by
        obtain ⟨a, b, c, d, e, f, g, w, k⟩ := hb
        exact ⟨a, b, c, d, e, f, g, w, k⟩
      by_cases hq : ip = .qual
      · subst hq
        exact eofq_outcome inp { r with state := .finished } hb' hcur rfl hsc
      · exact eof_few_outcome inp { r with state := .finished } hb' hcur rfl ip hq hsc
    · have hfull : r.br.buf.length = r.br.cap := by have := hb.len_le; omega
      have hmu0 : mu inp r = inp.length - r.br.src.cursor + 1 := by
        simp only [mu, hlt, if_false]
      by_cases hp : r.bp.pos0 = 0
      · -- grow
        obtain ⟨pol', log', n, hn, hpol', hg⟩ := grow_spec r hb.polok hfull (by have := hb.cap3; omega)
        generalize hr1 : ({ r with pol := pol', log := log', br := { r.br with cap := n } } : Reader)
          = r1 at hg
        have hb1 : Base inp r1 := by
          obtain ⟨a, b, c, d, e, f, g, w, k⟩ := hb
          subst hr1
          exact ⟨a, b, c, hpol', by simp only; omega, by simp only; omega, g, w, k⟩
        obtain ⟨br', ext, m, hfill, hbuf, hcap, hcur, hext, hb2, he2, -⟩ := fill_base inp r1 hb1
        rw [resume_grow f ip r r1 br' m hlt hp hg hfill]
        have e1 : r1.br.buf = r.br.buf := by subst hr1; rfl
        have e2 : r1.bp = r.bp := by subst hr1; rfl
        have e3 : r1.byte = r.byte := by subst hr1; rfl
        have e4 : r1.line = r.line := by subst hr1; rfl
        have e5 : r1.state = r.state := by subst hr1; rfl
        have e6 : r1.br.cap = n := by subst hr1; rfl
        have e7 : r1.br.src.cursor = r.br.src.cursor := by subst hr1; rfl
        have := resumeK_spec inp f ip { r1 with br := br' } ih hb2 he2 (by simp only [e5, hst])
          (by simp only [hbuf, e1, e2]; exact hsc.1.append ext)
          (by
            simp only [mu, hcur, hcap, hbuf, List.length_append, e1, e6, e7] at hext ⊢
            split <;> omega)
        simpa only [e3, e4] using this
      · -- make room
        obtain ⟨hmr, hpre'⟩ := makeRoom_spec r ip hsc.1
        generalize hr1 : ({ r with br := r.br.consume r.bp.pos0, bp := shiftBp r.bp ip } : Reader)
          = r1 at hmr
        have hp0 := hb.pos0_le
        have hb1 : Base inp r1 := by
          obtain ⟨a, b, c, d, e, f, g, w, k⟩ := hb
          subst hr1
          refine ⟨a, b, c, d, e, ?_, ?_, ?_, ?_⟩
          · simp only [BufRd.consume, List.length_drop]; omega
          · simp only [shiftBp]; omega
          · simpa only [BufRd.consume, shiftBp, List.drop_zero] using w
          · simp only [BufRd.consume, shiftBp, List.length_drop]; omega
        obtain ⟨br', ext, m, hfill, hbuf, hcap, hcur, hext, hb2, he2, -⟩ := fill_base inp r1 hb1
        rw [resume_room f ip r r1 br' m hlt hp hmr hfill]
        have e1 : r1.br.buf = r.br.buf.drop r.bp.pos0 := by subst hr1; rfl
        have e2 : r1.bp = shiftBp r.bp ip := by subst hr1; rfl
        have e3 : r1.byte = r.byte := by subst hr1; rfl
        have e4 : r1.line = r.line := by subst hr1; rfl
        have e5 : r1.state = r.state := by subst hr1; rfl
        have e6 : r1.br.cap = r.br.cap := by subst hr1; rfl
        have e7 : r1.br.src.cursor = r.br.src.cursor := by subst hr1; rfl
        have := resumeK_spec inp f ip { r1 with br := br' } ih hb2 he2 (by simp only [e5, hst])
          (by simp only [hbuf, e1, e2]; exact hpre'.append ext)
          (by
            simp only [mu, hcur, hcap, hbuf, List.length_append, e1, e6, e7,
              List.length_drop] at hext ⊢
            split <;> omega)
        simpa only [e3, e4] using this

end SeqIo.Fastq
