import SeqIoModel.Proofs.FastqStreamOutcome
/-!
# FASTQ stream proof, part 5: `grow`, `make_room`, refill and the loop of
`resume_incomplete_search`
-/

namespace SeqIo.Fastq
open SeqIo SeqIo.Spec SeqIo.WriteProofs SeqIo.FillProofs

/-- the reader after a granted `grow` -/
def growOk (r : Reader) (n : Nat) : Reader :=
  { r with pol := { r.pol with hist := r.pol.hist ++ [r.br.cap] },
           log := r.log ++ [(r.br.cap, some n)],
           br := { r.br with cap := n } }

/-- the reader after a refused `grow` -/
def growNo (r : Reader) : Reader :=
  { r with pol := { r.pol with hist := r.pol.hist ++ [r.br.cap] },
           log := r.log ++ [(r.br.cap, none)] }

/-- `grow` on a full buffer with a policy that answers more or refuses: the capacity
increases, or the policy refuses (then it is not a growing policy) -/
theorem grow_spec (r : Reader) (hpol : PolWf1 r.pol) (hfull : r.br.buf.length = r.br.cap)
    (hcap : 1 ≤ r.br.cap) :
    (∃ n, r.br.cap < n ∧ r.pol.f (r.pol.hist ++ [r.br.cap]) = some n ∧
      grow r = (growOk r n, .ok ())) ∨
    (r.pol.f (r.pol.hist ++ [r.br.cap]) = none ∧ grow r = (growNo r, .err .bufferLimit)) := by
  cases hn : r.pol.f (r.pol.hist ++ [r.br.cap]) with
  | none =>
    right
    refine ⟨rfl, ?_⟩
    simp only [grow, Pol.growTo, hn, growNo]
  | some n =>
    left
    have hlt := hpol r.pol.hist r.br.cap n hcap hn
    refine ⟨n, hlt, rfl, ?_⟩
    have hne : r.br.buf.isEmpty = false := by
      cases hb : r.br.buf with
      | nil => rw [hb] at hfull; simp at hfull; omega
      | cons => rfl
    have hres : r.br.reserve (n - r.br.cap) = { r.br with cap := n } := by
      simp only [BufRd.reserve, hfull, Nat.sub_self, hne]
      rw [if_neg (by omega)]
      simp only [Bool.false_eq_true, if_false, Nat.sub_zero]
      congr 1
      omega
    simp only [grow, Pol.growTo, hn, csub_of_le (Nat.le_of_lt hlt), hres, growOk]

/-- the offsets after `make_room` -/
def shiftBp (bp : BufPos) (ip : RecordPos) : BufPos :=
  { bp with pos0 := 0,
            seq := if ip.ord ≥ RecordPos.seq.ord then bp.seq - bp.pos0 else bp.seq,
            sep := if ip.ord ≥ RecordPos.sep.ord then bp.sep - bp.pos0 else bp.sep,
            qual := if ip.ord ≥ RecordPos.qual.ord then bp.qual - bp.pos0 else bp.qual }

theorem makeRoom_spec (r : Reader) (ip : RecordPos)
    (hpre : Pre r.br.buf r.bp ip) :
    makeRoom r ip = some { r with br := r.br.consume r.bp.pos0, bp := shiftBp r.bp ip } ∧
      Pre (r.br.buf.drop r.bp.pos0) (shiftBp r.bp ip) ip := by
  cases ip with
  | head =>
    refine ⟨?_, trivial⟩
    simp [makeRoom, shiftBp, RecordPos.ord]
  | seq =>
    have a : nl r.br.buf r.bp.pos0 = some r.bp.seq := hpre
    have a' := nl_some a
    constructor
    · simp [makeRoom, shiftBp, RecordPos.ord, csub_of_le (Nat.le_of_lt a'.1)]
    · have := nl_drop_some r.bp.pos0 (Nat.le_refl _) a
      simpa [Pre, shiftBp, RecordPos.ord] using this
  | sep =>
    obtain ⟨a, b⟩ := hpre
    have a' := nl_some a
    have b' := nl_some b
    constructor
    · simp [makeRoom, shiftBp, RecordPos.ord, csub_of_le (Nat.le_of_lt a'.1),
        csub_of_le (show r.bp.pos0 ≤ r.bp.sep by omega)]
    · have h1 := nl_drop_some r.bp.pos0 (Nat.le_refl _) a
      have h2 := nl_drop_some r.bp.pos0 (Nat.le_of_lt a'.1) b
      simp only [Nat.sub_self] at h1
      simp only [Pre, shiftBp, RecordPos.ord]
      exact ⟨by simpa using h1, by simpa using h2⟩
  | qual =>
    obtain ⟨a, b, c⟩ := hpre
    have a' := nl_some a
    have b' := nl_some b
    have c' := nl_some c
    constructor
    · simp [makeRoom, shiftBp, RecordPos.ord, csub_of_le (Nat.le_of_lt a'.1),
        csub_of_le (show r.bp.pos0 ≤ r.bp.sep by omega),
        csub_of_le (show r.bp.pos0 ≤ r.bp.qual by omega)]
    · have h1 := nl_drop_some r.bp.pos0 (Nat.le_refl _) a
      have h2 := nl_drop_some r.bp.pos0 (Nat.le_of_lt a'.1) b
      have h3 := nl_drop_some r.bp.pos0 (show r.bp.pos0 ≤ r.bp.sep by omega) c
      simp only [Nat.sub_self] at h1
      simp only [Pre, shiftBp, RecordPos.ord]
      exact ⟨by simpa using h1, by simpa using h2, by simpa using h3⟩

theorem noFail_suffix {a b : List ReadEv} (h : NoFail (a ++ b)) : NoFail b :=
  fun e he k => h e (List.mem_append_right a he) k

/-- a refill keeps the window invariant, whether it succeeds or fails -/
theorem fill_win_any (inp : List UInt8) (G : Prop) (r : Reader) (hb : Win inp G r) :
    ∃ br' ext res, fillBuf r.br = (br', res) ∧ br'.buf = r.br.buf ++ ext ∧ br'.cap = r.br.cap ∧
      br'.src.cursor = r.br.src.cursor + ext.length ∧
      ext.length ≤ min (r.br.cap - r.br.buf.length) (inp.length - r.br.src.cursor) ∧
      Win inp G { r with br := br' } ∧
      (∀ n, res = .ok n → n = ext.length ∧
        ext.length = min (r.br.cap - r.br.buf.length) (inp.length - r.br.src.cursor)) ∧
      (∀ k, res = .error k → ¬ G) := by
  have hrem : r.br.src.remaining = inp.length - r.br.src.cursor := by
    simp only [Src.remaining, hb.inp_eq]
  have hcur := hb.cur_le
  have hlen_le := hb.len_le
  have hlc := hb.len_cur
  -- the common part: `m` bytes of the input are appended
  have common : ∀ (br' : BufRd) (m : Nat) (rest : List ReadEv),
      m ≤ min (r.br.cap - r.br.buf.length) (inp.length - r.br.src.cursor) →
      br'.buf = r.br.buf ++ (r.br.src.inp.drop r.br.src.cursor).take m → br'.cap = r.br.cap →
      br'.src.inp = r.br.src.inp → br'.src.cursor = r.br.src.cursor + m →
      (G → NoFail br'.src.script) → (G → br'.src.seekFails = []) →
      ((r.br.src.inp.drop r.br.src.cursor).take m).length = m ∧
        Win inp G { r with br := br' } := by
    intro br' m rest hm hbuf hcap hinp hcu hnf hsf
    have hlen : ((r.br.src.inp.drop r.br.src.cursor).take m).length = m := by
      apply length_take_drop
      rw [hb.inp_eq]; omega
    have hlen' : ((inp.drop r.br.src.cursor).take m).length = m := by
      rw [← hb.inp_eq]; exact hlen
    refine ⟨hlen, ?_, ?_, hnf, hb.polwf, hb.polg, ?_, ?_, ?_, ?_, ?_, ?_⟩
    · simp only [hinp, hb.inp_eq]
    · simp only [hcu]; omega
    · simp only [hcap]; exact hb.cap3
    · simp only [hcap, hbuf, List.length_append, hlen]; omega
    · simp only [hbuf, hcu, List.length_append, hlen]; omega
    · simp only [hbuf, hcu, hb.inp_eq, List.length_append, hlen']
      have : r.br.src.cursor + m - (r.br.buf.length + m) = r.br.src.cursor - r.br.buf.length := by
        omega
      rw [this, hb.full, List.append_assoc]
      congr 1
      rw [← List.drop_drop]
      exact (List.take_append_drop m _).symm
    · simp only [hbuf, hcu, List.length_append, hlen]
      have := hb.byte_pos
      omega
    · exact hsf
  rcases h : fillBuf r.br with ⟨br', res⟩
  cases res with
  | ok n =>
    obtain ⟨hn, used, hstep⟩ := fillBuf_ok r.br br' n h
    rw [hrem] at hn
    obtain ⟨hlen, hw⟩ := common br' n [] (by rw [hn]; exact Nat.le_refl _) hstep.buf hstep.cap
      hstep.inp hstep.cursor
      (fun hG => noFail_suffix (hstep.script ▸ hb.nofail hG))
      (fun hG => by rw [hstep.seekFails]; exact hb.nosf hG)
    exact ⟨br', _, _, rfl, hstep.buf, hstep.cap, by rw [hstep.cursor, hlen],
      by rw [hlen, hn]; exact Nat.le_refl _, hw,
      fun n' hn' => (by cases hn'; exact ⟨hlen.symm, by rw [hlen, hn]⟩), fun k hk => (by cases hk)⟩
  | error k =>
    obtain ⟨b0, m, used, hstep, hs, hbf, hc, hi, hcu⟩ := fillBufAux_error _ r.br 0 br' k h
    have hm := hstep.le
    rw [hrem] at hm
    have hG : ¬ G := by
      intro hG
      have := hb.nofail hG
      rw [hstep.script, hs] at this
      exact this (.fail k) (by simp) k rfl
    obtain ⟨hlen, hw⟩ := common br' m [] hm (by rw [hbf, hstep.buf]) (by rw [hc, hstep.cap])
      (by rw [hi, hstep.inp]) (by rw [hcu, hstep.cursor]) (fun h => absurd h hG)
      (fun h => absurd h hG)
    exact ⟨br', _, _, rfl, by rw [hbf, hstep.buf], by rw [hc, hstep.cap],
      by rw [hcu, hstep.cursor, hlen], by rw [hlen]; exact hm, hw,
      fun n' hn' => (by cases hn'), fun k' _ => hG⟩

/-- a refill that succeeds (re-)establishes the knowledge about the end -/
theorem fill_cases (inp : List UInt8) (G : Prop) (r : Reader) (hb : Win inp G r) :
    (∃ br' ext n, fillBuf r.br = (br', .ok n) ∧ br'.buf = r.br.buf ++ ext ∧ br'.cap = r.br.cap ∧
      br'.src.cursor = r.br.src.cursor + ext.length ∧
      ext.length = min (r.br.cap - r.br.buf.length) (inp.length - r.br.src.cursor) ∧
      Win inp G { r with br := br' } ∧ Eof inp { r with br := br' } ∧ n = ext.length) ∨
    (∃ br' ext k, fillBuf r.br = (br', .error k) ∧ br'.buf = r.br.buf ++ ext ∧
      br'.cap = r.br.cap ∧ br'.src.cursor = r.br.src.cursor + ext.length ∧
      ext.length ≤ min (r.br.cap - r.br.buf.length) (inp.length - r.br.src.cursor) ∧
      ¬ G ∧ Win inp G { r with br := br' }) := by
  obtain ⟨br', ext, res, hfill, hbuf, hcap, hcur, hle, hw, hok, herr⟩ := fill_win_any inp G r hb
  cases res with
  | ok n =>
    obtain ⟨hn, hext⟩ := hok n rfl
    refine Or.inl ⟨br', ext, n, hfill, hbuf, hcap, hcur, hext, hw, ?_, hn⟩
    intro hlt
    have := hb.cur_le
    have := hb.len_le
    simp only [hcap, hbuf, List.length_append, hcur] at hlt ⊢
    omega
  | error k =>
    exact Or.inr ⟨br', ext, k, hfill, hbuf, hcap, hcur, hle, herr k rfl, hw⟩

/-- in an ideal environment the refill succeeds -/
theorem fill_win (inp : List UInt8) (G : Prop) (hG : G) (r : Reader) (hb : Win inp G r) :
    ∃ br' ext n, fillBuf r.br = (br', .ok n) ∧ br'.buf = r.br.buf ++ ext ∧ br'.cap = r.br.cap ∧
      br'.src.cursor = r.br.src.cursor + ext.length ∧
      ext.length = min (r.br.cap - r.br.buf.length) (inp.length - r.br.src.cursor) ∧
      Win inp G { r with br := br' } ∧ Eof inp { r with br := br' } ∧ n = ext.length := by
  rcases fill_cases inp G r hb with h | ⟨br', ext, k, -, -, -, -, -, hnG, -⟩
  · exact h
  · exact absurd hG hnG

/-! ## the loop -/

/-- the part of a loop iteration after the refill -/
def resumeK (f : Nat) (ip : RecordPos) (mk : Bool) (r : Reader) : Reader × Res Bool :=
  match searchIncomplete r ip with
  | (r, .ok (some ip')) => resume f ip' mk r
  | (r, .ok none) => (r, .ok true)
  | (r, .err e) => (r, .err e)
  | (r, .panic) => (r, .panic)
  | (r, .fuel) => (r, .fuel)

theorem resume_eof (f : Nat) (ip : RecordPos) (mk : Bool) (r : Reader)
    (h : r.br.buf.length < r.br.cap) :
    resume (f + 1) ip mk r = checkEnd { r with state := .finished } ip := by
  rw [resume, if_pos h]

theorem resume_grow (f : Nat) (ip : RecordPos) (mk : Bool) (r r1 : Reader) (br' : BufRd) (n : Nat)
    (h : ¬ r.br.buf.length < r.br.cap) (hp : (!mk || decide (r.bp.pos0 = 0)) = true)
    (hg : grow r = (r1, .ok ())) (hfill : fillBuf r1.br = (br', .ok n)) :
    resume (f + 1) ip mk r = resumeK f ip mk { r1 with br := br' } := by
  rw [resume, if_neg h]
  simp only [hp, if_true, hg, hfill, resumeK]
  generalize searchIncomplete _ _ = v
  rcases v with ⟨r', ((_ | _) | _ | _ | _)⟩ <;> rfl

theorem resume_refused (f : Nat) (ip : RecordPos) (mk : Bool) (r r1 : Reader) (e : Err)
    (h : ¬ r.br.buf.length < r.br.cap) (hp : (!mk || decide (r.bp.pos0 = 0)) = true)
    (hg : grow r = (r1, .err e)) :
    resume (f + 1) ip mk r = ({ r1 with state := .finished }, .err e) := by
  rw [resume, if_neg h]
  simp only [hp, if_true, hg]

theorem resume_room (f : Nat) (ip : RecordPos) (mk : Bool) (r r1 : Reader) (br' : BufRd) (n : Nat)
    (h : ¬ r.br.buf.length < r.br.cap) (hp : (!mk || decide (r.bp.pos0 = 0)) = false)
    (hg : makeRoom r ip = some r1) (hfill : fillBuf r1.br = (br', .ok n)) :
    resume (f + 1) ip mk r = resumeK f ip mk { r1 with br := br' } := by
  rw [resume, if_neg h]
  simp only [hp, Bool.false_eq_true, if_false, hg, hfill, resumeK]
  generalize searchIncomplete _ _ = v
  rcases v with ⟨r', ((_ | _) | _ | _ | _)⟩ <;> rfl

theorem resume_grow_err (f : Nat) (ip : RecordPos) (mk : Bool) (r r1 : Reader) (br' : BufRd)
    (k : IoKind) (h : ¬ r.br.buf.length < r.br.cap)
    (hp : (!mk || decide (r.bp.pos0 = 0)) = true)
    (hg : grow r = (r1, .ok ())) (hfill : fillBuf r1.br = (br', .error k)) :
    resume (f + 1) ip mk r = ({ r1 with br := br', state := .finished }, .err (.io k)) := by
  rw [resume, if_neg h]
  simp only [hp, if_true, hg, hfill]

theorem resume_room_err (f : Nat) (ip : RecordPos) (mk : Bool) (r r1 : Reader) (br' : BufRd)
    (k : IoKind) (h : ¬ r.br.buf.length < r.br.cap)
    (hp : (!mk || decide (r.bp.pos0 = 0)) = false)
    (hg : makeRoom r ip = some r1) (hfill : fillBuf r1.br = (br', .error k)) :
    resume (f + 1) ip mk r = ({ r1 with br := br', state := .finished }, .err (.io k)) := by
  rw [resume, if_neg h]
  simp only [hp, Bool.false_eq_true, if_false, hg, hfill]

/-- measure of the loop: unread input, plus one while the buffer is full -/
def mu (inp : List UInt8) (r : Reader) : Nat :=
  (inp.length - r.br.src.cursor) + (if r.br.buf.length < r.br.cap then 0 else 1)

/-- without permission to shift, the buffer is only extended -/
def Ext (mk : Bool) (r r' : Reader) : Prop := mk = false → ∃ e, r'.br.buf = r.br.buf ++ e

/-- the requests logged by an operation: starting from capacity `c`, every granted request
`(c, some n)` raises the capacity to `n > c`; a refused request `(c, none)` is the last one;
the `Bool` tells whether the last request was refused -/
inductive GrowLog : Nat → List (Nat × Option Nat) → Nat → Bool → Prop
  | nil (c : Nat) : GrowLog c [] c false
  | grant (c n : Nat) (rest : List (Nat × Option Nat)) (cf : Nat) (b : Bool) :
      c < n → GrowLog n rest cf b → GrowLog c ((c, some n) :: rest) cf b
  | refuse (c : Nat) : GrowLog c [(c, none)] c true

/-- growth bookkeeping of an operation that took the reader from `r` to `r'` with result `res`:
the log is extended by a well-formed chain of requests, `BufferLimit` is returned iff the last
request was refused, and (when the buffer may be shifted) every request is made while the
group being parsed does not fit into the current capacity -/
def LogOk (inp : List UInt8) (mk : Bool) (r r' : Reader) (res : Res Bool) : Prop :=
  ∃ new b, r'.log = r.log ++ new ∧ GrowLog r.br.cap new r'.br.cap b ∧
    (res = .err .bufferLimit ↔ b = true) ∧
    (mk = true → ∀ c a, (c, a) ∈ new → ¬ Fits (inp.drop r.byte) c)

theorem LogOk.same {inp mk r r' res} (hl : r'.log = r.log) (hc : r'.br.cap = r.br.cap)
    (hr : res ≠ .err .bufferLimit) : LogOk inp mk r r' res :=
  ⟨[], false, by simp [hl], by rw [hc]; exact GrowLog.nil _,
    ⟨fun h => absurd h hr, fun h => by cases h⟩, fun _ c a h => by cases h⟩

/-- after the refill: either the record is complete and `validate` decides, or the loop goes on -/
theorem resumeK_spec (inp : List UInt8) (G : Prop) (f : Nat) (ip : RecordPos) (mk : Bool)
    (r : Reader)
    (ih : ∀ (r : Reader) (ip : RecordPos), Base inp G r → Eof inp r →
      Scan r.br.buf r.bp ip → mu inp r + 1 ≤ f →
      Found inp G r.state (itemsAt inp r.byte r.line) (resume f ip mk r) ∧
        Ext mk r (resume f ip mk r).1 ∧ LogOk inp mk r (resume f ip mk r).1 (resume f ip mk r).2)
    (hb : Base inp G r) (he : Eof inp r)
    (hpre : Pre r.br.buf r.bp ip) (hmu : mu inp r + 1 ≤ f) :
    Found inp G r.state (itemsAt inp r.byte r.line) (resumeK f ip mk r) ∧
      Ext mk r (resumeK f ip mk r).1 ∧
      LogOk inp mk r (resumeK f ip mk r).1 (resumeK f ip mk r).2 := by
  rcases si_spec r ip hb.pos0_le hpre with ⟨bp', ip', hp0, hsc, hres⟩ | ⟨bp', hp0, hf4, hres⟩
  · simp only [resumeK, hres]
    exact ih { r with bp := bp', incompletePos := some ip' } ip' (hb.set_bp bp' _ hp0) he hsc hmu
  · have : resumeK f ip mk r = validated { r with bp := bp', incompletePos := none } := by
      rw [← wrapS_wrapV_validate]
      simp only [resumeK, hres]
      generalize validate _ = v
      rcases v with ⟨r', (_ | _ | _ | _)⟩ <;> rfl
    rw [this]
    refine ⟨complete_found inp G { r with bp := bp', incompletePos := none }
      (hb.set_bp bp' _ hp0) he rfl hf4, fun _ => ⟨[], ?_⟩, ?_⟩
    · rw [validated_br, List.append_nil]
    · rcases complete_found2 inp G { r with bp := bp', incompletePos := none }
        (hb.set_bp bp' _ hp0) he rfl hf4 with ⟨x, its', -, hv, -⟩ | ⟨e, b, l, -, hv⟩
      · rw [hv]; exact LogOk.same rfl rfl (by intro h; cases h)
      · rw [hv]; exact LogOk.same rfl rfl (by cases e <;> (intro h; cases h))

/-- the loop of `resume_incomplete_search` finds S's next item (`mk` = may the buffer be
shifted) -/
theorem resume_spec (inp : List UInt8) (G : Prop) (mk : Bool) (f : Nat) :
    ∀ (r : Reader) (ip : RecordPos), Base inp G r → Eof inp r →
      Scan r.br.buf r.bp ip → mu inp r + 1 ≤ f →
      Found inp G r.state (itemsAt inp r.byte r.line) (resume f ip mk r) ∧
        Ext mk r (resume f ip mk r).1 ∧
        LogOk inp mk r (resume f ip mk r).1 (resume f ip mk r).2 := by
  induction f with
  | zero => intro r ip _ _ _ h; omega
  | succ f ih =>
    intro r ip hb he hsc hmu
    by_cases hlt : r.br.buf.length < r.br.cap
    · -- end of input
      rw [resume_eof f ip mk r hlt]
      have hcur := he hlt
      have hb' : Base inp G { r with state := .finished } := hb.set_state _
      refine ⟨?_, fun _ => ⟨[], by rw [checkEnd_br, List.append_nil]⟩,
        LogOk.same (checkEnd_log _ ip).1 (by rw [checkEnd_br]) (checkEnd_log _ ip).2⟩
      by_cases hq : ip = .qual
      · subst hq
        exact eofq_found inp G r.state { r with state := .finished } hb' he hcur rfl hsc
      · exact eof_few_found inp G r.state { r with state := .finished } hb' he hcur rfl ip hq hsc
    · have hfull : r.br.buf.length = r.br.cap := by have := hb.len_le; omega
      have hmu0 : mu inp r = inp.length - r.br.src.cursor + 1 := by
        simp only [mu, hlt, if_false]
      have hw := hb.toWin
      cases hp : (!mk || decide (r.bp.pos0 = 0)) with
      | true =>
        -- grow
        rcases grow_spec r hw.polwf hfull (by have := hb.cap3; omega) with
          ⟨n, hn, hans, hg⟩ | ⟨hans, hg⟩
        · generalize hr1 : growOk r n = r1 at hg
          have hw1 : Win inp G r1 := by
            obtain ⟨a, b, c, d, e, f, g, i, w, k, z⟩ := hw
            subst hr1
            exact ⟨a, b, c, d, e, by simp only [growOk]; omega, by simp only [growOk]; omega, i, w, k, z⟩
          have e1 : r1.br.buf = r.br.buf := by subst hr1; rfl
          have e2 : r1.bp = r.bp := by subst hr1; rfl
          have e3 : r1.byte = r.byte := by subst hr1; rfl
          have e4 : r1.line = r.line := by subst hr1; rfl
          have e5 : r1.state = r.state := by subst hr1; rfl
          have e6 : r1.br.cap = n := by subst hr1; rfl
          have e7 : r1.br.src.cursor = r.br.src.cursor := by subst hr1; rfl
          have e8 : r1.log = r.log ++ [(r.br.cap, some n)] := by subst hr1; rfl
          have hunfit : mk = true → ¬ Fits (inp.drop r.byte) r.br.cap := by
            intro hmk
            rw [hmk] at hp
            have h0 : r.bp.pos0 = 0 := by simpa using hp
            have := scan_unfit (rest := inp.drop r.br.src.cursor) hsc h0
            rw [hb.win, h0, List.drop_zero, ← hfull]
            exact this
          rcases fill_cases inp G r1 hw1 with
            ⟨br', ext, m, hfill, hbuf, hcap, hcur, hext, hw2, he2, -⟩ |
            ⟨br', ext, k, hfill, hbuf, hcap, hcur, hle, hnG, hw2⟩
          rotate_left
          · -- the refill fails
            rw [resume_grow_err f ip mk r r1 br' k hlt hp hg hfill]
            refine ⟨Or.inr (Or.inr (Or.inr ⟨_, rfl, trivial, hnG, rfl, hw2.set_state _⟩)),
              fun _ => ⟨ext, by simp only [hbuf, e1]⟩,
              [(r.br.cap, some n)], false, by simp only [e8],
              GrowLog.grant _ _ _ _ _ hn (by simp only [hcap, e6]; exact GrowLog.nil _),
              ⟨fun h => (by cases h), fun h => (by cases h)⟩, ?_⟩
            intro hmk c a hmem
            simp only [List.mem_singleton, Prod.mk.injEq] at hmem
            rw [hmem.1]; exact hunfit hmk
          rw [resume_grow f ip mk r r1 br' m hlt hp hg hfill]
          have hb2 : Base inp G { r1 with br := br' } :=
            ⟨hw2, by simp only [hbuf, e1, e2, List.length_append]; have := hb.pos0_le; omega⟩
          have := resumeK_spec inp G f ip mk { r1 with br := br' } ih hb2 he2
            (by simp only [hbuf, e1, e2]; exact hsc.1.append ext)
            (by
              simp only [mu, hcur, hcap, hbuf, List.length_append, e1, e6, e7] at hext ⊢
              split <;> omega)
          obtain ⟨hfound, hext, new, b, hl1, hl2, hl3, hl4⟩ := this
          refine ⟨by simpa only [e3, e4, e5] using hfound, fun hmk => ?_,
            (r.br.cap, some n) :: new, b, ?_, ?_, hl3, ?_⟩
          · obtain ⟨e, he⟩ := hext hmk
            exact ⟨ext ++ e, by rw [he]; simp only [hbuf, e1, List.append_assoc]⟩
          · rw [hl1]; simp only [e8, List.append_assoc, List.singleton_append]
          · refine GrowLog.grant _ _ _ _ _ hn ?_
            simpa only [hcap, e6] using hl2
          · intro hmk c a hmem
            simp only [List.mem_cons, Prod.mk.injEq] at hmem
            rcases hmem with ⟨h1, -⟩ | hmem
            · rw [h1]; exact hunfit hmk
            · have := hl4 hmk c a hmem
              simpa only [e3] using this
        · rw [resume_refused f ip mk r _ _ hlt hp hg]
          have hunfit : mk = true → ¬ Fits (inp.drop r.byte) r.br.cap := by
            intro hmk
            rw [hmk] at hp
            have h0 : r.bp.pos0 = 0 := by simpa using hp
            have := scan_unfit (rest := inp.drop r.br.src.cursor) hsc h0
            rw [hb.win, h0, List.drop_zero, ← hfull]
            exact this
          refine ⟨Or.inr (Or.inr (Or.inr ⟨_, rfl, trivial, ?_, rfl, ?_⟩)),
            fun _ => ⟨[], by simp [growNo]⟩,
            [(r.br.cap, none)], true, rfl, GrowLog.refuse _, ⟨fun _ => rfl, fun _ => rfl⟩, ?_⟩
          rotate_left 2
          · intro hmk c a hmem
            simp only [List.mem_singleton, Prod.mk.injEq] at hmem
            rw [hmem.1]; exact hunfit hmk
          · intro hG
            obtain ⟨n, hn, -⟩ := hw.polg hG r.pol.hist r.br.cap (by have := hb.cap3; omega)
            rw [hn] at hans
            cases hans
          · obtain ⟨a, b, c, d, e, f, g, i, w, k, z⟩ := hw
            exact ⟨a, b, c, d, e, f, g, i, w, k, z⟩
      | false =>
        -- make room
        obtain ⟨hmr, hpre'⟩ := makeRoom_spec r ip hsc.1
        generalize hr1 : ({ r with br := r.br.consume r.bp.pos0, bp := shiftBp r.bp ip } : Reader)
          = r1 at hmr
        have hp0 := hb.pos0_le
        have hpne : r.bp.pos0 ≠ 0 := by
          intro h0
          simp [h0] at hp
        have hw1 : Win inp G r1 := by
          obtain ⟨a, b, c, d, e, f, g, i, w, k, z⟩ := hw
          subst hr1
          refine ⟨a, b, c, d, e, f, ?_, ?_, ?_, ?_, z⟩
          · simp only [BufRd.consume, List.length_drop]; omega
          · simp only [BufRd.consume, List.length_drop]; omega
          · simp only [BufRd.consume, List.length_drop]
            have : r.br.src.cursor - (r.br.buf.length - r.bp.pos0) =
                (r.br.src.cursor - r.br.buf.length) + r.bp.pos0 := by omega
            rw [this, ← List.drop_drop, w, List.drop_append_of_le_length hp0]
          · simp only [BufRd.consume, shiftBp, List.length_drop]; omega
        have e1 : r1.br.buf = r.br.buf.drop r.bp.pos0 := by subst hr1; rfl
        have e2 : r1.bp = shiftBp r.bp ip := by subst hr1; rfl
        have e3 : r1.byte = r.byte := by subst hr1; rfl
        have e4 : r1.line = r.line := by subst hr1; rfl
        have e5 : r1.state = r.state := by subst hr1; rfl
        have e6 : r1.br.cap = r.br.cap := by subst hr1; rfl
        have e7 : r1.br.src.cursor = r.br.src.cursor := by subst hr1; rfl
        have e8 : r1.log = r.log := by subst hr1; rfl
        rcases fill_cases inp G r1 hw1 with
          ⟨br', ext, m, hfill, hbuf, hcap, hcur, hext, hw2, he2, -⟩ |
          ⟨br', ext, k, hfill, hbuf, hcap, hcur, hle, hnG, hw2⟩
        rotate_left
        · -- the refill fails
          rw [resume_room_err f ip mk r r1 br' k hlt hp hmr hfill]
          refine ⟨Or.inr (Or.inr (Or.inr ⟨_, rfl, trivial, hnG, rfl, hw2.set_state _⟩)),
            fun hmk => ?_, LogOk.same e8 (by simp only [hcap, e6]) (by intro h; cases h)⟩
          rw [hmk] at hp
          simp at hp
        rw [resume_room f ip mk r r1 br' m hlt hp hmr hfill]
        have hb2 : Base inp G { r1 with br := br' } :=
          ⟨hw2, by simp only [e2, shiftBp]; omega⟩
        have := resumeK_spec inp G f ip mk { r1 with br := br' } ih hb2 he2
          (by simp only [hbuf, e1, e2]; exact hpre'.append ext)
          (by
            simp only [mu, hcur, hcap, hbuf, List.length_append, e1, e6, e7,
              List.length_drop] at hext ⊢
            split <;> omega)
        obtain ⟨hfound, -, new, b, hl1, hl2, hl3, hl4⟩ := this
        refine ⟨by simpa only [e3, e4, e5] using hfound, fun hmk => ?_, new, b,
          by rw [hl1, e8], by simpa only [hcap, e6] using hl2, hl3, ?_⟩
        · rw [hmk] at hp
          simp at hp
        · intro hmk c a hmem
          have := hl4 hmk c a hmem
          simpa only [e3] using this

end SeqIo.Fastq
