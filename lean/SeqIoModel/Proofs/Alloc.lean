import SeqIoModel.Model.Alloc
/-!
# Ghost capacities: lemmas (C18)

Capacities never shrink, a container that already held `n` elements takes `n` elements again without
allocating, and a call all of whose containers stay within what they already held allocates nothing.
-/

namespace SeqIo.Alloc

theorem amortized_ge_need (mnz cap need : Nat) : need ≤ amortized mnz cap need := by
  unfold amortized; omega

theorem amortized_gt (mnz cap : Nat) : cap < amortized mnz cap (cap + 1) := by
  unfold amortized; omega

theorem pushTo_noop (mnz fuel cap target : Nat) (h : target ≤ cap) : pushTo mnz fuel cap target = (cap, 0) := by
  cases fuel with
  | zero => rfl
  | succ f => simp [pushTo, h]

theorem pushTo_cap_ge (mnz : Nat) : ∀ (fuel cap target : Nat), cap ≤ (pushTo mnz fuel cap target).1
  | 0, cap, _ => by simp [pushTo]
  | f + 1, cap, target => by
    unfold pushTo
    split
    · simp
    · have h1 := pushTo_cap_ge mnz f (amortized mnz cap (cap + 1)) target
      have h2 := amortized_gt mnz cap
      simp only
      omega

/-- with fuel `≥ target - cap` the vector ends up large enough -/
theorem pushTo_reaches (mnz : Nat) : ∀ (fuel cap target : Nat), target ≤ cap + fuel →
    target ≤ (pushTo mnz fuel cap target).1
  | 0, cap, target, h => by simp [pushTo]; omega
  | f + 1, cap, target, h => by
    unfold pushTo
    split
    · simpa
    · have h2 := amortized_gt mnz cap
      have := pushTo_reaches mnz f (amortized mnz cap (cap + 1)) target (by omega)
      simpa using this

/-- a re-allocation is counted exactly when the capacity did not suffice -/
theorem pushTo_count_zero_iff (mnz fuel cap target : Nat) (hf : 0 < fuel) :
    (pushTo mnz fuel cap target).2 = 0 ↔ target ≤ cap := by
  cases fuel with
  | zero => omega
  | succ f =>
    unfold pushTo
    split <;> simp_all

/-! ## `Cap` -/

theorem Cap.push_lb_mono (mnz : Nat) (c : Cap) (t : Nat) : c.lb ≤ (c.push mnz t).1.lb := by
  unfold Cap.push
  split
  · exact Nat.le_refl _
  · split
    · exact pushTo_cap_ge mnz t c.lb t
    · simp; omega

theorem Cap.push_lb_ge (mnz : Nat) (c : Cap) (t : Nat) : t ≤ (c.push mnz t).1.lb := by
  unfold Cap.push
  split
  · assumption
  · split
    · exact pushTo_reaches mnz t c.lb t (by omega)
    · simp

theorem Cap.push_fits (mnz : Nat) (c : Cap) (t : Nat) (h : t ≤ c.lb) : c.push mnz t = (c, some 0) := by
  simp [Cap.push, h]

theorem Cap.extend_lb_mono (mnz : Nat) (c : Cap) (n : Nat) : c.lb ≤ (c.extend mnz n).1.lb := by
  unfold Cap.extend
  split
  · exact Nat.le_refl _
  · split
    · simp [amortized]; omega
    · simp; omega

theorem Cap.extend_lb_ge (mnz : Nat) (c : Cap) (n : Nat) : n ≤ (c.extend mnz n).1.lb := by
  unfold Cap.extend
  split
  · assumption
  · split
    · simp [amortized]; omega
    · simp

theorem Cap.extend_fits (mnz : Nat) (c : Cap) (n : Nat) (h : n ≤ c.lb) : c.extend mnz n = (c, some 0) := by
  simp [Cap.extend, h]

/-- a vector that was pushed up to `t` elements takes `t' ≤ t` elements again without allocating -/
theorem Cap.push_steady (mnz : Nat) (c : Cap) (t t' : Nat) (h : t' ≤ t) :
    (c.push mnz t).1.push mnz t' = ((c.push mnz t).1, some 0) :=
  Cap.push_fits mnz _ t' (Nat.le_trans h (Cap.push_lb_ge mnz c t))

theorem Cap.extend_steady (mnz : Nat) (c : Cap) (n n' : Nat) (h : n' ≤ n) :
    (c.extend mnz n).1.extend mnz n' = ((c.extend mnz n).1, some 0) :=
  Cap.extend_fits mnz _ n' (Nat.le_trans h (Cap.extend_lb_ge mnz c n))

@[simp] theorem Cnt.add_zero_zero : Cnt.add (some 0) (some 0) = some 0 := rfl

/-! ## FASTA -/

namespace Fa
open Fasta

/-- every stored position fits the slot it goes into, and there is a slot for each -/
def SlotsFit : List Cap → List BufPos → Prop
  | _, [] => True
  | [], _ :: _ => False
  | c :: cs, bp :: bps => bp.seqPos.length ≤ c.lb ∧ SlotsFit cs bps

theorem slotsStep_fits : ∀ (cs : List Cap) (bps : List BufPos), SlotsFit cs bps →
    slotsStep cs bps = (cs.take bps.length, some 0)
  | cs, [], _ => by cases cs <;> simp [slotsStep]
  | [], _ :: _, h => by simp [SlotsFit] at h
  | c :: cs, bp :: bps, h => by
    obtain ⟨h1, h2⟩ := h
    simp [slotsStep, Cap.extend_fits 4 c _ h1, slotsStep_fits cs bps h2]

/-- after a call the slots fit what was stored in that call -/
theorem slotsStep_then_fit : ∀ (cs : List Cap) (bps : List BufPos), SlotsFit (slotsStep cs bps).1 bps
  | cs, [] => by simp [SlotsFit]
  | [], bp :: bps => by
    simp only [slotsStep, SlotsFit]
    exact ⟨Nat.le_refl _, slotsStep_then_fit [] bps⟩
  | c :: cs, bp :: bps => by
    simp only [slotsStep, SlotsFit]
    exact ⟨Cap.extend_lb_ge 4 c _, slotsStep_then_fit cs bps⟩

/-- pointwise "no larger": fewer or as many positions, each with no more lines -/
def NoLarger : List BufPos → List BufPos → Prop
  | [], _ => True
  | _ :: _, [] => False
  | b :: bs, a :: as => b.seqPos.length ≤ a.seqPos.length ∧ NoLarger bs as

theorem slotsFit_of_noLarger : ∀ (cs : List Cap) (as bs : List BufPos), SlotsFit cs as → NoLarger bs as →
    SlotsFit cs bs
  | _, _, [], _, _ => by simp [SlotsFit]
  | _, [], _ :: _, _, h => by simp [NoLarger] at h
  | [], _ :: _, _ :: _, h, _ => by simp [SlotsFit] at h
  | c :: cs, a :: as, b :: bs, h, hn => by
    obtain ⟨h1, h2⟩ := h
    obtain ⟨n1, n2⟩ := hn
    exact ⟨Nat.le_trans n1 h1, slotsFit_of_noLarger cs as bs h2 n2⟩

theorem noLarger_length : ∀ (bs as : List BufPos), NoLarger bs as → bs.length ≤ as.length
  | [], _, _ => by simp
  | _ :: _, [], h => by simp [NoLarger] at h
  | _ :: bs, _ :: as, h => by
    have := noLarger_length bs as h.2
    simp; omega

theorem maxLen_foldl_ge (l : List BufPos) (m : Nat) : m ≤ l.foldl (fun m bp => max m bp.seqPos.length) m := by
  induction l generalizing m with
  | nil => simp
  | cons a l ih => simp only [List.foldl_cons]; exact Nat.le_trans (Nat.le_max_left _ _) (ih _)

theorem maxLen_foldl_mono (l : List BufPos) (m m' : Nat) (h : m ≤ m') :
    l.foldl (fun m bp => max m bp.seqPos.length) m ≤ l.foldl (fun m bp => max m bp.seqPos.length) m' := by
  induction l generalizing m m' with
  | nil => simpa
  | cons a l ih => simp only [List.foldl_cons]; exact ih _ _ (by omega)

theorem maxLen_noLarger : ∀ (bs as : List BufPos), NoLarger bs as → maxLen bs ≤ maxLen as := by
  suffices h : ∀ (bs as : List BufPos) (m m' : Nat), m ≤ m' → NoLarger bs as →
      bs.foldl (fun m bp => max m bp.seqPos.length) m ≤ as.foldl (fun m bp => max m bp.seqPos.length) m' from
    fun bs as hn => h bs as 0 0 (Nat.le_refl _) hn
  intro bs
  induction bs with
  | nil => intro as m m' hm _; simp only [List.foldl_nil]; exact Nat.le_trans hm (maxLen_foldl_ge as m')
  | cons b bs ih =>
    intro as m m' hm hn
    cases as with
    | nil => simp [NoLarger] at hn
    | cons a as =>
      simp only [List.foldl_cons]
      exact ih as _ _ (by have := hn.1; omega) hn.2

/-- a set read all of whose containers stay within what they hold room for allocates nothing and
leaves every capacity as it is -/
theorem setStep_fits (seqCap : Cap) (sc : SetCaps) (rs' : RecordSet) (r' : Reader) (copied : Bool)
    (hseq : max (maxLen rs'.positions) r'.bp.seqPos.length ≤ seqCap.lb)
    (hslots : SlotsFit sc.slots rs'.positions) (hlen : sc.slots.length = rs'.positions.length)
    (hpos : rs'.positions.length ≤ sc.pos.lb) (hbuf : rs'.buffer.length ≤ sc.buf.lb) :
    setStep seqCap sc rs' r' copied = (seqCap, sc, some 0) := by
  unfold setStep
  rw [Cap.push_fits 4 seqCap _ hseq, slotsStep_fits _ _ hslots, Cap.push_fits 4 sc.pos _ hpos]
  cases copied <;> simp [Cap.extend_fits 8 sc.buf _ hbuf, ← hlen]

/-- `next()` (or a seek): a record with no more lines than `seq_pos` has room for allocates nothing -/
theorem readerStep_fits (seqCap : Cap) (r' : Reader) (h : r'.bp.seqPos.length ≤ seqCap.lb) :
    readerStep seqCap r' = (seqCap, some 0) :=
  Cap.push_fits 4 seqCap _ h

/-- steady state of `next()`: after a record with `n` lines, any record with at most `n` lines is
returned without allocation and without change of capacity -/
theorem next_steady (seqCap : Cap) (r1 r2 : Reader) (h : r2.bp.seqPos.length ≤ r1.bp.seqPos.length) :
    readerStep (readerStep seqCap r1).1 r2 = ((readerStep seqCap r1).1, some 0) :=
  Cap.push_steady 4 seqCap _ _ h

theorem slotsStep_length : ∀ (cs : List Cap) (bps : List BufPos), (slotsStep cs bps).1.length = bps.length
  | cs, [] => by cases cs <;> simp [slotsStep]
  | [], bp :: bps => by simp [slotsStep, slotsStep_length [] bps]
  | c :: cs, bp :: bps => by simp [slotsStep, slotsStep_length cs bps]

/-- steady state of a reused FASTA record set: after a successful batch, a batch that is no larger –
position by position no more lines, no more buffered bytes, the record the reader stops in no longer than
anything seen – is stored without allocation and without change of any capacity -/
theorem set_steady (seqCap : Cap) (sc : SetCaps) (rs1 rs2 : RecordSet) (r1 r2 : Reader) (c2 : Bool)
    (hn : NoLarger rs2.positions rs1.positions) (hlen : rs1.positions.length ≤ rs2.positions.length)
    (hr : r2.bp.seqPos.length ≤ max (maxLen rs1.positions) r1.bp.seqPos.length)
    (hb : rs2.buffer.length ≤ rs1.buffer.length) :
    setStep (setStep seqCap sc rs1 r1 true).1 (setStep seqCap sc rs1 r1 true).2.1 rs2 r2 c2 =
      ((setStep seqCap sc rs1 r1 true).1, (setStep seqCap sc rs1 r1 true).2.1, some 0) := by
  have hl : rs2.positions.length = rs1.positions.length := by
    have := noLarger_length _ _ hn; omega
  apply setStep_fits
  · have h1 := Cap.push_lb_ge 4 seqCap (max (maxLen rs1.positions) r1.bp.seqPos.length)
    have h2 := maxLen_noLarger _ _ hn
    simp only [setStep]
    omega
  · simp only [setStep]
    exact slotsFit_of_noLarger _ _ _ (slotsStep_then_fit sc.slots rs1.positions) hn
  · simp only [setStep, slotsStep_length, hl]
  · simp only [setStep, hl]; exact Cap.push_lb_ge 4 sc.pos _
  · simp only [setStep, if_true]; exact Nat.le_trans hb (Cap.extend_lb_ge 8 sc.buf _)

/-- a whole history of `next()` calls (the readers after each call): capacities and counts -/
def runNextSteps (c : Cap) : List Reader → Cap × List Cnt
  | [] => (c, [])
  | r :: rs =>
    let s := readerStep c r
    let t := runNextSteps s.1 rs
    (t.1, s.2 :: t.2)

theorem runNextSteps_lb_mono (c : Cap) (rs : List Reader) : c.lb ≤ (runNextSteps c rs).1.lb := by
  induction rs generalizing c with
  | nil => simp [runNextSteps]
  | cons r rs ih =>
    simp only [runNextSteps]
    exact Nat.le_trans (Cap.push_lb_mono 4 c _) (ih _)

theorem runNextSteps_lb_ge (c : Cap) (rs : List Reader) (r : Reader) (h : r ∈ rs) :
    r.bp.seqPos.length ≤ (runNextSteps c rs).1.lb := by
  induction rs generalizing c with
  | nil => simp at h
  | cons a rs ih =>
    simp only [runNextSteps]
    rcases List.mem_cons.mp h with h | h
    · subst h
      exact Nat.le_trans (Cap.push_lb_ge 4 c _) (runNextSteps_lb_mono _ rs)
    · exact ih _ h

theorem runNextSteps_append (c : Cap) (a b : List Reader) :
    runNextSteps c (a ++ b) =
      ((runNextSteps (runNextSteps c a).1 b).1, (runNextSteps c a).2 ++ (runNextSteps (runNextSteps c a).1 b).2) := by
  induction a generalizing c with
  | nil => simp [runNextSteps]
  | cons x a ih => simp [runNextSteps, ih]

/-- in ANY history of `next()` calls, a call that returns a record with no more lines than some record
returned earlier (or than `seq_pos` had room for initially) allocates nothing -/
theorem next_history_steady (c : Cap) (before : List Reader) (r : Reader)
    (h : r.bp.seqPos.length ≤ c.lb ∨ ∃ q ∈ before, r.bp.seqPos.length ≤ q.bp.seqPos.length) :
    (runNextSteps c (before ++ [r])).2 = (runNextSteps c before).2 ++ [some 0] := by
  rw [runNextSteps_append]
  have hfit : r.bp.seqPos.length ≤ (runNextSteps c before).1.lb := by
    rcases h with h | ⟨q, hq, hle⟩
    · exact Nat.le_trans h (runNextSteps_lb_mono c before)
    · exact Nat.le_trans hle (runNextSteps_lb_ge c before q hq)
  simp [runNextSteps, readerStep_fits _ _ hfit]

end Fa

/-! ## FASTQ -/

namespace Fq
open Fastq

theorem setStep_fits (sc : SetCaps) (rs' : RecordSet) (copied : Bool)
    (hpos : rs'.positions.length ≤ sc.pos.lb) (hbuf : rs'.buffer.length ≤ sc.buf.lb) :
    setStep sc rs' copied false = (sc, some 0) := by
  unfold setStep
  cases copied <;> simp [Cap.push_fits 4 sc.pos _ hpos, Cap.extend_fits 8 sc.buf _ hbuf]

/-- steady state of a reused FASTQ record set: after a successful batch, a batch with no more records
and no more buffered bytes is stored without allocation -/
theorem set_steady (sc : SetCaps) (rs1 rs2 : RecordSet) (c1 c2 : Bool)
    (hn : rs2.positions.length ≤ rs1.positions.length)
    (hb : rs2.buffer.length ≤ rs1.buffer.length) (hc : c2 = true → c1 = true) :
    setStep (setStep sc rs1 c1 false).1 rs2 c2 false = ((setStep sc rs1 c1 false).1, some 0) := by
  cases c2 with
  | false =>
    have hp := Cap.push_steady 4 sc.pos _ _ hn
    cases c1 <;> simp [setStep, hp]
  | true =>
    have hc1 : c1 = true := hc rfl
    subst hc1
    apply setStep_fits
    · simp [setStep]; exact Nat.le_trans hn (Cap.push_lb_ge 4 sc.pos _)
    · simp [setStep]; exact Nat.le_trans hb (Cap.extend_lb_ge 8 sc.buf _)

end Fq

end SeqIo.Alloc

/-! ## Memory is bounded by the largest demand, not by the length of the history (C16) -/

namespace SeqIo.Alloc

theorem pushTo_bound (mnz M : Nat) : ∀ (fuel cap target : Nat), target ≤ M → cap ≤ max mnz (2 * M) →
    (pushTo mnz fuel cap target).1 ≤ max mnz (2 * M)
  | 0, cap, _, _, hc => by simpa [pushTo] using hc
  | f + 1, cap, target, ht, hc => by
    unfold pushTo
    split
    · simpa using hc
    · rename_i hlt
      have hlt' : cap < target := Nat.lt_of_not_le hlt
      have hstep : amortized mnz cap (cap + 1) ≤ max mnz (2 * M) := by
        unfold amortized
        omega
      simpa using pushTo_bound mnz M f _ target ht hstep

/-- a vector filled by single pushes never has more than twice the room of the largest fill (or the minimum
non-zero capacity), however many times it is cleared and refilled -/
theorem Cap.push_bound (mnz M : Nat) (c : Cap) (t : Nat) (ht : t ≤ M) (hc : c.lb ≤ max mnz (2 * M)) :
    (c.push mnz t).1.lb ≤ max mnz (2 * M) := by
  unfold Cap.push
  split
  · exact hc
  · split
    · exact pushTo_bound mnz M t c.lb t ht hc
    · simp; omega

theorem Cap.extend_bound (mnz M : Nat) (c : Cap) (n : Nat) (hn : n ≤ M) (hc : c.lb ≤ max mnz (2 * M)) :
    (c.extend mnz n).1.lb ≤ max mnz (2 * M) := by
  unfold Cap.extend
  split
  · exact hc
  · rename_i hlt
    split
    · simp only [amortized]
      omega
    · simp; omega

/-- any history of refills of one vector (`clear(); extend(n_i)`), of any length: the capacity stays below
twice the largest refill -/
theorem extend_history_bound (mnz M : Nat) (c : Cap) (ns : List Nat) (hns : ∀ n ∈ ns, n ≤ M)
    (hc : c.lb ≤ max mnz (2 * M)) :
    (ns.foldl (fun c n => (c.extend mnz n).1) c).lb ≤ max mnz (2 * M) := by
  induction ns generalizing c with
  | nil => simpa using hc
  | cons n ns ih =>
    simp only [List.foldl_cons]
    exact ih _ (fun m hm => hns m (List.mem_cons_of_mem _ hm))
      (Cap.extend_bound mnz M c n (hns n (List.mem_cons_self ..)) hc)

theorem push_history_bound (mnz M : Nat) (c : Cap) (ns : List Nat) (hns : ∀ n ∈ ns, n ≤ M)
    (hc : c.lb ≤ max mnz (2 * M)) :
    (ns.foldl (fun c n => (c.push mnz n).1) c).lb ≤ max mnz (2 * M) := by
  induction ns generalizing c with
  | nil => simpa using hc
  | cons n ns ih =>
    simp only [List.foldl_cons]
    exact ih _ (fun m hm => hns m (List.mem_cons_of_mem _ hm))
      (Cap.push_bound mnz M c n (hns n (List.mem_cons_self ..)) hc)

end SeqIo.Alloc
