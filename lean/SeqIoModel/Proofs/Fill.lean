import SeqIoModel.Model.Source
import SeqIoModel.Model.Policy
/-!
# Proofs about the buffer policies and `fill_buf`

* Part A: the built-in policies compute the documented sizes and honour the growth contract.
* Part B: `fillBuf` (model of `lib.rs::fill_buf`) is blind to how the source chunks its data,
  interrupted reads are invisible, and the first real error surfaces with its kind.
-/

namespace SeqIo.FillProofs
open SeqIo

/-! ## A. Built-in policies -/

theorem std_is_doubleUntil (c : Nat) : stdGrow c = doubleUntilGrow (2 ^ 23) c := rfl

theorem doubleUntil_below (t c : Nat) (h : c < t) : doubleUntilGrow t c = some (c * 2) := by
  simp [doubleUntilGrow, h]

theorem doubleUntil_above (t c : Nat) (h : t ≤ c) : doubleUntilGrow t c = some (c + t) := by
  have : ¬ c < t := by omega
  simp [doubleUntilGrow, this]

theorem limited_some_iff (t l c n : Nat) :
    limitedGrow t l c = some n ↔ doubleUntilGrow t c = some n ∧ n ≤ l := by
  simp only [limitedGrow, doubleUntilGrow, Option.some.injEq]
  generalize (if c < t then c * 2 else c + t) = x
  by_cases h : x ≤ l
  · simp only [h, if_true, Option.some.injEq]
    constructor
    · intro hx; subst hx; exact ⟨rfl, h⟩
    · exact fun hx => hx.1
  · simp only [h, if_false]
    constructor
    · intro hx; cases hx
    · rintro ⟨hx, hl⟩; subst hx; exact absurd hl h

theorem limited_none_iff (t l c : Nat) :
    limitedGrow t l c = none ↔ ∃ n, doubleUntilGrow t c = some n ∧ l < n := by
  simp only [limitedGrow, doubleUntilGrow, Option.some.injEq]
  generalize (if c < t then c * 2 else c + t) = x
  by_cases h : x ≤ l
  · simp only [h, if_true]
    constructor
    · intro hx; cases hx
    · rintro ⟨n, hx, hl⟩; subst hx; omega
  · simp only [h, if_false, true_iff]
    exact ⟨x, rfl, by omega⟩

/-- the built-in policies honour the contract the readers rely on:
a permitted size is larger than the current one -/
theorem doubleUntil_grows (t c n : Nat) (hc : 0 < c) (ht : 0 < t)
    (h : doubleUntilGrow t c = some n) : c < n := by
  simp only [doubleUntilGrow, Option.some.injEq] at h
  split at h <;> omega

theorem limited_grows (t l c n : Nat) (hc : 0 < c) (ht : 0 < t)
    (h : limitedGrow t l c = some n) : c < n ∧ n ≤ l := by
  rw [limited_some_iff] at h
  exact ⟨doubleUntil_grows t c n hc ht h.1, h.2⟩

/-! ## B. `fill_buf` -/

def NoFail (s : List ReadEv) : Prop := ∀ e ∈ s, ∀ k, e ≠ ReadEv.fail k

theorem noFail_nil : NoFail [] := by
  intro e he; cases he

theorem noFail_append {a b : List ReadEv} (ha : NoFail a) (hb : NoFail b) : NoFail (a ++ b) := by
  intro e he k
  rcases List.mem_append.mp he with h | h
  · exact ha e h k
  · exact hb e h k

theorem noFail_data (n : Nat) : NoFail [ReadEv.data n] := by
  intro e he k
  simp only [List.mem_singleton] at he
  subst he
  intro h; cases h

theorem noFail_intr : NoFail [ReadEv.intr] := by
  intro e he k
  simp only [List.mem_singleton] at he
  subst he
  intro h; cases h

/-- In a script `used ++ fail k :: rest` with `NoFail used` the position (and kind) of the
first failing event is determined. -/
theorem first_fail_unique {u1 u2 r1 r2 : List ReadEv} {k1 k2 : IoKind}
    (h1 : NoFail u1) (h2 : NoFail u2)
    (h : u1 ++ ReadEv.fail k1 :: r1 = u2 ++ ReadEv.fail k2 :: r2) :
    u1 = u2 ∧ k1 = k2 ∧ r1 = r2 := by
  induction u1 generalizing u2 with
  | nil =>
    cases u2 with
    | nil =>
      simp only [List.nil_append, List.cons.injEq, ReadEv.fail.injEq] at h
      exact ⟨rfl, h.1, h.2⟩
    | cons e u2 =>
      simp only [List.nil_append, List.cons_append, List.cons.injEq] at h
      exact absurd h.1.symm (h2 e (List.mem_cons_self) k1)
  | cons e u1 ih =>
    cases u2 with
    | nil =>
      simp only [List.nil_append, List.cons_append, List.cons.injEq] at h
      exact absurd h.1 (h1 e (List.mem_cons_self) k2)
    | cons e' u2 =>
      simp only [List.cons_append, List.cons.injEq] at h
      have := ih (u2 := u2) (fun x hx => h1 x (List.mem_cons_of_mem _ hx))
        (fun x hx => h2 x (List.mem_cons_of_mem _ hx)) h.2
      exact ⟨by rw [h.1, this.1], this.2⟩

/-- `b1` is reachable from `b` by successful / interrupted reads that consumed the script
prefix `used` and appended the next `m` input bytes to the buffer. -/
structure Step (b b1 : BufRd) (m : Nat) (used : List ReadEv) : Prop where
  cap : b1.cap = b.cap
  inp : b1.src.inp = b.src.inp
  cursor : b1.src.cursor = b.src.cursor + m
  chunk : b1.src.chunk = b.src.chunk
  seekFails : b1.src.seekFails = b.src.seekFails
  seekCount : b1.src.seekCount = b.src.seekCount
  buf : b1.buf = b.buf ++ (b.src.inp.drop b.src.cursor).take m
  script : b.src.script = used ++ b1.src.script
  nofail : NoFail used
  le : m ≤ min (b.cap - b.buf.length) b.src.remaining

theorem Step.refl (b : BufRd) : Step b b 0 [] where
  cap := rfl
  inp := rfl
  cursor := rfl
  chunk := rfl
  seekFails := rfl
  seekCount := rfl
  buf := by simp
  script := rfl
  nofail := noFail_nil
  le := Nat.zero_le _

theorem length_take_drop (l : List UInt8) (c m : Nat) (h : m ≤ l.length - c) :
    ((l.drop c).take m).length = m := by
  simp only [List.length_take, List.length_drop]
  omega

theorem Step.buf_length {b b1 : BufRd} {m : Nat} {used : List ReadEv} (h : Step b b1 m used) :
    b1.buf.length = b.buf.length + m := by
  have hle := h.le
  simp only [Src.remaining] at hle
  rw [h.buf, List.length_append, length_take_drop _ _ _ (by omega)]

theorem Step.remaining {b b1 : BufRd} {m : Nat} {used : List ReadEv} (h : Step b b1 m used) :
    b1.src.remaining = b.src.remaining - m := by
  simp only [Src.remaining, h.inp, h.cursor]
  omega

theorem Step.trans {b b1 b2 : BufRd} {m1 m2 : Nat} {u1 u2 : List ReadEv}
    (h1 : Step b b1 m1 u1) (h2 : Step b1 b2 m2 u2) : Step b b2 (m1 + m2) (u1 ++ u2) where
  cap := by rw [h2.cap, h1.cap]
  inp := by rw [h2.inp, h1.inp]
  cursor := by rw [h2.cursor, h1.cursor]; omega
  chunk := by rw [h2.chunk, h1.chunk]
  seekFails := by rw [h2.seekFails, h1.seekFails]
  seekCount := by rw [h2.seekCount, h1.seekCount]
  buf := by
    rw [h2.buf, h1.buf, h1.inp, h1.cursor, List.append_assoc, List.take_add, List.drop_drop]
  script := by rw [h1.script, h2.script, List.append_assoc]
  nofail := noFail_append h1.nofail h2.nofail
  le := by
    have l1 := h1.le
    have l2 := h2.le
    rw [h1.cap, h1.buf_length, h1.remaining] at l2
    omega

/-- The state after a read that handed out `m` bytes and replaced the script by `rest`. -/
def adv (b : BufRd) (rest : List ReadEv) (m : Nat) : BufRd :=
  { b with src := { b.src with script := rest, cursor := b.src.cursor + m },
           buf := b.buf ++ (b.src.inp.drop b.src.cursor).take m }

theorem step_adv (b : BufRd) (used rest : List ReadEv) (m : Nat)
    (hs : b.src.script = used ++ rest) (hn : NoFail used)
    (hm : m ≤ min (b.cap - b.buf.length) b.src.remaining) : Step b (adv b rest m) m used where
  cap := rfl
  inp := rfl
  cursor := rfl
  chunk := rfl
  seekFails := rfl
  seekCount := rfl
  buf := rfl
  script := hs
  nofail := hn
  le := hm

/-- Number of bytes handed out for a `data n` event. -/
def dataLen (b : BufRd) (n : Nat) : Nat :=
  min (min (max n 1) (b.cap - b.buf.length)) b.src.remaining

/-- Number of bytes handed out once the script is exhausted. -/
def idealLen (b : BufRd) : Nat :=
  min (if b.src.chunk = 0 then b.cap - b.buf.length else min b.src.chunk (b.cap - b.buf.length))
    b.src.remaining

theorem readIntoBuf_data (b : BufRd) (n : Nat) (rest : List ReadEv)
    (hlt : b.buf.length < b.cap) (hs : b.src.script = .data n :: rest) :
    b.readIntoBuf = (adv b rest (dataLen b n), .n (dataLen b n)) := by
  have : ¬ b.cap ≤ b.buf.length := by omega
  simp only [BufRd.readIntoBuf, this, if_false, Src.read, hs, adv, dataLen]

theorem readIntoBuf_intr (b : BufRd) (rest : List ReadEv)
    (hlt : b.buf.length < b.cap) (hs : b.src.script = .intr :: rest) :
    b.readIntoBuf = (adv b rest 0, .intr) := by
  have : ¬ b.cap ≤ b.buf.length := by omega
  simp only [BufRd.readIntoBuf, this, if_false, Src.read, hs, adv, Nat.add_zero, List.take_zero]

theorem readIntoBuf_fail (b : BufRd) (k : IoKind) (rest : List ReadEv)
    (hlt : b.buf.length < b.cap) (hs : b.src.script = .fail k :: rest) :
    b.readIntoBuf = (adv b rest 0, .fail k) := by
  have : ¬ b.cap ≤ b.buf.length := by omega
  simp only [BufRd.readIntoBuf, this, if_false, Src.read, hs, adv, Nat.add_zero, List.take_zero]

theorem readIntoBuf_nil (b : BufRd)
    (hlt : b.buf.length < b.cap) (hs : b.src.script = []) :
    b.readIntoBuf = (adv b [] (idealLen b), .n (idealLen b)) := by
  have : ¬ b.cap ≤ b.buf.length := by omega
  simp only [BufRd.readIntoBuf, this, if_false, Src.read, hs, adv, idealLen]

theorem dataLen_le (b : BufRd) (n : Nat) :
    dataLen b n ≤ min (b.cap - b.buf.length) b.src.remaining := by
  simp only [dataLen]; omega

theorem dataLen_zero (b : BufRd) (n : Nat) (hlt : b.buf.length < b.cap) (h : dataLen b n = 0) :
    b.src.remaining = 0 := by
  simp only [dataLen] at h; omega

theorem idealLen_le (b : BufRd) :
    idealLen b ≤ min (b.cap - b.buf.length) b.src.remaining := by
  simp only [idealLen]; split <;> omega

theorem idealLen_zero (b : BufRd) (hlt : b.buf.length < b.cap) (h : idealLen b = 0) :
    b.src.remaining = 0 := by
  simp only [idealLen] at h; split at h <;> omega

/-- One unfolding of the loop, as a function of the result of `readIntoBuf`. -/
theorem fillBufAux_succ (fuel : Nat) (b : BufRd) (num : Nat) (hlt : b.buf.length < b.cap) :
    fillBufAux (fuel + 1) b num =
      match b.readIntoBuf with
      | (b', .n k) => if k = 0 then (b', .ok num) else fillBufAux fuel b' (num + k)
      | (b', .intr) => fillBufAux fuel b' num
      | (b', .fail k) => (b', .error k) := by
  rw [fillBufAux]
  simp only [hlt, if_true]
  rcases b.readIntoBuf with ⟨b', r⟩
  cases r with
  | n k => cases k <;> simp
  | intr => rfl
  | fail k => rfl

theorem fillBufAux_full (fuel : Nat) (b : BufRd) (num : Nat) (h : ¬ b.buf.length < b.cap) :
    fillBufAux fuel b num = (b, .ok num) := by
  cases fuel with
  | zero => rfl
  | succ fuel => rw [fillBufAux]; simp only [h, if_false]

/-- Successful termination of the loop. -/
theorem fillBufAux_ok (fuel : Nat) (b : BufRd) (num : Nat) (b' : BufRd) (r : Nat)
    (hf : b.fillMeasure < fuel) (h : fillBufAux fuel b num = (b', .ok r)) :
    ∃ m used, Step b b' m used ∧ r = num + m ∧
      (b'.cap ≤ b'.buf.length ∨ b'.src.remaining = 0) := by
  induction fuel generalizing b num with
  | zero => omega
  | succ fuel ih =>
    by_cases hlt : b.buf.length < b.cap
    · rw [fillBufAux_succ _ _ _ hlt] at h
      simp only [BufRd.fillMeasure] at hf
      match hs : b.src.script with
      | .data n :: rest =>
        rw [readIntoBuf_data b n rest hlt hs] at h
        simp only at h
        have hst : Step b (adv b rest (dataLen b n)) (dataLen b n) [.data n] :=
          step_adv b _ rest _ (by simp [hs]) (noFail_data n) (dataLen_le b n)
        split at h
        · rename_i h0
          simp only [Prod.mk.injEq, Except.ok.injEq] at h
          obtain ⟨rfl, rfl⟩ := h
          refine ⟨_, _, hst, by omega, Or.inr ?_⟩
          rw [hst.remaining, dataLen_zero b n hlt h0]; omega
        · have hm : (adv b rest (dataLen b n)).fillMeasure < fuel := by
            simp only [BufRd.fillMeasure, hst.remaining]
            simp only [adv]
            simp only [hs, List.length_cons] at hf
            omega
          obtain ⟨m, used, h2, hr, hend⟩ := ih _ _ hm h
          exact ⟨_, _, hst.trans h2, by omega, hend⟩
      | .intr :: rest =>
        rw [readIntoBuf_intr b rest hlt hs] at h
        simp only at h
        have hst : Step b (adv b rest 0) 0 [.intr] :=
          step_adv b _ rest _ (by simp [hs]) noFail_intr (Nat.zero_le _)
        have hm : (adv b rest 0).fillMeasure < fuel := by
          simp only [BufRd.fillMeasure, hst.remaining]
          simp only [adv]
          simp only [hs, List.length_cons] at hf
          omega
        obtain ⟨m, used, h2, hr, hend⟩ := ih _ _ hm h
        exact ⟨_, _, hst.trans h2, by omega, hend⟩
      | .fail k :: rest =>
        rw [readIntoBuf_fail b k rest hlt hs] at h
        simp only [Prod.mk.injEq] at h
        exact absurd h.2 (by intro h'; cases h')
      | [] =>
        rw [readIntoBuf_nil b hlt hs] at h
        simp only at h
        have hst : Step b (adv b [] (idealLen b)) (idealLen b) [] :=
          step_adv b _ [] _ (by simp [hs]) noFail_nil (idealLen_le b)
        split at h
        · rename_i h0
          simp only [Prod.mk.injEq, Except.ok.injEq] at h
          obtain ⟨rfl, rfl⟩ := h
          refine ⟨_, _, hst, by omega, Or.inr ?_⟩
          rw [hst.remaining, idealLen_zero b hlt h0]; omega
        · have hm : (adv b [] (idealLen b)).fillMeasure < fuel := by
            simp only [BufRd.fillMeasure, hst.remaining]
            simp only [adv]
            simp only [hs, List.length_nil] at hf
            simp only [List.length_nil]
            have := idealLen_le b
            omega
          obtain ⟨m, used, h2, hr, hend⟩ := ih _ _ hm h
          exact ⟨_, _, hst.trans h2, by omega, hend⟩
    · rw [fillBufAux_full _ _ _ hlt] at h
      simp only [Prod.mk.injEq, Except.ok.injEq] at h
      obtain ⟨rfl, rfl⟩ := h
      exact ⟨0, [], Step.refl _, rfl, Or.inl (by omega)⟩

/-- Failing termination of the loop (needs no assumption on the fuel). -/
theorem fillBufAux_error (fuel : Nat) (b : BufRd) (num : Nat) (b' : BufRd) (k : IoKind)
    (h : fillBufAux fuel b num = (b', .error k)) :
    ∃ b0 m used, Step b b0 m used ∧ b0.src.script = .fail k :: b'.src.script ∧
      b'.buf = b0.buf ∧ b'.cap = b0.cap ∧ b'.src.inp = b0.src.inp ∧
      b'.src.cursor = b0.src.cursor := by
  induction fuel generalizing b num with
  | zero => simp only [fillBufAux, Prod.mk.injEq] at h; exact absurd h.2 (by intro h'; cases h')
  | succ fuel ih =>
    by_cases hlt : b.buf.length < b.cap
    · rw [fillBufAux_succ _ _ _ hlt] at h
      match hs : b.src.script with
      | .data n :: rest =>
        rw [readIntoBuf_data b n rest hlt hs] at h
        simp only at h
        have hst : Step b (adv b rest (dataLen b n)) (dataLen b n) [.data n] :=
          step_adv b _ rest _ (by simp [hs]) (noFail_data n) (dataLen_le b n)
        split at h
        · simp only [Prod.mk.injEq] at h
          exact absurd h.2 (by intro h'; cases h')
        · obtain ⟨b0, m, used, h2, hrest⟩ := ih _ _ h
          exact ⟨b0, _, _, hst.trans h2, hrest⟩
      | .intr :: rest =>
        rw [readIntoBuf_intr b rest hlt hs] at h
        simp only at h
        have hst : Step b (adv b rest 0) 0 [.intr] :=
          step_adv b _ rest _ (by simp [hs]) noFail_intr (Nat.zero_le _)
        obtain ⟨b0, m, used, h2, hrest⟩ := ih _ _ h
        exact ⟨b0, _, _, hst.trans h2, hrest⟩
      | .fail k' :: rest =>
        rw [readIntoBuf_fail b k' rest hlt hs] at h
        simp only [Prod.mk.injEq, Except.error.injEq] at h
        obtain ⟨rfl, rfl⟩ := h
        refine ⟨b, 0, [], Step.refl _, by simp [hs, adv], ?_, rfl, rfl, rfl⟩
        simp [adv]
      | [] =>
        rw [readIntoBuf_nil b hlt hs] at h
        simp only at h
        have hst : Step b (adv b [] (idealLen b)) (idealLen b) [] :=
          step_adv b _ [] _ (by simp [hs]) noFail_nil (idealLen_le b)
        split at h
        · simp only [Prod.mk.injEq] at h
          exact absurd h.2 (by intro h'; cases h')
        · obtain ⟨b0, m, used, h2, hrest⟩ := ih _ _ h
          exact ⟨b0, _, _, hst.trans h2, hrest⟩
    · rw [fillBufAux_full _ _ _ hlt] at h
      simp only [Prod.mk.injEq] at h
      exact absurd h.2 (by intro h'; cases h')

/-- Success case of `fillBuf_spec` as an implication. -/
theorem fillBuf_ok (b b' : BufRd) (n : Nat) (h : fillBuf b = (b', .ok n)) :
    n = min (b.cap - b.buf.length) b.src.remaining ∧ ∃ used, Step b b' n used := by
  obtain ⟨m, used, hst, hr, hend⟩ := fillBufAux_ok _ b 0 b' n (Nat.lt_succ_self _) h
  have hle := hst.le
  rw [hst.cap, hst.buf_length, hst.remaining] at hend
  have : n = m := by omega
  subst this
  exact ⟨by omega, used, hst⟩

/-- Failure case of `fillBuf_spec` as an implication. -/
theorem fillBuf_error (b b' : BufRd) (k : IoKind) (h : fillBuf b = (b', .error k)) :
    ∃ used rest m, b.src.script = used ++ ReadEv.fail k :: rest ∧ NoFail used ∧
      b'.src.script = rest ∧
      m ≤ min (b.cap - b.buf.length) b.src.remaining ∧
      b'.buf = b.buf ++ (b.src.inp.drop b.src.cursor).take m ∧
      b'.cap = b.cap ∧ b'.src.inp = b.src.inp ∧ b'.src.cursor = b.src.cursor + m := by
  obtain ⟨b0, m, used, hst, hs, hb, hc, hi, hcu⟩ := fillBufAux_error _ b 0 b' k h
  refine ⟨used, b'.src.script, m, ?_, hst.nofail, rfl, hst.le, ?_, ?_, ?_, ?_⟩
  · rw [hst.script, hs]
  · rw [hb, hst.buf]
  · rw [hc, hst.cap]
  · rw [hi, hst.inp]
  · rw [hcu, hst.cursor]

/-- Complete description of one `fill_buf` call. -/
theorem fillBuf_spec (b : BufRd) :
    match fillBuf b with
    | (b', .ok n) =>
        -- success: exactly `min(free space, remaining input)` bytes are appended,
        -- whatever the script said
        n = min (b.cap - b.buf.length) b.src.remaining ∧
        b'.buf = b.buf ++ (b.src.inp.drop b.src.cursor).take n ∧
        b'.cap = b.cap ∧ b'.src.inp = b.src.inp ∧ b'.src.cursor = b.src.cursor + n ∧
        b'.src.chunk = b.src.chunk ∧ b'.src.seekFails = b.src.seekFails ∧
        b'.src.seekCount = b.src.seekCount ∧
        (∃ used, b.src.script = used ++ b'.src.script ∧ NoFail used)
    | (b', .error k) =>
        -- failure: `k` is the kind of the FIRST failing event of the script;
        -- everything read before stays in the buffer
        ∃ used rest m, b.src.script = used ++ ReadEv.fail k :: rest ∧ NoFail used ∧
          b'.src.script = rest ∧
          m ≤ min (b.cap - b.buf.length) b.src.remaining ∧
          b'.buf = b.buf ++ (b.src.inp.drop b.src.cursor).take m ∧
          b'.cap = b.cap ∧ b'.src.inp = b.src.inp ∧ b'.src.cursor = b.src.cursor + m := by
  split
  · rename_i b' n h
    obtain ⟨hn, used, hst⟩ := fillBuf_ok b b' n h
    exact ⟨hn, hst.buf, hst.cap, hst.inp, hst.cursor, hst.chunk, hst.seekFails, hst.seekCount,
      used, hst.script, hst.nofail⟩
  · rename_i b' k h
    exact fillBuf_error b b' k h

/-- without failing events `fill_buf` succeeds -/
theorem fillBuf_noFail_ok (b : BufRd) (h : NoFail b.src.script) :
    ∃ b' n, fillBuf b = (b', .ok n) := by
  match hr : fillBuf b with
  | (b', .ok n) => exact ⟨b', n, rfl⟩
  | (b', .error k) =>
    obtain ⟨used, rest, m, hs, -⟩ := fillBuf_error b b' k hr
    exact absurd rfl (h (.fail k) (by rw [hs]; simp) k)

/-- corollary: without failing events the result does not depend on the script or the chunk
limit at all -/
theorem fillBuf_chunk_independent (b : BufRd) (script : List ReadEv) (chunk : Nat)
    (h1 : NoFail b.src.script) (h2 : NoFail script) :
    let b2 : BufRd := { b with src := { b.src with script := script, chunk := chunk } }
    (fillBuf b).1.buf = (fillBuf b2).1.buf ∧ (fillBuf b).2 = (fillBuf b2).2 ∧
    (fillBuf b).1.src.cursor = (fillBuf b2).1.src.cursor := by
  intro b2
  obtain ⟨b', n, hr⟩ := fillBuf_noFail_ok b h1
  obtain ⟨b2', n2, hr2⟩ := fillBuf_noFail_ok b2 h2
  obtain ⟨hn, u, hst⟩ := fillBuf_ok b b' n hr
  obtain ⟨hn2, u2, hst2⟩ := fillBuf_ok b2 b2' n2 hr2
  have hnn : n2 = n := by rw [hn, hn2]; rfl
  subst hnn
  rw [hr, hr2]
  exact ⟨by rw [hst.buf, hst2.buf], rfl, by rw [hst.cursor, hst2.cursor]⟩

/-- after a successful fill the buffer is full unless the input is exhausted -/
theorem fillBuf_full_or_eof (b b' : BufRd) (n : Nat) (h : fillBuf b = (b', .ok n)) :
    b'.buf.length < b'.cap → b'.src.remaining = 0 := by
  obtain ⟨hn, u, hst⟩ := fillBuf_ok b b' n h
  rw [hst.cap, hst.buf_length, hst.remaining]
  omega

/-- the kind reported by a failing `fill_buf` is determined by the script alone: it is the kind
of the first failing event, for whatever decomposition `used ++ fail k :: rest` one finds -/
theorem fillBuf_error_kind (b b' : BufRd) (k k' : IoKind) (used rest : List ReadEv)
    (h : fillBuf b = (b', .error k))
    (hs : b.src.script = used ++ ReadEv.fail k' :: rest) (hn : NoFail used) : k = k' := by
  obtain ⟨u, r, m, hs', hn', -⟩ := fillBuf_error b b' k h
  rw [hs] at hs'
  exact ((first_fail_unique hn hn' hs').2.1).symm

end SeqIo.FillProofs
