import SeqIoModel.Proofs.FastaHistoryOps
/-!
# FASTA histories, part 3: the reader invariant for all five states, and `next`

`RInv inp r k`: `r` is a reader state that some history of calls on input `inp` can leave
behind, and `k` is the index of the record of S that the next read has to deliver.
-/
open SeqIo SeqIo.FillProofs SeqIo.Spec

namespace SeqIo.Fasta.Hist

/-- record `k` of S is pending: it starts at `r.byte` (line `r.line`) and the stored search
state is an intermediate state of its scan -/
structure Ready (inp : List UInt8) (r : Reader) (k : Nat) : Prop where
  win : Win inp r
  eof : Eof inp r
  scan : ScanSt inp r r.byte
  pt : Pt inp k r.byte r.line
  inc : r.state = .incomplete → r.br.cap ≤ r.br.buf.length ∧ r.br.buf.length ≤ r.searchPos + 1

theorem Ready.withState {inp : List UInt8} {r : Reader} {k : Nat} (h : Ready inp r k) (st : State)
    (hst : st ≠ .incomplete) : Ready inp { r with state := st } k :=
  ⟨⟨h.win.b, h.win.pol⟩, h.eof, ⟨h.scan.start_eq, h.scan.start_le, h.scan.sp_le, h.scan.pos_lt, h.scan.resum⟩,
    h.pt, fun h' => absurd h' hst⟩

/-- the second half of `next` from a pending record -/
theorem nextCont_ready {inp : List UInt8} {r : Reader} {k fuel : Nat} (h : Ready inp r k)
    (hst : r.state = .parsing ∨ r.state = .incomplete) (hfuel : inp.length < fuel) :
    ∃ r' res, nextCont fuel r = (r', res) ∧ Frame r r' ∧
      ((res = .ok true ∧ Win inp r' ∧ Eof inp r' ∧ RecDone inp r' r.byte ∧ r'.line = r.line ∧
          r'.byte = r.byte ∧ (r'.state = .parsing ∨ r'.state = .finished)) ∨
       (res = .err .bufferLimit ∧ ¬ PolGrows r.pol ∧ Ready inp r' k ∧ r'.state = .incomplete)) := by
  have hcl := h.win.b.cur_le
  -- what `resume` gives, for any reader at the same pending record
  have hresume : ∀ r1 : Reader, Frame r r1 → Win inp r1 → ScanSt inp r1 r.byte →
      r1.state = .incomplete → r1.br.cap ≤ r1.br.buf.length → r1.br.buf.length ≤ r1.searchPos + 1 →
      r1.line = r.line → r1.byte = r.byte → r1.br.src.cursor = r.br.src.cursor →
      ∃ r' res, (match resume fuel true r1 with
          | (r2, .ok true) => (if r2.state ≠ .finished then { r2 with state := .parsing } else r2, Out.ok true)
          | (r2, o) => (r2, o)) = (r', res) ∧ Frame r r' ∧
        ((res = .ok true ∧ Win inp r' ∧ Eof inp r' ∧ RecDone inp r' r.byte ∧ r'.line = r.line ∧
            r'.byte = r.byte ∧ (r'.state = .parsing ∨ r'.state = .finished)) ∨
         (res = .err .bufferLimit ∧ ¬ PolGrows r.pol ∧ Ready inp r' k ∧ r'.state = .incomplete)) := by
    intro r1 hfr1 hw1 hs1 hst1 hfull hnear hl1 hb1 hcur1
    obtain ⟨r2, res2, hres, hfr2, hw2, hl2, hb2, _, hcase⟩ :=
      resume_any true fuel r1 r.byte hw1 hs1 hst1 hfull hnear (by rw [hcur1]; omega)
    rw [hres]
    rcases hcase with ⟨hr, he2, hd2, hst2⟩ | ⟨hr, hng, hs2, hst2, hfull2, hnear2⟩
    · subst hr
      rcases hst2 with h2 | h2
      · have hnf : r2.state ≠ .finished := by rw [h2]; intro h; cases h
        refine ⟨{ r2 with state := .parsing }, .ok true, by simp only [hnf, ne_eq, not_false_eq_true, if_true],
          hfr1.trans ⟨hfr2.polf, hfr2.seekFails⟩, Or.inl ⟨rfl, ⟨hw2.b, hw2.pol⟩, he2,
            recDone_parsing hd2 hnf, by rw [← hl1, ← hl2], by rw [← hb1, ← hb2], Or.inl rfl⟩⟩
      · refine ⟨r2, .ok true, by simp only [h2, ne_eq, not_true_eq_false, if_false],
          hfr1.trans hfr2, Or.inl ⟨rfl, hw2, he2, hd2, by rw [hl2, hl1], by rw [hb2, hb1], Or.inr h2⟩⟩
    · subst hr
      refine ⟨r2, _, rfl, hfr1.trans hfr2, Or.inr ⟨rfl, ?_, ⟨hw2, ?_, ?_, ?_, fun _ => ⟨hfull2, hnear2⟩⟩, hst2⟩⟩
      · intro hg; exact hng (polGrows_congr hfr1.polf hg)
      · intro hlt; omega
      · rw [hb2, hb1]; exact hs2
      · rw [hb2, hb1, hl2, hl1]; exact h.pt
  rcases hst with hst | hst
  · obtain ⟨r1, fnd, hsearch, hbr1, hpol1, hlog1, hl1, hb1, hstart1, htrue, hfalse⟩ :=
      search_step h.win h.eof h.scan (by rw [hst]; intro h; cases h)
    have hne : r.state ≠ .incomplete := by rw [hst]; intro h; cases h
    have hw1 : Win inp r1 := ⟨by rw [hbr1]; exact h.win.b, by rw [hpol1]; exact h.win.pol⟩
    have hfr1 : Frame r r1 := ⟨by rw [hpol1], by rw [hbr1]⟩
    cases fnd with
    | true =>
      obtain ⟨hdone, hstate⟩ := htrue rfl
      have hni : r1.state ≠ .incomplete := by
        rcases hstate with h | h <;> rw [h] <;> (try rw [hst]) <;> intro h' <;> cases h'
      refine ⟨r1, .ok true, ?_, hfr1, Or.inl ⟨rfl, hw1, by unfold Eof; rw [hbr1]; exact h.eof, hdone,
        hl1, hb1, ?_⟩⟩
      · simp only [nextCont, hne, ne_eq, not_false_eq_true, if_true, hsearch, Option.map_some, hni,
          if_false]
      · rcases hstate with h | h
        · left; rw [h, hst]
        · right; exact h
    | false =>
      obtain ⟨hs1, hst1, hfull, hnear⟩ := hfalse rfl
      obtain ⟨r', res, hres, hfr', hcase⟩ := hresume r1 hfr1 hw1 hs1 hst1
        (by rw [hbr1]; exact hfull) (by rw [hbr1]; exact hnear) hl1 hb1 (by rw [hbr1])
      refine ⟨r', res, ?_, hfr', hcase⟩
      simp only [nextCont, hne, ne_eq, not_false_eq_true, if_true, hsearch, Option.map_some, hst1]
      exact hres
  · obtain ⟨hfull, hnear⟩ := h.inc hst
    obtain ⟨r', res, hres, hfr', hcase⟩ := hresume r (Frame.refl r) h.win h.scan hst hfull hnear rfl rfl rfl
    refine ⟨r', res, ?_, hfr', hcase⟩
    simp only [nextCont, hst, ne_eq, not_true_eq_false, if_false, if_true]
    exact hres

end SeqIo.Fasta.Hist

namespace SeqIo.Fasta.Hist

/-! ## the reader invariant -/

/-- a reader that has seen the end of the input (or the format error) -/
structure Fin (inp : List UInt8) (r : Reader) : Prop where
  win : Win inp r
  eof : Eof inp r
  st : r.state = .finished
  byte_eq : r.byte = r.bp.start + base r

/-- nothing has been done yet -/
structure Fresh (inp : List UInt8) (r : Reader) : Prop where
  win : Win inp r
  st : r.state = .new
  buf : r.br.buf = []
  cur : r.br.src.cursor = 0
  line : r.line = 0
  byte : r.byte = 0
  sq : r.bp.seqPos = []
  start : r.bp.start = 0

/-- `next` has returned record `k - 1`; record `k` starts at `search_pos` -/
structure Parsed (inp : List UInt8) (r : Reader) (k : Nat) : Prop where
  win : Win inp r
  eof : Eof inp r
  start_le : r.bp.start ≤ r.searchPos
  sp_le : r.searchPos ≤ r.br.buf.length
  byte_eq : r.byte = r.bp.start + base r
  pt : Pt inp k (r.searchPos + base r) (r.line + r.bp.seqPos.length)

inductive RInv (inp : List UInt8) : Reader → Nat → Prop
  | fresh {r : Reader} : Fresh inp r → RInv inp r 0
  | parsing {r : Reader} {k : Nat} : Parsed inp r k → r.state = .parsing → RInv inp r k
  /-- after a record set read or a seek: record `k` is pending -/
  | ready {r : Reader} {k : Nat} : Ready inp r k → (r.state = .positioned ∨ r.state = .incomplete) →
      RInv inp r k
  | finished {r : Reader} {k : Nat} : Fin inp r → k = (recsOf inp).length → RInv inp r k

theorem RInv.win {inp : List UInt8} {r : Reader} {k : Nat} (h : RInv inp r k) : Win inp r := by
  cases h with
  | fresh h => exact h.win
  | parsing h => exact h.win
  | ready h => exact h.win
  | finished h => exact h.win

theorem RInv.k_le {inp : List UInt8} {r : Reader} {k : Nat} (h : RInv inp r k) :
    k ≤ (recsOf inp).length := by
  cases h with
  | fresh => exact Nat.zero_le _
  | parsing h => exact Nat.le_of_lt h.pt.lt
  | ready h => exact Nat.le_of_lt h.pt.lt
  | finished _ hk => rw [hk]; exact Nat.le_refl _

/-- the state after `increment_record` in state `parsing` -/
theorem ready_incRec {inp : List UInt8} {r : Reader} {k : Nat} (h : Parsed inp r k) (st : State)
    (hst : st ≠ .incomplete) :
    Ready inp { incRec r with state := st } k := by
  obtain ⟨hw, he, hsl, hsple, hbyte, hp⟩ := h
  have hb : (incRec r).byte = r.searchPos + base r := by
    show r.byte + (r.searchPos - r.bp.start) = _; omega
  refine ⟨⟨hw.b, hw.pol⟩, he, ?_, ?_, fun h => absurd h hst⟩
  · show ScanSt inp _ (incRec r).byte
    rw [hb]
    exact ⟨rfl, Nat.le_refl _, hsple, (by intro p hp; cases hp), rfl⟩
  · show Pt inp k (incRec r).byte _
    rw [hb]; exact hp

theorem ready_incRec' {inp : List UInt8} {r : Reader} {k : Nat} (h : Parsed inp r k)
    (hst : r.state ≠ .incomplete) : Ready inp (incRec r) k := by
  obtain ⟨hw, he, hsl, hsple, hbyte, hp⟩ := h
  have hb : (incRec r).byte = r.searchPos + base r := by
    show r.byte + (r.searchPos - r.bp.start) = _; omega
  refine ⟨⟨hw.b, hw.pol⟩, he, ?_, ?_, fun h => absurd h hst⟩
  · show ScanSt inp _ (incRec r).byte
    rw [hb]
    exact ⟨rfl, Nat.le_refl _, hsple, (by intro p hp; cases hp), rfl⟩
  · show Pt inp k (incRec r).byte _
    rw [hb]; exact hp

theorem incrementRecord_eq (r : Reader) (hle : r.bp.start ≤ r.searchPos) :
    incrementRecord r = some (incRec r) := by
  simp only [incrementRecord, csub, hle, if_true, incRec]

/-- what a completely found record `k` looks like to the caller, and what comes next -/
theorem recDone_core {inp : List UInt8} {r' : Reader} {k : Nat} (hw' : Win inp r')
    (he' : Eof inp r') (hd : RecDone inp r' r'.byte) (hp : Pt inp k r'.byte r'.line) :
    ∃ rc, (recsOf inp)[k]? = some rc ∧ rc.byte = r'.byte ∧ viewRec r'.br.buf r'.bp = some (view rc) ∧
      head r'.br.buf r'.bp = some rc.head ∧ ownedSeq r'.br.buf r'.bp = some rc.seq ∧
      position r' = some (posOf rc) ∧
      ((Parsed inp r' (k + 1) ∧ r'.state ≠ .finished) ∨
       (Win inp r' ∧ Eof inp r' ∧ r'.state = .finished ∧ r'.byte = r'.bp.start + base r' ∧
          k + 1 = (recsOf inp).length)) := by
  obtain ⟨rc, hk, hby, hln, hH, hSL, hne⟩ :=
    view_of_recAt hw'.b.base_le hw'.b.win (recAt_of_recDone hd) hp
  have hpos : position r' = some (posOf rc) := by
    unfold position
    have : r'.bp.seqPos.isEmpty = false := by
      cases h : r'.bp.seqPos with
      | nil => exact absurd h hne
      | cons _ _ => rfl
    rw [this, posOf, hby, hln]
    rfl
  refine ⟨rc, hk, hby, viewRec_of hH hSL, hH, ownedSeq_of hSL, hpos, ?_⟩
  obtain ⟨_, _, _, _, _, _, hfound, hnot⟩ := pt_step hp
  have hlen : (finalPos (scan (inp.drop r'.byte) r'.byte [])).length = r'.bp.seqPos.length := by
    rw [← hd.fin, List.length_map]
  cases hf : (scan (inp.drop r'.byte) r'.byte []).1 with
  | true =>
    obtain ⟨hsp, hsl, hsple⟩ := hd.nxt hf
    have hnf : r'.state ≠ .finished := by
      intro h
      have := hd.st.mp h
      rw [hf] at this
      cases this
    have hp1 := hfound hf
    rw [hsp, hlen] at hp1
    exact Or.inl ⟨⟨hw', he', hsl, hsple, by rw [← hd.start_eq], hp1⟩, hnf⟩
  | false =>
    exact Or.inr ⟨hw', he', hd.st.mpr hf, by rw [← hd.start_eq], (hnot hf).symm⟩

theorem recDone_post {inp : List UInt8} {r' : Reader} {k : Nat} (hw' : Win inp r')
    (he' : Eof inp r') (hd : RecDone inp r' r'.byte) (hp : Pt inp k r'.byte r'.line)
    (hst' : r'.state = .parsing ∨ r'.state = .finished) :
    ∃ rc, (recsOf inp)[k]? = some rc ∧ viewRec r'.br.buf r'.bp = some (view rc) ∧
      head r'.br.buf r'.bp = some rc.head ∧ ownedSeq r'.br.buf r'.bp = some rc.seq ∧
      position r' = some (posOf rc) ∧ RInv inp r' (k + 1) := by
  obtain ⟨rc, hk, _, hv, hh, ho, hpos, hcase⟩ := recDone_core hw' he' hd hp
  refine ⟨rc, hk, hv, hh, ho, hpos, ?_⟩
  rcases hcase with ⟨hpar, hnf⟩ | ⟨h1, h2, h3, h4, h5⟩
  · rcases hst' with h | h
    · exact RInv.parsing hpar h
    · exact absurd h hnf
  · exact RInv.finished ⟨h1, h2, h3, h4⟩ h5

/-! ## `first_byte` and `init` on a fresh reader -/

theorem firstByte_extra {inp : List UInt8} : ∀ (fuel : Nat) (r : Reader), Win inp r →
    r.byte = base r → ∀ r' res, firstByte fuel r = (r', .ok res) →
    Eof inp r' ∧ r'.byte = base r' ∧ r'.br.src.seekFails = r.br.src.seekFails := by
  intro fuel
  induction fuel with
  | zero => intro r _ _ r' res h; simp [firstByte] at h
  | succ f ih =>
    intro r hw hbyte r' res hres
    obtain ⟨br2, n, hfill, hwb2, heof2, hbase2, hcap2, hbuf2, hcur2, hn, _⟩ := fill_win hw.b
    have hsf := fillBuf_seekFails' hfill
    by_cases hn0 : n = 0
    · subst hn0
      rw [firstByte_succ_zero f r br2 hfill] at hres
      simp only [Prod.mk.injEq] at hres
      obtain ⟨rfl, _⟩ := hres
      exact ⟨heof2, by show r.byte = baseB br2; rw [hbase2]; exact hbyte, hsf⟩
    · rw [firstByte_succ_ok f r br2 n hn0 hfill] at hres
      have hbs := blank_spec br2.buf [] r.line 0 0 0
      generalize hsb : scanBlank (splitLF br2.buf) r.line 0 0 = sb at hbs hres
      cases sb with
      | inl x =>
        simp only [Prod.mk.injEq] at hres
        obtain ⟨rfl, _⟩ := hres
        exact ⟨heof2, by show r.byte = baseB br2; rw [hbase2]; exact hbyte, hsf⟩
      | inr x =>
        obtain ⟨ln', pos', ll⟩ := x
        obtain ⟨hpos, hll1, hllw, hln, _, _, _⟩ := hbs
        simp only at hres
        cases hc1 : csub pos' (1 + ll) with
        | none => rw [hc1] at hres; simp at hres
        | some c =>
          cases hc2 : csub ln' 1 with
          | none => rw [hc1, hc2] at hres; simp at hres
          | some l1 =>
            rw [hc1, hc2] at hres
            simp only at hres
            have hcle : c ≤ br2.buf.length := by
              unfold csub at hc1
              split at hc1
              · injection hc1 with hc1; omega
              · cases hc1
            obtain ⟨hwb3, hbase3⟩ := consume_win hwb2 c hcle
            have := ih { r with line := l1, byte := r.byte + c, br := br2.consume c }
              ⟨hwb3, hw.pol⟩ (by show r.byte + c = baseB (br2.consume c); rw [hbase3, hbase2, hbyte]; rfl)
              r' res hres
            exact ⟨this.1, this.2.1, by rw [this.2.2]; exact hsf⟩

theorem fb_fresh {inp : List UInt8} {r : Reader} (hw : Win inp r) (hbuf : r.br.buf = [])
    (hcur : r.br.src.cursor = 0) (hl : r.line = 0) (hb : r.byte = 0) : FB inp r := by
  have hbase : base r = 0 := by simp [base, baseB, hcur]
  refine ⟨hw, by rw [hb, hbase], Or.inl hbuf, ?_⟩
  rw [hbase, hl]
  rfl

/-- `init` on a fresh reader -/
theorem init_fresh {inp : List UInt8} {r : Reader} {fuel : Nat} (hf : Fresh inp r)
    (hfuel : inp.length < fuel) :
    ∃ r' res, init fuel r = (r', res) ∧ Frame r r' ∧
      ((res = .ok true ∧ (items inp).err = none ∧
          ∀ st, st ≠ .incomplete → Ready inp { r' with state := st } 0) ∨
       (res = .ok false ∧ Fin inp r' ∧ recsOf inp = [] ∧ (items inp).err = none) ∨
       (∃ ln c, res = .err (.invalidStart ln c) ∧ Fin inp r' ∧ recsOf inp = [] ∧
          (items inp).err = some (.invalidStart ln c))) := by
  obtain ⟨hw, hst, hbuf, hcur, hl, hb, hsq, hs0⟩ := hf
  have hfb := fb_fresh hw hbuf hcur hl hb
  have hbase : base r = 0 := by simp [base, baseB, hcur]
  obtain ⟨r1, res, hfirst, hw1, hbp1, hsp1, hst1, hlog1, hpol1, hcap1, hpost⟩ :=
    firstByte_spec fuel r hfb (by omega)
  obtain ⟨he1, hbyte1, hsf1⟩ := firstByte_extra fuel r hw (by rw [hb, hbase]) r1 res hfirst
  have hfr : Frame r r1 := ⟨by rw [hpol1], hsf1⟩
  have hfin : Fin inp { r1 with state := .finished } := by
    refine ⟨⟨hw1.b, hw1.pol⟩, he1, rfl, ?_⟩
    show r1.byte = r1.bp.start + base r1
    rw [hbyte1, hbp1, hs0]
    omega
  cases res with
  | none =>
    exact ⟨{ r1 with state := .finished }, .ok false, by simp only [init, hfirst],
      ⟨hfr.polf, hfr.seekFails⟩, Or.inr (Or.inl ⟨rfl, hfin, items_of_skip_nil inp hpost⟩)⟩
  | some x =>
    obtain ⟨ln, pos, c⟩ := x
    obtain ⟨_, _, hpos, hhead, hskip, l, ls, hl', hc⟩ := hpost
    obtain ⟨hgt1, hgt2⟩ := items_of_skip inp _ ln c l ls hskip hl' hc hhead
    by_cases hgt : c = GT
    · subst hgt
      obtain ⟨herr, hpt⟩ := hgt1 rfl
      refine ⟨{ r1 with bp := { r1.bp with start := pos }, byte := r1.byte + pos, line := ln,
                        searchPos := pos + 1 }, .ok true, by simp only [init, hfirst, if_true],
        ⟨hfr.polf, hfr.seekFails⟩, Or.inl ⟨rfl, herr, ?_⟩⟩
      intro st hst'
      have hbb : r1.byte + pos = pos + base r1 := by omega
      refine ⟨⟨hw1.b, hw1.pol⟩, he1, ?_, ?_, fun h => absurd h hst'⟩
      · show ScanSt inp _ (r1.byte + pos)
        rw [hbb]
        refine ⟨rfl, Nat.le_succ _, hpos, ?_, ?_⟩
        · intro p hp
          replace hp : p ∈ r1.bp.seqPos := hp
          rw [hbp1, hsq] at hp
          cases hp
        · show scan (inp.drop (pos + 1 + base r1)) (pos + 1 + base r1)
            (r1.bp.seqPos.map (· + base r1)) = _
          rw [hbp1, hsq, List.map_nil, ← scan_skip_gt _ _ hhead, List.drop_drop]
          have e : pos + base r1 + 1 = pos + 1 + base r1 := by omega
          rw [e]
      · show Pt inp 0 (r1.byte + pos) ln
        rw [hbb]; exact hpt
    · obtain ⟨hrecs, herr⟩ := hgt2 hgt
      exact ⟨{ r1 with state := .finished }, .err (.invalidStart ln c),
        by simp only [init, hfirst, hgt, if_false], ⟨hfr.polf, hfr.seekFails⟩,
        Or.inr (Or.inr ⟨ln, c, rfl, hfin, hrecs, herr⟩)⟩

/-! ## `next` -/

theorem err_none_of_lt {inp : List UInt8} {k : Nat} (h : k < (recsOf inp).length) :
    (items inp).err = none := by
  cases he : (items inp).err with
  | none => rfl
  | some e =>
    have := items_err_recs inp (by rw [he]; simp)
    rw [this] at h
    cases h

/-- the two outcomes of a read that has a pending record `k`: the record, or `BufferLimit` after
a refusal of the policy (then record `k` is still pending) -/
def RecOut (inp : List UInt8) (k : Nat) (pol0 : Pol) (r' : Reader) (res : Res Bool) : Prop :=
  (res = .ok true ∧ ∃ rc, (recsOf inp)[k]? = some rc ∧ viewRec r'.br.buf r'.bp = some (view rc) ∧
      head r'.br.buf r'.bp = some rc.head ∧ ownedSeq r'.br.buf r'.bp = some rc.seq ∧
      position r' = some (posOf rc) ∧ RInv inp r' (k + 1) ∧ r'.state ≠ .new) ∨
  (res = .err .bufferLimit ∧ ¬ PolGrows pol0 ∧ Ready inp r' k ∧ r'.state = .incomplete)

theorem nextCont_out {inp : List UInt8} {r : Reader} {k fuel : Nat} (h : Ready inp r k)
    (hst : r.state = .parsing ∨ r.state = .incomplete) (hfuel : inp.length < fuel) :
    ∃ r' res, nextCont fuel r = (r', res) ∧ Frame r r' ∧ RecOut inp k r.pol r' res := by
  obtain ⟨r', res, hnc, hfr, hcase⟩ := nextCont_ready h hst hfuel
  refine ⟨r', res, hnc, hfr, ?_⟩
  rcases hcase with ⟨hres, hw', he', hd, hl', hb', hst'⟩ | hD
  · left
    obtain ⟨rc, hk, hv, hh, ho, hpos, hinv⟩ :=
      recDone_post hw' he' (by rw [hb']; exact hd) (by rw [hb', hl']; exact h.pt) hst'
    refine ⟨hres, rc, hk, hv, hh, ho, hpos, hinv, ?_⟩
    rcases hst' with h' | h' <;> rw [h'] <;> intro h'' <;> cases h''
  · exact Or.inr hD

theorem RecOut.congr {inp : List UInt8} {k : Nat} {p q : Pol} {r' : Reader} {res : Res Bool}
    (h : RecOut inp k p r' res) (hpq : p.f = q.f) : RecOut inp k q r' res := by
  rcases h with h | ⟨h1, h2, h3⟩
  · exact Or.inl h
  · exact Or.inr ⟨h1, fun hg => h2 (polGrows_congr hpq hg), h3⟩

/-- one `next` call from any reachable state -/
theorem next_rinv {inp : List UInt8} {r : Reader} {k fuel : Nat} (h : RInv inp r k)
    (hfuel : inp.length < fuel) :
    ∃ r' res, next fuel r = (r', res) ∧ Frame r r' ∧
      (RecOut inp k r.pol r' res ∨
       (res = .ok false ∧ k = (recsOf inp).length ∧ Fin inp r' ∧
          (r.state = .new → (items inp).err = none)) ∨
       (∃ ln c, res = .err (.invalidStart ln c) ∧ r.state = .new ∧ Fin inp r' ∧ recsOf inp = [] ∧
          (items inp).err = some (.invalidStart ln c))) := by
  cases h with
  | fresh hf =>
    obtain ⟨r1, res1, hinit, hfr1, hcase⟩ := init_fresh hf hfuel
    rcases hcase with ⟨hres, herr, hready⟩ | ⟨hres, hfin, hrecs, herr⟩ | ⟨ln, c, hres, hfin, hrecs, herr⟩
    · subst hres
      obtain ⟨r', res, hnc, hfr', hout⟩ := nextCont_out (hready .parsing (by intro h; cases h))
        (Or.inl rfl) hfuel
      refine ⟨r', res, by simp only [next, hf.st, hinit]; exact hnc, hfr1.trans ⟨hfr'.polf, hfr'.seekFails⟩,
        Or.inl (hout.congr hfr1.polf)⟩
    · subst hres
      refine ⟨r1, _, by simp only [next, hf.st, hinit], hfr1, Or.inr (Or.inl ⟨rfl, by rw [hrecs]; rfl, hfin,
        fun _ => herr⟩)⟩
    · subst hres
      exact ⟨r1, _, by simp only [next, hf.st, hinit], hfr1,
        Or.inr (Or.inr ⟨ln, c, rfl, hf.st, hfin, hrecs, herr⟩)⟩
  | parsing hp hst0 =>
    obtain ⟨r', res, hnc, hfr', hout⟩ := nextCont_out (ready_incRec hp .parsing (by intro h; cases h))
      (Or.inl rfl) hfuel
    have hst : (incRec r).state = .parsing := hst0
    have e : ({ incRec r with state := .parsing } : Reader) = incRec r := by
      cases hr : incRec r
      rw [hr] at hst
      simp only at hst
      subst hst
      rfl
    rw [e] at hnc hfr' hout
    exact ⟨r', res, by rw [next_parsing fuel r hst0 hp.start_le]; exact hnc,
      ⟨hfr'.polf, hfr'.seekFails⟩, Or.inl hout⟩
  | ready hr hst =>
    rcases hst with hst | hst
    · obtain ⟨r', res, hnc, hfr', hout⟩ := nextCont_out (hr.withState .parsing (by intro h; cases h))
        (Or.inl rfl) hfuel
      exact ⟨r', res, by simp only [next, hst]; exact hnc, ⟨hfr'.polf, hfr'.seekFails⟩, Or.inl hout⟩
    · obtain ⟨r', res, hnc, hfr', hout⟩ := nextCont_out hr (Or.inr hst) hfuel
      exact ⟨r', res, by simp only [next, hst]; exact hnc, hfr', Or.inl hout⟩
  | finished hfin hk =>
    refine ⟨r, .ok false, next_finished fuel r hfin.st, Frame.refl r, Or.inr (Or.inl ⟨rfl, hk, hfin, ?_⟩)⟩
    intro h
    rw [hfin.st] at h
    cases h

end SeqIo.Fasta.Hist
