import SeqIoModel.Proofs.FastaHistoryTotal
import SeqIoModel.Proofs.FastaSeekAfterFault
import SeqIoModel.Proofs.AbstractReader
/-!
# C06, order (FASTA): after errors, further records come IN ORDER

`fasta_history_genuine` (C06) says that every record shown by any history – under arbitrary read
scripts with failures and refusing policies – is a record of S.  This file adds the ORDER: along a
history without seeks the records that are delivered (single reads, owned reads and the batches of
record set reads, in the order of the calls) form a sub-sequence of S's records – none twice, none
out of order – whatever errors occur in between.

Route: `WRInv` (the invariant behind C06) hides the index of the pending record (`∃ k, Pt inp k …`).
`KInv inp r k` is the same invariant with the cursor `k` exposed; every read moves the cursor
forward only (`nextK`, `readSetK`), a record delivered by a single read is record `j ≥ k` and leaves
the cursor at `j + 1`, a batch is the segment `k0 … k0 + m - 1` with `k0 ≥ k` and leaves the cursor
at `k0 + m`.
-/
open SeqIo SeqIo.FillProofs SeqIo.Spec

namespace SeqIo.Fasta.Hist

/-! ## the weak reader invariant with the cursor exposed -/

/-- record `k` of S is pending: it starts at `r.byte` (line `r.line`) -/
structure ReadyK (inp : List UInt8) (r : Reader) (k : Nat) : Prop where
  win : WinR inp r
  scan : ScanSt inp r r.byte
  pt : Pt inp k r.byte r.line

theorem ReadyK.toF {inp : List UInt8} {r : Reader} {k : Nat} (h : ReadyK inp r k) : ReadyF inp r :=
  ⟨h.win, h.scan, ⟨k, h.pt⟩⟩

/-- a record has been returned; record `k` starts at `search_pos` -/
structure ParsedK (inp : List UInt8) (r : Reader) (k : Nat) : Prop where
  win : WinR inp r
  eof : Eof inp r
  start_le : r.bp.start ≤ r.searchPos
  sp_le : r.searchPos ≤ r.br.buf.length
  byte_eq : r.byte = r.bp.start + base r
  pt : Pt inp k (r.searchPos + base r) (r.line + r.bp.seqPos.length)

theorem ParsedK.toF {inp : List UInt8} {r : Reader} {k : Nat} (h : ParsedK inp r k) : ParsedF inp r :=
  ⟨h.win, h.eof, h.start_le, h.sp_le, h.byte_eq, ⟨k, h.pt⟩⟩

/-- `WRInv` with the cursor: `k` is (a lower bound of) the index of the next record of S that a read
can deliver.  In state `finished` nothing is delivered any more (without a seek): any `k`. -/
inductive KInv (inp : List UInt8) : Reader → Nat → Prop
  | fresh {r : Reader} : NewF inp r → r.state = .new → KInv inp r 0
  | parsing {r : Reader} {k : Nat} : ParsedK inp r k → r.state = .parsing → KInv inp r k
  | positioned {r : Reader} {k : Nat} : ReadyK inp r k → Eof inp r → r.state = .positioned →
      KInv inp r k
  | incomplete {r : Reader} {k : Nat} : ReadyK inp r k → r.state = .incomplete → KInv inp r k
  | finished {r : Reader} {k : Nat} : WinR inp r → r.byte = r.bp.start + base r →
      r.state = .finished → KInv inp r k

theorem KInv.toW {inp : List UInt8} {r : Reader} {k : Nat} (h : KInv inp r k) : WRInv inp r := by
  cases h with
  | fresh h hst => exact WRInv.fresh h hst
  | parsing h hst => exact WRInv.parsing h.toF hst
  | positioned h he hst => exact WRInv.positioned h.toF he hst
  | incomplete h hst => exact WRInv.incomplete h.toF hst
  | finished hw hb hst => exact WRInv.finished hw hb hst

/-- every state of `WRInv` has a cursor -/
theorem WRInv.exists_k {inp : List UInt8} {r : Reader} (h : WRInv inp r) : ∃ k, KInv inp r k := by
  cases h with
  | fresh h hst => exact ⟨0, KInv.fresh h hst⟩
  | parsing h hst =>
    obtain ⟨k, hk⟩ := h.pt
    exact ⟨k, KInv.parsing ⟨h.win, h.eof, h.start_le, h.sp_le, h.byte_eq, hk⟩ hst⟩
  | positioned h he hst =>
    obtain ⟨k, hk⟩ := h.pt
    exact ⟨k, KInv.positioned ⟨h.win, h.scan, hk⟩ he hst⟩
  | incomplete h hst =>
    obtain ⟨k, hk⟩ := h.pt
    exact ⟨k, KInv.incomplete ⟨h.win, h.scan, hk⟩ hst⟩
  | finished hw hb hst => exact ⟨0, KInv.finished hw hb hst⟩

theorem KInv.of_finished {inp : List UInt8} {r : Reader} (h : WRInv inp r) (hst : r.state = .finished)
    (k : Nat) : KInv inp r k := by
  cases h with
  | fresh _ h' => rw [hst] at h'; cases h'
  | parsing _ h' => rw [hst] at h'; cases h'
  | positioned _ _ h' => rw [hst] at h'; cases h'
  | incomplete _ h' => rw [hst] at h'; cases h'
  | finished hw hb _ => exact KInv.finished hw hb hst

theorem KInv.of_new {inp : List UInt8} {r : Reader} (h : WRInv inp r) (hst : r.state = .new) :
    KInv inp r 0 := by
  cases h with
  | fresh h' _ => exact KInv.fresh h' hst
  | parsing _ h' => rw [hst] at h'; cases h'
  | positioned _ _ h' => rw [hst] at h'; cases h'
  | incomplete _ h' => rw [hst] at h'; cases h'
  | finished _ _ h' => rw [hst] at h'; cases h'

/-! ## a record that is shown to the caller, with its index -/

/-- the record the reader currently points to is record `k` of S -/
def GenRecK (inp : List UInt8) (r' : Reader) (k : Nat) : Prop :=
  ∃ rc, (recsOf inp)[k]? = some rc ∧ viewRec r'.br.buf r'.bp = some (view rc) ∧
    head r'.br.buf r'.bp = some rc.head ∧ ownedSeq r'.br.buf r'.bp = some rc.seq

theorem recDone_coreK {inp : List UInt8} {r' : Reader} {k : Nat} (hw' : WinR inp r')
    (he' : Eof inp r') (hd : RecDone inp r' r'.byte) (hp : Pt inp k r'.byte r'.line) :
    GenRecK inp r' k ∧
      ((ParsedK inp r' (k + 1) ∧ r'.state ≠ .finished) ∨
       (r'.state = .finished ∧ r'.byte = r'.bp.start + base r')) := by
  obtain ⟨rc, hk, hby, hln, hH, hSL, hne⟩ :=
    view_of_recAt hw'.b.base_le hw'.b.win (recAt_of_recDone hd) hp
  refine ⟨⟨rc, hk, viewRec_of hH hSL, hH, ownedSeq_of hSL⟩, ?_⟩
  obtain ⟨_, _, _, _, _, _, hfound, hnot⟩ := pt_step hp
  have hlen : (finalPos (scan (inp.drop r'.byte) r'.byte [])).length = r'.bp.seqPos.length := by
    rw [← hd.fin, List.length_map]
  cases hf : (scan (inp.drop r'.byte) r'.byte []).1 with
  | true =>
    obtain ⟨hsp, hsl, hsple⟩ := hd.nxt hf
    have hnf : r'.state ≠ .finished := by
      intro h
      have := hd.st.mp h
      rw [hf] at this
      cases this
    have hp1 := hfound hf
    rw [hsp, hlen] at hp1
    exact Or.inl ⟨⟨hw', he', hsl, hsple, by rw [← hd.start_eq], hp1⟩, hnf⟩
  | false =>
    exact Or.inr ⟨hd.st.mpr hf, by rw [← hd.start_eq]⟩

/-! ## `next` -/

/-- the second half of `next` from the pending record `k`: record `k` is delivered and the cursor is
`k + 1`, or the call fails and record `k` is still pending -/
theorem nextContK {inp : List UInt8} {r : Reader} {fuel k : Nat} (h : ReadyK inp r k)
    (hst : (r.state = .parsing ∧ Eof inp r) ∨ r.state = .incomplete) (hfuel : inp.length < fuel) :
    ∃ r' res, nextCont fuel r = (r', res) ∧
      ((res = .ok true ∧ GenRecK inp r' k ∧ KInv inp r' (k + 1)) ∨
       (IoOrLimit res ∧ KInv inp r' k)) := by
  have hcl := h.win.b.cur_le
  have hpt := h.pt
  have hdone : ∀ r2 : Reader, WinR inp r2 → Eof inp r2 → RecDone inp r2 r.byte → r2.line = r.line →
      r2.byte = r.byte → (r2.state = .parsing ∨ r2.state = .finished) →
      KInv inp r2 (k + 1) ∧ GenRecK inp r2 k := by
    intro r2 hw2 he2 hd2 hl2 hb2 hst2
    obtain ⟨hg, hcase⟩ := recDone_coreK hw2 he2 (by rw [hb2]; exact hd2) (by rw [hb2, hl2]; exact hpt)
    refine ⟨?_, hg⟩
    rcases hcase with ⟨hpar, hnf⟩ | ⟨hfin, hbyte⟩
    · rcases hst2 with h' | h'
      · exact KInv.parsing hpar h'
      · exact absurd h' hnf
    · exact KInv.finished hw2 hbyte hfin
  have hresume : ∀ r1 : Reader, WinR inp r1 → ScanSt inp r1 r.byte →
      r1.state = .incomplete → r1.line = r.line → r1.byte = r.byte →
      r1.br.src.cursor = r.br.src.cursor →
      ∃ r' res, (match resume fuel true r1 with
          | (r2, .ok true) => (if r2.state ≠ .finished then { r2 with state := .parsing } else r2, Out.ok true)
          | (r2, o) => (r2, o)) = (r', res) ∧
        ((res = .ok true ∧ GenRecK inp r' k ∧ KInv inp r' (k + 1)) ∨
         (IoOrLimit res ∧ KInv inp r' k)) := by
    intro r1 hw1 hs1 hst1 hl1 hb1 hcur1
    obtain ⟨r2, res2, hres, _, hw2, hl2, hb2, _, hcase⟩ :=
      resumeF true fuel r1 r.byte hw1 hs1 hst1 (by rw [hcur1]; omega)
    rw [hres]
    rcases hcase with ⟨hr, he2, hd2, hst2, _⟩ | ⟨hio, hs2, hst2⟩
    · subst hr
      rcases hst2 with h2 | h2
      · have hnf : r2.state ≠ .finished := by rw [h2]; intro h; cases h
        obtain ⟨h1, h4⟩ := hdone { r2 with state := .parsing } ⟨hw2.b, hw2.pol⟩ he2
          (recDone_parsing hd2 hnf) (by show r2.line = _; rw [hl2, hl1]) (by show r2.byte = _; rw [hb2, hb1])
          (Or.inl rfl)
        exact ⟨{ r2 with state := .parsing }, .ok true, by simp only [hnf, ne_eq, not_false_eq_true, if_true],
          Or.inl ⟨rfl, h4, h1⟩⟩
      · obtain ⟨h1, h4⟩ := hdone r2 hw2 he2 hd2 (by rw [hl2, hl1]) (by rw [hb2, hb1]) (Or.inr h2)
        exact ⟨r2, .ok true, by simp only [h2, ne_eq, not_true_eq_false, if_false],
          Or.inl ⟨rfl, h4, h1⟩⟩
    · refine ⟨r2, res2, ?_, Or.inr ⟨hio, ?_⟩⟩
      · rcases hio with h' | ⟨k', h'⟩ <;> rw [h']
      · exact KInv.incomplete ⟨hw2, by rw [hb2, hb1]; exact hs2, by rw [hb2, hb1, hl2, hl1]; exact hpt⟩ hst2
  rcases hst with ⟨hst, he⟩ | hst
  · obtain ⟨r1, fnd, hsearch, hbr1, hpol1, hlog1, hl1, hb1, hstart1, htrue, hfalse⟩ :=
      search_stepF h.win.b he h.scan (by rw [hst]; intro h; cases h)
    have hne : r.state ≠ .incomplete := by rw [hst]; intro h; cases h
    have hw1 : WinR inp r1 := ⟨by rw [hbr1]; exact h.win.b, by rw [hpol1]; exact h.win.pol⟩
    cases fnd with
    | true =>
      obtain ⟨hdn, hstate⟩ := htrue rfl
      have hni : r1.state ≠ .incomplete := by
        rcases hstate with h | h <;> rw [h] <;> (try rw [hst]) <;> intro h' <;> cases h'
      obtain ⟨h1, h4⟩ := hdone r1 hw1 (by unfold Eof; rw [hbr1]; exact he) hdn hl1 hb1
        (by rcases hstate with h | h
            · left; rw [h, hst]
            · right; exact h)
      refine ⟨r1, .ok true, ?_, Or.inl ⟨rfl, h4, h1⟩⟩
      simp only [nextCont, hne, ne_eq, not_false_eq_true, if_true, hsearch, Option.map_some, hni,
        if_false]
    | false =>
      obtain ⟨hs1, hst1, _, _⟩ := hfalse rfl
      obtain ⟨r', res, hres, hcase⟩ := hresume r1 hw1 hs1 hst1 hl1 hb1 (by rw [hbr1])
      refine ⟨r', res, ?_, hcase⟩
      simp only [nextCont, hne, ne_eq, not_false_eq_true, if_true, hsearch, Option.map_some, hst1]
      exact hres
  · obtain ⟨r', res, hres, hcase⟩ := hresume r h.win h.scan hst rfl rfl rfl
    refine ⟨r', res, ?_, hcase⟩
    simp only [nextCont, hst, ne_eq, not_true_eq_false, if_false, if_true]
    exact hres

/-- **one `next` call from any state reachable under I/O failures and refusals, with the cursor**:
a delivered record is record `j ≥ k` of S and the cursor moves to `j + 1`; otherwise the cursor does
not move backwards -/
theorem nextK {inp : List UInt8} {r : Reader} {fuel k : Nat} (h : KInv inp r k)
    (hfuel : inp.length < fuel) :
    ∃ r' res, next fuel r = (r', res) ∧
      ((res = .ok true ∧ ∃ j, k ≤ j ∧ GenRecK inp r' j ∧ KInv inp r' (j + 1)) ∨
       ((res = .ok false ∨ ∃ e, res = .err e) ∧ ∃ k', k ≤ k' ∧ KInv inp r' k')) := by
  have hcont : ∀ (r0 : Reader) (k0 : Nat), ReadyK inp r0 k0 → k ≤ k0 →
      ((r0.state = .parsing ∧ Eof inp r0) ∨ r0.state = .incomplete) →
      ∃ r' res, nextCont fuel r0 = (r', res) ∧
        ((res = .ok true ∧ ∃ j, k ≤ j ∧ GenRecK inp r' j ∧ KInv inp r' (j + 1)) ∨
         ((res = .ok false ∨ ∃ e, res = .err e) ∧ ∃ k', k ≤ k' ∧ KInv inp r' k')) := by
    intro r0 k0 hr0 hk0 hst0
    obtain ⟨r', res, hnc, hcase⟩ := nextContK hr0 hst0 hfuel
    refine ⟨r', res, hnc, ?_⟩
    rcases hcase with ⟨hres, hg, hinv⟩ | ⟨hio, hinv⟩
    · exact Or.inl ⟨hres, k0, hk0, hg, hinv⟩
    · refine Or.inr ⟨Or.inr ?_, k0, hk0, hinv⟩
      rcases hio with h' | ⟨k', h'⟩ <;> exact ⟨_, h'⟩
  cases h with
  | fresh hf hst =>
    obtain ⟨r1, res1, hinit, _, hcase⟩ := initF hf hst hfuel
    rcases hcase with ⟨hres, he1, hready⟩ | ⟨hres, hinv, hfin⟩ | ⟨⟨k', hres⟩, hinv, hnew⟩
    · subst hres
      have hr := hready .parsing
      obtain ⟨k0, hk0⟩ := hr.pt
      obtain ⟨r', res, hnc, hout⟩ := hcont { r1 with state := .parsing } k0 ⟨hr.win, hr.scan, hk0⟩
        (Nat.zero_le _) (Or.inl ⟨rfl, he1⟩)
      exact ⟨r', res, by simp only [next, hst, hinit]; exact hnc, hout⟩
    · refine ⟨r1, res1, ?_, Or.inr ⟨?_, 0, Nat.le_refl _, KInv.of_finished hinv hfin 0⟩⟩
      · rcases hres with h | ⟨ln, c, h⟩ <;> subst h <;> simp only [next, hst, hinit]
      · rcases hres with h | ⟨ln, c, h⟩
        · exact Or.inl h
        · exact Or.inr ⟨_, h⟩
    · subst hres
      exact ⟨r1, .err (.io k'), by simp only [next, hst, hinit],
        Or.inr ⟨Or.inr ⟨_, rfl⟩, 0, Nat.le_refl _, KInv.of_new hinv hnew⟩⟩
  | parsing hp hst =>
    have hready : ReadyK inp (incRec r) k := by
      have hb : (incRec r).byte = r.searchPos + base r := by
        show r.byte + (r.searchPos - r.bp.start) = _
        have := hp.byte_eq; have := hp.start_le; omega
      refine ⟨⟨hp.win.b, hp.win.pol⟩, ?_, ?_⟩
      · rw [hb]
        exact ⟨rfl, Nat.le_refl _, hp.sp_le, (by intro p hp; cases hp), rfl⟩
      · rw [hb]; exact hp.pt
    obtain ⟨r', res, hnc, hout⟩ := hcont (incRec r) k hready (Nat.le_refl _) (Or.inl ⟨hst, hp.eof⟩)
    exact ⟨r', res, by rw [next_parsing fuel r hst hp.start_le]; exact hnc, hout⟩
  | positioned hr he hst =>
    obtain ⟨r', res, hnc, hout⟩ := hcont { r with state := .parsing } k
      ⟨⟨hr.win.b, hr.win.pol⟩, ⟨hr.scan.start_eq, hr.scan.start_le, hr.scan.sp_le, hr.scan.pos_lt, hr.scan.resum⟩, hr.pt⟩
      (Nat.le_refl _) (Or.inl ⟨rfl, he⟩)
    exact ⟨r', res, by simp only [next, hst]; exact hnc, hout⟩
  | incomplete hr hst =>
    obtain ⟨r', res, hnc, hout⟩ := hcont r k hr (Nat.le_refl _) (Or.inr hst)
    exact ⟨r', res, by simp only [next, hst]; exact hnc, hout⟩
  | finished hw hb hst =>
    exact ⟨r, .ok false, next_finished fuel r hst,
      Or.inr ⟨Or.inl rfl, k, Nat.le_refl _, KInv.finished hw hb hst⟩⟩

/-! ## record set reads -/

/-- a reader between two iterations of the loop; `k` = index of the pending record -/
def LoopRdK (inp : List UInt8) (r : Reader) (k : Nat) (npos : Nat) : Prop :=
  (ReadyK inp r k ∧ ((r.state = .positioned ∧ Eof inp r) ∨ r.state = .incomplete)) ∨
  (WinR inp r ∧ r.state = .finished ∧ r.byte = r.bp.start + base r ∧ 1 ≤ npos)

theorem LoopRdK.inv {inp : List UInt8} {r : Reader} {k npos : Nat} (h : LoopRdK inp r k npos) :
    KInv inp r k := by
  rcases h with ⟨hr, ⟨hst, he⟩ | hst⟩ | ⟨hw, hst, hb, _⟩
  · exact KInv.positioned hr he hst
  · exact KInv.incomplete hr hst
  · exact KInv.finished hw hb hst

/-- the loop invariant: the positions stored so far are the records `k0, k0 + 1, …` of S (`Acc`, the
invariant of the failure-free development), and the pending record is `k0 + npos` -/
structure LoopInvK (inp : List UInt8) (r : Reader) (rs : RecordSet) (k0 : Nat) (isNew : Bool) :
    Prop where
  acc : Acc inp (base r) r.br.buf.length rs k0
  rd : LoopRdK inp r (k0 + rs.npos) rs.npos
  new : r.state = .incomplete → isNew = true → rs.npos = 0

/-- the outcomes of the loop: the set holds the records `k0 … k0 + npos - 1` and the cursor is
`k0 + npos`; or the call failed, the set is empty and the cursor has not moved backwards -/
def SetOutK (inp : List UInt8) (k0 : Nat) (r' : Reader) (rs' : RecordSet) (res : Res Bool) : Prop :=
  (res = .ok true ∧ Acc inp (base r') r'.br.buf.length rs' k0 ∧ KInv inp r' (k0 + rs'.npos) ∧
    1 ≤ rs'.npos) ∨
  (IoOrLimit res ∧ rs'.npos = 0 ∧ ∃ k', k0 ≤ k' ∧ KInv inp r' k')

theorem store_stepK {inp : List UInt8} {r2 : Reader} {rs : RecordSet} {k0 : Nat}
    (hacc : Acc inp (base r2) r2.br.buf.length rs k0) (hw : WinR inp r2) (he : Eof inp r2)
    (hd : RecDone inp r2 r2.byte) (hp : Pt inp (k0 + rs.npos) r2.byte r2.line)
    (hst : r2.state = .positioned ∨ r2.state = .finished) (hsl : r2.bp.start ≤ r2.searchPos) :
    Acc inp (base (incRec r2)) (incRec r2).br.buf.length (rs.store r2.bp) k0 ∧
    LoopRdK inp (incRec r2) (k0 + (rs.store r2.bp).npos) (rs.store r2.bp).npos := by
  obtain ⟨rc, hk, hby, _⟩ := pt_step hp
  obtain ⟨_, hcase⟩ := recDone_coreK hw he hd hp
  refine ⟨?_, ?_⟩
  · exact hacc.store r2.bp rc hk (by rw [hby]; exact recAt_of_recDone hd)
  · rw [store_npos, ← Nat.add_assoc]
    rcases hcase with ⟨hpar, hnf⟩ | ⟨hfin, hbyte⟩
    · have hpos : r2.state = .positioned := by
        rcases hst with h | h
        · exact h
        · exact absurd h hnf
      left
      have hb : (incRec r2).byte = r2.searchPos + base r2 := by
        show r2.byte + (r2.searchPos - r2.bp.start) = _
        have := hpar.byte_eq; omega
      refine ⟨⟨⟨hw.b, hw.pol⟩, ?_, ?_⟩, Or.inl ⟨hpos, he⟩⟩
      · rw [hb]
        exact ⟨rfl, Nat.le_refl _, hpar.sp_le, (by intro p hp; cases hp), rfl⟩
      · rw [hb]; exact hpar.pt
    · right
      refine ⟨⟨hw.b, hw.pol⟩, hfin, ?_, by omega⟩
      show r2.byte + (r2.searchPos - r2.bp.start) = r2.searchPos + base r2
      omega

/-- the part of a loop iteration after a record has been found -/
theorem after_storeK {inp : List UInt8} {fuel f : Nat} {n : Option Nat} {isNew : Bool} {k0 : Nat}
    (ih : ∀ (r : Reader) (rs : RecordSet), LoopInvK inp r rs k0 isNew → mu inp r < f →
      ∃ r' rs' res, setLoop f fuel n isNew r rs = (r', rs', res) ∧ SetOutK inp k0 r' rs' res)
    {r2 : Reader} {rs : RecordSet}
    (hacc : Acc inp (base r2) r2.br.buf.length rs k0) (hw : WinR inp r2) (he : Eof inp r2)
    (hd : RecDone inp r2 r2.byte) (hp : Pt inp (k0 + rs.npos) r2.byte r2.line)
    (hst : r2.state = .positioned ∨ r2.state = .finished) (hsl : r2.bp.start ≤ r2.searchPos)
    (hmu : mu inp (incRec r2) < f) :
    ∃ r' rs' res,
      (match storeStep n r2 rs with
        | none => (r2, rs, Out.panic)
        | some (r, rs, true) => (r, rs, .ok true)
        | some (r, rs, false) => setLoop f fuel n isNew r rs) = (r', rs', res) ∧
      SetOutK inp k0 r' rs' res := by
  obtain ⟨hacc', hrd'⟩ := store_stepK hacc hw he hd hp hst hsl
  rw [storeStep_eq n r2 rs hsl]
  have hst3 : (incRec r2).state ≠ .incomplete := by
    show r2.state ≠ .incomplete
    rcases hst with h | h <;> rw [h] <;> intro h' <;> cases h'
  by_cases hn : n = some (rs.store r2.bp).npos
  · simp only [hn, decide_true]
    exact ⟨_, _, _, rfl, Or.inl ⟨rfl, hacc', hrd'.inv, by rw [store_npos]; omega⟩⟩
  · simp only [hn, decide_false]
    obtain ⟨r', rs', res, hloop, hout⟩ := ih _ _ ⟨hacc', hrd', fun h => absurd h hst3⟩ hmu
    exact ⟨r', rs', res, hloop, hout⟩

theorem setLoopK {inp : List UInt8} {fuel : Nat} {n : Option Nat} {k0 : Nat}
    (hfuel : inp.length < fuel) :
    ∀ (f : Nat) (isNew : Bool) (r : Reader) (rs : RecordSet), LoopInvK inp r rs k0 isNew →
      mu inp r < f →
      ∃ r' rs' res, setLoop f fuel n isNew r rs = (r', rs', res) ∧ SetOutK inp k0 r' rs' res := by
  intro f
  induction f with
  | zero => intro _ _ _ _ h; omega
  | succ f ih =>
    intro isNew r rs hinv hmu
    rw [setLoop_unfold]
    rcases hinv.rd with ⟨hr, hst⟩ | ⟨hw, hfin, hb, hpos⟩
    · have hnf : r.state ≠ .finished := by
        rcases hst with ⟨h, _⟩ | h <;> rw [h] <;> intro h' <;> cases h'
      rw [if_neg hnf]
      have hcl := hr.win.b.cur_le
      have hpt := hr.pt
      have hmu_store : ∀ r2 : Reader, WinR inp r2 → RecDone inp r2 r2.byte → r2.byte = r.byte →
          mu inp (incRec r2) < f := by
        intro r2 hw2 hd2 hb2
        have : mu inp (incRec r2) < mu inp r := by
          apply mu_afterF hnf ⟨hw2.b, hw2.pol⟩
          intro hnf3
          have hnf2 : r2.state ≠ .finished := hnf3
          have hf : (scan (inp.drop r2.byte) r2.byte []).1 = true := by
            cases h : (scan (inp.drop r2.byte) r2.byte []).1 with
            | true => rfl
            | false => exact absurd (hd2.st.mpr h) hnf2
          obtain ⟨h1, h2, h3⟩ := hd2.nxt hf
          refine ⟨h3, ?_⟩
          show r.searchPos + base r < r2.searchPos + base r2
          rw [← h1, hb2]
          rw [hb2] at hf
          exact found_advance hr.scan hf
        omega
      rcases hst with ⟨hst, he⟩ | hst
      · have hni : r.state ≠ .incomplete := by rw [hst]; intro h; cases h
        rw [if_neg hni]
        obtain ⟨r1, fnd, hsearch, hbr1, hpol1, hlog1, hl1, hb1, hstart1, htrue, hfalse⟩ :=
          search_stepF hr.win.b he hr.scan hnf
        obtain ⟨hmono, _⟩ := search_mono hsearch hr.scan.sp_le
        have hw1 : WinR inp r1 := ⟨by rw [hbr1]; exact hr.win.b, by rw [hpol1]; exact hr.win.pol⟩
        have he1 : Eof inp r1 := by unfold Eof; rw [hbr1]; exact he
        have hbase1 : base r1 = base r := by unfold base; rw [hbr1]
        have hacc1 : Acc inp (base r1) r1.br.buf.length rs k0 := by
          rw [hbase1, hbr1]; exact hinv.acc
        rw [hsearch]
        cases fnd with
        | true =>
          obtain ⟨hdone, hstate⟩ := htrue rfl
          simp only
          exact after_storeK (ih isNew) hacc1 hw1 he1
            (by rw [hb1]; exact hdone) (by rw [hb1, hl1]; exact hpt)
            (by rcases hstate with h | h
                · left; rw [h, hst]
                · right; exact h)
            (by have := hr.scan.start_le; omega)
            (hmu_store r1 hw1 (by rw [hb1]; exact hdone) hb1)
        | false =>
          obtain ⟨hs1, hst1, _, _⟩ := hfalse rfl
          simp only
          have hr1 : ReadyK inp r1 (k0 + rs.npos) :=
            ⟨hw1, by rw [hb1]; exact hs1, by rw [hb1, hl1]; exact hpt⟩
          have hmu1 : mu inp r1 < f := by
            have : mu inp r1 < mu inp r := by
              have := abs_leF hw1 hs1.sp_le
              unfold mu
              rw [if_neg hnf, if_neg (by rw [hst1]; intro h; cases h), if_pos hst1, if_neg hni, hbase1]
              omega
            omega
          have hrd1 : LoopRdK inp r1 (k0 + rs.npos) rs.npos := Or.inl ⟨hr1, Or.inr hst1⟩
          by_cases h0 : rs.npos = 0
          · rw [if_pos h0]
            exact ih isNew r1 rs ⟨hacc1, hrd1, fun _ _ => h0⟩ hmu1
          · rw [if_neg h0]
            cases hn : n with
            | some n' =>
              simp only
              by_cases hlt : rs.npos < n'
              · rw [if_pos hlt]
                obtain ⟨r', rs', res, hres, hout⟩ :=
                  ih false r1 rs ⟨hacc1, hrd1, fun _ h => (by cases h)⟩ hmu1
                rw [hn] at hres
                exact ⟨r', rs', res, hres, hout⟩
              · rw [if_neg hlt]
                exact ⟨r1, rs, .ok true, rfl, Or.inl ⟨rfl, hacc1, hrd1.inv, Nat.pos_of_ne_zero h0⟩⟩
            | none =>
              simp only
              exact ⟨r1, rs, .ok true, rfl, Or.inl ⟨rfl, hacc1, hrd1.inv, Nat.pos_of_ne_zero h0⟩⟩
      · rw [if_pos hst]
        obtain ⟨r1, res1, hres1, _, hw1, hl1, hb1, hmk1, hcase⟩ :=
          resumeF isNew fuel r r.byte hr.win hr.scan hst (by omega)
        rw [hres1]
        have hacc1 : Acc inp (base r1) r1.br.buf.length rs k0 := by
          cases hnew : isNew with
          | true => exact hinv.acc.empty (hinv.new hst hnew)
          | false =>
            obtain ⟨h1, h2⟩ := hmk1 hnew
            rw [h1]
            exact hinv.acc.mono h2
        rcases hcase with ⟨hr1, he1, hd1, hst1, hsl1⟩ | ⟨hio, hs1, hst1⟩
        · subst hr1
          simp only
          rcases hst1 with hst1 | hst1
          · have hnf1 : r1.state ≠ .finished := by rw [hst1]; intro h; cases h
            rw [if_pos hnf1]
            have hw2 : WinR inp { r1 with state := .positioned } := ⟨hw1.b, hw1.pol⟩
            have hd1' : RecDone inp r1 r1.byte := by rw [hb1]; exact hd1
            have hd2 : RecDone inp { r1 with state := .positioned } r1.byte :=
              recDone_state hd1' hnf1 .positioned (by intro h; cases h)
            exact after_storeK (r2 := { r1 with state := .positioned }) (ih isNew) hacc1 hw2 he1 hd2
                (by show Pt inp (k0 + rs.npos) r1.byte r1.line; rw [hb1, hl1]; exact hpt) (Or.inl rfl) hsl1
                (hmu_store _ hw2 hd2 hb1)
          · have hnf1 : ¬ (r1.state ≠ .finished) := by rw [hst1]; simp
            rw [if_neg hnf1]
            exact after_storeK (r2 := r1) (ih isNew) hacc1 hw1 he1 (by rw [hb1]; exact hd1)
                (by rw [hb1, hl1]; exact hpt) (Or.inr hst1) hsl1
                (hmu_store _ hw1 (by rw [hb1]; exact hd1) hb1)
        · have hinv1 : KInv inp r1 (k0 + rs.npos) :=
            KInv.incomplete ⟨hw1, by rw [hb1]; exact hs1, by rw [hb1, hl1]; exact hpt⟩ hst1
          rcases hio with h' | ⟨k', h'⟩
          · subst h'
            exact ⟨r1, { rs with npos := 0 }, _, rfl,
              Or.inr ⟨Or.inl rfl, rfl, _, Nat.le_add_right _ _, hinv1⟩⟩
          · subst h'
            exact ⟨r1, { rs with npos := 0 }, _, rfl,
              Or.inr ⟨Or.inr ⟨k', rfl⟩, rfl, _, Nat.le_add_right _ _, hinv1⟩⟩
    · rw [if_pos hfin]
      exact ⟨r, rs, .ok true, rfl, Or.inl ⟨rfl, hinv.acc, hinv.rd.inv, hpos⟩⟩

/-- **one `read_record_set[_exact]` call from any state reachable under failures and refusals, with
the cursor `k`**: a filled set holds the contiguous segment `k0 … k0 + npos - 1` of S's records
(`Acc`), `k0 ≥ k`, and the cursor moves to `k0 + npos`; otherwise it does not move backwards -/
theorem readSetK {inp : List UInt8} {r : Reader} {fuel k : Nat} (h : KInv inp r k)
    (hfuel : 2 * inp.length + 2 < fuel) (rs : RecordSet) (n : Option Nat) :
    ∃ r' rs' res, readRecordSetExact fuel r rs n = (r', rs', res) ∧
      ((res = .ok true ∧ rs'.buffer = r'.br.buf ∧ 1 ≤ rs'.npos ∧ ∃ k0, k ≤ k0 ∧
          Acc inp (base r') r'.br.buf.length rs' k0 ∧ KInv inp r' (k0 + rs'.npos)) ∨
       (res ≠ .ok true ∧ ∃ k', k ≤ k' ∧ KInv inp r' k')) := by
  have hfuel1 : inp.length < fuel := by omega
  have hloop : ∀ (r0 : Reader) (k0 : Nat), ReadyK inp r0 k0 → k ≤ k0 →
      ((r0.state = .positioned ∧ Eof inp r0) ∨ r0.state = .incomplete) →
      ∃ r' rs' res, (match setLoop fuel fuel n true r0 { rs with npos := 0 } with
          | (r, rs, .ok true) => (r, { rs with buffer := r.br.buf }, Out.ok true)
          | x => x) = (r', rs', res) ∧
        ((res = .ok true ∧ rs'.buffer = r'.br.buf ∧ 1 ≤ rs'.npos ∧ ∃ k0, k ≤ k0 ∧
            Acc inp (base r') r'.br.buf.length rs' k0 ∧ KInv inp r' (k0 + rs'.npos)) ∨
         (res ≠ .ok true ∧ ∃ k', k ≤ k' ∧ KInv inp r' k')) := by
    intro r0 k0 hr0 hk0 hst0
    have hinv : LoopInvK inp r0 { rs with npos := 0 } k0 true :=
      ⟨⟨Nat.zero_le _, fun i hi => absurd hi (Nat.not_lt_zero _)⟩, Or.inl ⟨hr0, hst0⟩, fun _ _ => rfl⟩
    obtain ⟨r', rs', res, hres, hout⟩ :=
      setLoopK (n := n) hfuel1 fuel true r0 _ hinv (by have := mu_le inp r0; omega)
    rw [hres]
    rcases hout with ⟨hr, hacc, hkinv, hpos⟩ | ⟨hio, h0, k', hk', hkinv⟩
    · subst hr
      exact ⟨r', { rs' with buffer := r'.br.buf }, .ok true, rfl,
        Or.inl ⟨rfl, rfl, hpos, k0, hk0, ⟨hacc.npos_le, hacc.recs⟩, hkinv⟩⟩
    · refine ⟨r', rs', res, ?_, Or.inr ⟨?_, k', by omega, hkinv⟩⟩
      · rcases hio with h' | ⟨k'', h'⟩ <;> rw [h']
      · rcases hio with h' | ⟨k'', h'⟩ <;> rw [h'] <;> intro hh <;> cases hh
  cases h with
  | fresh hf hst =>
    obtain ⟨r1, res1, hinit, _, hcase⟩ := initF hf hst hfuel1
    rcases hcase with ⟨hres, he1, hready⟩ | ⟨hres, hinv, hfin⟩ | ⟨⟨k', hres⟩, hinv, hnew⟩
    · subst hres
      have hr := hready .positioned
      obtain ⟨k0, hk0⟩ := hr.pt
      obtain ⟨r', rs', res, hl, hout⟩ :=
        hloop { r1 with state := .positioned } k0 ⟨hr.win, hr.scan, hk0⟩ (Nat.zero_le _)
          (Or.inl ⟨rfl, he1⟩)
      exact ⟨r', rs', res, by simp only [readRecordSetExact, hst, hinit]; exact hl, hout⟩
    · rcases hres with h' | ⟨ln, c, h'⟩
      · subst h'
        exact ⟨r1, rs, .ok false, by simp only [readRecordSetExact, hst, hinit],
          Or.inr ⟨(by intro hh; cases hh), 0, Nat.le_refl _, KInv.of_finished hinv hfin 0⟩⟩
      · subst h'
        exact ⟨r1, rs, .err (.invalidStart ln c), by simp only [readRecordSetExact, hst, hinit],
          Or.inr ⟨(by intro hh; cases hh), 0, Nat.le_refl _, KInv.of_finished hinv hfin 0⟩⟩
    · subst hres
      exact ⟨r1, rs, .err (.io k'), by simp only [readRecordSetExact, hst, hinit],
        Or.inr ⟨(by intro hh; cases hh), 0, Nat.le_refl _, KInv.of_new hinv hnew⟩⟩
  | parsing hp hst =>
    have hready : ReadyK inp { incRec r with state := .positioned } k := by
      have hb : (incRec r).byte = r.searchPos + base r := by
        show r.byte + (r.searchPos - r.bp.start) = _
        have := hp.byte_eq; have := hp.start_le; omega
      refine ⟨⟨hp.win.b, hp.win.pol⟩, ?_, ?_⟩
      · show ScanSt inp _ (incRec r).byte
        rw [hb]
        exact ⟨rfl, Nat.le_refl _, hp.sp_le, (by intro p hp; cases hp), rfl⟩
      · show Pt inp k (incRec r).byte _
        rw [hb]; exact hp.pt
    obtain ⟨r', rs', res, hl, hout⟩ :=
      hloop { incRec r with state := .positioned } k hready (Nat.le_refl _) (Or.inl ⟨rfl, hp.eof⟩)
    exact ⟨r', rs', res,
      by simp only [readRecordSetExact, hst, incrementRecord_eq r hp.start_le]; exact hl, hout⟩
  | positioned hr he hst =>
    obtain ⟨r', rs', res, hl, hout⟩ := hloop r k hr (Nat.le_refl _) (Or.inl ⟨hst, he⟩)
    exact ⟨r', rs', res, by simp only [readRecordSetExact, hst]; exact hl, hout⟩
  | incomplete hr hst =>
    obtain ⟨r', rs', res, hl, hout⟩ := hloop r k hr (Nat.le_refl _) (Or.inr hst)
    exact ⟨r', rs', res, by simp only [readRecordSetExact, hst]; exact hl, hout⟩
  | finished hw hb hst =>
    exact ⟨r, rs, .ok false, by simp only [readRecordSetExact, hst],
      Or.inr ⟨(by intro hh; cases hh), k, Nat.le_refl _, KInv.finished hw hb hst⟩⟩

/-! ## what iterating over a filled set shows (window version of `setOk_of_acc`) -/

theorem setOk_of_accF {inp : List UInt8} {r : Reader} {rs : RecordSet} {k0 : Nat} (hw : WinR inp r)
    (hacc : Acc inp (base r) r.br.buf.length rs k0) (hbuf : rs.buffer = r.br.buf) :
    SetOk inp rs k0 rs.npos := by
  have hl : (rs.positions.take rs.npos).map (viewRec rs.buffer) =
      ((((recsOf inp).drop k0).take rs.npos).map view).map some := by
    apply List.ext_getElem?
    intro i
    simp only [List.getElem?_map, List.getElem?_take, List.getElem?_drop]
    by_cases hi : i < rs.npos
    · obtain ⟨bp, rc, h1, h2, h3⟩ := hacc.recs i hi
      obtain ⟨rc', hk', _, _, hH, hSL, _⟩ :=
        view_of_recAt hw.b.base_le hw.b.win h3 (pt_all inp (k0 + i) rc h2)
      rw [h2] at hk'
      cases hk'
      simp only [hi, if_true, h1, h2, Option.map_some, hbuf, viewRec_of hH hSL]
    · simp only [hi, if_false, Option.map_none]
  unfold SetOk obsDump
  rw [hl, allSome_map_some]

theorem acc_le_length {inp : List UInt8} {B len : Nat} {rs : RecordSet} {k0 : Nat}
    (hacc : Acc inp B len rs k0) (hpos : 1 ≤ rs.npos) : k0 + rs.npos ≤ (recsOf inp).length := by
  obtain ⟨bp, rc, _, h2, _⟩ := hacc.recs (rs.npos - 1) (by omega)
  rcases Nat.lt_or_ge (k0 + (rs.npos - 1)) (recsOf inp).length with h | h
  · omega
  · rw [List.getElem?_eq_none h] at h2; cases h2

/-! ## histories: what is delivered, in the order of the calls -/

/-- header and concatenated sequence of a record -/
abbrev Flat := List UInt8 × List UInt8

/-- a record of S as (header, concatenated sequence) -/
def flatOf (rc : FaRec) : Flat := (rc.head, rc.seq)

def flatView (v : RecView) : Flat := (v.1, v.2.flatten)

theorem flatView_view (rc : FaRec) : flatView (view rc) = flatOf rc := rfl

/-- the record shown by a single read (`next` with all sequence lines, or an owned read) -/
def single : ObsH → List Flat
  | .record h ls => [(h, ls.flatten)]
  | .owned h s => [(h, s)]
  | _ => []

/-- the records shown by single reads (`next` / owned reads), in the order they were returned -/
def singles : List ObsH → List Flat
  | [] => []
  | o :: os => single o ++ singles os

/-- the records an iteration over a set shows -/
def shown : ObsH → List Flat
  | .dump l => l.map flatView
  | _ => []

/-- the records one operation delivers: the record of a single read, and for a record set read
that returned `Some(Ok(()))` the records a `dump` of that set shows right after the call -/
def deliveredBy (m : MSt) : Op → List Flat
  | .set j n =>
    match (stepM m (.set j n)).2 with
    | .batch _ => shown (stepM (stepM m (.set j n)).1 (.dump j)).2
    | _ => []
  | op => single (stepM m op).2

/-- everything delivered along a history – single reads and batches – in the order of the calls -/
def delivered (m : MSt) : List Op → List Flat
  | [] => []
  | op :: ops => deliveredBy m op ++ delivered (stepM m op).1 ops

/-- the records `k, …, k + c - 1` of S -/
def seg (inp : List UInt8) (k c : Nat) : List Flat := (((recsOf inp).drop k).take c).map flatOf

theorem seg_zero (inp : List UInt8) (k : Nat) : seg inp k 0 = [] := by
  simp [seg]

theorem seg_one {inp : List UInt8} {k : Nat} {rc : FaRec} (h : (recsOf inp)[k]? = some rc) :
    seg inp k 1 = [flatOf rc] := by
  unfold seg
  rw [ListFacts.drop_take_one _ _ _ h]
  rfl

theorem KInv.fuel {inp : List UInt8} {m : MSt} {k : Nat} (h : KInv inp m.r k) :
    2 * inp.length + 2 < fuelOf m.r := by
  unfold fuelOf opFuel
  rw [h.toW.win.b.inp_eq]
  omega

theorem single_obsSet (rs : RecordSet) (res : Res Bool) : single (obsSet rs res) = [] := by
  rcases res with (b | _ | _ | _)
  · cases b <;> rfl
  all_goals rfl

theorem single_obsDump (rs : RecordSet) : single (obsDump rs) = [] := by
  unfold obsDump
  split <;> rfl

/-- a record set read, with the cursor: the cursor moves forward, and a batch of `c` records is the
segment `k0 … k0 + c - 1` (`k0 ≥ k`, `c ≥ 1`) of S's records – this is what a `dump` of the set
shows right after the call – and leaves the cursor at `k0 + c` -/
theorem set_stepK {inp : List UInt8} {m : MSt} {k : Nat} (h : KInv inp m.r k) (j : Nat)
    (n : Option Nat) :
    ∃ k', k ≤ k' ∧ KInv inp (stepM m (.set j n)).1.r k' ∧
      ∀ c, (stepM m (.set j n)).2 = .batch c →
        ∃ k0, k ≤ k0 ∧ k0 + c = k' ∧ 1 ≤ c ∧ k0 + c ≤ (recsOf inp).length ∧
          (stepM (stepM m (.set j n)).1 (.dump j)).2 =
            .dump ((((recsOf inp).drop k0).take c).map view) := by
  by_cases hn : n = some 0
  · subst hn
    refine ⟨k, Nat.le_refl _, h, ?_⟩
    intro c hc
    have : (stepM m (.set j (some 0))).2 = .done := rfl
    rw [this] at hc
    cases hc
  cases hj : m.sets[j]? with
  | none =>
    rw [stepM_set_none hn hj]
    refine ⟨k, Nat.le_refl _, h, ?_⟩
    intro c hc
    cases hc
  | some rs =>
    rw [stepM_set_some hn hj]
    obtain ⟨r', rs', res, hread, hcase⟩ := readSetK h h.fuel rs n
    rw [hread]
    simp only
    have hjlt : j < m.sets.length := by
      rcases Nat.lt_or_ge j m.sets.length with h' | h'
      · exact h'
      · rw [List.getElem?_eq_none h'] at hj; cases hj
    rcases hcase with ⟨hres, hbuf, hpos, k0, hk0, hacc, hinv⟩ | ⟨hres, k', hk', hinv⟩
    · subst hres
      refine ⟨k0 + rs'.npos, by omega, hinv, ?_⟩
      intro c hc
      have hc' : rs'.npos = c := by
        simp only [obsSet] at hc
        injection hc
      subst hc'
      refine ⟨k0, hk0, rfl, hpos, acc_le_length hacc hpos, ?_⟩
      have hget : (m.sets.set j rs')[j]? = some rs' := by
        rw [List.getElem?_set_self hjlt]
      simp only [stepM, hget]
      exact setOk_of_accF hinv.toW.win hacc hbuf
    · refine ⟨k', hk', hinv, ?_⟩
      intro c hc
      rcases res with (b | _ | _ | _)
      · cases b
        · cases hc
        · exact absurd rfl hres
      all_goals cases hc

/-- **every operation but a seek moves the cursor forward only, and what it delivers is a segment
of S's records between the old and the new cursor** -/
theorem stepK {inp : List UInt8} {m : MSt} {k : Nat} (h : KInv inp m.r k) (op : Op)
    (hop : op.isSeek = false) :
    ∃ k1 c k', k ≤ k1 ∧ k1 + c ≤ k' ∧ KInv inp (stepM m op).1.r k' ∧
      deliveredBy m op = seg inp k1 c := by
  cases op with
  | next =>
    obtain ⟨r', res, hnext, hcase⟩ := nextK (fuel := fuelOf m.r) h (by have := h.fuel; omega)
    have e : stepM m .next = ({ m with r := r' }, obsNext r' res) := by simp only [stepM, hnext]
    show ∃ k1 c k', k ≤ k1 ∧ k1 + c ≤ k' ∧ KInv inp (stepM m .next).1.r k' ∧
      single (stepM m .next).2 = seg inp k1 c
    rw [e]
    rcases hcase with ⟨hres, j, hj, ⟨rc, hk, hv, _, _⟩, hinv⟩ | ⟨hres, k', hk', hinv⟩
    · subst hres
      refine ⟨j, 1, j + 1, hj, Nat.le_refl _, hinv, ?_⟩
      simp only [obsNext, hv, view]
      rw [seg_one hk]
      rfl
    · refine ⟨k', 0, k', hk', Nat.le_refl _, hinv, ?_⟩
      rw [seg_zero]
      rcases hres with h' | ⟨e', h'⟩ <;> subst h' <;> rfl
  | owned =>
    obtain ⟨r', res, hnext, hcase⟩ := nextK (fuel := fuelOf m.r) h (by have := h.fuel; omega)
    have e : stepM m .owned = ({ m with r := r' }, obsOwned r' res) := by simp only [stepM, hnext]
    show ∃ k1 c k', k ≤ k1 ∧ k1 + c ≤ k' ∧ KInv inp (stepM m .owned).1.r k' ∧
      single (stepM m .owned).2 = seg inp k1 c
    rw [e]
    rcases hcase with ⟨hres, j, hj, ⟨rc, hk, _, hh, ho⟩, hinv⟩ | ⟨hres, k', hk', hinv⟩
    · subst hres
      refine ⟨j, 1, j + 1, hj, Nat.le_refl _, hinv, ?_⟩
      simp only [obsOwned, hh, ho]
      rw [seg_one hk]
      rfl
    · refine ⟨k', 0, k', hk', Nat.le_refl _, hinv, ?_⟩
      rw [seg_zero]
      rcases hres with h' | ⟨e', h'⟩ <;> subst h' <;> rfl
  | set j n =>
    obtain ⟨k', hk', hinv, hbatch⟩ := set_stepK h j n
    show ∃ k1 c k', k ≤ k1 ∧ k1 + c ≤ k' ∧ KInv inp (stepM m (.set j n)).1.r k' ∧
      (match (stepM m (.set j n)).2 with
        | .batch _ => shown (stepM (stepM m (.set j n)).1 (.dump j)).2
        | _ => []) = seg inp k1 c
    cases ho : (stepM m (.set j n)).2 with
    | batch c =>
      obtain ⟨k0, hk0, hkc, _, _, hdump⟩ := hbatch c ho
      refine ⟨k0, c, k', hk0, by omega, hinv, ?_⟩
      simp only [hdump, shown, seg, List.map_map]
      apply List.map_congr_left
      intro rc _
      rfl
    | _ => exact ⟨k', 0, k', hk', Nat.le_refl _, hinv, by rw [seg_zero]⟩
  | dump j =>
    refine ⟨k, 0, k, Nat.le_refl _, Nat.le_refl _, ?_, ?_⟩
    · cases hj : m.sets[j]? <;> simp only [stepM, hj] <;> exact h
    · rw [seg_zero]
      show single (stepM m (.dump j)).2 = []
      cases hj : m.sets[j]? with
      | none => simp only [stepM, hj]; rfl
      | some rs => simp only [stepM, hj]; exact single_obsDump rs
  | pos => exact ⟨k, 0, k, Nat.le_refl _, Nat.le_refl _, h, by rw [seg_zero]; rfl⟩
  | seekRec i => cases hop

/-! ## whole histories -/

theorem seg_append_sublist (inp : List UInt8) {k k1 c k' : Nat} (h1 : k ≤ k1) (h2 : k1 + c ≤ k')
    {l : List Flat} (hl : l.Sublist (((recsOf inp).drop k').map flatOf)) :
    (seg inp k1 c ++ l).Sublist (((recsOf inp).drop k).map flatOf) := by
  have e : (recsOf inp).drop k1 =
      ((recsOf inp).drop k1).take c ++ (recsOf inp).drop (k1 + c) := by
    rw [← List.drop_drop, List.take_append_drop]
  have s1 : ((recsOf inp).drop k').Sublist ((recsOf inp).drop (k1 + c)) :=
    List.drop_sublist_drop_left _ h2
  have s2 : ((recsOf inp).drop k1).Sublist ((recsOf inp).drop k) :=
    List.drop_sublist_drop_left _ h1
  have s3 : (seg inp k1 c ++ l).Sublist (((recsOf inp).drop k1).map flatOf) := by
    rw [e, List.map_append]
    exact List.Sublist.append (List.Sublist.refl _) (hl.trans (s1.map _))
  exact s3.trans (s2.map _)

/-- along a history without seeks, everything delivered is a sub-sequence of S's records from the
cursor on -/
theorem delivered_sublist {inp : List UInt8} : ∀ (ops : List Op) (m : MSt) (k : Nat),
    KInv inp m.r k → SeekFree ops →
    (delivered m ops).Sublist (((recsOf inp).drop k).map flatOf) := by
  intro ops
  induction ops with
  | nil => intro m k _ _; exact List.nil_sublist _
  | cons op ops ih =>
    intro m k h hsf
    obtain ⟨k1, c, k', h1, h2, hinv, hd⟩ := stepK h op (hsf op List.mem_cons_self)
    have := ih (stepM m op).1 k' hinv (fun o ho => hsf o (List.mem_cons_of_mem _ ho))
    show (deliveredBy m op ++ delivered (stepM m op).1 ops).Sublist _
    rw [hd]
    exact seg_append_sublist inp h1 h2 this

theorem single_stepM_set (m : MSt) (j : Nat) (n : Option Nat) :
    single (stepM m (.set j n)).2 = [] := by
  by_cases hn : n = some 0
  · subst hn; rfl
  cases hj : m.sets[j]? with
  | none => rw [stepM_set_none hn hj]; rfl
  | some rs => rw [stepM_set_some hn hj]; exact single_obsSet _ _

/-- the single reads are part of what is delivered -/
theorem singles_sublist_delivered : ∀ (ops : List Op) (m : MSt),
    (singles (runM m ops)).Sublist (delivered m ops) := by
  intro ops
  induction ops with
  | nil => intro m; exact List.Sublist.refl _
  | cons op ops ih =>
    intro m
    show (single (stepM m op).2 ++ singles (runM (stepM m op).1 ops)).Sublist
      (deliveredBy m op ++ delivered (stepM m op).1 ops)
    refine List.Sublist.append ?_ (ih _)
    cases op with
    | set j n => rw [single_stepM_set]; exact List.nil_sublist _
    | next => exact List.Sublist.refl _
    | owned => exact List.Sublist.refl _
    | dump j => exact List.Sublist.refl _
    | pos => exact List.Sublist.refl _
    | seekRec i => exact List.Sublist.refl _

theorem kinv_init (inp : List UInt8) (cap : Nat) (hcap : 3 ≤ cap) (pol : Pol) (hpol : PolWfPos pol)
    (script : List ReadEv) (chunk : Nat) (seekFails : List (Nat × IoKind)) :
    KInv inp (mkMStF inp cap pol script chunk seekFails).r 0 :=
  KInv.of_new (whinv_init inp cap hcap pol hpol script chunk seekFails).rd rfl

/-- **C06, order, all deliveries.** For every input, capacity ≥ 3, policy that answers more than
it is passed or refuses, read script (failures of any kind at any call), scripted seek failures and
history WITHOUT seeks: all records delivered – by `next`, by owned reads and by record set reads
(each batch as a `dump` right after the call shows it), in the order of the calls – form a
sub-sequence of S's records: none twice, none out of order, whatever errors occur in between. -/
theorem fasta_all_delivered_in_order_after_faults (inp : List UInt8) (cap : Nat) (hcap : 3 ≤ cap)
    (pol : Pol) (hpol : PolWfPos pol) (script : List ReadEv) (chunk : Nat)
    (seekFails : List (Nat × IoKind)) (ops : List Op) (hsf : SeekFree ops) :
    List.Sublist (delivered (mkMStF inp cap pol script chunk seekFails) ops)
      ((items inp).recs.map fun rc => (rc.head, rc.seq)) :=
  delivered_sublist ops _ 0 (kinv_init inp cap hcap pol hpol script chunk seekFails) hsf

/-- **C06, order, single reads.** The records returned by single reads (`next` / owned reads) form,
in the order they were returned, a sub-sequence of S's records – whatever errors occurred in between
and whatever set reads were interleaved. -/
theorem fasta_records_in_order_after_faults (inp : List UInt8) (cap : Nat) (hcap : 3 ≤ cap)
    (pol : Pol) (hpol : PolWfPos pol) (script : List ReadEv) (chunk : Nat)
    (seekFails : List (Nat × IoKind)) (ops : List Op) (hsf : SeekFree ops) :
    List.Sublist (singles (runM (mkMStF inp cap pol script chunk seekFails) ops))
      ((items inp).recs.map fun rc => (rc.head, rc.seq)) :=
  (singles_sublist_delivered ops _).trans
    (fasta_all_delivered_in_order_after_faults inp cap hcap pol hpol script chunk seekFails ops hsf)

/-- **every batch is a contiguous segment** (histories WITH seeks included): whenever, after any
history, a record set read returns `Some(Ok(()))` with `c` records, a `dump` of that set right
after the call shows exactly the records `k0, …, k0 + c - 1` of S for some `k0`; and `c ≥ 1`. -/
theorem fasta_batch_contiguous_after_faults (inp : List UInt8) (cap : Nat) (hcap : 3 ≤ cap)
    (pol : Pol) (hpol : PolWfPos pol) (script : List ReadEv) (chunk : Nat)
    (seekFails : List (Nat × IoKind)) (ops : List Op) (j : Nat) (n : Option Nat) (c : Nat) (o : ObsH)
    (h : runM (mkMStF inp cap pol script chunk seekFails) (ops ++ [.set j n, .dump j]) =
      runM (mkMStF inp cap pol script chunk seekFails) ops ++ [.batch c, o]) :
    ∃ k0, 1 ≤ c ∧ k0 + c ≤ (items inp).recs.length ∧
      o = .dump ((((items inp).recs.drop k0).take c).map view) := by
  rw [runM_append] at h
  have h' := List.append_cancel_left h
  generalize hm : runMSt (mkMStF inp cap pol script chunk seekFails) ops = m at h'
  have hw : WHInv inp m := by
    rw [← hm]
    exact (whinv_runMSt ops _ (whinv_init inp cap hcap pol hpol script chunk seekFails)).1
  obtain ⟨k, hk⟩ := hw.rd.exists_k
  obtain ⟨k', _, _, hbatch⟩ := set_stepK hk j n
  have e : runM m [.set j n, .dump j] =
      [(stepM m (.set j n)).2, (stepM (stepM m (.set j n)).1 (.dump j)).2] := rfl
  rw [e] at h'
  simp only [List.cons.injEq, and_true] at h'
  obtain ⟨k0, _, _, hc, hlen, hdump⟩ := hbatch c h'.1
  exact ⟨k0, hc, hlen, by rw [← h'.2]; exact hdump⟩

end SeqIo.Fasta.Hist

/-! ## non-vacuity: concrete data (checked by `decide`) -/

namespace SeqIo.Fasta.OrderAfterFaultExample
open SeqIo.Fasta.Hist

/-- `>a\nAC\n>b\nG\n>c\nT\n` -/
def inp : List UInt8 := [62, 97, 10, 65, 67, 10, 62, 98, 10, 71, 10, 62, 99, 10, 84, 10]

example : ((items inp).recs.map fun rc => (rc.head, rc.seq)) =
    [([97], [65, 67]), ([98], [71]), ([99], [84])] := by decide

/-- capacity 4; the first refill hands out 5 bytes (4 fit) and the next one fails: an error in the
middle, after which reading goes on – all three records, in order -/
def m1 : MSt := mkMStF inp 4 PolDesc.std.toPol [.data 5, .fail 0] 0 []

example : runM m1 [.next, .next, .next, .next, .next] =
    [.error (.io 0), .record [97] [[65, 67]], .record [98] [[71]], .record [99] [[84]], .none] := by
  decide

example : singles (runM m1 [.next, .next, .next, .next, .next]) =
    [([97], [65, 67]), ([98], [71]), ([99], [84])] := by decide

/-- two errors in a row, an owned read in between -/
def m2 : MSt := mkMStF inp 4 PolDesc.std.toPol [.data 5, .fail 0, .data 4, .fail 1] 0 []

example : runM m2 [.next, .next, .owned, .next, .next, .next] =
    [.error (.io 0), .error (.io 1), .owned [97] [65, 67], .record [98] [[71]], .record [99] [[84]],
      .none] := by decide

/-- a batch, an error of a single read in the middle, a single read, another batch: everything
delivered is, in order, all of S's records; the old set keeps its contents -/
def m5 : MSt := mkMStF inp 8 PolDesc.std.toPol [.data 8, .fail 2] 0 []

example : runM m5 [.set 0 none, .dump 0, .next, .next, .set 1 none, .dump 1, .dump 0, .next] =
    [.batch 1, .dump [([97], [[65, 67]])], .error (.io 2), .record [98] [[71]], .batch 1,
      .dump [([99], [[84]])], .dump [([97], [[65, 67]])], .none] := by decide

example : delivered m5 [.set 0 none, .dump 0, .next, .next, .set 1 none, .dump 1, .dump 0, .next] =
    [([97], [65, 67]), ([98], [71]), ([99], [84])] := by decide

/-- **sub-sequence, not segment**: a record set read that fails after it has stored record `a`
empties the set; record `a` is never delivered, reading goes on with `b`, `c` (in order).  This is
why the theorems say `Sublist` and cannot say "contiguous". -/
def m4 : MSt := mkMStF inp 4 PolDesc.std.toPol [.data 4, .data 4, .data 2, .fail 3] 0 []

example : runM m4 [.set 0 (some 3), .dump 0, .next, .next, .next] =
    [.error (.io 3), .dump [], .record [98] [[71]], .record [99] [[84]], .none] := by decide

example : delivered m4 [.set 0 (some 3), .dump 0, .next, .next, .next] =
    [([98], [71]), ([99], [84])] := by decide

end SeqIo.Fasta.OrderAfterFaultExample
