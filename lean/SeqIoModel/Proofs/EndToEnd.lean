import SeqIoModel.Proofs.FastaStream
import SeqIoModel.Proofs.FastqStream
import SeqIoModel.Proofs.WriteRoundtrip
import SeqIoModel.Proofs.Recode
/-!
# End-to-end corollaries: writer / encoding theorems about S composed with "the readers return S's stream"

The round-trip theorems of C10/C11 and the recoding theorems of C12 are statements about the reference
semantics S.  `fasta_next_stream` / `fastq_next_stream` (C01, C02) say that the concrete machines M return
S's stream for every capacity, policy and chunking.  Here the two are composed, so that the statements
speak about what a caller of the real reader API observes.
-/

namespace SeqIo.E2E
open SeqIo SeqIo.Spec SeqIo.FillProofs

/-- what `k` calls of `next()` show, given S's verdict -/
theorem fasta_runNexts_of_spec (inp : List UInt8) (rs : List FaRec) (hrs : Spec.fasta inp = .records rs)
    (cap : Nat) (hcap : 3 ≤ cap) (pol : Pol) (hpol : PolOk pol) (script : List ReadEv) (hs : NoFail script)
    (chunk k : Nat) :
    Fasta.runNexts k (Fasta.mkReader inp cap pol script chunk) =
      (rs.map (fun r => Fasta.Obs.record r.head r.seqLines r.line r.byte) ++ List.replicate k Fasta.Obs.none).take k := by
  rw [Fasta.fasta_next_stream inp cap hcap pol hpol script hs chunk k]
  simp [Fasta.specObs, hrs]

/-- C10, end to end: a record written by `write_to` / `OwnedRecord::write` and read back with the FASTA
reader – any capacity ≥ 3, never-refusing policy, chunking – is returned as exactly that header and
sequence, then end of input -/
theorem fasta_written_record_reads_back (h s : List UInt8) (hh : HeadOk h) (hsq : SeqOk s)
    (cap : Nat) (hcap : 3 ≤ cap) (pol : Pol) (hpol : PolOk pol) (script : List ReadEv) (hs : NoFail script)
    (chunk k : Nat) :
    ∃ r : FaRec, r.head = h ∧ r.seq = s ∧ r.byte = 0 ∧ r.line = 1 ∧
      Fasta.runNexts k (Fasta.mkReader (Write.faTo h s) cap pol script chunk) =
        ([Fasta.Obs.record r.head r.seqLines r.line r.byte] ++ List.replicate k Fasta.Obs.none).take k := by
  obtain ⟨r, hspec, h1, h2, h3, h4⟩ := WriteProofs.fasta_faTo_roundtrip h s hh hsq
  refine ⟨r, h1, h2, h3, h4, ?_⟩
  simpa using fasta_runNexts_of_spec _ [r] hspec cap hcap pol hpol script hs chunk k

/-- C10, end to end, many records written back to back -/
theorem fasta_written_records_read_back (rs : List (List UInt8 × List UInt8))
    (hok : ∀ p ∈ rs, HeadOk p.1 ∧ SeqOk p.2)
    (cap : Nat) (hcap : 3 ≤ cap) (pol : Pol) (hpol : PolOk pol) (script : List ReadEv) (hs : NoFail script)
    (chunk k : Nat) :
    ∃ recs : List FaRec, recs.map (fun r => (r.head, r.seq)) = rs ∧
      Fasta.runNexts k (Fasta.mkReader (rs.flatMap fun p => Write.faTo p.1 p.2) cap pol script chunk) =
        (recs.map (fun r => Fasta.Obs.record r.head r.seqLines r.line r.byte) ++ List.replicate k Fasta.Obs.none).take k := by
  obtain ⟨recs, hspec, hm⟩ := WriteProofs.fasta_many_roundtrip rs hok
  exact ⟨recs, hm, fasta_runNexts_of_spec _ recs hspec cap hcap pol hpol script hs chunk k⟩

/-- C10, end to end, wrapped output -/
theorem fasta_wrapped_record_reads_back (h s : List UInt8) (w : Nat) (hw : 0 < w) (hh : HeadOk h)
    (hsq : SeqOk s) (cap : Nat) (hcap : 3 ≤ cap) (pol : Pol) (hpol : PolOk pol) (script : List ReadEv)
    (hs : NoFail script) (chunk k : Nat) :
    ∃ (out : List UInt8) (r : FaRec), Write.faOwnedWrap h s w = some out ∧ r.head = h ∧ r.seq = s ∧
      Fasta.runNexts k (Fasta.mkReader out cap pol script chunk) =
        ([Fasta.Obs.record r.head r.seqLines r.line r.byte] ++ List.replicate k Fasta.Obs.none).take k := by
  obtain ⟨out, r, ho, hspec, h1, h2⟩ := WriteProofs.fasta_wrap_roundtrip h s w hw hh hsq
  refine ⟨out, r, ho, h1, h2, ?_⟩
  simpa using fasta_runNexts_of_spec _ [r] hspec cap hcap pol hpol script hs chunk k

/-- an observation without its byte offset (the offset legitimately depends on the encoding) -/
def faNoByte : Fasta.Obs → Fasta.Obs
  | .record h ls line _ => .record h ls line 0
  | o => o

/-- C12, end to end (FASTA): two encodings of the same content – ANY per-line mixtures of LF and CRLF, with or
without final terminator – read with two arbitrary configurations show the same records with the same
sequence lines and line numbers, and no error, call by call -/
theorem fasta_encodings_read_identically (recs : List (List UInt8 × List (List UInt8))) (hok : Recode.FaOk recs)
    (terms terms' : Nat → Recode.Term) (final final' : Bool)
    (cap cap' : Nat) (hcap : 3 ≤ cap) (hcap' : 3 ≤ cap') (pol pol' : Pol) (hpol : PolOk pol) (hpol' : PolOk pol')
    (script script' : List ReadEv) (hs : NoFail script) (hs' : NoFail script') (chunk chunk' k : Nat) :
    (Fasta.runNexts k (Fasta.mkReader (Recode.encodeFasta recs terms final) cap pol script chunk)).map faNoByte =
    (Fasta.runNexts k (Fasta.mkReader (Recode.encodeFasta recs terms' final') cap' pol' script' chunk')).map faNoByte := by
  obtain ⟨rs, h1, e1⟩ := Recode.fasta_recode_invariant recs hok terms final
  obtain ⟨rs', h2, e2⟩ := Recode.fasta_recode_invariant recs hok terms' final'
  rw [fasta_runNexts_of_spec _ rs h1 cap hcap pol hpol script hs chunk k,
      fasta_runNexts_of_spec _ rs' h2 cap' hcap' pol' hpol' script' hs' chunk' k]
  have key : ∀ l : List FaRec, (l.map (fun r => Fasta.Obs.record r.head r.seqLines r.line r.byte)).map faNoByte =
      (l.map (fun r => (r.head, r.seqLines, r.line))).map (fun t => Fasta.Obs.record t.1 t.2.1 t.2.2 0) := by
    intro l; simp [faNoByte]
  have hn : (List.replicate k Fasta.Obs.none).map faNoByte = List.replicate k Fasta.Obs.none := by
    simp [faNoByte]
  rw [List.map_take, List.map_take, List.map_append, List.map_append, key, key, hn, e1, e2]

def fqNoByte : Fastq.Obs → Fastq.Obs
  | .record h s q line _ => .record h s q line 0
  | o => o

theorem fastq_runNexts_of_records (inp : List UInt8) (rs : List FqRec)
    (hrs : Spec.fastq inp = rs.map FqItem.record)
    (cap : Nat) (hcap : 3 ≤ cap) (pol : Pol) (hpol : PolOk pol) (script : List ReadEv) (hs : NoFail script)
    (chunk k : Nat) :
    Fastq.runNexts k (Fastq.mkReader inp cap pol script chunk) =
      (rs.map (fun r => Fastq.Obs.record r.head r.seq r.qual r.line r.byte) ++ List.replicate k Fastq.Obs.none).take k := by
  rw [Fastq.fastq_next_stream inp cap hcap pol hpol script hs chunk k]
  simp [Fastq.specObs, hrs, Function.comp_def]

/-- C12, end to end (FASTQ): {LF, CRLF} × {final terminator or not}, two arbitrary configurations -/
theorem fastq_encodings_read_identically (recs : List Recode.FqContent) (hok : Recode.FqOk recs)
    (t t' : Recode.Term) (final final' : Bool)
    (cap cap' : Nat) (hcap : 3 ≤ cap) (hcap' : 3 ≤ cap') (pol pol' : Pol) (hpol : PolOk pol) (hpol' : PolOk pol')
    (script script' : List ReadEv) (hs : NoFail script) (hs' : NoFail script') (chunk chunk' k : Nat) :
    (Fastq.runNexts k (Fastq.mkReader (Recode.encodeFastq recs t final) cap pol script chunk)).map fqNoByte =
    (Fastq.runNexts k (Fastq.mkReader (Recode.encodeFastq recs t' final') cap' pol' script' chunk')).map fqNoByte := by
  obtain ⟨rs, h1, e1⟩ := Recode.fastq_recode_invariant recs hok t final
  obtain ⟨rs', h2, e2⟩ := Recode.fastq_recode_invariant recs hok t' final'
  rw [fastq_runNexts_of_records _ rs h1 cap hcap pol hpol script hs chunk k,
      fastq_runNexts_of_records _ rs' h2 cap' hcap' pol' hpol' script' hs' chunk' k]
  have key : ∀ l : List FqRec, (l.map (fun r => Fastq.Obs.record r.head r.seq r.qual r.line r.byte)).map fqNoByte =
      (l.map (fun r => (r.head, r.seq, r.qual, r.line))).map (fun t => Fastq.Obs.record t.1 t.2.1 t.2.2.1 t.2.2.2 0) := by
    intro l; simp [fqNoByte]
  have hn : (List.replicate k Fastq.Obs.none).map fqNoByte = List.replicate k Fastq.Obs.none := by
    simp [fqNoByte]
  rw [List.map_take, List.map_take, List.map_append, List.map_append, key, key, hn, e1, e2]

/-- C11, end to end: a FASTQ record written by `write_to` and read back at any configuration -/
theorem fastq_written_record_reads_back (h s q : List UInt8) (hh : HeadOk h) (hsq : FieldOk s)
    (hq : FieldOk q) (hl : s.length = q.length)
    (cap : Nat) (hcap : 3 ≤ cap) (pol : Pol) (hpol : PolOk pol) (script : List ReadEv) (hs : NoFail script)
    (chunk k : Nat) :
    Fastq.runNexts k (Fastq.mkReader (Write.fqTo h s q) cap pol script chunk) =
      ([Fastq.Obs.record h s q 1 0] ++ List.replicate k Fastq.Obs.none).take k := by
  have := fastq_runNexts_of_records (Write.fqTo h s q) [{ byte := 0, line := 1, head := h, seq := s, qual := q }]
    (by simpa using WriteProofs.fastq_fqTo_roundtrip h s q hh hsq hq hl) cap hcap pol hpol script hs chunk k
  simpa using this

end SeqIo.E2E
