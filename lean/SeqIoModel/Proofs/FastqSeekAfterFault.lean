import SeqIoModel.Proofs.FastqFault
import SeqIoModel.Proofs.FastqHistoryGenuine
/-!
# C05 under faults (FASTQ): a successful `seek` restores the stream from ANY reachable state

`Theorems/C05.lean` (`fastq_seek_restores_stream`) covers histories over failure-free sources.
Here the reader state is the state after ANY well-formed history under ANY read script (failed
refills at any call, interrupted reads), scripted seek failures and a policy that may be asked at
any time – in particular a state left behind by an error (FASTQ: state `finished` after a failed
refill inside `resume_incomplete_search`, state `new` with a partly filled buffer after a failed
first refill, …).

If in such a state `seek` to the position of item `i` of S (a record, or the invalid group) returns
`Ok(())` and the read script that is left does not fail, then `k` further `next()` calls show exactly
the items `i, i+1, …` of S – records with their positions, then S's error if there is one (it is
reproduced) – and then end of input.

Route: (1) `GenM` (the invariant of `fastq_history_genuine`: `Good inp False r (suffix of S)`) holds in
every reachable state, and the policy function never changes; (2) `seek_cases` gives
`Good inp False r' (items from i on)` after the successful seek; with a failure-free remaining script
this is `Good inp True` for the clean copy of the reader (same reader, no scripted seek failures), and
`next` cannot tell the two apart (`next_sim` of the fault development with an empty failing tail);
(3) `runNexts_spec`.
-/

namespace SeqIo.Fastq
open SeqIo SeqIo.Spec SeqIo.FillProofs SeqIo.Fastq.Hist

/-! ## the policy function is never changed -/

theorem validate_pol (r : Reader) : (validate r).1.pol = r.pol := by
  unfold validate
  repeat' split
  all_goals first | rfl | (simp only; split <;> rfl)

theorem validated_pol (r : Reader) : (validated r).1.pol = r.pol := by
  have := validate_pol r
  unfold validated
  revert this
  generalize validate r = v
  rcases v with ⟨r', (_ | _ | _ | _)⟩ <;> exact id

theorem search_pol (r : Reader) : (search r).1.pol = r.pol := by
  simp only [search]
  repeat' split
  all_goals first | rfl | exact validated_pol _

theorem wrapV_validate_pol (r : Reader) :
    (match validate r with
      | (r, .ok ()) => ((r, .ok none) : Reader × Res (Option RecordPos))
      | (r, .err e) => (r, .err e)
      | (r, .panic) => (r, .panic)
      | (r, .fuel) => (r, .fuel)).1.pol = r.pol := by
  have := validate_pol r
  revert this
  generalize validate r = v
  rcases v with ⟨r', (_ | _ | _ | _)⟩ <;> exact id

set_option linter.unusedSimpArgs false in
theorem searchIncomplete_pol (r : Reader) (ip : RecordPos) : (searchIncomplete r ip).1.pol = r.pol := by
  cases ip <;>
  · simp only [searchIncomplete, RecordPos.ord, reduceCtorEq, if_true, if_false, Nat.le_refl, Nat.reduceLeDiff]
    iterate 4
      try (generalize findLine _ _ = v; rcases v with _ | _ | x) <;>
        simp only [RecordPos.ord, reduceCtorEq, if_true, if_false, Nat.le_refl, Nat.reduceLeDiff] <;>
        try rfl
    all_goals
      split
      · rfl
      · exact wrapV_validate_pol _

theorem checkEndQ_pol (r : Reader) : (checkEndQ r).1.pol = r.pol := by
  have := validate_pol r
  unfold checkEndQ
  revert this
  generalize validate r = v
  rcases v with ⟨r', (_ | _ | _ | _)⟩ <;> intro h
  · simp only
    repeat' split
    all_goals exact h
  all_goals exact h

theorem checkEnd_pol (r : Reader) (ip : RecordPos) : (checkEnd r ip).1.pol = r.pol := by
  by_cases hq : ip = .qual
  · subst hq
    rw [checkEnd_qual, checkEndQ_pol]
  · simp only [checkEnd, hq, if_false]
    repeat' split
    all_goals rfl

theorem grow_polf (r : Reader) : (grow r).1.pol.f = r.pol.f := by
  simp only [grow, Pol.growTo]
  cases r.pol.f (r.pol.hist ++ [r.br.cap]) with
  | none => rfl
  | some n =>
    simp only
    cases csub n r.br.cap <;> rfl

theorem makeRoom_pol {r r' : Reader} {ip : RecordPos} (h : makeRoom r ip = some r') : r'.pol = r.pol := by
  simp only [makeRoom] at h
  split at h
  · simp only [Option.some.injEq] at h
    subst h
    rfl
  · cases h

theorem step1_polf (mk : Bool) (ip : RecordPos) (r : Reader) :
    (Fault.step1 mk ip r).1.pol.f = r.pol.f := by
  by_cases h : (!mk || decide (r.bp.pos0 = 0)) = true
  · rw [Fault.step1_grow mk ip r h]
    have := grow_polf r
    revert this
    rcases grow r with ⟨r', (⟨⟩ | _ | _ | _)⟩ <;> exact id
  · rw [Fault.step1_room mk ip r h]
    cases hm : makeRoom r ip with
    | none => rfl
    | some r' => simp only; rw [makeRoom_pol hm]

theorem resume_polf (mk : Bool) : ∀ (fu : Nat) (ip : RecordPos) (r : Reader),
    (resume fu ip mk r).1.pol.f = r.pol.f := by
  intro fu
  induction fu with
  | zero => intro ip r; rfl
  | succ f ih =>
    intro ip r
    rw [Fault.resume_unfold]
    by_cases hlt : r.br.buf.length < r.br.cap
    · rw [if_pos hlt, checkEnd_pol]
    · rw [if_neg hlt]
      have h1 := step1_polf mk ip r
      generalize Fault.step1 mk ip r = x at h1 ⊢
      obtain ⟨r1, res1⟩ := x
      try simp only at h1 ⊢
      cases res1 with
      | ok u =>
        simp only
        rcases fillBuf r1.br with ⟨br', (k | n)⟩
        · exact h1
        · simp only
          unfold resumeK
          have h2 := searchIncomplete_pol { r1 with br := br' } ip
          generalize searchIncomplete { r1 with br := br' } ip = x at h2 ⊢
          obtain ⟨r2, res2⟩ := x
          try simp only at h2 ⊢
          rcases res2 with (_ | ip') | _ | _ | _
          · simp only; rw [h2]; exact h1
          · simp only; rw [ih, h2]; exact h1
          · simp only; rw [h2]; exact h1
          · simp only; rw [h2]; exact h1
          · simp only; rw [h2]; exact h1
      | err e => exact h1
      | panic => exact h1
      | fuel => exact h1

theorem init_pol (r : Reader) : (init r).1.pol = r.pol := by
  unfold init
  rcases fillBuf r.br with ⟨br', (k | n)⟩
  · rfl
  · cases n <;> rfl

theorem incrementRecord_pol {r r1 : Reader} (h : incrementRecord r = some r1) : r1.pol = r.pol := by
  unfold incrementRecord at h
  split at h
  · cases h
  · simp only [Option.some.injEq] at h
    subst h
    rfl

theorem nextCont_polf (fu : Nat) (r : Reader) : (nextCont fu r).1.pol.f = r.pol.f := by
  rw [Fault.nextCont_eq]
  have key : ∀ x : Reader × Res Bool, (Fault.nextTail fu x).1.pol.f = x.1.pol.f := by
    intro x
    rcases x with ⟨r1, res⟩
    unfold Fault.nextTail
    cases res with
    | ok b =>
      simp only
      cases r1.incompletePos with
      | none => rfl
      | some ip => exact resume_polf true fu ip r1
    | err e => rfl
    | panic => rfl
    | fuel => rfl
  rw [key]
  split
  · rw [search_pol]
  · rfl

theorem next_polf (fu : Nat) (r : Reader) : (next fu r).1.pol.f = r.pol.f := by
  unfold next
  cases hst : r.state with
  | new =>
    simp only
    have h1 := init_pol r
    generalize init r = x at h1 ⊢
    obtain ⟨r1, res⟩ := x
    try simp only at h1 ⊢
    cases res with
    | ok b =>
      cases b with
      | true => simp only; rw [nextCont_polf]; show r1.pol.f = _; rw [h1]
      | false => simp only; rw [h1]
    | err e => simp only; rw [h1]
    | panic => simp only; rw [h1]
    | fuel => simp only; rw [h1]
  | positioned => simp only; rw [nextCont_polf]
  | finished => rfl
  | parsing =>
    simp only
    cases hinc : incrementRecord r with
    | none => rfl
    | some r1 => simp only; rw [nextCont_polf, incrementRecord_pol hinc]

theorem storeStep_pol {n : Option Nat} {r r1 : Reader} {rs rs1 : RecordSet} {b : Bool}
    (h : storeStep n r rs = some (r1, rs1, b)) : r1.pol = r.pol := by
  unfold storeStep at h
  simp only at h
  split at h
  · cases h
  · rename_i r3 hinc
    simp only [Option.some.injEq, Prod.mk.injEq] at h
    obtain ⟨rfl, _⟩ := h
    exact incrementRecord_pol hinc

theorem setLoop_polf (fu : Nat) (n : Option Nat) : ∀ (f : Nat) (isNew : Bool) (r : Reader)
    (rs : RecordSet), (setLoop f fu n isNew r rs).1.pol.f = r.pol.f := by
  intro f
  induction f with
  | zero => intro isNew r rs; rfl
  | succ f ih =>
    intro isNew r rs
    -- what happens after a record has been found
    have hstore : ∀ (r2 : Reader), r2.pol.f = r.pol.f →
        (match storeStep n r2 rs with
          | none => (r2, rs, (Out.panic : Res Bool))
          | some (r, rs, true) => (r, rs, .ok true)
          | some (r, rs, false) => setLoop f fu n isNew r rs).1.pol.f = r.pol.f := by
      intro r2 h2
      cases hs : storeStep n r2 rs with
      | none => exact h2
      | some q =>
        obtain ⟨r3, rs3, b⟩ := q
        have h3 := storeStep_pol hs
        cases b with
        | true => simp only; rw [h3]; exact h2
        | false => simp only; rw [ih, h3]; exact h2
    rw [setLoop]
    by_cases hfin : r.state = .finished
    · rw [if_pos hfin]
    · rw [if_neg hfin]
      cases hip : r.incompletePos with
      | some ip =>
        simp only
        have h1 := resume_polf isNew fu ip { r with incompletePos := none }
        generalize resume fu ip isNew { r with incompletePos := none } = x at h1 ⊢
        obtain ⟨r2, res⟩ := x
        try simp only at h1 ⊢
        cases res with
        | ok b =>
          cases b with
          | true => exact hstore r2 h1
          | false =>
            simp only
            split <;> exact h1
        | err e => exact h1
        | panic => exact h1
        | fuel => exact h1
      | none =>
        simp only
        have h1 := search_pol r
        generalize search r = x at h1 ⊢
        obtain ⟨r2, res⟩ := x
        try simp only at h1 ⊢
        cases res with
        | ok b =>
          cases b with
          | true => exact hstore r2 (by rw [h1])
          | false =>
            simp only
            split
            · rw [ih, h1]
            · cases n with
              | none => simp only; rw [h1]
              | some n' =>
                simp only
                split
                · rw [ih, h1]
                · simp only; rw [h1]
        | err e => simp only; rw [h1]
        | panic => simp only; rw [h1]
        | fuel => simp only; rw [h1]

theorem readSet_polf (fu : Nat) (r : Reader) (rs : RecordSet) (n : Option Nat) :
    (readRecordSetExact fu r rs n).1.pol.f = r.pol.f := by
  rw [Fault.readSet_eq]
  have hpre : (Fault.setPre r).1.pol.f = r.pol.f := by
    unfold Fault.setPre
    cases hst : r.state with
    | new =>
      simp only
      have h1 := init_pol r
      generalize init r = x at h1 ⊢
      obtain ⟨r1, res⟩ := x
      try simp only at h1 ⊢
      cases res with
      | ok b => cases b <;> simp only <;> rw [h1]
      | err e => simp only; rw [h1]
      | panic => simp only; rw [h1]
      | fuel => simp only; rw [h1]
    | positioned => rfl
    | finished => rfl
    | parsing =>
      simp only
      cases hinc : incrementRecord r with
      | none => rfl
      | some r1 => simp only; rw [incrementRecord_pol hinc]
  generalize Fault.setPre r = x at hpre ⊢
  obtain ⟨r1, res⟩ := x
  try simp only at hpre
  unfold Fault.setPost
  cases res with
  | ok b =>
    cases b with
    | true =>
      simp only
      have h2 := setLoop_polf fu n fu true r1 { rs with positions := [] }
      generalize setLoop fu fu n true r1 { rs with positions := [] } = x at h2 ⊢
      obtain ⟨r2, rs2, res2⟩ := x
      try simp only at h2 ⊢
      rcases res2 with (_ | _) | _ | _ | _ <;> simp only <;> rw [h2] <;> exact hpre
    | false => exact hpre
  | err e => exact hpre
  | panic => exact hpre
  | fuel => exact hpre

theorem seek_pol (r : Reader) (l b : Nat) : (seek r l b).1.pol = r.pol := by
  rw [Fault.seek_eq]
  split
  · unfold Fault.seekIn
    simp only
    rcases Fault.seekFill r.br with ⟨br', (k | n)⟩ <;> rfl
  · unfold Fault.seekOut
    rcases r.br.seek b with ⟨br1, (_ | k)⟩
    · simp only
      rcases fillBuf br1 with ⟨br', (k | n)⟩ <;> rfl
    · rfl

theorem stepM_polf (m : MSt) (op : Op) : (stepM m op).1.r.pol.f = m.r.pol.f := by
  cases op with
  | next => exact next_polf _ _
  | owned => exact next_polf _ _
  | set j n =>
    show ((({ m with r := _ } : MSt).putSet j _).r).pol.f = _
    rw [MSt.putSet_r]
    exact readSet_polf _ _ _ _
  | dump j => rfl
  | pos => rfl
  | seekItem i =>
    simp only [stepM, stepSeek]
    cases (Spec.fastq m.r.br.src.inp)[i]? with
    | none => rfl
    | some it => simp only; rw [seek_pol]


/-! ## the state of M after a history -/

namespace Hist

/-- M's state after a history -/
def runMSt (m : MSt) : List Op → MSt
  | [] => m
  | op :: ops => runMSt (stepM m op).1 ops

/-- it is the function the fault development already uses -/
theorem runMSt_eq_endM (m : MSt) (ops : List Op) : runMSt m ops = Fault.endM m ops := by
  induction ops generalizing m with
  | nil => rfl
  | cons op ops ih => exact ih _

/-- `runMSt` agrees with `runM`: the observations of a history continue from `runMSt` -/
theorem runM_append (m : MSt) (ops ops' : List Op) :
    runM m (ops ++ ops') = runM m ops ++ runM (runMSt m ops) ops' := by
  induction ops generalizing m with
  | nil => rfl
  | cons op ops ih =>
    show (stepM m op).2 :: runM (stepM m op).1 (ops ++ ops') = _
    rw [ih]
    rfl

theorem runMSt_append (m : MSt) (ops ops' : List Op) :
    runMSt m (ops ++ ops') = runMSt (runMSt m ops) ops' := by
  induction ops generalizing m with
  | nil => rfl
  | cons op ops ih => exact ih _

end Hist

/-- (1) the invariant of `fastq_history_genuine` holds in every reachable state, and the policy
function is the initial one -/
theorem genM_runMSt (inp : List UInt8) : ∀ (ops : List Op) (m : MSt), GenM inp m →
    (∀ op ∈ ops, op.wf = true) →
    GenM inp (runMSt m ops) ∧ (runMSt m ops).r.pol.f = m.r.pol.f := by
  intro ops
  induction ops with
  | nil => intro m h _; exact ⟨h, rfl⟩
  | cons op ops ih =>
    intro m h hops
    obtain ⟨h1, _⟩ := step_genuine inp m h op (hops op List.mem_cons_self)
    obtain ⟨h2, h3⟩ := ih _ h1 (fun o ho => hops o (List.mem_cons_of_mem _ ho))
    exact ⟨h2, by rw [← stepM_polf m op]; exact h3⟩

/-! ## (2) after a successful seek -/

/-- what `seek` sets when it returns `Ok(())` -/
theorem seek_ok_state {r r' : Reader} {l b : Nat} (h : seek r l b = (r', .ok ())) :
    r'.state = .positioned := by
  rw [Fault.seek_eq] at h
  split at h
  · unfold Fault.seekIn at h
    simp only at h
    split at h
    · cases h
    · cases h
      rfl
  · unfold Fault.seekOut at h
    simp only at h
    split at h
    · cases h
    · split at h
      · cases h
      · cases h
        rfl

/-- the clean copy of a reader: same reader, same script, no scripted seek failures -/
def clean (r : Reader) : Reader := Fault.rws r r.br.src.script

/-- a positioned reader that is good in an arbitrary environment (`G := False`) and whose remaining
script does not fail is – up to the scripted seek failures, which reads never look at – good in
the ideal environment -/
theorem good_clean {inp : List UInt8} {r : Reader} {its : List FqItem}
    (hg : Good inp False r its) (hst : r.state = .positioned) (hnf : NoFail r.br.src.script)
    (hgrow : PolGrows r.pol) : Good inp True (clean r) its := by
  have hst' : (clean r).state = .positioned := hst
  simp only [Good, hst] at hg
  simp only [Good, hst']
  obtain ⟨⟨hw, hp0⟩, he, hip, hits⟩ := hg
  obtain ⟨a, b, _, d, _, f, g, i, w, k, _⟩ := hw
  exact ⟨⟨⟨a, b, fun _ => hnf, d, fun _ => hgrow, f, g, i, w, k, fun _ => rfl⟩, hp0⟩, he, hip, hits⟩

/-- a `Par` without a failing tail: the "failing" machine has the failure-free script `y` and the
scripted seek failures `sf`, the clean machine the script `y` and no seek failures -/
def parNoFail (sf : List (Nat × IoKind)) : Fault.Par :=
  { k := 0, tail := [], T := [], nofail := noFail_nil, len := rfl, live := Or.inl rfl, sf := sf }

theorem observe_rws (r : Reader) (s : List ReadEv) (res : Res Bool) :
    observe (Fault.rws r s) res = observe r res := by
  cases res with
  | ok b => cases b <;> rfl
  | err e => rfl
  | panic => rfl
  | fuel => rfl

/-- `next()` calls cannot tell a reader from its clean copy -/
theorem runNexts_clean (sf : List (Nat × IoKind)) : ∀ (k : Nat) (r : Reader),
    NoFail r.br.src.script → r.br.src.seekFails = sf → runNexts k r = runNexts k (clean r) := by
  intro k
  induction k with
  | zero => intro r _ _; rfl
  | succ k ih =>
    intro r hy hsf
    have hs : Fault.Sc (parNoFail sf) r.br.src.script r.br := ⟨by simp [parNoFail], hsf⟩
    have hsim := Fault.next_sim (parNoFail sf)
      (opFuel r.br.src.inp.length r.br.src.script.length) r r.br.src.script hy hs
    have hcl : Fault.rws r (r.br.src.script ++ (parNoFail sf).T) = clean r := by
      simp [parNoFail, clean]
    rw [hcl] at hsim
    rcases hsim with ⟨y', hy', hs', heq⟩ | ⟨kk, _, ⟨⟨rest, hl⟩, _⟩⟩
    · have hfuel : opFuel (clean r).br.src.inp.length (clean r).br.src.script.length =
          opFuel r.br.src.inp.length r.br.src.script.length := rfl
      rw [runNexts, runNexts, hfuel, heq]
      simp only
      have hy1 : (next (opFuel r.br.src.inp.length r.br.src.script.length) r).1.br.src.script = y' := by
        rw [hs'.1]; simp [parNoFail]
      have hcl1 : Fault.rws (next (opFuel r.br.src.inp.length r.br.src.script.length) r).1
          (y' ++ (parNoFail sf).T) = clean (next (opFuel r.br.src.inp.length r.br.src.script.length) r).1 := by
        simp only [clean, hy1]
        simp [parNoFail]
      rw [hcl1, show ∀ r res, observe (clean r) res = observe r res from fun r res => observe_rws r _ res,
        ← ih _ (by rw [hy1]; exact hy') hs'.2]
    · simp [parNoFail] at hl

/-! ## the theorems -/

/-- **C05 under faults, reader level.** From ANY reader state that is good in an arbitrary
environment (`Good inp False`, the invariant of `fastq_history_genuine`): a `seek` to the position of
item `i` of S that returns `Ok(())`, with a remaining read script that does not fail, is followed by
exactly S's stream from item `i` on. -/
theorem seek_restores_of_good {inp : List UInt8} {r r' : Reader} {its : List FqItem}
    (hg : Good inp False r its) (hgrow : PolGrows r.pol) (i : Nat) (it : FqItem)
    (hi : (Spec.fastq inp)[i]? = some it)
    (hseek : seek r (itemPos it).1 (itemPos it).2 = (r', .ok ())) (hnf : NoFail r'.br.src.script)
    (k : Nat) :
    runNexts k r' = ((specObs inp).drop i ++ List.replicate k Obs.none).take k := by
  obtain ⟨hb, hdrop⟩ := fastq_drop inp i it hi
  have hr' : (seek r (itemPos it).1 (itemPos it).2).1 = r' := by rw [hseek]
  have hres : (seek r (itemPos it).1 (itemPos it).2).2 = .ok () := by rw [hseek]
  have hg' : Good inp False r' ((Spec.fastq inp).drop i) := by
    rcases seek_cases inp False r its hg (itemPos it).1 (itemPos it).2 hb with
      ⟨_, h2, _, _⟩ | ⟨_, ⟨kk, h2⟩, _⟩
    · rw [hr', ← hdrop] at h2; exact h2
    · rw [hres] at h2; cases h2
  have hpol : r'.pol = r.pol := by rw [← hr']; exact seek_pol r _ _
  have hgc := good_clean hg' (seek_ok_state hseek) hnf (by rw [hpol]; exact hgrow)
  rw [runNexts_clean r'.br.src.seekFails k r' hnf rfl, runNexts_spec inp k _ _ hgc, specObs_eq,
    List.map_drop]

/-- **C05, seek part, under faults (FASTQ).**  Take the state of M after ANY well-formed history
`ops` on a reader whose source follows ANY read script (failing and interrupted reads at any call),
with scripted seek failures.  If in that state the seek to the position of the `i`-th item of S – a
record, or the invalid group – returns `Ok(())`, and the read script that is left contains no
failure, then `k` further `next()` calls show exactly the items `i, i+1, …` of S (records with their
`position()`, then S's format error if there is one), followed by end of input – the same as
sequential reading shows from item `i` on. -/
theorem fastq_seek_restores_after_faults
    (inp : List UInt8) (cap : Nat) (hcap : 3 ≤ cap) (pol : Pol) (hgrow : PolGrows pol)
    (script : List ReadEv) (chunk : Nat) (seekFails : List (Nat × IoKind)) (ops : List Hist.Op)
    (hops : ∀ op ∈ ops, op.wf = true) (i : Nat) (hi : i < (Spec.fastq inp).length) :
    let s := Hist.runMSt (Hist.mkM inp cap pol script chunk seekFails) ops
    let it := (Spec.fastq inp)[i]
    ∀ r', seek s.r (Hist.itemPos it).1 (Hist.itemPos it).2 = (r', .ok ()) →
      NoFail r'.br.src.script →
      ∀ k, runNexts k r' = ((specObs inp).drop i ++ List.replicate k Obs.none).take k := by
  intro s it r' hseek hnf k
  obtain ⟨⟨⟨j, hg⟩, _⟩, hpf⟩ := genM_runMSt inp ops _
    (genM_mkM inp cap hcap pol hgrow.wf1 script chunk seekFails) hops
  have hgrow' : PolGrows s.r.pol := by
    intro h cur hc
    rw [show s.r.pol.f = pol.f from hpf]
    exact hgrow h cur hc
  exact seek_restores_of_good hg hgrow' i it (List.getElem?_eq_getElem hi) hseek hnf k

/-- the same, phrased with the history operation `seekItem i`: if the well-formed history
`ops ++ [seekItem i]` ends with the observation `done` (= `Ok(())`) and no failure is left in the
script, the reads that follow show S's stream from item `i` on -/
theorem fastq_seekItem_restores_after_faults
    (inp : List UInt8) (cap : Nat) (hcap : 3 ≤ cap) (pol : Pol) (hgrow : PolGrows pol)
    (script : List ReadEv) (chunk : Nat) (seekFails : List (Nat × IoKind)) (ops : List Hist.Op)
    (hops : ∀ op ∈ ops, op.wf = true) (i : Nat) :
    let s := Hist.runMSt (Hist.mkM inp cap pol script chunk seekFails) (ops ++ [.seekItem i])
    (Hist.runM (Hist.mkM inp cap pol script chunk seekFails) (ops ++ [.seekItem i])).getLast? = some .done →
      NoFail s.r.br.src.script →
      ∀ k, runNexts k s.r = ((specObs inp).drop i ++ List.replicate k Obs.none).take k := by
  intro s hobs hnf k
  have hs : s = (stepM (runMSt (mkM inp cap pol script chunk seekFails) ops) (.seekItem i)).1 := by
    show runMSt _ (ops ++ [.seekItem i]) = _
    rw [Hist.runMSt_append]
    rfl
  rw [Hist.runM_append] at hobs
  obtain ⟨⟨⟨j, hg⟩, _⟩, hpf⟩ := genM_runMSt inp ops _
    (genM_mkM inp cap hcap pol hgrow.wf1 script chunk seekFails) hops
  generalize runMSt (mkM inp cap pol script chunk seekFails) ops = m at hs hobs hg hpf
  have hgrow' : PolGrows m.r.pol := by
    intro h cur hc
    rw [show m.r.pol.f = pol.f from hpf]
    exact hgrow h cur hc
  have hinp : m.r.br.src.inp = inp := good_inp hg
  have hlast : (runM m [.seekItem i]) = [(stepSeek m i).2] := rfl
  rw [hlast] at hobs
  simp only [List.getLast?_append, List.getLast?_singleton, Option.some_or, Option.some.injEq] at hobs
  have hs' : s = (stepSeek m i).1 := hs
  cases hit : (Spec.fastq inp)[i]? with
  | none =>
    have : stepSeek m i = (m, .badOp) := by simp only [stepSeek, hinp, hit]
    rw [this] at hobs
    cases hobs
  | some it =>
    have hstep : stepSeek m i = ({ m with r := (seek m.r (itemPos it).1 (itemPos it).2).1 },
        obsSeek (seek m.r (itemPos it).1 (itemPos it).2).2) := by
      simp only [stepSeek, hinp, hit]
    rw [hstep] at hobs hs'
    rcases hsk : seek m.r (itemPos it).1 (itemPos it).2 with ⟨r', res⟩
    rw [hsk] at hobs hs'
    have hres : res = .ok () := by
      cases res with
      | ok u => rfl
      | err e => cases hobs
      | panic => cases hobs
      | fuel => cases hobs
    subst hres
    rw [hs'] at hnf ⊢
    exact seek_restores_of_good hg hgrow' i it hit hsk hnf k

end SeqIo.Fastq

/-! ## non-vacuity: concrete data (checked by `decide`) -/

namespace SeqIo.Fastq.SeekAfterFaultExample
open SeqIo.Fastq.Hist

/-- `@a\nAC\n+\nII\n@b\nG\n+\nI\n@c\nGG\n+\nIIII\n`: two records, then a group with unequal lengths -/
def inp : List UInt8 :=
  [64, 97, 10, 65, 67, 10, 43, 10, 73, 73, 10, 64, 98, 10, 71, 10, 43, 10, 73, 10,
   64, 99, 10, 71, 71, 10, 43, 10, 73, 73, 73, 73, 10]

example : (Spec.fastq inp).map itemPos = [(1, 0), (5, 11), (9, 20)] := by decide

example : specObs inp =
    [.record [97] [65, 67] [73, 73] 1 0, .record [98] [71] [73] 5 11,
     .error (.unequalLengths 2 4 { line := 9, id := some [99] })] := by decide

/-- capacity 12; the first refill hands out 3 bytes and then fails -/
def m1 : MSt := mkM inp 12 PolDesc.std.toPol [.data 3, .fail 0] 0 []

/-- the error is observed by the first `next` (reader left `new` with the partly filled buffer `@a\n`);
then a seek to item 1 (a real seek of the source) and reads: record `b`, S's error, end -/
example : runM m1 [.next, .seekItem 1, .next, .next, .next] =
    [.error (.io 0), .done, .record { head := [98], seq := [71], qual := [73] },
     .error (.unequalLengths 2 4 { line := 9, id := some [99] }), .none] := by decide

example : (runMSt m1 [.next]).r.br.buf = [64, 97, 10] ∧ (runMSt m1 [.next]).r.state = .new := by decide

/-- a seek to item 0 takes the in-buffer branch, which first completes the partly filled buffer -/
example : runM m1 [.next, .seekItem 0, .next, .next, .next, .next] =
    [.error (.io 0), .done, .record { head := [97], seq := [65, 67], qual := [73, 73] },
     .record { head := [98], seq := [71], qual := [73] },
     .error (.unequalLengths 2 4 { line := 9, id := some [99] }), .none] := by decide

/-- the hypotheses of `fastq_seek_restores_after_faults` hold for `ops = [next]`, `i = 1` … -/
example : ∃ r', seek (runMSt m1 [.next]).r 5 11 = (r', .ok ()) ∧ FillProofs.NoFail r'.br.src.script := by
  have h2 : (seek (runMSt m1 [.next]).r 5 11).2 = .ok () := by decide
  have h3 : (seek (runMSt m1 [.next]).r 5 11).1.br.src.script = [] := by decide
  refine ⟨(seek (runMSt m1 [.next]).r 5 11).1, ?_, ?_⟩
  · rw [← h2]
  · rw [h3]; exact FillProofs.noFail_nil

/-- … and this is its conclusion for `k = 4`, computed on the concrete machine -/
example : runNexts 4 (seek (runMSt m1 [.next]).r 5 11).1 =
    [.record [98] [71] [73] 5 11, .error (.unequalLengths 2 4 { line := 9, id := some [99] }), .none, .none] := by
  decide

/-- a failure inside `resume_incomplete_search` (reader left `finished`), an interrupted read, an
in-buffer seek that succeeds although a failure is still ahead (the next read reports it: the
hypothesis "no failure left" is needed), a failing seek of the source (seek call 0, kind 9), and
finally a successful seek to the INVALID group, whose error is reproduced -/
def m2 : MSt :=
  mkM inp 12 PolDesc.std.toPol [.data 12, .intr, .data 9, .fail 7, .data 2, .fail 3] 0 [(0, 9)]

example : runM m2 [.next, .next, .pos, .seekItem 2, .next, .seekItem 0, .seekItem 2, .next, .next] =
    [.record { head := [97], seq := [65, 67], qual := [73, 73] }, .error (.io 7), .position 5 11, .done,
     .error (.io 3), .error (.io 9), .done,
     .error (.unequalLengths 2 4 { line := 9, id := some [99] }), .none] := by decide

example : (runMSt m2 [.next, .next]).r.state = .finished := by decide

/-- the same history, seeking back to the first record at the end -/
example : runM m2 [.next, .next, .pos, .seekItem 2, .next, .seekItem 0, .seekItem 0, .next, .next, .next, .next] =
    [.record { head := [97], seq := [65, 67], qual := [73, 73] }, .error (.io 7), .position 5 11, .done,
     .error (.io 3), .error (.io 9), .done,
     .record { head := [97], seq := [65, 67], qual := [73, 73] }, .record { head := [98], seq := [71], qual := [73] },
     .error (.unequalLengths 2 4 { line := 9, id := some [99] }), .none] := by decide

end SeqIo.Fastq.SeekAfterFaultExample

