import SeqIoModel.Proofs.FastqStreamSearch
import SeqIoModel.Proofs.Fill
import SeqIoModel.Model.HistoryFq
/-!
# FASTQ stream proof, part 4: the invariant and the outcomes of a completed search
-/

namespace SeqIo.Fastq
open SeqIo SeqIo.Spec SeqIo.WriteProofs SeqIo.FillProofs SeqIo.Fastq.Hist

/-- what S's item looks like to the caller -/
def obsOf : FqItem → Obs
  | .record r => .record r.head r.seq r.qual r.line r.byte
  | .err e _ _ => .error (specErr e)

theorem specObs_eq (inp : List UInt8) : specObs inp = (Spec.fastq inp).map obsOf := by
  unfold specObs
  congr 1

/-- what the reader needs from a policy: asked with a capacity ≥ 1 it never refuses and answers
more than it was passed (`PolOk` demands this for capacity 0 as well, which the doubling
built-in policies do not satisfy) -/
def PolGrows (p : Pol) : Prop :=
  ∀ (h : List Nat) (cur : Nat), 1 ≤ cur → ∃ n, p.f (h ++ [cur]) = some n ∧ cur < n

theorem PolOk.grows {p : Pol} (h : PolOk p) : PolGrows p := fun hist cur _ => h hist cur

theorem polGrows_std : PolGrows PolDesc.std.toPol := by
  intro h cur hc
  refine ⟨_, rfl, ?_⟩
  simp only [List.getLastD_eq_getLast?, List.getLast?_append, List.getLast?_singleton,
    Option.some_or, Option.getD_some]
  split <;> omega

theorem polGrows_doubleUntil (t : Nat) (ht : 1 ≤ t) : PolGrows (PolDesc.doubleUntil t).toPol := by
  intro h cur hc
  refine ⟨_, rfl, ?_⟩
  simp only [List.getLastD_eq_getLast?, List.getLast?_append, List.getLast?_singleton,
    Option.some_or, Option.getD_some]
  split <;> omega

/-- a policy that, asked with a capacity ≥ 1, answers more than it was passed or refuses -/
def PolWf1 (p : Pol) : Prop :=
  ∀ (h : List Nat) (cur n : Nat), 1 ≤ cur → p.f (h ++ [cur]) = some n → cur < n

theorem PolGrows.wf1 {p : Pol} (h : PolGrows p) : PolWf1 p := by
  intro hist cur n hc hn
  obtain ⟨m, hm, hlt⟩ := h hist cur hc
  rw [hm] at hn
  cases hn
  exact hlt

theorem PolWf.wf1 {p : Pol} (h : PolWf p) : PolWf1 p := fun hist cur n _ hn => h hist cur n hn

/-- window invariant, valid in every state: the buffer is the part of the input that ends at
the cursor of the source; `r.byte` is the input offset of buffer offset `pos0`.
`G` = "the environment is ideal": the policy never refuses, no read and no seek of the source
fails (a proposition the invariant carries along; with `G := False` nothing is assumed). -/
structure Win (inp : List UInt8) (G : Prop) (r : Reader) : Prop where
  inp_eq : r.br.src.inp = inp
  cur_le : r.br.src.cursor ≤ inp.length
  nofail : G → NoFail r.br.src.script
  polwf : PolWf1 r.pol
  polg : G → PolGrows r.pol
  cap3 : 3 ≤ r.br.cap
  len_le : r.br.buf.length ≤ r.br.cap
  len_cur : r.br.buf.length ≤ r.br.src.cursor
  full : inp.drop (r.br.src.cursor - r.br.buf.length) = r.br.buf ++ inp.drop r.br.src.cursor
  byte_pos : r.byte + r.br.buf.length = r.br.src.cursor + r.bp.pos0
  nosf : G → r.br.src.seekFails = []

/-- … and the current group starts inside the buffer (or at its end) -/
structure Base (inp : List UInt8) (G : Prop) (r : Reader) : Prop where
  toWin : Win inp G r
  pos0_le : r.bp.pos0 ≤ r.br.buf.length

theorem Base.inp_eq {inp G r} (h : Base inp G r) : r.br.src.inp = inp := h.toWin.inp_eq
theorem Base.cur_le {inp G r} (h : Base inp G r) : r.br.src.cursor ≤ inp.length := h.toWin.cur_le
theorem Base.cap3 {inp G r} (h : Base inp G r) : 3 ≤ r.br.cap := h.toWin.cap3
theorem Base.len_le {inp G r} (h : Base inp G r) : r.br.buf.length ≤ r.br.cap := h.toWin.len_le

theorem Base.byte_eq {inp G r} (h : Base inp G r) :
    r.byte + (r.br.buf.length - r.bp.pos0) = r.br.src.cursor := by
  have := h.toWin.byte_pos; have := h.pos0_le; omega

/-- the buffer from `pos0` on, followed by the unread input, is the input from `r.byte` on -/
theorem Base.win {inp G r} (h : Base inp G r) :
    inp.drop r.byte = r.br.buf.drop r.bp.pos0 ++ inp.drop r.br.src.cursor := by
  have h1 := h.toWin.byte_pos
  have h2 := h.pos0_le
  have h3 := h.toWin.len_cur
  have : r.byte = (r.br.src.cursor - r.br.buf.length) + r.bp.pos0 := by omega
  rw [this, ← List.drop_drop, h.toWin.full, List.drop_append_of_le_length h2]

/-- a buffer that is not full means that the input is exhausted -/
def Eof (inp : List UInt8) (r : Reader) : Prop :=
  r.br.buf.length < r.br.cap → r.br.src.cursor = inp.length

/-- the items S prescribes from the group starting at `byte` (line `line`) on -/
def itemsAt (inp : List UInt8) (byte line : Nat) : List FqItem :=
  fqGo false (splitLF (inp.drop byte)) byte line

/-- a pending incomplete search is consistent with the buffer -/
def IpOk (r : Reader) : Prop := ∀ ip, r.incompletePos = some ip → Scan r.br.buf r.bp ip

/-- reader states between API calls, with the items S prescribes for what lies ahead -/
def Good (inp : List UInt8) (G : Prop) (r : Reader) (items : List FqItem) : Prop :=
  match r.state with
  | .new => Win inp G r ∧ (G → r.br.buf = []) ∧ r.bp.pos0 = 0 ∧
      r.byte = 0 ∧ r.line = 1 ∧ r.incompletePos = none ∧ items = itemsAt inp 0 1
  | .finished => Win inp G r ∧ items = []
  | .positioned => Base inp G r ∧ Eof inp r ∧ IpOk r ∧ items = itemsAt inp r.byte r.line
  | .parsing => Base inp G r ∧ Eof inp r ∧ r.incompletePos = none ∧
      r.bp.pos0 ≤ r.bp.pos1 + 1 ∧ r.bp.pos1 + 1 ≤ r.br.buf.length ∧
      items = itemsAt inp (r.byte + (r.bp.pos1 + 1 - r.bp.pos0)) (r.line + 4)

/-- a reader that has finished (it can only be revived by a seek) -/
def Fin (inp : List UInt8) (G : Prop) (r : Reader) : Prop :=
  r.state = .finished ∧ Win inp G r

/-- errors that come from the environment, not from the input: a refusing policy, a failing
read -/
def EnvErr : Err → Prop
  | .bufferLimit => True
  | .io _ => True
  | _ => False

/-- the reader (in state `st`, or finished at the end of the input) shows the record `x` of S;
`its'` are the items after it -/
structure Shown (inp : List UInt8) (G : Prop) (st : State) (r : Reader) (x : FqRec)
    (its' : List FqItem) : Prop where
  win : Win inp G r
  eof : Eof inp r
  view : viewRec r.br.buf r.bp = some (recOf x)
  line_eq : x.line = r.line
  byte_eq : x.byte = r.byte
  p01 : r.bp.pos0 ≤ r.bp.pos1
  p1l : r.bp.pos1 ≤ r.br.buf.length
  rest : (r.state = st ∧ r.incompletePos = none ∧ r.bp.pos1 + 1 ≤ r.br.buf.length ∧
      its' = itemsAt inp (r.byte + (r.bp.pos1 + 1 - r.bp.pos0)) (r.line + 4) ∧
      nl4 (inp.drop r.byte) = some (r.bp.pos1 + 1 - r.bp.pos0)) ∨
    (r.state = .finished ∧ its' = [])

/-- the result of looking for the next record from a reader in state `st`: S's first item -/
def Found (inp : List UInt8) (G : Prop) (st : State) (its : List FqItem)
    (x : Reader × Res Bool) : Prop :=
  (x.2 = .ok true ∧ ∃ rec its', its = .record rec :: its' ∧ Shown inp G st x.1 rec its') ∨
  (x.2 = .ok false ∧ its = [] ∧ Fin inp G x.1) ∨
  (∃ e b l, x.2 = .err (specErr e) ∧ its = [.err e b l] ∧ Fin inp G x.1) ∨
  (∃ e, x.2 = .err e ∧ EnvErr e ∧ ¬ G ∧ Fin inp G x.1)

theorem Win.set_bp {inp G r} (h : Win inp G r) (bp' : BufPos)
    (ip' : Option RecordPos) (hp : bp'.pos0 = r.bp.pos0) :
    Win inp G { r with bp := bp', incompletePos := ip' } := by
  obtain ⟨a, b, c, d, e, f, g, i, w, k, z⟩ := h
  exact ⟨a, b, c, d, e, f, g, i, w, by simpa [hp] using k, z⟩

theorem Base.set_bp {inp G r} (h : Base inp G r) (bp' : BufPos)
    (ip' : Option RecordPos) (hp : bp'.pos0 = r.bp.pos0) :
    Base inp G { r with bp := bp', incompletePos := ip' } :=
  ⟨h.toWin.set_bp bp' ip' hp, by simpa [hp] using h.pos0_le⟩

theorem Win.set_state {inp G r} (h : Win inp G r) (st : State) :
    Win inp G { r with state := st } := by
  obtain ⟨a, b, c, d, e, f, g, i, w, k, z⟩ := h
  exact ⟨a, b, c, d, e, f, g, i, w, k, z⟩

theorem Base.set_state {inp G r} (h : Base inp G r) (st : State) :
    Base inp G { r with state := st } := ⟨h.toWin.set_state st, h.pos0_le⟩

theorem wrapS_wrapV (x : Reader × Res Unit) :
    wrapS (wrapV x) = match x with
      | (r, .ok ()) => (r, .ok true)
      | (r, .err e) => (r, .err e)
      | (r, .panic) => (r, .panic)
      | (r, .fuel) => (r, .fuel) := by
  rcases x with ⟨r, (_ | _ | _ | _)⟩ <;> rfl

theorem wrapS_wrapV_validate (r : Reader) : wrapS (wrapV (validate r)) = validated r := by
  unfold validated
  generalize validate r = v
  rcases v with ⟨r', (_ | _ | _ | _)⟩ <;> rfl

theorem Found4.rec4 {buf : List UInt8} {bp : BufPos} (h : Found4 buf bp) : Rec4 buf bp := by
  obtain ⟨a, b, c, d⟩ := h
  have a' := nl_some a
  have b' := nl_some b
  have c' := nl_some c
  have d' := nl_some d
  exact ⟨a'.1, b'.1, c'.1, by omega, by omega, a'.2.2.1, c'.2.2.1⟩

/-- the pieces of the input at a completely found record -/
theorem Found4.split {buf : List UInt8} {bp : BufPos} (h : Found4 buf bp) (e : List UInt8) :
    splitLF (buf.drop bp.pos0 ++ e) =
      hP buf bp :: sP buf bp :: pP buf bp :: qP buf bp :: splitLF (buf.drop (bp.pos1 + 1) ++ e) := by
  obtain ⟨a, b, c, d⟩ := h
  rw [splitLF_nl_some e a, splitLF_nl_some e b, splitLF_nl_some e c, splitLF_nl_some e d]
  rfl

theorem Found4.lens {buf : List UInt8} {bp : BufPos} (h : Found4 buf bp) :
    (hP buf bp).length + (sP buf bp).length + (pP buf bp).length + (qP buf bp).length + 4 =
      bp.pos1 + 1 - bp.pos0 := by
  obtain ⟨a, b, c, d⟩ := h
  have a' := nl_some a
  have b' := nl_some b
  have c' := nl_some c
  have d' := nl_some d
  rw [hP, sP, pP, qP, piece_length buf _ _ (by omega), piece_length buf _ _ (by omega),
    piece_length buf _ _ (by omega), piece_length buf _ _ (by omega)]
  omega

theorem viewRec_of_views {buf : List UInt8} {bp : BufPos} {x : FqRec}
    (h1 : head buf bp = some x.head) (h2 : seq buf bp = some x.seq)
    (h3 : qual buf bp = some x.qual) : viewRec buf bp = some (recOf x) := by
  simp only [viewRec, h1, h2, h3, recOf]

/-! ## the buffer reader is left alone -/

theorem validate_br (r : Reader) : (validate r).1.br = r.br := by
  unfold validate
  repeat' split
  all_goals first | rfl | (simp only; split <;> rfl)

theorem validated_br (r : Reader) : (validated r).1.br = r.br := by
  have := validate_br r
  unfold validated
  revert this
  generalize validate r = v
  rcases v with ⟨r', (_ | _ | _ | _)⟩ <;> exact id

/-- all four lines are in the buffer: `validate` decides as S does (sharp form) -/
theorem complete_found2 (inp : List UInt8) (G : Prop) (r : Reader) (hb : Base inp G r)
    (he : Eof inp r) (hip : r.incompletePos = none) (hf : Found4 r.br.buf r.bp) :
    (∃ x its', itemsAt inp r.byte r.line = .record x :: its' ∧ validated r = (r, .ok true) ∧
      Shown inp G r.state r x its') ∨
    (∃ e b l, itemsAt inp r.byte r.line = [.err e b l] ∧
      validated r = ({ r with state := .finished }, .err (specErr e))) := by
  have hrec := hf.rec4
  have hsplit := hf.split (inp.drop r.br.src.cursor)
  have hlens := hf.lens
  have hv := validate_spec r hrec
  have h1 : r.bp.pos1 + 1 ≤ r.br.buf.length := (nl_some hf.2.2.2).2.1
  have hne := splitLF_ne_nil (r.br.buf.drop (r.bp.pos1 + 1) ++ inp.drop r.br.src.cursor)
  have hp01 : r.bp.pos0 ≤ r.bp.pos1 := by
    have := hrec.h1; have := hrec.h2; have := hrec.h3; have := hrec.h4
    omega
  have hnext : inp.drop (r.byte + (r.bp.pos1 + 1 - r.bp.pos0)) =
      r.br.buf.drop (r.bp.pos1 + 1) ++ inp.drop r.br.src.cursor := by
    rw [← List.drop_drop, hb.win, List.drop_append_of_le_length (by simp; omega), List.drop_drop]
    congr 2
    omega
  unfold itemsAt
  rw [hb.win, hsplit, fqGo_four _ _ _ _ _ _ hne]
  generalize fqGroup false (hP r.br.buf r.bp) (sP r.br.buf r.bp) (pP r.br.buf r.bp)
    (qP r.br.buf r.bp) r.byte r.line = g at hv
  cases g with
  | record x =>
    obtain ⟨v1, v2, v3, v4, v5, v6⟩ := hv
    refine Or.inl ⟨x, _, rfl, by simp only [validated, v1], ?_⟩
    refine ⟨hb.toWin, he, viewRec_of_views v2 v3 v4, v6, v5, hp01, by omega,
      Or.inl ⟨rfl, hip, h1, ?_, ?_⟩⟩
    · unfold itemsAt
      rw [hnext]
      congr 1
      omega
    · obtain ⟨f1, f2, f3, f4⟩ := hf
      have g1 := nl_some f1
      have g2 := nl_some f2
      have g3 := nl_some f3
      have d1 := nl_append (inp.drop r.br.src.cursor) (nl_drop_some r.bp.pos0 (Nat.le_refl _) f1)
      have d2 := nl_append (inp.drop r.br.src.cursor)
        (nl_drop_some r.bp.pos0 (show r.bp.pos0 ≤ r.bp.seq by omega) f2)
      have d3 := nl_append (inp.drop r.br.src.cursor)
        (nl_drop_some r.bp.pos0 (show r.bp.pos0 ≤ r.bp.sep by omega) f3)
      have d4 := nl_append (inp.drop r.br.src.cursor)
        (nl_drop_some r.bp.pos0 (show r.bp.pos0 ≤ r.bp.qual by omega) f4)
      rw [Nat.sub_self] at d1
      rw [hb.win]
      simp only [nl4, d1, d2, d3, d4, Option.bind_some]
  | err e b l =>
    obtain ⟨v1, v2, v3⟩ := hv
    exact Or.inr ⟨e, b, l, rfl, by simp only [validated, v1]⟩

/-- all four lines are in the buffer: `validate` decides as S does -/
theorem complete_found (inp : List UInt8) (G : Prop) (r : Reader) (hb : Base inp G r)
    (he : Eof inp r) (hip : r.incompletePos = none) (hf : Found4 r.br.buf r.bp) :
    Found inp G r.state (itemsAt inp r.byte r.line) (validated r) := by
  rcases complete_found2 inp G r hb he hip hf with ⟨x, its', hi, hv, hs⟩ | ⟨e, b, l, hi, hv⟩
  · rw [hi, hv]
    exact Or.inl ⟨rfl, x, its', rfl, hs⟩
  · rw [hi, hv]
    exact Or.inr (Or.inr (Or.inl ⟨e, b, l, rfl, rfl, rfl, hb.toWin.set_state _⟩))

/-! ## end of input -/

/-- `check_end` in the quality line: `validate`, then the comparison of the trimmed lengths -/
def checkEndQ (r : Reader) : Reader × Res Bool :=
  match validate r with
  | (r, .ok ()) =>
    match seq r.br.buf r.bp, qual r.br.buf r.bp with
    | some sq, some ql =>
      if sq.length ≠ ql.length then
        match getErrorPos r 0 true with
        | none => (r, .panic)
        | some p => (r, .err (.unequalLengths sq.length ql.length p))
      else (r, .ok true)
    | _, _ => (r, .panic)
  | (r, .err e) => (r, .err e)
  | (r, .panic) => (r, .panic)
  | (r, .fuel) => (r, .fuel)

theorem checkEnd_qual (r : Reader) :
    checkEnd r .qual = checkEndQ { r with bp := { r.bp with pos1 := r.br.buf.length } } := by
  simp only [checkEnd, if_true, checkEndQ]
  generalize validate _ = v
  rcases v with ⟨r', (_ | _ | _ | _)⟩ <;> rfl

/-- three lines and an unterminated fourth one -/
theorem eofq_found (inp : List UInt8) (G : Prop) (st : State) (r : Reader) (hb : Base inp G r)
    (he : Eof inp r) (hcur : r.br.src.cursor = inp.length) (hst : r.state = .finished)
    (hsc : Scan r.br.buf r.bp .qual) :
    Found inp G st (itemsAt inp r.byte r.line) (checkEnd r .qual) := by
  obtain ⟨⟨a, b, c⟩, d⟩ := hsc
  simp only [lastPos] at d
  have a' := nl_some a
  have b' := nl_some b
  have c' := nl_some c
  rw [checkEnd_qual]
  have hw' : Win inp G { r with bp := { r.bp with pos1 := r.br.buf.length } } :=
    hb.toWin.set_bp _ r.incompletePos rfl
  have he' : Eof inp { r with bp := { r.bp with pos1 := r.br.buf.length } } := he
  generalize hr' : ({ r with bp := { r.bp with pos1 := r.br.buf.length } } : Reader) = r' at hw' he'
  have e1 : r'.br = r.br := by rw [← hr']
  have e2 : r'.bp = { r.bp with pos1 := r.br.buf.length } := by rw [← hr']
  have e3 : r'.byte = r.byte := by rw [← hr']
  have e4 : r'.line = r.line := by rw [← hr']
  have e5 : r'.state = .finished := by rw [← hr']; exact hst
  have hrec : Rec4 r'.br.buf r'.bp := by
    rw [e1, e2]
    exact ⟨a'.1, b'.1, c'.1, by simp only; omega, by simp only; omega, a'.2.2.1, c'.2.2.1⟩
  have hv := validate_spec r' hrec
  have hseqle : r'.bp.seq ≤ r'.br.buf.length := by
    have := hrec.h2; have := hrec.h3; have := hrec.h4; have := hrec.h5
    omega
  have hge : getErrorPos r' 0 true =
      some { line := r'.line, id := errId (hP r'.br.buf r'.bp) } :=
    getErrorPos_true r' 0 hrec.h1 hseqle
  have hq : qP r'.br.buf r'.bp = r.br.buf.drop r.bp.qual := by
    rw [e1, e2]
    simp only [qP, piece, Nat.add_sub_cancel, List.take_length]
  have hsplit : splitLF (inp.drop r.byte) =
      [hP r'.br.buf r'.bp, sP r'.br.buf r'.bp, pP r'.br.buf r'.bp, qP r'.br.buf r'.bp] := by
    rw [hb.win, hcur, List.drop_length, splitLF_nl_some [] a, splitLF_nl_some [] b,
      splitLF_nl_some [] c, List.append_nil, splitLF_nl_none d, hq, e1, e2]
    rfl
  have hfin : Fin inp G r' := ⟨e5, hw'⟩
  unfold itemsAt
  rw [hsplit, fqGo_three, ← e3, ← e4, fqGroup_eof]
  generalize fqGroup false (hP r'.br.buf r'.bp) (sP r'.br.buf r'.bp) (pP r'.br.buf r'.bp)
    (qP r'.br.buf r'.bp) r'.byte r'.line false = g at hv
  cases g with
  | record x =>
    obtain ⟨v1, v2, v3, v4, v5, v6⟩ := hv
    simp only [checkEndQ, v1, v3, v4, hge]
    by_cases hl : x.seq.length ≠ x.qual.length
    · rw [if_pos hl, if_pos hl]
      exact Or.inr (Or.inr (Or.inl ⟨_, _, _, rfl, rfl, hfin⟩))
    · rw [if_neg hl, if_neg hl]
      refine Or.inl ⟨rfl, x, [], rfl, ?_⟩
      dsimp only
      refine ⟨hw', he', viewRec_of_views v2 v3 v4, v6, v5, ?_, ?_, Or.inr ⟨e5, rfl⟩⟩
      · have := hrec.h1; have := hrec.h2; have := hrec.h3; have := hrec.h4
        omega
      · exact hrec.h5
  | err e b l =>
    obtain ⟨v1, v2, v3⟩ := hv
    simp only [checkEndQ, v1]
    exact Or.inr (Or.inr (Or.inl ⟨e, b, l, rfl, rfl, rfl, hw'.set_state _⟩))

theorem checkEnd_few (r : Reader) (ip : RecordPos) (hne : ip ≠ .qual)
    (h0 : r.bp.pos0 ≤ r.br.buf.length) (ep : ErrPos)
    (hep : getErrorPos r ip.ord (decide (ip.ord > RecordPos.head.ord)) = some ep) :
    checkEnd r ip =
      if (splitLF (r.br.buf.drop r.bp.pos0)).all blank then (r, .ok false)
      else (r, .err (.unexpectedEnd ep)) := by
  simp only [checkEnd, hne, if_false, h0, if_true, hep]
  rfl

/-- fewer than three complete lines -/
theorem eof_few_found (inp : List UInt8) (G : Prop) (st : State) (r : Reader) (hb : Base inp G r)
    (_he : Eof inp r) (hcur : r.br.src.cursor = inp.length) (hst : r.state = .finished)
    (ip : RecordPos) (hne : ip ≠ .qual) (hsc : Scan r.br.buf r.bp ip) :
    Found inp G st (itemsAt inp r.byte r.line) (checkEnd r ip) := by
  have hwin : inp.drop r.byte = r.br.buf.drop r.bp.pos0 := by
    rw [hb.win, hcur, List.drop_length, List.append_nil]
  have hfin : Fin inp G r := ⟨hst, hb.toWin⟩
  -- the pieces and the error position in each case
  have key : ∃ ps ep, splitLF (r.br.buf.drop r.bp.pos0) = ps ∧ ps.length ≤ 3 ∧
      getErrorPos r ip.ord (decide (ip.ord > RecordPos.head.ord)) = some ep ∧
      ep = { line := r.line + (ps.length - 1),
             id := if ps.length - 1 ≥ 1 then errId (ps.headD []) else none } := by
    cases ip with
    | qual => exact absurd rfl hne
    | head =>
      have d : nl r.br.buf r.bp.pos0 = none := hsc.2
      refine ⟨_, _, splitLF_nl_none d, by simp, ?_, rfl⟩
      simp [RecordPos.ord, getErrorPos_false]
    | seq =>
      obtain ⟨a, d⟩ := hsc
      have a : nl r.br.buf r.bp.pos0 = some r.bp.seq := a
      simp only [lastPos] at d
      have a' := nl_some a
      have hs : splitLF (r.br.buf.drop r.bp.pos0) = [hP r.br.buf r.bp, r.br.buf.drop r.bp.seq] := by
        have := splitLF_nl_some [] a
        rw [List.append_nil, List.append_nil, splitLF_nl_none d] at this
        exact this
      refine ⟨_, _, hs, by simp, ?_, rfl⟩
      simp [RecordPos.ord, getErrorPos_true r 1 a'.1 a'.2.1]
    | sep =>
      obtain ⟨⟨a, b⟩, d⟩ := hsc
      simp only [lastPos] at d
      have a' := nl_some a
      have hs : splitLF (r.br.buf.drop r.bp.pos0) =
          [hP r.br.buf r.bp, sP r.br.buf r.bp, r.br.buf.drop r.bp.sep] := by
        have h1 := splitLF_nl_some [] a
        have h2 := splitLF_nl_some [] b
        rw [List.append_nil, List.append_nil] at h1 h2
        rw [h1, h2, splitLF_nl_none d]
        rfl
      refine ⟨_, _, hs, by simp, ?_, rfl⟩
      simp [RecordPos.ord, getErrorPos_true r 2 a'.1 a'.2.1]
  obtain ⟨ps, ep, hps, hlen, hep, hepv⟩ := key
  rw [checkEnd_few r ip hne hb.pos0_le ep hep, hps]
  unfold itemsAt
  rw [hwin, hps, fqGo_few false ps hlen]
  by_cases hbl : ps.all blank = true
  · rw [if_pos hbl, if_pos hbl]
    exact Or.inr (Or.inl ⟨rfl, rfl, hfin⟩)
  · rw [if_neg hbl, if_neg hbl]
    refine Or.inr (Or.inr (Or.inl ⟨_, _, _, ?_, rfl, hfin⟩))
    simp only [specErr, hepv]

theorem checkEndQ_br (r : Reader) : (checkEndQ r).1.br = r.br := by
  have := validate_br r
  unfold checkEndQ
  revert this
  generalize validate r = v
  rcases v with ⟨r', (_ | _ | _ | _)⟩ <;> intro h
  · simp only
    repeat' split
    all_goals exact h
  all_goals exact h

theorem checkEnd_br (r : Reader) (ip : RecordPos) : (checkEnd r ip).1.br = r.br := by
  by_cases hq : ip = .qual
  · subst hq
    rw [checkEnd_qual, checkEndQ_br]
  · simp only [checkEnd, hq, if_false]
    repeat' split
    all_goals rfl

/-! ## the growth log is left alone -/

theorem validate_log (r : Reader) : (validate r).1.log = r.log := by
  unfold validate
  repeat' split
  all_goals first | rfl | (simp only; split <;> rfl)

theorem validate_ne_bl (r : Reader) : (validate r).2 ≠ .err .bufferLimit := by
  unfold validate
  repeat' split
  all_goals first | (intro h; cases h) | (simp only; split <;> (intro h; cases h))

theorem checkEndQ_log (r : Reader) :
    (checkEndQ r).1.log = r.log ∧ (checkEndQ r).2 ≠ .err .bufferLimit := by
  have h1 := validate_log r
  have h2 := validate_ne_bl r
  unfold checkEndQ
  revert h1 h2
  generalize validate r = v
  rcases v with ⟨r', (_ | e | _ | _)⟩ <;> intro h1 h2
  · simp only
    repeat' split
    all_goals exact ⟨h1, by intro h; cases h⟩
  · exact ⟨h1, fun h => h2 (by simpa using h)⟩
  · exact ⟨h1, by intro h; cases h⟩
  · exact ⟨h1, by intro h; cases h⟩

theorem checkEnd_log (r : Reader) (ip : RecordPos) :
    (checkEnd r ip).1.log = r.log ∧ (checkEnd r ip).2 ≠ .err .bufferLimit := by
  by_cases hq : ip = .qual
  · subst hq
    rw [checkEnd_qual]
    exact checkEndQ_log _
  · simp only [checkEnd, hq, if_false]
    repeat' split
    all_goals exact ⟨rfl, by intro h; cases h⟩

end SeqIo.Fastq
