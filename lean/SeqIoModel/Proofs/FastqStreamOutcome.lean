import SeqIoModel.Proofs.FastqStreamSearch
import SeqIoModel.Proofs.Fill
/-!
# FASTQ stream proof, part 4: the invariant and the outcomes of a completed search
-/

namespace SeqIo.Fastq
open SeqIo SeqIo.Spec SeqIo.WriteProofs SeqIo.FillProofs

/-- what S's item looks like to the caller -/
def obsOf : FqItem → Obs
  | .record r => .record r.head r.seq r.qual r.line r.byte
  | .err e _ _ => .error (specErr e)

theorem specObs_eq (inp : List UInt8) : specObs inp = (Spec.fastq inp).map obsOf := by
  unfold specObs
  congr 1

/-- what the reader needs from a policy: asked with a capacity ≥ 1 it never refuses and answers
more than it was passed (`PolOk` demands this for capacity 0 as well, which the doubling
built-in policies do not satisfy) -/
def PolGrows (p : Pol) : Prop :=
  ∀ (h : List Nat) (cur : Nat), 1 ≤ cur → ∃ n, p.f (h ++ [cur]) = some n ∧ cur < n

theorem PolOk.grows {p : Pol} (h : PolOk p) : PolGrows p := fun hist cur _ => h hist cur

theorem polGrows_std : PolGrows PolDesc.std.toPol := by
  intro h cur hc
  refine ⟨_, rfl, ?_⟩
  simp only [List.getLastD_eq_getLast?, List.getLast?_append, List.getLast?_singleton,
    Option.some_or, Option.getD_some]
  split <;> omega

theorem polGrows_doubleUntil (t : Nat) (ht : 1 ≤ t) : PolGrows (PolDesc.doubleUntil t).toPol := by
  intro h cur hc
  refine ⟨_, rfl, ?_⟩
  simp only [List.getLastD_eq_getLast?, List.getLast?_append, List.getLast?_singleton,
    Option.some_or, Option.getD_some]
  split <;> omega

/-- window invariant: the buffer from `pos0` on, followed by the unread input, is the input
from the start `r.byte` of the current group on -/
structure Base (inp : List UInt8) (r : Reader) : Prop where
  inp_eq : r.br.src.inp = inp
  cur_le : r.br.src.cursor ≤ inp.length
  nofail : NoFail r.br.src.script
  polok : PolGrows r.pol
  cap3 : 3 ≤ r.br.cap
  len_le : r.br.buf.length ≤ r.br.cap
  pos0_le : r.bp.pos0 ≤ r.br.buf.length
  win : inp.drop r.byte = r.br.buf.drop r.bp.pos0 ++ inp.drop r.br.src.cursor
  byte_eq : r.byte + (r.br.buf.length - r.bp.pos0) = r.br.src.cursor

/-- a buffer that is not full means that the input is exhausted -/
def Eof (inp : List UInt8) (r : Reader) : Prop :=
  r.br.buf.length < r.br.cap → r.br.src.cursor = inp.length

/-- the items S prescribes from the group starting at `r.byte` on -/
def itemsAt (inp : List UInt8) (byte line : Nat) : List FqItem :=
  fqGo false (splitLF (inp.drop byte)) byte line

/-- reader states between `next` calls, with the items S still prescribes -/
def Good (inp : List UInt8) (r : Reader) (items : List FqItem) : Prop :=
  match r.state with
  | .new => r.br.buf = [] ∧ r.br.src.cursor = 0 ∧ r.br.src.inp = inp ∧ r.bp.pos0 = 0 ∧
      r.byte = 0 ∧ r.line = 1 ∧ r.incompletePos = none ∧ 3 ≤ r.br.cap ∧
      NoFail r.br.src.script ∧ PolGrows r.pol ∧ items = itemsAt inp 0 1
  | .finished => items = []
  | .positioned => False
  | .parsing => Base inp r ∧ Eof inp r ∧ r.incompletePos = none ∧
      r.bp.pos0 ≤ r.bp.pos1 + 1 ∧ r.bp.pos1 + 1 ≤ r.br.buf.length ∧
      items = itemsAt inp (r.byte + (r.bp.pos1 + 1 - r.bp.pos0)) (r.line + 4)

/-- one `next` call shows the first prescribed item (or `None` when there is none) and leaves
a good state for the remaining ones -/
def Outcome (inp : List UInt8) (items : List FqItem) (x : Reader × Res Bool) : Prop :=
  ∃ items', Good inp x.1 items' ∧
    ((items = [] ∧ items' = [] ∧ observe x.1 x.2 = .none) ∨
     (∃ i, items = i :: items' ∧ observe x.1 x.2 = obsOf i))

theorem Base.set_bp {inp : List UInt8} {r : Reader} (h : Base inp r) (bp' : BufPos)
    (ip' : Option RecordPos) (hp : bp'.pos0 = r.bp.pos0) :
    Base inp { r with bp := bp', incompletePos := ip' } := by
  obtain ⟨a, b, c, d, e, f, g, w, k⟩ := h
  exact ⟨a, b, c, d, e, f, by simpa [hp] using g, by simpa [hp] using w, by simpa [hp] using k⟩

theorem wrapS_wrapV (x : Reader × Res Unit) :
    wrapS (wrapV x) = match x with
      | (r, .ok ()) => (r, .ok true)
      | (r, .err e) => (r, .err e)
      | (r, .panic) => (r, .panic)
      | (r, .fuel) => (r, .fuel) := by
  rcases x with ⟨r, (_ | _ | _ | _)⟩ <;> rfl

theorem wrapS_wrapV_validate (r : Reader) : wrapS (wrapV (validate r)) = validated r := by
  unfold validated
  generalize validate r = v
  rcases v with ⟨r', (_ | _ | _ | _)⟩ <;> rfl

theorem Found4.rec4 {buf : List UInt8} {bp : BufPos} (h : Found4 buf bp) : Rec4 buf bp := by
  obtain ⟨a, b, c, d⟩ := h
  have a' := nl_some a
  have b' := nl_some b
  have c' := nl_some c
  have d' := nl_some d
  exact ⟨a'.1, b'.1, c'.1, by omega, by omega, a'.2.2.1, c'.2.2.1⟩

/-- the pieces of the input at a completely found record -/
theorem Found4.split {buf : List UInt8} {bp : BufPos} (h : Found4 buf bp) (e : List UInt8) :
    splitLF (buf.drop bp.pos0 ++ e) =
      hP buf bp :: sP buf bp :: pP buf bp :: qP buf bp :: splitLF (buf.drop (bp.pos1 + 1) ++ e) := by
  obtain ⟨a, b, c, d⟩ := h
  rw [splitLF_nl_some e a, splitLF_nl_some e b, splitLF_nl_some e c, splitLF_nl_some e d]
  rfl

theorem Found4.lens {buf : List UInt8} {bp : BufPos} (h : Found4 buf bp) :
    (hP buf bp).length + (sP buf bp).length + (pP buf bp).length + (qP buf bp).length + 4 =
      bp.pos1 + 1 - bp.pos0 := by
  obtain ⟨a, b, c, d⟩ := h
  have a' := nl_some a
  have b' := nl_some b
  have c' := nl_some c
  have d' := nl_some d
  rw [hP, sP, pP, qP, piece_length buf _ _ (by omega), piece_length buf _ _ (by omega),
    piece_length buf _ _ (by omega), piece_length buf _ _ (by omega)]
  omega

/-- all four lines are in the buffer: `validate` decides as S does -/
theorem complete_outcome (inp : List UInt8) (r : Reader) (hb : Base inp r) (he : Eof inp r)
    (hst : r.state = .parsing) (hip : r.incompletePos = none) (hf : Found4 r.br.buf r.bp) :
    Outcome inp (itemsAt inp r.byte r.line) (validated r) := by
  have hrec := hf.rec4
  have hsplit := hf.split (inp.drop r.br.src.cursor)
  have hlens := hf.lens
  have hv := validate_spec r hrec
  have h1 : r.bp.pos1 + 1 ≤ r.br.buf.length := (nl_some hf.2.2.2).2.1
  have hne := splitLF_ne_nil (r.br.buf.drop (r.bp.pos1 + 1) ++ inp.drop r.br.src.cursor)
  have hnext : inp.drop (r.byte + (r.bp.pos1 + 1 - r.bp.pos0)) =
      r.br.buf.drop (r.bp.pos1 + 1) ++ inp.drop r.br.src.cursor := by
    rw [← List.drop_drop, hb.win, List.drop_append_of_le_length (by simp; omega), List.drop_drop]
    congr 2
    have := hrec.h1; have := hrec.h2; have := hrec.h3; have := hrec.h4
    omega
  unfold itemsAt
  rw [hb.win, hsplit, fqGo_four _ _ _ _ _ _ hne]
  generalize fqGroup false (hP r.br.buf r.bp) (sP r.br.buf r.bp) (pP r.br.buf r.bp)
    (qP r.br.buf r.bp) r.byte r.line = g at hv
  cases g with
  | record x =>
    obtain ⟨v1, v2, v3, v4, v5, v6⟩ := hv
    simp only [validated, v1]
    refine ⟨_, ?_, Or.inr ⟨_, rfl, ?_⟩⟩
    · simp only [Good, hst]
      refine ⟨hb, he, hip, ?_, h1, ?_⟩
      · have := hrec.h1; have := hrec.h2; have := hrec.h3; have := hrec.h4
        omega
      · unfold itemsAt
        rw [hnext]
        congr 1
        omega
    · simp only [observe, v2, v3, v4, obsOf, v5, v6]
  | err e b l =>
    obtain ⟨v1, v2, v3⟩ := hv
    simp only [validated, v1]
    refine ⟨[], ?_, Or.inr ⟨_, rfl, ?_⟩⟩
    · simp only [Good]
    · simp only [observe, obsOf]


/-! ## end of input -/

/-- `check_end` in the quality line: `validate`, then the comparison of the trimmed lengths -/
def checkEndQ (r : Reader) : Reader × Res Bool :=
  match validate r with
  | (r, .ok ()) =>
    match seq r.br.buf r.bp, qual r.br.buf r.bp with
    | some sq, some ql =>
      if sq.length ≠ ql.length then
        match getErrorPos r 0 true with
        | none => (r, .panic)
        | some p => (r, .err (.unequalLengths sq.length ql.length p))
      else (r, .ok true)
    | _, _ => (r, .panic)
  | (r, .err e) => (r, .err e)
  | (r, .panic) => (r, .panic)
  | (r, .fuel) => (r, .fuel)

theorem checkEnd_qual (r : Reader) :
    checkEnd r .qual = checkEndQ { r with bp := { r.bp with pos1 := r.br.buf.length } } := by
  simp only [checkEnd, if_true, checkEndQ]
  generalize validate _ = v
  rcases v with ⟨r', (_ | _ | _ | _)⟩ <;> rfl

/-- three lines and an unterminated fourth one -/
theorem eofq_outcome (inp : List UInt8) (r : Reader) (hb : Base inp r)
    (hcur : r.br.src.cursor = inp.length) (hst : r.state = .finished)
    (hsc : Scan r.br.buf r.bp .qual) :
    Outcome inp (itemsAt inp r.byte r.line) (checkEnd r .qual) := by
  obtain ⟨⟨a, b, c⟩, d⟩ := hsc
  simp only [lastPos] at d
  have a' := nl_some a
  have b' := nl_some b
  have c' := nl_some c
  rw [checkEnd_qual]
  generalize hr' : ({ r with bp := { r.bp with pos1 := r.br.buf.length } } : Reader) = r'
  have e1 : r'.br = r.br := by rw [← hr']
  have e2 : r'.bp = { r.bp with pos1 := r.br.buf.length } := by rw [← hr']
  have e3 : r'.byte = r.byte := by rw [← hr']
  have e4 : r'.line = r.line := by rw [← hr']
  have e5 : r'.state = .finished := by rw [← hr']; exact hst
  have hrec : Rec4 r'.br.buf r'.bp := by
    rw [e1, e2]
    exact ⟨a'.1, b'.1, c'.1, by simp only; omega, by simp only; omega, a'.2.2.1, c'.2.2.1⟩
  have hv := validate_spec r' hrec
  have hseqle : r'.bp.seq ≤ r'.br.buf.length := by
    have := hrec.h2; have := hrec.h3; have := hrec.h4; have := hrec.h5
    omega
  have hge : getErrorPos r' 0 true =
      some { line := r'.line, id := errId (hP r'.br.buf r'.bp) } :=
    getErrorPos_true r' 0 hrec.h1 hseqle
  have hq : qP r'.br.buf r'.bp = r.br.buf.drop r.bp.qual := by
    rw [e1, e2]
    simp only [qP, piece, Nat.add_sub_cancel, List.take_length]
  have hsplit : splitLF (inp.drop r.byte) =
      [hP r'.br.buf r'.bp, sP r'.br.buf r'.bp, pP r'.br.buf r'.bp, qP r'.br.buf r'.bp] := by
    rw [hb.win, hcur, List.drop_length, splitLF_nl_some [] a, splitLF_nl_some [] b,
      splitLF_nl_some [] c, List.append_nil, splitLF_nl_none d, hq, e1, e2]
    rfl
  unfold itemsAt
  rw [hsplit, fqGo_three, ← e3, ← e4, fqGroup_eof]
  generalize fqGroup false (hP r'.br.buf r'.bp) (sP r'.br.buf r'.bp) (pP r'.br.buf r'.bp)
    (qP r'.br.buf r'.bp) r'.byte r'.line false = g at hv
  cases g with
  | record x =>
    obtain ⟨v1, v2, v3, v4, v5, v6⟩ := hv
    simp only [checkEndQ, v1, v3, v4, hge]
    by_cases hl : x.seq.length ≠ x.qual.length
    · rw [if_pos hl, if_pos hl]
      refine ⟨[], ?_, Or.inr ⟨_, rfl, ?_⟩⟩
      · simp only [Good, e5]
      · simp only [observe, obsOf, specErr]
    · rw [if_neg hl, if_neg hl]
      refine ⟨[], ?_, Or.inr ⟨_, rfl, ?_⟩⟩
      · simp only [Good, e5]
      · simp only [observe, v2, v3, v4, obsOf, v5, v6]
  | err e b l =>
    obtain ⟨v1, v2, v3⟩ := hv
    simp only [checkEndQ, v1]
    refine ⟨[], ?_, Or.inr ⟨_, rfl, ?_⟩⟩
    · simp only [Good]
    · simp only [observe, obsOf]

theorem checkEnd_few (r : Reader) (ip : RecordPos) (hne : ip ≠ .qual)
    (h0 : r.bp.pos0 ≤ r.br.buf.length) (ep : ErrPos)
    (hep : getErrorPos r ip.ord (decide (ip.ord > RecordPos.head.ord)) = some ep) :
    checkEnd r ip =
      if (splitLF (r.br.buf.drop r.bp.pos0)).all blank then (r, .ok false)
      else (r, .err (.unexpectedEnd ep)) := by
  simp only [checkEnd, hne, if_false, h0, if_true, hep]
  rfl

/-- fewer than three complete lines -/
theorem eof_few_outcome (inp : List UInt8) (r : Reader) (hb : Base inp r)
    (hcur : r.br.src.cursor = inp.length) (hst : r.state = .finished)
    (ip : RecordPos) (hne : ip ≠ .qual) (hsc : Scan r.br.buf r.bp ip) :
    Outcome inp (itemsAt inp r.byte r.line) (checkEnd r ip) := by
  have hwin : inp.drop r.byte = r.br.buf.drop r.bp.pos0 := by
    rw [hb.win, hcur, List.drop_length, List.append_nil]
  -- the pieces and the error position in each case
  have key : ∃ ps ep, splitLF (r.br.buf.drop r.bp.pos0) = ps ∧ ps.length ≤ 3 ∧
      getErrorPos r ip.ord (decide (ip.ord > RecordPos.head.ord)) = some ep ∧
      ep = { line := r.line + (ps.length - 1),
             id := if ps.length - 1 ≥ 1 then errId (ps.headD []) else none } := by
    cases ip with
    | qual => exact absurd rfl hne
    | head =>
      have d : nl r.br.buf r.bp.pos0 = none := hsc.2
      refine ⟨_, _, splitLF_nl_none d, by simp, ?_, rfl⟩
      simp [RecordPos.ord, getErrorPos_false]
    | seq =>
      obtain ⟨a, d⟩ := hsc
      have a : nl r.br.buf r.bp.pos0 = some r.bp.seq := a
      simp only [lastPos] at d
      have a' := nl_some a
      have hs : splitLF (r.br.buf.drop r.bp.pos0) = [hP r.br.buf r.bp, r.br.buf.drop r.bp.seq] := by
        have := splitLF_nl_some [] a
        rw [List.append_nil, List.append_nil, splitLF_nl_none d] at this
        exact this
      refine ⟨_, _, hs, by simp, ?_, rfl⟩
      simp [RecordPos.ord, getErrorPos_true r 1 a'.1 a'.2.1]
    | sep =>
      obtain ⟨⟨a, b⟩, d⟩ := hsc
      simp only [lastPos] at d
      have a' := nl_some a
      have hs : splitLF (r.br.buf.drop r.bp.pos0) =
          [hP r.br.buf r.bp, sP r.br.buf r.bp, r.br.buf.drop r.bp.sep] := by
        have h1 := splitLF_nl_some [] a
        have h2 := splitLF_nl_some [] b
        rw [List.append_nil, List.append_nil] at h1 h2
        rw [h1, h2, splitLF_nl_none d]
        rfl
      refine ⟨_, _, hs, by simp, ?_, rfl⟩
      simp [RecordPos.ord, getErrorPos_true r 2 a'.1 a'.2.1]
  obtain ⟨ps, ep, hps, hlen, hep, hepv⟩ := key
  rw [checkEnd_few r ip hne hb.pos0_le ep hep, hps]
  unfold itemsAt
  rw [hwin, hps, fqGo_few false ps hlen]
  by_cases hbl : ps.all blank = true
  · rw [if_pos hbl, if_pos hbl]
    exact ⟨[], by simp only [Good, hst], Or.inl ⟨rfl, rfl, rfl⟩⟩
  · rw [if_neg hbl, if_neg hbl]
    refine ⟨[], by simp only [Good, hst], Or.inr ⟨_, rfl, ?_⟩⟩
    simp only [observe, obsOf, specErr, hepv]

end SeqIo.Fastq
