import SeqIoModel.Model.Spec
/-!
# The length verdict of `Spec.fqGroup` (repaired semantics, `strict = false`)

A group with a valid start and separator byte is a record iff the CR-trimmed lengths of the
sequence and quality pieces agree, or – only when the quality line is ended by a terminator
(`atEof = false`) – their raw lengths agree.  With the same terminator on both lines, and
always at the end of the input, this is exactly the comparison of the trimmed lengths.
-/

namespace SeqIo.Fastq
open SeqIo SeqIo.Spec

theorem trimCr_length (l : List UInt8) :
    (trimCr l).length = if l.getLast? = some CR then l.length - 1 else l.length := by
  unfold trimCr
  cases h : l.getLast? with
  | none => simp
  | some c =>
    by_cases hc : c = CR
    · simp [hc]
    · simp [hc]

/-- `fqGroup false` as a chain of tests with the length condition in normal form -/
theorem fqGroup_false_eq (h s p q : List UInt8) (byte line : Nat) (atEof : Bool) :
    fqGroup false h s p q byte line atEof =
      if h.headD LF ≠ AT then .err (.invalidStart (h.headD LF) line) byte line
      else if p.headD LF ≠ PLUS then .err (.invalidSep (p.headD LF) (line + 2) (errId h)) byte line
      else if (s.length ≠ q.length ∨ atEof = true) ∧ (trimCr s).length ≠ (trimCr q).length then
        .err (.unequalLengths (trimCr s).length (trimCr q).length line (errId h)) byte line
      else .record { byte := byte, line := line, head := trimCr (h.drop 1), seq := trimCr s,
                     qual := trimCr q } := by
  simp only [fqGroup]
  have hc : ((s.length ≠ q.length ∧ (false = true ∨ (trimCr s).length ≠ (trimCr q).length)) ∨
      (atEof = true ∧ ¬ false = true ∧ (trimCr s).length ≠ (trimCr q).length)) ↔
      ((s.length ≠ q.length ∨ atEof = true) ∧ (trimCr s).length ≠ (trimCr q).length) := by
    constructor
    · rintro (⟨a, b⟩ | ⟨a, -, b⟩)
      · rcases b with b | b
        · cases b
        · exact ⟨Or.inl a, b⟩
      · exact ⟨Or.inr a, b⟩
    · rintro ⟨a | a, b⟩
      · exact Or.inl ⟨a, Or.inr b⟩
      · exact Or.inr ⟨a, by simp, b⟩
  simp only [hc]

/-- at the end of the input the verdict of the terminated case is refined by the comparison of
the trimmed lengths -/
theorem fqGroup_eof (h s p q : List UInt8) (byte line : Nat) :
    fqGroup false h s p q byte line true =
      match fqGroup false h s p q byte line false with
      | .record x =>
        if x.seq.length ≠ x.qual.length then
          .err (.unequalLengths x.seq.length x.qual.length line (errId h)) byte line
        else .record x
      | .err e b l => .err e b l := by
  rw [fqGroup_false_eq, fqGroup_false_eq]
  by_cases c0 : h.headD LF ≠ AT
  · rw [if_pos c0, if_pos c0]
  · rw [if_neg c0, if_neg c0]
    by_cases c2 : p.headD LF ≠ PLUS
    · rw [if_pos c2, if_pos c2]
    · rw [if_neg c2, if_neg c2]
      by_cases ct : (trimCr s).length ≠ (trimCr q).length
      · rw [if_pos ⟨Or.inr rfl, ct⟩]
        by_cases cr : s.length ≠ q.length
        · rw [if_pos ⟨Or.inl cr, ct⟩]
        · rw [if_neg (by rintro ⟨a | a, -⟩; exact cr a; cases a)]
          simp only [ct, ne_eq, not_false_eq_true, if_true]
      · rw [if_neg (fun hh => ct hh.2), if_neg (fun hh => ct hh.2)]
        simp only [ct, if_false]

/-- the verdict, unconditionally -/
theorem fqGroup_record_iff (h s p q : List UInt8) (byte line : Nat) (atEof : Bool)
    (hh : h.head? = some AT) (hp : p.head? = some PLUS) :
    (∃ r, fqGroup false h s p q byte line atEof = .record r) ↔
      ((s.length = q.length ∧ atEof = false) ∨ (trimCr s).length = (trimCr q).length) := by
  have h0 : h.headD LF = AT := by rw [List.headD_eq_head?_getD, hh]; rfl
  have h2 : p.headD LF = PLUS := by rw [List.headD_eq_head?_getD, hp]; rfl
  rw [fqGroup_false_eq]
  simp only [h0, h2, ne_eq, not_true_eq_false, if_false]
  by_cases c : (¬ s.length = q.length ∨ atEof = true) ∧ ¬ (trimCr s).length = (trimCr q).length
  · rw [if_pos c]
    constructor
    · rintro ⟨r, hr⟩; cases hr
    · rintro (⟨e, e'⟩ | e)
      · rcases c.1 with c1 | c1
        · exact absurd e c1
        · rw [e'] at c1; cases c1
      · exact absurd e c.2
  · rw [if_neg c]
    constructor
    · intro _
      by_cases e' : (trimCr s).length = (trimCr q).length
      · exact Or.inr e'
      · left
        constructor
        · by_cases e : s.length = q.length
          · exact e
          · exact absurd ⟨Or.inl e, e'⟩ c
        · cases atEof with
          | false => rfl
          | true => exact absurd ⟨Or.inr rfl, e'⟩ c
    · intro _; exact ⟨_, rfl⟩

/-- the record of an accepted group -/
theorem fqGroup_record_eq (h s p q : List UInt8) (byte line : Nat) (atEof : Bool) (r : FqRec)
    (hr : fqGroup false h s p q byte line atEof = .record r) :
    r = { byte := byte, line := line, head := trimCr (h.drop 1), seq := trimCr s, qual := trimCr q } := by
  rw [fqGroup_false_eq] at hr
  split at hr
  · cases hr
  · split at hr
    · cases hr
    · split at hr
      · cases hr
      · cases hr; rfl

/-- terminated quality line: when equal raw lengths come with equal terminators the verdict is
the comparison of the trimmed lengths -/
theorem fqGroup_length_verdict' (h s p q : List UInt8) (byte line : Nat)
    (hh : h.head? = some AT) (hp : p.head? = some PLUS)
    (hterm : s.length = q.length → (s.getLast? = some CR ↔ q.getLast? = some CR)) :
    (∃ r, fqGroup false h s p q byte line false = .record r) ↔
      (trimCr s).length = (trimCr q).length := by
  rw [fqGroup_record_iff h s p q byte line false hh hp]
  constructor
  · intro hor
    rcases hor with ⟨e, -⟩ | e
    · have ht := hterm e
      rw [trimCr_length, trimCr_length]
      by_cases hs : s.getLast? = some CR
      · rw [if_pos hs, if_pos (ht.mp hs), e]
      · rw [if_neg hs, if_neg (fun hq => hs (ht.mpr hq)), e]
    · exact e
  · exact Or.inr

/-- terminated quality line (`atEof = false`): same terminator on both lines ⇒ verdict =
trimmed comparison -/
theorem fqGroup_length_verdict (h s p q : List UInt8) (byte line : Nat)
    (hh : h.head? = some AT) (hp : p.head? = some PLUS)
    (hterm : s.getLast? = some CR ↔ q.getLast? = some CR) :
    (∃ r, Spec.fqGroup false h s p q byte line false = .record r) ↔
      (trimCr s).length = (trimCr q).length :=
  fqGroup_length_verdict' h s p q byte line hh hp (fun _ => hterm)

/-- quality line ended by the end of the input (`atEof = true`): the verdict is the trimmed
comparison, unconditionally -/
theorem fqGroup_length_verdict_eof (h s p q : List UInt8) (byte line : Nat)
    (hh : h.head? = some AT) (hp : p.head? = some PLUS) :
    (∃ r, Spec.fqGroup false h s p q byte line true = .record r) ↔
      (trimCr s).length = (trimCr q).length := by
  rw [fqGroup_record_iff h s p q byte line true hh hp]
  constructor
  · rintro (⟨-, e⟩ | e)
    · cases e
    · exact e
  · exact Or.inr

/-- the hypothesis of `fqGroup_length_verdict'` is also necessary: for a terminated quality line
the verdict is the comparison of the trimmed lengths **iff** equal raw lengths come with equal
terminators -/
theorem fqGroup_length_verdict_iff (h s p q : List UInt8) (byte line : Nat)
    (hh : h.head? = some AT) (hp : p.head? = some PLUS) :
    ((∃ r, fqGroup false h s p q byte line false = .record r) ↔
        (trimCr s).length = (trimCr q).length) ↔
      (s.length = q.length → (s.getLast? = some CR ↔ q.getLast? = some CR)) := by
  constructor
  · intro hiff e
    rw [fqGroup_record_iff h s p q byte line false hh hp] at hiff
    have ht := hiff.mp (Or.inl ⟨e, rfl⟩)
    rw [trimCr_length, trimCr_length] at ht
    have hpos : ∀ l : List UInt8, l.getLast? = some CR → 0 < l.length := by
      intro l hl
      cases l with
      | nil => simp at hl
      | cons => simp
    by_cases hs : s.getLast? = some CR <;> by_cases hq : q.getLast? = some CR
    · exact ⟨fun _ => hq, fun _ => hs⟩
    · rw [if_pos hs, if_neg hq] at ht
      have := hpos s hs
      omega
    · rw [if_neg hs, if_pos hq] at ht
      have := hpos q hq
      omega
    · exact ⟨fun h' => absurd h' hs, fun h' => absurd h' hq⟩
  · exact fqGroup_length_verdict' h s p q byte line hh hp

/-- the pinned (`strict = true`) behaviour, and the terminated case of the repaired one, accept
on equal raw lengths: sequence `AC\r`, quality `III` gives a record with 2 sequence bytes and
3 quality bytes … -/
theorem fqGroup_raw_equal_accepts (strict : Bool) :
    fqGroup strict [AT, 97] [65, 67, CR] [PLUS] [73, 73, 73] 0 1 false =
      .record { byte := 0, line := 1, head := [97], seq := [65, 67], qual := [73, 73, 73] } := by
  cases strict <;> decide

/-- … which the repaired semantics rejects when `III` is ended by the end of the input -/
theorem fqGroup_raw_equal_rejected_at_eof :
    fqGroup false [AT, 97] [65, 67, CR] [PLUS] [73, 73, 73] 0 1 true =
      .err (.unequalLengths 2 3 1 (some [97])) 0 1 := by
  decide

end SeqIo.Fastq
