import SeqIoModel.Proofs.FastaStreamInv
import SeqIoModel.Proofs.FastaStreamSpec
/-!
# FASTA stream proof, part 3: `first_byte` / `init` skip exactly the blank lines S skips
-/
open SeqIo SeqIo.FillProofs SeqIo.Spec

namespace SeqIo.Fasta

/-- loop invariant of `first_byte` -/
structure FB (inp : List UInt8) (r : Reader) : Prop where
  win : Win inp r
  byte_eq : r.byte = base r
  small : r.br.buf = [] ∨ r.br.buf = [CR]
  skip : skipBlank (lines inp) 0 1 = skipBlank (lines (inp.drop (base r))) (base r) (r.line + 1)

/-- what `first_byte` reports -/
def FBPost (inp : List UInt8) (r' : Reader) : Option (Nat × Nat × UInt8) → Prop
  | none => (skipBlank (lines inp) 0 1).1 = []
  | some (ln, pos, c) =>
    Eof inp r' ∧ r'.byte = base r' ∧ pos < r'.br.buf.length ∧
    (inp.drop (pos + base r')).head? = some c ∧
    skipBlank (lines inp) 0 1 = (lines (inp.drop (pos + base r')), pos + base r', ln) ∧
    ∃ l ls, lines (inp.drop (pos + base r')) = l :: ls ∧ l.head? = some c

theorem skipBlank_small (b : List UInt8) (h : b = [] ∨ b = [CR]) (byte line : Nat) :
    (skipBlank (lines b) byte line).1 = [] := by
  rcases h with rfl | rfl
  · simp [lines_nil, skipBlank]
  · have h1 : lines [CR] = [[CR]] := by
      rw [lines_noLF _ (by simp [CR, LF])]; simp
    have h2 : blank [CR] = true := (blank_iff _).mpr (Or.inr rfl)
    simp [h1, skipBlank, h2]

theorem firstByte_succ_ok (f : Nat) (r : Reader) (br : BufRd) (n : Nat) (hn : n ≠ 0)
    (h : fillBuf r.br = (br, .ok n)) :
    firstByte (f + 1) r =
      match scanBlank (splitLF br.buf) r.line 0 0 with
      | .inl x => ({ r with br := br }, .ok (some x))
      | .inr (ln, pos, ll) =>
        match csub pos (1 + ll), csub ln 1 with
        | some c, some l1 =>
          firstByte f { r with line := l1, byte := r.byte + c, br := br.consume c }
        | _, _ => ({ r with br := br }, .panic) := by
  cases n with
  | zero => exact absurd rfl hn
  | succ m =>
    rw [firstByte]
    simp only [h]
    rfl

theorem firstByte_succ_zero (f : Nat) (r : Reader) (br : BufRd)
    (h : fillBuf r.br = (br, .ok 0)) :
    firstByte (f + 1) r = ({ r with br := br }, .ok none) := by
  rw [firstByte]
  simp only [h]

theorem firstByte_spec {inp : List UInt8} : ∀ (fuel : Nat) (r : Reader), FB inp r →
    inp.length - r.br.src.cursor < fuel →
    ∃ r' res, firstByte fuel r = (r', .ok res) ∧ Win inp r' ∧ r'.bp = r.bp ∧
      r'.searchPos = r.searchPos ∧ r'.state = r.state ∧ r'.log = r.log ∧ r'.pol = r.pol ∧
      r'.br.cap = r.br.cap ∧ FBPost inp r' res := by
  intro fuel
  induction fuel with
  | zero => intro r _ h; omega
  | succ f ih =>
    intro r hfb hfuel
    have hw := hfb.win
    obtain ⟨br2, n, hfill, hwb2, heof2, hbase2, hcap2, hbuf2, hcur2, hn, _⟩ := fill_win hw.b
    have hlen1 : r.br.buf.length ≤ 1 := by
      rcases hfb.small with h | h <;> rw [h] <;> simp
    have hcap := hw.b.cap_ge
    have hcl := hw.b.cur_le
    by_cases hn0 : n = 0
    · -- nothing more to read: only a blank rest is left
      subst hn0
      refine ⟨{ r with br := br2 }, none, firstByte_succ_zero f r br2 hfill, ⟨hwb2, hw.pol⟩, rfl, rfl,
        rfl, rfl, rfl, hcap2, ?_⟩
      show (skipBlank (lines inp) 0 1).1 = []
      have hcur : r.br.src.cursor = inp.length := by omega
      have hwin := hw.b.win
      rw [hcur, List.drop_length, List.append_nil] at hwin
      rw [hfb.skip]
      unfold base
      rw [hwin]
      exact skipBlank_small _ hfb.small _ _
    · rw [firstByte_succ_ok f r br2 n hn0 hfill]
      have hwin2 : inp.drop (base r) = br2.buf ++ inp.drop br2.src.cursor := by
        have := hwb2.win
        rw [hbase2] at this
        exact this
      have hbs := blank_spec br2.buf (inp.drop br2.src.cursor) r.line 0 0 (base r)
      rw [← hwin2] at hbs
      have hw2 : Win inp { r with br := br2 } := ⟨hwb2, hw.pol⟩
      have hb2 : base { r with br := br2 } = base r := hbase2
      generalize hsb : scanBlank (splitLF br2.buf) r.line 0 0 = sb at hbs
      cases sb with
      | inl x =>
        obtain ⟨ln', pos', c⟩ := x
        simp only [Nat.sub_zero] at hbs
        obtain ⟨_, hpos, hskip, hhead, hl⟩ := hbs
        refine ⟨{ r with br := br2 }, some (ln', pos', c), rfl, hw2, rfl, rfl, rfl, rfl, rfl, hcap2, ?_⟩
        have e : (inp.drop (base r)).drop pos' = inp.drop (pos' + base r) := by
          rw [List.drop_drop, Nat.add_comm]
        rw [e] at hskip hl
        refine ⟨heof2, ?_, hpos, ?_, ?_, ?_⟩
        · show r.byte = baseB br2
          rw [hbase2]; exact hfb.byte_eq
        · show (inp.drop (pos' + baseB br2)).head? = some c
          rw [win_drop hwb2 pos' (by omega), List.head?_append, hhead]
          rfl
        · rw [hb2, hfb.skip, hskip, Nat.add_comm]
        · rw [hb2]; exact hl
      | inr x =>
        obtain ⟨ln', pos', ll⟩ := x
        obtain ⟨hpos, hll1, hllw, hln, hsm, hsl, hskip⟩ := hbs
        have hc1 : csub pos' (1 + ll) = some (br2.buf.length - ll) := by
          unfold csub
          rw [if_pos (by omega)]
          congr 1
          omega
        have hc2 : csub ln' 1 = some (ln' - 1) := by
          unfold csub
          rw [if_pos hln]
        simp only [hc1, hc2]
        have hcle : br2.buf.length - ll ≤ br2.buf.length := by omega
        obtain ⟨hwb3, hbase3⟩ := consume_win hwb2 (br2.buf.length - ll) hcle
        have hfb3 : FB inp { r with line := ln' - 1, byte := r.byte + (br2.buf.length - ll),
                                    br := br2.consume (br2.buf.length - ll) } := by
          refine ⟨⟨hwb3, hw.pol⟩, ?_, hsm, ?_⟩
          · show r.byte + (br2.buf.length - ll) = baseB (br2.consume (br2.buf.length - ll))
            rw [hbase3, hbase2, hfb.byte_eq]; rfl
          · show skipBlank (lines inp) 0 1 =
              skipBlank (lines (inp.drop (baseB (br2.consume (br2.buf.length - ll)))))
                (baseB (br2.consume (br2.buf.length - ll))) (ln' - 1 + 1)
            have e1 : ln' - 1 + 1 = ln' := by omega
            have e2 : baseB (br2.consume (br2.buf.length - ll)) = base r + br2.buf.length - ll := by
              rw [hbase3, hbase2]; unfold base; omega
            have e3 : inp.drop (base r + br2.buf.length - ll) =
                br2.buf.drop (br2.buf.length - ll) ++ inp.drop br2.src.cursor := by
              rw [← win_drop hwb2 _ hcle, hbase2]
              congr 1
              unfold base; omega
            rw [e1, e2, e3, hfb.skip, hskip]
        have hlen2 : br2.buf.length = r.br.buf.length + n := by
          rw [hbuf2, List.length_append, List.length_take, List.length_drop]; omega
        obtain ⟨r', res, hres, hw', hbp', hsp', hst', hlog', hpol', hcap', hpost⟩ := ih _ hfb3
          (by show inp.length - br2.src.cursor < f; rw [hcur2]; omega)
        exact ⟨r', res, hres, hw', hbp', hsp', hst', hlog', hpol', by rw [hcap']; exact hcap2, hpost⟩

end SeqIo.Fasta
