import SeqIoModel.Proofs.FastaHistorySet
import SeqIoModel.Proofs.FastaHistorySeek
/-!
# FASTA histories: every history of calls on one reader is accepted by the abstract reader A

`fasta_history_accepted`: for every input, capacity ≥ 3, policy that never refuses a request
with a positive capacity (`PolGrows`), read script without failures, chunk limit and every finite
list of operations (`next`, owned `next`, `read_record_set`, `read_record_set_exact`, iteration
over a live record set, `position`, `seek` to the position of a record), the observations of the
concrete machine are accepted by A, in order (properties C04 and C05).
-/
open SeqIo SeqIo.FillProofs SeqIo.Spec

namespace SeqIo.Fasta.Hist

/-! ## evaluation of A -/

theorem accept_next_rec {it : Items} {a : AState} {rc : FaRec} (he : errDue it a = none)
    (hk : it.recs[a.k]? = some rc) :
    acceptA it a .next (.record rc.head rc.seqLines) =
      some { a with k := a.k + 1, last := .record a.k } := by
  simp [acceptA, he, hk]

theorem accept_next_none {it : Items} {a : AState} (he : errDue it a = none)
    (hk : it.recs[a.k]? = none) :
    acceptA it a .next .none = some { a with last := .other } := by
  simp [acceptA, he, hk]

theorem accept_next_err {it : Items} {a : AState} {e : Err} (he : errDue it a = some e) :
    acceptA it a .next (.error e) = some { a with errDone := true, last := .other } := by
  simp [acceptA, he]

theorem accept_owned_rec {it : Items} {a : AState} {rc : FaRec} (he : errDue it a = none)
    (hk : it.recs[a.k]? = some rc) :
    acceptA it a .owned (.owned rc.head rc.seq) =
      some { a with k := a.k + 1, last := .record a.k } := by
  simp [acceptA, he, hk]

theorem accept_owned_none {it : Items} {a : AState} (he : errDue it a = none)
    (hk : it.recs[a.k]? = none) :
    acceptA it a .owned .none = some { a with last := .other } := by
  simp [acceptA, he, hk]

theorem accept_owned_err {it : Items} {a : AState} {e : Err} (he : errDue it a = some e) :
    acceptA it a .owned (.error e) = some { a with errDone := true, last := .other } := by
  simp [acceptA, he]

theorem accept_set_batch {it : Items} {a : AState} {j : Nat} {n : Option Nat} {m : Nat}
    (hn : n ≠ some 0) (hj : j < a.sets.length) (he : errDue it a = none) (hm : 1 ≤ m)
    (hok1 : n = none → m ≤ it.recs.length - a.k)
    (hok2 : ∀ n', n = some n' → m = min n' (it.recs.length - a.k)) :
    acceptA it a (.set j n) (.batch m) =
      some { a with k := a.k + m, sets := a.sets.set j { lo := a.k, len := m }, last := .set } := by
  cases n with
  | none => have := hok1 rfl; simp [acceptA, hj, he, hm, this]
  | some n' =>
    cases n' with
    | zero => exact absurd rfl hn
    | succ n'' => have := hok2 _ rfl; simp [acceptA, hj, he, hm, ← this]

theorem accept_set_none {it : Items} {a : AState} {j : Nat} {n : Option Nat}
    (hn : n ≠ some 0) (hj : j < a.sets.length) (he : errDue it a = none)
    (hk : it.recs.length - a.k = 0) :
    acceptA it a (.set j n) .none = some { markOrEmpty a j with last := .other } := by
  cases n with
  | none => simp [acceptA, hj, he, hk]
  | some n' =>
    cases n' with
    | zero => exact absurd rfl hn
    | succ n'' => simp [acceptA, hj, he, hk]

theorem accept_set_err {it : Items} {a : AState} {j : Nat} {n : Option Nat} {e : Err}
    (hn : n ≠ some 0) (hj : j < a.sets.length) (he : errDue it a = some e) :
    acceptA it a (.set j n) (.error e) =
      some { markOrEmpty a j with errDone := true, last := .other } := by
  cases n with
  | none => simp [acceptA, hj, he]
  | some n' =>
    cases n' with
    | zero => exact absurd rfl hn
    | succ n'' => simp [acceptA, hj, he]

theorem accept_set_range {it : Items} {a : AState} {j : Nat} {n : Option Nat}
    (hj : ¬ j < a.sets.length) : acceptA it a (.set j n) .done = some a := by
  cases n with
  | none => simp [acceptA, hj]
  | some n' =>
    cases n' with
    | zero => simp [acceptA]
    | succ n'' => simp [acceptA, hj]

theorem accept_set_zero {it : Items} {a : AState} {j : Nat} :
    acceptA it a (.set j (some 0)) .done = some a := by
  simp [acceptA]

/-! ## the invariant between operations -/

/-- what `position()` shows, as A wants it -/
def LastOk (inp : List UInt8) (r : Reader) (a : AState) : Prop :=
  match a.last with
  | .record i => ∃ rc, (recsOf inp)[i]? = some rc ∧ position r = some (posOf rc)
  | .set => position r = none ∨ ∃ rc, (recsOf inp)[a.k]? = some rc ∧ position r = some (posOf rc)
  | .seek _ => position r = none
  | .other => True

/-- a live record set against what A expects of it -/
def SetInv (inp : List UInt8) (rs : RecordSet) (e : SetExp) : Prop :=
  SetOk inp rs e.lo e.len ∨ (e.orEmpty = true ∧ rs.npos = 0)

structure HInv (inp : List UInt8) (m : MSt) (a : AState) : Prop where
  rd : RInv inp m.r a.k
  sf : m.r.br.src.seekFails = []
  errNew : m.r.state = .new → a.errDone = false
  errOld : m.r.state ≠ .new → errDue (items inp) a = none
  last : LastOk inp m.r a
  len : m.sets.length = a.sets.length
  sets : ∀ (j : Nat) (rs : RecordSet) (e : SetExp), m.sets[j]? = some rs → a.sets[j]? = some e →
    SetInv inp rs e

theorem HInv.inp_eq {inp : List UInt8} {m : MSt} {a : AState} (h : HInv inp m a) :
    m.r.br.src.inp = inp := h.rd.win.b.inp_eq

theorem HInv.fuel {inp : List UInt8} {m : MSt} {a : AState} (h : HInv inp m a) :
    2 * inp.length + 2 < fuelOf m.r := by
  unfold fuelOf opFuel
  rw [h.inp_eq]
  omega

theorem rinv_new_k {inp : List UInt8} {r : Reader} {k : Nat} (h : RInv inp r k)
    (hst : r.state = .new) : k = 0 := by
  cases h with
  | fresh => rfl
  | parsing _ h => rw [h] at hst; cases hst
  | ready _ h => rcases h with h | h <;> rw [h] at hst <;> cases hst
  | finished h _ => rw [h.st] at hst; cases hst

theorem errDue_of_err_none {it : Items} {a : AState} (h : it.err = none) : errDue it a = none := by
  unfold errDue
  split
  · rfl
  · exact h

/-- before any read A expects the error of S, if there is one -/
theorem HInv.errDue_new {inp : List UInt8} {m : MSt} {a : AState} (h : HInv inp m a)
    (hst : m.r.state = .new) : errDue (items inp) a = (items inp).err := by
  unfold errDue
  rw [h.errNew hst]
  rfl

/-- the outcome of one operation: the invariant holds again (for some abstract state), and the
observation is accepted by A, unless the policy refused to grow the buffer -/
def StepOk (inp : List UInt8) (m : MSt) (a : AState) (op : Op) (a' : AState) : Prop :=
  HInv inp (stepM m op).1 a' ∧ Frame m.r (stepM m op).1.r ∧
  (acceptA (items inp) a op (stepM m op).2 = some a' ∨
    ((stepM m op).2 = .error .bufferLimit ∧ ¬ PolGrows m.r.pol))

/-- an operation that only changes the reader -/
theorem hinv_reader {inp : List UInt8} {m : MSt} {a a' : AState} {r' : Reader} (h : HInv inp m a)
    (hfr : Frame m.r r') (hrd : RInv inp r' a'.k) (hnew : r'.state ≠ .new)
    (herr : errDue (items inp) a' = none) (hlast : LastOk inp r' a') (hsets : a'.sets = a.sets) :
    HInv inp { m with r := r' } a' :=
  ⟨hrd, by show r'.br.src.seekFails = []; rw [hfr.seekFails]; exact h.sf, fun h' => absurd h' hnew,
    fun _ => herr, hlast, by rw [hsets]; exact h.len, by rw [hsets]; exact h.sets⟩

theorem rinv_ne_new_of_lt {inp : List UInt8} {r : Reader} {k : Nat} (h : RInv inp r (k + 1)) :
    r.state ≠ .new := by
  intro hst
  have := rinv_new_k h hst
  omega

/-! ## `next` and owned `next` -/

theorem step_read {inp : List UInt8} {m : MSt} {a : AState} (h : HInv inp m a) (op : Op)
    (obsF : Reader → Res Bool → ObsH) (recO : FaRec → ObsH)
    (hstep : stepM m op = ({ m with r := (next (fuelOf m.r) m.r).1 },
      obsF (next (fuelOf m.r) m.r).1 (next (fuelOf m.r) m.r).2))
    (hobs_rec : ∀ (r' : Reader) (rc : FaRec), viewRec r'.br.buf r'.bp = some (view rc) →
      head r'.br.buf r'.bp = some rc.head → ownedSeq r'.br.buf r'.bp = some rc.seq →
      obsF r' (.ok true) = recO rc)
    (hobs_none : ∀ r', obsF r' (.ok false) = .none)
    (hobs_err : ∀ r' e, obsF r' (.err e) = .error e)
    (hacc_rec : ∀ (a : AState) (rc : FaRec), errDue (items inp) a = none →
      (items inp).recs[a.k]? = some rc →
      acceptA (items inp) a op (recO rc) = some { a with k := a.k + 1, last := .record a.k })
    (hacc_none : ∀ a : AState, errDue (items inp) a = none → (items inp).recs[a.k]? = none →
      acceptA (items inp) a op .none = some { a with last := .other })
    (hacc_err : ∀ (a : AState) (e : Err), errDue (items inp) a = some e →
      acceptA (items inp) a op (.error e) = some { a with errDone := true, last := .other }) :
    ∃ a', StepOk inp m a op a' := by
  obtain ⟨r', res, hnext, hfr, hcase⟩ := next_rinv (fuel := fuelOf m.r) h.rd (by have := h.fuel; omega)
  unfold StepOk
  rw [hstep, hnext]
  simp only
  -- A's view of the error before the call
  have herr_of : (m.r.state = .new → (items inp).err = none) → errDue (items inp) a = none := by
    intro hn
    by_cases hst : m.r.state = .new
    · rw [h.errDue_new hst]; exact hn hst
    · exact h.errOld hst
  rcases hcase with (⟨hres, rc, hk, hv, hh, ho, hpos, hinv, hnn⟩ | ⟨hres, hng, hready, hst'⟩) |
    ⟨hres, hk, hfin, herr⟩ | ⟨ln, c, hres, hst, hfin, hrecs, herr⟩
  · subst hres
    have hlt : a.k < (recsOf inp).length := by
      rcases Nat.lt_or_ge a.k (recsOf inp).length with h' | h'
      · exact h'
      · rw [List.getElem?_eq_none h'] at hk; cases hk
    have hed : errDue (items inp) a = none := herr_of (fun _ => err_none_of_lt hlt)
    refine ⟨{ a with k := a.k + 1, last := .record a.k }, ?_, hfr, Or.inl ?_⟩
    · exact hinv_reader h hfr hinv hnn hed ⟨rc, hk, hpos⟩ rfl
    · rw [hobs_rec r' rc hv hh ho]
      exact hacc_rec a rc hed hk
  · subst hres
    have hed : errDue (items inp) a = none := errDue_of_err_none (err_none_of_lt hready.pt.lt)
    refine ⟨{ a with last := .other }, ?_, hfr, Or.inr ⟨hobs_err _ _, hng⟩⟩
    exact hinv_reader h hfr (RInv.ready hready (Or.inr hst')) (by rw [hst']; intro h; cases h) hed
      trivial rfl
  · subst hres
    have hed : errDue (items inp) a = none := herr_of herr
    refine ⟨{ a with last := .other }, ?_, hfr, Or.inl ?_⟩
    · exact hinv_reader h hfr (RInv.finished hfin hk) (by rw [hfin.st]; intro h; cases h) hed
        trivial rfl
    · rw [hobs_none]
      exact hacc_none a hed (by rw [hk]; exact List.getElem?_eq_none (Nat.le_refl _))
  · subst hres
    have hed : errDue (items inp) a = some (.invalidStart ln c) := by
      rw [h.errDue_new hst]; exact herr
    have hk0 : a.k = 0 := rinv_new_k h.rd hst
    refine ⟨{ a with errDone := true, last := .other }, ?_, hfr, Or.inl ?_⟩
    · exact hinv_reader h hfr (RInv.finished hfin (by show a.k = _; rw [hk0, hrecs]; rfl))
        (by rw [hfin.st]; intro h; cases h) (by simp [errDue]) trivial rfl
    · rw [hobs_err]
      exact hacc_err a _ hed

theorem step_next {inp : List UInt8} {m : MSt} {a : AState} (h : HInv inp m a) :
    ∃ a', StepOk inp m a .next a' := by
  apply step_read h .next obsNext (fun rc => .record rc.head rc.seqLines) rfl
  · intro r' rc hv _ _
    simp only [obsNext, hv, view]
  · intro r'; rfl
  · intro r' e; rfl
  · intro a rc he hk; exact accept_next_rec he hk
  · intro a he hk; exact accept_next_none he hk
  · intro a e he; exact accept_next_err he

theorem step_owned {inp : List UInt8} {m : MSt} {a : AState} (h : HInv inp m a) :
    ∃ a', StepOk inp m a .owned a' := by
  apply step_read h .owned obsOwned (fun rc => .owned rc.head rc.seq) rfl
  · intro r' rc _ hh ho
    simp only [obsOwned, hh, ho]
  · intro r'; rfl
  · intro r' e; rfl
  · intro a rc he hk; exact accept_owned_rec he hk
  · intro a he hk; exact accept_owned_none he hk
  · intro a e he; exact accept_owned_err he

/-! ## record set reads -/

theorem stepM_set_none {m : MSt} {j : Nat} {n : Option Nat} (hn : n ≠ some 0)
    (hj : m.sets[j]? = none) : stepM m (.set j n) = (m, .done) := by
  cases n with
  | none => simp [stepM, hj]
  | some n' =>
    cases n' with
    | zero => exact absurd rfl hn
    | succ n'' => simp [stepM, hj]

theorem stepM_set_some {m : MSt} {j : Nat} {n : Option Nat} {rs : RecordSet} (hn : n ≠ some 0)
    (hj : m.sets[j]? = some rs) :
    stepM m (.set j n) =
      ({ r := (readRecordSetExact (fuelOf m.r) m.r rs n).1,
         sets := m.sets.set j (readRecordSetExact (fuelOf m.r) m.r rs n).2.1 },
       obsSet (readRecordSetExact (fuelOf m.r) m.r rs n).2.1
         (readRecordSetExact (fuelOf m.r) m.r rs n).2.2) := by
  cases n with
  | none => simp [stepM, hj]
  | some n' =>
    cases n' with
    | zero => exact absurd rfl hn
    | succ n'' => simp [stepM, hj]

/-- an operation that changes the reader and the live set `j` -/
theorem hinv_set {inp : List UInt8} {m : MSt} {a a' : AState} {r' : Reader} {rs' : RecordSet}
    {j : Nat} {e' : SetExp} (h : HInv inp m a) (hfr : Frame m.r r') (hrd : RInv inp r' a'.k)
    (hnew : r'.state ≠ .new) (herr : errDue (items inp) a' = none) (hlast : LastOk inp r' a')
    (hsets : a'.sets = a.sets.set j e') (hset : SetInv inp rs' e') :
    HInv inp { r := r', sets := m.sets.set j rs' } a' := by
  refine ⟨hrd, by show r'.br.src.seekFails = []; rw [hfr.seekFails]; exact h.sf,
    fun h' => absurd h' hnew, fun _ => herr, hlast, ?_, ?_⟩
  · show (m.sets.set j rs').length = a'.sets.length
    rw [hsets, List.length_set, List.length_set]; exact h.len
  · intro j' rs e h1 h2
    replace h1 : (m.sets.set j rs')[j']? = some rs := h1
    rw [hsets] at h2
    rw [List.getElem?_set] at h1 h2
    by_cases hjj : j = j'
    · rw [if_pos hjj] at h1 h2
      split at h1
      · split at h2
        · cases h1; cases h2; exact hset
        · cases h2
      · cases h1
    · rw [if_neg hjj] at h1 h2
      exact h.sets j' rs e h1 h2

theorem markOrEmpty_sets {a : AState} {j : Nat} {e : SetExp} (he : a.sets[j]? = some e) :
    (markOrEmpty a j).sets = a.sets.set j { e with orEmpty := true } := by
  simp only [markOrEmpty, he]

theorem markOrEmpty_k (a : AState) (j : Nat) : (markOrEmpty a j).k = a.k := by
  unfold markOrEmpty
  split <;> rfl

theorem markOrEmpty_errDone (a : AState) (j : Nat) : (markOrEmpty a j).errDone = a.errDone := by
  unfold markOrEmpty
  split <;> rfl

theorem setInv_orEmpty {inp : List UInt8} {rs : RecordSet} {e : SetExp} (h : SetInv inp rs e) :
    SetInv inp rs { e with orEmpty := true } := by
  rcases h with h | ⟨_, h⟩
  · exact Or.inl h
  · exact Or.inr ⟨rfl, h⟩

theorem step_set {inp : List UInt8} {m : MSt} {a : AState} (h : HInv inp m a) (j : Nat)
    (n : Option Nat) : ∃ a', StepOk inp m a (.set j n) a' := by
  unfold StepOk
  by_cases hn : n = some 0
  · subst hn
    exact ⟨a, h, Frame.refl _, Or.inl accept_set_zero⟩
  cases hj : m.sets[j]? with
  | none =>
    rw [stepM_set_none hn hj]
    have : ¬ j < a.sets.length := by
      rw [← h.len]
      intro hlt
      rw [List.getElem?_eq_getElem hlt] at hj
      cases hj
    exact ⟨a, h, Frame.refl _, Or.inl (accept_set_range this)⟩
  | some rs =>
    have hjl : j < m.sets.length := by
      rcases Nat.lt_or_ge j m.sets.length with h' | h'
      · exact h'
      · rw [List.getElem?_eq_none h'] at hj; cases hj
    have hja : j < a.sets.length := by rw [← h.len]; exact hjl
    obtain ⟨e, hje⟩ : ∃ e, a.sets[j]? = some e := ⟨_, List.getElem?_eq_getElem hja⟩
    have hold := h.sets j rs e hj hje
    rw [stepM_set_some hn hj]
    obtain ⟨r', rs', res, hread, hfr, hcase⟩ := readSet_rinv h.rd h.fuel rs n hn
    rw [hread]
    simp only
    have herr_of : (m.r.state = .new → (items inp).err = none) → errDue (items inp) a = none := by
      intro hn
      by_cases hst : m.r.state = .new
      · rw [h.errDue_new hst]; exact hn hst
      · exact h.errOld hst
    rcases hcase with ⟨hres, hbuf, hg, herr⟩ | ⟨hres, hrs, hk, hfin, herr⟩ |
      ⟨ln, c, hres, hrs, hst, hfin, hrecs, herr⟩ | ⟨hres, hng, h0, herr, k', hinv', hnn'⟩
    · subst hres
      have hed := herr_of herr
      have hkle := hg.inv.k_le
      refine ⟨{ a with k := a.k + rs'.npos, sets := a.sets.set j { lo := a.k, len := rs'.npos },
                       last := .set }, ?_, hfr, Or.inl ?_⟩
      · exact hinv_set h hfr hg.inv hg.st hed hg.position rfl
          (Or.inl (setOk_of_acc hg.inv.win hg.acc hbuf))
      · apply accept_set_batch hn hja hed hg.pos
        · intro _
          show rs'.npos ≤ (recsOf inp).length - a.k; omega
        · intro n' hnn
          show rs'.npos = min n' ((recsOf inp).length - a.k)
          rcases hg.exact n' hnn with h1 | ⟨h1, h2⟩
          · omega
          · omega
    · subst hres
      have hed := herr_of herr
      refine ⟨{ markOrEmpty a j with last := .other }, ?_, hfr, Or.inl ?_⟩
      · exact hinv_set h hfr (by show RInv inp r' (markOrEmpty a j).k; rw [markOrEmpty_k]; exact RInv.finished hfin hk)
          (by rw [hfin.st]; intro h; cases h)
          (by show errDue (items inp) _ = none
              unfold errDue at hed ⊢
              simp only [markOrEmpty_errDone]; exact hed)
          trivial (markOrEmpty_sets hje) (by rw [hrs]; exact setInv_orEmpty hold)
      · exact accept_set_none hn hja hed (by show (recsOf inp).length - a.k = 0; omega)
    · subst hres
      have hed : errDue (items inp) a = some (.invalidStart ln c) := by
        rw [h.errDue_new hst]; exact herr
      have hk0 : a.k = 0 := rinv_new_k h.rd hst
      refine ⟨{ markOrEmpty a j with errDone := true, last := .other }, ?_, hfr, Or.inl ?_⟩
      · exact hinv_set h hfr
          (by show RInv inp r' (markOrEmpty a j).k; rw [markOrEmpty_k]
              exact RInv.finished hfin (by rw [hk0, hrecs]; rfl))
          (by rw [hfin.st]; intro h; cases h) (by simp [errDue]) trivial (markOrEmpty_sets hje)
          (by rw [hrs]; exact setInv_orEmpty hold)
      · exact accept_set_err hn hja hed
    · subst hres
      refine ⟨{ a with k := k', sets := a.sets.set j { e with orEmpty := true }, last := .other },
        ?_, hfr, Or.inr ⟨rfl, hng⟩⟩
      exact hinv_set h hfr hinv' hnn' (herr_of herr) trivial rfl (Or.inr ⟨rfl, h0⟩)

/-! ## iteration over a set, `position`, `seek` -/

theorem obsDump_empty {rs : RecordSet} (h : rs.npos = 0) : obsDump rs = .dump [] := by
  simp [obsDump, h, allSome]

theorem step_dump {inp : List UInt8} {m : MSt} {a : AState} (h : HInv inp m a) (j : Nat) :
    ∃ a', StepOk inp m a (.dump j) a' := by
  unfold StepOk
  cases hj : m.sets[j]? with
  | none =>
    have hja : a.sets[j]? = none := by
      rcases Nat.lt_or_ge j m.sets.length with h' | h'
      · rw [List.getElem?_eq_getElem h'] at hj; cases hj
      · exact List.getElem?_eq_none (by rw [← h.len]; exact h')
    refine ⟨a, by simp only [stepM, hj]; exact h, by simp only [stepM, hj]; exact Frame.refl _, Or.inl ?_⟩
    simp [stepM, hj, acceptA, hja]
  | some rs =>
    have hjl : j < a.sets.length := by
      rw [← h.len]
      rcases Nat.lt_or_ge j m.sets.length with h' | h'
      · exact h'
      · rw [List.getElem?_eq_none h'] at hj; cases hj
    obtain ⟨e, hje⟩ : ∃ e, a.sets[j]? = some e := ⟨_, List.getElem?_eq_getElem hjl⟩
    refine ⟨a, by simp only [stepM, hj]; exact h, by simp only [stepM, hj]; exact Frame.refl _, Or.inl ?_⟩
    simp only [stepM, hj, acceptA, hje]
    rcases h.sets j rs e hj hje with hok | ⟨he, h0⟩
    · have : obsDump rs = .dump ((((items inp).recs.drop e.lo).take e.len).map view) := hok
      rw [if_pos (Or.inl this)]
    · rw [if_pos (Or.inr ⟨he, obsDump_empty h0⟩)]

theorem step_pos {inp : List UInt8} {m : MSt} {a : AState} (h : HInv inp m a) :
    ∃ a', StepOk inp m a .pos a' := by
  refine ⟨a, h, Frame.refl _, Or.inl ?_⟩
  show acceptA (items inp) a .pos (.pos (position m.r)) = some a
  have hl := h.last
  unfold LastOk at hl
  unfold acceptA
  simp only
  cases hlast : a.last with
  | record i =>
    rw [hlast] at hl
    obtain ⟨rc, h1, h2⟩ := hl
    have h1' : (items inp).recs[i]? = some rc := h1
    simp [h1', h2]
  | set =>
    rw [hlast] at hl
    rcases hl with h1 | ⟨rc, h1, h2⟩
    · simp [h1]
    · have h1' : (items inp).recs[a.k]? = some rc := h1
      simp [h1', h2]
  | seek i =>
    rw [hlast] at hl
    simp only at hl
    simp [hl]
  | other => simp

theorem step_seek {inp : List UInt8} {m : MSt} {a : AState} (h : HInv inp m a) (i : Nat) :
    ∃ a', StepOk inp m a (.seekRec i) a' := by
  unfold StepOk
  have hinp := h.inp_eq
  cases hi : (recsOf inp)[i]? with
  | none =>
    have hi' : (items m.r.br.src.inp).recs[i]? = none := by rw [hinp]; exact hi
    have hlt : ¬ i < (items inp).recs.length := by
      intro hlt
      have : (recsOf inp)[i]? = some ((items inp).recs[i]) := List.getElem?_eq_getElem hlt
      rw [hi] at this; cases this
    refine ⟨a, by simp only [stepM, hi']; exact h, by simp only [stepM, hi']; exact Frame.refl _, Or.inl ?_⟩
    simp [stepM, hi', acceptA, hlt]
  | some rc =>
    have hi' : (items m.r.br.src.inp).recs[i]? = some rc := by rw [hinp]; exact hi
    have hlt : i < (items inp).recs.length := by
      rcases Nat.lt_or_ge i (items inp).recs.length with h' | h'
      · exact h'
      · have : (recsOf inp)[i]? = none := List.getElem?_eq_none h'
        rw [hi] at this; cases this
    obtain ⟨r', hseek, hfr, hready, hst, hsq⟩ := seek_rinv h.rd h.sf i rc hi
    simp only [stepM, hi', hseek]
    refine ⟨{ a with k := i, last := .seek i }, ?_, hfr, Or.inl ?_⟩
    · refine hinv_reader h hfr (RInv.ready hready (Or.inl hst)) (by rw [hst]; intro h; cases h)
        (errDue_of_err_none (err_none_of_lt hlt)) ?_ rfl
      show position r' = none
      unfold position
      rw [hsq]; rfl
    · simp [obsSeek, acceptA, hlt]

/-- **every operation preserves the invariant and is accepted by A** (or is a refusal) -/
theorem step_hinv {inp : List UInt8} {m : MSt} {a : AState} (h : HInv inp m a) (op : Op) :
    ∃ a', StepOk inp m a op a' := by
  cases op with
  | next => exact step_next h
  | owned => exact step_owned h
  | set j n => exact step_set h j n
  | dump j => exact step_dump h j
  | pos => exact step_pos h
  | seekRec i => exact step_seek h i

/-! ## the initial state -/

theorem hinv_init (inp : List UInt8) (cap : Nat) (hcap : 3 ≤ cap) (pol : Pol) (hpol : PolWfPos pol)
    (script : List ReadEv) (hs : NoFail script) (chunk : Nat) :
    HInv inp (mkMSt inp cap pol script chunk) aInit := by
  have hw : Win inp (mkReader inp cap pol script chunk) := by
    refine ⟨⟨rfl, Nat.le_refl _, Nat.zero_le _, ?_, hcap, Nat.zero_le _, hs⟩, hpol⟩
    simp [baseB, mkReader]
  refine ⟨RInv.fresh ⟨hw, rfl, rfl, rfl, rfl, rfl, rfl, rfl⟩, rfl, fun _ => rfl,
    fun h => absurd rfl h, trivial, rfl, ?_⟩
  intro j rs e h1 h2
  have hrs : rs = {} := by
    have : j < 3 := by
      rcases Nat.lt_or_ge j 3 with h' | h'
      · exact h'
      · have : (mkMSt inp cap pol script chunk).sets[j]? = none := List.getElem?_eq_none h'
        rw [this] at h1; cases h1
    have hm : (mkMSt inp cap pol script chunk).sets = [{}, {}, {}] := rfl
    rw [hm] at h1
    match j, this with
    | 0, _ => simpa using h1.symm
    | 1, _ => simpa using h1.symm
    | 2, _ => simpa using h1.symm
  have he : e = {} := by
    have : j < 3 := by
      rcases Nat.lt_or_ge j 3 with h' | h'
      · exact h'
      · have : aInit.sets[j]? = none := List.getElem?_eq_none h'
        rw [this] at h2; cases h2
    have hm : aInit.sets = [{}, {}, {}] := rfl
    rw [hm] at h2
    match j, this with
    | 0, _ => simpa using h2.symm
    | 1, _ => simpa using h2.symm
    | 2, _ => simpa using h2.symm
  subst hrs he
  left
  show obsDump {} = _
  simp [obsDump, allSome]

/-! ## the theorems -/

theorem runA_cons (it : Items) (a a' : AState) (op : Op) (ops : List Op) (o : ObsH) (os : List ObsH)
    (h : acceptA it a op o = some a') : runA it a (op :: ops) (o :: os) = runA it a' ops os := by
  simp only [runA, h]

theorem runM_accepted {inp : List UInt8} : ∀ (ops : List Op) (m : MSt) (a : AState),
    HInv inp m a → PolGrows m.r.pol → runA (items inp) a ops (runM m ops) = true := by
  intro ops
  induction ops with
  | nil => intro m a _ _; rfl
  | cons op ops ih =>
    intro m a h hpol
    obtain ⟨a', hinv', hfr, hacc⟩ := step_hinv h op
    rcases hacc with hacc | ⟨_, hng⟩
    · rw [runM, runA_cons _ _ _ _ _ _ _ hacc]
      exact ih _ _ hinv' (polGrows_congr hfr.polf hpol)
    · exact absurd hpol hng

/-- **C04 + C05.** Every finite history of `next`, owned `next`, `read_record_set`,
`read_record_set_exact`, iteration over live record sets, `position` and `seek` to record positions,
on every input, with every capacity ≥ 3, every policy that never refuses a request with a positive
capacity, every failure-free read script and chunk limit, is accepted by the abstract reader A:
the records of S are delivered in order exactly once from the last seek target onwards, with the
content they have when read singly; sets hold exactly their batch; positions are S's. -/
theorem fasta_history_accepted (inp : List UInt8) (cap : Nat) (hcap : 3 ≤ cap) (pol : Pol)
    (hpol : PolGrows pol) (script : List ReadEv) (hs : NoFail script) (chunk : Nat)
    (ops : List Op) :
    runA (items inp) aInit ops (runM (mkMSt inp cap pol script chunk) ops) = true :=
  runM_accepted ops _ _ (hinv_init inp cap hcap pol hpol.wfPos script hs chunk) hpol

/-- a history without seeks -/
def NoSeek (ops : List Op) : Prop := ∀ op ∈ ops, ∀ i, op ≠ Op.seekRec i

theorem fasta_history_accepted_noseek (inp : List UInt8) (cap : Nat) (hcap : 3 ≤ cap) (pol : Pol)
    (hpol : PolGrows pol) (script : List ReadEv) (hs : NoFail script) (chunk : Nat)
    (ops : List Op) (_h : NoSeek ops) :
    runA (items inp) aInit ops (runM (mkMSt inp cap pol script chunk) ops) = true :=
  fasta_history_accepted inp cap hcap pol hpol script hs chunk ops

theorem fasta_history_accepted_std (inp : List UInt8) (cap : Nat) (hcap : 3 ≤ cap)
    (script : List ReadEv) (hs : NoFail script) (chunk : Nat) (ops : List Op) :
    runA (items inp) aInit ops (runM (mkMSt inp cap PolDesc.std.toPol script chunk) ops) = true :=
  fasta_history_accepted inp cap hcap _ polGrows_std script hs chunk ops

/-- with a policy that may refuse (`PolWfPos`): every history is accepted by A up to the first
`BufferLimit` error, and that error is the only possible deviation -/
theorem runM_accepted_until_refusal {inp : List UInt8} : ∀ (ops : List Op) (m : MSt) (a : AState),
    HInv inp m a →
    ∃ j, j ≤ ops.length ∧ runA (items inp) a (ops.take j) ((runM m ops).take j) = true ∧
      (j < ops.length → (runM m ops)[j]? = some (.error .bufferLimit)) := by
  intro ops
  induction ops with
  | nil => intro m a _; exact ⟨0, Nat.le_refl _, rfl, fun h => absurd h (Nat.lt_irrefl _)⟩
  | cons op ops ih =>
    intro m a h
    obtain ⟨a', hinv', _, hacc⟩ := step_hinv h op
    rcases hacc with hacc | ⟨hobs, _⟩
    · obtain ⟨j, hj, hrun, hlim⟩ := ih _ _ hinv'
      refine ⟨j + 1, by simp only [List.length_cons]; omega, ?_, ?_⟩
      · rw [runM, List.take_succ_cons, List.take_succ_cons, runA_cons _ _ _ _ _ _ _ hacc]
        exact hrun
      · intro hlt
        rw [runM, List.getElem?_cons_succ]
        exact hlim (by simp only [List.length_cons] at hlt; omega)
    · refine ⟨0, Nat.zero_le _, rfl, fun _ => ?_⟩
      rw [runM, List.getElem?_cons_zero, hobs]

theorem fasta_history_accepted_until_refusal (inp : List UInt8) (cap : Nat) (hcap : 3 ≤ cap)
    (pol : Pol) (hpol : PolWfPos pol) (script : List ReadEv) (hs : NoFail script) (chunk : Nat)
    (ops : List Op) :
    ∃ j, j ≤ ops.length ∧
      runA (items inp) aInit (ops.take j) ((runM (mkMSt inp cap pol script chunk) ops).take j) = true ∧
      (j < ops.length →
        (runM (mkMSt inp cap pol script chunk) ops)[j]? = some (.error .bufferLimit)) :=
  runM_accepted_until_refusal ops _ _ (hinv_init inp cap hcap pol hpol script hs chunk)

end SeqIo.Fasta.Hist
