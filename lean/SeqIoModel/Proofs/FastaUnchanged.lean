import SeqIoModel.Proofs.Unchanged
import SeqIoModel.Proofs.FastaStream

open SeqIo SeqIo.Spec SeqIo.WriteProofs SeqIo.FillProofs SeqIo.Unchanged

namespace SeqIo.Fasta.Unch

/-! ## pure part: where the scan of a record puts its last line end -/

theorem length_joinLF_cons (a : List UInt8) (X : List (List UInt8)) (h : X ≠ []) :
    (joinLF (a :: X)).length = a.length + 1 + (joinLF X).length := by
  rw [joinLF_cons_ne _ _ h]
  simp only [List.length_append, List.length_cons]
  omega

/-- the final `seq_pos` of the scan of a record that starts at `t` (offset `i`): it is not empty, and
its last entry is `i` + the length of the first `seq_pos.len()` lines of `t` joined by LF -/
theorem scan_last (t : List UInt8) : ∀ i : Nat,
    1 ≤ (finalPos (scan t i [])).length ∧
    (finalPos (scan t i [])).getLast? =
      some (i + (joinLF ((splitLF t).take (finalPos (scan t i [])).length)).length) := by
  induction t using line_induction with
  | h0 a ha =>
    intro i
    rw [scan_noLF a ha, splitLF_noLF a ha]
    simp [finalPos, joinLF]
  | h1 a t' ha ih =>
    intro i
    cases t' with
    | nil =>
      rw [scan_line_end a ha, splitLF_append a [] ha]
      simp [finalPos, joinLF]
    | cons c r =>
      by_cases hc : c = GT
      · subst hc
        rw [scan_line_gt a ha, splitLF_append a _ ha]
        simp [finalPos, joinLF]
      · obtain ⟨h1, h2⟩ := ih (i + a.length + 1)
        have hsc : finalPos (scan (a ++ LF :: c :: r) i []) =
            [i + a.length] ++ finalPos (scan (c :: r) (i + a.length + 1) []) := by
          rw [scan_line_next a ha c hc r i [], scan_acc, List.nil_append, finalPos_acc]
        rw [hsc, splitLF_append a _ ha]
        generalize finalPos (scan (c :: r) (i + a.length + 1) []) = P at h1 h2
        have hne : (splitLF (c :: r)).take P.length ≠ [] := by
          intro e
          have := congrArg List.length e
          have hn := splitLF_ne_nil (c :: r)
          cases hs : splitLF (c :: r) with
          | nil => exact hn hs
          | cons _ _ =>
            rw [hs] at this
            simp only [List.length_take, List.length_cons, List.length_nil] at this
            omega
        refine ⟨by simp, ?_⟩
        rw [List.getLast?_append, h2, Option.some_or]
        simp only [List.length_append, List.length_singleton]
        rw [Nat.add_comm 1 P.length, List.take_succ_cons, length_joinLF_cons _ _ hne]
        congr 1
        omega

/-! ## M part: where the record returned by `next()` lies -/

/-- the record just returned starts at absolute offset `s`: the buffer is a window of the input, all
line ends of the record have been found (`RecDone`), the reader's byte offset is `s`, and the input
has a `>` there -/
structure RecAt (inp : List UInt8) (r : Reader) (s : Nat) : Prop where
  win : Win inp r
  done : RecDone inp r s
  byte : r.byte = s
  gt : (inp.drop s).head? = some GT

theorem nextCont_recAt {inp : List UInt8} {r : Reader} {s fuel : Nat} (hw : Win inp r)
    (he : Eof inp r) (hs : ScanSt inp r s) (hst : r.state = .parsing) (hbyte : r.byte = s)
    (hgt : (inp.drop s).head? = some GT) (hfuel : inp.length < fuel)
    (hok : (nextCont fuel r).2 = .ok true) : RecAt inp (nextCont fuel r).1 s := by
  obtain ⟨r', new, _, _, hcase⟩ := nextCont_spec hw he hs hst hfuel
  rcases hcase with ⟨hnc, _, hw', _, hd, _, hb', _⟩ | ⟨hnc, _, _⟩
  · rw [hnc]
    exact ⟨hw', hd, hb'.trans hbyte, hgt⟩
  · rw [hnc] at hok
    cases hok

/-- a `next()` call that returns a record leaves it where `RecAt` says -/
theorem next_recAt {inp : List UInt8} {r : Reader} {rest : List Obs} {fuel : Nat}
    (h : InvR inp r rest) (hfuel : inp.length < fuel) (hok : (next fuel r).2 = .ok true) :
    ∃ s, RecAt inp (next fuel r).1 s := by
  cases h with
  | finished hw hst =>
    rw [next_finished fuel r hst] at hok
    cases hok
  | parsing hw he hst hsl hsple hbyte hgt hrs =>
    rw [next_parsing fuel r hst hsl] at hok ⊢
    have hs1 : ScanSt inp (incRec r) (r.searchPos + base r) :=
      ⟨rfl, Nat.le_refl _, hsple, (by intro p hp; cases hp), rfl⟩
    exact ⟨_, nextCont_recAt (r := incRec r) ⟨hw.b, hw.pol⟩ he hs1 hst
      (by show r.byte + (r.searchPos - r.bp.start) = r.searchPos + base r; omega) hgt hfuel hok⟩
  | new hfb hst hsq =>
    have hcl := hfb.win.b.cur_le
    obtain ⟨r1, res, hfirst, hw1, hbp1, hsp1, hst1, hlog1, hpol1, hcap1, hpost⟩ :=
      firstByte_spec fuel r hfb (by omega)
    cases res with
    | none =>
      rw [next_new_none fuel r r1 hst hfirst] at hok
      cases hok
    | some x =>
      obtain ⟨ln, pos, c⟩ := x
      obtain ⟨he1, hbyte1, hpos, hhead, hskip, l, ls, hl, hc⟩ := hpost
      by_cases hgt : c = GT
      · subst hgt
        rw [next_new_gt fuel r r1 ln pos hst hfirst] at hok ⊢
        have hs2 : ScanSt inp (initRec r1 ln pos) (pos + base r1) := by
          refine ⟨rfl, Nat.le_succ _, hpos, ?_, ?_⟩
          · intro p hp
            replace hp : p ∈ r1.bp.seqPos := hp
            rw [hbp1, hsq] at hp
            cases hp
          · show scan (inp.drop (pos + 1 + base r1)) (pos + 1 + base r1)
              (r1.bp.seqPos.map (· + base r1)) = _
            rw [hbp1, hsq, List.map_nil, ← scan_skip_gt _ _ hhead, List.drop_drop]
            have e : pos + base r1 + 1 = pos + 1 + base r1 := by omega
            rw [e]
        exact ⟨_, nextCont_recAt (r := initRec r1 ln pos) ⟨hw1.b, hw1.pol⟩ he1 hs2 rfl
          (by show r1.byte + pos = pos + base r1; omega) hhead hfuel hok⟩
      · rw [next_new_other fuel r r1 ln pos c hst hgt hfirst] at hok
        cases hok

/-! ## what `write_unchanged` writes for a record lying as `RecAt` says -/

/-- a text followed by LF if it does not end with one: `write_unchanged`'s rule -/
def endLF (d : List UInt8) : List UInt8 := if d.getLast? = some LF then d else d ++ [LF]

theorem extent_ne_nil (inp : List UInt8) (s n : Nat) (hn : 0 < n)
    (hgt : (inp.drop s).head? = some GT) : extent inp s n ≠ [] := by
  obtain ⟨rest, h1, h2⟩ := extent_prefix inp s n hn
  intro e
  rw [e, List.nil_append] at h1
  rw [h1] at hgt
  rcases h2 with rfl | ⟨t, rfl⟩
  · simp at hgt
  · simp [LF, GT] at hgt

theorem recAt_writeUnchanged {inp : List UInt8} {r : Reader} {s : Nat} (h : RecAt inp r s) :
    1 ≤ r.bp.seqPos.length ∧
    writeUnchanged r.br.buf r.bp = some (endLF (extent inp s r.bp.seqPos.length)) := by
  obtain ⟨hw, hd, _, hgt⟩ := h
  obtain ⟨h1, h2⟩ := scan_last (inp.drop s) s
  have hlen : (finalPos (scan (inp.drop s) s [])).length = r.bp.seqPos.length := by
    rw [← hd.fin, List.length_map]
  rw [hlen] at h1 h2
  refine ⟨h1, ?_⟩
  have hE : joinLF ((splitLF (inp.drop s)).take r.bp.seqPos.length) =
      extent inp s r.bp.seqPos.length := rfl
  rw [hE] at h2
  generalize hEd : extent inp s r.bp.seqPos.length = E at h2
  have hEne : E ≠ [] := by rw [← hEd]; exact extent_ne_nil inp s _ h1 hgt
  obtain ⟨rest, hpre, _⟩ := extent_prefix inp s r.bp.seqPos.length h1
  rw [hEd] at hpre
  -- the last position, relative to the buffer
  rw [← hd.fin, List.getLast?_map] at h2
  cases hl : r.bp.seqPos.getLast? with
  | none => rw [hl] at h2; cases h2
  | some l =>
    rw [hl] at h2
    simp only [Option.map_some, Option.some.injEq] at h2
    have hlle : l ≤ r.br.buf.length := hd.pos_le l (List.mem_of_getLast? hl)
    have hs : s ≤ inp.length := by
      have : inp.drop s ≠ [] := by intro e; rw [e] at hgt; simp at hgt
      have h0 : (inp.drop s).length ≠ 0 := fun e => this (List.eq_nil_of_length_eq_zero e)
      simp only [List.length_drop] at h0
      omega
    have hslice : slice r.br.buf r.bp.start l = some E := by
      rw [slice_shift inp r.br.buf _ (base r) hw.b.base_le hw.b.win r.bp.start l hlle, hd.start_eq, h2]
      apply slice_mid inp (inp.take s) E rest s
      · rw [List.append_assoc, ← hpre, List.take_append_drop]
      · simp only [List.length_take]; omega
    obtain ⟨c, hc⟩ : ∃ c, E.getLast? = some c := by
      cases hx : E.getLast? with
      | none => exact absurd (List.getLast?_eq_none_iff.mp hx) hEne
      | some c => exact ⟨c, rfl⟩
    simp only [writeUnchanged, hl, hslice, hc, endLF]
    by_cases hcl : c = LF
    · simp [hcl]
    · simp [hcl]

/-! ## the record of S -/

theorem observe_record {r : Reader} {h : List UInt8} {ls : List (List UInt8)} {l b : Nat}
    (hobs : observe r (.ok true) = .record h ls l b) :
    allSome (seqLines r.br.buf r.bp) = some ls ∧ r.byte = b ∧ r.bp.seqPos ≠ [] := by
  simp only [observe] at hobs
  split at hobs
  · rename_i h' ls' l' b' _ hsl hpos
    simp only [Obs.record.injEq] at hobs
    obtain ⟨_, rfl, rfl, rfl⟩ := hobs
    unfold position at hpos
    split at hpos
    · cases hpos
    · rename_i hne
      simp only [Option.some.injEq, Prod.mk.injEq] at hpos
      refine ⟨hsl, hpos.2, ?_⟩
      intro e
      rw [e] at hne
      exact hne rfl
  · cases hobs

theorem allSome_length {α : Type} : ∀ (xs : List (Option α)) (ys : List α),
    allSome xs = some ys → ys.length = xs.length := by
  intro xs
  induction xs with
  | nil => intro ys h; simp only [allSome, Option.some.injEq] at h; subst h; rfl
  | cons a xs ih =>
    intro ys h
    cases a with
    | none => simp [allSome] at h
    | some v =>
      simp only [allSome, Option.map_eq_some_iff] at h
      obtain ⟨zs, hz, rfl⟩ := h
      simp [ih zs hz]

theorem length_seqLines (buf : List UInt8) (bp : BufPos) :
    (seqLines buf bp).length = bp.seqPos.length - 1 := by
  unfold seqLines
  simp only [List.length_map, List.length_zip, List.length_drop]
  omega

theorem splitLF_eq_lines_append (t : List UInt8) : ∃ tl, splitLF t = lines t ++ tl := by
  unfold lines
  simp only
  split
  · rename_i hl
    obtain ⟨ys, hys⟩ := List.getLast?_eq_some_iff.mp hl
    exact ⟨[[]], by rw [hys]; simp⟩
  · exact ⟨[], by simp⟩

theorem recBody_prefix (Ls : List (List UInt8)) : ∃ tl, Ls = recBody Ls ++ tl := by
  induction Ls with
  | nil => exact ⟨[], rfl⟩
  | cons l Ls ih =>
    unfold recBody
    split
    · exact ⟨l :: Ls, rfl⟩
    · obtain ⟨tl, htl⟩ := ih
      exact ⟨tl, by rw [List.cons_append, ← htl]⟩

/-- the lines of a record are the first pieces of the text from its start on -/
theorem take_split_recBody (t l0 : List UInt8) (Ls : List (List UInt8)) (h : lines t = l0 :: Ls) :
    (splitLF t).take (1 + (recBody Ls).length) = l0 :: recBody Ls := by
  obtain ⟨tl, htl⟩ := splitLF_eq_lines_append t
  obtain ⟨tl', htl'⟩ := recBody_prefix Ls
  have e : splitLF t = (l0 :: recBody Ls) ++ (tl' ++ tl) := by
    rw [htl, h, List.cons_append, List.cons_append, ← List.append_assoc, ← htl']
  rw [e]
  apply List.take_left'
  simp only [List.length_cons]
  omega

/-- joined LF-free lines end with LF only if the last of them is empty -/
theorem joinLF_getLast_LF (X : List (List UInt8)) (hno : ∀ l ∈ X, LF ∉ l)
    (h : (joinLF X).getLast? = some LF) : X.getLast? = some [] := by
  rcases List.eq_nil_or_concat X with rfl | ⟨Y, z, rfl⟩
  · simp [joinLF] at h
  · rw [List.concat_eq_append] at h hno ⊢
    rw [joinLF_append_ne Y [z] (by simp)] at h
    simp only [joinLF] at h
    cases z with
    | nil => simp
    | cons a z' =>
      rw [List.getLast?_append] at h
      cases hv : (a :: z').getLast? with
      | none => simp at hv
      | some v =>
        rw [hv, Option.some_or] at h
        have hmem := List.mem_of_getLast? hv
        rw [Option.some.inj h] at hmem
        exact absurd hmem (hno (a :: z') (by simp))

/-- the record of S that a reader lying as `RecAt` says shows to the caller: its byte offset, the
number of its lines, and when its extent ends with LF -/
theorem recAt_spec {inp : List UInt8} {r : Reader} {s : Nat} {x : FaRec} (h : RecAt inp r s)
    (hobs : observe r (.ok true) = toObs x) :
    x.byte = s ∧ 1 + x.seqLines.length = r.bp.seqPos.length ∧
    (x.seqLines.getLast? ≠ some [] → (rawFa inp x).getLast? ≠ some LF) := by
  unfold toObs at hobs
  obtain ⟨hsl, hb, hne⟩ := observe_record hobs
  have hxb : x.byte = s := by rw [← hb]; exact h.byte
  have hlen : 1 + x.seqLines.length = r.bp.seqPos.length := by
    rw [allSome_length _ _ hsl, length_seqLines]
    have : r.bp.seqPos.length ≠ 0 := fun e => hne (List.eq_nil_of_length_eq_zero e)
    omega
  refine ⟨hxb, hlen, ?_⟩
  intro hlast hraw
  have hgt := h.gt
  have hne' : inp.drop s ≠ [] := by intro e; rw [e] at hgt; simp at hgt
  have hs : s ≤ inp.length := by
    have h0 : (inp.drop s).length ≠ 0 := fun e => hne' (List.eq_nil_of_length_eq_zero e)
    simp only [List.length_drop] at h0
    omega
  obtain ⟨l0, Ls, ps, post, hlines, hpost, hh, hfin, hsegs, hpl, _⟩ :=
    scan_lines (inp.drop s) hne' inp (inp.take s) s (List.take_append_drop s inp).symm
      (by simp only [List.length_take]; omega)
  have hx : x.seqLines = (recBody Ls).map trimCr := by
    have e := seqLines_shift inp r.br.buf _ (base r) h.win.b.base_le h.win.b.win r.bp h.done.pos_le
    have hbp : (⟨r.bp.start + base r, r.bp.seqPos.map (· + base r)⟩ : BufPos) =
        ⟨s, (s + l0.length) :: ps⟩ := by
      rw [h.done.start_eq, h.done.fin, hfin]
    rw [e, hbp, seqLines_cons, hsegs] at hsl
    exact (Option.some.inj hsl).symm
  have hraw' : rawFa inp x = joinLF (l0 :: recBody Ls) := by
    unfold rawFa extent
    rw [hxb, hx, List.length_map, take_split_recBody _ _ _ hlines]
  rw [hraw'] at hraw
  have hno : ∀ l ∈ l0 :: recBody Ls, LF ∉ l := by
    intro l hl
    apply Unchanged.lines_noLF (inp.drop s)
    rw [hlines]
    obtain ⟨tl, htl⟩ := recBody_prefix Ls
    rw [htl]
    simp only [List.mem_cons, List.mem_append] at hl ⊢
    rcases hl with hl | hl
    · exact Or.inl hl
    · exact Or.inr (Or.inl hl)
  have hl0 := hh GT (by simp [GT, LF]) hgt
  have hemp := joinLF_getLast_LF _ hno hraw
  cases hB : recBody Ls with
  | nil =>
    rw [hB] at hemp
    simp only [List.getLast?_singleton, Option.some.injEq] at hemp
    rw [hemp] at hl0
    simp at hl0
  | cons b B =>
    rw [hB, List.getLast?_cons_cons] at hemp
    apply hlast
    rw [hx, hB, List.getLast?_map, hemp]
    rfl

/-! ## Theorem 1: `write_unchanged` after `next()` -/

/-- what M's `write_unchanged` emits for S's record `x` of `inp`: the record's extent (header line
and sequence lines with their own line endings, without the terminator of the last line), followed
by LF *unless the extent already ends with LF* – which happens exactly when the record's last line
is an empty line (`>a⏎⏎`): then the blank line's LF is taken for the record's terminator -/
def faEmit (inp : List UInt8) (x : FaRec) : List UInt8 := endLF (rawFa inp x)

theorem faEmit_of_ne (inp : List UInt8) (x : FaRec) (h : (rawFa inp x).getLast? ≠ some LF) :
    faEmit inp x = rawFa inp x ++ [LF] := by
  simp only [faEmit, endLF, h, if_false]

/-- **C11, FASTA, M level.** After a `next()` call (from any reachable state, any buffer capacity,
refill pattern and growth policy) that returns a record, the reader shows S's next record `x`, and
`write_unchanged` of that record succeeds and writes `faEmit inp x`: the raw extent of `x` in the
input followed by LF if the extent does not end with LF.  If the last sequence line of `x` is not
empty (in particular if `x` has no sequence line at all), that is `rawFa inp x ++ [LF]`. -/
theorem fasta_unchanged_bytes (inp : List UInt8) (fuel : Nat) (r : Reader) (x : FaRec)
    (rest : List FaRec) (hg : InvR inp r ((x :: rest).map toObs))
    (hfuel : r.br.src.inp.length < fuel) (hok : (next fuel r).2 = .ok true) :
    InvR inp (next fuel r).1 (rest.map toObs) ∧ (next fuel r).1.byte = x.byte ∧
    writeUnchanged (next fuel r).1.br.buf (next fuel r).1.bp = some (faEmit inp x) ∧
    (x.seqLines.getLast? ≠ some [] →
      writeUnchanged (next fuel r).1.br.buf (next fuel r).1.bp = some (rawFa inp x ++ [LF])) := by
  rw [hg.win.b.inp_eq] at hfuel
  obtain ⟨r', res, new, hn, _, _, hcase⟩ := next_step hg hfuel
  obtain ⟨s, hat⟩ := next_recAt hg hfuel hok
  rw [hn] at hok hat ⊢
  simp only at hok hat ⊢
  subst hok
  rcases hcase with hgood | href
  · obtain ⟨_, _, hobs, hinv⟩ := hgood
    simp only [List.map_cons, List.headD_cons, List.tail_cons] at hobs hinv
    obtain ⟨hxb, hlen, hlf⟩ := recAt_spec hat hobs
    obtain ⟨_, hwu⟩ := recAt_writeUnchanged hat
    have he : extent inp s r'.bp.seqPos.length = rawFa inp x := by
      unfold rawFa
      rw [hxb, hlen]
    rw [he] at hwu
    refine ⟨hinv, by rw [hat.byte, hxb], hwu, ?_⟩
    intro hlast
    rw [hwu, ← faEmit_of_ne inp x (hlf hlast)]
    rfl
  · cases href.1

/-! ### the whole stream -/

/-- `k` times: `next()`, then `write_unchanged` of the record if one was returned; the output is
collected.  `none` = a `write_unchanged` panicked, or a `next()` call reported an error, panicked or
ran out of fuel. -/
def runWrites : Nat → Reader → Option (List UInt8)
  | 0, _ => some []
  | k + 1, r =>
    let x := next (opFuel r.br.src.inp.length r.br.src.script.length) r
    match x.2 with
    | .ok true =>
      match writeUnchanged x.1.br.buf x.1.bp, runWrites k x.1 with
      | some a, some b => some (a ++ b)
      | _, _ => none
    | .ok false => runWrites k x.1
    | _ => none

theorem observe_eq_record {r : Reader} {res : Res Bool} {h : List UInt8} {ls : List (List UInt8)}
    {l b : Nat} (hobs : observe r res = .record h ls l b) : res = .ok true := by
  cases res with
  | ok v =>
    cases v with
    | true => rfl
    | false => simp [observe] at hobs
  | err e => simp [observe] at hobs
  | panic => simp [observe] at hobs
  | fuel => simp [observe] at hobs

theorem observe_eq_none {r : Reader} {res : Res Bool} (hobs : observe r res = .none) :
    res = .ok false := by
  cases res with
  | ok v =>
    cases v with
    | false => rfl
    | true =>
      simp only [observe] at hobs
      split at hobs <;> cases hobs
  | err e => simp [observe] at hobs
  | panic => simp [observe] at hobs
  | fuel => simp [observe] at hobs

/-- the loop writes `faEmit` of S's records; for records whose last sequence line is not empty that
is the extent followed by LF -/
theorem runWrites_spec (inp : List UInt8) (k : Nat) :
    ∀ (r : Reader) (recs : List FaRec), InvR inp r (recs.map toObs) → PolGrows r.pol →
      runWrites k r = some ((recs.take k).flatMap (faEmit inp)) ∧
      ((∀ x ∈ recs, x.seqLines.getLast? ≠ some []) →
        runWrites k r = some ((recs.take k).flatMap (faOut inp))) := by
  induction k with
  | zero => intro r recs _ _; simp [runWrites]
  | succ k ih =>
    intro r recs hg hpol
    have hinp : r.br.src.inp = inp := hg.win.b.inp_eq
    have hfuel : r.br.src.inp.length < opFuel r.br.src.inp.length r.br.src.script.length :=
      opFuel_gt _ _
    obtain ⟨r', res, new, hn, hgr, _, hcase⟩ :=
      next_step (fuel := opFuel r.br.src.inp.length r.br.src.script.length) hg
        (by rw [← hinp]; exact hfuel)
    rcases hcase with hgood | href
    · have hpol' : PolGrows r'.pol := polGrows_congr hgr.polf hpol
      cases recs with
      | nil =>
        have hres : res = .ok false := observe_eq_none hgood.2.2.1
        subst hres
        have hinv : InvR inp r' (([] : List FaRec).map toObs) := hgood.2.2.2
        have hrun : runWrites (k + 1) r = runWrites k r' := by
          simp only [runWrites, hn]
        rw [hrun]
        have := ih r' [] hinv hpol'
        simpa only [List.take_nil] using this
      | cons x rest =>
        have hres : res = .ok true := observe_eq_record (r := r') hgood.2.2.1
        subst hres
        have hok : (next (opFuel r.br.src.inp.length r.br.src.script.length) r).2 = .ok true := by
          rw [hn]
        obtain ⟨hinv, _, hwu, hwu'⟩ := fasta_unchanged_bytes inp _ r x rest hg hfuel hok
        rw [hn] at hinv hwu hwu'
        simp only at hinv hwu hwu'
        obtain ⟨ih1, ih2⟩ := ih r' rest hinv hpol'
        have hrun : runWrites (k + 1) r =
            match writeUnchanged r'.br.buf r'.bp, runWrites k r' with
            | some a, some b => some (a ++ b)
            | _, _ => none := by
          simp only [runWrites, hn]
        refine ⟨?_, ?_⟩
        · rw [hrun, hwu, ih1]
          simp only [List.take_succ_cons, List.flatMap_cons]
        · intro hall
          rw [hrun, hwu' (hall x (by simp)), ih2 (fun y hy => hall y (by simp [hy]))]
          simp only [List.take_succ_cons, List.flatMap_cons, faOut]
    · exact absurd hpol href.not_grows

theorem specObs_records {inp : List UInt8} {rs : List FaRec} (h : Spec.fasta inp = .records rs) :
    specObs inp = rs.map toObs := by
  unfold specObs
  rw [h]
  rfl

/-- **C11, FASTA, M level, the whole stream.** `next()` / `write_unchanged` in a loop writes
`faEmit` of S's records in order, for every input that S accepts, capacity ≥ 3, growing policy, read
script without failing events and chunk limit. -/
theorem fasta_write_unchanged_stream (inp : List UInt8) (rs : List FaRec)
    (hrs : Spec.fasta inp = .records rs) (cap : Nat) (hcap : 3 ≤ cap) (pol : Pol)
    (hpol : PolGrows pol) (script : List ReadEv) (hs : NoFail script) (chunk : Nat) (k : Nat) :
    runWrites k (mkReader inp cap pol script chunk) = some ((rs.take k).flatMap (faEmit inp)) ∧
    ((∀ x ∈ rs, x.seqLines.getLast? ≠ some []) →
      runWrites k (mkReader inp cap pol script chunk) = some ((rs.take k).flatMap (faOut inp))) := by
  have hinv := invR_mkReader inp cap hcap pol hpol.wfPos script hs chunk
  rw [specObs_records hrs] at hinv
  exact runWrites_spec inp k _ rs hinv hpol

/-- **C11, FASTA, end to end.** Reading a well-formed file (any mixture of LF and CRLF line ends,
with or without the terminator of the last line) with the FASTA machine at any capacity ≥ 3, growing
policy, failure-free read script and chunking, and writing every record unchanged reproduces the file
byte for byte, with an LF added if the last line had no terminator. -/
theorem fasta_write_unchanged_file (recs : List (List UInt8 × List (List UInt8)))
    (hok : Recode.FaOk recs) (terms : Nat → Recode.Term) (final : Bool) (cap : Nat) (hcap : 3 ≤ cap)
    (pol : Pol) (hpol : PolGrows pol) (script : List ReadEv) (hs : NoFail script) (chunk : Nat)
    (k : Nat) (hk : recs.length ≤ k) :
    runWrites k (mkReader (Recode.encodeFasta recs terms final) cap pol script chunk) =
      some (Recode.encodeFasta recs terms final ++ (if final || recs.isEmpty then [] else [LF])) := by
  obtain ⟨rs, h1, h2⟩ := fasta_unchanged_concat recs hok terms final
  obtain ⟨rs', h1', h3⟩ := Recode.fasta_recode_content recs hok terms final
  rw [h1] at h1'
  cases h1'
  have hlen : rs.length = recs.length := by
    have := congrArg List.length h3
    rw [List.length_map] at this
    exact this
  have hne : ∀ x ∈ rs, x.seqLines.getLast? ≠ some [] := by
    intro x hx hl
    have hmem : (x.head, x.seqLines) ∈ recs := by
      rw [← h3]
      exact List.mem_map_of_mem (f := fun r : FaRec => (r.head, r.seqLines)) hx
    exact ((hok _ hmem).2 [] (List.mem_of_getLast? hl)).2 rfl
  rw [(fasta_write_unchanged_stream _ rs h1 cap hcap pol hpol script hs chunk k).2 hne,
    List.take_of_length_le (by omega), h2]

/-! ## the corner: a record whose last line is empty

`rawFa inp x ++ [LF]` is **not** what M emits in general.  In `>a⏎⏎>b⏎` the first record of S has
one (empty) sequence line; its extent is `>a⏎`, which already ends with LF, so `write_unchanged`
adds nothing: M emits `>a⏎`, not `>a⏎⏎`, and the blank line is lost from the copy. -/

/-- `>a⏎⏎>b⏎`: S's records, the extent of the first one, and what M's `write_unchanged` emits for it
after the first `next()` (capacity 64, `StdPolicy`) -/
example :
    let inp : List UInt8 := [62, 97, 10, 10, 62, 98, 10]
    let x0 : FaRec := { byte := 0, line := 1, head := [97], seqLines := [[]] }
    let x1 : FaRec := { byte := 4, line := 3, head := [98], seqLines := [] }
    let y := next 100 (mkReader inp 64 PolDesc.std.toPol)
    Spec.fasta inp = .records [x0, x1] ∧
    rawFa inp x0 = [62, 97, 10] ∧
    y.2 = .ok true ∧
    writeUnchanged y.1.br.buf y.1.bp = some [62, 97, 10] ∧
    faEmit inp x0 = [62, 97, 10] ∧
    rawFa inp x0 ++ [LF] = [62, 97, 10, 10] := by decide

/-- the whole loop on `>a⏎⏎>b⏎` writes `>a⏎>b⏎`: the blank line is dropped (also with capacity 3) -/
example :
    runWrites 3 (mkReader [62, 97, 10, 10, 62, 98, 10] 64 PolDesc.std.toPol) =
      some [62, 97, 10, 62, 98, 10] ∧
    runWrites 3 (mkReader [62, 97, 10, 10, 62, 98, 10] 3 PolDesc.std.toPol [] 2) =
      some [62, 97, 10, 62, 98, 10] := by decide

/-- a blank line at the end of the input, `>a⏎AC⏎⏎`: S's record has the lines `AC` and the empty
line, its extent is `>a⏎AC⏎`, and M emits just that -/
example :
    let inp : List UInt8 := [62, 97, 10, 65, 67, 10, 10]
    let x0 : FaRec := { byte := 0, line := 1, head := [97], seqLines := [[65, 67], []] }
    Spec.fasta inp = .records [x0] ∧
    rawFa inp x0 = [62, 97, 10, 65, 67, 10] ∧
    runWrites 2 (mkReader inp 64 PolDesc.std.toPol) = some [62, 97, 10, 65, 67, 10] := by decide

/-- the hypothesis "the last sequence line is not empty" of Theorem 1 is sufficient, not necessary:
in `>a⏎␍⏎>b` the last line of the first record is a lone CR, which S trims to the empty line, but the
extent `>a⏎␍` does not end with LF and M emits `>a⏎␍⏎` = `rawFa ++ [LF]`.  A record without
sequence lines at the end of the input (`>b`) gets its LF as well. -/
example :
    let inp : List UInt8 := [62, 97, 10, 13, 10, 62, 98]
    let x0 : FaRec := { byte := 0, line := 1, head := [97], seqLines := [[]] }
    let x1 : FaRec := { byte := 5, line := 3, head := [98], seqLines := [] }
    Spec.fasta inp = .records [x0, x1] ∧
    rawFa inp x0 = [62, 97, 10, 13] ∧ rawFa inp x1 = [62, 98] ∧
    runWrites 3 (mkReader inp 64 PolDesc.std.toPol) = some [62, 97, 10, 13, 10, 62, 98, 10] := by
  decide

/-! ## the hypotheses of `fasta_write_unchanged_file` are satisfiable -/

/-- two records, `a` with the lines `AC`, `G` and `b c` with the line `T` -/
def exRecs : List (List UInt8 × List (List UInt8)) :=
  [([97], [[65, 67], [71]]), ([98, 32, 99], [[84]])]

/-- lines alternately ended by CRLF and LF -/
def exTerms (i : Nat) : Recode.Term := if i % 2 = 0 then .crlf else .lf

theorem exRecs_ok : Recode.FaOk exRecs := by
  intro p hp
  simp only [exRecs, List.mem_cons, List.not_mem_nil, or_false] at hp
  rcases hp with rfl | rfl <;> decide

/-- `>a␍⏎AC⏎G␍⏎>b c⏎T` (no final terminator) -/
example : Recode.encodeFasta exRecs exTerms false =
    [62, 97, 13, 10, 65, 67, 10, 71, 13, 10, 62, 98, 32, 99, 10, 84] := by decide

/-- capacity 3, `StdPolicy`, a script that first hands out 3 bytes, is interrupted, then hands out 1
byte, then at most 2 bytes per call: all hypotheses hold, and the theorem gives the copy -/
example :
    runWrites 2 (mkReader (Recode.encodeFasta exRecs exTerms false) 3 PolDesc.std.toPol
        [.data 3, .intr, .data 1] 2) =
      some (Recode.encodeFasta exRecs exTerms false ++ [LF]) :=
  fasta_write_unchanged_file exRecs exRecs_ok exTerms false 3 (Nat.le_refl 3) PolDesc.std.toPol
    polGrows_std [.data 3, .intr, .data 1]
    (noFail_append (noFail_append (noFail_data 3) noFail_intr) (noFail_data 1)) 2 2 (Nat.le_refl 2)

/-- the same instance, evaluated -/
example :
    runWrites 2 (mkReader [62, 97, 13, 10, 65, 67, 10, 71, 13, 10, 62, 98, 32, 99, 10, 84] 3
        PolDesc.std.toPol [.data 3, .intr, .data 1] 2) =
      some [62, 97, 13, 10, 65, 67, 10, 71, 13, 10, 62, 98, 32, 99, 10, 84, 10] := by decide

/-- Theorem 1 on the same input: the initial state satisfies the invariant with S's two records -/
example :
    let inp : List UInt8 := [62, 97, 13, 10, 65, 67, 10, 71, 13, 10, 62, 98, 32, 99, 10, 84]
    let x0 : FaRec := { byte := 0, line := 1, head := [97], seqLines := [[65, 67], [71]] }
    let x1 : FaRec := { byte := 10, line := 4, head := [98, 32, 99], seqLines := [[84]] }
    InvR inp (mkReader inp 3 PolDesc.std.toPol [.data 3, .intr, .data 1] 2) ([x0, x1].map toObs) ∧
    rawFa inp x0 = [62, 97, 13, 10, 65, 67, 10, 71, 13] ∧
    rawFa inp x1 = [62, 98, 32, 99, 10, 84] := by
  intro inp x0 x1
  refine ⟨?_, by decide, by decide⟩
  have h := invR_mkReader inp 3 (Nat.le_refl 3) PolDesc.std.toPol polGrows_std.wfPos
    [.data 3, .intr, .data 1]
    (noFail_append (noFail_append (noFail_data 3) noFail_intr) (noFail_data 1)) 2
  have e : specObs inp = [x0, x1].map toObs := by decide
  rw [e] at h
  exact h

end SeqIo.Fasta.Unch
