import SeqIoModel.Proofs.FastaHistoryFOps
/-!
# FASTA histories under I/O failures, part 3: record set reads
-/
open SeqIo SeqIo.FillProofs SeqIo.Spec

namespace SeqIo.Fasta.Hist

/-- the first `npos` stored positions are records of S, located in a window with base `B` and
`len` bytes -/
structure AccF (inp : List UInt8) (B len : Nat) (rs : RecordSet) : Prop where
  npos_le : rs.npos ≤ rs.positions.length
  recs : ∀ i, i < rs.npos → ∃ (bp : BufPos) (j : Nat) (rc : FaRec), rs.positions[i]? = some bp ∧
    (recsOf inp)[j]? = some rc ∧ RecAt inp B len bp rc.byte

theorem AccF.mono {inp : List UInt8} {B len len' : Nat} {rs : RecordSet}
    (h : AccF inp B len rs) (hl : len ≤ len') : AccF inp B len' rs :=
  ⟨h.npos_le, fun i hi => by
    obtain ⟨bp, j, rc, h1, h2, h3⟩ := h.recs i hi
    exact ⟨bp, j, rc, h1, h2, h3.mono hl⟩⟩

theorem AccF.empty {inp : List UInt8} {B B' len len' : Nat} {rs : RecordSet}
    (h : AccF inp B len rs) (h0 : rs.npos = 0) : AccF inp B' len' rs :=
  ⟨h.npos_le, fun i hi => by omega⟩

theorem AccF.store {inp : List UInt8} {B len : Nat} {rs : RecordSet}
    (h : AccF inp B len rs) (bp : BufPos) (j : Nat) (rc : FaRec)
    (hrc : (recsOf inp)[j]? = some rc) (hat : RecAt inp B len bp rc.byte) :
    AccF inp B len (rs.store bp) := by
  refine ⟨store_len rs bp h.npos_le, ?_⟩
  intro i hi
  rw [store_npos] at hi
  by_cases hlt : i < rs.npos
  · obtain ⟨bp', j', rc', h1, h2, h3⟩ := h.recs i hlt
    exact ⟨bp', j', rc', by rw [store_get_old rs bp i hlt h.npos_le]; exact h1, h2, h3⟩
  · have : i = rs.npos := by omega
    subst this
    exact ⟨bp, j, rc, store_get_new rs bp h.npos_le, hrc, hat⟩

/-- a reader between two iterations of the loop -/
def LoopRdF (inp : List UInt8) (r : Reader) : Prop :=
  (ReadyF inp r ∧ ((r.state = .positioned ∧ Eof inp r) ∨ r.state = .incomplete)) ∨
  (WinR inp r ∧ r.state = .finished ∧ r.byte = r.bp.start + base r)

theorem LoopRdF.inv {inp : List UInt8} {r : Reader} (h : LoopRdF inp r) :
    WRInv inp r ∧ r.state ≠ .new := by
  rcases h with ⟨hr, ⟨hst, he⟩ | hst⟩ | ⟨hw, hst, hb⟩
  · exact ⟨WRInv.positioned hr he hst, by rw [hst]; intro h; cases h⟩
  · exact ⟨WRInv.incomplete hr hst, by rw [hst]; intro h; cases h⟩
  · exact ⟨WRInv.finished hw hb hst, by rw [hst]; intro h; cases h⟩

structure LoopInvF (inp : List UInt8) (r : Reader) (rs : RecordSet) (isNew : Bool) : Prop where
  acc : AccF inp (base r) r.br.buf.length rs
  rd : LoopRdF inp r
  new : r.state = .incomplete → isNew = true → rs.npos = 0

/-- the outcomes of a record set read under failures -/
def SetOutF (inp : List UInt8) (r' : Reader) (rs' : RecordSet) (res : Res Bool) : Prop :=
  WRInv inp r' ∧ r'.state ≠ .new ∧
  ((res = .ok true ∧ AccF inp (base r') r'.br.buf.length rs') ∨ (IoOrLimit res ∧ rs'.npos = 0))

theorem store_stepF {inp : List UInt8} {r2 : Reader} {rs : RecordSet} {k : Nat}
    (hacc : AccF inp (base r2) r2.br.buf.length rs) (hw : WinR inp r2) (he : Eof inp r2)
    (hd : RecDone inp r2 r2.byte) (hp : Pt inp k r2.byte r2.line)
    (hst : r2.state = .positioned ∨ r2.state = .finished) (hsl : r2.bp.start ≤ r2.searchPos) :
    AccF inp (base (incRec r2)) (incRec r2).br.buf.length (rs.store r2.bp) ∧
    LoopRdF inp (incRec r2) := by
  obtain ⟨rc, hk, hby, _⟩ := pt_step hp
  obtain ⟨_, hcase⟩ := recDone_coreF hw he hd hp
  refine ⟨?_, ?_⟩
  · exact hacc.store r2.bp k rc hk (by rw [hby]; exact recAt_of_recDone hd)
  · rcases hcase with ⟨hpar, hnf⟩ | ⟨hfin, hbyte⟩
    · have hpos : r2.state = .positioned := by
        rcases hst with h | h
        · exact h
        · exact absurd h hnf
      left
      obtain ⟨k', hpt'⟩ := hpar.pt
      have hb : (incRec r2).byte = r2.searchPos + base r2 := by
        show r2.byte + (r2.searchPos - r2.bp.start) = _
        have := hpar.byte_eq; omega
      refine ⟨⟨⟨hw.b, hw.pol⟩, ?_, ⟨k', ?_⟩⟩, Or.inl ⟨hpos, he⟩⟩
      · rw [hb]
        exact ⟨rfl, Nat.le_refl _, hpar.sp_le, (by intro p hp; cases hp), rfl⟩
      · rw [hb]; exact hpt'
    · right
      refine ⟨⟨hw.b, hw.pol⟩, hfin, ?_⟩
      show r2.byte + (r2.searchPos - r2.bp.start) = r2.searchPos + base r2
      omega

/-- the part of a loop iteration after a record has been found -/
theorem after_storeF {inp : List UInt8} {fuel f : Nat} {n : Option Nat} {isNew : Bool}
    (ih : ∀ (r : Reader) (rs : RecordSet), LoopInvF inp r rs isNew → mu inp r < f →
      ∃ r' rs' res, setLoop f fuel n isNew r rs = (r', rs', res) ∧ r'.pol.f = r.pol.f ∧
        SetOutF inp r' rs' res)
    {r2 : Reader} {rs : RecordSet} {k : Nat}
    (hacc : AccF inp (base r2) r2.br.buf.length rs) (hw : WinR inp r2) (he : Eof inp r2)
    (hd : RecDone inp r2 r2.byte) (hp : Pt inp k r2.byte r2.line)
    (hst : r2.state = .positioned ∨ r2.state = .finished) (hsl : r2.bp.start ≤ r2.searchPos)
    (hmu : mu inp (incRec r2) < f) :
    ∃ r' rs' res,
      (match storeStep n r2 rs with
        | none => (r2, rs, Out.panic)
        | some (r, rs, true) => (r, rs, .ok true)
        | some (r, rs, false) => setLoop f fuel n isNew r rs) = (r', rs', res) ∧
      r'.pol.f = r2.pol.f ∧ SetOutF inp r' rs' res := by
  obtain ⟨hacc', hrd'⟩ := store_stepF hacc hw he hd hp hst hsl
  rw [storeStep_eq n r2 rs hsl]
  have hst3 : (incRec r2).state ≠ .incomplete := by
    show r2.state ≠ .incomplete
    rcases hst with h | h <;> rw [h] <;> intro h' <;> cases h'
  by_cases hn : n = some (rs.store r2.bp).npos
  · simp only [hn, decide_true]
    exact ⟨_, _, _, rfl, rfl, hrd'.inv.1, hrd'.inv.2, Or.inl ⟨rfl, hacc'⟩⟩
  · simp only [hn, decide_false]
    obtain ⟨r', rs', res, hloop, hpf, hout⟩ := ih _ _ ⟨hacc', hrd', fun h => absurd h hst3⟩ hmu
    exact ⟨r', rs', res, hloop, hpf, hout⟩

theorem abs_leF {inp : List UInt8} {r : Reader} (hw : WinR inp r) (hsp : r.searchPos ≤ r.br.buf.length) :
    r.searchPos + base r ≤ inp.length := by
  have := hw.b.base_add
  have := hw.b.cur_le
  unfold base
  omega

theorem mu_afterF {inp : List UInt8} {r r3 : Reader} (hnf : r.state ≠ .finished)
    (hw3 : WinR inp r3)
    (hadv : r3.state ≠ .finished → r3.searchPos ≤ r3.br.buf.length ∧
      r.searchPos + base r < r3.searchPos + base r3) :
    mu inp r3 < mu inp r := by
  by_cases h3 : r3.state = .finished
  · have := mu_pos (inp := inp) hnf
    unfold mu at *
    rw [if_pos h3]
    omega
  · obtain ⟨hsp3, _⟩ := hadv h3
    have := abs_leF hw3 hsp3
    unfold mu
    rw [if_neg h3, if_neg hnf]
    split <;> split <;> omega

theorem setLoopF {inp : List UInt8} {fuel : Nat} {n : Option Nat} (hfuel : inp.length < fuel) :
    ∀ (f : Nat) (isNew : Bool) (r : Reader) (rs : RecordSet), LoopInvF inp r rs isNew →
      mu inp r < f →
      ∃ r' rs' res, setLoop f fuel n isNew r rs = (r', rs', res) ∧ r'.pol.f = r.pol.f ∧
        SetOutF inp r' rs' res := by
  intro f
  induction f with
  | zero => intro _ _ _ _ h; omega
  | succ f ih =>
    intro isNew r rs hinv hmu
    rw [setLoop_unfold]
    rcases hinv.rd with ⟨hr, hst⟩ | ⟨hw, hfin, hb⟩
    · have hnf : r.state ≠ .finished := by
        rcases hst with ⟨h, _⟩ | h <;> rw [h] <;> intro h' <;> cases h'
      rw [if_neg hnf]
      have hcl := hr.win.b.cur_le
      obtain ⟨k, hpt⟩ := hr.pt
      have hmu_store : ∀ r2 : Reader, WinR inp r2 → RecDone inp r2 r2.byte → r2.byte = r.byte →
          mu inp (incRec r2) < f := by
        intro r2 hw2 hd2 hb2
        have : mu inp (incRec r2) < mu inp r := by
          apply mu_afterF hnf ⟨hw2.b, hw2.pol⟩
          intro hnf3
          have hnf2 : r2.state ≠ .finished := hnf3
          have hf : (scan (inp.drop r2.byte) r2.byte []).1 = true := by
            cases h : (scan (inp.drop r2.byte) r2.byte []).1 with
            | true => rfl
            | false => exact absurd (hd2.st.mpr h) hnf2
          obtain ⟨h1, h2, h3⟩ := hd2.nxt hf
          refine ⟨h3, ?_⟩
          show r.searchPos + base r < r2.searchPos + base r2
          rw [← h1, hb2]
          rw [hb2] at hf
          exact found_advance hr.scan hf
        omega
      rcases hst with ⟨hst, he⟩ | hst
      · have hni : r.state ≠ .incomplete := by rw [hst]; intro h; cases h
        rw [if_neg hni]
        obtain ⟨r1, fnd, hsearch, hbr1, hpol1, hlog1, hl1, hb1, hstart1, htrue, hfalse⟩ :=
          search_stepF hr.win.b he hr.scan hnf
        obtain ⟨hmono, _⟩ := search_mono hsearch hr.scan.sp_le
        have hw1 : WinR inp r1 := ⟨by rw [hbr1]; exact hr.win.b, by rw [hpol1]; exact hr.win.pol⟩
        have he1 : Eof inp r1 := by unfold Eof; rw [hbr1]; exact he
        have hbase1 : base r1 = base r := by unfold base; rw [hbr1]
        have hacc1 : AccF inp (base r1) r1.br.buf.length rs := by
          rw [hbase1, hbr1]; exact hinv.acc
        rw [hsearch]
        cases fnd with
        | true =>
          obtain ⟨hdone, hstate⟩ := htrue rfl
          simp only
          obtain ⟨r', rs', res, hres, hpf', hout⟩ := after_storeF (ih isNew) hacc1 hw1 he1
            (by rw [hb1]; exact hdone) (by rw [hb1, hl1]; exact hpt)
            (by rcases hstate with h | h
                · left; rw [h, hst]
                · right; exact h)
            (by have := hr.scan.start_le; omega)
            (hmu_store r1 hw1 (by rw [hb1]; exact hdone) hb1)
          exact ⟨r', rs', res, hres, by rw [hpf', hpol1], hout⟩
        | false =>
          obtain ⟨hs1, hst1, _, _⟩ := hfalse rfl
          simp only
          have hr1 : ReadyF inp r1 := ⟨hw1, by rw [hb1]; exact hs1, ⟨k, by rw [hb1, hl1]; exact hpt⟩⟩
          have hmu1 : mu inp r1 < f := by
            have : mu inp r1 < mu inp r := by
              have := abs_leF hw1 hs1.sp_le
              unfold mu
              rw [if_neg hnf, if_neg (by rw [hst1]; intro h; cases h), if_pos hst1, if_neg hni, hbase1]
              omega
            omega
          have hrd1 : LoopRdF inp r1 := Or.inl ⟨hr1, Or.inr hst1⟩
          by_cases h0 : rs.npos = 0
          · rw [if_pos h0]
            obtain ⟨r', rs', res, hres, hpf', hout⟩ :=
              ih isNew r1 rs ⟨hacc1, hrd1, fun _ _ => h0⟩ hmu1
            exact ⟨r', rs', res, hres, by rw [hpf', hpol1], hout⟩
          · rw [if_neg h0]
            cases hn : n with
            | some n' =>
              simp only
              by_cases hlt : rs.npos < n'
              · rw [if_pos hlt]
                obtain ⟨r', rs', res, hres, hpf', hout⟩ :=
                  ih false r1 rs ⟨hacc1, hrd1, fun _ h => (by cases h)⟩ hmu1
                rw [hn] at hres
                exact ⟨r', rs', res, hres, by rw [hpf', hpol1], hout⟩
              · rw [if_neg hlt]
                exact ⟨r1, rs, .ok true, rfl, by rw [hpol1], hrd1.inv.1, hrd1.inv.2, Or.inl ⟨rfl, hacc1⟩⟩
            | none =>
              simp only
              exact ⟨r1, rs, .ok true, rfl, by rw [hpol1], hrd1.inv.1, hrd1.inv.2, Or.inl ⟨rfl, hacc1⟩⟩
      · rw [if_pos hst]
        obtain ⟨r1, res1, hres1, hpf1, hw1, hl1, hb1, hmk1, hcase⟩ :=
          resumeF isNew fuel r r.byte hr.win hr.scan hst (by omega)
        rw [hres1]
        have hacc1 : AccF inp (base r1) r1.br.buf.length rs := by
          cases hnew : isNew with
          | true => exact hinv.acc.empty (hinv.new hst hnew)
          | false =>
            obtain ⟨h1, h2⟩ := hmk1 hnew
            rw [h1]
            exact hinv.acc.mono h2
        rcases hcase with ⟨hr1, he1, hd1, hst1, hsl1⟩ | ⟨hio, hs1, hst1⟩
        · subst hr1
          simp only
          rcases hst1 with hst1 | hst1
          · have hnf1 : r1.state ≠ .finished := by rw [hst1]; intro h; cases h
            rw [if_pos hnf1]
            have hw2 : WinR inp { r1 with state := .positioned } := ⟨hw1.b, hw1.pol⟩
            have hd1' : RecDone inp r1 r1.byte := by rw [hb1]; exact hd1
            have hd2 : RecDone inp { r1 with state := .positioned } r1.byte :=
              recDone_state hd1' hnf1 .positioned (by intro h; cases h)
            obtain ⟨r', rs', res, hres, hpf', hout⟩ :=
              after_storeF (r2 := { r1 with state := .positioned }) (ih isNew) hacc1 hw2 he1 hd2
                (by show Pt inp k r1.byte r1.line; rw [hb1, hl1]; exact hpt) (Or.inl rfl) hsl1
                (hmu_store _ hw2 hd2 hb1)
            exact ⟨r', rs', res, hres, by rw [hpf']; exact hpf1, hout⟩
          · have hnf1 : ¬ (r1.state ≠ .finished) := by rw [hst1]; simp
            rw [if_neg hnf1]
            obtain ⟨r', rs', res, hres, hpf', hout⟩ :=
              after_storeF (r2 := r1) (ih isNew) hacc1 hw1 he1 (by rw [hb1]; exact hd1)
                (by rw [hb1, hl1]; exact hpt) (Or.inr hst1) hsl1
                (hmu_store _ hw1 (by rw [hb1]; exact hd1) hb1)
            exact ⟨r', rs', res, hres, by rw [hpf', hpf1], hout⟩
        · have hinv1 : WRInv inp r1 :=
            WRInv.incomplete ⟨hw1, by rw [hb1]; exact hs1, ⟨k, by rw [hb1, hl1]; exact hpt⟩⟩ hst1
          have hnn : r1.state ≠ .new := by rw [hst1]; intro h; cases h
          rcases hio with h' | ⟨k', h'⟩
          · subst h'
            exact ⟨r1, { rs with npos := 0 }, _, rfl, hpf1, hinv1, hnn, Or.inr ⟨Or.inl rfl, rfl⟩⟩
          · subst h'
            exact ⟨r1, { rs with npos := 0 }, _, rfl, hpf1, hinv1, hnn, Or.inr ⟨Or.inr ⟨k', rfl⟩, rfl⟩⟩
    · rw [if_pos hfin]
      exact ⟨r, rs, .ok true, rfl, rfl, hinv.rd.inv.1, hinv.rd.inv.2, Or.inl ⟨rfl, hinv.acc⟩⟩

/-- one `read_record_set[_exact]` call from any state reachable under failures and refusals -/
theorem readSetF {inp : List UInt8} {r : Reader} {fuel : Nat} (h : WRInv inp r)
    (hfuel : 2 * inp.length + 2 < fuel) (rs : RecordSet) (n : Option Nat) :
    ∃ r' rs' res, readRecordSetExact fuel r rs n = (r', rs', res) ∧ r'.pol.f = r.pol.f ∧
      WRInv inp r' ∧
      ((res = .ok true ∧ rs'.buffer = r'.br.buf ∧ AccF inp (base r') r'.br.buf.length rs') ∨
       (res = .ok false ∧ rs' = rs) ∨
       ((∃ e, res = .err e) ∧ (rs' = rs ∨ rs'.npos = 0))) := by
  have hfuel1 : inp.length < fuel := by omega
  have hloop : ∀ r0 : Reader, ReadyF inp r0 →
      ((r0.state = .positioned ∧ Eof inp r0) ∨ r0.state = .incomplete) →
      ∃ r' rs' res, (match setLoop fuel fuel n true r0 { rs with npos := 0 } with
          | (r, rs, .ok true) => (r, { rs with buffer := r.br.buf }, Out.ok true)
          | x => x) = (r', rs', res) ∧ r'.pol.f = r0.pol.f ∧ WRInv inp r' ∧
        ((res = .ok true ∧ rs'.buffer = r'.br.buf ∧ AccF inp (base r') r'.br.buf.length rs') ∨
         (res = .ok false ∧ rs' = rs) ∨
         ((∃ e, res = .err e) ∧ (rs' = rs ∨ rs'.npos = 0))) := by
    intro r0 hr0 hst0
    have hinv : LoopInvF inp r0 { rs with npos := 0 } true :=
      ⟨⟨Nat.zero_le _, fun i hi => absurd hi (Nat.not_lt_zero _)⟩, Or.inl ⟨hr0, hst0⟩, fun _ _ => rfl⟩
    obtain ⟨r', rs', res, hres, hpf, hinv', _, hout⟩ :=
      setLoopF (n := n) hfuel1 fuel true r0 _ hinv (by have := mu_le inp r0; omega)
    rw [hres]
    rcases hout with ⟨hr, hacc⟩ | ⟨hio, h0⟩
    · subst hr
      exact ⟨r', { rs' with buffer := r'.br.buf }, .ok true, rfl, hpf, hinv',
        Or.inl ⟨rfl, rfl, ⟨hacc.npos_le, hacc.recs⟩⟩⟩
    · refine ⟨r', rs', res, ?_, hpf, hinv', Or.inr (Or.inr ⟨?_, Or.inr h0⟩)⟩
      · rcases hio with h' | ⟨k', h'⟩ <;> rw [h']
      · rcases hio with h' | ⟨k', h'⟩ <;> exact ⟨_, h'⟩
  cases h with
  | fresh hf hst =>
    obtain ⟨r1, res1, hinit, hpf1, hcase⟩ := initF hf hst hfuel1
    rcases hcase with ⟨hres, he1, hready⟩ | ⟨hres, hinv, _⟩ | ⟨⟨k, hres⟩, hinv, _⟩
    · subst hres
      obtain ⟨r', rs', res, hl, hpf, hinv, hout⟩ :=
        hloop { r1 with state := .positioned } (hready .positioned) (Or.inl ⟨rfl, he1⟩)
      exact ⟨r', rs', res, by simp only [readRecordSetExact, hst, hinit]; exact hl,
        by rw [hpf]; exact hpf1, hinv, hout⟩
    · rcases hres with h' | ⟨ln, c, h'⟩
      · subst h'
        exact ⟨r1, rs, .ok false, by simp only [readRecordSetExact, hst, hinit], hpf1, hinv,
          Or.inr (Or.inl ⟨rfl, rfl⟩)⟩
      · subst h'
        exact ⟨r1, rs, .err (.invalidStart ln c), by simp only [readRecordSetExact, hst, hinit], hpf1,
          hinv, Or.inr (Or.inr ⟨⟨_, rfl⟩, Or.inl rfl⟩)⟩
    · subst hres
      exact ⟨r1, rs, .err (.io k), by simp only [readRecordSetExact, hst, hinit], hpf1, hinv,
        Or.inr (Or.inr ⟨⟨_, rfl⟩, Or.inl rfl⟩)⟩
  | parsing hp hst =>
    have hready : ReadyF inp { incRec r with state := .positioned } := by
      obtain ⟨k, hpt⟩ := hp.pt
      have hb : (incRec r).byte = r.searchPos + base r := by
        show r.byte + (r.searchPos - r.bp.start) = _
        have := hp.byte_eq; have := hp.start_le; omega
      refine ⟨⟨hp.win.b, hp.win.pol⟩, ?_, ⟨k, ?_⟩⟩
      · show ScanSt inp _ (incRec r).byte
        rw [hb]
        exact ⟨rfl, Nat.le_refl _, hp.sp_le, (by intro p hp; cases hp), rfl⟩
      · show Pt inp k (incRec r).byte _
        rw [hb]; exact hpt
    obtain ⟨r', rs', res, hl, hpf, hinv, hout⟩ :=
      hloop { incRec r with state := .positioned } hready (Or.inl ⟨rfl, hp.eof⟩)
    exact ⟨r', rs', res, by simp only [readRecordSetExact, hst, incrementRecord_eq r hp.start_le]; exact hl,
      hpf, hinv, hout⟩
  | positioned hr he hst =>
    obtain ⟨r', rs', res, hl, hpf, hinv, hout⟩ := hloop r hr (Or.inl ⟨hst, he⟩)
    exact ⟨r', rs', res, by simp only [readRecordSetExact, hst]; exact hl, hpf, hinv, hout⟩
  | incomplete hr hst =>
    obtain ⟨r', rs', res, hl, hpf, hinv, hout⟩ := hloop r hr (Or.inr hst)
    exact ⟨r', rs', res, by simp only [readRecordSetExact, hst]; exact hl, hpf, hinv, hout⟩
  | finished hw hb hst =>
    exact ⟨r, rs, .ok false, by simp only [readRecordSetExact, hst], rfl, WRInv.finished hw hb hst,
      Or.inr (Or.inl ⟨rfl, rfl⟩)⟩

/-! ## what iterating over a set shows -/

theorem allSome_of_forall {α β : Type} (f : α → Option β) (P : β → Prop) :
    ∀ xs : List α, (∀ x ∈ xs, ∃ y, f x = some y ∧ P y) →
      ∃ l, allSome (xs.map f) = some l ∧ ∀ y ∈ l, P y := by
  intro xs
  induction xs with
  | nil => intro _; exact ⟨[], rfl, fun y hy => by cases hy⟩
  | cons x xs ih =>
    intro h
    obtain ⟨y, hy, hP⟩ := h x (by simp)
    obtain ⟨l, hl, hPl⟩ := ih (fun x' hx' => h x' (by simp [hx']))
    refine ⟨y :: l, by simp only [List.map_cons, allSome, hy, hl, Option.map_some], ?_⟩
    intro z hz
    rcases List.mem_cons.mp hz with rfl | hz
    · exact hP
    · exact hPl z hz

/-- iterating over the set does not panic and shows records of S only -/
def SetGen (inp : List UInt8) (rs : RecordSet) : Prop :=
  ∃ l, obsDump rs = .dump l ∧ ∀ v ∈ l, ∃ rc ∈ recsOf inp, v = view rc

theorem setGen_of_accF {inp : List UInt8} {r : Reader} {rs : RecordSet} (hw : WinR inp r)
    (hacc : AccF inp (base r) r.br.buf.length rs) (hbuf : rs.buffer = r.br.buf) :
    SetGen inp rs := by
  have := allSome_of_forall (viewRec rs.buffer) (fun v => ∃ rc ∈ recsOf inp, v = view rc)
    (rs.positions.take rs.npos) (by
      intro bp hbp
      obtain ⟨i, hi, hget⟩ := List.getElem_of_mem hbp
      have hi' : i < rs.npos := by
        rw [List.length_take] at hi; omega
      obtain ⟨bp', j, rc, h1, h2, h3⟩ := hacc.recs i hi'
      have hbp' : bp' = bp := by
        have e : (rs.positions.take rs.npos)[i]? = some bp := by
          rw [List.getElem?_eq_getElem hi, hget]
        rw [List.getElem?_take, if_pos hi', h1] at e
        exact Option.some.inj e
      subst hbp'
      obtain ⟨rc', hk', _, _, hH, hSL, _⟩ :=
        view_of_recAt hw.b.base_le hw.b.win h3 (pt_all inp j rc h2)
      rw [h2] at hk'
      cases hk'
      exact ⟨view rc, by rw [hbuf]; exact viewRec_of hH hSL, rc, mem_of_getElem? h2, rfl⟩)
  obtain ⟨l, hl, hP⟩ := this
  exact ⟨l, by simp only [obsDump, hl], hP⟩

theorem setGen_of_npos_zero {inp : List UInt8} {rs : RecordSet} (h : rs.npos = 0) : SetGen inp rs :=
  ⟨[], by simp [obsDump, h, allSome], fun v hv => by cases hv⟩

end SeqIo.Fasta.Hist
