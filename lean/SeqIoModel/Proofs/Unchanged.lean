import SeqIoModel.Proofs.Recode
import SeqIoModel.Proofs.FastqStream
/-!
# C11: writing records unchanged reproduces the input bytes

S level: the *raw extent* of a record is the text of its lines in the input, from its byte offset
up to (excluding) the LF that ends its last line, or up to the end of the input.  Writing every
record's extent followed by LF reproduces the input (with an LF added after an unterminated last
line, and FASTQ trailing blank lines dropped).

M level (FASTQ): `write_unchanged` of the record a `next()` call has just returned writes exactly
that extent followed by LF.
-/

open SeqIo SeqIo.Spec SeqIo.WriteProofs SeqIo.Recode

namespace SeqIo.Unchanged

/-! ## joining lines -/

/-- lines separated (not terminated) by LF: the inverse of `splitLF` -/
def joinLF : List (List UInt8) → List UInt8
  | [] => []
  | [a] => a
  | a :: b :: r => a ++ LF :: joinLF (b :: r)

theorem joinLF_cons_ne (a : List UInt8) (r : List (List UInt8)) (h : r ≠ []) :
    joinLF (a :: r) = a ++ LF :: joinLF r := by
  cases r with
  | nil => exact absurd rfl h
  | cons b r => rw [joinLF]

theorem joinLF_splitLF (l : List UInt8) : joinLF (splitLF l) = l := by
  induction l with
  | nil => rfl
  | cons b rest ih =>
    simp only [splitLF]
    split
    · rename_i hb
      rw [joinLF_cons_ne _ _ (splitLF_ne_nil rest), ih, hb]; rfl
    · have hne := splitLF_ne_nil rest
      cases hs : splitLF rest with
      | nil => exact absurd hs hne
      | cons p ps =>
        rw [hs] at ih
        simp only
        cases ps with
        | nil => simp only [joinLF] at ih ⊢; rw [ih]
        | cons q qs => simp only [joinLF] at ih ⊢; rw [← ih]; rfl

/-- terminating the last line as well -/
theorem joinLF_add_LF (xs : List (List UInt8)) (h : xs ≠ []) : joinLF xs ++ [LF] = unlines xs := by
  induction xs with
  | nil => exact absurd rfl h
  | cons a r ih =>
    cases r with
    | nil => simp [joinLF, unlines]
    | cons b r =>
      rw [joinLF, unlines_cons, ← ih (by simp)]
      simp

theorem joinLF_append_ne (xs ys : List (List UInt8)) (h : ys ≠ []) :
    joinLF (xs ++ ys) = unlines xs ++ joinLF ys := by
  induction xs with
  | nil => simp [unlines]
  | cons a r ih =>
    rw [List.cons_append, joinLF_cons_ne _ _ (by simp [h]), ih, unlines_cons]
    simp

/-- the first pieces of a text that starts with LF-free lines -/
theorem take_splitLF_joinLF (xs : List (List UInt8)) (hx : ∀ l ∈ xs, LF ∉ l) (hne : xs ≠ [])
    (rest : List UInt8) (hr : rest = [] ∨ ∃ t, rest = LF :: t) :
    (splitLF (joinLF xs ++ rest)).take xs.length = xs := by
  induction xs with
  | nil => exact absurd rfl hne
  | cons a r ih =>
    have ha := hx a (by simp)
    cases r with
    | nil =>
      simp only [joinLF, List.length_singleton]
      rcases hr with rfl | ⟨t, rfl⟩
      · rw [List.append_nil, splitLF_noLF a ha]; rfl
      · rw [splitLF_append a t ha]; rfl
    | cons b r =>
      rw [joinLF, List.append_assoc, List.cons_append, splitLF_append _ _ ha, List.length_cons,
        List.take_succ_cons, ih (fun l hl => hx l (by simp [hl])) (by simp)]

theorem splitLF_pieces_noLF (l : List UInt8) : ∀ p ∈ splitLF l, LF ∉ p := by
  induction l with
  | nil => simp [splitLF]
  | cons b rest ih =>
    simp only [splitLF]
    split
    · intro p hp
      rcases List.mem_cons.mp hp with rfl | hp
      · simp
      · exact ih p hp
    · rename_i hb
      have hne := splitLF_ne_nil rest
      cases hs : splitLF rest with
      | nil => exact absurd hs hne
      | cons q qs =>
        rw [hs] at ih
        intro p hp
        simp only [List.mem_cons] at hp
        rcases hp with rfl | hp
        · simp only [List.mem_cons, not_or]
          exact ⟨fun e => hb e.symm, ih q (by simp)⟩
        · exact ih p (by simp [hp])

/-! ## raw extents -/

/-- the text of the `n` lines of `inp` that start at offset `byte`, without the LF ending the last
of them -/
def extent (inp : List UInt8) (byte n : Nat) : List UInt8 :=
  joinLF ((splitLF (inp.drop byte)).take n)

/-- the four lines of a FASTQ record as they stand in the input -/
def rawFq (inp : List UInt8) (r : FqRec) : List UInt8 := extent inp r.byte 4

/-- the header and sequence lines of a FASTA record as they stand in the input -/
def rawFa (inp : List UInt8) (r : FaRec) : List UInt8 := extent inp r.byte (1 + r.seqLines.length)

/-- the extent is a prefix of the input from `byte` on, followed by nothing or by an LF -/
theorem extent_prefix (inp : List UInt8) (byte n : Nat) (hn : 0 < n) :
    ∃ rest, inp.drop byte = extent inp byte n ++ rest ∧ (rest = [] ∨ ∃ t, rest = LF :: t) := by
  unfold extent
  generalize inp.drop byte = l
  have h := joinLF_splitLF l
  have hno := splitLF_pieces_noLF l
  generalize splitLF l = ps at h hno
  by_cases hlen : ps.length ≤ n
  · exact ⟨[], by rw [List.take_of_length_le hlen, h, List.append_nil], Or.inl rfl⟩
  · have hd : ps.drop n ≠ [] := by
      intro e
      have := congrArg List.length e
      simp only [List.length_drop, List.length_nil] at this
      omega
    have ht : ps.take n ≠ [] := by
      intro e
      have := congrArg List.length e
      simp only [List.length_take, List.length_nil] at this
      omega
    refine ⟨LF :: joinLF (ps.drop n), ?_, Or.inr ⟨_, rfl⟩⟩
    rw [← h]
    conv => lhs; rw [← List.take_append_drop n ps]
    rw [joinLF_append_ne _ _ hd, ← joinLF_add_LF _ ht]
    simp

/-! ## FASTA: the records tile the input -/

/-- what writing a record unchanged emits at the S level -/
def faOut (inp : List UInt8) (r : FaRec) : List UInt8 := rawFa inp r ++ [LF]

theorem length_unlines_append_single (pend : List (List UInt8)) (l : List UInt8) :
    (unlines (pend ++ [l])).length = (unlines pend).length + l.length + 1 := by
  rw [unlines_append, unlines_cons, unlines_nil]
  simp only [List.length_append, List.length_cons, List.length_nil]
  omega

/-- a record whose lines `pend` stand at offset `pre0.length` -/
theorem faOut_pend (pre0 : List UInt8) (pend ls : List (List UInt8)) (tail : List UInt8)
    (htail : tail = [] ∨ ∃ t, tail = LF :: t) (hp : ∀ l ∈ pend, LF ∉ l) (r : FaRec)
    (hlen : pend.length = 1 + r.seqLines.length) (hbyte : r.byte = pre0.length) :
    faOut (pre0 ++ joinLF (pend ++ ls) ++ tail) r = unlines pend := by
  have hne : pend ≠ [] := by
    intro e; rw [e] at hlen; simp at hlen; omega
  have hrest : ∃ rest, joinLF (pend ++ ls) ++ tail = joinLF pend ++ rest ∧
      (rest = [] ∨ ∃ t, rest = LF :: t) := by
    cases ls with
    | nil => exact ⟨tail, by rw [List.append_nil], htail⟩
    | cons l ls =>
      refine ⟨LF :: (joinLF (l :: ls) ++ tail), ?_, Or.inr ⟨_, rfl⟩⟩
      rw [joinLF_append_ne _ _ (by simp), ← joinLF_add_LF _ hne]
      simp
  obtain ⟨rest, h1, h2⟩ := hrest
  unfold faOut rawFa extent
  rw [hbyte, List.append_assoc, List.drop_left, h1, ← hlen,
    take_splitLF_joinLF pend hp hne rest h2, joinLF_add_LF _ hne]

/-- `faGroup` run on the lines `ls` that follow the lines `pend` already given to the current
record: the extents of the records it returns, each followed by LF, are the text of all of these
lines -/
theorem faGroup_tiles (tail : List UInt8) (htail : tail = [] ∨ ∃ t, tail = LF :: t)
    (ls : List (List UInt8)) :
    ∀ (pre0 : List UInt8) (pend : List (List UInt8)) (byte line : Nat) (r : FaRec),
      (∀ l ∈ pend, LF ∉ l) → (∀ l ∈ ls, LF ∉ l) → pend.length = 1 + r.seqLines.length →
      r.byte = pre0.length → byte = pre0.length + (unlines pend).length →
      (faGroup ls byte line (some r)).flatMap (faOut (pre0 ++ joinLF (pend ++ ls) ++ tail)) =
        unlines (pend ++ ls) := by
  induction ls with
  | nil =>
    intro pre0 pend byte line r hp _ hlen hbyte _
    simp only [faGroup, List.flatMap_cons, List.flatMap_nil, List.append_nil]
    have := faOut_pend pre0 pend [] tail htail hp { r with seqLines := r.seqLines.reverse }
      (by simpa using hlen) hbyte
    rw [List.append_nil] at this
    exact this
  | cons l ls ih =>
    intro pre0 pend byte line r hp hls hlen hbyte hb
    have hl := hls l (by simp)
    have hls' : ∀ x ∈ ls, LF ∉ x := fun x hx => hls x (by simp [hx])
    rw [faGroup]
    by_cases hg : l.head? = some GT
    · -- a header line: the current record is complete
      simp only [hg, if_true, List.flatMap_cons]
      have h1 := faOut_pend pre0 pend (l :: ls) tail htail hp { r with seqLines := r.seqLines.reverse }
        (by simpa using hlen) hbyte
      have h2 := ih (pre0 ++ unlines pend) [l] (byte + l.length + 1) (line + 1)
        { byte := byte, line := line, head := trimCr (l.drop 1), seqLines := [] }
        (by simpa using hl) hls' (by simp) (by simp [hb])
        (by simp [hb, unlines]; omega)
      have e : pre0 ++ unlines pend ++ joinLF ([l] ++ ls) ++ tail =
          pre0 ++ joinLF (pend ++ l :: ls) ++ tail := by
        rw [joinLF_append_ne pend (l :: ls) (by simp)]
        simp
      rw [e] at h2
      rw [h1, h2, ← unlines_append]
      rfl
    · -- a sequence line
      simp only [hg, if_false]
      have h2 := ih pre0 (pend ++ [l]) (byte + l.length + 1) (line + 1)
        { r with seqLines := trimCr l :: r.seqLines }
        (by
          intro x hx
          rcases List.mem_append.mp hx with hx | hx
          · exact hp x hx
          · simp only [List.mem_singleton] at hx; subst hx; exact hl)
        hls' (by simp [hlen]; omega) hbyte
        (by rw [length_unlines_append_single, hb]; omega)
      simpa only [List.append_assoc, List.singleton_append] using h2

/-- the input is its lines joined by LF, possibly followed by one more LF -/
theorem eq_joinLF_lines (inp : List UInt8) (h : lines inp ≠ []) :
    ∃ tail, inp = joinLF (lines inp) ++ tail ∧ (tail = [] ∨ ∃ t, tail = LF :: t) := by
  have hj := joinLF_splitLF inp
  unfold lines at h ⊢
  generalize splitLF inp = ps at hj h
  simp only at h ⊢
  split
  · rename_i hl
    obtain ⟨ys, rfl⟩ := List.getLast?_eq_some_iff.mp hl
    rw [hl] at h
    simp only [List.dropLast_concat] at h ⊢
    refine ⟨[LF], ?_, Or.inr ⟨[], rfl⟩⟩
    rw [joinLF_add_LF _ h, ← hj, joinLF_append_ne _ _ (by simp)]
    simp [joinLF]
  · exact ⟨[], by rw [List.append_nil, hj], Or.inl rfl⟩

theorem lines_noLF (inp : List UInt8) : ∀ l ∈ lines inp, LF ∉ l := by
  intro l hl
  apply splitLF_pieces_noLF inp
  unfold lines at hl
  simp only at hl
  split at hl
  · exact List.dropLast_subset _ hl
  · exact hl

theorem not_blank_GT (p : List UInt8) : blank (GT :: p) = false := by
  cases p with
  | nil => simp [blank, trimCr, GT, CR]
  | cons a t =>
    simp only [blank, trimCr]
    split
    · split <;> simp
    · simp

theorem lines_head_GT (inp : List UInt8) (h : inp.head? = some GT) :
    ∃ p ps, lines inp = (GT :: p) :: ps := by
  cases inp with
  | nil => simp at h
  | cons b rest =>
    simp only [List.head?_cons, Option.some.injEq] at h
    subst h
    have hne := splitLF_ne_nil rest
    unfold lines
    simp only [splitLF, show GT ≠ LF by decide, if_false]
    cases hs : splitLF rest with
    | nil => exact absurd hs hne
    | cons q qs =>
      simp only
      split
      · cases qs with
        | nil => rename_i hl; simp at hl
        | cons q' qs' => exact ⟨q, _, List.dropLast_cons_of_ne_nil (by simp)⟩
      · exact ⟨q, qs, rfl⟩

/-- **C11, FASTA, S level, every input that starts with a header line.**  Writing each record's
extent followed by LF yields the input's lines, each terminated by LF: the input itself, with an LF
added if its last line had none. -/
theorem fasta_unchanged_lines (inp : List UInt8) (hstart : inp.head? = some GT) :
    ∃ rs, Spec.fasta inp = .records rs ∧ rs.flatMap (faOut inp) = unlines (lines inp) := by
  obtain ⟨p, ps, hl⟩ := lines_head_GT inp hstart
  obtain ⟨tail, hinp, htail⟩ := eq_joinLF_lines inp (by rw [hl]; simp)
  have hno := lines_noLF inp
  rw [hl] at hinp hno ⊢
  have ht := faGroup_tiles tail htail ps [] [GT :: p] (0 + (GT :: p).length + 1) (1 + 1)
    { byte := 0, line := 1, head := trimCr ((GT :: p).drop 1), seqLines := [] }
    (fun l hl => hno l (by simp only [List.mem_singleton] at hl; simp [hl]))
    (fun l hl => hno l (by simp [hl])) (by simp) rfl (by simp [unlines])
  rw [List.nil_append, List.singleton_append, ← hinp] at ht
  refine ⟨faGroup ((GT :: p) :: ps) 0 1 none, ?_, ?_⟩
  · unfold Spec.fasta
    rw [hl]
    simp [skipBlank, not_blank_GT]
  · rw [faGroup]
    simp only [List.head?_cons, if_true]
    exact ht

theorem unlines_physLines (tls : List (List UInt8 × Term)) (final : Bool) :
    unlines (physLines tls final) =
      encodeLines tls final ++ (if final || tls.isEmpty then [] else [LF]) := by
  fun_induction physLines tls final with
  | case1 final => simp [unlines, encodeLines]
  | case2 l t final => cases final <;> simp [unlines, encodeLines, Term.bytes_eq]
  | case3 l t x rest final ih =>
    rw [unlines_cons, ih, encodeLines, Term.bytes_eq]
    simp

theorem head?_encodeLines (l : List UInt8) (c : UInt8) (t : Term) (rest : List (List UInt8 × Term))
    (final : Bool) : (encodeLines ((c :: l, t) :: rest) final).head? = some c := by
  cases rest <;> simp [encodeLines]

/-- **C11, FASTA, S level, encoded files** (any mixture of terminators, no blank lines): writing
every record's extent followed by LF reproduces the file, plus an LF if its last line had no
terminator. -/
theorem fasta_unchanged_concat (recs : List (List UInt8 × List (List UInt8))) (hok : FaOk recs)
    (terms : Nat → Term) (final : Bool) :
    ∃ rs, Spec.fasta (encodeFasta recs terms final) = .records rs ∧
      rs.flatMap (faOut (encodeFasta recs terms final)) =
        encodeFasta recs terms final ++ (if final || recs.isEmpty then [] else [LF]) := by
  cases recs with
  | nil =>
    refine ⟨[], ?_, by simp [encodeFasta, Recode.faLines, encodeLines]⟩
    simp [encodeFasta, Recode.faLines, encodeLines, Spec.fasta, lines, splitLF, skipBlank]
  | cons p recs =>
    have hlok := faLines_ok (p :: recs) hok
    have hfst := map_fst_mapIdx (Recode.faLines (p :: recs)) terms
    unfold encodeFasta
    generalize htls : ((Recode.faLines (p :: recs)).mapIdx fun i l => (l, terms i)) = tls at hfst ⊢
    have hlines : lines (encodeLines tls final) = physLines tls final := by
      apply lines_encodeLines
      intro q hq
      have : q.1 ∈ Recode.faLines (p :: recs) := by rw [← hfst]; exact List.mem_map_of_mem hq
      exact ⟨(hlok _ this).1, (hlok _ this).2.1⟩
    have hhead : (encodeLines tls final).head? = some GT := by
      rw [Recode.faLines_cons] at hfst
      cases tls with
      | nil => simp at hfst
      | cons a tls =>
        obtain ⟨l, t⟩ := a
        simp only [List.map_cons, List.cons.injEq] at hfst
        rw [hfst.1]
        exact head?_encodeLines _ _ _ _ _
    have hne : tls.isEmpty = false := by
      cases tls with
      | nil => rw [Recode.faLines_cons] at hfst; simp at hfst
      | cons a tls => rfl
    obtain ⟨rs, h1, h2⟩ := fasta_unchanged_lines _ hhead
    refine ⟨rs, h1, ?_⟩
    rw [h2, hlines, unlines_physLines, hne]
    simp

/-- with the final terminator present the file is reproduced exactly -/
theorem fasta_unchanged_exact (recs : List (List UInt8 × List (List UInt8))) (hok : FaOk recs)
    (terms : Nat → Term) :
    ∃ rs, Spec.fasta (encodeFasta recs terms true) = .records rs ∧
      rs.flatMap (faOut (encodeFasta recs terms true)) = encodeFasta recs terms true := by
  obtain ⟨rs, h1, h2⟩ := fasta_unchanged_concat recs hok terms true
  exact ⟨rs, h1, by simpa using h2⟩

/-! ## FASTQ, S level -/

/-- what writing the item unchanged emits at the S level (nothing for the error item) -/
def fqOut (inp : List UInt8) : FqItem → List UInt8
  | .record r => rawFq inp r ++ [LF]
  | .err _ _ _ => []

/-- the extent of a terminated record, plus LF, is its encoding -/
theorem rawFq_step (p : FqContent) (hh : HeadOk p.1) (hs : FieldOk p.2.1) (hq : FieldOk p.2.2.1)
    (t : Term) (pre x : List UInt8) (r : FqRec) (hr : r.byte = pre.length) :
    rawFq (pre ++ (enc4 p t ++ x)) r ++ [LF] = enc4 p t := by
  obtain ⟨n1, n2, n3, n4⟩ := fqLines_noLF p hh hs hq
  unfold rawFq extent
  rw [hr, List.drop_left, enc4_eq, splitLF_append _ _ (lf_notin_line n1 t),
    splitLF_append _ _ (lf_notin_line n2 t), splitLF_append _ _ (lf_notin_line n3 t),
    splitLF_append _ _ (lf_notin_line n4 t)]
  have := enc4_eq p t []
  rw [List.append_nil] at this
  rw [this]
  simp [joinLF]

/-- the extent of the last record without terminator is the rest of the input -/
theorem rawFq_last (p : FqContent) (hh : HeadOk p.1) (hs : FieldOk p.2.1) (hq : FieldOk p.2.2.1)
    (t : Term) (pre : List UInt8) (r : FqRec) (hr : r.byte = pre.length) :
    rawFq (pre ++ encodeFastq [p] t false) r = encodeFastq [p] t false := by
  obtain ⟨n1, n2, n3, n4⟩ := fqLines_noLF p hh hs hq
  unfold rawFq extent
  rw [hr, List.drop_left, encodeFastq_single_false, splitLF_append _ _ (lf_notin_line n1 t),
    splitLF_append _ _ (lf_notin_line n2 t), splitLF_append _ _ (lf_notin_line n3 t),
    splitLF_noLF _ n4]
  simp [joinLF]

theorem fq_concat (recs : List FqContent) (hok : FqOk recs) (t : Term) (final : Bool)
    (e : List UInt8) (he : final = false → e = [])
    (hE : ∀ b l, fqGo false (splitLF e) b l = []) (pre : List UInt8) (line : Nat) :
    (fqGo false (splitLF (encodeFastq recs t final ++ e)) pre.length line).flatMap
        (fqOut (pre ++ (encodeFastq recs t final ++ e))) =
      encodeFastq recs t final ++ (if final || recs.isEmpty then [] else [LF]) := by
  induction recs generalizing pre line with
  | nil => simp [encodeFastq_nil, hE]
  | cons p recs ih =>
    obtain ⟨hh, hs, hq, hl⟩ := hok p (by simp)
    by_cases hc : recs ≠ [] ∨ final = true
    · have e1 := fqGo_step p hh hs hq hl t (encodeFastq recs t final ++ e) pre.length line
      have e2 := ih (fun x hx => hok x (by simp [hx])) (pre ++ enc4 p t) (line + 4)
      have hfix : (final || recs.isEmpty) = final := by
        rcases hc with h | h
        · cases recs with
          | nil => exact absurd rfl h
          | cons _ _ => simp
        · simp [h]
      rw [List.length_append] at e2
      rw [encodeFastq_cons p recs t final hc, List.append_assoc, e1, List.flatMap_cons]
      rw [List.append_assoc] at e2
      rw [e2]
      simp only [fqOut]
      rw [rawFq_step p hh hs hq t pre _ _ rfl, hfix]
      simp
    · have h1 : recs = [] := by
        apply Classical.byContradiction; intro h; exact hc (Or.inl h)
      have h2 : final = false := by
        cases final
        · rfl
        · exact absurd (Or.inr rfl) hc
      subst h1; subst h2
      rw [he rfl, List.append_nil, fqGo_last p hh hs hq hl]
      simp only [List.flatMap_cons, List.flatMap_nil, List.append_nil, fqOut]
      rw [rawFq_last p hh hs hq t pre _ rfl]
      simp

/-- **C11, FASTQ, S level.** Writing the extent of every record followed by LF reproduces the file,
plus an LF if its last line had no terminator. -/
theorem fastq_unchanged_concat (recs : List FqContent) (hok : FqOk recs) (t : Term) (final : Bool) :
    (Spec.fastq (encodeFastq recs t final)).flatMap (fqOut (encodeFastq recs t final)) =
      encodeFastq recs t final ++ (if final || recs.isEmpty then [] else [LF]) := by
  have := fq_concat recs hok t final [] (fun _ => rfl) (fun b l => fqGo_end false b l) [] 1
  unfold Spec.fastq
  simpa only [List.append_nil, List.nil_append, List.length_nil] using this

theorem encodeLines_lf_add (tls : List (List UInt8 × Term)) (h : ∀ p ∈ tls, p.2 = .lf)
    (hne : tls ≠ []) : encodeLines tls false ++ [LF] = encodeLines tls true := by
  induction tls with
  | nil => exact absurd rfl hne
  | cons a tls ih =>
    obtain ⟨l, t⟩ := a
    have ht : t = .lf := h (l, t) (by simp)
    subst ht
    cases tls with
    | nil => simp [encodeLines, Term.bytes]
    | cons b tls =>
      rw [encodeLines, encodeLines, List.append_assoc, ih (fun p hp => h p (by simp [hp])) (by simp)]

/-- an LF-terminated file without its final LF: the output is the file with that LF added -/
theorem fastq_unchanged_concat_lf (recs : List FqContent) (hok : FqOk recs) (final : Bool) :
    (Spec.fastq (encodeFastq recs .lf final)).flatMap (fqOut (encodeFastq recs .lf final)) =
      encodeFastq recs .lf true := by
  rw [fastq_unchanged_concat recs hok .lf final]
  cases final
  · cases recs with
    | nil => simp [encodeFastq_nil]
    | cons p recs =>
      simp only [Bool.false_or, List.isEmpty_cons, Bool.false_eq_true, if_false]
      unfold encodeFastq
      apply encodeLines_lf_add
      · intro q hq
        obtain ⟨l, _, rfl⟩ := List.mem_map.mp hq
        rfl
      · simpa using fqLines_ne_nil p recs
  · simp

/-- trailing blank lines are dropped -/
theorem fastq_unchanged_trailing (recs : List FqContent) (hok : FqOk recs) (t : Term) (trail : Nat)
    (htrail : trail ≤ 2) :
    (Spec.fastq (encodeFastq recs t true ++ (List.replicate trail t.bytes).flatten)).flatMap
        (fqOut (encodeFastq recs t true ++ (List.replicate trail t.bytes).flatten)) =
      encodeFastq recs t true := by
  have hE : ∀ b l, fqGo false (splitLF (List.replicate trail t.bytes).flatten) b l = [] := by
    intro b l
    have : trail = 0 ∨ trail = 1 ∨ trail = 2 := by omega
    rcases this with rfl | rfl | rfl <;> cases t <;>
      simp [List.replicate, Term.bytes, splitLF, fqGo, blank, trimCr, LF, CR]
  have := fq_concat recs hok t true _ (fun h => by cases h) hE [] 1
  unfold Spec.fastq
  simpa only [List.nil_append, List.length_nil, Bool.true_or, if_true, List.append_nil] using this

end SeqIo.Unchanged

/-! ## FASTQ, M level: `write_unchanged` after `next()` -/

namespace SeqIo.Fastq.Unch
open SeqIo SeqIo.Spec SeqIo.WriteProofs SeqIo.FillProofs SeqIo.Unchanged SeqIo.Fastq.Hist

theorem validate_ok {r r' : Reader} (h : validate r = (r', .ok ())) : r' = r := by
  unfold validate at h
  repeat' split at h
  all_goals first
    | (exact (Prod.mk.inj h).1.symm)
    | (exact absurd (Prod.mk.inj h).2 (by simp))
    | (simp only at h; split at h <;> simp only [Prod.mk.injEq, reduceCtorEq, and_false] at h)

theorem validated_ok {r r' : Reader} (h : validated r = (r', .ok true)) : r' = r := by
  unfold validated at h
  split at h
  · rename_i r1 hv
    have := validate_ok hv
    simp only [Prod.mk.injEq, and_true] at h
    rw [← h, this]
  all_goals simp only [Prod.mk.injEq, reduceCtorEq, and_false] at h

theorem checkEnd_few_ne (r : Reader) (ip : RecordPos) (hne : ip ≠ .qual) :
    (checkEnd r ip).2 ≠ .ok true := by
  simp only [checkEnd, hne, if_false]
  repeat' split
  all_goals simp

/-- where the record just returned lies: in the buffer from `pos0` on, either with all four line
ends found (`pos1` = the LF of the quality line) or, at the end of the input, with three line ends
found and `pos1` = the end of the buffer -/
def RecAt (inp : List UInt8) (r : Reader) : Prop :=
  inp.drop r.byte = r.br.buf.drop r.bp.pos0 ++ inp.drop r.br.src.cursor ∧
  (Found4 r.br.buf r.bp ∨
    (Pre r.br.buf r.bp .qual ∧ nl r.br.buf r.bp.qual = none ∧ r.bp.pos1 = r.br.buf.length ∧
      r.br.src.cursor = inp.length))

/-- postcondition of the operations that can return a record -/
def Post (inp : List UInt8) (x : Reader × Res Bool) : Prop := x.2 = .ok true → RecAt inp x.1

theorem post_complete (inp : List UInt8) (G : Prop) (r : Reader) (hb : Base inp G r)
    (hf : Found4 r.br.buf r.bp) : Post inp (validated r) := by
  intro hok
  have : validated r = ((validated r).1, .ok true) := by rw [← hok]
  rw [validated_ok this]
  exact ⟨hb.win, Or.inl hf⟩

theorem checkEndQ_ok {r r' : Reader} (h : checkEndQ r = (r', .ok true)) : r' = r := by
  unfold checkEndQ at h
  split at h
  · rename_i r1 hv
    have e := validate_ok hv
    subst e
    repeat' split at h
    all_goals first
      | (exact (Prod.mk.inj h).1.symm)
      | (exact absurd (Prod.mk.inj h).2 (by simp))
  all_goals exact absurd (Prod.mk.inj h).2 (by simp)

theorem post_eofq (inp : List UInt8) (G : Prop) (r : Reader) (hb : Base inp G r)
    (hcur : r.br.src.cursor = inp.length) (hsc : Scan r.br.buf r.bp .qual) :
    Post inp (checkEnd r .qual) := by
  intro hok
  rw [checkEnd_qual] at hok ⊢
  have : checkEndQ { r with bp := { r.bp with pos1 := r.br.buf.length } } =
      ((checkEndQ { r with bp := { r.bp with pos1 := r.br.buf.length } }).1, .ok true) := by
    rw [← hok]
  rw [checkEndQ_ok this]
  exact ⟨hb.win, Or.inr ⟨hsc.1, hsc.2, rfl, hcur⟩⟩

theorem post_eof_few (inp : List UInt8) (r : Reader) (ip : RecordPos) (hne : ip ≠ .qual) :
    Post inp (checkEnd r ip) := fun hok => absurd hok (checkEnd_few_ne r ip hne)

theorem resumeK_post (inp : List UInt8) (G : Prop) (f : Nat) (ip : RecordPos) (mk : Bool)
    (r : Reader)
    (ih : ∀ (r : Reader) (ip : RecordPos), Base inp G r → Eof inp r →
      Scan r.br.buf r.bp ip → mu inp r + 1 ≤ f → Post inp (resume f ip mk r))
    (hb : Base inp G r) (he : Eof inp r)
    (hpre : Pre r.br.buf r.bp ip) (hmu : mu inp r + 1 ≤ f) :
    Post inp (resumeK f ip mk r) := by
  rcases si_spec r ip hb.pos0_le hpre with ⟨bp', ip', hp0, hsc, hres⟩ | ⟨bp', hp0, hf4, hres⟩
  · simp only [resumeK, hres]
    exact ih { r with bp := bp', incompletePos := some ip' } ip' (hb.set_bp bp' _ hp0) he hsc hmu
  · have : resumeK f ip mk r = validated { r with bp := bp', incompletePos := none } := by
      rw [← wrapS_wrapV_validate]
      simp only [resumeK, hres]
      generalize validate _ = v
      rcases v with ⟨r', (_ | _ | _ | _)⟩ <;> rfl
    rw [this]
    exact post_complete inp G { r with bp := bp', incompletePos := none } (hb.set_bp bp' _ hp0) hf4

/-- the loop of `resume_incomplete_search` (same case analysis as `resume_spec`) -/
theorem resume_post (inp : List UInt8) (G : Prop) (mk : Bool) (f : Nat) :
    ∀ (r : Reader) (ip : RecordPos), Base inp G r → Eof inp r →
      Scan r.br.buf r.bp ip → mu inp r + 1 ≤ f → Post inp (resume f ip mk r) := by
  induction f with
  | zero => intro r ip _ _ _ h; omega
  | succ f ih =>
    intro r ip hb he hsc hmu
    by_cases hlt : r.br.buf.length < r.br.cap
    · rw [resume_eof f ip mk r hlt]
      have hcur := he hlt
      have hb' : Base inp G { r with state := .finished } := hb.set_state _
      by_cases hq : ip = .qual
      · subst hq
        exact post_eofq inp G { r with state := .finished } hb' hcur hsc
      · exact post_eof_few inp { r with state := .finished } ip hq
    · have hfull : r.br.buf.length = r.br.cap := by have := hb.len_le; omega
      have hmu0 : mu inp r = inp.length - r.br.src.cursor + 1 := by
        simp only [mu, hlt, if_false]
      have hw := hb.toWin
      cases hp : (!mk || decide (r.bp.pos0 = 0)) with
      | true =>
        rcases grow_spec r hw.polwf hfull (by have := hb.cap3; omega) with
          ⟨n, hn, hans, hg⟩ | ⟨hans, hg⟩
        · generalize hr1 : growOk r n = r1 at hg
          have hw1 : Win inp G r1 := by
            obtain ⟨a, b, c, d, e, f, g, i, w, k, z⟩ := hw
            subst hr1
            exact ⟨a, b, c, d, e, by simp only [growOk]; omega, by simp only [growOk]; omega, i, w, k, z⟩
          rcases fill_cases inp G r1 hw1 with
            ⟨br', ext, m, hfill, hbuf, hcap, hcur, hext, hw2, he2, -⟩ |
            ⟨br', ext, k, hfill, -⟩
          rotate_left
          · -- the refill fails: no record is returned
            rw [resume_grow_err f ip mk r r1 br' k hlt hp hg hfill]
            intro hok
            simp at hok
          rw [resume_grow f ip mk r r1 br' m hlt hp hg hfill]
          have e1 : r1.br.buf = r.br.buf := by subst hr1; rfl
          have e2 : r1.bp = r.bp := by subst hr1; rfl
          have e6 : r1.br.cap = n := by subst hr1; rfl
          have e7 : r1.br.src.cursor = r.br.src.cursor := by subst hr1; rfl
          have hb2 : Base inp G { r1 with br := br' } :=
            ⟨hw2, by simp only [hbuf, e1, e2, List.length_append]; have := hb.pos0_le; omega⟩
          exact resumeK_post inp G f ip mk { r1 with br := br' } ih hb2 he2
            (by simp only [hbuf, e1, e2]; exact hsc.1.append ext)
            (by
              simp only [mu, hcur, hcap, hbuf, List.length_append, e1, e6, e7] at hext ⊢
              split <;> omega)
        · rw [resume_refused f ip mk r _ _ hlt hp hg]
          intro hok
          simp at hok
      | false =>
        obtain ⟨hmr, hpre'⟩ := makeRoom_spec r ip hsc.1
        generalize hr1 : ({ r with br := r.br.consume r.bp.pos0, bp := shiftBp r.bp ip } : Reader)
          = r1 at hmr
        have hp0 := hb.pos0_le
        have hpne : r.bp.pos0 ≠ 0 := by
          intro h0
          simp [h0] at hp
        have hw1 : Win inp G r1 := by
          obtain ⟨a, b, c, d, e, f, g, i, w, k, z⟩ := hw
          subst hr1
          refine ⟨a, b, c, d, e, f, ?_, ?_, ?_, ?_, z⟩
          · simp only [BufRd.consume, List.length_drop]; omega
          · simp only [BufRd.consume, List.length_drop]; omega
          · simp only [BufRd.consume, List.length_drop]
            have : r.br.src.cursor - (r.br.buf.length - r.bp.pos0) =
                (r.br.src.cursor - r.br.buf.length) + r.bp.pos0 := by omega
            rw [this, ← List.drop_drop, w, List.drop_append_of_le_length hp0]
          · simp only [BufRd.consume, shiftBp, List.length_drop]; omega
        rcases fill_cases inp G r1 hw1 with
          ⟨br', ext, m, hfill, hbuf, hcap, hcur, hext, hw2, he2, -⟩ |
          ⟨br', ext, k, hfill, -⟩
        rotate_left
        · -- the refill fails: no record is returned
          rw [resume_room_err f ip mk r r1 br' k hlt hp hmr hfill]
          intro hok
          simp at hok
        rw [resume_room f ip mk r r1 br' m hlt hp hmr hfill]
        have e1 : r1.br.buf = r.br.buf.drop r.bp.pos0 := by subst hr1; rfl
        have e2 : r1.bp = shiftBp r.bp ip := by subst hr1; rfl
        have e6 : r1.br.cap = r.br.cap := by subst hr1; rfl
        have e7 : r1.br.src.cursor = r.br.src.cursor := by subst hr1; rfl
        have hb2 : Base inp G { r1 with br := br' } :=
          ⟨hw2, by simp only [e2, shiftBp]; omega⟩
        exact resumeK_post inp G f ip mk { r1 with br := br' } ih hb2 he2
          (by simp only [hbuf, e1, e2]; exact hpre'.append ext)
          (by
            simp only [mu, hcur, hcap, hbuf, List.length_append, e1, e6, e7,
              List.length_drop] at hext ⊢
            split <;> omega)

theorem nextCont_post (inp : List UInt8) (G : Prop) (fuel : Nat) (r : Reader) (hb : Base inp G r)
    (he : Eof inp r) (hip : IpOk r) (hfuel : inp.length + 2 ≤ fuel) :
    Post inp (nextCont fuel r) := by
  have hmu : ∀ r' : Reader, r'.br.src.cursor ≤ inp.length → mu inp r' + 1 ≤ fuel := by
    intro r' h
    simp only [mu]
    split <;> omega
  cases hipv : r.incompletePos with
  | some ip =>
    have : nextCont fuel r = resume fuel ip true r := by
      simp only [nextCont, hipv, Option.isNone_some, Bool.false_eq_true, if_false]
    rw [this]
    exact resume_post inp G true fuel r ip hb he (hip ip hipv) (hmu r hb.cur_le)
  | none =>
    rcases si_spec r .head hb.pos0_le trivial with ⟨bp', ip', hp0, hsc, hres⟩ | ⟨bp', hp0, hf4, hres⟩
    · have : nextCont fuel r =
          resume fuel ip' true { r with bp := bp', incompletePos := some ip' } := by
        simp only [nextCont, hipv, Option.isNone_none, if_true, search_eq r hipv, hres, wrapS]
      rw [this]
      exact resume_post inp G true fuel { r with bp := bp', incompletePos := some ip' } ip'
        (hb.set_bp bp' _ hp0) he hsc (hmu _ hb.cur_le)
    · have : nextCont fuel r = validated { r with bp := bp', incompletePos := none } := by
        have h1 := validate_ip { r with bp := bp', incompletePos := none }
        simp only [nextCont, hipv, Option.isNone_none, if_true, search_eq r hipv, hres]
        unfold validated
        revert h1
        generalize validate _ = v
        rcases v with ⟨r', (_ | _ | _ | _)⟩ <;> intro h1
        · simp only at h1
          simp only [wrapS, wrapV, h1]
        all_goals rfl
      rw [this]
      exact post_complete inp G { r with bp := bp', incompletePos := none } (hb.set_bp bp' _ hp0) hf4

/-- a `next()` call that returns a record leaves it where `RecAt` says -/
theorem next_post (inp : List UInt8) (G : Prop) (fuel : Nat) (r : Reader) (items : List FqItem)
    (hg : Good inp G r items) (hfuel : r.br.src.inp.length + 2 ≤ fuel) : Post inp (next fuel r) := by
  cases hst : r.state with
  | positioned =>
    simp only [Good, hst] at hg
    obtain ⟨hb, he, hip, hits⟩ := hg
    rw [hb.inp_eq] at hfuel
    have : next fuel r = nextCont fuel { r with state := .parsing } := by
      simp only [next, hst]
    rw [this]
    exact nextCont_post inp G fuel { r with state := .parsing } (hb.set_state _) he hip hfuel
  | finished =>
    intro hok
    simp [next, hst] at hok
  | new =>
    simp only [Good, hst] at hg
    obtain ⟨hw, -, hp0, hbyte, hline, hip, hitems⟩ := hg
    rw [hw.inp_eq] at hfuel
    rcases fill_cases inp G r hw with
      ⟨br', ext, n, hfill, hbuf', hcap', hcur', hext, hw2, he2, hn⟩ | ⟨br', ext, k, hfill, -⟩
    · cases n with
      | zero =>
        intro hok
        simp [next, hst, init, hfill] at hok
      | succ n =>
        have : next fuel r = nextCont fuel { r with br := br', state := .parsing } := by
          simp only [next, hst, init, hfill]
        rw [this]
        have hb2 : Base inp G { r with br := br' } := ⟨hw2, by simp [hp0]⟩
        exact nextCont_post inp G fuel { r with br := br', state := .parsing }
          (hb2.set_state .parsing) he2 (by intro ip h; simp only [hip] at h; cases h) hfuel
    · -- the first refill fails: no record is returned
      intro hok
      simp [next, hst, init, hfill] at hok
  | parsing =>
    simp only [Good, hst] at hg
    obtain ⟨hb, he, hip, h01, h1l, hitems⟩ := hg
    rw [hb.inp_eq] at hfuel
    have hinc : incrementRecord r = some { r with
        byte := r.byte + (r.bp.pos1 + 1 - r.bp.pos0), line := r.line + 4,
        bp := { r.bp with pos0 := r.bp.pos1 + 1 } } := by
      simp only [incrementRecord, csub_of_le h01]
    have : next fuel r = nextCont fuel { r with
        byte := r.byte + (r.bp.pos1 + 1 - r.bp.pos0), line := r.line + 4,
        bp := { r.bp with pos0 := r.bp.pos1 + 1 } } := by
      simp only [next, hst, hinc]
    rw [this]
    have hp0 := hb.pos0_le
    refine nextCont_post inp G fuel _ ?_ he (by intro ip h; simp only [hip] at h; cases h) hfuel
    obtain ⟨⟨a, b, c, d, e, f, g, i, w, k, z⟩, -⟩ := hb
    exact ⟨⟨a, b, c, d, e, f, g, i, w, by simp only; omega, z⟩, h1l⟩

theorem take_length_append {α : Type} (x rest : List α) (n : Nat) (h : n = x.length) :
    (x ++ rest).take n = x := by
  subst h; simp

/-- what `write_unchanged` writes for a record lying as `RecAt` says: the bytes of the input from
the record's offset on, `pos1 - pos0` of them, which are the record's four lines without the
final LF; then LF -/
theorem recAt_writeUnchanged (inp : List UInt8) (r : Reader) (h : RecAt inp r) :
    r.bp.pos0 ≤ r.bp.pos1 ∧
    writeUnchanged r.br.buf r.bp =
      some ((inp.drop r.byte).take (r.bp.pos1 - r.bp.pos0) ++ [LF]) ∧
    (inp.drop r.byte).take (r.bp.pos1 - r.bp.pos0) = extent inp r.byte 4 := by
  obtain ⟨hwin, hf | ⟨hpre, hd, hp1, hcur⟩⟩ := h
  · -- all four lines are terminated
    have hsplit := hf.split (inp.drop r.br.src.cursor)
    have hlens := hf.lens
    obtain ⟨a, b, c, d⟩ := hf
    have a' := nl_some a
    have b' := nl_some b
    have c' := nl_some c
    have d' := nl_some d
    obtain ⟨X, hX⟩ : ∃ X, X = hP r.br.buf r.bp ++ LF :: (sP r.br.buf r.bp ++ LF ::
        (pP r.br.buf r.bp ++ LF :: qP r.br.buf r.bp)) := ⟨_, rfl⟩
    have hdrop : r.br.buf.drop r.bp.pos0 = X ++ LF :: r.br.buf.drop (r.bp.pos1 + 1) := by
      rw [hX, a'.2.2.2.2, b'.2.2.2.2, c'.2.2.2.2, d'.2.2.2.2]
      simp [hP, sP, pP, qP]
    have hlen : r.bp.pos1 - r.bp.pos0 = X.length := by
      rw [hX]
      simp only [List.length_append, List.length_cons]
      omega
    have h01 : r.bp.pos0 ≤ r.bp.pos1 := by omega
    have h1 : r.bp.pos1 ≤ r.br.buf.length := by omega
    refine ⟨h01, ?_, ?_⟩
    · simp only [writeUnchanged, slice_of_le h01 h1, Option.map_some, Option.some.injEq]
      rw [hwin, List.drop_take, hdrop, take_length_append _ _ _ hlen, List.append_assoc,
        take_length_append _ _ _ hlen]
    · unfold extent
      rw [hwin, hsplit, hdrop, List.append_assoc, take_length_append _ _ _ hlen, hX]
      simp [joinLF]
  · -- the quality line is ended by the end of the input
    obtain ⟨a, b, c⟩ := hpre
    have a' := nl_some a
    have b' := nl_some b
    have c' := nl_some c
    have h01 : r.bp.pos0 ≤ r.bp.pos1 := by omega
    have hno : LF ∉ r.br.buf.drop r.bp.qual := nl_none hd
    have hdrop : r.br.buf.drop r.bp.pos0 =
        hP r.br.buf r.bp ++ LF :: (sP r.br.buf r.bp ++ LF :: (pP r.br.buf r.bp ++ LF ::
          r.br.buf.drop r.bp.qual)) := by
      rw [a'.2.2.2.2, b'.2.2.2.2, c'.2.2.2.2]
      simp [hP, sP, pP]
    have hall : (inp.drop r.byte).take (r.bp.pos1 - r.bp.pos0) = r.br.buf.drop r.bp.pos0 := by
      rw [hwin, hcur, List.drop_length, List.append_nil, hp1]
      apply List.take_of_length_le
      simp
    refine ⟨h01, ?_, ?_⟩
    · simp only [writeUnchanged, slice_of_le h01 (by omega : r.bp.pos1 ≤ r.br.buf.length),
        Option.map_some, Option.some.injEq]
      rw [hall, hp1, List.take_length]
    · rw [hall]
      unfold extent
      rw [hwin, hcur, List.drop_length, List.append_nil, hdrop,
        splitLF_append _ _ (show LF ∉ hP r.br.buf r.bp from a'.2.2.2.1),
        splitLF_append _ _ (show LF ∉ sP r.br.buf r.bp from b'.2.2.2.1),
        splitLF_append _ _ (show LF ∉ pP r.br.buf r.bp from c'.2.2.2.1), splitLF_noLF _ hno]
      simp [joinLF]

/-- **C11, FASTQ, M level.** After a `next()` call (from any reachable state, any buffer capacity,
refill pattern and growth policy) that returns a record, `write_unchanged` of that record succeeds
and writes the raw extent of S's record in the input followed by LF; that extent is the `pos1 - pos0`
bytes of the input from the record's byte offset on. -/
theorem fastq_unchanged_bytes (inp : List UInt8) (G : Prop) (fuel : Nat) (r : Reader)
    (items : List FqItem) (hg : Good inp G r items) (hfuel : r.br.src.inp.length + 2 ≤ fuel)
    (hok : (next fuel r).2 = .ok true) :
    ∃ (x : FqRec) (rest : List FqItem), items = .record x :: rest ∧
      Good inp G (next fuel r).1 rest ∧ (next fuel r).1.byte = x.byte ∧
      writeUnchanged (next fuel r).1.br.buf (next fuel r).1.bp = some (rawFq inp x ++ [LF]) ∧
      rawFq inp x =
        (inp.drop x.byte).take ((next fuel r).1.bp.pos1 - (next fuel r).1.bp.pos0) := by
  obtain ⟨h01, hw, hx⟩ := recAt_writeUnchanged inp _ (next_post inp G fuel r items hg hfuel hok)
  rcases next_found inp G fuel r items hg hfuel with
    (⟨-, x, its', hits, hsh⟩ | ⟨hr, -⟩ | ⟨e, b, l, hr, -⟩ | ⟨e, hr, -⟩) | ⟨-, hr, -⟩
  · have hbyte := hsh.byte_eq
    refine ⟨x, its', hits, hsh.good, hbyte.symm, ?_, ?_⟩
    · rw [hw, hx, rawFq, hbyte]
    · rw [rawFq, hbyte, hx]
  · rw [hok] at hr; cases hr
  · rw [hok] at hr; cases hr
  · rw [hok] at hr; cases hr
  · rw [hok] at hr
    rcases hr with hr | ⟨k, hr⟩ <;> cases hr

/-! ### the whole stream -/

/-- `k` times: `next()`, then `write_unchanged` of the record if one was returned; the output is
collected (`none` = a `write_unchanged` panicked) -/
def runWrites : Nat → Reader → Option (List UInt8)
  | 0, _ => some []
  | k + 1, r =>
    let x := next (opFuel r.br.src.inp.length r.br.src.script.length) r
    match x.2 with
    | .ok true =>
      match writeUnchanged x.1.br.buf x.1.bp, runWrites k x.1 with
      | some a, some b => some (a ++ b)
      | _, _ => none
    | _ => runWrites k x.1

theorem runWrites_spec (inp : List UInt8) (k : Nat) :
    ∀ (r : Reader) (items : List FqItem), Good inp True r items →
      runWrites k r = some ((items.take k).flatMap (fqOut inp)) := by
  induction k with
  | zero => intro r items _; simp [runWrites]
  | succ k ih =>
    intro r items hg
    have hfuel := opFuel_enough r
    by_cases hok : (next (opFuel r.br.src.inp.length r.br.src.script.length) r).2 = .ok true
    · obtain ⟨x, rest, hi, hg', -, hw, -⟩ := fastq_unchanged_bytes inp True _ r items hg hfuel hok
      simp only [runWrites, hok, hw, ih _ rest hg', hi, List.take_succ_cons, List.flatMap_cons, fqOut]
    · have hrun : runWrites (k + 1) r =
          runWrites k (next (opFuel r.br.src.inp.length r.br.src.script.length) r).1 := by
        simp only [runWrites]
      rw [hrun]
      rcases next_found inp True _ r items hg hfuel with
        (⟨hr, -⟩ | ⟨hr, hits, hfin⟩ | ⟨e, b, l, hr, hits, hfin⟩ | ⟨e, hr, henv, hG, hfin⟩) | ⟨hG, -⟩
      · exact absurd hr hok
      · rw [ih _ [] hfin.good, hits]; simp
      · rw [ih _ [] hfin.good, hits]; simp [fqOut]
      · exact absurd trivial hG
      · exact absurd trivial hG

/-- **C11, FASTQ, M level, the whole stream.** `next()` / `write_unchanged` in a loop writes the
extents of S's records, each followed by LF, for every input, capacity ≥ 3, growing policy and
read script without failing events. -/
theorem fastq_write_unchanged_stream (inp : List UInt8) (cap : Nat) (hcap : 3 ≤ cap) (pol : Pol)
    (hpol : PolGrows pol) (script : List ReadEv) (hs : NoFail script) (chunk : Nat) (k : Nat) :
    runWrites k (mkReader inp cap pol script chunk) =
      some (((Spec.fastq inp).take k).flatMap (fqOut inp)) :=
  runWrites_spec inp k _ _ (good_mkReader inp cap hcap pol hpol script hs chunk)

theorem length_fqExpected (recs : List Recode.FqContent) (line : Nat) :
    (Recode.fqExpected recs line).length = recs.length := by
  induction recs generalizing line with
  | nil => rfl
  | cons p recs ih => simp [Recode.fqExpected, ih]

/-- **C11, FASTQ, end to end.** Reading a well-formed LF or CRLF file and writing every record
unchanged reproduces the file byte for byte, with an LF added if the last line had no terminator. -/
theorem fastq_write_unchanged_file (recs : List Recode.FqContent) (hok : Recode.FqOk recs)
    (t : Recode.Term) (final : Bool) (cap : Nat) (hcap : 3 ≤ cap) (pol : Pol) (hpol : PolGrows pol)
    (script : List ReadEv) (hs : NoFail script) (chunk : Nat) (k : Nat) (hk : recs.length ≤ k) :
    runWrites k (mkReader (Recode.encodeFastq recs t final) cap pol script chunk) =
      some (Recode.encodeFastq recs t final ++ (if final || recs.isEmpty then [] else [LF])) := by
  rw [fastq_write_unchanged_stream _ cap hcap pol hpol script hs chunk k,
    ← fastq_unchanged_concat recs hok t final]
  obtain ⟨rs, h1, h2⟩ := Recode.fastq_recode_invariant recs hok t final
  have hlen : (Spec.fastq (Recode.encodeFastq recs t final)).length = recs.length := by
    have := congrArg List.length h2
    rw [List.length_map, length_fqExpected] at this
    rw [h1, List.length_map, this]
  rw [List.take_of_length_le (by omega)]

end SeqIo.Fastq.Unch
