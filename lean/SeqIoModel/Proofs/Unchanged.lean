import SeqIoModel.Proofs.Recode
import SeqIoModel.Proofs.FastqStream
/-!
# C11: writing records unchanged reproduces the input bytes

S level: the *raw extent* of a record is the text of its lines in the input, from its byte offset
up to (excluding) the LF that ends its last line, or up to the end of the input.  Writing every
record's extent followed by LF reproduces the input (with an LF added after an unterminated last
line, and FASTQ trailing blank lines dropped).

M level (FASTQ): `write_unchanged` of the record a `next()` call has just returned writes exactly
that extent followed by LF.
-/

open SeqIo SeqIo.Spec SeqIo.WriteProofs SeqIo.Recode

namespace SeqIo.Unchanged

/-! ## joining lines -/

/-- lines separated (not terminated) by LF: the inverse of `splitLF` -/
def joinLF : List (List UInt8) → List UInt8
  | [] => []
  | [a] => a
  | a :: b :: r => a ++ LF :: joinLF (b :: r)

theorem joinLF_cons_ne (a : List UInt8) (r : List (List UInt8)) (h : r ≠ []) :
    joinLF (a :: r) = a ++ LF :: joinLF r := by
  cases r with
  | nil => exact absurd rfl h
  | cons b r => rw [joinLF]

theorem joinLF_splitLF (l : List UInt8) : joinLF (splitLF l) = l := by
  induction l with
  | nil => rfl
  | cons b rest ih =>
    simp only [splitLF]
    split
    · rename_i hb
      rw [joinLF_cons_ne _ _ (splitLF_ne_nil rest), ih, hb]; rfl
    · have hne := splitLF_ne_nil rest
      cases hs : splitLF rest with
      | nil => exact absurd hs hne
      | cons p ps =>
        rw [hs] at ih
        simp only
        cases ps with
        | nil => simp only [joinLF] at ih ⊢; rw [ih]
        | cons q qs => simp only [joinLF] at ih ⊢; rw [← ih]; rfl

/-- terminating the last line as well -/
theorem joinLF_add_LF (xs : List (List UInt8)) (h : xs ≠ []) : joinLF xs ++ [LF] = unlines xs := by
  induction xs with
  | nil => exact absurd rfl h
  | cons a r ih =>
    cases r with
    | nil => simp [joinLF, unlines]
    | cons b r =>
      rw [joinLF, unlines_cons, ← ih (by simp)]
      simp

theorem joinLF_append_ne (xs ys : List (List UInt8)) (h : ys ≠ []) :
    joinLF (xs ++ ys) = unlines xs ++ joinLF ys := by
  induction xs with
  | nil => simp [unlines]
  | cons a r ih =>
    rw [List.cons_append, joinLF_cons_ne _ _ (by simp [h]), ih, unlines_cons]
    simp

/-- the first pieces of a text that starts with LF-free lines -/
theorem take_splitLF_joinLF (xs : List (List UInt8)) (hx : ∀ l ∈ xs, LF ∉ l) (hne : xs ≠ [])
    (rest : List UInt8) (hr : rest = [] ∨ ∃ t, rest = LF :: t) :
    (splitLF (joinLF xs ++ rest)).take xs.length = xs := by
  induction xs with
  | nil => exact absurd rfl hne
  | cons a r ih =>
    have ha := hx a (by simp)
    cases r with
    | nil =>
      simp only [joinLF, List.length_singleton]
      rcases hr with rfl | ⟨t, rfl⟩
      · rw [List.append_nil, splitLF_noLF a ha]; rfl
      · rw [splitLF_append a t ha]; rfl
    | cons b r =>
      rw [joinLF, List.append_assoc, List.cons_append, splitLF_append _ _ ha, List.length_cons,
        List.take_succ_cons, ih (fun l hl => hx l (by simp [hl])) (by simp)]

theorem splitLF_pieces_noLF (l : List UInt8) : ∀ p ∈ splitLF l, LF ∉ p := by
  induction l with
  | nil => simp [splitLF]
  | cons b rest ih =>
    simp only [splitLF]
    split
    · intro p hp
      rcases List.mem_cons.mp hp with rfl | hp
      · simp
      · exact ih p hp
    · rename_i hb
      have hne := splitLF_ne_nil rest
      cases hs : splitLF rest with
      | nil => exact absurd hs hne
      | cons q qs =>
        rw [hs] at ih
        intro p hp
        simp only [List.mem_cons] at hp
        rcases hp with rfl | hp
        · simp only [List.mem_cons, not_or]
          exact ⟨fun e => hb e.symm, ih q (by simp)⟩
        · exact ih p (by simp [hp])

/-! ## raw extents -/

/-- the text of the `n` lines of `inp` that start at offset `byte`, without the LF ending the last
of them -/
def extent (inp : List UInt8) (byte n : Nat) : List UInt8 :=
  joinLF ((splitLF (inp.drop byte)).take n)

/-- the four lines of a FASTQ record as they stand in the input -/
def rawFq (inp : List UInt8) (r : FqRec) : List UInt8 := extent inp r.byte 4

/-- the header and sequence lines of a FASTA record as they stand in the input -/
def rawFa (inp : List UInt8) (r : FaRec) : List UInt8 := extent inp r.byte (1 + r.seqLines.length)

/-- the extent is a prefix of the input from `byte` on, followed by nothing or by an LF -/
theorem extent_prefix (inp : List UInt8) (byte n : Nat) (hn : 0 < n) :
    ∃ rest, inp.drop byte = extent inp byte n ++ rest ∧ (rest = [] ∨ ∃ t, rest = LF :: t) := by
  unfold extent
  generalize inp.drop byte = l
  have h := joinLF_splitLF l
  have hno := splitLF_pieces_noLF l
  generalize splitLF l = ps at h hno
  by_cases hlen : ps.length ≤ n
  · exact ⟨[], by rw [List.take_of_length_le hlen, h, List.append_nil], Or.inl rfl⟩
  · have hd : ps.drop n ≠ [] := by
      intro e
      have := congrArg List.length e
      simp only [List.length_drop, List.length_nil] at this
      omega
    have ht : ps.take n ≠ [] := by
      intro e
      have := congrArg List.length e
      simp only [List.length_take, List.length_nil] at this
      omega
    refine ⟨LF :: joinLF (ps.drop n), ?_, Or.inr ⟨_, rfl⟩⟩
    rw [← h]
    conv => lhs; rw [← List.take_append_drop n ps]
    rw [joinLF_append_ne _ _ hd, ← joinLF_add_LF _ ht]
    simp

/-! ## FASTA: the records tile the input -/

/-- what writing a record unchanged emits at the S level -/
def faOut (inp : List UInt8) (r : FaRec) : List UInt8 := rawFa inp r ++ [LF]

theorem length_unlines_append_single (pend : List (List UInt8)) (l : List UInt8) :
    (unlines (pend ++ [l])).length = (unlines pend).length + l.length + 1 := by
  rw [unlines_append, unlines_cons, unlines_nil]
  simp only [List.length_append, List.length_cons, List.length_nil]
  omega

/-- a record whose lines `pend` stand at offset `pre0.length` -/
theorem faOut_pend (pre0 : List UInt8) (pend ls : List (List UInt8)) (tail : List UInt8)
    (htail : tail = [] ∨ ∃ t, tail = LF :: t) (hp : ∀ l ∈ pend, LF ∉ l) (r : FaRec)
    (hlen : pend.length = 1 + r.seqLines.length) (hbyte : r.byte = pre0.length) :
    faOut (pre0 ++ joinLF (pend ++ ls) ++ tail) r = unlines pend := by
  have hne : pend ≠ [] := by
    intro e; rw [e] at hlen; simp at hlen; omega
  have hrest : ∃ rest, joinLF (pend ++ ls) ++ tail = joinLF pend ++ rest ∧
      (rest = [] ∨ ∃ t, rest = LF :: t) := by
    cases ls with
    | nil => exact ⟨tail, by rw [List.append_nil], htail⟩
    | cons l ls =>
      refine ⟨LF :: (joinLF (l :: ls) ++ tail), ?_, Or.inr ⟨_, rfl⟩⟩
      rw [joinLF_append_ne _ _ (by simp), ← joinLF_add_LF _ hne]
      simp
  obtain ⟨rest, h1, h2⟩ := hrest
  unfold faOut rawFa extent
  rw [hbyte, List.append_assoc, List.drop_left, h1, ← hlen,
    take_splitLF_joinLF pend hp hne rest h2, joinLF_add_LF _ hne]

/-- `faGroup` run on the lines `ls` that follow the lines `pend` already given to the current
record: the extents of the records it returns, each followed by LF, are the text of all of these
lines -/
theorem faGroup_tiles (tail : List UInt8) (htail : tail = [] ∨ ∃ t, tail = LF :: t)
    (ls : List (List UInt8)) :
    ∀ (pre0 : List UInt8) (pend : List (List UInt8)) (byte line : Nat) (r : FaRec),
      (∀ l ∈ pend, LF ∉ l) → (∀ l ∈ ls, LF ∉ l) → pend.length = 1 + r.seqLines.length →
      r.byte = pre0.length → byte = pre0.length + (unlines pend).length →
      (faGroup ls byte line (some r)).flatMap (faOut (pre0 ++ joinLF (pend ++ ls) ++ tail)) =
        unlines (pend ++ ls) := by
  induction ls with
  | nil =>
    intro pre0 pend byte line r hp _ hlen hbyte _
    simp only [faGroup, List.flatMap_cons, List.flatMap_nil, List.append_nil]
    have := faOut_pend pre0 pend [] tail htail hp { r with seqLines := r.seqLines.reverse }
      (by simpa using hlen) hbyte
    rw [List.append_nil] at this
    exact this
  | cons l ls ih =>
    intro pre0 pend byte line r hp hls hlen hbyte hb
    have hl := hls l (by simp)
    have hls' : ∀ x ∈ ls, LF ∉ x := fun x hx => hls x (by simp [hx])
    rw [faGroup]
    by_cases hg : l.head? = some GT
    · -- a header line: the current record is complete
      simp only [hg, if_true, List.flatMap_cons]
      have h1 := faOut_pend pre0 pend (l :: ls) tail htail hp { r with seqLines := r.seqLines.reverse }
        (by simpa using hlen) hbyte
      have h2 := ih (pre0 ++ unlines pend) [l] (byte + l.length + 1) (line + 1)
        { byte := byte, line := line, head := trimCr (l.drop 1), seqLines := [] }
        (by simpa using hl) hls' (by simp) (by simp [hb])
        (by simp [hb, unlines]; omega)
      have e : pre0 ++ unlines pend ++ joinLF ([l] ++ ls) ++ tail =
          pre0 ++ joinLF (pend ++ l :: ls) ++ tail := by
        rw [joinLF_append_ne pend (l :: ls) (by simp)]
        simp
      rw [e] at h2
      rw [h1, h2, ← unlines_append]
      rfl
    · -- a sequence line
      simp only [hg, if_false]
      have h2 := ih pre0 (pend ++ [l]) (byte + l.length + 1) (line + 1)
        { r with seqLines := trimCr l :: r.seqLines }
        (by
          intro x hx
          rcases List.mem_append.mp hx with hx | hx
          · exact hp x hx
          · simp only [List.mem_singleton] at hx; subst hx; exact hl)
        hls' (by simp [hlen]; omega) hbyte
        (by rw [length_unlines_append_single, hb]; omega)
      simpa only [List.append_assoc, List.singleton_append] using h2

/-- the input is its lines joined by LF, possibly followed by one more LF -/
theorem eq_joinLF_lines (inp : List UInt8) (h : lines inp ≠ []) :
    ∃ tail, inp = joinLF (lines inp) ++ tail ∧ (tail = [] ∨ ∃ t, tail = LF :: t) := by
  have hj := joinLF_splitLF inp
  unfold lines at h ⊢
  generalize splitLF inp = ps at hj h
  simp only at h ⊢
  split
  · rename_i hl
    obtain ⟨ys, rfl⟩ := List.getLast?_eq_some_iff.mp hl
    rw [hl] at h
    simp only [List.dropLast_concat] at h ⊢
    refine ⟨[LF], ?_, Or.inr ⟨[], rfl⟩⟩
    rw [joinLF_add_LF _ h, ← hj, joinLF_append_ne _ _ (by simp)]
    simp [joinLF]
  · exact ⟨[], by rw [List.append_nil, hj], Or.inl rfl⟩

theorem lines_noLF (inp : List UInt8) : ∀ l ∈ lines inp, LF ∉ l := by
  intro l hl
  apply splitLF_pieces_noLF inp
  unfold lines at hl
  simp only at hl
  split at hl
  · exact List.dropLast_subset _ hl
  · exact hl

theorem not_blank_GT (p : List UInt8) : blank (GT :: p) = false := by
  cases p with
  | nil => simp [blank, trimCr, GT, CR]
  | cons a t =>
    simp only [blank, trimCr]
    split
    · split <;> simp
    · simp

theorem lines_head_GT (inp : List UInt8) (h : inp.head? = some GT) :
    ∃ p ps, lines inp = (GT :: p) :: ps := by
  cases inp with
  | nil => simp at h
  | cons b rest =>
    simp only [List.head?_cons, Option.some.injEq] at h
    subst h
    have hne := splitLF_ne_nil rest
    unfold lines
    simp only [splitLF, show GT ≠ LF by decide, if_false]
    cases hs : splitLF rest with
    | nil => exact absurd hs hne
    | cons q qs =>
      simp only
      split
      · cases qs with
        | nil => rename_i hl; simp at hl
        | cons q' qs' => exact ⟨q, _, List.dropLast_cons_of_ne_nil (by simp)⟩
      · exact ⟨q, qs, rfl⟩

/-- **C11, FASTA, S level, every input that starts with a header line.**  Writing each record's
extent followed by LF yields the input's lines, each terminated by LF: the input itself, with an LF
added if its last line had none. -/
theorem fasta_unchanged_lines (inp : List UInt8) (hstart : inp.head? = some GT) :
    ∃ rs, Spec.fasta inp = .records rs ∧ rs.flatMap (faOut inp) = unlines (lines inp) := by
  obtain ⟨p, ps, hl⟩ := lines_head_GT inp hstart
  obtain ⟨tail, hinp, htail⟩ := eq_joinLF_lines inp (by rw [hl]; simp)
  have hno := lines_noLF inp
  rw [hl] at hinp hno ⊢
  have ht := faGroup_tiles tail htail ps [] [GT :: p] (0 + (GT :: p).length + 1) (1 + 1)
    { byte := 0, line := 1, head := trimCr ((GT :: p).drop 1), seqLines := [] }
    (fun l hl => hno l (by simp only [List.mem_singleton] at hl; simp [hl]))
    (fun l hl => hno l (by simp [hl])) (by simp) rfl (by simp [unlines])
  rw [List.nil_append, List.singleton_append, ← hinp] at ht
  refine ⟨faGroup ((GT :: p) :: ps) 0 1 none, ?_, ?_⟩
  · unfold Spec.fasta
    rw [hl]
    simp [skipBlank, not_blank_GT]
  · rw [faGroup]
    simp only [List.head?_cons, if_true]
    exact ht

theorem unlines_physLines (tls : List (List UInt8 × Term)) (final : Bool) :
    unlines (physLines tls final) =
      encodeLines tls final ++ (if final || tls.isEmpty then [] else [LF]) := by
  fun_induction physLines tls final with
  | case1 final => simp [unlines, encodeLines]
  | case2 l t final => cases final <;> simp [unlines, encodeLines, Term.bytes_eq]
  | case3 l t x rest final ih =>
    rw [unlines_cons, ih, encodeLines, Term.bytes_eq]
    simp

theorem head?_encodeLines (l : List UInt8) (c : UInt8) (t : Term) (rest : List (List UInt8 × Term))
    (final : Bool) : (encodeLines ((c :: l, t) :: rest) final).head? = some c := by
  cases rest <;> simp [encodeLines]

/-- **C11, FASTA, S level, encoded files** (any mixture of terminators, no blank lines): writing
every record's extent followed by LF reproduces the file, plus an LF if its last line had no
terminator. -/
theorem fasta_unchanged_concat (recs : List (List UInt8 × List (List UInt8))) (hok : FaOk recs)
    (terms : Nat → Term) (final : Bool) :
    ∃ rs, Spec.fasta (encodeFasta recs terms final) = .records rs ∧
      rs.flatMap (faOut (encodeFasta recs terms final)) =
        encodeFasta recs terms final ++ (if final || recs.isEmpty then [] else [LF]) := by
  cases recs with
  | nil =>
    refine ⟨[], ?_, by simp [encodeFasta, Recode.faLines, encodeLines]⟩
    simp [encodeFasta, Recode.faLines, encodeLines, Spec.fasta, lines, splitLF, skipBlank]
  | cons p recs =>
    have hlok := faLines_ok (p :: recs) hok
    have hfst := map_fst_mapIdx (Recode.faLines (p :: recs)) terms
    unfold encodeFasta
    generalize htls : ((Recode.faLines (p :: recs)).mapIdx fun i l => (l, terms i)) = tls at hfst ⊢
    have hlines : lines (encodeLines tls final) = physLines tls final := by
      apply lines_encodeLines
      intro q hq
      have : q.1 ∈ Recode.faLines (p :: recs) := by rw [← hfst]; exact List.mem_map_of_mem hq
      exact ⟨(hlok _ this).1, (hlok _ this).2.1⟩
    have hhead : (encodeLines tls final).head? = some GT := by
      rw [Recode.faLines_cons] at hfst
      cases tls with
      | nil => simp at hfst
      | cons a tls =>
        obtain ⟨l, t⟩ := a
        simp only [List.map_cons, List.cons.injEq] at hfst
        rw [hfst.1]
        exact head?_encodeLines _ _ _ _ _
    have hne : tls.isEmpty = false := by
      cases tls with
      | nil => rw [Recode.faLines_cons] at hfst; simp at hfst
      | cons a tls => rfl
    obtain ⟨rs, h1, h2⟩ := fasta_unchanged_lines _ hhead
    refine ⟨rs, h1, ?_⟩
    rw [h2, hlines, unlines_physLines, hne]
    simp

/-- with the final terminator present the file is reproduced exactly -/
theorem fasta_unchanged_exact (recs : List (List UInt8 × List (List UInt8))) (hok : FaOk recs)
    (terms : Nat → Term) :
    ∃ rs, Spec.fasta (encodeFasta recs terms true) = .records rs ∧
      rs.flatMap (faOut (encodeFasta recs terms true)) = encodeFasta recs terms true := by
  obtain ⟨rs, h1, h2⟩ := fasta_unchanged_concat recs hok terms true
  exact ⟨rs, h1, by simpa using h2⟩

/-! ## FASTQ, S level -/

/-- what writing the item unchanged emits at the S level (nothing for the error item) -/
def fqOut (inp : List UInt8) : FqItem → List UInt8
  | .record r => rawFq inp r ++ [LF]
  | .err _ _ _ => []

/-- the extent of a terminated record, plus LF, is its encoding -/
theorem rawFq_step (p : FqContent) (hh : HeadOk p.1) (hs : FieldOk p.2.1) (hq : FieldOk p.2.2.1)
    (t : Term) (pre x : List UInt8) (r : FqRec) (hr : r.byte = pre.length) :
    rawFq (pre ++ (enc4 p t ++ x)) r ++ [LF] = enc4 p t := by
  obtain ⟨n1, n2, n3, n4⟩ := fqLines_noLF p hh hs hq
  unfold rawFq extent
  rw [hr, List.drop_left, enc4_eq, splitLF_append _ _ (lf_notin_line n1 t),
    splitLF_append _ _ (lf_notin_line n2 t), splitLF_append _ _ (lf_notin_line n3 t),
    splitLF_append _ _ (lf_notin_line n4 t)]
  have := enc4_eq p t []
  rw [List.append_nil] at this
  rw [this]
  simp [joinLF]

/-- the extent of the last record without terminator is the rest of the input -/
theorem rawFq_last (p : FqContent) (hh : HeadOk p.1) (hs : FieldOk p.2.1) (hq : FieldOk p.2.2.1)
    (t : Term) (pre : List UInt8) (r : FqRec) (hr : r.byte = pre.length) :
    rawFq (pre ++ encodeFastq [p] t false) r = encodeFastq [p] t false := by
  obtain ⟨n1, n2, n3, n4⟩ := fqLines_noLF p hh hs hq
  unfold rawFq extent
  rw [hr, List.drop_left, encodeFastq_single_false, splitLF_append _ _ (lf_notin_line n1 t),
    splitLF_append _ _ (lf_notin_line n2 t), splitLF_append _ _ (lf_notin_line n3 t),
    splitLF_noLF _ n4]
  simp [joinLF]

theorem fq_concat (recs : List FqContent) (hok : FqOk recs) (t : Term) (final : Bool)
    (e : List UInt8) (he : final = false → e = [])
    (hE : ∀ b l, fqGo false (splitLF e) b l = []) (pre : List UInt8) (line : Nat) :
    (fqGo false (splitLF (encodeFastq recs t final ++ e)) pre.length line).flatMap
        (fqOut (pre ++ (encodeFastq recs t final ++ e))) =
      encodeFastq recs t final ++ (if final || recs.isEmpty then [] else [LF]) := by
  induction recs generalizing pre line with
  | nil => simp [encodeFastq_nil, hE]
  | cons p recs ih =>
    obtain ⟨hh, hs, hq, hl⟩ := hok p (by simp)
    by_cases hc : recs ≠ [] ∨ final = true
    · have e1 := fqGo_step p hh hs hq hl t (encodeFastq recs t final ++ e) pre.length line
      have e2 := ih (fun x hx => hok x (by simp [hx])) (pre ++ enc4 p t) (line + 4)
      have hfix : (final || recs.isEmpty) = final := by
        rcases hc with h | h
        · cases recs with
          | nil => exact absurd rfl h
          | cons _ _ => simp
        · simp [h]
      rw [List.length_append] at e2
      rw [encodeFastq_cons p recs t final hc, List.append_assoc, e1, List.flatMap_cons]
      rw [List.append_assoc] at e2
      rw [e2]
      simp only [fqOut]
      rw [rawFq_step p hh hs hq t pre _ _ rfl, hfix]
      simp
    · have h1 : recs = [] := by
        apply Classical.byContradiction; intro h; exact hc (Or.inl h)
      have h2 : final = false := by
        cases final
        · rfl
        · exact absurd (Or.inr rfl) hc
      subst h1; subst h2
      rw [he rfl, List.append_nil, fqGo_last p hh hs hq hl]
      simp only [List.flatMap_cons, List.flatMap_nil, List.append_nil, fqOut]
      rw [rawFq_last p hh hs hq t pre _ rfl]
      simp

/-- **C11, FASTQ, S level.** Writing the extent of every record followed by LF reproduces the file,
plus an LF if its last line had no terminator. -/
theorem fastq_unchanged_concat (recs : List FqContent) (hok : FqOk recs) (t : Term) (final : Bool) :
    (Spec.fastq (encodeFastq recs t final)).flatMap (fqOut (encodeFastq recs t final)) =
      encodeFastq recs t final ++ (if final || recs.isEmpty then [] else [LF]) := by
  have := fq_concat recs hok t final [] (fun _ => rfl) (fun b l => fqGo_end false b l) [] 1
  unfold Spec.fastq
  simpa only [List.append_nil, List.nil_append, List.length_nil] using this

theorem encodeLines_lf_add (tls : List (List UInt8 × Term)) (h : ∀ p ∈ tls, p.2 = .lf)
    (hne : tls ≠ []) : encodeLines tls false ++ [LF] = encodeLines tls true := by
  induction tls with
  | nil => exact absurd rfl hne
  | cons a tls ih =>
    obtain ⟨l, t⟩ := a
    have ht : t = .lf := h (l, t) (by simp)
    subst ht
    cases tls with
    | nil => simp [encodeLines, Term.bytes]
    | cons b tls =>
      rw [encodeLines, encodeLines, List.append_assoc, ih (fun p hp => h p (by simp [hp])) (by simp)]

/-- an LF-terminated file without its final LF: the output is the file with that LF added -/
theorem fastq_unchanged_concat_lf (recs : List FqContent) (hok : FqOk recs) (final : Bool) :
    (Spec.fastq (encodeFastq recs .lf final)).flatMap (fqOut (encodeFastq recs .lf final)) =
      encodeFastq recs .lf true := by
  rw [fastq_unchanged_concat recs hok .lf final]
  cases final
  · cases recs with
    | nil => simp [encodeFastq_nil]
    | cons p recs =>
      simp only [Bool.false_or, List.isEmpty_cons, Bool.false_eq_true, if_false]
      unfold encodeFastq
      apply encodeLines_lf_add
      · intro q hq
        obtain ⟨l, _, rfl⟩ := List.mem_map.mp hq
        rfl
      · simpa using fqLines_ne_nil p recs
  · simp

/-- trailing blank lines are dropped -/
theorem fastq_unchanged_trailing (recs : List FqContent) (hok : FqOk recs) (t : Term) (trail : Nat)
    (htrail : trail ≤ 2) :
    (Spec.fastq (encodeFastq recs t true ++ (List.replicate trail t.bytes).flatten)).flatMap
        (fqOut (encodeFastq recs t true ++ (List.replicate trail t.bytes).flatten)) =
      encodeFastq recs t true := by
  have hE : ∀ b l, fqGo false (splitLF (List.replicate trail t.bytes).flatten) b l = [] := by
    intro b l
    have : trail = 0 ∨ trail = 1 ∨ trail = 2 := by omega
    rcases this with rfl | rfl | rfl <;> cases t <;>
      simp [List.replicate, Term.bytes, splitLF, fqGo, blank, trimCr, LF, CR]
  have := fq_concat recs hok t true _ (fun h => by cases h) hE [] 1
  unfold Spec.fastq
  simpa only [List.nil_append, List.length_nil, Bool.true_or, if_true, List.append_nil] using this

end SeqIo.Unchanged
