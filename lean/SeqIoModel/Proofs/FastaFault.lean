import SeqIoModel.Proofs.FastaFaultOps
/-!
# C14 at reader level: the first source failure surfaces in the call that hits it

`fasta_first_fault_surfaces`: for every input, capacity ≥ 3, `PolGrows` policy, ARBITRARY read
script, chunk limit and every history of operations (including seeks to record positions):

* (a) the observations before the first `Err(Io(_))` are accepted by the abstract reader A – the
  records delivered before the failure are exactly the leading records of the input (interrupted
  reads, short reads, chunking are invisible);
* (b) the first `Err(Io(k))` carries the kind of the FIRST failing event of the script;
* (c) if no I/O error is observed the whole history is accepted, and the failing event is still
  unconsumed in the script (`fasta_fault_not_swallowed`): a failure is never swallowed, never turned
  into end of input, a truncated record or a format error;
* (d) an I/O error is observed only if the script contains a failing event.
-/
open SeqIo SeqIo.FillProofs SeqIo.Spec SeqIo.Fasta.Hist

namespace SeqIo.Fasta.Fault

/-- the failing machine `m` and the clean machine `m'` -/
def SimM (p : Par) (m m' : MSt) : Prop :=
  ∃ y, NoFail y ∧ m.r.br.src.script = y ++ p.tail ∧ m' = { m with r := rws m.r (y ++ p.T) }

theorem fuelOf_rws (p : Par) (r : Reader) (y : List ReadEv) (hs : r.br.src.script = y ++ p.tail) :
    fuelOf (rws r (y ++ p.T)) = fuelOf r := by
  simp only [fuelOf, rws, bws, hs, List.length_append, p.tail_len]

theorem obsNext_rws (r : Reader) (s : List ReadEv) (res : Res Bool) :
    obsNext (rws r s) res = obsNext r res := by
  cases res with
  | ok b => cases b <;> rfl
  | err e => rfl
  | panic => rfl
  | fuel => rfl

theorem obsOwned_rws (r : Reader) (s : List ReadEv) (res : Res Bool) :
    obsOwned (rws r s) res = obsOwned r res := by
  cases res with
  | ok b => cases b <;> rfl
  | err e => rfl
  | panic => rfl
  | fuel => rfl

/-- one operation on both machines: the same observation and again corresponding states, or the
failing machine observes the first failing event -/
def StepSim (p : Par) (x x' : MSt × ObsH) : Prop :=
  (x.2 = x'.2 ∧ SimM p x.1 x'.1) ∨ x.2 = .error (.io p.k)

theorem step_sim_read (p : Par) (m : MSt) (y : List ReadEv) (hy : NoFail y)
    (hs : m.r.br.src.script = y ++ p.tail) (obsF : Reader → Res Bool → ObsH)
    (hobs : ∀ r s res, obsF (rws r s) res = obsF r res)
    (herr : ∀ r k, obsF r (.err (.io k)) = .error (.io k)) :
    StepSim p
      ({ m with r := (next (fuelOf m.r) m.r).1 }, obsF (next (fuelOf m.r) m.r).1 (next (fuelOf m.r) m.r).2)
      ({ m with r := (next (fuelOf m.r) (rws m.r (y ++ p.T))).1 },
        obsF (next (fuelOf m.r) (rws m.r (y ++ p.T))).1 (next (fuelOf m.r) (rws m.r (y ++ p.T))).2) := by
  rcases next_sim p (fuelOf m.r) m.r y hy hs with ⟨y', hy', hs', h⟩ | h
  · rw [h]
    exact Or.inl ⟨(hobs _ _ _).symm, y', hy', hs', rfl⟩
  · right
    show obsF _ (next (fuelOf m.r) m.r).2 = _
    rw [h]
    exact herr _ _

theorem step_sim (p : Par) (m m' : MSt) (h : SimM p m m') (op : Op) :
    StepSim p (stepM m op) (stepM m' op) := by
  obtain ⟨y, hy, hs, rfl⟩ := h
  have hfu := fuelOf_rws p m.r y hs
  cases op with
  | next =>
    have := step_sim_read p m y hy hs obsNext obsNext_rws (fun _ _ => rfl)
    simp only [stepM, hfu]
    exact this
  | owned =>
    have := step_sim_read p m y hy hs obsOwned obsOwned_rws (fun _ _ => rfl)
    simp only [stepM, hfu]
    exact this
  | pos => exact Or.inl ⟨rfl, y, hy, hs, rfl⟩
  | dump j =>
    simp only [stepM]
    cases m.sets[j]? with
    | none => exact Or.inl ⟨rfl, y, hy, hs, rfl⟩
    | some rs => exact Or.inl ⟨rfl, y, hy, hs, rfl⟩
  | seekRec i =>
    simp only [stepM]
    have : (rws m.r (y ++ p.T)).br.src.inp = m.r.br.src.inp := rfl
    rw [this]
    cases (items m.r.br.src.inp).recs[i]? with
    | none => exact Or.inl ⟨rfl, y, hy, hs, rfl⟩
    | some rc =>
      simp only
      rcases seek_sim p m.r rc.line rc.byte y hy hs with ⟨y', hy', hs', h⟩ | h
      · rw [h]
        exact Or.inl ⟨rfl, y', hy', hs', rfl⟩
      · right
        show obsSeek (seek m.r rc.line rc.byte).2 = _
        rw [h]
        rfl
  | set j n =>
    by_cases hn : n = some 0
    · subst hn
      exact Or.inl ⟨rfl, y, hy, hs, rfl⟩
    · cases hj : m.sets[j]? with
      | none =>
        rw [stepM_set_none hn hj, stepM_set_none (m := { m with r := rws m.r (y ++ p.T) }) hn hj]
        exact Or.inl ⟨rfl, y, hy, hs, rfl⟩
      | some rs =>
        rw [stepM_set_some hn hj, stepM_set_some (m := { m with r := rws m.r (y ++ p.T) }) hn hj]
        simp only [hfu]
        rcases readSet_sim p (fuelOf m.r) m.r rs n y hy hs with ⟨y', hy', hs', h⟩ | h
        · rw [h]
          exact Or.inl ⟨rfl, y', hy', hs', rfl⟩
        · right
          show obsSet _ (readRecordSetExact (fuelOf m.r) m.r rs n).2.2 = _
          rw [h]
          rfl

/-! ## whole histories -/

/-- the machine state after a history -/
def endM (m : MSt) : List Op → MSt
  | [] => m
  | op :: ops => endM (stepM m op).1 ops

/-- the two machines agree up to the operation that hits the failing event -/
theorem run_sim (p : Par) : ∀ (ops : List Op) (m m' : MSt), SimM p m m' →
    ∃ j, j ≤ ops.length ∧ (runM m ops).take j = (runM m' ops).take j ∧
      (j < ops.length → (runM m ops)[j]? = some (.error (.io p.k))) ∧
      (j = ops.length → ∃ y, NoFail y ∧ (endM m ops).r.br.src.script = y ++ p.tail) := by
  intro ops
  induction ops with
  | nil =>
    intro m m' h
    obtain ⟨y, hy, hs, _⟩ := h
    exact ⟨0, Nat.le_refl _, rfl, fun h => absurd h (Nat.lt_irrefl _), fun _ => ⟨y, hy, hs⟩⟩
  | cons op ops ih =>
    intro m m' h
    rcases step_sim p m m' h op with ⟨hobs, hsim⟩ | hio
    · obtain ⟨j, hj, htake, hlim, hend⟩ := ih _ _ hsim
      refine ⟨j + 1, by simp only [List.length_cons]; omega, ?_, ?_, ?_⟩
      · rw [runM, runM, List.take_succ_cons, List.take_succ_cons, hobs, htake]
      · intro hlt
        rw [runM, List.getElem?_cons_succ]
        exact hlim (by simp only [List.length_cons] at hlt; omega)
      · intro hje
        exact hend (by simp only [List.length_cons] at hje; omega)
    · refine ⟨0, Nat.zero_le _, rfl, fun _ => ?_, fun h => ?_⟩
      · rw [runM, List.getElem?_cons_zero, hio]
      · simp at h

theorem runA_take (it : Items) : ∀ (ops : List Op) (os : List ObsH) (a : AState) (j : Nat),
    runA it a ops os = true → runA it a (ops.take j) (os.take j) = true := by
  intro ops
  induction ops with
  | nil =>
    intro os a j h
    cases os with
    | nil => simp [runA]
    | cons o os => simp [runA] at h
  | cons op ops ih =>
    intro os a j h
    cases os with
    | nil => simp [runA] at h
    | cons o os =>
      cases j with
      | zero => rfl
      | succ j =>
        simp only [runA] at h
        cases hacc : acceptA it a op o with
        | none => rw [hacc] at h; cases h
        | some a' =>
          rw [hacc] at h
          simp only [List.take_succ_cons, runA, hacc]
          exact ih os a' j h

/-- an observation of the form `Err(Io(_))` -/
def isIoErr : ObsH → Bool
  | .error (.io _) => true
  | _ => false

theorem items_err_form (inp : List UInt8) (e : Err) (h : (items inp).err = some e) :
    ∃ ln c, e = .invalidStart ln c := by
  unfold items at h
  split at h
  · cases h
  · simp only [Option.some.injEq] at h
    exact ⟨_, _, h.symm⟩

theorem errDue_form (inp : List UInt8) (a : AState) (e : Err) (h : errDue (items inp) a = some e) :
    ∃ ln c, e = .invalidStart ln c := by
  unfold errDue at h
  split at h
  · cases h
  · exact items_err_form inp e h

/-- A never accepts an I/O error -/
theorem accept_not_io (inp : List UInt8) (a a' : AState) (op : Op) (o : ObsH)
    (h : acceptA (items inp) a op o = some a') : isIoErr o = false := by
  cases o with
  | error e =>
    cases e with
    | io k =>
      exfalso
      cases op with
      | next =>
        simp only [acceptA] at h
        split at h
        · rename_i e he
          obtain ⟨ln, c, rfl⟩ := errDue_form inp a e he
          simp at h
        · split at h <;> simp at h
      | owned =>
        simp only [acceptA] at h
        split at h
        · rename_i e he
          obtain ⟨ln, c, rfl⟩ := errDue_form inp a e he
          simp at h
        · split at h <;> simp at h
      | set j n =>
        cases n with
        | none =>
          simp only [acceptA] at h
          split at h
          · split at h
            · rename_i e he
              obtain ⟨ln, c, rfl⟩ := errDue_form inp a e he
              simp at h
            · simp at h
          · simp at h
        | some n' =>
          cases n' with
          | zero => simp [acceptA] at h
          | succ n'' =>
            simp only [acceptA] at h
            split at h
            · split at h
              · rename_i e he
                obtain ⟨ln, c, rfl⟩ := errDue_form inp a e he
                simp at h
              · simp at h
            · simp at h
      | dump j =>
        simp only [acceptA] at h
        split at h <;> simp at h
      | pos => simp [acceptA] at h
      | seekRec i =>
        simp only [acceptA] at h
        split at h <;> simp at h
    | invalidStart ln c => rfl
    | bufferLimit => rfl
  | record _ _ => rfl
  | owned _ _ => rfl
  | batch _ => rfl
  | dump _ => rfl
  | pos _ => rfl
  | done => rfl
  | none => rfl
  | panic => rfl
  | fuel => rfl

theorem runA_no_io (inp : List UInt8) : ∀ (ops : List Op) (os : List ObsH) (a : AState),
    runA (items inp) a ops os = true → ∀ o ∈ os, isIoErr o = false := by
  intro ops
  induction ops with
  | nil =>
    intro os a h o ho
    cases os with
    | nil => cases ho
    | cons _ _ => simp [runA] at h
  | cons op ops ih =>
    intro os a h o ho
    cases os with
    | nil => cases ho
    | cons o1 os =>
      simp only [runA] at h
      cases hacc : acceptA (items inp) a op o1 with
      | none => rw [hacc] at h; cases h
      | some a' =>
        rw [hacc] at h
        rcases List.mem_cons.mp ho with rfl | ho
        · exact accept_not_io inp a a' op _ hacc
        · exact ih os a' h o ho

/-! ## the theorems -/

theorem first_fail_split (script : List ReadEv) :
    NoFail script ∨ ∃ y k rest, script = y ++ ReadEv.fail k :: rest ∧ NoFail y := by
  induction script with
  | nil => exact Or.inl noFail_nil
  | cons e s ih =>
    cases e with
    | fail k => exact Or.inr ⟨[], k, s, rfl, noFail_nil⟩
    | data n =>
      rcases ih with h | ⟨y, k, rest, hs, hy⟩
      · exact Or.inl (noFail_append (noFail_data n) h)
      · exact Or.inr ⟨.data n :: y, k, rest, by rw [hs]; rfl, noFail_append (noFail_data n) hy⟩
    | intr =>
      rcases ih with h | ⟨y, k, rest, hs, hy⟩
      · exact Or.inl (noFail_append noFail_intr h)
      · exact Or.inr ⟨.intr :: y, k, rest, by rw [hs]; rfl, noFail_append noFail_intr hy⟩

theorem noFail_replicate_intr (n : Nat) : NoFail (List.replicate n ReadEv.intr) := by
  intro e he k
  rw [List.mem_replicate] at he
  rw [he.2]
  intro h; cases h

theorem runM_length : ∀ (ops : List Op) (m : MSt), (runM m ops).length = ops.length := by
  intro ops
  induction ops with
  | nil => intro m; rfl
  | cons op ops ih => intro m; simp only [runM, List.length_cons, ih]

/-- the failing event of a script `y ++ fail k :: rest`, packaged -/
def parOf (k : IoKind) (rest : List ReadEv) : Par :=
  { k := k, rest := rest, T := List.replicate (rest.length + 1) .intr,
    nofail := noFail_replicate_intr _, len := List.length_replicate }

/-- the core: with first failing event `fail k` behind the failure-free prefix `y`, the history
is accepted up to some operation `j`, which observes `Err(Io(k))`; if there is no such operation
the failing event has not been consumed -/
theorem fault_core (inp : List UInt8) (cap : Nat) (hcap : 3 ≤ cap) (pol : Pol) (hpol : PolGrows pol)
    (y : List ReadEv) (hy : NoFail y) (k : IoKind) (rest : List ReadEv) (chunk : Nat) (ops : List Op) :
    ∃ j, j ≤ ops.length ∧
      runA (items inp) aInit (ops.take j)
        ((runM (mkMSt inp cap pol (y ++ .fail k :: rest) chunk) ops).take j) = true ∧
      (∀ i o, i < j → (runM (mkMSt inp cap pol (y ++ .fail k :: rest) chunk) ops)[i]? = some o →
        isIoErr o = false) ∧
      (j < ops.length →
        (runM (mkMSt inp cap pol (y ++ .fail k :: rest) chunk) ops)[j]? = some (.error (.io k))) ∧
      (j = ops.length → ∃ y', NoFail y' ∧
        (endM (mkMSt inp cap pol (y ++ .fail k :: rest) chunk) ops).r.br.src.script =
          y' ++ .fail k :: rest) := by
  let p := parOf k rest
  have hsim : SimM p (mkMSt inp cap pol (y ++ .fail k :: rest) chunk)
      (mkMSt inp cap pol (y ++ p.T) chunk) := ⟨y, hy, rfl, rfl⟩
  obtain ⟨j, hj, htake, hlim, hend⟩ := run_sim p ops _ _ hsim
  have hacc := fasta_history_accepted inp cap hcap pol hpol (y ++ p.T)
    (noFail_append hy p.nofail) chunk ops
  have hnoio := runA_no_io inp ops _ aInit hacc
  refine ⟨j, hj, ?_, ?_, hlim, hend⟩
  · rw [htake]
    exact runA_take _ ops _ aInit j hacc
  · intro i o hi ho
    have h1 : ((runM (mkMSt inp cap pol (y ++ .fail k :: rest) chunk) ops).take j)[i]? = some o := by
      rw [List.getElem?_take, if_pos hi]; exact ho
    rw [htake, List.getElem?_take, if_pos hi] at h1
    exact hnoio o (mem_of_getElem? h1)

/-- **C14 at reader level.** -/
theorem fasta_first_fault_surfaces (inp : List UInt8) (cap : Nat) (hcap : 3 ≤ cap) (pol : Pol)
    (hpol : PolGrows pol) (script : List ReadEv) (chunk : Nat) (ops : List Op) :
    -- (c) no I/O error observed: the whole history is accepted
    ((∀ o ∈ runM (mkMSt inp cap pol script chunk) ops, isIoErr o = false) →
      runA (items inp) aInit ops (runM (mkMSt inp cap pol script chunk) ops) = true) ∧
    -- (a), (b) the first I/O error: everything before it is accepted, and it carries the kind of
    -- the first failing event of the script
    (∀ j o, (runM (mkMSt inp cap pol script chunk) ops)[j]? = some o → isIoErr o = true →
      (∀ i o', i < j → (runM (mkMSt inp cap pol script chunk) ops)[i]? = some o' →
        isIoErr o' = false) →
      runA (items inp) aInit (ops.take j) ((runM (mkMSt inp cap pol script chunk) ops).take j) = true ∧
      ∃ used k rest, script = used ++ .fail k :: rest ∧ NoFail used ∧ o = .error (.io k)) ∧
    -- (d) no failing event in the script: no I/O error is ever observed
    (NoFail script → ∀ o ∈ runM (mkMSt inp cap pol script chunk) ops, isIoErr o = false) := by
  have hd : NoFail script → ∀ o ∈ runM (mkMSt inp cap pol script chunk) ops, isIoErr o = false :=
    fun hs => runA_no_io inp ops _ aInit (fasta_history_accepted inp cap hcap pol hpol script hs chunk ops)
  rcases first_fail_split script with hs | ⟨y, k, rest, rfl, hy⟩
  · refine ⟨fun _ => fasta_history_accepted inp cap hcap pol hpol script hs chunk ops, ?_, hd⟩
    intro j o ho hio _
    have := hd hs o (mem_of_getElem? ho)
    rw [hio] at this
    cases this
  · obtain ⟨j0, hj0, hacc, hnoio, hlim, _⟩ := fault_core inp cap hcap pol hpol y hy k rest chunk ops
    have hlen := runM_length ops (mkMSt inp cap pol (y ++ .fail k :: rest) chunk)
    refine ⟨?_, ?_, hd⟩
    · intro hall
      have hje : j0 = ops.length := by
        rcases Nat.lt_or_ge j0 ops.length with hlt | hge
        · have := hall _ (mem_of_getElem? (hlim hlt))
          cases this
        · omega
      rw [hje] at hacc
      rw [List.take_of_length_le (Nat.le_refl _), List.take_of_length_le (by rw [hlen]; exact Nat.le_refl _)] at hacc
      exact hacc
    · intro j o ho hio hfirst
      have hjlt : j < ops.length := by
        rcases Nat.lt_or_ge j ops.length with h | h
        · exact h
        · rw [List.getElem?_eq_none (by rw [hlen]; exact h)] at ho; cases ho
      have hge : j0 ≤ j := by
        rcases Nat.lt_or_ge j j0 with h | h
        · have := hnoio j o h ho
          rw [hio] at this; cases this
        · exact h
      have hle : j ≤ j0 := by
        rcases Nat.lt_or_ge j0 j with h | h
        · have := hfirst j0 _ h (hlim (by omega))
          cases this
        · exact h
      have hjj : j = j0 := by omega
      subst hjj
      refine ⟨hacc, y, k, rest, rfl, hy, ?_⟩
      have := hlim hjlt
      rw [ho] at this
      exact Option.some.inj this

/-- a failure is never swallowed: if no I/O error has been observed, the first failing event of
the script has not been consumed by any read -/
theorem fasta_fault_not_swallowed (inp : List UInt8) (cap : Nat) (hcap : 3 ≤ cap) (pol : Pol)
    (hpol : PolGrows pol) (y : List ReadEv) (hy : NoFail y) (k : IoKind) (rest : List ReadEv)
    (chunk : Nat) (ops : List Op)
    (hall : ∀ o ∈ runM (mkMSt inp cap pol (y ++ .fail k :: rest) chunk) ops, isIoErr o = false) :
    ∃ y', NoFail y' ∧
      (endM (mkMSt inp cap pol (y ++ .fail k :: rest) chunk) ops).r.br.src.script =
        y' ++ .fail k :: rest := by
  obtain ⟨j0, hj0, _, _, hlim, hend⟩ := fault_core inp cap hcap pol hpol y hy k rest chunk ops
  apply hend
  rcases Nat.lt_or_ge j0 ops.length with hlt | hge
  · have := hall _ (mem_of_getElem? (hlim hlt))
    cases this
  · omega

end SeqIo.Fasta.Fault
