import SeqIoModel.Proofs.FastaHistoryFWin
/-!
# FASTA histories under I/O failures, part 2: the weak reader invariant, `next`, `seek`

`WRInv inp r`: `r` is a state that some history of calls can leave behind when refills may fail
and the policy may refuse.  Nothing is said about WHICH record comes next (after a failure
records may be skipped) – only that a pending record is a record of S.
-/
open SeqIo SeqIo.FillProofs SeqIo.Spec

namespace SeqIo.Fasta.Hist

/-! ## `first_byte` -/

/-- the blank lines skipped so far are the ones S skips -/
def SkipRel (inp : List UInt8) (r : Reader) : Prop :=
  skipBlank (lines inp) 0 1 = skipBlank (lines (inp.drop (base r))) (base r) (r.line + 1)

theorem firstByte_succ_err (f : Nat) (r : Reader) (br : BufRd) (k : IoKind)
    (h : fillBuf r.br = (br, .error k)) :
    firstByte (f + 1) r = ({ r with br := br }, .err (.io k)) := by
  rw [firstByte]
  simp only [h]

/-- what `first_byte` reports when it finds a non-blank line -/
def FoundF (inp : List UInt8) (r' : Reader) (ln pos : Nat) (c : UInt8) : Prop :=
  Eof inp r' ∧ pos < r'.br.buf.length ∧ (inp.drop (pos + base r')).head? = some c ∧
  skipBlank (lines inp) 0 1 = (lines (inp.drop (pos + base r')), pos + base r', ln) ∧
  ∃ l ls, lines (inp.drop (pos + base r')) = l :: ls ∧ l.head? = some c

theorem firstByteF {inp : List UInt8} : ∀ (fuel : Nat) (r : Reader), WinR inp r → r.byte = base r →
    SkipRel inp r → inp.length - r.br.src.cursor < fuel →
    ∃ r' res, firstByte fuel r = (r', res) ∧ r'.pol = r.pol ∧ r'.bp = r.bp ∧
      r'.searchPos = r.searchPos ∧ r'.state = r.state ∧ WinR inp r' ∧ r'.byte = base r' ∧
      SkipRel inp r' ∧
      ((∃ k, res = .err (.io k)) ∨ res = .ok none ∨
       (∃ ln pos c, res = .ok (some (ln, pos, c)) ∧ FoundF inp r' ln pos c)) := by
  intro fuel
  induction fuel with
  | zero => intro r _ _ _ h; omega
  | succ f ih =>
    intro r hw hbyte hskip hfuel
    have hcl := hw.b.cur_le
    rcases fill_winF hw.b with ⟨br2, n, hfill, hwb2, heof2, hbase2, hcap2, hlen2, hcur2, hn, _⟩ |
      ⟨br2, k, hfill, hwb2, hbase2, hcap2, hlen2, _, _⟩
    · have hw2 : WinR inp { r with br := br2 } := ⟨hwb2, hw.pol⟩
      have hb2 : base { r with br := br2 } = base r := hbase2
      have hbyte2 : ({ r with br := br2 } : Reader).byte = base { r with br := br2 } := by
        rw [hb2]; exact hbyte
      have hskip2 : SkipRel inp { r with br := br2 } := by
        unfold SkipRel; rw [hb2]; exact hskip
      by_cases hn0 : n = 0
      · subst hn0
        exact ⟨{ r with br := br2 }, .ok none, firstByte_succ_zero f r br2 hfill, rfl, rfl, rfl, rfl,
          hw2, hbyte2, hskip2, Or.inr (Or.inl rfl)⟩
      · rw [firstByte_succ_ok f r br2 n hn0 hfill]
        have hwin2 : inp.drop (base r) = br2.buf ++ inp.drop br2.src.cursor := by
          have := hwb2.win
          rw [hbase2] at this
          exact this
        have hbs := blank_spec br2.buf (inp.drop br2.src.cursor) r.line 0 0 (base r)
        rw [← hwin2] at hbs
        generalize hsb : scanBlank (splitLF br2.buf) r.line 0 0 = sb at hbs
        cases sb with
        | inl x =>
          obtain ⟨ln', pos', c⟩ := x
          simp only [Nat.sub_zero] at hbs
          obtain ⟨_, hpos, hsk, hhead, hl⟩ := hbs
          refine ⟨{ r with br := br2 }, .ok (some (ln', pos', c)), rfl, rfl, rfl, rfl, rfl, hw2, hbyte2,
            hskip2, Or.inr (Or.inr ⟨ln', pos', c, rfl, ?_⟩)⟩
          have e : (inp.drop (base r)).drop pos' = inp.drop (pos' + base r) := by
            rw [List.drop_drop, Nat.add_comm]
          rw [e] at hsk hl
          refine ⟨heof2, hpos, ?_, ?_, ?_⟩
          · show (inp.drop (pos' + baseB br2)).head? = some c
            rw [win_dropF hwb2 pos' (by omega), List.head?_append, hhead]
            rfl
          · rw [hb2, hskip, hsk, Nat.add_comm]
          · rw [hb2]; exact hl
        | inr x =>
          obtain ⟨ln', pos', ll⟩ := x
          obtain ⟨hpos, hll1, hllw, hln, hsm, hsl, hsk⟩ := hbs
          have hc1 : csub pos' (1 + ll) = some (br2.buf.length - ll) := by
            unfold csub
            rw [if_pos (by omega)]
            congr 1
            omega
          have hc2 : csub ln' 1 = some (ln' - 1) := by
            unfold csub
            rw [if_pos hln]
          simp only [hc1, hc2]
          have hcle : br2.buf.length - ll ≤ br2.buf.length := by omega
          obtain ⟨hwb3, hbase3⟩ := consume_winF hwb2 (br2.buf.length - ll) hcle
          have hb3 : base
              { r with line := ln' - 1, byte := r.byte + (br2.buf.length - ll),
                       br := br2.consume (br2.buf.length - ll) } =
              base r + (br2.buf.length - ll) := by
            show baseB (br2.consume _) = _
            rw [hbase3, hbase2]; rfl
          have hskip3 : SkipRel inp
              { r with line := ln' - 1, byte := r.byte + (br2.buf.length - ll),
                       br := br2.consume (br2.buf.length - ll) } := by
            unfold SkipRel
            rw [hb3]
            show skipBlank (lines inp) 0 1 =
              skipBlank (lines (inp.drop (base r + (br2.buf.length - ll))))
                (base r + (br2.buf.length - ll)) (ln' - 1 + 1)
            have e1 : ln' - 1 + 1 = ln' := by omega
            have e2 : base r + (br2.buf.length - ll) = base r + br2.buf.length - ll := by omega
            have e3 : inp.drop (base r + br2.buf.length - ll) =
                br2.buf.drop (br2.buf.length - ll) ++ inp.drop br2.src.cursor := by
              rw [← win_dropF hwb2 _ hcle, hbase2]
              congr 1
              unfold base; omega
            rw [e1, e2, e3, hskip, hsk]
          obtain ⟨r', res, hres, hpol', hbp', hsp', hst', hw', hbyte', hskip', hcase⟩ := ih
            { r with line := ln' - 1, byte := r.byte + (br2.buf.length - ll),
                     br := br2.consume (br2.buf.length - ll) }
            ⟨hwb3, hw.pol⟩ (by rw [hb3, hbyte]) hskip3
            (by show inp.length - br2.src.cursor < f; rw [hcur2]; omega)
          exact ⟨r', res, hres, hpol', hbp', hsp', hst', hw', hbyte', hskip', hcase⟩
    · refine ⟨{ r with br := br2 }, _, firstByte_succ_err f r br2 k hfill, rfl, rfl, rfl, rfl,
        ⟨hwb2, hw.pol⟩, ?_, ?_, Or.inl ⟨k, rfl⟩⟩
      · show r.byte = baseB br2; rw [hbase2]; exact hbyte
      · unfold SkipRel
        show _ = skipBlank (lines (inp.drop (baseB br2))) (baseB br2) (r.line + 1)
        rw [hbase2]; exact hskip

/-! ## the weak reader invariant -/

structure NewF (inp : List UInt8) (r : Reader) : Prop where
  win : WinR inp r
  byte_eq : r.byte = base r
  skip : SkipRel inp r
  sq : r.bp.seqPos = []
  start : r.bp.start = 0

/-- some record of S is pending: it starts at `r.byte` (line `r.line`) -/
structure ReadyF (inp : List UInt8) (r : Reader) : Prop where
  win : WinR inp r
  scan : ScanSt inp r r.byte
  pt : ∃ k, Pt inp k r.byte r.line

structure ParsedF (inp : List UInt8) (r : Reader) : Prop where
  win : WinR inp r
  eof : Eof inp r
  start_le : r.bp.start ≤ r.searchPos
  sp_le : r.searchPos ≤ r.br.buf.length
  byte_eq : r.byte = r.bp.start + base r
  pt : ∃ k, Pt inp k (r.searchPos + base r) (r.line + r.bp.seqPos.length)

inductive WRInv (inp : List UInt8) : Reader → Prop
  | fresh {r : Reader} : NewF inp r → r.state = .new → WRInv inp r
  | parsing {r : Reader} : ParsedF inp r → r.state = .parsing → WRInv inp r
  | positioned {r : Reader} : ReadyF inp r → Eof inp r → r.state = .positioned → WRInv inp r
  | incomplete {r : Reader} : ReadyF inp r → r.state = .incomplete → WRInv inp r
  | finished {r : Reader} : WinR inp r → r.byte = r.bp.start + base r → r.state = .finished →
      WRInv inp r

theorem WRInv.win {inp : List UInt8} {r : Reader} (h : WRInv inp r) : WinR inp r := by
  cases h with
  | fresh h _ => exact h.win
  | parsing h _ => exact h.win
  | positioned h _ _ => exact h.win
  | incomplete h _ => exact h.win
  | finished h _ _ => exact h

theorem WRInv.byte_eq {inp : List UInt8} {r : Reader} (h : WRInv inp r) :
    r.byte = r.bp.start + base r := by
  cases h with
  | fresh h _ => rw [h.byte_eq, h.start]; omega
  | parsing h _ => exact h.byte_eq
  | positioned h _ _ => exact h.scan.start_eq.symm
  | incomplete h _ => exact h.scan.start_eq.symm
  | finished _ h _ => exact h

/-- the invariant survives a change of the buffer that keeps it a window with the same base -/
theorem wrinv_extend {inp : List UInt8} {r : Reader} (h : WRInv inp r) (br2 : BufRd)
    (hwb2 : WinF inp br2) (hbase : baseB br2 = baseB r.br) (hlen : r.br.buf.length ≤ br2.buf.length)
    (heof : EofB inp r.br → EofB inp br2) : WRInv inp { r with br := br2 } := by
  have hb : base { r with br := br2 } = base r := hbase
  cases h with
  | fresh h hst =>
    refine WRInv.fresh ⟨⟨hwb2, h.win.pol⟩, ?_, ?_, h.sq, h.start⟩ hst
    · show r.byte = base { r with br := br2 }; rw [hb]; exact h.byte_eq
    · unfold SkipRel; rw [hb]; exact h.skip
  | parsing h hst =>
    refine WRInv.parsing ⟨⟨hwb2, h.win.pol⟩, heof h.eof, h.start_le, ?_, ?_, ?_⟩ hst
    · show r.searchPos ≤ br2.buf.length; have := h.sp_le; omega
    · show r.byte = r.bp.start + base { r with br := br2 }; rw [hb]; exact h.byte_eq
    · show ∃ k, Pt inp k (r.searchPos + base { r with br := br2 }) _; rw [hb]; exact h.pt
  | positioned h he hst =>
    exact WRInv.positioned ⟨⟨hwb2, h.win.pol⟩, scanSt_of_br h.scan hb rfl rfl hlen, h.pt⟩ (heof he) hst
  | incomplete h hst =>
    exact WRInv.incomplete ⟨⟨hwb2, h.win.pol⟩, scanSt_of_br h.scan hb rfl rfl hlen, h.pt⟩ hst
  | finished h hbyte hst =>
    refine WRInv.finished ⟨hwb2, h.pol⟩ ?_ hst
    show r.byte = r.bp.start + base { r with br := br2 }; rw [hb]; exact hbyte

/-! ## a record that is shown to the caller -/

/-- the record the reader currently points to is a record of S -/
def GenRec (inp : List UInt8) (r' : Reader) : Prop :=
  ∃ rc ∈ recsOf inp, viewRec r'.br.buf r'.bp = some (view rc) ∧
    head r'.br.buf r'.bp = some rc.head ∧ ownedSeq r'.br.buf r'.bp = some rc.seq

theorem mem_of_getElem? {α : Type} {l : List α} {i : Nat} {x : α} (h : l[i]? = some x) : x ∈ l := by
  rcases Nat.lt_or_ge i l.length with h' | h'
  · rw [List.getElem?_eq_getElem h'] at h
    cases h
    exact List.getElem_mem h'
  · rw [List.getElem?_eq_none h'] at h; cases h

theorem recDone_coreF {inp : List UInt8} {r' : Reader} {k : Nat} (hw' : WinR inp r')
    (he' : Eof inp r') (hd : RecDone inp r' r'.byte) (hp : Pt inp k r'.byte r'.line) :
    GenRec inp r' ∧
      ((ParsedF inp r' ∧ r'.state ≠ .finished) ∨
       (r'.state = .finished ∧ r'.byte = r'.bp.start + base r')) := by
  obtain ⟨rc, hk, hby, hln, hH, hSL, hne⟩ :=
    view_of_recAt hw'.b.base_le hw'.b.win (recAt_of_recDone hd) hp
  refine ⟨⟨rc, mem_of_getElem? hk, viewRec_of hH hSL, hH, ownedSeq_of hSL⟩, ?_⟩
  obtain ⟨_, _, _, _, _, _, hfound, hnot⟩ := pt_step hp
  have hlen : (finalPos (scan (inp.drop r'.byte) r'.byte [])).length = r'.bp.seqPos.length := by
    rw [← hd.fin, List.length_map]
  cases hf : (scan (inp.drop r'.byte) r'.byte []).1 with
  | true =>
    obtain ⟨hsp, hsl, hsple⟩ := hd.nxt hf
    have hnf : r'.state ≠ .finished := by
      intro h
      have := hd.st.mp h
      rw [hf] at this
      cases this
    have hp1 := hfound hf
    rw [hsp, hlen] at hp1
    exact Or.inl ⟨⟨hw', he', hsl, hsple, by rw [← hd.start_eq], ⟨_, hp1⟩⟩, hnf⟩
  | false =>
    exact Or.inr ⟨hd.st.mpr hf, by rw [← hd.start_eq]⟩

/-! ## `next` -/

/-- the second half of `next` from a pending record, arbitrary script -/
theorem nextContF {inp : List UInt8} {r : Reader} {fuel : Nat} (h : ReadyF inp r)
    (hst : (r.state = .parsing ∧ Eof inp r) ∨ r.state = .incomplete) (hfuel : inp.length < fuel) :
    ∃ r' res, nextCont fuel r = (r', res) ∧ r'.pol.f = r.pol.f ∧ WRInv inp r' ∧ r'.state ≠ .new ∧
      ((res = .ok true ∧ GenRec inp r') ∨ IoOrLimit res) := by
  have hcl := h.win.b.cur_le
  obtain ⟨k, hpt⟩ := h.pt
  -- the end of both paths: the record has been found completely
  have hdone : ∀ r2 : Reader, WinR inp r2 → Eof inp r2 → RecDone inp r2 r.byte → r2.line = r.line →
      r2.byte = r.byte → (r2.state = .parsing ∨ r2.state = .finished) →
      WRInv inp r2 ∧ r2.state ≠ .new ∧ GenRec inp r2 := by
    intro r2 hw2 he2 hd2 hl2 hb2 hst2
    obtain ⟨hg, hcase⟩ := recDone_coreF hw2 he2 (by rw [hb2]; exact hd2) (by rw [hb2, hl2]; exact hpt)
    refine ⟨?_, ?_, hg⟩
    · rcases hcase with ⟨hpar, hnf⟩ | ⟨hfin, hbyte⟩
      · rcases hst2 with h' | h'
        · exact WRInv.parsing hpar h'
        · exact absurd h' hnf
      · exact WRInv.finished hw2 hbyte hfin
    · rcases hst2 with h' | h' <;> rw [h'] <;> intro h'' <;> cases h''
  have hresume : ∀ r1 : Reader, r1.pol.f = r.pol.f → WinR inp r1 → ScanSt inp r1 r.byte →
      r1.state = .incomplete → r1.line = r.line → r1.byte = r.byte →
      r1.br.src.cursor = r.br.src.cursor →
      ∃ r' res, (match resume fuel true r1 with
          | (r2, .ok true) => (if r2.state ≠ .finished then { r2 with state := .parsing } else r2, Out.ok true)
          | (r2, o) => (r2, o)) = (r', res) ∧ r'.pol.f = r.pol.f ∧ WRInv inp r' ∧ r'.state ≠ .new ∧
        ((res = .ok true ∧ GenRec inp r') ∨ IoOrLimit res) := by
    intro r1 hpf1 hw1 hs1 hst1 hl1 hb1 hcur1
    obtain ⟨r2, res2, hres, hpf2, hw2, hl2, hb2, _, hcase⟩ :=
      resumeF true fuel r1 r.byte hw1 hs1 hst1 (by rw [hcur1]; omega)
    rw [hres]
    rcases hcase with ⟨hr, he2, hd2, hst2, _⟩ | ⟨hio, hs2, hst2⟩
    · subst hr
      rcases hst2 with h2 | h2
      · have hnf : r2.state ≠ .finished := by rw [h2]; intro h; cases h
        obtain ⟨h1, h3, h4⟩ := hdone { r2 with state := .parsing } ⟨hw2.b, hw2.pol⟩ he2
          (recDone_parsing hd2 hnf) (by show r2.line = _; rw [hl2, hl1]) (by show r2.byte = _; rw [hb2, hb1])
          (Or.inl rfl)
        exact ⟨{ r2 with state := .parsing }, .ok true, by simp only [hnf, ne_eq, not_false_eq_true, if_true],
          by show r2.pol.f = _; rw [hpf2, hpf1], h1, h3, Or.inl ⟨rfl, h4⟩⟩
      · obtain ⟨h1, h3, h4⟩ := hdone r2 hw2 he2 hd2 (by rw [hl2, hl1]) (by rw [hb2, hb1]) (Or.inr h2)
        exact ⟨r2, .ok true, by simp only [h2, ne_eq, not_true_eq_false, if_false],
          by rw [hpf2, hpf1], h1, h3, Or.inl ⟨rfl, h4⟩⟩
    · have hres2 : ∀ b, res2 ≠ .ok b := by
        intro b hb
        rcases hio with h' | ⟨k', h'⟩ <;> rw [h'] at hb <;> cases hb
      refine ⟨r2, res2, ?_, by rw [hpf2, hpf1], ?_, (by rw [hst2]; intro h; cases h), Or.inr hio⟩
      · rcases hio with h' | ⟨k', h'⟩ <;> rw [h']
      · exact WRInv.incomplete ⟨hw2, by rw [hb2, hb1]; exact hs2, ⟨k, by rw [hb2, hb1, hl2, hl1]; exact hpt⟩⟩ hst2
  rcases hst with ⟨hst, he⟩ | hst
  · obtain ⟨r1, fnd, hsearch, hbr1, hpol1, hlog1, hl1, hb1, hstart1, htrue, hfalse⟩ :=
      search_stepF h.win.b he h.scan (by rw [hst]; intro h; cases h)
    have hne : r.state ≠ .incomplete := by rw [hst]; intro h; cases h
    have hw1 : WinR inp r1 := ⟨by rw [hbr1]; exact h.win.b, by rw [hpol1]; exact h.win.pol⟩
    cases fnd with
    | true =>
      obtain ⟨hdn, hstate⟩ := htrue rfl
      have hni : r1.state ≠ .incomplete := by
        rcases hstate with h | h <;> rw [h] <;> (try rw [hst]) <;> intro h' <;> cases h'
      obtain ⟨h1, h3, h4⟩ := hdone r1 hw1 (by unfold Eof; rw [hbr1]; exact he) hdn hl1 hb1
        (by rcases hstate with h | h
            · left; rw [h, hst]
            · right; exact h)
      refine ⟨r1, .ok true, ?_, by rw [hpol1], h1, h3, Or.inl ⟨rfl, h4⟩⟩
      simp only [nextCont, hne, ne_eq, not_false_eq_true, if_true, hsearch, Option.map_some, hni,
        if_false]
    | false =>
      obtain ⟨hs1, hst1, _, _⟩ := hfalse rfl
      obtain ⟨r', res, hres, hpf', hcase⟩ := hresume r1 (by rw [hpol1]) hw1 hs1 hst1 hl1 hb1 (by rw [hbr1])
      refine ⟨r', res, ?_, hpf', hcase⟩
      simp only [nextCont, hne, ne_eq, not_false_eq_true, if_true, hsearch, Option.map_some, hst1]
      exact hres
  · obtain ⟨r', res, hres, hpf', hcase⟩ := hresume r rfl h.win h.scan hst rfl rfl rfl
    refine ⟨r', res, ?_, hpf', hcase⟩
    simp only [nextCont, hst, ne_eq, not_true_eq_false, if_false, if_true]
    exact hres

/-- `init` on a reader in state `new` (possibly after earlier failed attempts) -/
theorem initF {inp : List UInt8} {r : Reader} {fuel : Nat} (hf : NewF inp r) (hst : r.state = .new)
    (hfuel : inp.length < fuel) :
    ∃ r' res, init fuel r = (r', res) ∧ r'.pol.f = r.pol.f ∧
      ((res = .ok true ∧ Eof inp r' ∧ ∀ st, ReadyF inp { r' with state := st }) ∨
       ((res = .ok false ∨ ∃ ln c, res = .err (.invalidStart ln c)) ∧ WRInv inp r' ∧
          r'.state = .finished) ∨
       ((∃ k, res = .err (.io k)) ∧ WRInv inp r' ∧ r'.state = .new)) := by
  have hcl := hf.win.b.cur_le
  obtain ⟨r1, res, hfirst, hpol1, hbp1, hsp1, hst1, hw1, hbyte1, hskip1, hcase⟩ :=
    firstByteF fuel r hf.win hf.byte_eq hf.skip (by omega)
  have hfin : WRInv inp { r1 with state := .finished } := by
    refine WRInv.finished ⟨hw1.b, hw1.pol⟩ ?_ rfl
    show r1.byte = r1.bp.start + base r1
    rw [hbyte1, hbp1, hf.start]
    omega
  rcases hcase with ⟨k, hres⟩ | hres | ⟨ln, pos, c, hres, he1, hpos, hhead, hskip, l, ls, hl', hc⟩
  · subst hres
    refine ⟨r1, _, by simp only [init, hfirst], by rw [hpol1], Or.inr (Or.inr ⟨⟨k, rfl⟩, ?_, by rw [hst1, hst]⟩)⟩
    exact WRInv.fresh ⟨hw1, hbyte1, hskip1, by rw [hbp1]; exact hf.sq, by rw [hbp1]; exact hf.start⟩
      (by rw [hst1, hst])
  · subst hres
    exact ⟨{ r1 with state := .finished }, .ok false, by simp only [init, hfirst],
      by show r1.pol.f = _; rw [hpol1], Or.inr (Or.inl ⟨Or.inl rfl, hfin, rfl⟩)⟩
  · subst hres
    obtain ⟨hgt1, hgt2⟩ := items_of_skip inp _ ln c l ls hskip hl' hc hhead
    by_cases hgt : c = GT
    · subst hgt
      obtain ⟨_, hpt⟩ := hgt1 rfl
      refine ⟨{ r1 with bp := { r1.bp with start := pos }, byte := r1.byte + pos, line := ln,
                        searchPos := pos + 1 }, .ok true, by simp only [init, hfirst, if_true],
        by show r1.pol.f = _; rw [hpol1], Or.inl ⟨rfl, he1, ?_⟩⟩
      intro st
      have hbb : r1.byte + pos = pos + base r1 := by omega
      refine ⟨⟨hw1.b, hw1.pol⟩, ?_, ⟨0, ?_⟩⟩
      · show ScanSt inp _ (r1.byte + pos)
        rw [hbb]
        refine ⟨rfl, Nat.le_succ _, hpos, ?_, ?_⟩
        · intro p hp
          replace hp : p ∈ r1.bp.seqPos := hp
          rw [hbp1, hf.sq] at hp
          cases hp
        · show scan (inp.drop (pos + 1 + base r1)) (pos + 1 + base r1)
            (r1.bp.seqPos.map (· + base r1)) = _
          rw [hbp1, hf.sq, List.map_nil, ← scan_skip_gt _ _ hhead, List.drop_drop]
          have e : pos + base r1 + 1 = pos + 1 + base r1 := by omega
          rw [e]
      · show Pt inp 0 (r1.byte + pos) ln
        rw [hbb]; exact hpt
    · exact ⟨{ r1 with state := .finished }, .err (.invalidStart ln c),
        by simp only [init, hfirst, hgt, if_false], by show r1.pol.f = _; rw [hpol1],
        Or.inr (Or.inl ⟨Or.inr ⟨ln, c, rfl⟩, hfin, rfl⟩)⟩

/-- the result of a read that returns at most one record -/
def ReadFine (inp : List UInt8) (r' : Reader) (res : Res Bool) : Prop :=
  (res = .ok true ∧ GenRec inp r') ∨ res = .ok false ∨ ∃ e, res = .err e

theorem ReadFine.of_ioOrLimit {inp : List UInt8} {r' : Reader} {res : Res Bool}
    (h : IoOrLimit res) : ReadFine inp r' res := by
  rcases h with h | ⟨k, h⟩
  · exact Or.inr (Or.inr ⟨_, h⟩)
  · exact Or.inr (Or.inr ⟨_, h⟩)

/-- **one `next` call from any state reachable under I/O failures and refusals**: no panic, no
fuel exhaustion, a returned record is a record of S, and the invariant holds again -/
theorem nextF {inp : List UInt8} {r : Reader} {fuel : Nat} (h : WRInv inp r)
    (hfuel : inp.length < fuel) :
    ∃ r' res, next fuel r = (r', res) ∧ r'.pol.f = r.pol.f ∧ WRInv inp r' ∧ ReadFine inp r' res := by
  have hcont : ∀ r0 : Reader, ReadyF inp r0 →
      ((r0.state = .parsing ∧ Eof inp r0) ∨ r0.state = .incomplete) →
      ∃ r' res, nextCont fuel r0 = (r', res) ∧ r'.pol.f = r0.pol.f ∧ WRInv inp r' ∧
        ReadFine inp r' res := by
    intro r0 hr0 hst0
    obtain ⟨r', res, hnc, hpf, hinv, _, hcase⟩ := nextContF hr0 hst0 hfuel
    refine ⟨r', res, hnc, hpf, hinv, ?_⟩
    rcases hcase with h | h
    · exact Or.inl h
    · exact ReadFine.of_ioOrLimit h
  cases h with
  | fresh hf hst =>
    obtain ⟨r1, res1, hinit, hpf1, hcase⟩ := initF hf hst hfuel
    rcases hcase with ⟨hres, he1, hready⟩ | ⟨hres, hinv, _⟩ | ⟨⟨k, hres⟩, hinv, _⟩
    · subst hres
      obtain ⟨r', res, hnc, hpf, hinv, hfine⟩ := hcont { r1 with state := .parsing } (hready .parsing)
        (Or.inl ⟨rfl, he1⟩)
      exact ⟨r', res, by simp only [next, hst, hinit]; exact hnc, by rw [hpf]; exact hpf1, hinv, hfine⟩
    · refine ⟨r1, res1, ?_, hpf1, hinv, ?_⟩
      · rcases hres with h | ⟨ln, c, h⟩ <;> subst h <;> simp only [next, hst, hinit]
      · rcases hres with h | ⟨ln, c, h⟩
        · exact Or.inr (Or.inl h)
        · exact Or.inr (Or.inr ⟨_, h⟩)
    · subst hres
      exact ⟨r1, .err (.io k), by simp only [next, hst, hinit], hpf1, hinv, Or.inr (Or.inr ⟨_, rfl⟩)⟩
  | parsing hp hst =>
    have hready : ReadyF inp (incRec r) := by
      obtain ⟨k, hpt⟩ := hp.pt
      have hb : (incRec r).byte = r.searchPos + base r := by
        show r.byte + (r.searchPos - r.bp.start) = _
        have := hp.byte_eq; have := hp.start_le; omega
      refine ⟨⟨hp.win.b, hp.win.pol⟩, ?_, ⟨k, ?_⟩⟩
      · rw [hb]
        exact ⟨rfl, Nat.le_refl _, hp.sp_le, (by intro p hp; cases hp), rfl⟩
      · rw [hb]; exact hpt
    obtain ⟨r', res, hnc, hpf, hinv, hfine⟩ := hcont (incRec r) hready (Or.inl ⟨hst, hp.eof⟩)
    exact ⟨r', res, by rw [next_parsing fuel r hst hp.start_le]; exact hnc, hpf, hinv, hfine⟩
  | positioned hr he hst =>
    obtain ⟨r', res, hnc, hpf, hinv, hfine⟩ := hcont { r with state := .parsing }
      ⟨⟨hr.win.b, hr.win.pol⟩, ⟨hr.scan.start_eq, hr.scan.start_le, hr.scan.sp_le, hr.scan.pos_lt, hr.scan.resum⟩, hr.pt⟩
      (Or.inl ⟨rfl, he⟩)
    exact ⟨r', res, by simp only [next, hst]; exact hnc, hpf, hinv, hfine⟩
  | incomplete hr hst =>
    obtain ⟨r', res, hnc, hpf, hinv, hfine⟩ := hcont r hr (Or.inr hst)
    exact ⟨r', res, by simp only [next, hst]; exact hnc, hpf, hinv, hfine⟩
  | finished hw hb hst =>
    exact ⟨r, .ok false, next_finished fuel r hst, rfl, WRInv.finished hw hb hst, Or.inr (Or.inl rfl)⟩

/-! ## `seek` -/

/-- seeking to the position of a record of S, from any state, with seeks and refills that may
fail: afterwards that record is pending, or the call failed and left a consistent state -/
theorem seekF {inp : List UInt8} {r : Reader} (h : WRInv inp r) (i : Nat) (rc : FaRec)
    (hrc : (recsOf inp)[i]? = some rc) :
    ∃ r' res, seek r rc.line rc.byte = (r', res) ∧ r'.pol.f = r.pol.f ∧ WRInv inp r' ∧
      (res = .ok () ∨ ∃ k, res = .err (.io k)) := by
  have hw := h.win
  have hbyte := h.byte_eq
  have hpt := pt_all inp i rc hrc
  have hlt : rc.byte < inp.length := by
    have := hpt.gt
    rcases Nat.lt_or_ge rc.byte inp.length with h | h
    · exact h
    · rw [List.drop_eq_nil_of_le h] at this; cases this
  have hba := hw.b.base_add
  have hbyte' : r.byte = r.bp.start + baseB r.br := hbyte
  have hbb : base r = baseB r.br := rfl
  unfold seek
  simp only
  split
  · rename_i hin
    have hge : base r ≤ rc.byte := by omega
    have hp : ((r.bp.start : Int) + ((rc.byte : Int) - (r.byte : Int))).toNat = rc.byte - base r := by
      omega
    have hlen : rc.byte - base r < r.br.buf.length := by omega
    rw [hp]
    -- the state after a successful in-buffer seek, for a window `br2` extending the buffer
    have hpos : ∀ br2 : BufRd, WinF inp br2 → EofB inp br2 → baseB br2 = baseB r.br →
        r.br.buf.length ≤ br2.buf.length →
        WRInv inp { r with br := br2, line := rc.line, byte := rc.byte, state := .positioned,
                           searchPos := rc.byte - base r,
                           bp := { start := rc.byte - base r, seqPos := [] } } := by
      intro br2 hwb2 heof2 hbase2 hlen2
      have e2 : rc.byte - base r + baseB br2 = rc.byte := by rw [hbase2]; omega
      refine WRInv.positioned ⟨⟨hwb2, hw.pol⟩, ?_, ⟨i, hpt⟩⟩ heof2 rfl
      refine ⟨e2, Nat.le_refl _, by show rc.byte - base r ≤ br2.buf.length; omega,
        (by intro p hp; cases hp), ?_⟩
      show scan (inp.drop (rc.byte - base r + baseB br2)) (rc.byte - base r + baseB br2) [] = _
      rw [e2]
    by_cases hc : r.br.buf.length < r.br.cap
    · rw [if_pos hc]
      rcases fill_winF hw.b with ⟨br2, n, hfill, hwb2, heof2, hbase2, _, hlen2, _⟩ |
        ⟨br2, k, hfill, hwb2, hbase2, _, hlen2, heofi, _⟩
      · rw [hfill]
        exact ⟨_, _, rfl, rfl, hpos br2 hwb2 heof2 hbase2 (by omega), Or.inl rfl⟩
      · rw [hfill]
        exact ⟨_, _, rfl, rfl, wrinv_extend h br2 hwb2 hbase2 hlen2 heofi, Or.inr ⟨k, rfl⟩⟩
    · rw [if_neg hc]
      exact ⟨_, _, rfl, rfl, hpos r.br hw.b (fun hlt => absurd hlt hc) rfl (Nat.le_refl _), Or.inl rfl⟩
  · cases hsk : r.br.src.seek rc.byte with
    | mk src' ok =>
      cases ok with
      | some k =>
        have hs : r.br.seek rc.byte = ({ r.br with src := src' }, some k) := by
          simp only [BufRd.seek, hsk]
        rw [hs]
        simp only
        have hsrc : src'.inp = r.br.src.inp ∧ src'.cursor = r.br.src.cursor := by
          unfold Src.seek at hsk
          split at hsk
          · simp only [Prod.mk.injEq] at hsk
            obtain ⟨rfl, _⟩ := hsk
            exact ⟨rfl, rfl⟩
          · simp only [Prod.mk.injEq] at hsk
            cases hsk.2
        have hwb2 : WinF inp { r.br with src := src' } := by
          refine ⟨by show src'.inp = inp; rw [hsrc.1]; exact hw.b.inp_eq,
            by show r.br.buf.length ≤ src'.cursor; rw [hsrc.2]; exact hw.b.len_le,
            by show src'.cursor ≤ _; rw [hsrc.2]; exact hw.b.cur_le, ?_, hw.b.cap_ge, hw.b.len_cap⟩
          show inp.drop (src'.cursor - r.br.buf.length) = r.br.buf ++ inp.drop src'.cursor
          rw [hsrc.2]
          exact hw.b.win
        have hb2 : baseB { r.br with src := src' } = baseB r.br := by
          show src'.cursor - r.br.buf.length = _
          rw [hsrc.2]; rfl
        refine ⟨_, _, rfl, rfl, wrinv_extend h _ hwb2 hb2 (Nat.le_refl _) ?_, Or.inr ⟨k, rfl⟩⟩
        intro he hlt
        show src'.cursor = _
        rw [hsrc.2]
        exact he hlt
      | none =>
        have hsrc : src'.inp = r.br.src.inp ∧ src'.cursor = rc.byte := by
          unfold Src.seek at hsk
          split at hsk
          · simp only [Prod.mk.injEq] at hsk
            cases hsk.2
          · simp only [Prod.mk.injEq] at hsk
            obtain ⟨rfl, _⟩ := hsk
            exact ⟨rfl, rfl⟩
        have hs : r.br.seek rc.byte = ({ r.br with src := src', buf := [] }, none) := by
          simp only [BufRd.seek, hsk]
        rw [hs]
        simp only
        have hwb : WinF inp { r.br with src := src', buf := [] } := by
          refine ⟨by show src'.inp = inp; rw [hsrc.1]; exact hw.b.inp_eq, Nat.zero_le _,
            by show src'.cursor ≤ _; rw [hsrc.2]; exact Nat.le_of_lt hlt, ?_, hw.b.cap_ge, Nat.zero_le _⟩
          show inp.drop (src'.cursor - 0) = [] ++ inp.drop src'.cursor
          simp
        have hb0 : baseB { r.br with src := src', buf := [] } = rc.byte := by
          show src'.cursor - 0 = _
          rw [hsrc.2]; rfl
        rcases fill_winF hwb with ⟨br2, n, hfill, hwb2, heof2, hbase2, _, _, _⟩ |
          ⟨br2, k, hfill, hwb2, hbase2, _, _, _, _⟩
        · rw [hfill]
          simp only
          have hb2 : baseB br2 = rc.byte := by rw [hbase2]; exact hb0
          refine ⟨_, _, rfl, rfl, WRInv.positioned ⟨⟨hwb2, hw.pol⟩, ?_, ⟨i, hpt⟩⟩ heof2 rfl, Or.inl rfl⟩
          refine ⟨by show 0 + baseB br2 = rc.byte; omega, Nat.le_refl _, Nat.zero_le _,
            (by intro p hp; cases hp), ?_⟩
          show scan (inp.drop (0 + baseB br2)) (0 + baseB br2) [] = _
          rw [hb2, Nat.zero_add]
        · rw [hfill]
          simp only
          have hb2 : baseB br2 = rc.byte := by rw [hbase2]; exact hb0
          refine ⟨_, _, rfl, rfl, WRInv.finished ⟨hwb2, hw.pol⟩ ?_ rfl, Or.inr ⟨k, rfl⟩⟩
          show rc.byte = 0 + baseB br2
          omega

end SeqIo.Fasta.Hist
