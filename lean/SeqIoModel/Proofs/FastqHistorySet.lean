import SeqIoModel.Proofs.FastqStream
/-!
# FASTQ histories, part 1: record-set reads

`read_record_set_exact` from a good reader state delivers a non-empty batch of S's next records
(all views taken in the snapshot of the buffer stored with the set), or S's next error, or the
end of the input.
-/

namespace SeqIo.Fastq
open SeqIo SeqIo.Spec SeqIo.FillProofs SeqIo.Fastq.Hist

/-! ## views are stable under buffer extension -/

theorem slice_append {buf : List UInt8} {a b : Nat} {l : List UInt8} (e : List UInt8)
    (h : slice buf a b = some l) : slice (buf ++ e) a b = some l := by
  simp only [slice] at h ⊢
  split at h
  · rename_i hc
    rw [if_pos ⟨hc.1, by simp only [List.length_append]; omega⟩, List.take_append_of_le_length hc.2]
    exact h
  · cases h

theorem slice_map_append {buf : List UInt8} {a b : Nat} {l : List UInt8} (e : List UInt8)
    (h : (slice buf a b).map trimCr = some l) : (slice (buf ++ e) a b).map trimCr = some l := by
  cases hs : slice buf a b with
  | none => rw [hs] at h; cases h
  | some x => rw [slice_append e hs]; rw [hs] at h; exact h

theorem head_append {buf : List UInt8} {bp : BufPos} {l : List UInt8} (e : List UInt8)
    (h : head buf bp = some l) : head (buf ++ e) bp = some l := by
  simp only [head] at h ⊢
  split
  · rename_i hc; rw [hc] at h; cases h
  · rename_i x hc; rw [hc] at h; exact slice_map_append e h

theorem seq_append {buf : List UInt8} {bp : BufPos} {l : List UInt8} (e : List UInt8)
    (h : seq buf bp = some l) : seq (buf ++ e) bp = some l := by
  simp only [seq] at h ⊢
  split
  · rename_i hc; rw [hc] at h; cases h
  · rename_i x hc; rw [hc] at h; exact slice_map_append e h

theorem qual_append {buf : List UInt8} {bp : BufPos} {l : List UInt8} (e : List UInt8)
    (h : qual buf bp = some l) : qual (buf ++ e) bp = some l :=
  slice_map_append e h

theorem viewRec_append {buf : List UInt8} {bp : BufPos} {x : Rec} (e : List UInt8)
    (h : viewRec buf bp = some x) : viewRec (buf ++ e) bp = some x := by
  simp only [viewRec] at h
  split at h
  · rename_i h1 h2 h3
    simp only [viewRec, head_append e h1, seq_append e h2, qual_append e h3]
    exact h
  · cases h

theorem viewAll_append {buf : List UInt8} {ps : List BufPos} {xs : List Rec} (e : List UInt8)
    (h : viewAll buf ps = some xs) : viewAll (buf ++ e) ps = some xs := by
  induction ps generalizing xs with
  | nil => exact h
  | cons bp rest ih =>
    simp only [viewAll] at h
    split at h
    · rename_i x ys h1 h2
      simp only [viewAll, viewRec_append e h1, ih h2]
      exact h
    · cases h

theorem viewAll_length {buf : List UInt8} {ps : List BufPos} {xs : List Rec}
    (h : viewAll buf ps = some xs) : xs.length = ps.length := by
  induction ps generalizing xs with
  | nil => simp only [viewAll, Option.some.injEq] at h; subst h; rfl
  | cons bp rest ih =>
    simp only [viewAll] at h
    split at h
    · rename_i x ys h1 h2
      simp only [Option.some.injEq] at h
      subst h
      simp [ih h2]
    · cases h

theorem viewAll_snoc {buf : List UInt8} {ps : List BufPos} {xs : List Rec} {bp : BufPos} {x : Rec}
    (h : viewAll buf ps = some xs) (hx : viewRec buf bp = some x) :
    viewAll buf (ps ++ [bp]) = some (xs ++ [x]) := by
  induction ps generalizing xs with
  | nil =>
    simp only [viewAll, Option.some.injEq] at h; subst h
    simp only [List.nil_append, viewAll, hx]
  | cons bp' rest ih =>
    simp only [viewAll] at h
    split at h
    · rename_i y ys h1 h2
      simp only [Option.some.injEq] at h
      subst h
      simp only [List.cons_append, viewAll, h1, ih h2]
    · cases h


/-! ## the loop of `read_record_set_exact` -/

/-- states at the top of the loop -/
def LoopSt (inp : List UInt8) (G : Prop) (r : Reader) (its : List FqItem) : Prop :=
  Good inp G r its ∧ (r.state = .positioned ∨ r.state = .finished)

/-- result of the loop started with the records `xs` already stored and the items `its` ahead -/
def SetOut (inp : List UInt8) (G : Prop) (n : Option Nat) (xs : List Rec) (its : List FqItem)
    (res : Reader × RecordSet × Res Bool) : Prop :=
  (res.2.2 = .ok true ∧ ∃ (ys : List FqRec) (its' : List FqItem),
      its = ys.map FqItem.record ++ its' ∧
      viewAll res.1.br.buf res.2.1.positions = some (xs ++ ys.map recOf) ∧
      LoopSt inp G res.1 its' ∧ (xs ++ ys.map recOf ≠ []) ∧
      (∀ n', n = some n' →
        xs.length + ys.length = n' ∨ (its' = [] ∧ xs.length + ys.length < n'))) ∨
  (res.2.2 = .ok false ∧ xs = [] ∧ its = [] ∧ res.2.1.positions = [] ∧ Fin inp G res.1) ∨
  (∃ (ys : List FqRec) (e : FqErr) (b l : Nat), res.2.2 = .err (specErr e) ∧
      its = ys.map FqItem.record ++ [.err e b l] ∧ res.2.1.positions = [] ∧ Fin inp G res.1 ∧
      (∀ n', n = some n' → xs.length + ys.length < n')) ∨
  (∃ e, res.2.2 = .err e ∧ EnvErr e ∧ ¬ G ∧ res.2.1.positions = [] ∧ Fin inp G res.1)

theorem SetOut.cons {inp G n xs x its' res}
    (h : SetOut inp G n (xs ++ [recOf x]) its' res) :
    SetOut inp G n xs (.record x :: its') res := by
  rcases h with ⟨hr, ys, its'', hi, hv, hl, hne, hc⟩ | ⟨hr, hx, -⟩ | ⟨ys, e, b, l, hr, hi, hp, hf, hc⟩ |
    ⟨e, hr, henv, hg, hp, hf⟩
  · refine Or.inl ⟨hr, x :: ys, its'', by simp [hi], by simpa [List.append_assoc] using hv, hl,
      by simp, ?_⟩
    intro n' hn
    have := hc n' hn
    simp only [List.length_append, List.length_cons, List.length_nil] at this ⊢
    rcases this with h1 | ⟨h1, h2⟩
    · left; omega
    · right; exact ⟨h1, by omega⟩
  · simp at hx
  · refine Or.inr (Or.inr (Or.inl ⟨x :: ys, e, b, l, hr, by simp [hi], hp, hf, ?_⟩))
    intro n' hn
    have := hc n' hn
    simp only [List.length_append, List.length_cons, List.length_nil] at this ⊢
    omega
  · exact Or.inr (Or.inr (Or.inr ⟨e, hr, henv, hg, hp, hf⟩))

/-- measure of the loop -/
def lm (inp : List UInt8) (r : Reader) : Nat :=
  if r.state = .finished then 1
  else 2 * (inp.length + 1 - r.byte) + (if r.incompletePos.isNone then 2 else 1)

/-- the reader after `increment_record` -/
def stepOver (r : Reader) : Reader :=
  { r with byte := r.byte + (r.bp.pos1 + 1 - r.bp.pos0), line := r.line + 4,
           bp := { r.bp with pos0 := r.bp.pos1 + 1 } }

theorem incrementRecord_eq (r : Reader) (h : r.bp.pos0 ≤ r.bp.pos1 + 1) :
    incrementRecord r = some (stepOver r) := by
  simp only [incrementRecord, csub_of_le h, stepOver]

/-- storing the record just found and stepping over it -/
theorem store_shown {inp : List UInt8} {G : Prop} {r : Reader} {x : FqRec} {its' : List FqItem}
    {rs : RecordSet} {xs : List Rec} (n : Option Nat)
    (hsh : Shown inp G .positioned r x its') (hv : viewAll r.br.buf rs.positions = some xs) :
    storeStep n r rs = some (stepOver r, { rs with positions := rs.positions ++ [r.bp] },
        decide (n = some (rs.positions.length + 1))) ∧
      LoopSt inp G (stepOver r) its' ∧
      viewAll (stepOver r).br.buf (rs.positions ++ [r.bp]) = some (xs ++ [recOf x]) ∧
      ((stepOver r).state = .positioned →
        (stepOver r).incompletePos = none ∧ r.byte + 1 ≤ (stepOver r).byte) := by
  have h01 := hsh.p01
  have hinc := incrementRecord_eq r (show r.bp.pos0 ≤ r.bp.pos1 + 1 by omega)
  refine ⟨by simp only [storeStep, hinc, List.length_append, List.length_singleton], ?_,
    viewAll_snoc hv hsh.view, ?_⟩
  · have hw : Win inp G (stepOver r) := by
      obtain ⟨a, b, c, d, e, f, g, i, w, k, z⟩ := hsh.win
      exact ⟨a, b, c, d, e, f, g, i, w, by simp only [stepOver]; omega, z⟩
    rcases hsh.rest with ⟨hst, hip, h1l, hits, -⟩ | ⟨hst, hits⟩
    · have hst2 : (stepOver r).state = .positioned := hst
      refine ⟨?_, Or.inl hst2⟩
      unfold Good
      rw [hst2]
      dsimp only
      exact ⟨⟨hw, h1l⟩, hsh.eof, (by intro ip h; rw [show (stepOver r).incompletePos = none from hip] at h; cases h), hits⟩
    · have hst2 : (stepOver r).state = .finished := hst
      refine ⟨?_, Or.inr hst2⟩
      unfold Good
      rw [hst2]
      dsimp only
      exact ⟨hw, hits⟩
  · intro hst
    rcases hsh.rest with ⟨-, hip, -, -, -⟩ | ⟨hst', -⟩
    · exact ⟨hip, by simp only [stepOver]; omega⟩
    · rw [show (stepOver r).state = r.state from rfl, hst'] at hst; cases hst

theorem setLoop_fin (f fuel : Nat) (n : Option Nat) (isNew : Bool) (r : Reader) (rs : RecordSet)
    (h : r.state = .finished) : setLoop (f + 1) fuel n isNew r rs = (r, rs, .ok true) := by
  rw [setLoop, if_pos h]

theorem byte_le_of_base {inp G r} (h : Base inp G r) : r.byte ≤ inp.length := by
  have := h.byte_eq; have := h.cur_le; omega

theorem fqGroup_record_pos {h s p q : List UInt8} {b l : Nat} {e : Bool} {x : FqRec}
    (hx : fqGroup false h s p q b l e = .record x) : x.byte = b ∧ x.line = l := by
  have := fqGroup_record_eq h s p q b l e x hx
  subst this
  exact ⟨rfl, rfl⟩

theorem fqGo_head_record {ps : List (List UInt8)} {b l : Nat} {x : FqRec} {rest : List FqItem}
    (h : fqGo false ps b l = .record x :: rest) : x.byte = b ∧ x.line = l := by
  match ps, h with
  | h' :: s :: p :: q :: r :: rest', h =>
    rw [fqGo_four false h' s p q (r :: rest') (by simp)] at h
    split at h
    · rename_i y hy
      simp only [List.cons.injEq, FqItem.record.injEq] at h
      rw [← h.1]
      exact fqGroup_record_pos hy
    · simp at h
  | [h', s, p, q], h =>
    rw [fqGo_three] at h
    simp only [List.cons.injEq] at h
    exact fqGroup_record_pos h.1
  | [], h => rw [fqGo_few false [] (by simp)] at h; split at h <;> simp at h
  | [a], h => rw [fqGo_few false [a] (by simp)] at h; split at h <;> simp at h
  | [a, c], h => rw [fqGo_few false [a, c] (by simp)] at h; split at h <;> simp at h
  | [a, c, d], h => rw [fqGo_few false [a, c, d] (by simp)] at h; split at h <;> simp at h

theorem itemsAt_head_record {inp : List UInt8} {b l : Nat} {x : FqRec} {rest : List FqItem}
    (h : itemsAt inp b l = .record x :: rest) : x.byte = b ∧ x.line = l :=
  fqGo_head_record h

theorem lm_pos {inp : List UInt8} {r : Reader} : 1 ≤ lm inp r := by
  unfold lm; split
  · exact Nat.le_refl _
  · split <;> omega

/-- the loop of `read_record_set_exact` -/
theorem setLoop_spec (inp : List UInt8) (G : Prop) (fuel : Nat) (hfuel : inp.length + 2 ≤ fuel)
    (n : Option Nat) (f : Nat) :
    ∀ (isNew : Bool) (r : Reader) (rs : RecordSet) (its : List FqItem) (xs : List Rec),
      LoopSt inp G r its → viewAll r.br.buf rs.positions = some xs →
      (isNew = true → r.state = .positioned → r.incompletePos ≠ none → rs.positions = []) →
      (∀ n', n = some n' → xs.length < n') →
      (r.state = .finished → xs ≠ []) →
      lm inp r ≤ f →
      SetOut inp G n xs its (setLoop f fuel n isNew r rs) := by
  induction f with
  | zero =>
    intro isNew r rs its xs _ _ _ _ _ h
    have := @lm_pos inp r
    omega
  | succ f ih =>
    intro isNew r rs its xs hl hv hnew hn hfin hlm
    obtain ⟨hg, hst⟩ := hl
    have hlen := viewAll_length hv
    -- what happens after a record has been found at `r1`
    have after : ∀ (r1 : Reader) (x : FqRec) (its' : List FqItem),
        Shown inp G .positioned r1 x its' → viewAll r1.br.buf rs.positions = some xs →
        its = .record x :: its' → r.state = .positioned →
        SetOut inp G n xs its
          (if n = some (rs.positions.length + 1) then
            (stepOver r1, { rs with positions := rs.positions ++ [r1.bp] }, .ok true)
           else setLoop f fuel n isNew (stepOver r1)
            { rs with positions := rs.positions ++ [r1.bp] }) := by
      intro r1 x its' hsh hv1 hits hstp
      obtain ⟨-, hl2, hv2, hm2⟩ := store_shown n hsh hv1
      rw [hits]
      apply SetOut.cons
      by_cases hk : n = some (rs.positions.length + 1)
      · rw [if_pos hk]
        refine Or.inl ⟨rfl, [], its', by simp, by simpa using hv2, hl2, by simp, ?_⟩
        intro n' hn'
        rw [hk] at hn'
        simp only [Option.some.injEq] at hn'
        left
        simp only [List.length_append, List.length_singleton, List.length_nil, hlen]
        omega
      · rw [if_neg hk]
        apply ih isNew (stepOver r1) _ its' _ hl2 hv2
        · intro _ hs2 hne
          exact absurd (hm2 hs2).1 hne
        · intro n' hn'
          have := hn n' hn'
          simp only [List.length_append, List.length_singleton]
          have : n ≠ some (xs.length + 1) := by rw [hlen]; exact hk
          rw [hn'] at this
          simp only [ne_eq, Option.some.injEq] at this
          omega
        · intro _; simp
        · -- the measure
          have hx := itemsAt_head_record (show itemsAt inp r.byte r.line = .record x :: its' by
            have := hg; simp only [Good, hstp] at this; rw [← this.2.2.2, hits])
          have hbl : r.byte ≤ inp.length := by
            have := hg; simp only [Good, hstp] at this; exact byte_le_of_base this.1
          have hlm' : lm inp r ≥ 2 * (inp.length + 1 - r.byte) + 1 := by
            unfold lm; rw [hstp]; simp only [reduceCtorEq, if_false]; split <;> omega
          unfold lm
          split
          · omega
          · rename_i hnf
            have hs2 : (stepOver r1).state = .positioned := by
              rcases hl2.2 with h | h
              · exact h
              · exact absurd h hnf
            obtain ⟨hip2, hb2⟩ := hm2 hs2
            rw [hip2]
            simp only [Option.isNone_none, if_true]
            have : r1.byte = r.byte := by rw [← hsh.byte_eq, hx.1]
            omega
    rcases hst with hst | hst
    · -- positioned
      have hg' := hg
      simp only [Good, hst] at hg'
      obtain ⟨hb, he, hip, hits⟩ := hg'
      have hnf : ¬ r.state = .finished := by rw [hst]; simp
      have hmu : ∀ r' : Reader, r'.br.src.cursor ≤ inp.length → mu inp r' + 1 ≤ fuel := by
        intro r' h
        simp only [mu]
        split <;> omega
      cases hipv : r.incompletePos with
      | some ip =>
        -- resume the pending search
        have hb0 : Base inp G { r with incompletePos := none } := hb.set_bp r.bp none rfl
        obtain ⟨hF, hE, -⟩ := resume_spec inp G isNew fuel { r with incompletePos := none } ip hb0 he
          (hip ip hipv) (hmu _ hb.cur_le)
        have hvx : ∀ r' : Reader, (isNew = false → ∃ e, r'.br.buf = r.br.buf ++ e) →
            viewAll r'.br.buf rs.positions = some xs := by
          intro r' hext
          cases hnw : isNew with
          | false =>
            obtain ⟨e, he'⟩ := hext hnw
            rw [he']; exact viewAll_append e hv
          | true =>
            have hp := hnew hnw hst (by rw [hipv]; simp)
            rw [hp] at hv ⊢
            simp only [viewAll, Option.some.injEq] at hv
            subst hv
            rfl
        rcases hx : resume fuel ip isNew { r with incompletePos := none } with ⟨r1, res1⟩
        rw [hx] at hF hE
        replace hF : Found inp G .positioned (itemsAt inp r.byte r.line) (r1, res1) := by
          simpa only [hst] using hF
        have hv1 := hvx r1 hE
        rcases hF with ⟨hr, x, its', hi, hsh⟩ | ⟨hr, hi, hfin1⟩ | ⟨e, b, l, hr, hi, hfin1⟩ |
          ⟨e, hr, henv, hG, hfin1⟩
        · simp only at hr hi hsh
          subst hr
          have hi' : its = .record x :: its' := by rw [hits]; exact hi
          obtain ⟨hstore, -⟩ := store_shown n hsh hv1
          have := after r1 x its' hsh hv1 hi' hst
          have heq : setLoop (f + 1) fuel n isNew r rs =
              (if n = some (rs.positions.length + 1) then
                (stepOver r1, { rs with positions := rs.positions ++ [r1.bp] }, .ok true)
               else setLoop f fuel n isNew (stepOver r1)
                { rs with positions := rs.positions ++ [r1.bp] }) := by
            rw [setLoop, if_neg hnf]
            simp only [hipv, hx, hstore]
            by_cases hk : n = some (rs.positions.length + 1)
            · simp only [hk, decide_true, if_true]
            · simp only [hk, decide_false, if_false]
          rw [heq]
          exact this
        · simp only at hr hi hfin1
          subst hr
          have hi' : its = [] := by rw [hits]; exact hi
          by_cases hemp : rs.positions.isEmpty = true
          · have heq : setLoop (f + 1) fuel n isNew r rs = (r1, rs, .ok false) := by
              rw [setLoop, if_neg hnf]
              simp only [hipv, hx, hemp, if_true]
            rw [heq]
            have hp : rs.positions = [] := List.isEmpty_iff.mp hemp
            refine Or.inr (Or.inl ⟨rfl, ?_, hi', hp, hfin1⟩)
            rw [hp] at hv
            simp only [viewAll, Option.some.injEq] at hv
            exact hv.symm
          · have heq : setLoop (f + 1) fuel n isNew r rs = (r1, rs, .ok true) := by
              rw [setLoop, if_neg hnf]
              simp only [hipv, hx, hemp]
              rfl
            rw [heq]
            refine Or.inl ⟨rfl, [], [], by simp [hi'], by simpa using hv1,
              ⟨Fin.good hfin1, Or.inr hfin1.1⟩, ?_, ?_⟩
            · simp only [List.map_nil, List.append_nil]
              intro hxs
              rw [hxs] at hlen
              have : rs.positions = [] := List.eq_nil_of_length_eq_zero hlen.symm
              rw [this] at hemp
              exact hemp rfl
            · intro n' hn'
              right
              exact ⟨rfl, by simpa using hn n' hn'⟩
        · simp only at hr hi hfin1
          subst hr
          have heq : setLoop (f + 1) fuel n isNew r rs =
              (r1, { rs with positions := [] }, .err (specErr e)) := by
            rw [setLoop, if_neg hnf]
            simp only [hipv, hx]
          rw [heq]
          refine Or.inr (Or.inr (Or.inl ⟨[], e, b, l, rfl, by rw [hits]; simpa using hi, rfl, hfin1,
            ?_⟩))
          intro n' hn'
          simpa using hn n' hn'
        · simp only at hr hfin1
          subst hr
          have heq : setLoop (f + 1) fuel n isNew r rs =
              (r1, { rs with positions := [] }, .err e) := by
            rw [setLoop, if_neg hnf]
            simp only [hipv, hx]
          rw [heq]
          exact Or.inr (Or.inr (Or.inr ⟨e, rfl, henv, hG, rfl, hfin1⟩))
      | none =>
        rcases si_spec r .head hb.pos0_le trivial with
          ⟨bp', ip', hp0, hsc, hres⟩ | ⟨bp', hp0, hf4, hres⟩
        · -- the search stops at the end of the buffer
          have hs : search r = ({ r with bp := bp', incompletePos := some ip' }, .ok false) := by
            rw [search_eq r hipv, hres]; rfl
          have hl1 : LoopSt inp G { r with bp := bp', incompletePos := some ip' } its := by
            refine ⟨good_positioned_of (hb.set_bp bp' _ hp0) he ?_ hits hst, Or.inl hst⟩
            intro ip h
            simp only [Option.some.injEq] at h
            subst h
            exact hsc
          have hlm1 : lm inp { r with bp := bp', incompletePos := some ip' } ≤ f := by
            have : lm inp r = 2 * (inp.length + 1 - r.byte) + 2 := by
              unfold lm; rw [hst, hipv]; simp
            have : lm inp { r with bp := bp', incompletePos := some ip' } =
                2 * (inp.length + 1 - r.byte) + 1 := by
              unfold lm; simp [hst]
            omega
          by_cases hemp : rs.positions.isEmpty = true
          · have heq : setLoop (f + 1) fuel n isNew r rs =
                setLoop f fuel n isNew { r with bp := bp', incompletePos := some ip' } rs := by
              rw [setLoop, if_neg hnf]
              simp only [hipv, hs, hemp, if_true]
            rw [heq]
            have hp : rs.positions = [] := List.isEmpty_iff.mp hemp
            exact ih isNew _ rs its xs hl1 hv (fun _ _ _ => hp) hn
              (fun h => by simp only [hst] at h; cases h) hlm1
          · rcases Option.eq_none_or_eq_some n with hnv | ⟨n', hnv⟩
            · have heq : setLoop (f + 1) fuel n isNew r rs =
                  ({ r with bp := bp', incompletePos := some ip' }, rs, .ok true) := by
                rw [setLoop, if_neg hnf]
                simp only [hipv, hs, hemp, hnv]
                rfl
              rw [heq]
              refine Or.inl ⟨rfl, [], its, by simp, by simpa using hv, hl1, ?_, ?_⟩
              · simp only [List.map_nil, List.append_nil]
                intro hxs
                rw [hxs] at hlen
                have : rs.positions = [] := List.eq_nil_of_length_eq_zero hlen.symm
                rw [this] at hemp
                exact hemp rfl
              · intro n' hn'; rw [hnv] at hn'; cases hn'
            · have hlt : rs.positions.length < n' := by rw [← hlen]; exact hn n' hnv
              have heq : setLoop (f + 1) fuel n isNew r rs =
                  setLoop f fuel n false { r with bp := bp', incompletePos := some ip' } rs := by
                rw [setLoop, if_neg hnf]
                simp only [hipv, hs, hemp, hnv, hlt, if_true]
                rfl
              rw [heq]
              exact ih false _ rs its xs hl1 hv (fun h => by cases h) hn
                (fun h => by simp only [hst] at h; cases h) hlm1
        · -- a complete record in the buffer
          have hb3 : Base inp G { r with bp := bp', incompletePos := none } := hb.set_bp bp' _ hp0
          have hs : search r = validated { r with bp := bp', incompletePos := none } := by
            rw [search_eq r hipv, hres, wrapS_wrapV_validate]
          rcases complete_found2 inp G { r with bp := bp', incompletePos := none } hb3 he rfl hf4 with
            ⟨x, its', hi, hval, hsh⟩ | ⟨e, b, l, hi, hval⟩
          · have hi' : its = .record x :: its' := by rw [hits]; exact hi
            have hsh' : Shown inp G .positioned { r with bp := bp', incompletePos := none } x its' := by
              simpa only [hst] using hsh
            obtain ⟨hstore, -⟩ := store_shown n hsh' (rs := rs) (xs := xs) hv
            have := after _ x its' hsh' hv hi' hst
            have heq : setLoop (f + 1) fuel n isNew r rs =
                (if n = some (rs.positions.length + 1) then
                  (stepOver { r with bp := bp', incompletePos := none },
                    { rs with positions := rs.positions ++ [bp'] }, .ok true)
                 else setLoop f fuel n isNew (stepOver { r with bp := bp', incompletePos := none })
                  { rs with positions := rs.positions ++ [bp'] }) := by
              rw [setLoop, if_neg hnf]
              simp only [hipv, hs, hval, hstore]
              by_cases hk : n = some (rs.positions.length + 1)
              · simp only [hk, decide_true, if_true]
              · simp only [hk, decide_false, if_false]
            rw [heq]
            exact this
          · have heq : setLoop (f + 1) fuel n isNew r rs =
                ({ r with bp := bp', incompletePos := none, state := .finished },
                  { rs with positions := [] }, .err (specErr e)) := by
              rw [setLoop, if_neg hnf]
              simp only [hipv, hs, hval]
            rw [heq]
            refine Or.inr (Or.inr (Or.inl ⟨[], e, b, l, rfl, by rw [hits]; simpa using hi, rfl,
              ⟨rfl, hb3.toWin.set_state _⟩, ?_⟩))
            intro n' hn'
            simpa using hn n' hn'
    · -- finished: the loop is left
      rw [setLoop_fin f fuel n isNew r rs hst]
      have hg' := hg
      simp only [Good, hst] at hg'
      obtain ⟨hw, hits⟩ := hg'
      subst hits
      refine Or.inl ⟨rfl, [], [], by simp, by simpa using hv, ⟨hg, Or.inr hst⟩,
        by simpa using hfin hst, ?_⟩
      intro n' hn'
      right
      exact ⟨rfl, by simpa using hn n' hn'⟩


/-! ## `read_record_set_exact` -/

/-- result of one record-set read from a reader with the items `its` ahead (`rs0` = the set
that was passed in) -/
def SetRes (inp : List UInt8) (G : Prop) (n : Option Nat) (rs0 : RecordSet) (its : List FqItem)
    (res : Reader × RecordSet × Res Bool) : Prop :=
  (res.2.2 = .ok true ∧ ∃ (ys : List FqRec) (its' : List FqItem),
      its = ys.map FqItem.record ++ its' ∧
      viewAll res.2.1.buffer res.2.1.positions = some (ys.map recOf) ∧ ys ≠ [] ∧
      LoopSt inp G res.1 its' ∧
      (∀ n', n = some n' → ys.length = n' ∨ (its' = [] ∧ ys.length < n'))) ∨
  (res.2.2 = .ok false ∧ its = [] ∧ Fin inp G res.1 ∧ (res.2.1 = rs0 ∨ res.2.1.positions = [])) ∨
  (∃ (ys : List FqRec) (e : FqErr) (b l : Nat), res.2.2 = .err (specErr e) ∧
      its = ys.map FqItem.record ++ [.err e b l] ∧ res.2.1.positions = [] ∧ Fin inp G res.1 ∧
      (∀ n', n = some n' → ys.length < n')) ∨
  (∃ e, res.2.2 = .err e ∧ EnvErr e ∧ ¬ G ∧ res.2.1.positions = [] ∧ Fin inp G res.1) ∨
  (¬ G ∧ (res.2.2 = .ok false ∨ ∃ k, res.2.2 = .err (.io k)) ∧ res.2.1 = rs0 ∧
    ∃ its', Good inp G res.1 its' ∧ (res.1.state = .finished ∨ res.1.state = .new))

/-- the snapshot of the buffer taken when the loop is left normally -/
def setFin (x : Reader × RecordSet × Res Bool) : Reader × RecordSet × Res Bool :=
  match x with
  | (r, rs, .ok true) => (r, { rs with buffer := r.br.buf }, .ok true)
  | x => x

theorem SetOut.res {inp G n rs0 its x} (h : SetOut inp G n [] its x) :
    SetRes inp G n rs0 its (setFin x) := by
  rcases x with ⟨r, rs, res⟩
  rcases h with ⟨hr, ys, its', hi, hv, hl, hne, hc⟩ | ⟨hr, -, hi, hp, hf⟩ |
    ⟨ys, e, b, l, hr, hi, hp, hf, hc⟩ | ⟨e, hr, henv, hg, hp, hf⟩
  · simp only at hr hv hl hc
    subst hr
    refine Or.inl ⟨rfl, ys, its', hi, by simpa [setFin] using hv, ?_, hl, ?_⟩
    · intro h; subst h; simp at hne
    · intro n' hn'; simpa using hc n' hn'
  · simp only at hr hp hf
    subst hr
    exact Or.inr (Or.inl ⟨rfl, hi, hf, Or.inr hp⟩)
  · simp only at hr hp hf
    subst hr
    exact Or.inr (Or.inr (Or.inl ⟨ys, e, b, l, rfl, hi, hp, hf, by
      intro n' hn'; simpa using hc n' hn'⟩))
  · simp only at hr hp hf
    subst hr
    exact Or.inr (Or.inr (Or.inr (Or.inl ⟨e, rfl, henv, hg, hp, hf⟩)))

theorem readSet_loop (fuel : Nat) (r : Reader) (rs : RecordSet) (n : Option Nat)
    (h : r.state = .positioned) :
    readRecordSetExact fuel r rs n = setFin (setLoop fuel fuel n true r { rs with positions := [] }) := by
  simp only [readRecordSetExact, h, setFin]
  generalize setLoop fuel fuel n true r _ = x
  rcases x with ⟨r', rs', (b | _ | _ | _)⟩
  · cases b <;> rfl
  all_goals rfl

/-- the loop from a positioned good state -/
theorem loop_from (inp : List UInt8) (G : Prop) (fuel : Nat) (hfuel : 2 * inp.length + 4 ≤ fuel)
    (n : Option Nat) (hn : ∀ n', n = some n' → 1 ≤ n') (r : Reader) (rs : RecordSet)
    (its : List FqItem) (hg : Good inp G r its) (hst : r.state = .positioned) :
    SetRes inp G n rs its (setFin (setLoop fuel fuel n true r { rs with positions := [] })) := by
  apply SetOut.res
  apply setLoop_spec inp G fuel (by omega) n fuel true r _ its [] ⟨hg, Or.inl hst⟩ rfl
  · intro _ _ _; rfl
  · intro n' hn'; exact hn n' hn'
  · intro h; rw [hst] at h; cases h
  · have hb : r.byte ≤ inp.length := by
      simp only [Good, hst] at hg
      exact byte_le_of_base hg.1
    unfold lm
    rw [hst]
    simp only [reduceCtorEq, if_false]
    split <;> omega

theorem readSet_spec (inp : List UInt8) (G : Prop) (fuel : Nat) (r : Reader) (rs : RecordSet)
    (n : Option Nat) (its : List FqItem) (hg : Good inp G r its)
    (hfuel : 2 * r.br.src.inp.length + 4 ≤ fuel) (hn : ∀ n', n = some n' → 1 ≤ n') :
    SetRes inp G n rs its (readRecordSetExact fuel r rs n) := by
  cases hst : r.state with
  | positioned =>
    have hi : r.br.src.inp = inp := by
      simp only [Good, hst] at hg; exact hg.1.inp_eq
    rw [hi] at hfuel
    rw [readSet_loop fuel r rs n hst]
    exact loop_from inp G fuel hfuel n hn r rs its hg hst
  | finished =>
    simp only [Good, hst] at hg
    obtain ⟨hw, hits⟩ := hg
    have : readRecordSetExact fuel r rs n = (r, rs, .ok false) := by
      simp only [readRecordSetExact, hst]
    rw [this]
    exact Or.inr (Or.inl ⟨rfl, hits, ⟨hst, hw⟩, Or.inl rfl⟩)
  | new =>
    simp only [Good, hst] at hg
    obtain ⟨hw, hbufG, hp0, hbyte, hline, hip, hitems⟩ := hg
    rw [hw.inp_eq] at hfuel
    rcases fill_cases inp G r hw with
      ⟨br', ext, m, hfill, hbuf', hcap', hcur', hext, hw2, he2, hm⟩ |
      ⟨br', ext, k, hfill, hbuf', hcap', hcur', hle, hnG, hw2⟩
    · cases m with
      | zero =>
        have hrd : readRecordSetExact fuel r rs n =
            ({ r with br := br', state := .finished }, rs, .ok false) := by
          simp only [readRecordSetExact, hst, init, hfill]
        rw [hrd]
        by_cases hG : G
        · have hbuf := hbufG hG
          have hcur0 : r.br.src.cursor = 0 := by
            have := hw.byte_pos
            rw [hbuf, hbyte, hp0] at this
            simpa using this.symm
          have hnil : inp = [] := by
            have := hw.cap3
            rw [hbuf, hcur0, ← hm] at hext
            simp only [List.length_nil, Nat.sub_zero] at hext
            have : inp.length = 0 := by omega
            exact List.eq_nil_of_length_eq_zero this
          have hi : its = [] := by
            rw [hitems, hnil]
            exact WriteProofs.fqGo_end false 0 1
          exact Or.inr (Or.inl ⟨rfl, hi, ⟨rfl, hw2.set_state _⟩, Or.inl rfl⟩)
        · exact Or.inr (Or.inr (Or.inr (Or.inr ⟨hG, Or.inl rfl, rfl, [],
            good_finished_of (hw2.set_state _) rfl, Or.inl rfl⟩)))
      | succ m =>
        have heq : readRecordSetExact fuel r rs n =
            setFin (setLoop fuel fuel n true { r with br := br', state := .positioned }
              { rs with positions := [] }) := by
          rw [← readSet_loop fuel { r with br := br', state := .positioned } rs n rfl]
          simp only [readRecordSetExact, hst, init, hfill]
        rw [heq]
        have hb2 : Base inp G { r with br := br' } := ⟨hw2, by simp [hp0]⟩
        refine loop_from inp G fuel hfuel n hn _ rs its ?_ rfl
        refine good_positioned_of (hb2.set_state _) he2 ?_ ?_ rfl
        · intro ip h; simp only [hip] at h; cases h
        · rw [hitems]; simp only [hbyte, hline]
    · have hrd : readRecordSetExact fuel r rs n =
          ({ r with br := br', state := .new }, rs, .err (.io k)) := by
        simp only [readRecordSetExact, hst, init, hfill]
      rw [hrd]
      refine Or.inr (Or.inr (Or.inr (Or.inr ⟨hnG, Or.inr ⟨k, rfl⟩, rfl, its, ?_, Or.inr rfl⟩)))
      unfold Good
      exact ⟨hw2.set_state _, fun h => absurd h hnG, hp0, hbyte, hline, hip, hitems⟩
  | parsing =>
    simp only [Good, hst] at hg
    obtain ⟨hb, he, hip, h01, h1l, hitems⟩ := hg
    rw [hb.inp_eq] at hfuel
    have hinc := incrementRecord_eq r h01
    have heq : readRecordSetExact fuel r rs n =
        setFin (setLoop fuel fuel n true { stepOver r with state := .positioned }
          { rs with positions := [] }) := by
      rw [← readSet_loop fuel { stepOver r with state := .positioned } rs n rfl]
      simp only [readRecordSetExact, hst, hinc]
    rw [heq]
    refine loop_from inp G fuel hfuel n hn _ rs its ?_ rfl
    have hw : Win inp G (stepOver r) := by
      obtain ⟨⟨a, b, c, d, e, f, g, i, w, k, z⟩, hp⟩ := hb
      exact ⟨a, b, c, d, e, f, g, i, w, by simp only [stepOver]; omega, z⟩
    have hb2 : Base inp G (stepOver r) := ⟨hw, h1l⟩
    refine good_positioned_of (hb2.set_state _) he ?_ hitems rfl
    intro ip h
    simp only [stepOver, hip] at h
    cases h

end SeqIo.Fastq
