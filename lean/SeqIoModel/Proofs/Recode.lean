import SeqIoModel.Proofs.WriteRoundtrip
import SeqIoModel.Proofs.FastqStreamLines
/-!
# C12: LF and CRLF encodings of a file parse identically

A well-formed file is given by its logical content (heads, sequence lines, …).  An *encoding*
chooses a terminator (`LF` or `CR LF`) per line and whether the last line is terminated.  The
reference semantics returns the same heads, lines and line numbers for every encoding; only the
byte offsets differ.
-/

open SeqIo SeqIo.Spec SeqIo.WriteProofs

namespace SeqIo.Recode

/-- a line terminator -/
inductive Term | lf | crlf
deriving Repr, DecidableEq

/-- the part of the terminator before the LF -/
def Term.cr : Term → List UInt8 | .lf => [] | .crlf => [CR]
def Term.bytes : Term → List UInt8 | .lf => [LF] | .crlf => [CR, LF]

theorem Term.bytes_eq (t : Term) : t.bytes = t.cr ++ [LF] := by cases t <;> rfl

theorem Term.lf_notin_cr (t : Term) : LF ∉ t.cr := by cases t <;> simp [Term.cr, LF, CR]

/-- encode lines with the given terminators; the last line gets its terminator only if `final` -/
def encodeLines : List (List UInt8 × Term) → Bool → List UInt8
  | [], _ => []
  | [(l, t)], final => l ++ (if final then t.bytes else [])
  | (l, t) :: x :: rest, final => l ++ t.bytes ++ encodeLines (x :: rest) final

theorem encodeLines_cons_ne (l : List UInt8) (t : Term) (rest : List (List UInt8 × Term))
    (final : Bool) (h : rest ≠ []) :
    encodeLines ((l, t) :: rest) final = l ++ t.bytes ++ encodeLines rest final := by
  cases rest with
  | nil => exact absurd rfl h
  | cons x rest => rw [encodeLines]

theorem encodeLines_cons_true (l : List UInt8) (t : Term) (rest : List (List UInt8 × Term)) :
    encodeLines ((l, t) :: rest) true = l ++ t.bytes ++ encodeLines rest true := by
  cases rest with
  | nil => simp [encodeLines]
  | cons x rest => rw [encodeLines]

/-- with a final terminator: every line followed by its terminator -/
theorem encodeLines_true (ls : List (List UInt8 × Term)) :
    encodeLines ls true = ls.flatMap fun p => p.1 ++ p.2.bytes := by
  induction ls with
  | nil => rfl
  | cons p ls ih =>
    obtain ⟨l, t⟩ := p
    rw [encodeLines_cons_true, ih]
    simp

theorem encodeLines_append (a b : List (List UInt8 × Term)) (final : Bool) (hb : b ≠ []) :
    encodeLines (a ++ b) final = encodeLines a true ++ encodeLines b final := by
  induction a with
  | nil => simp [encodeLines]
  | cons p a ih =>
    obtain ⟨l, t⟩ := p
    rw [List.cons_append, encodeLines_cons_ne _ _ _ _ (by simp [hb]), ih, encodeLines_cons_true]
    simp

theorem encodeLines_append_true (a b : List (List UInt8 × Term)) :
    encodeLines (a ++ b) true = encodeLines a true ++ encodeLines b true := by
  simp [encodeLines_true]

/-! ## what the reference parsers see: the physical lines -/

theorem lines_nil : lines [] = [] := by simp [lines, splitLF]

theorem lines_cons (a b : List UInt8) (h : LF ∉ a) : lines (a ++ LF :: b) = a :: lines b := by
  unfold lines
  rw [splitLF_append a b h]
  have hne := splitLF_ne_nil b
  cases hs : splitLF b with
  | nil => exact absurd hs hne
  | cons x xs =>
    simp only [List.getLast?_cons_cons]
    split <;> rename_i hl
    · simp [List.dropLast]
    · rfl

theorem lines_single (l : List UInt8) (h : LF ∉ l) (hne : l ≠ []) : lines l = [l] := by
  unfold lines
  rw [splitLF_noLF l h]
  simp [hne]

/-- the pieces between the LFs of an encoded text -/
def physLines : List (List UInt8 × Term) → Bool → List (List UInt8)
  | [], _ => []
  | [(l, t)], final => [l ++ (if final then t.cr else [])]
  | (l, t) :: x :: rest, final => (l ++ t.cr) :: physLines (x :: rest) final

theorem lines_encodeLines (ls : List (List UInt8 × Term)) (final : Bool)
    (h : ∀ p ∈ ls, LF ∉ p.1 ∧ p.1 ≠ []) : lines (encodeLines ls final) = physLines ls final := by
  fun_induction encodeLines ls final with
  | case1 final => simp [physLines, lines_nil]
  | case2 l t final =>
    have hl := h (l, t) (by simp)
    cases final with
    | true =>
      have : LF ∉ l ++ t.cr := by
        simp only [List.mem_append, not_or]; exact ⟨hl.1, t.lf_notin_cr⟩
      simp only [if_true, t.bytes_eq, physLines]
      rw [← List.append_assoc, List.append_cons (l ++ t.cr) LF [], List.append_nil,
        show (l ++ t.cr) ++ [LF] = (l ++ t.cr) ++ LF :: [] from rfl, lines_cons _ _ this, lines_nil]
    | false =>
      simp only [Bool.false_eq_true, if_false, List.append_nil, physLines]
      exact lines_single l hl.1 hl.2
  | case3 l t x rest final ih =>
    have hl := h (l, t) (by simp)
    have : LF ∉ l ++ t.cr := by
      simp only [List.mem_append, not_or]; exact ⟨hl.1, t.lf_notin_cr⟩
    rw [physLines, t.bytes_eq, ← List.append_assoc, List.append_assoc (l ++ t.cr), List.singleton_append,
      lines_cons _ _ this, ih (fun p hp => h p (by simp [hp]))]

/-- two lists are related element by element -/
inductive Forall2 {α β : Type} (R : α → β → Prop) : List α → List β → Prop
  | nil : Forall2 R [] []
  | cons {a b as bs} : R a b → Forall2 R as bs → Forall2 R (a :: as) (b :: bs)

/-- a physical line is the logical line, possibly followed by one CR -/
def CrEq (p l : List UInt8) : Prop := p = l ∨ p = l ++ [CR]

theorem crEq_cr (l : List UInt8) (t : Term) : CrEq (l ++ t.cr) l := by
  cases t
  · left; simp [Term.cr]
  · right; rfl

theorem physLines_crEq (ls : List (List UInt8 × Term)) (final : Bool) :
    Forall2 CrEq (physLines ls final) (ls.map Prod.fst) := by
  fun_induction physLines ls final with
  | case1 final => exact .nil
  | case2 l t final =>
    refine .cons ?_ .nil
    cases final
    · left; simp
    · exact crEq_cr l t
  | case3 l t x rest final ih => exact .cons (crEq_cr l t) ih

/-! ## FASTA -/

/-- a record without its byte offset -/
def nb (r : FaRec) : List UInt8 × List (List UInt8) × Nat := (r.head, r.seqLines, r.line)

/-- `faGroup` looks at a line only through these three functions (and its length, for offsets) -/
def SameLine (p l : List UInt8) : Prop :=
  p.head? = l.head? ∧ trimCr p = trimCr l ∧ trimCr (p.drop 1) = trimCr (l.drop 1)

theorem nb_close {r r' : FaRec} (h : nb r = nb r') :
    nb { r with seqLines := r.seqLines.reverse } = nb { r' with seqLines := r'.seqLines.reverse } := by
  simp only [nb, Prod.mk.injEq] at h ⊢
  obtain ⟨h1, h2, h3⟩ := h
  exact ⟨h1, by rw [h2], h3⟩

theorem faGroup_congr {ps ls : List (List UInt8)} (h : Forall2 SameLine ps ls) :
    ∀ (b b' line : Nat) (cur cur' : Option FaRec), cur.map nb = cur'.map nb →
      (faGroup ps b line cur).map nb = (faGroup ls b' line cur').map nb := by
  induction h with
  | nil =>
    intro b b' line cur cur' hc
    cases cur <;> cases cur' <;> simp only [Option.map_none, Option.map_some, Option.some.injEq,
      reduceCtorEq] at hc
    · simp [faGroup]
    · simp only [faGroup, List.map_cons, List.map_nil, List.cons.injEq, and_true]
      exact nb_close hc
  | @cons p l ps ls hpl _ ih =>
    intro b b' line cur cur' hc
    obtain ⟨h1, h2, h3⟩ := hpl
    simp only [faGroup]
    rw [h1]
    by_cases hg : l.head? = some GT
    · simp only [hg, if_true]
      cases cur <;> cases cur' <;> simp only [Option.map_none, Option.map_some, Option.some.injEq,
        reduceCtorEq] at hc
      · simp only
        apply ih
        simp only [nb, Option.map_some, h3]
      · simp only [List.map_cons, List.cons.injEq]
        refine ⟨nb_close hc, ?_⟩
        apply ih
        simp only [nb, Option.map_some, h3]
    · simp only [hg, if_false]
      cases cur <;> cases cur' <;> simp only [Option.map_none, Option.map_some, Option.some.injEq,
        reduceCtorEq] at hc
      · simp only
        exact ih _ _ _ _ _ rfl
      · simp only
        apply ih
        simp only [nb, Prod.mk.injEq, Option.map_some, Option.some.injEq] at hc ⊢
        obtain ⟨c1, c2, c3⟩ := hc
        exact ⟨c1, by rw [h2, c2], c3⟩

theorem trimCr_append_cr (l : List UInt8) : trimCr (l ++ [CR]) = l := by
  simp [trimCr]

theorem getLast?_drop_one (l : List UInt8) (h : l.getLast? ≠ some CR) :
    (l.drop 1).getLast? ≠ some CR := by
  cases l with
  | nil => simp
  | cons x xs =>
    cases xs with
    | nil => simp
    | cons y ys => simpa [List.getLast?_cons_cons] using h

theorem sameLine_of_crEq {p l : List UInt8} (h : CrEq p l) (hne : l ≠ [])
    (hl : l.getLast? ≠ some CR) : SameLine p l := by
  rcases h with rfl | rfl
  · exact ⟨rfl, rfl, rfl⟩
  · cases l with
    | nil => exact absurd rfl hne
    | cons x xs =>
      refine ⟨rfl, ?_, ?_⟩
      · rw [trimCr_append_cr, trimCr_id _ hl]
      · have := getLast?_drop_one _ hl
        simp only [List.drop_succ_cons, List.drop_zero, List.cons_append] at this ⊢
        rw [trimCr_append_cr, trimCr_id _ this]

theorem Forall2.imp {α β : Type} {R S : α → β → Prop} {as : List α} {bs : List β}
    (h : Forall2 R as bs) (himp : ∀ a b, b ∈ bs → R a b → S a b) : Forall2 S as bs := by
  induction h with
  | nil => exact .nil
  | cons hab _ ih =>
    exact .cons (himp _ _ (by simp) hab) (ih (fun a b hb => himp a b (by simp [hb])))

theorem Forall2.cons_right {α β : Type} {R : α → β → Prop} {as : List α} {b : β} {bs : List β}
    (h : Forall2 R as (b :: bs)) : ∃ a as', as = a :: as' ∧ R a b ∧ Forall2 R as' bs := by
  cases h with
  | cons h1 h2 => exact ⟨_, _, rfl, h1, h2⟩

/-- the logical lines of a FASTA file -/
def faLines (recs : List (List UInt8 × List (List UInt8))) : List (List UInt8) :=
  recs.flatMap fun p => (GT :: p.1) :: p.2

theorem faLines_cons (p : List UInt8 × List (List UInt8)) (recs : List (List UInt8 × List (List UInt8))) :
    faLines (p :: recs) = (GT :: p.1) :: (p.2 ++ faLines recs) := by
  simp [faLines]

/-- heads HeadOk; sequence lines SeqOk and not empty -/
def FaOk (recs : List (List UInt8 × List (List UInt8))) : Prop :=
  ∀ p ∈ recs, HeadOk p.1 ∧ ∀ s ∈ p.2, SeqOk s ∧ s ≠ []

/-- what the parser is expected to return: heads, sequence lines, 1-based line numbers, computed
from the content alone -/
def faExpected : List (List UInt8 × List (List UInt8)) → Nat → List (List UInt8 × List (List UInt8) × Nat)
  | [], _ => []
  | p :: rest, line => (p.1, p.2, line) :: faExpected rest (line + 1 + p.2.length)

theorem faExpected_content (recs : List (List UInt8 × List (List UInt8))) (line : Nat) :
    (faExpected recs line).map (fun x => (x.1, x.2.1)) = recs := by
  induction recs generalizing line with
  | nil => rfl
  | cons p recs ih => simp [faExpected, ih]

theorem faLines_ok (recs : List (List UInt8 × List (List UInt8))) (hok : FaOk recs) :
    ∀ l ∈ faLines recs, LF ∉ l ∧ l ≠ [] ∧ l.getLast? ≠ some CR := by
  intro l hl
  simp only [faLines, List.mem_flatMap, List.mem_cons] at hl
  obtain ⟨p, hp, rfl | hl⟩ := hl
  · have := (hok p hp).1
    refine ⟨?_, by simp, getLast?_GT_cons _ this.2⟩
    simp only [List.mem_cons, not_or]
    exact ⟨by decide, this.1⟩
  · have := ((hok p hp).2 l hl)
    exact ⟨this.1.1, this.2, getLast?_ne_of_not_mem _ _ this.1.2.1⟩

/-- sequence lines are collected into the current record -/
theorem faGroup_seqs (cs : List (List UInt8)) (hcs : ∀ c ∈ cs, CR ∉ c ∧ GT ∉ c)
    (rest : List (List UInt8)) (byte line : Nat) (r : FaRec) :
    ∃ byte', faGroup (cs ++ rest) byte line (some r) =
      faGroup rest byte' (line + cs.length) (some { r with seqLines := cs.reverse ++ r.seqLines }) := by
  induction cs generalizing byte line r with
  | nil => exact ⟨byte, by simp⟩
  | cons c cs ih =>
    rw [List.cons_append, faGroup_seqLine_step c (hcs c (by simp))]
    obtain ⟨b', e⟩ := ih (fun x hx => hcs x (by simp [hx])) (byte + c.length + 1) (line + 1)
      { r with seqLines := c :: r.seqLines }
    refine ⟨b', ?_⟩
    rw [e]
    simp only [List.length_cons, List.reverse_cons, List.append_assoc, List.singleton_append]
    congr 1
    omega

/-- the reference grouping on the logical lines -/
theorem faGroup_logical (recs : List (List UInt8 × List (List UInt8))) (hok : FaOk recs)
    (byte line : Nat) (cur : Option FaRec) :
    ∃ out : List FaRec,
      faGroup (faLines recs) byte line cur =
        (match cur with
          | none => []
          | some r => [{ r with seqLines := r.seqLines.reverse }]) ++ out ∧
      out.map nb = faExpected recs line := by
  induction recs generalizing byte line cur with
  | nil =>
    refine ⟨[], ?_, rfl⟩
    cases cur <;> simp [faLines, faGroup]
  | cons p recs ih =>
    have hp := hok p (by simp)
    rw [faLines_cons, faGroup_head p.1 hp.1.2]
    obtain ⟨b', e⟩ := faGroup_seqs p.2 (fun c hc => seqOk_line c (hp.2 c hc).1) (faLines recs)
      (byte + (p.1.length + 1) + 1) (line + 1)
      { byte := byte, line := line, head := p.1, seqLines := [] }
    obtain ⟨out, h1, h2⟩ := ih (fun x hx => hok x (by simp [hx])) b' (line + 1 + p.2.length)
      (some { byte := byte, line := line, head := p.1, seqLines := p.2.reverse ++ [] })
    refine ⟨{ byte := byte, line := line, head := p.1, seqLines := p.2 } :: out, ?_, ?_⟩
    · rw [e, h1]; cases cur <;> simp
    · rw [List.map_cons, h2]; rfl

/-- the general form: any assignment of terminators to the lines of the content -/
theorem fasta_recode_lines (recs : List (List UInt8 × List (List UInt8))) (hok : FaOk recs)
    (tls : List (List UInt8 × Term)) (htls : tls.map Prod.fst = faLines recs) (final : Bool) :
    ∃ rs, Spec.fasta (encodeLines tls final) = .records rs ∧
      rs.map (fun r => (r.head, r.seqLines, r.line)) = faExpected recs 1 := by
  have hlok := faLines_ok recs hok
  have hlines : lines (encodeLines tls final) = physLines tls final := by
    apply lines_encodeLines
    intro p hp
    have : p.1 ∈ faLines recs := by rw [← htls]; exact List.mem_map_of_mem hp
    exact ⟨(hlok _ this).1, (hlok _ this).2.1⟩
  have hsame : Forall2 SameLine (physLines tls final) (faLines recs) := by
    have := physLines_crEq tls final
    rw [htls] at this
    exact this.imp fun a b hb hab => sameLine_of_crEq hab (hlok b hb).2.1 (hlok b hb).2.2
  obtain ⟨out, h1, h2⟩ := faGroup_logical recs hok 0 1 none
  simp only [List.nil_append] at h1
  unfold Spec.fasta
  rw [hlines]
  cases recs with
  | nil =>
    have : tls = [] := by simpa [faLines] using htls
    subst this
    exact ⟨[], by simp [physLines, skipBlank], rfl⟩
  | cons p recs =>
    have hp := hok p (by simp)
    rw [faLines_cons] at hsame h1
    obtain ⟨pl, pls, hpe, hpl, hrest⟩ := hsame.cons_right
    rw [hpe]
    · have hh : pl.head? = some GT := by rw [hpl.1]; rfl
      have hnb : blank pl = false := by
        have := not_blank_GT_cons p.1 hp.1.2
        simp only [blank] at this ⊢
        rw [hpl.2.1]; exact this
      refine ⟨faGroup (pl :: pls) 0 1 none, ?_, ?_⟩
      · simp [skipBlank, hnb, hh]
      · have := faGroup_congr (.cons hpl hrest) 0 0 1 none none rfl
        rw [h1] at this
        rw [← h2, ← this]
        rfl

/-- a FASTA file: the lines of `recs`, line `i` (0-based, counted over the whole file) terminated
by `terms i`, the last one only if `final` -/
def encodeFasta (recs : List (List UInt8 × List (List UInt8))) (terms : Nat → Term) (final : Bool) :
    List UInt8 :=
  encodeLines ((faLines recs).mapIdx fun i l => (l, terms i)) final

theorem map_fst_mapIdx (ls : List (List UInt8)) (terms : Nat → Term) :
    (ls.mapIdx fun i l => (l, terms i)).map Prod.fst = ls := by
  induction ls generalizing terms with
  | nil => rfl
  | cons l ls ih =>
    rw [List.mapIdx_cons, List.map_cons, ih]

/-- **C12, FASTA.** Heads, sequence lines and line numbers returned by the reference semantics do
not depend on the terminators chosen per line nor on the presence of the final terminator. -/
theorem fasta_recode_invariant (recs : List (List UInt8 × List (List UInt8))) (hok : FaOk recs)
    (terms : Nat → Term) (final : Bool) :
    ∃ rs, Spec.fasta (encodeFasta recs terms final) = .records rs ∧
      rs.map (fun r => (r.head, r.seqLines, r.line)) = faExpected recs 1 :=
  fasta_recode_lines recs hok _ (map_fst_mapIdx _ terms) final

/-- heads and lines are those of the content, in order -/
theorem fasta_recode_content (recs : List (List UInt8 × List (List UInt8))) (hok : FaOk recs)
    (terms : Nat → Term) (final : Bool) :
    ∃ rs, Spec.fasta (encodeFasta recs terms final) = .records rs ∧
      rs.map (fun r => (r.head, r.seqLines)) = recs := by
  obtain ⟨rs, h1, h2⟩ := fasta_recode_invariant recs hok terms final
  refine ⟨rs, h1, ?_⟩
  have := congrArg (List.map fun x => (x.1, x.2.1)) h2
  rw [faExpected_content, List.map_map] at this
  exact this

/-- no CR reaches the caller (for heads that do not contain one) -/
theorem fasta_no_cr (recs : List (List UInt8 × List (List UInt8))) (hok : FaOk recs)
    (hcr : ∀ p ∈ recs, CR ∉ p.1) (terms : Nat → Term) (final : Bool) :
    ∃ rs, Spec.fasta (encodeFasta recs terms final) = .records rs ∧
      ∀ r ∈ rs, CR ∉ r.head ∧ ∀ s ∈ r.seqLines, CR ∉ s := by
  obtain ⟨rs, h1, h2⟩ := fasta_recode_content recs hok terms final
  refine ⟨rs, h1, ?_⟩
  intro r hr
  have : (r.head, r.seqLines) ∈ recs := by
    rw [← h2]; exact List.mem_map_of_mem (f := fun r : FaRec => (r.head, r.seqLines)) hr
  exact ⟨hcr _ this, fun s hs => ((hok _ this).2 s hs).1.2.1⟩

/-! ## FASTQ -/

/-- head, sequence, quality, and whether the separator line repeats the head -/
abbrev FqContent := List UInt8 × List UInt8 × List UInt8 × Bool

def fqRecLines (p : FqContent) : List (List UInt8) :=
  [AT :: p.1, p.2.1, PLUS :: (if p.2.2.2 then p.1 else []), p.2.2.1]

/-- the logical lines of a FASTQ file -/
def fqLines (recs : List FqContent) : List (List UInt8) := recs.flatMap fqRecLines

/-- a FASTQ file with one terminator for all lines, the last one terminated only if `final` -/
def encodeFastq (recs : List FqContent) (t : Term) (final : Bool) : List UInt8 :=
  encodeLines ((fqLines recs).map fun l => (l, t)) final

def FqOk (recs : List FqContent) : Prop :=
  ∀ p ∈ recs, HeadOk p.1 ∧ FieldOk p.2.1 ∧ FieldOk p.2.2.1 ∧ p.2.1.length = p.2.2.1.length

/-- heads, sequences, qualities and 1-based line numbers, from the content alone -/
def fqExpected : List FqContent → Nat → List (List UInt8 × List UInt8 × List UInt8 × Nat)
  | [], _ => []
  | p :: rest, line => (p.1, p.2.1, p.2.2.1, line) :: fqExpected rest (line + 4)

/-- the four lines of one record, all terminated -/
def enc4 (p : FqContent) (t : Term) : List UInt8 :=
  encodeLines ((fqRecLines p).map fun l => (l, t)) true

theorem enc4_eq (p : FqContent) (t : Term) (e : List UInt8) :
    enc4 p t ++ e =
      (AT :: p.1 ++ t.cr) ++ LF :: ((p.2.1 ++ t.cr) ++ LF ::
        ((PLUS :: (if p.2.2.2 then p.1 else []) ++ t.cr) ++ LF :: ((p.2.2.1 ++ t.cr) ++ LF :: e))) := by
  simp [enc4, encodeLines_true, fqRecLines, Term.bytes_eq]

theorem encodeFastq_nil (t : Term) (final : Bool) : encodeFastq [] t final = [] := by
  simp [encodeFastq, fqLines, encodeLines]

theorem fqLines_cons (p : FqContent) (recs : List FqContent) :
    fqLines (p :: recs) = fqRecLines p ++ fqLines recs := by simp [fqLines]

theorem fqLines_ne_nil (p : FqContent) (recs : List FqContent) : fqLines (p :: recs) ≠ [] := by
  simp [fqLines_cons, fqRecLines]

theorem encodeFastq_cons (p : FqContent) (recs : List FqContent) (t : Term) (final : Bool)
    (h : recs ≠ [] ∨ final = true) :
    encodeFastq (p :: recs) t final = enc4 p t ++ encodeFastq recs t final := by
  unfold encodeFastq enc4
  rw [fqLines_cons, List.map_append]
  rcases h with h | h
  · apply encodeLines_append
    cases recs with
    | nil => exact absurd rfl h
    | cons q recs => simpa using fqLines_ne_nil q recs
  · subst h
    exact encodeLines_append_true _ _

theorem encodeFastq_single_false (p : FqContent) (t : Term) :
    encodeFastq [p] t false =
      (AT :: p.1 ++ t.cr) ++ LF :: ((p.2.1 ++ t.cr) ++ LF ::
        ((PLUS :: (if p.2.2.2 then p.1 else []) ++ t.cr) ++ LF :: p.2.2.1)) := by
  simp [encodeFastq, fqLines, fqRecLines, encodeLines, Term.bytes_eq]

theorem trimCr_cr (l : List UInt8) (h : l.getLast? ≠ some CR) (t : Term) : trimCr (l ++ t.cr) = l := by
  cases t
  · simpa [Term.cr] using trimCr_id l h
  · exact trimCr_append_cr l

/-- the verdict on the four physical lines of a well-formed record, whatever CRs they carry -/
theorem fqGroup_rec (h s x q : List UInt8) (hh : HeadOk h) (hs : FieldOk s) (hq : FieldOk q)
    (hl : s.length = q.length) (t1 t2 t3 t4 : Term) (byte line : Nat) (atEof : Bool) :
    fqGroup false (AT :: h ++ t1.cr) (s ++ t2.cr) (PLUS :: x ++ t3.cr) (q ++ t4.cr) byte line atEof =
      .record { byte := byte, line := line, head := h, seq := s, qual := q } := by
  have e1 := trimCr_cr h hh.2 t1
  have e2 := trimCr_cr s (getLast?_ne_of_not_mem s CR hs.2) t2
  have e4 := trimCr_cr q (getLast?_ne_of_not_mem q CR hq.2) t4
  simp [fqGroup, e1, e2, e4, hl]

theorem lf_notin_line {l : List UInt8} (h : LF ∉ l) (t : Term) : LF ∉ l ++ t.cr := by
  simp only [List.mem_append, not_or]; exact ⟨h, t.lf_notin_cr⟩

theorem fqLines_noLF (p : FqContent) (hh : HeadOk p.1) (hs : FieldOk p.2.1) (hq : FieldOk p.2.2.1) :
    LF ∉ AT :: p.1 ∧ LF ∉ p.2.1 ∧ LF ∉ PLUS :: (if p.2.2.2 then p.1 else []) ∧ LF ∉ p.2.2.1 := by
  refine ⟨?_, hs.1, ?_, hq.1⟩
  · simp only [List.mem_cons, not_or]; exact ⟨by decide, hh.1⟩
  · simp only [List.mem_cons, not_or]
    refine ⟨by decide, ?_⟩
    split
    · exact hh.1
    · simp

theorem enc4_length (p : FqContent) (t : Term) :
    (enc4 p t).length = (AT :: p.1 ++ t.cr).length + (p.2.1 ++ t.cr).length +
      (PLUS :: (if p.2.2.2 then p.1 else []) ++ t.cr).length + (p.2.2.1 ++ t.cr).length + 4 := by
  have := congrArg List.length (enc4_eq p t [])
  simp only [List.append_nil, List.length_append, List.length_cons, List.length_nil] at this ⊢
  omega

/-- one terminated record in front of more text -/
theorem fqGo_step (p : FqContent) (hh : HeadOk p.1) (hs : FieldOk p.2.1) (hq : FieldOk p.2.2.1)
    (hl : p.2.1.length = p.2.2.1.length) (t : Term) (e : List UInt8) (byte line : Nat) :
    fqGo false (splitLF (enc4 p t ++ e)) byte line =
      .record { byte := byte, line := line, head := p.1, seq := p.2.1, qual := p.2.2.1 } ::
        fqGo false (splitLF e) (byte + (enc4 p t).length) (line + 4) := by
  obtain ⟨n1, n2, n3, n4⟩ := fqLines_noLF p hh hs hq
  rw [enc4_eq, splitLF_append _ _ (lf_notin_line n1 t), splitLF_append _ _ (lf_notin_line n2 t),
    splitLF_append _ _ (lf_notin_line n3 t), splitLF_append _ _ (lf_notin_line n4 t),
    Fastq.fqGo_four _ _ _ _ _ _ (splitLF_ne_nil e), fqGroup_rec _ _ _ _ hh hs hq hl, enc4_length]
  simp only [Nat.add_assoc]

/-- the last record without its terminator -/
theorem fqGo_last (p : FqContent) (hh : HeadOk p.1) (hs : FieldOk p.2.1) (hq : FieldOk p.2.2.1)
    (hl : p.2.1.length = p.2.2.1.length) (t : Term) (byte line : Nat) :
    fqGo false (splitLF (encodeFastq [p] t false)) byte line =
      [.record { byte := byte, line := line, head := p.1, seq := p.2.1, qual := p.2.2.1 }] := by
  obtain ⟨n1, n2, n3, n4⟩ := fqLines_noLF p hh hs hq
  have := fqGroup_rec p.1 p.2.1 (if p.2.2.2 then p.1 else []) p.2.2.1 hh hs hq hl t t t .lf byte line true
  simp only [Term.cr, List.append_nil] at this
  rw [encodeFastq_single_false, splitLF_append _ _ (lf_notin_line n1 t),
    splitLF_append _ _ (lf_notin_line n2 t), splitLF_append _ _ (lf_notin_line n3 t),
    splitLF_noLF _ n4, Fastq.fqGo_three]
  rw [← this]
  cases t <;> rfl

/-- the reference parser on an encoded file, possibly followed by text `e` that yields nothing -/
theorem fqGo_encoded (recs : List FqContent) (hok : FqOk recs) (t : Term) (final : Bool)
    (e : List UInt8) (he : final = false → e = [])
    (hE : ∀ b l, fqGo false (splitLF e) b l = []) (byte line : Nat) :
    ∃ rs : List FqRec,
      fqGo false (splitLF (encodeFastq recs t final ++ e)) byte line = rs.map FqItem.record ∧
      rs.map (fun r => (r.head, r.seq, r.qual, r.line)) = fqExpected recs line := by
  induction recs generalizing byte line with
  | nil => exact ⟨[], by rw [encodeFastq_nil, List.nil_append, hE]; rfl, rfl⟩
  | cons p recs ih =>
    obtain ⟨hh, hs, hq, hl⟩ := hok p (by simp)
    by_cases hc : recs ≠ [] ∨ final = true
    · have e1 := fqGo_step p hh hs hq hl t (encodeFastq recs t final ++ e) byte line
      obtain ⟨rs, e2, e3⟩ := ih (fun x hx => hok x (by simp [hx])) (byte + (enc4 p t).length) (line + 4)
      refine ⟨{ byte := byte, line := line, head := p.1, seq := p.2.1, qual := p.2.2.1 } :: rs, ?_, ?_⟩
      · rw [encodeFastq_cons p recs t final hc, List.append_assoc, e1, e2]; rfl
      · rw [List.map_cons, e3]; rfl
    · have h1 : recs = [] := by
        apply Classical.byContradiction; intro h; exact hc (Or.inl h)
      have h2 : final = false := by
        cases final
        · rfl
        · exact absurd (Or.inr rfl) hc
      subst h1; subst h2
      rw [he rfl, List.append_nil, fqGo_last p hh hs hq hl]
      exact ⟨[{ byte := byte, line := line, head := p.1, seq := p.2.1, qual := p.2.2.1 }], rfl, rfl⟩

/-- **C12, FASTQ.** The LF and the CRLF version of a file, with or without the terminator of the
last line, yield records only, with the same heads, sequences, qualities and line numbers
`1, 5, 9, …`. -/
theorem fastq_recode_invariant (recs : List FqContent) (hok : FqOk recs) (t : Term) (final : Bool) :
    ∃ rs : List FqRec, Spec.fastq (encodeFastq recs t final) = rs.map FqItem.record ∧
      rs.map (fun r => (r.head, r.seq, r.qual, r.line)) = fqExpected recs 1 := by
  have := fqGo_encoded recs hok t final [] (fun _ => rfl) (fun b l => fqGo_end false b l) 0 1
  rw [List.append_nil] at this
  exact this

/-- up to two blank lines (with the file's terminator) after the terminated last line change nothing -/
theorem fastq_recode_trailing (recs : List FqContent) (hok : FqOk recs) (t : Term) (trail : Nat)
    (htrail : trail ≤ 2) :
    ∃ rs : List FqRec,
      Spec.fastq (encodeFastq recs t true ++ (List.replicate trail t.bytes).flatten) =
        rs.map FqItem.record ∧
      rs.map (fun r => (r.head, r.seq, r.qual, r.line)) = fqExpected recs 1 := by
  apply fqGo_encoded recs hok t true _ (fun h => by cases h)
  intro b l
  have : trail = 0 ∨ trail = 1 ∨ trail = 2 := by omega
  rcases this with rfl | rfl | rfl <;> cases t <;>
    simp [List.replicate, Term.bytes, splitLF, fqGo, blank, trimCr, LF, CR]

theorem fqExpected_content (recs : List FqContent) (line : Nat) :
    (fqExpected recs line).map (fun x => (x.1, x.2.1, x.2.2.1)) =
      recs.map (fun p => (p.1, p.2.1, p.2.2.1)) := by
  induction recs generalizing line with
  | nil => rfl
  | cons p recs ih => simp [fqExpected, ih]

/-- no CR reaches the caller (for heads that do not contain one) -/
theorem fastq_no_cr (recs : List FqContent) (hok : FqOk recs) (hcr : ∀ p ∈ recs, CR ∉ p.1)
    (t : Term) (final : Bool) :
    ∃ rs : List FqRec, Spec.fastq (encodeFastq recs t final) = rs.map FqItem.record ∧
      ∀ r ∈ rs, CR ∉ r.head ∧ CR ∉ r.seq ∧ CR ∉ r.qual := by
  obtain ⟨rs, h1, h2⟩ := fastq_recode_invariant recs hok t final
  refine ⟨rs, h1, ?_⟩
  intro r hr
  have h3 := congrArg (List.map fun x => (x.1, x.2.1, x.2.2.1)) h2
  rw [fqExpected_content, List.map_map] at h3
  have : (r.head, r.seq, r.qual) ∈ recs.map (fun p => (p.1, p.2.1, p.2.2.1)) := by
    rw [← h3]
    exact List.mem_map_of_mem (f := (fun x : List UInt8 × List UInt8 × List UInt8 × Nat => (x.1, x.2.1, x.2.2.1)) ∘
      fun r : FqRec => (r.head, r.seq, r.qual, r.line)) hr
  obtain ⟨p, hp, hpe⟩ := List.mem_map.mp this
  simp only [Prod.mk.injEq] at hpe
  obtain ⟨a, b, c⟩ := hpe
  have := hok p hp
  exact ⟨a ▸ hcr p hp, b ▸ this.2.1.2, c ▸ this.2.2.1.2⟩

end SeqIo.Recode
