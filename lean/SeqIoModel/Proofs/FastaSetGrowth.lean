import SeqIoModel.Proofs.FastaSetGrowthPlain
/-!
# C09 for histories: the policy requests of `next` and of record set reads

From the history invariant `HInv` (all reader states that histories of `next`, owned `next`, record
set reads, exact-count reads and seeks can leave behind, failure-free script, policy possibly
refusing):

* `set_growth_log`: one `read_record_set[_exact]` call extends the log by a `LogChain` from the
  capacity on entry to the capacity on exit (growth only via the policy, capacity adopted =
  answer), `BufferLimit` is the result iff the last request was refused, and – plain sets – every
  request passes a capacity into which the FIRST record of the batch does not fit.
* `next_growth_log_history`: the same for `next` from any of these states.
* `fitting_never_grows_history`: if every record fits the capacity, no history of `next`, owned
  `next`, plain record set reads, set iterations and `position` calls ever asks the policy.
-/
open SeqIo SeqIo.FillProofs SeqIo.Spec

namespace SeqIo.Fasta.Hist

theorem nextCont_unfit {inp : List UInt8} {r : Reader} {k fu : Nat} (h : Ready inp r k)
    (hst : r.state = .parsing ∨ r.state = .incomplete) (hfu : inp.length < fu) :
    ∃ new, (nextCont fu r).1.log = r.log ++ new ∧ Unfits inp r.byte new := by
  rcases hst with hst | hst
  · obtain ⟨r', new, hg, hun, hcase⟩ := nextCont_spec h.win h.eof h.scan hst hfu
    refine ⟨new, ?_, hun⟩
    rcases hcase with ⟨hres, _⟩ | ⟨hres, _⟩ <;> rw [hres] <;> exact hg.log
  · obtain ⟨hfull, hnear⟩ := h.inc hst
    have hcl := h.win.b.cur_le
    obtain ⟨r', new, hg, hun, hcase⟩ := resume_spec fu r r.byte h.win h.scan hst hfull hnear (by omega)
    refine ⟨new, ?_, hun⟩
    rw [Fault.nextCont_eq, if_neg (by rw [hst]; simp)]
    show (Fault.nextTail fu r).1.log = _
    unfold Fault.nextTail
    rw [if_pos hst]
    rcases hcase with ⟨hres, _⟩ | ⟨hres, _⟩
    · rw [hres]
      simp only
      by_cases hf : r'.state = .finished
      · rw [if_neg (by rw [hf]; simp)]; exact hg.log
      · rw [if_pos hf]; exact hg.log
    · rw [hres]
      exact hg.log

/-- the requests of one `next` call from any reachable state concern the record that is read -/
theorem next_unfit {inp : List UInt8} {r : Reader} {k fu : Nat} (h : RInv inp r k)
    (hfu : inp.length < fu) :
    ∃ new, (next fu r).1.log = r.log ++ new ∧ UnfitLog inp new := by
  cases h with
  | fresh hf =>
    obtain ⟨r1, res1, hinit, _, hcase⟩ := init_fresh hf hfu
    have hlc := init_lc fu r
    rw [hinit] at hlc
    rcases hcase with ⟨hres, _, hready⟩ | ⟨hres, _⟩ | ⟨ln, c, hres, _⟩
    · subst hres
      have hr := hready .parsing (by intro h; cases h)
      obtain ⟨new, hlog, hun⟩ := nextCont_unfit hr (Or.inl rfl) hfu
      refine ⟨new, ?_, unfitLog_of_ready hr hun⟩
      simp only [next, hf.st, hinit]
      rw [hlog]
      show r1.log ++ new = _
      rw [hlc.log]
    · subst hres
      exact ⟨[], by simp only [next, hf.st, hinit, List.append_nil]; exact hlc.log, Or.inl rfl⟩
    · subst hres
      exact ⟨[], by simp only [next, hf.st, hinit, List.append_nil]; exact hlc.log, Or.inl rfl⟩
  | parsing hp hst0 =>
    have hr := ready_incRec' hp (by rw [hst0]; intro h; cases h)
    obtain ⟨new, hlog, hun⟩ := nextCont_unfit hr (Or.inl hst0) hfu
    exact ⟨new, by rw [next_parsing fu r hst0 hp.start_le, hlog]; rfl, unfitLog_of_ready hr hun⟩
  | ready hr hst =>
    rcases hst with hst | hst
    · have hr' := hr.withState .parsing (by intro h; cases h)
      obtain ⟨new, hlog, hun⟩ := nextCont_unfit hr' (Or.inl rfl) hfu
      exact ⟨new, by simp only [next, hst]; exact hlog, unfitLog_of_ready hr' hun⟩
    · obtain ⟨new, hlog, hun⟩ := nextCont_unfit hr (Or.inr hst) hfu
      exact ⟨new, by simp only [next, hst]; exact hlog, unfitLog_of_ready hr hun⟩
  | finished hfin hk =>
    exact ⟨[], by rw [next_finished fu r hfin.st, List.append_nil], Or.inl rfl⟩

/-- what the bookkeeping lemmas need, from the history invariant -/
theorem pre_of_rinv {inp : List UInt8} {r : Reader} {k : Nat} (h : RInv inp r k) :
    Pre r ∧ (r.state = .incomplete → r.br.cap ≤ r.br.buf.length) := by
  have hw := h.win
  refine ⟨⟨hw.pol, by have := hw.b.cap_ge; omega⟩, ?_⟩
  intro hst
  cases h with
  | fresh hf => rw [hf.st] at hst; cases hst
  | parsing _ h' => rw [h'] at hst; cases hst
  | ready hr _ => exact (hr.inc hst).1
  | finished hf _ => rw [hf.st] at hst; cases hst

theorem ChainOut.iff {α : Type} {r r' : Reader} {res : Res α} {new : List (Nat × Option Nat)}
    (h : ChainOut r r' res new) :
    res = .err .bufferLimit ↔ ∃ pre c, new = pre ++ [(c, none)] := by
  rcases h.2 with ⟨hr, hn⟩ | ⟨hr, hp⟩
  · constructor
    · intro h'; exact absurd h' hr
    · rintro ⟨pre, c, hnew⟩
      exact absurd rfl (hn (c, none) (by rw [hnew]; simp))
  · exact ⟨fun _ => hp, fun _ => hr⟩

/-- **C09 for one record set read**, from any reader state a history can leave behind:
the log is extended by a chain of requests from the capacity on entry to the capacity on exit,
the policy function is unchanged, `BufferLimit` is the result iff the last request was refused;
for a plain read (`n = none`) every request passes a capacity into which record `k` – the first
record of the batch – does not fit.  (For exact-count reads only the bookkeeping part holds: later
records of the batch may need a bigger buffer.) -/
theorem set_growth_log_rinv {inp : List UInt8} {r : Reader} {k fu : Nat} (h : RInv inp r k)
    (hfu : 2 * inp.length + 2 < fu) (rs : RecordSet) (n : Option Nat) :
    ∃ new, (readRecordSetExact fu r rs n).1.log = r.log ++ new ∧
      LogChain r.br.cap new (readRecordSetExact fu r rs n).1.br.cap ∧
      (readRecordSetExact fu r rs n).1.pol.f = r.pol.f ∧
      ((readRecordSetExact fu r rs n).2.2 = .err .bufferLimit ↔ ∃ pre c, new = pre ++ [(c, none)]) ∧
      (n = none → new = [] ∨ ∃ rc, (recsOf inp)[k]? = some rc ∧ RecStart inp rc.byte ∧
        ∀ e ∈ new, e.1 < recExtent inp rc.byte + 1) := by
  obtain ⟨hpre, hinc⟩ := pre_of_rinv h
  obtain ⟨new, hco⟩ := readSet_chain fu r rs n hpre hinc
  refine ⟨new, hco.1.log, hco.1.chain, hco.1.polf, hco.iff, ?_⟩
  intro hn
  subst hn
  obtain ⟨new', hlog, hun⟩ := readSet_plain_unfit h hfu rs
  have : new' = new := by
    have := hco.1.log
    rw [hlog] at this
    exact List.append_cancel_left this
  subst this
  exact hun

theorem set_growth_log {inp : List UInt8} {m : MSt} {a : AState} (h : HInv inp m a)
    (rs : RecordSet) (n : Option Nat) :
    ∃ new, (readRecordSetExact (fuelOf m.r) m.r rs n).1.log = m.r.log ++ new ∧
      LogChain m.r.br.cap new (readRecordSetExact (fuelOf m.r) m.r rs n).1.br.cap ∧
      (readRecordSetExact (fuelOf m.r) m.r rs n).1.pol.f = m.r.pol.f ∧
      ((readRecordSetExact (fuelOf m.r) m.r rs n).2.2 = .err .bufferLimit ↔
        ∃ pre c, new = pre ++ [(c, none)]) ∧
      (n = none → new = [] ∨ ∃ rc, (recsOf inp)[a.k]? = some rc ∧ RecStart inp rc.byte ∧
        ∀ e ∈ new, e.1 < recExtent inp rc.byte + 1) :=
  set_growth_log_rinv h.rd h.fuel rs n

/-- **C09 for one `next` call** from any reader state a history can leave behind (the counterpart
of `next_growth_log` / `only_when_unfit` / `bufferLimit_iff_refused` for states reached through
record set reads and seeks as well) -/
theorem next_growth_log_rinv {inp : List UInt8} {r : Reader} {k fu : Nat} (h : RInv inp r k)
    (hfu : inp.length < fu) :
    ∃ new, (next fu r).1.log = r.log ++ new ∧ LogChain r.br.cap new (next fu r).1.br.cap ∧
      (next fu r).1.pol.f = r.pol.f ∧
      ((next fu r).2 = .err .bufferLimit ↔ ∃ pre c, new = pre ++ [(c, none)]) ∧
      (new = [] ∨ ∃ s, RecStart inp s ∧ ∀ e ∈ new, e.1 < recExtent inp s + 1) := by
  obtain ⟨hpre, hinc⟩ := pre_of_rinv h
  obtain ⟨new, hco⟩ := next_chain fu r hpre hinc
  refine ⟨new, hco.1.log, hco.1.chain, hco.1.polf, hco.iff, ?_⟩
  obtain ⟨new', hlog, hun⟩ := next_unfit h hfu
  have : new' = new := by
    have := hco.1.log
    rw [hlog] at this
    exact List.append_cancel_left this
  subst this
  exact hun

theorem next_growth_log_history {inp : List UInt8} {m : MSt} {a : AState} (h : HInv inp m a) :
    ∃ new, (next (fuelOf m.r) m.r).1.log = m.r.log ++ new ∧
      LogChain m.r.br.cap new (next (fuelOf m.r) m.r).1.br.cap ∧
      (next (fuelOf m.r) m.r).1.pol.f = m.r.pol.f ∧
      ((next (fuelOf m.r) m.r).2 = .err .bufferLimit ↔ ∃ pre c, new = pre ++ [(c, none)]) ∧
      (new = [] ∨ ∃ s, RecStart inp s ∧ ∀ e ∈ new, e.1 < recExtent inp s + 1) :=
  next_growth_log_rinv h.rd (by have := h.fuel; omega)

/-! ## inputs whose records all fit the buffer -/

/-- a chain of requests for a record that fits the capacity is empty -/
theorem fits_no_request {inp : List UInt8} {c0 cf : Nat} {new : List (Nat × Option Nat)}
    (hfit : Fits inp c0) (hc : LogChain c0 new cf)
    (hun : new = [] ∨ ∃ s, RecStart inp s ∧ ∀ e ∈ new, e.1 < recExtent inp s + 1) :
    new = [] ∧ cf = c0 := by
  cases new with
  | nil => exact ⟨rfl, hc⟩
  | cons e rest =>
    exfalso
    rcases hun with h | ⟨s, hrs, hlt⟩
    · cases h
    · have h1 := hlt e (by simp)
      have h2 : e.1 = c0 := hc.head_eq
      have := hfit s hrs
      omega

/-- operations of a history that never needs a bigger buffer than one record -/
def PlainOp : Op → Prop
  | .next => True
  | .owned => True
  | .set _ none => True
  | .set _ (some _) => False
  | .dump _ => True
  | .pos => True
  | .seekRec _ => False

/-- the machine state after a history -/
def finalM (m : MSt) : List Op → MSt
  | [] => m
  | op :: ops => finalM (stepM m op).1 ops

theorem step_fits {inp : List UInt8} {m : MSt} {a : AState} (h : HInv inp m a)
    (hfit : Fits inp m.r.br.cap) (op : Op) (hop : PlainOp op) :
    (stepM m op).1.r.log = m.r.log ∧ (stepM m op).1.r.br.cap = m.r.br.cap := by
  have hnext : (next (fuelOf m.r) m.r).1.log = m.r.log ∧
      (next (fuelOf m.r) m.r).1.br.cap = m.r.br.cap := by
    obtain ⟨new, hlog, hc, _, _, hun⟩ := next_growth_log_history h
    obtain ⟨h1, h2⟩ := fits_no_request hfit hc hun
    rw [h1, List.append_nil] at hlog
    exact ⟨hlog, h2⟩
  cases op with
  | next => exact hnext
  | owned => exact hnext
  | pos => exact ⟨rfl, rfl⟩
  | seekRec i => exact absurd hop (by simp [PlainOp])
  | dump j =>
    simp only [stepM]
    cases m.sets[j]? <;> exact ⟨rfl, rfl⟩
  | set j n =>
    cases n with
    | some n' => exact absurd hop (by simp [PlainOp])
    | none =>
      cases hj : m.sets[j]? with
      | none =>
        rw [stepM_set_none (by intro h; cases h) hj]
        exact ⟨rfl, rfl⟩
      | some rs =>
        rw [stepM_set_some (by intro h; cases h) hj]
        obtain ⟨new, hlog, hc, _, _, hun⟩ := set_growth_log h rs none
        have hun' : new = [] ∨ ∃ s, RecStart inp s ∧ ∀ e ∈ new, e.1 < recExtent inp s + 1 := by
          rcases hun rfl with h' | ⟨rc, _, hrs, hlt⟩
          · exact Or.inl h'
          · exact Or.inr ⟨rc.byte, hrs, hlt⟩
        obtain ⟨h1, h2⟩ := fits_no_request hfit hc hun'
        rw [h1, List.append_nil] at hlog
        exact ⟨hlog, h2⟩

theorem finalM_fits {inp : List UInt8} : ∀ (ops : List Op) (m : MSt) (a : AState), HInv inp m a →
    Fits inp m.r.br.cap → (∀ op ∈ ops, PlainOp op) →
    (finalM m ops).r.log = m.r.log ∧ (finalM m ops).r.br.cap = m.r.br.cap := by
  intro ops
  induction ops with
  | nil => intro m a _ _ _; exact ⟨rfl, rfl⟩
  | cons op ops ih =>
    intro m a h hfit hplain
    obtain ⟨hl, hc⟩ := step_fits h hfit op (hplain op (by simp))
    obtain ⟨a', hinv', _, _⟩ := step_hinv h op
    obtain ⟨h1, h2⟩ := ih _ a' hinv' (by rw [hc]; exact hfit) (fun o ho => hplain o (by simp [ho]))
    exact ⟨by rw [finalM, h1, hl], by rw [finalM, h2, hc]⟩

/-- **C09/C18 for histories.** If every record of the input fits the buffer (extent + 1 ≤
capacity), then no history of `next`, owned `next`, plain record set reads, iterations over sets
and `position` calls ever asks the policy: the log stays empty and the capacity unchanged –
whatever the policy (it may refuse), the failure-free read script and the chunking. -/
theorem fitting_never_grows_history (inp : List UInt8) (cap : Nat) (hcap : 3 ≤ cap) (pol : Pol)
    (hpol : PolWfPos pol) (script : List ReadEv) (hs : NoFail script) (chunk : Nat)
    (ops : List Op) (hplain : ∀ op ∈ ops, PlainOp op) (hfit : Fits inp cap) :
    (finalM (mkMSt inp cap pol script chunk) ops).r.log = [] ∧
      (finalM (mkMSt inp cap pol script chunk) ops).r.br.cap = cap :=
  finalM_fits ops _ _ (hinv_init inp cap hcap pol hpol script hs chunk) hfit hplain

/-! ### … and then no refusal can ever be observed -/

theorem obsNext_limit {r' : Reader} {res : Res Bool} (h : obsNext r' res = .error .bufferLimit) :
    res = .err .bufferLimit := by
  cases res with
  | ok b =>
    cases b with
    | true =>
      simp only [obsNext] at h
      split at h <;> cases h
    | false => cases h
  | err e => simp only [obsNext, ObsH.error.injEq] at h; rw [h]
  | panic => cases h
  | fuel => cases h

theorem obsOwned_limit {r' : Reader} {res : Res Bool} (h : obsOwned r' res = .error .bufferLimit) :
    res = .err .bufferLimit := by
  cases res with
  | ok b =>
    cases b with
    | true =>
      simp only [obsOwned] at h
      split at h <;> cases h
    | false => cases h
  | err e => simp only [obsOwned, ObsH.error.injEq] at h; rw [h]
  | panic => cases h
  | fuel => cases h

theorem obsSet_limit {rs : RecordSet} {res : Res Bool} (h : obsSet rs res = .error .bufferLimit) :
    res = .err .bufferLimit := by
  cases res with
  | ok b => cases b <;> cases h
  | err e => simp only [obsSet, ObsH.error.injEq] at h; rw [h]
  | panic => cases h
  | fuel => cases h

theorem step_fits_no_limit {inp : List UInt8} {m : MSt} {a : AState} (h : HInv inp m a)
    (hfit : Fits inp m.r.br.cap) (op : Op) (hop : PlainOp op) :
    (stepM m op).2 ≠ .error .bufferLimit := by
  have hnext : (next (fuelOf m.r) m.r).2 ≠ .err .bufferLimit := by
    obtain ⟨new, _, hc, _, hiff, hun⟩ := next_growth_log_history h
    obtain ⟨h1, _⟩ := fits_no_request hfit hc hun
    intro hres
    obtain ⟨pre, c, hp⟩ := hiff.mp hres
    rw [h1] at hp
    simp at hp
  cases op with
  | next => exact fun ho => hnext (obsNext_limit ho)
  | owned => exact fun ho => hnext (obsOwned_limit ho)
  | pos => intro ho; cases ho
  | seekRec i => exact absurd hop (by simp [PlainOp])
  | dump j =>
    simp only [stepM]
    cases m.sets[j]? with
    | none => intro ho; cases ho
    | some rs =>
      simp only [obsDump]
      split <;> (intro ho; cases ho)
  | set j n =>
    cases n with
    | some n' => exact absurd hop (by simp [PlainOp])
    | none =>
      cases hj : m.sets[j]? with
      | none =>
        rw [stepM_set_none (by intro h; cases h) hj]
        intro ho; cases ho
      | some rs =>
        rw [stepM_set_some (by intro h; cases h) hj]
        obtain ⟨new, _, hc, _, hiff, hun⟩ := set_growth_log h rs none
        have hun' : new = [] ∨ ∃ s, RecStart inp s ∧ ∀ e ∈ new, e.1 < recExtent inp s + 1 := by
          rcases hun rfl with h' | ⟨rc, _, hrs, hlt⟩
          · exact Or.inl h'
          · exact Or.inr ⟨rc.byte, hrs, hlt⟩
        obtain ⟨h1, _⟩ := fits_no_request hfit hc hun'
        intro ho
        obtain ⟨pre, c, hp⟩ := hiff.mp (obsSet_limit ho)
        rw [h1] at hp
        simp at hp

theorem runM_fits_accepted {inp : List UInt8} : ∀ (ops : List Op) (m : MSt) (a : AState),
    HInv inp m a → Fits inp m.r.br.cap → (∀ op ∈ ops, PlainOp op) →
    runA (items inp) a ops (runM m ops) = true := by
  intro ops
  induction ops with
  | nil => intro m a _ _ _; rfl
  | cons op ops ih =>
    intro m a h hfit hplain
    have hop := hplain op (by simp)
    obtain ⟨_, hc⟩ := step_fits h hfit op hop
    obtain ⟨a', hinv', _, hacc⟩ := step_hinv h op
    rcases hacc with hacc | ⟨hobs, _⟩
    · rw [runM, runA_cons _ _ _ _ _ _ _ hacc]
      exact ih _ a' hinv' (by rw [hc]; exact hfit) (fun o ho => hplain o (by simp [ho]))
    · exact absurd hobs (step_fits_no_limit h hfit op hop)

/-- if every record fits, such a history is accepted by A whatever the policy: no `BufferLimit`
is ever reported -/
theorem fitting_history_accepted (inp : List UInt8) (cap : Nat) (hcap : 3 ≤ cap) (pol : Pol)
    (hpol : PolWfPos pol) (script : List ReadEv) (hs : NoFail script) (chunk : Nat)
    (ops : List Op) (hplain : ∀ op ∈ ops, PlainOp op) (hfit : Fits inp cap) :
    runA (items inp) aInit ops (runM (mkMSt inp cap pol script chunk) ops) = true :=
  runM_fits_accepted ops _ _ (hinv_init inp cap hcap pol hpol script hs chunk) hfit hplain

end SeqIo.Fasta.Hist
