import SeqIoModel.Proofs.FastqHistorySafe
/-!
# FASTQ histories, part 4: seeks

The items of S from the position of its `i`-th item on are S's items of the rest of the input;
seeking to such a position – inside the buffer or not, from any state – leaves the reader in a
good state for exactly these items.
-/

namespace SeqIo.Fastq
open SeqIo SeqIo.Spec SeqIo.FillProofs SeqIo.Fastq.Hist SeqIo.WriteProofs

/-! ## S from an item position on -/

theorem fqGroup_err_pos {h s p q : List UInt8} {b l : Nat} {at' : Bool} {e : FqErr} {b' l' : Nat}
    (hx : fqGroup false h s p q b l at' = .err e b' l') : b' = b ∧ l' = l := by
  rw [fqGroup_false_eq] at hx
  split at hx
  · cases hx; exact ⟨rfl, rfl⟩
  · split at hx
    · cases hx; exact ⟨rfl, rfl⟩
    · split at hx
      · cases hx; exact ⟨rfl, rfl⟩
      · cases hx

theorem fqGo_head_pos {ps : List (List UInt8)} {b l : Nat} {it : FqItem} {rest : List FqItem}
    (h : fqGo false ps b l = it :: rest) : itemPos it = (l, b) := by
  cases it with
  | record x =>
    have := fqGo_head_record h
    simp only [itemPos, this.1, this.2]
  | err e b' l' =>
    simp only [itemPos]
    match ps, h with
    | h' :: s :: p :: q :: r :: rest', h =>
      rw [fqGo_four false h' s p q (r :: rest') (by simp)] at h
      split at h
      · simp at h
      · rename_i e'' b'' l'' hy
        simp only [List.cons.injEq, FqItem.err.injEq] at h
        have := fqGroup_err_pos hy
        rw [← h.1.2.1, ← h.1.2.2, this.1, this.2]
    | [h', s, p, q], h =>
      rw [fqGo_three] at h
      simp only [List.cons.injEq] at h
      have := fqGroup_err_pos h.1
      rw [this.1, this.2]
    | [], h =>
      rw [fqGo_few false [] (by simp)] at h
      split at h
      · cases h
      · simp only [List.cons.injEq, FqItem.err.injEq] at h; rw [← h.1.2.1, ← h.1.2.2]
    | [a], h =>
      rw [fqGo_few false [a] (by simp)] at h
      split at h
      · cases h
      · simp only [List.cons.injEq, FqItem.err.injEq] at h; rw [← h.1.2.1, ← h.1.2.2]
    | [a, c], h =>
      rw [fqGo_few false [a, c] (by simp)] at h
      split at h
      · cases h
      · simp only [List.cons.injEq, FqItem.err.injEq] at h; rw [← h.1.2.1, ← h.1.2.2]
    | [a, c, d], h =>
      rw [fqGo_few false [a, c, d] (by simp)] at h
      split at h
      · cases h
      · simp only [List.cons.injEq, FqItem.err.injEq] at h; rw [← h.1.2.1, ← h.1.2.2]

/-- four terminated lines at the start of `t` -/
theorem splitLF_nl4_some {t : List UInt8} {d : Nat} (h : nl4 t = some d) :
    ∃ h' s p q, splitLF t = h' :: s :: p :: q :: splitLF (t.drop d) ∧
      h'.length + s.length + p.length + q.length + 4 = d ∧ d ≤ t.length := by
  obtain ⟨a, b, c, ha, hb, hc, hd⟩ := nl4_some h
  have hd' := nl_some hd
  have hf : Found4 t { pos0 := 0, pos1 := d - 1, seq := a, sep := b, qual := c } := by
    refine ⟨ha, hb, hc, ?_⟩
    simp only
    rw [hd]
    congr 1
    omega
  have h1 := hf.split []
  have h2 := hf.lens
  simp only [List.drop_zero, List.append_nil] at h1
  have e1 : d - 1 + 1 = d := by omega
  rw [e1] at h1
  refine ⟨_, _, _, _, h1, ?_, hd'.2.1⟩
  rw [h2]
  simp only
  omega

/-- fewer than four terminated lines: at most one item -/
theorem fqGo_nl4_none {t : List UInt8} (h : nl4 t = none) (b l : Nat) :
    (fqGo false (splitLF t) b l).length ≤ 1 := by
  have hlen : (splitLF t).length ≤ 4 := by
    unfold nl4 at h
    cases h1 : nl t 0 with
    | none =>
      have := splitLF_nl_none h1
      simp only [List.drop_zero] at this
      rw [this]; simp
    | some a =>
      have s1 := splitLF_nl_some [] h1
      simp only [List.drop_zero, List.append_nil] at s1
      simp only [h1, Option.bind_some] at h
      cases h2 : nl t a with
      | none => rw [s1, splitLF_nl_none h2]; simp
      | some b' =>
        have s2 := splitLF_nl_some [] h2
        simp only [List.append_nil] at s2
        simp only [h2, Option.bind_some] at h
        cases h3 : nl t b' with
        | none => rw [s1, s2, splitLF_nl_none h3]; simp
        | some c =>
          have s3 := splitLF_nl_some [] h3
          simp only [List.append_nil] at s3
          simp only [h3, Option.bind_some] at h
          rw [s1, s2, s3, splitLF_nl_none h]; simp
  generalize splitLF t = ps at hlen
  match ps, hlen with
  | [], _ => rw [fqGo_few false [] (by simp)]; split <;> simp
  | [a], _ => rw [fqGo_few false [a] (by simp)]; split <;> simp
  | [a, c], _ => rw [fqGo_few false [a, c] (by simp)]; split <;> simp
  | [a, c, d], _ => rw [fqGo_few false [a, c, d] (by simp)]; split <;> simp
  | [a, c, d, e], _ => rw [fqGo_three]; simp
  | _ :: _ :: _ :: _ :: _ :: _, h => simp at h

/-- S's items from its `i`-th item on are S's items of the input from that item's position on -/
theorem fqGo_drop (i : Nat) :
    ∀ (t : List UInt8) (b l : Nat) (it : FqItem),
      (fqGo false (splitLF t) b l)[i]? = some it →
      ∃ d, (itemPos it).2 = b + d ∧ d ≤ t.length ∧
        (fqGo false (splitLF t) b l).drop i =
          fqGo false (splitLF (t.drop d)) (itemPos it).2 (itemPos it).1 := by
  induction i with
  | zero =>
    intro t b l it hi
    cases hl : fqGo false (splitLF t) b l with
    | nil => rw [hl] at hi; cases hi
    | cons x rest =>
      rw [hl] at hi
      simp only [List.getElem?_cons_zero, Option.some.injEq] at hi
      subst hi
      have := fqGo_head_pos hl
      refine ⟨0, by rw [this]; rfl, Nat.zero_le _, ?_⟩
      rw [this, List.drop_zero, List.drop_zero, hl]
  | succ i ih =>
    intro t b l it hi
    cases h4 : nl4 t with
    | none =>
      have := fqGo_nl4_none h4 b l
      have hlt : i + 1 < (fqGo false (splitLF t) b l).length := by
        rcases Nat.lt_or_ge (i + 1) (fqGo false (splitLF t) b l).length with h | h
        · exact h
        · rw [List.getElem?_eq_none_iff.mpr h] at hi; cases hi
      omega
    | some d =>
      obtain ⟨h', s, p, q, hs, hlen, hd⟩ := splitLF_nl4_some h4
      have hne := splitLF_ne_nil (t.drop d)
      rw [hs, fqGo_four false h' s p q _ hne] at hi ⊢
      cases hg : fqGroup false h' s p q b l with
      | err e b' l' =>
        rw [hg] at hi
        simp at hi
      | record x =>
        rw [hg] at hi
        simp only [List.getElem?_cons_succ, List.drop_succ_cons] at hi ⊢
        have hbd : b + h'.length + s.length + p.length + q.length + 4 = b + d := by omega
        rw [hbd] at hi ⊢
        obtain ⟨d', h1, h2, h3⟩ := ih (t.drop d) (b + d) (l + 4) it hi
        refine ⟨d + d', by rw [h1]; omega, ?_, ?_⟩
        · simp only [List.length_drop] at h2; omega
        · rw [h3, List.drop_drop]

/-- … for `Spec.fastq` -/
theorem fastq_drop (inp : List UInt8) (i : Nat) (it : FqItem)
    (hi : (Spec.fastq inp)[i]? = some it) :
    (itemPos it).2 ≤ inp.length ∧
      (Spec.fastq inp).drop i = itemsAt inp (itemPos it).2 (itemPos it).1 := by
  obtain ⟨d, h1, h2, h3⟩ := fqGo_drop i inp 0 1 it hi
  simp only [Nat.zero_add] at h1
  refine ⟨by rw [h1]; exact h2, ?_⟩
  unfold Spec.fastq itemsAt
  rw [h3, h1]


/-! ## `seek` -/

theorem good_win {inp G r its} (h : Good inp G r its) : Win inp G r := by
  unfold Good at h
  split at h
  · exact h.1
  · exact h.1
  · exact h.1.toWin
  · exact h.1.toWin

/-- `BufReader::seek`, the two outcomes as equations -/
theorem bufSeek_eq (b : BufRd) (to : Nat) :
    (∃ k, b.src.seekFails ≠ [] ∧
      b.seek to = ({ b with src := { b.src with seekCount := b.src.seekCount + 1 } }, some k)) ∨
    b.seek to = ({ b with src := { b.src with seekCount := b.src.seekCount + 1, cursor := to },
                          buf := [] }, none) := by
  unfold BufRd.seek Src.seek
  cases hf : b.src.seekFails.find? (·.1 = b.src.seekCount) with
  | none => right; rfl
  | some p =>
    left
    refine ⟨p.2, ?_, rfl⟩
    intro h
    rw [h] at hf
    simp at hf

/-- the reader with another seek counter -/
def bumpSeek (r : Reader) (c : Nat) : Reader :=
  { r with br := { r.br with src := { r.br.src with seekCount := c } } }

/-- a reader whose buffer reader differs only in the seek counter -/
theorem good_seekCount {inp G r its} (h : Good inp G r its) (c : Nat) :
    Good inp G (bumpSeek r c) its := by
  have winT : ∀ {r : Reader}, Win inp G r → Win inp G (bumpSeek r c) := by
    intro r hw
    obtain ⟨a, b, c', d, e, f, g, i, w, k, z⟩ := hw
    exact ⟨a, b, c', d, e, f, g, i, w, k, z⟩
  cases hst : r.state with
  | new =>
    simp only [Good, hst] at h
    unfold Good
    rw [show (bumpSeek r c).state = .new from hst]
    exact ⟨winT h.1, h.2⟩
  | finished =>
    simp only [Good, hst] at h
    unfold Good
    rw [show (bumpSeek r c).state = .finished from hst]
    exact ⟨winT h.1, h.2⟩
  | positioned =>
    simp only [Good, hst] at h
    unfold Good
    rw [show (bumpSeek r c).state = .positioned from hst]
    exact ⟨⟨winT h.1.toWin, h.1.pos0_le⟩, h.2.1, h.2.2.1, h.2.2.2⟩
  | parsing =>
    simp only [Good, hst] at h
    unfold Good
    rw [show (bumpSeek r c).state = .parsing from hst]
    exact ⟨⟨winT h.1.toWin, h.1.pos0_le⟩, h.2⟩

/-- a failed refill leaves a good reader good (for the same items): where the end of the
input matters, nothing can have been added -/
theorem good_fill_fail {inp G r its} (h : Good inp G r its) {br' : BufRd} {ext : List UInt8}
    (hbuf : br'.buf = r.br.buf ++ ext) (hcap : br'.cap = r.br.cap)
    (hcur : br'.src.cursor = r.br.src.cursor + ext.length)
    (hle : ext.length ≤ min (r.br.cap - r.br.buf.length) (inp.length - r.br.src.cursor))
    (hnG : ¬ G) (hw2 : Win inp G { r with br := br' }) :
    Good inp G { r with br := br' } its := by
  have extNil : Eof inp r → ext = [] := by
    intro he
    apply List.eq_nil_of_length_eq_zero
    by_cases hlt : r.br.buf.length < r.br.cap
    · have := he hlt; omega
    · omega
  cases hst : r.state with
  | new =>
    simp only [Good, hst] at h ⊢
    exact ⟨hw2.set_state _, fun hG => absurd hG hnG, h.2.2⟩
  | finished =>
    simp only [Good, hst] at h ⊢
    exact ⟨hw2.set_state _, h.2⟩
  | positioned =>
    simp only [Good, hst] at h ⊢
    obtain ⟨hb, he, hip, hits⟩ := h
    have hext := extNil he
    subst hext
    simp only [List.append_nil, List.length_nil, Nat.add_zero] at hbuf hcur
    refine ⟨⟨hw2.set_state _, by simp only [hbuf]; exact hb.pos0_le⟩, ?_, ?_, hits⟩
    · intro hlt
      simp only [hbuf, hcap, hcur] at hlt ⊢
      exact he hlt
    · intro ip hipv
      simp only [hbuf]
      exact hip ip hipv
  | parsing =>
    simp only [Good, hst] at h ⊢
    obtain ⟨hb, he, hip, h01, h1l, hits⟩ := h
    have hext := extNil he
    subst hext
    simp only [List.append_nil, List.length_nil, Nat.add_zero] at hbuf hcur
    refine ⟨⟨hw2.set_state _, by simp only [hbuf]; exact hb.pos0_le⟩, ?_, hip, h01,
      by simp only [hbuf]; exact h1l, hits⟩
    intro hlt
    simp only [hbuf, hcap, hcur] at hlt ⊢
    exact he hlt

/-- seeking to an offset of the input, with the line number that belongs to it: the reader is
positioned there, whatever its state was – or, in a non-ideal environment, the seek or a
refill fails and the reader stays good (for the same items, or finished) -/
theorem seek_cases (inp : List UInt8) (G : Prop) (r : Reader) (its : List FqItem)
    (hg : Good inp G r its) (l b : Nat) (hb : b ≤ inp.length) :
    ((seek r l b).2 = .ok () ∧ Good inp G (seek r l b).1 (itemsAt inp b l) ∧
      (seek r l b).1.line = l ∧ (seek r l b).1.byte = b) ∨
    (¬ G ∧ (∃ k, (seek r l b).2 = .err (.io k)) ∧
      (Good inp G (seek r l b).1 its ∨ Good inp G (seek r l b).1 [])) := by
  have hw := good_win hg
  unfold seek
  simp only
  split
  · -- inside the buffer: a partly filled buffer is completed first
    rename_i hpos
    obtain ⟨hp1, hp2⟩ := hpos
    have htn : ((↑r.bp.pos0 + ((↑b : Int) - ↑r.byte)).toNat : Int) = ↑r.bp.pos0 + (↑b - ↑r.byte) :=
      Int.toNat_of_nonneg hp1
    by_cases hlt : r.br.buf.length < r.br.cap
    · rw [if_pos hlt]
      rcases fill_cases inp G r hw with
        ⟨br', ext, n, hfill, hbuf', hcap', hcur', hext, hw2, he2, hn⟩ |
        ⟨br', ext, k, hfill, hbuf', hcap', hcur', hle, hnG, hw2⟩
      · rw [hfill]
        refine Or.inl ⟨rfl, ?_, rfl, rfl⟩
        refine good_positioned_of ⟨?_, ?_⟩ he2 (fun ip h => by cases h) rfl rfl
        · obtain ⟨a, b', c, d, e, f, g, i, w, k, z⟩ := hw2
          refine ⟨a, b', c, d, e, f, g, i, w, ?_, z⟩
          simp only at k ⊢
          omega
        · simp only [hbuf', List.length_append]
          omega
      · rw [hfill]
        exact Or.inr ⟨hnG, ⟨k, rfl⟩, Or.inl (good_fill_fail hg hbuf' hcap' hcur' hle hnG hw2)⟩
    · rw [if_neg hlt]
      refine Or.inl ⟨rfl, ?_, rfl, rfl⟩
      refine good_positioned_of ⟨?_, ?_⟩ (fun h => absurd h hlt) (fun ip h => by cases h) rfl rfl
      · obtain ⟨a, b', c, d, e, f, g, i, w, k, z⟩ := hw
        refine ⟨a, b', c, d, e, f, g, i, w, ?_, z⟩
        simp only
        omega
      · simp only
        omega
  · -- a real seek
    rcases bufSeek_eq r.br b with ⟨k, hne, hsk⟩ | hsk
    · rw [hsk]
      simp only
      have hnG : ¬ G := fun hG => hne (hw.nosf hG)
      exact Or.inr ⟨hnG, ⟨k, rfl⟩, Or.inl (good_seekCount hg _)⟩
    · rw [hsk]
      simp only
      have hw1 : Win inp G (seekReset r
          { r.br with src := { r.br.src with seekCount := r.br.src.seekCount + 1, cursor := b },
                      buf := [] } l b) := by
        obtain ⟨a, b', c, d, e, f, g, i, w, k, z⟩ := hw
        refine ⟨a, hb, c, d, e, f, by simp [seekReset], by simp [seekReset], ?_, ?_, z⟩
        · simp [seekReset]
        · simp [seekReset]
      rcases fill_cases inp G _ hw1 with
        ⟨br', ext, n, hfill, hbuf', hcap', hcur', hext, hw2, he2, hn⟩ |
        ⟨br', ext, k, hfill, hbuf', hcap', hcur', hle, hnG, hw2⟩
      · have hfill' : fillBuf { r.br with
            src := { r.br.src with seekCount := r.br.src.seekCount + 1, cursor := b }, buf := [] }
            = (br', .ok n) := hfill
        simp only [hfill']
        refine Or.inl ⟨trivial, ?_, trivial, trivial⟩
        refine good_positioned_of ⟨?_, Nat.zero_le _⟩ he2 (fun ip h => by cases h) rfl rfl
        obtain ⟨a, b', c, d, e, f, g, i, w, k, z⟩ := hw2
        exact ⟨a, b', c, d, e, f, g, i, w, k, z⟩
      · have hfill' : fillBuf { r.br with
            src := { r.br.src with seekCount := r.br.src.seekCount + 1, cursor := b }, buf := [] }
            = (br', .error k) := hfill
        simp only [hfill']
        refine Or.inr ⟨hnG, ⟨k, rfl⟩, Or.inr ?_⟩
        refine good_finished_of ?_ rfl
        obtain ⟨a, b', c, d, e, f, g, i, w, k, z⟩ := hw2
        exact ⟨a, b', c, d, e, f, g, i, w, k, z⟩

/-- in an ideal environment the seek succeeds -/
theorem seek_good (inp : List UInt8) (G : Prop) (hG : G) (r : Reader) (its : List FqItem)
    (hg : Good inp G r its) (l b : Nat) (hb : b ≤ inp.length) :
    (seek r l b).2 = .ok () ∧ Good inp G (seek r l b).1 (itemsAt inp b l) ∧
      (seek r l b).1.line = l ∧ (seek r l b).1.byte = b := by
  rcases seek_cases inp G r its hg l b hb with h | ⟨hnG, -⟩
  · exact h
  · exact absurd hG hnG

/-- seeks to item positions -/
theorem step_seek (inp : List UInt8) (G : Prop) (hG : G) (m : MSt) (a : AState)
    (hs : Sim inp G (Spec.fastq inp) m a) (i : Nat) :
    ∃ a', acceptSeek (Spec.fastq inp) a i (stepSeek m i).2 = some a' ∧
      Sim inp G (Spec.fastq inp) (stepSeek m i).1 a' := by
  have hinp := good_inp hs.good
  simp only [stepSeek, hinp]
  cases hi : (Spec.fastq inp)[i]? with
  | none =>
    refine ⟨a, ?_, hs⟩
    simp only [acceptSeek]
    rw [if_pos (List.getElem?_eq_none_iff.mp hi)]
  | some it =>
    obtain ⟨hb, hdrop⟩ := fastq_drop inp i it hi
    obtain ⟨h1, h2, h3, h4⟩ := seek_good inp G hG m.r _ hs.good (itemPos it).1 (itemPos it).2 hb
    have hlt : i < (Spec.fastq inp).length := by
      rcases Nat.lt_or_ge i (Spec.fastq inp).length with h | h
      · exact h
      · rw [List.getElem?_eq_none_iff.mpr h] at hi; cases hi
    refine ⟨{ a with k := i, last := .seek i }, ?_, ?_, ?_, ?_⟩
    · simp only [h1, obsSeek, acceptSeek, hlt, if_true]
    · simp only [hdrop]; exact h2
    · intro j
      have : ({ m with r := (seek m.r (itemPos it).1 (itemPos it).2).1 } : MSt).getSet j
          = m.getSet j := by
        match j with
        | 0 => rfl
        | 1 => rfl
        | _ + 2 => rfl
      rw [this]
      have : ({ a with k := i, last := .seek i } : AState).getSet j = a.getSet j := by
        match j with
        | 0 => rfl
        | 1 => rfl
        | _ + 2 => rfl
      rw [this]
      exact hs.sets j
    · unfold LastOk
      simp only
      exact ⟨it, hi, by rw [h3, h4]⟩

/-- every well-formed operation is accepted (or a refusing policy made the reader give up) -/
theorem step_ok (inp : List UInt8) (G : Prop) (m : MSt) (a : AState)
    (hs : Sim inp G (Spec.fastq inp) m a) (op : Op) (hwf : op.wf = true) :
    StepOk inp G (Spec.fastq inp) a op (stepM m op) := by
  cases op with
  | seekItem i =>
    by_cases hG : G
    · obtain ⟨a', h1, h2⟩ := step_seek inp G hG m a hs i
      exact Or.inl ⟨a', h1, h2⟩
    · exact Or.inr hG
  | next => exact step_ok_noseek inp G _ m a hs _ hwf rfl
  | owned => exact step_ok_noseek inp G _ m a hs _ hwf rfl
  | set j n => exact step_ok_noseek inp G _ m a hs _ hwf rfl
  | dump j => exact step_ok_noseek inp G _ m a hs _ hwf rfl
  | pos => exact step_ok_noseek inp G _ m a hs _ hwf rfl

theorem run_accepted (inp : List UInt8) :
    ∀ (ops : List Op) (m : MSt) (a : AState), Sim inp True (Spec.fastq inp) m a →
      (∀ op ∈ ops, op.wf = true) →
      acceptsA (Spec.fastq inp) a ops (runM m ops) = true := by
  intro ops
  induction ops with
  | nil => intro m a _ _; rfl
  | cons op ops ih =>
    intro m a hs hops
    rcases step_ok inp True m a hs op (hops op List.mem_cons_self) with ⟨a', hacc, hs'⟩ | hG
    · simp only [runM, acceptsA, hacc]
      exact ih _ a' hs' (fun o ho => hops o (List.mem_cons_of_mem _ ho))
    · exact absurd trivial hG

/-- **(b)** every finite history of single-record reads, owned reads, (exact-count) record-set
reads, dumps, position queries **and seeks to the position of any item of S** (a record, or the
group of the final error) – from any reader state, the target inside the buffer or not – on
every input, capacity ≥ 3, growing policy, script without failing events and chunking, is
accepted by the abstract reader A. -/
theorem fastq_history_accepted (inp : List UInt8) (cap : Nat) (hcap : 3 ≤ cap) (pol : Pol)
    (hpol : PolGrows pol) (script : List ReadEv) (hs : NoFail script) (chunk : Nat)
    (ops : List Op) (hops : ∀ op ∈ ops, op.wf = true) :
    accepted inp (mkM inp cap pol script chunk) ops = true :=
  run_accepted inp ops _ {}
    (sim_mkM inp True cap hcap pol hpol.wf1 (fun _ => hpol) script hs chunk) hops

end SeqIo.Fastq
