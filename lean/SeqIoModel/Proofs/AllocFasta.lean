import SeqIoModel.Proofs.Alloc
import SeqIoModel.Proofs.EndToEnd
import SeqIoModel.Proofs.FastaUnchanged
/-!
# The post-hoc ghost step of the FASTA reader is justified by the machine M, and the steady state of
`next()` allocates nothing (C18)

Part A is about M alone (`Model/Fasta.lean`): within one call the offset vector `seq_pos` is only ever
appended to (`scan`, `search`), shifted in place (`makeRoom`) or left alone (`grow`, `fillBuf`, `init`);
the only place that clears it is `incrementRecord`, at the very start of a call in state `.parsing`.  So
the length the vector has after the call is the largest it had since that clear, which is what
`Alloc.Fa.readerStep` feeds to the ghost capacity.

Part B composes `fasta_next_stream` (M returns S's stream) with `Alloc.Fa.next_history_steady`.
-/

namespace SeqIo.Alloc.Fa
open SeqIo SeqIo.Fasta SeqIo.FillProofs

/-! ## A. `seq_pos` only grows after the clear -/

/-- A1 -/
theorem scan_acc_prefix : ∀ (rest : List UInt8) (i : Nat) (acc : List Nat),
    ∃ l, (Fasta.scan rest i acc).2.2 = acc ++ l := by
  intro rest i acc
  fun_induction Fasta.scan rest i acc
  · exact ⟨[], by simp⟩
  · exact ⟨[], by simp⟩
  · exact ⟨[], by simp⟩
  · exact ⟨_, rfl⟩
  · rename_i ih
    obtain ⟨l, hl⟩ := ih
    exact ⟨[_] ++ l, by rw [hl, List.append_assoc]⟩
  · rename_i ih
    exact ih

theorem scan_acc_length_le (rest : List UInt8) (i : Nat) (acc : List Nat) :
    acc.length ≤ (Fasta.scan rest i acc).2.2.length := by
  obtain ⟨l, hl⟩ := scan_acc_prefix rest i acc
  rw [hl, List.length_append]
  omega

/-- `_search` only appends to `seq_pos` -/
theorem search__seqPos_prefix {r r' : Reader} {b : Bool} (h : Fasta.search_ r = some (r', b)) :
    ∃ l, r'.bp.seqPos = r.bp.seqPos ++ l := by
  unfold Fasta.search_ at h
  split at h
  · simp only [Option.some.injEq, Prod.mk.injEq] at h
    obtain ⟨rfl, _⟩ := h
    exact scan_acc_prefix _ _ _
  · cases h

/-- A2 (`_search`) -/
theorem search__seqPos_mono {r r' : Reader} {b : Bool} (h : Fasta.search_ r = some (r', b)) :
    r.bp.seqPos.length ≤ r'.bp.seqPos.length := by
  obtain ⟨l, hl⟩ := search__seqPos_prefix h
  rw [hl, List.length_append]
  omega

/-- `search` only appends to `seq_pos` -/
theorem search_seqPos_prefix {r r' : Reader} {b : Bool} (h : Fasta.search r = some (r', b)) :
    ∃ l, r'.bp.seqPos = r.bp.seqPos ++ l := by
  unfold Fasta.search at h
  split at h
  · cases h
  · rename_i r1 h1
    simp only [Option.some.injEq, Prod.mk.injEq] at h
    obtain ⟨rfl, _⟩ := h
    exact search__seqPos_prefix h1
  · rename_i r1 h1
    obtain ⟨l, hl⟩ := search__seqPos_prefix h1
    split at h
    · simp only [Option.some.injEq, Prod.mk.injEq] at h
      obtain ⟨rfl, _⟩ := h
      exact ⟨l ++ [r1.searchPos], by simp [hl]⟩
    · simp only [Option.some.injEq, Prod.mk.injEq] at h
      obtain ⟨rfl, _⟩ := h
      exact ⟨l, hl⟩

/-- A2 (`search`) -/
theorem search_seqPos_mono {r r' : Reader} {b : Bool} (h : Fasta.search r = some (r', b)) :
    r.bp.seqPos.length ≤ r'.bp.seqPos.length := by
  obtain ⟨l, hl⟩ := search_seqPos_prefix h
  rw [hl, List.length_append]
  omega

theorem mapSub_length (c : Nat) : ∀ (l l' : List Nat), Fasta.mapSub c l = some l' → l'.length = l.length
  | [], l', h => by
    simp only [Fasta.mapSub, Option.some.injEq] at h
    subst h; rfl
  | x :: xs, l', h => by
    unfold Fasta.mapSub at h
    split at h
    · rename_i y ys hy hys
      simp only [Option.some.injEq] at h
      subst h
      simp [mapSub_length c xs ys hys]
    · cases h

/-- A3 (`make_room` shifts the offsets in place) -/
theorem makeRoom_seqPos_length {r r' : Reader} (h : Fasta.makeRoom r = some r') :
    r'.bp.seqPos.length = r.bp.seqPos.length := by
  unfold Fasta.makeRoom at h
  simp only at h
  split at h
  · rename_i sp sq hsp hsq
    simp only [Option.some.injEq] at h
    subst h
    exact mapSub_length _ _ _ hsq
  · cases h

/-- A3 (`grow` does not touch the record position at all) -/
theorem grow_bp (r : Reader) : (Fasta.grow r).1.bp = r.bp := by
  unfold Fasta.grow
  simp only
  split
  · rfl
  · split <;> rfl

/-- A4 -/
theorem resume_seqPos_mono : ∀ (f : Nat) (mk : Bool) (r : Reader),
    r.bp.seqPos.length ≤ (Fasta.resume f mk r).1.bp.seqPos.length := by
  intro f
  induction f with
  | zero => intro mk r; simp [Fasta.resume]
  | succ f ih =>
    intro mk r
    -- the first step (`grow` or `make_room`) keeps the length
    have hstep : ∀ (s : Reader × Res Unit),
        s = (if !mk || r.bp.start = 0 then Fasta.grow r
              else match Fasta.makeRoom r with
                | some r' => (r', .ok ())
                | none => (r, .panic)) →
        s.1.bp.seqPos.length = r.bp.seqPos.length := by
      intro s hs
      split at hs
      · rw [hs, grow_bp]
      · split at hs
        · rename_i r' hr'
          rw [hs]; exact makeRoom_seqPos_length hr'
        · rw [hs]
    unfold Fasta.resume
    simp only
    generalize hs : (if !mk || r.bp.start = 0 then Fasta.grow r
              else match Fasta.makeRoom r with
                | some r' => (r', .ok ())
                | none => (r, .panic)) = s
    have hlen := hstep s hs.symm
    obtain ⟨r1, o1⟩ := s
    simp only at hlen
    cases o1 with
    | ok u =>
      cases u
      simp only
      split
      · simp only; omega
      · rename_i br n hfill
        split
        · simp only; omega
        · rename_i r2 hsrch
          have := search_seqPos_mono hsrch
          simp only at this ⊢
          omega
        · rename_i r2 hsrch
          have h1 := search_seqPos_mono hsrch
          have h2 := ih mk r2
          simp only at h1
          omega
    | err e => simp only; omega
    | panic => simp only; omega
    | fuel => simp only; omega

/-- A5 -/
theorem nextCont_seqPos_mono (fuel : Nat) (r : Reader) :
    r.bp.seqPos.length ≤ (Fasta.nextCont fuel r).1.bp.seqPos.length := by
  unfold Fasta.nextCont
  simp only
  generalize h1 : (if r.state ≠ .incomplete then (Fasta.search r).map (·.1) else some r) = r1?
  have hr1 : ∀ r1, r1? = some r1 → r.bp.seqPos.length ≤ r1.bp.seqPos.length := by
    intro r1 e
    subst e
    split at h1
    · cases hs : Fasta.search r with
      | none => rw [hs] at h1; cases h1
      | some p =>
        obtain ⟨r2, b⟩ := p
        rw [hs] at h1
        simp only [Option.map_some, Option.some.injEq] at h1
        subst h1
        exact search_seqPos_mono hs
    · simp only [Option.some.injEq] at h1
      subst h1
      exact Nat.le_refl _
  cases r1? with
  | none => exact Nat.le_refl _
  | some r1 =>
    have hle := hr1 r1 rfl
    simp only
    split
    · have h2 := resume_seqPos_mono fuel true r1
      split
      · rename_i r2 heq
        rw [heq] at h2
        simp only at h2
        split <;> simp only <;> omega
      · rename_i r2 o hne heq
        rw [heq] at h2
        simp only at h2 ⊢
        omega
    · simpa using hle

/-- `first_byte` does not touch the record position -/
theorem firstByte_bp : ∀ (f : Nat) (r : Reader), (Fasta.firstByte f r).1.bp = r.bp := by
  intro f
  induction f with
  | zero => intro r; rfl
  | succ f ih =>
    intro r
    unfold Fasta.firstByte
    split
    · rfl
    · rfl
    · simp only
      split
      · rfl
      · split
        · rw [ih]
        · rfl

/-- `init` leaves `seq_pos` alone (it sets `buf_pos.start` only) -/
theorem init_seqPos (fuel : Nat) (r : Reader) : (Fasta.init fuel r).1.bp.seqPos = r.bp.seqPos := by
  have h := firstByte_bp fuel r
  unfold Fasta.init
  split <;> rename_i heq <;> rw [heq] at h <;> simp only at h
  · split <;> simp [h]
  · simp [h]
  · simp [h]
  · simp [h]
  · simp [h]

/-- `increment_record` is the one place that clears `seq_pos` -/
theorem incrementRecord_seqPos {r r0 : Reader} (h : Fasta.incrementRecord r = some r0) : r0.bp.seqPos = [] := by
  unfold Fasta.incrementRecord at h
  split at h
  · cases h
  · simp only [Option.some.injEq] at h
    subst h; rfl

/-- in every state but `.parsing` a call of `next()` never shortens `seq_pos` -/
theorem next_seqPos_mono_of_not_parsing (fuel : Nat) (r : Reader) (h : r.state ≠ .parsing) :
    r.bp.seqPos.length ≤ (Fasta.next fuel r).1.bp.seqPos.length := by
  unfold Fasta.next
  split
  · -- `.new`
    have hi := init_seqPos fuel r
    split
    · rename_i r1 heq
      rw [heq] at hi
      simp only at hi
      have := nextCont_seqPos_mono fuel { r1 with state := .parsing }
      simp only [hi] at this
      exact this
    · rename_i r1 o hne heq
      rw [heq] at hi
      simp only at hi ⊢
      rw [hi]
      exact Nat.le_refl _
  · exact nextCont_seqPos_mono fuel { r with state := .parsing }
  · exact Nat.le_refl _
  · rename_i hst; exact absurd hst h
  · exact nextCont_seqPos_mono fuel r

/-- state `.parsing`: the vector is cleared first (`increment_record`), the rest of the call is `nextCont`
on the cleared reader, which only lets it grow (`nextCont_seqPos_mono`); if `increment_record` panics
nothing is changed -/
theorem next_parsing_clear (fuel : Nat) (r : Reader) (h : r.state = .parsing) :
    (∃ r0, Fasta.incrementRecord r = some r0 ∧ r0.bp.seqPos = [] ∧
        Fasta.next fuel r = Fasta.nextCont fuel r0 ∧
        r0.bp.seqPos.length ≤ (Fasta.next fuel r).1.bp.seqPos.length) ∨
    (Fasta.incrementRecord r = none ∧ (Fasta.next fuel r).1 = r) := by
  unfold Fasta.next
  rw [h]
  simp only
  cases hi : Fasta.incrementRecord r with
  | none => exact Or.inr ⟨rfl, rfl⟩
  | some r0 =>
    exact Or.inl ⟨r0, rfl, incrementRecord_seqPos hi, rfl, nextCont_seqPos_mono fuel r0⟩

/-- A6 -/
theorem next_seqPos_after_clear (fuel : Nat) (r : Reader) :
    ((r.state = .incomplete ∨ r.state = .positioned) →
        r.bp.seqPos.length ≤ (Fasta.next fuel r).1.bp.seqPos.length) ∧
    (r.state = .finished → (Fasta.next fuel r).1 = r) := by
  constructor
  · intro h
    apply next_seqPos_mono_of_not_parsing
    rcases h with h | h <;> rw [h] <;> decide
  · intro h
    unfold Fasta.next
    rw [h]

/-! ### record sets never lose position slots -/

theorem store_positions_length (rs : RecordSet) (bp : BufPos) :
    rs.positions.length ≤ (rs.store bp).positions.length := by
  unfold RecordSet.store
  simp only
  split
  · simp
  · simp

theorem storeStep_positions_length {n : Option Nat} {r r' : Reader} {rs rs' : RecordSet} {b : Bool}
    (h : Fasta.storeStep n r rs = some (r', rs', b)) : rs.positions.length ≤ rs'.positions.length := by
  unfold Fasta.storeStep at h
  simp only at h
  split at h
  · cases h
  · simp only [Option.some.injEq, Prod.mk.injEq] at h
    obtain ⟨_, rfl, _⟩ := h
    exact store_positions_length rs r.bp

theorem setLoop_positions_length : ∀ (f fuel : Nat) (n : Option Nat) (isNew : Bool) (r : Reader)
    (rs : RecordSet), rs.positions.length ≤ (Fasta.setLoop f fuel n isNew r rs).2.1.positions.length := by
  intro f
  induction f with
  | zero => intro fuel n isNew r rs; simp [Fasta.setLoop]
  | succ f ih =>
    intro fuel n isNew r rs
    unfold Fasta.setLoop
    split
    · exact Nat.le_refl _
    · split
      · split
        · simp only
          split
          · exact Nat.le_refl _
          · rename_i hst
            have := storeStep_positions_length hst
            simpa using this
          · rename_i r2 rs2 hst
            have h1 := storeStep_positions_length hst
            have h2 := ih fuel n isNew r2 rs2
            omega
        · exact Nat.le_refl _
        · exact Nat.le_refl _
        · exact Nat.le_refl _
        · exact Nat.le_refl _
      · split
        · exact Nat.le_refl _
        · split
          · exact ih _ _ _ _ _
          · split
            · split
              · exact ih _ _ _ _ _
              · exact Nat.le_refl _
            · exact Nat.le_refl _
        · split
          · exact Nat.le_refl _
          · rename_i hst
            have := storeStep_positions_length hst
            simpa using this
          · rename_i r2 rs2 hst
            have h1 := storeStep_positions_length hst
            have h2 := ih fuel n isNew r2 rs2
            omega

/-- A7 -/
theorem readRecordSetExact_positions_length (fuel : Nat) (r : Reader) (rs : RecordSet) (n : Option Nat) :
    rs.positions.length ≤ (Fasta.readRecordSetExact fuel r rs n).2.1.positions.length := by
  unfold Fasta.readRecordSetExact
  simp only
  split
  · rename_i r1 hpre
    have h := setLoop_positions_length fuel fuel n true r1 { rs with npos := 0 }
    split
    · rename_i r2 rs2 heq
      rw [heq] at h
      simpa using h
    · rename_i x hne
      simpa using h
  · exact Nat.le_refl _
  · exact Nat.le_refl _
  · exact Nat.le_refl _
  · exact Nat.le_refl _

/-! ## B. End to end: the steady state of `next()` allocates nothing -/

/-- the readers after each of `k` consecutive `next()` calls -/
def runStates : Nat → Fasta.Reader → List Fasta.Reader
  | 0, _ => []
  | k + 1, r =>
    let r' := (Fasta.next (opFuel r.br.src.inp.length r.br.src.script.length) r).1
    r' :: runStates k r'

/-- the results of `k` consecutive `next()` calls -/
def runResults : Nat → Fasta.Reader → List (Fasta.Res Bool)
  | 0, _ => []
  | k + 1, r =>
    let p := Fasta.next (opFuel r.br.src.inp.length r.br.src.script.length) r
    p.2 :: runResults k p.1

theorem runStates_length : ∀ (k : Nat) (r : Reader), (runStates k r).length = k
  | 0, _ => rfl
  | k + 1, r => by simp [runStates, runStates_length k]

theorem runResults_length : ∀ (k : Nat) (r : Reader), (runResults k r).length = k
  | 0, _ => rfl
  | k + 1, r => by simp [runResults, runResults_length k]

/-- (a) what the caller sees is the observation of the reader after each call with the call's result -/
theorem runNexts_eq_zipWith : ∀ (k : Nat) (r : Reader),
    Fasta.runNexts k r = List.zipWith Fasta.observe (runStates k r) (runResults k r)
  | 0, _ => rfl
  | k + 1, r => by
    simp only [Fasta.runNexts, runStates, runResults, List.zipWith_cons_cons]
    rw [runNexts_eq_zipWith k]

theorem runNexts_getElem? (k : Nat) (r : Reader) (m : Nat) (o : Fasta.Obs)
    (h : (Fasta.runNexts k r)[m]? = some o) :
    ∃ q res, (runStates k r)[m]? = some q ∧ o = Fasta.observe q res := by
  rw [runNexts_eq_zipWith, List.getElem?_zipWith] at h
  cases hq : (runStates k r)[m]? with
  | none => rw [hq] at h; simp at h
  | some q =>
    cases hres : (runResults k r)[m]? with
    | none => rw [hq, hres] at h; simp at h
    | some res =>
      rw [hq, hres] at h
      simp only [Option.some.injEq] at h
      exact ⟨q, res, rfl, h.symm⟩

/-- (b) a call that shows a record with the sequence lines `ls` left `ls.length + 1` offsets in `seq_pos` -/
theorem observe_record_seqPos {q : Reader} {res : Fasta.Res Bool} {h : List UInt8} {ls : List (List UInt8)}
    {l b : Nat} (ho : Fasta.observe q res = .record h ls l b) : q.bp.seqPos.length = ls.length + 1 := by
  unfold Fasta.observe at ho
  split at ho
  · split at ho
    · rename_i h' ls' l' b' hh hl hp
      simp only [Fasta.Obs.record.injEq] at ho
      obtain ⟨_, rfl, _, _⟩ := ho
      have h1 := Fasta.Unch.allSome_length _ _ hl
      rw [Fasta.Unch.length_seqLines] at h1
      have h2 : q.bp.seqPos ≠ [] := by
        intro e
        simp [Fasta.head, e] at hh
      have h3 : 0 < q.bp.seqPos.length := List.length_pos_iff.mpr h2
      omega
    · cases ho
  all_goals cases ho

theorem runNextSteps_length (c : Cap) : ∀ (l : List Reader), (runNextSteps c l).2.length = l.length
  | [] => rfl
  | r :: l => by simp [runNextSteps, runNextSteps_length _ l]

/-- the ghost part of the headline theorem, for any history of readers: if the reader after call `j` has
no more offsets than the reader after an earlier call `i`, call `j` allocates nothing -/
theorem runNextSteps_steady_at (c : Cap) (L : List Reader) (i j : Nat) (hij : i < j) (qi qj : Reader)
    (hi : L[i]? = some qi) (hj : L[j]? = some qj) (hlast : L.length = j + 1)
    (hle : qj.bp.seqPos.length ≤ qi.bp.seqPos.length) :
    (runNextSteps c L).2[j]? = some (some 0) := by
  have hjl : j < L.length := by omega
  have hqj : L[j] = qj := by
    rw [List.getElem?_eq_getElem hjl] at hj
    exact Option.some.inj hj
  have hL : L = L.take j ++ [qj] := by
    rw [← hqj, ← List.take_succ_eq_append_getElem hjl, List.take_of_length_le (by omega)]
  have hmem : qi ∈ L.take j := by
    apply List.mem_of_getElem? (i := i)
    rw [List.getElem?_take, if_pos hij, hi]
  rw [hL, next_history_steady c (L.take j) qj (Or.inr ⟨qi, hmem, hle⟩)]
  have hlen : (runNextSteps c (L.take j)).2.length = j := by
    rw [runNextSteps_length, List.length_take]; omega
  rw [List.getElem?_append_right (by omega), hlen]
  simp

/-- the stream-to-state bridge: if `k` calls show exactly the records `rs` (then end of input), the reader
after call `m < rs.length` holds `rs[m].seqLines.length + 1` offsets -/
theorem runStates_seqPos_of_stream (r0 : Reader) (rs : List Spec.FaRec) (k : Nat)
    (hstream : Fasta.runNexts k r0 =
      (rs.map (fun r => Fasta.Obs.record r.head r.seqLines r.line r.byte) ++ List.replicate k Fasta.Obs.none).take k)
    (m : Nat) (hm : m < rs.length) (hmk : m < k) :
    ∃ q, (runStates k r0)[m]? = some q ∧ q.bp.seqPos.length = (rs[m]'hm).seqLines.length + 1 := by
  have ho : (Fasta.runNexts k r0)[m]? =
      some (Fasta.Obs.record (rs[m]'hm).head (rs[m]'hm).seqLines (rs[m]'hm).line (rs[m]'hm).byte) := by
    rw [hstream, List.getElem?_take, if_pos hmk, List.getElem?_append_left (by simpa using hm),
      List.getElem?_map, List.getElem?_eq_getElem hm]
    rfl
  obtain ⟨q, res, hq, hobs⟩ := runNexts_getElem? k r0 m _ ho
  exact ⟨q, hq, observe_record_seqPos hobs.symm⟩

/-- the headline theorem for any policy for which M returns S's stream -/
theorem fasta_steady_state_no_alloc_of_stream (r0 : Reader) (rs : List Spec.FaRec)
    (hstream : ∀ k, Fasta.runNexts k r0 =
      (rs.map (fun r => Fasta.Obs.record r.head r.seqLines r.line r.byte) ++ List.replicate k Fasta.Obs.none).take k)
    (c : Cap) (i j : Nat) (hij : i < j) (hj : j < rs.length)
    (hle : (rs[j]'hj).seqLines.length ≤ (rs[i]'(by omega)).seqLines.length) :
    (runNextSteps c (runStates (j + 1) r0)).2[j]? = some (some 0) := by
  obtain ⟨qi, hqi, hli⟩ := runStates_seqPos_of_stream r0 rs (j + 1) (hstream _) i (by omega) (by omega)
  obtain ⟨qj, hqj, hlj⟩ := runStates_seqPos_of_stream r0 rs (j + 1) (hstream _) j hj (by omega)
  exact runNextSteps_steady_at c _ i j hij qi qj hqi hqj (runStates_length _ _) (by omega)

/-- **B.** For every input that S accepts, every capacity ≥ 3, never-refusing policy, read script without
failures and chunking: the `next()` call that returns record `j` performs no allocation in the ghost model
whenever an earlier record `i` had at least as many sequence lines. -/
theorem fasta_steady_state_no_alloc (inp : List UInt8) (rs : List Spec.FaRec) (hrs : Spec.fasta inp = .records rs)
    (cap : Nat) (hcap : 3 ≤ cap) (pol : Pol) (hpol : PolOk pol) (script : List ReadEv) (hs : FillProofs.NoFail script) (chunk : Nat)
    (i j : Nat) (hij : i < j) (hj : j < rs.length)
    (hle : (rs[j]'hj).seqLines.length ≤ (rs[i]'(by omega)).seqLines.length) :
    (Alloc.Fa.runNextSteps { lb := 1 } (runStates (j + 1) (Fasta.mkReader inp cap pol script chunk))).2[j]? = some (some 0) :=
  fasta_steady_state_no_alloc_of_stream _ rs
    (fun k => E2E.fasta_runNexts_of_spec inp rs hrs cap hcap pol hpol script hs chunk k) _ i j hij hj hle

/-- the same for every policy that never refuses a request with a positive capacity (`PolGrows`) -/
theorem fasta_steady_state_no_alloc_polGrows (inp : List UInt8) (rs : List Spec.FaRec) (hrs : Spec.fasta inp = .records rs)
    (cap : Nat) (hcap : 3 ≤ cap) (pol : Pol) (hpol : Fasta.PolGrows pol) (script : List ReadEv) (hs : FillProofs.NoFail script)
    (chunk : Nat) (c : Cap) (i j : Nat) (hij : i < j) (hj : j < rs.length)
    (hle : (rs[j]'hj).seqLines.length ≤ (rs[i]'(by omega)).seqLines.length) :
    (Alloc.Fa.runNextSteps c (runStates (j + 1) (Fasta.mkReader inp cap pol script chunk))).2[j]? = some (some 0) :=
  fasta_steady_state_no_alloc_of_stream _ rs
    (fun k => by
      rw [Fasta.fasta_next_stream_polGrows inp cap hcap pol hpol script hs chunk k]
      simp [Fasta.specObs, hrs]) c i j hij hj hle

/-- `PolOk` does not cover the built-in `StdPolicy`: asked with capacity `0` it answers `0` -/
theorem std_not_polOk : ¬ PolOk PolDesc.std.toPol := by
  intro h
  obtain ⟨n, hn, hlt⟩ := h [] 0
  simp [PolDesc.toPol, stdGrow] at hn
  omega

/-- the corollary for the built-in `StdPolicy` (which is not `PolOk`, see `std_not_polOk`) -/
theorem fasta_steady_state_no_alloc_std (inp : List UInt8) (rs : List Spec.FaRec) (hrs : Spec.fasta inp = .records rs)
    (cap : Nat) (hcap : 3 ≤ cap) (script : List ReadEv) (hs : FillProofs.NoFail script) (chunk : Nat)
    (i j : Nat) (hij : i < j) (hj : j < rs.length)
    (hle : (rs[j]'hj).seqLines.length ≤ (rs[i]'(by omega)).seqLines.length) :
    (Alloc.Fa.runNextSteps { lb := 1 } (runStates (j + 1) (Fasta.mkReader inp cap PolDesc.std.toPol script chunk))).2[j]? =
      some (some 0) :=
  fasta_steady_state_no_alloc_polGrows inp rs hrs cap hcap _ Fasta.polGrows_std script hs chunk _ i j hij hj hle

end SeqIo.Alloc.Fa

