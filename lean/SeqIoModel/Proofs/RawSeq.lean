import SeqIoModel.Proofs.FastaStream
/-!
# The raw sequence and the sequence lines of a FASTA record (property C13)

"The raw sequence (`RefRecord::seq`) differs from the sequence lines (`seq_lines()`) only by
line terminators."

A record is a buffer with a list of offsets `p₀ < p₁ < … < pₙ`: `p₀` ends the header line,
`p₁, …, pₙ₋₁` are the LFs inside the sequence, `pₙ` is the LF that ends the record or the end
of the input.  With `rawLines` = the `n` untrimmed pieces `buf[pᵢ + 1 .. pᵢ₊₁]`:

* `raw_eq_join`: `seq_lines()` yields `rawLines`, each with one final CR removed, and `seq()` is
  `rawLines` joined by LF, with one final CR removed;
* `raw_filter_eq`: hence, after deleting all LF and CR bytes, the raw sequence and the
  concatenated lines (`owned_seq()`) are the same bytes;
* `lines_eq_split`: if the offsets are *all* the LFs of the range (no line contains an LF), the
  lines are the LF-separated pieces of the untrimmed raw slice, each with one final CR removed.

The hypotheses (`OffsetsOk`, `AllLF`) hold for the offsets the record scan produces
(`scan_offsetsOk`, `scan_allLF`), hence for the record a successful `next` call returns from any
reader state satisfying the invariant of `Proofs/FastaStream.lean` (`next_raw_eq_join`, …).
-/
open SeqIo SeqIo.WriteProofs

namespace SeqIo.Fasta.Raw

/-! ## definitions -/

/-- pieces separated (not terminated) by LF -/
def joinLF : List (List UInt8) → List UInt8
  | [] => []
  | [l] => l
  | l :: l' :: ls => l ++ LF :: joinLF (l' :: ls)

/-- the untrimmed pieces between consecutive offsets, starting behind offset `s` -/
def rawLinesFrom (buf : List UInt8) : Nat → List Nat → List (List UInt8)
  | _, [] => []
  | s, e :: rest => (buf.take e).drop (s + 1) :: rawLinesFrom buf e rest

/-- the untrimmed sequence lines of a record: `buf[pᵢ + 1 .. pᵢ₊₁]` for consecutive offsets -/
def rawLines (buf : List UInt8) (bp : BufPos) : List (List UInt8) :=
  match bp.seqPos with
  | [] => []
  | p0 :: ps => rawLinesFrom buf p0 ps

/-- what the record scan guarantees about the stored offsets: strictly increasing, within the
buffer, and every offset except possibly the last is the position of an LF -/
structure OffsetsOk (buf : List UInt8) (ps : List Nat) : Prop where
  incr : ps.Pairwise (· < ·)
  bound : ∀ p ∈ ps, p ≤ buf.length
  lf : ∀ p ∈ ps.dropLast, buf[p]? = some LF

/-- the offsets are all the LFs of the range: every LF strictly between the first and the last
offset is a stored offset -/
def AllLF (buf : List UInt8) (ps : List Nat) : Prop :=
  ∀ p0 pn q, ps.head? = some p0 → ps.getLast? = some pn → p0 < q → q < pn →
    buf[q]? = some LF → q ∈ ps

/-- a byte that is not part of a line terminator -/
def notTerm (b : UInt8) : Bool := decide (b ≠ LF ∧ b ≠ CR)

/-! ## list facts -/

theorem slice_ok (buf : List UInt8) (a b : Nat) (hab : a ≤ b) (hb : b ≤ buf.length) :
    slice buf a b = some ((buf.take b).drop a) := by
  simp [slice, hab, hb]

/-- cutting a slice at an inner position `e` -/
theorem take_drop_split : ∀ (buf : List UInt8) (a e L : Nat) (c : UInt8), a ≤ e → e < L →
    buf[e]? = some c → (buf.take L).drop a = (buf.take e).drop a ++ c :: (buf.take L).drop (e + 1)
  | [], _, _, _, _, _, _, hc => by simp at hc
  | x :: xs, a, 0, L + 1, c, hae, _, hc => by
    have : a = 0 := by omega
    subst this
    simp only [List.getElem?_cons_zero, Option.some.injEq] at hc
    subst hc
    simp
  | x :: xs, 0, e + 1, L + 1, c, _, heL, hc => by
    simp only [List.getElem?_cons_succ] at hc
    have ih := take_drop_split xs 0 e L c (Nat.zero_le _) (by omega) hc
    simp only [List.drop_zero] at ih
    simp only [List.take_succ_cons, List.drop_zero, List.drop_succ_cons, List.cons_append]
    rw [← ih]
  | x :: xs, a + 1, e + 1, L + 1, c, hae, heL, hc => by
    simp only [List.getElem?_cons_succ] at hc
    have ih := take_drop_split xs a e L c (by omega) (by omega) hc
    simp only [List.take_succ_cons, List.drop_succ_cons]
    exact ih

theorem allSome_map_some {α β : Type} (f : α → β) : ∀ l : List α,
    allSome (l.map fun x => some (f x)) = some (l.map f)
  | [] => rfl
  | x :: l => by simp [allSome, allSome_map_some f l]

/-- the last of the offsets `s :: ps` -/
def lastFrom : Nat → List Nat → Nat
  | s, [] => s
  | _, e :: rest => lastFrom e rest

theorem getLast?_eq_lastFrom : ∀ (s : Nat) (ps : List Nat), (s :: ps).getLast? = some (lastFrom s ps)
  | s, [] => rfl
  | s, e :: rest => by
    rw [List.getLast?_cons_cons]
    exact getLast?_eq_lastFrom e rest

theorem lastFrom_mem : ∀ (s : Nat) (ps : List Nat), ps ≠ [] → lastFrom s ps ∈ ps
  | _, [], h => absurd rfl h
  | _, [e], _ => by simp [lastFrom]
  | s, e :: e' :: rest, _ => by
    have := lastFrom_mem e (e' :: rest) (by simp)
    simp only [lastFrom] at this ⊢
    exact List.mem_cons_of_mem _ this

/-! ## the lines -/

theorem segsFrom_raw (buf : List UInt8) : ∀ (s : Nat) (ps : List Nat),
    (s :: ps).Pairwise (· < ·) → (∀ p ∈ ps, p ≤ buf.length) →
    segsFrom buf (s + 1) ps = (rawLinesFrom buf s ps).map fun l => some (trimCr l)
  | _, [], _, _ => rfl
  | s, e :: rest, hp, hb => by
    have hse : s < e := (List.pairwise_cons.mp hp).1 e (by simp)
    have hel : e ≤ buf.length := hb e (by simp)
    simp only [segsFrom, rawLinesFrom, List.map_cons]
    rw [slice_ok buf (s + 1) e hse hel,
      segsFrom_raw buf e rest (List.pairwise_cons.mp hp).2 (fun p hp' => hb p (by simp [hp']))]
    rfl

/-- `seq_lines()` yields the untrimmed pieces, each with one final CR removed (no slice panics) -/
theorem seqLines_eq_rawLines (buf : List UInt8) (bp : BufPos) (h : OffsetsOk buf bp.seqPos) :
    allSome (seqLines buf bp) = some ((rawLines buf bp).map trimCr) := by
  rcases bp with ⟨st, ps⟩
  cases ps with
  | nil => rfl
  | cons p0 ps =>
    rw [seqLines_cons, segsFrom_raw buf p0 ps h.incr (fun p hp => h.bound p (by simp [hp])),
      allSome_map_some]
    rfl

/-! ## the raw sequence -/

theorem raw_join (buf : List UInt8) : ∀ (s : Nat) (ps : List Nat),
    (s :: ps).Pairwise (· < ·) → (∀ p ∈ ps.dropLast, buf[p]? = some LF) →
    (buf.take (lastFrom s ps)).drop (s + 1) = joinLF (rawLinesFrom buf s ps)
  | s, [], _, _ => by simp [lastFrom, rawLinesFrom, joinLF]; omega
  | s, [e], _, _ => by simp [lastFrom, rawLinesFrom, joinLF]
  | s, e :: e' :: rest, hp, hlf => by
    have hse : s < e := (List.pairwise_cons.mp hp).1 e (by simp)
    have hp' := (List.pairwise_cons.mp hp).2
    have hlast : e < lastFrom e (e' :: rest) :=
      (List.pairwise_cons.mp hp').1 _ (lastFrom_mem e (e' :: rest) (by simp))
    have he : buf[e]? = some LF := hlf e (by simp)
    have ih := raw_join buf e (e' :: rest) hp' (fun p hp'' => hlf p (by
      simp only [List.dropLast_cons_cons, List.mem_cons] at hp'' ⊢
      exact Or.inr hp''))
    show (buf.take (lastFrom e (e' :: rest))).drop (s + 1) = _
    rw [take_drop_split buf (s + 1) e _ LF hse hlast he, ih]
    rfl

/-- `seq()` is the untrimmed pieces joined by LF, with one final CR removed (no slice panics) -/
theorem seqRaw_eq_join (buf : List UInt8) (bp : BufPos) (h : OffsetsOk buf bp.seqPos) :
    seqRaw buf bp = some (trimCr (joinLF (rawLines buf bp))) := by
  rcases bp with ⟨st, ps⟩
  cases ps with
  | nil => rfl
  | cons p0 ps =>
    cases ps with
    | nil => rfl
    | cons p1 ps =>
      have hlast_mem := lastFrom_mem p0 (p1 :: ps) (by simp)
      have hlt : p0 < lastFrom p0 (p1 :: ps) := (List.pairwise_cons.mp h.incr).1 _ hlast_mem
      have hle : lastFrom p0 (p1 :: ps) ≤ buf.length := h.bound _ (List.mem_cons_of_mem _ hlast_mem)
      have hj := raw_join buf p0 (p1 :: ps) h.incr (fun p hp => h.lf p (by
        simp only [List.dropLast_cons_cons, List.mem_cons] at hp ⊢
        exact Or.inr hp))
      unfold seqRaw
      simp only [List.length_cons, gt_iff_lt, Nat.lt_add_left_iff_pos, Nat.zero_lt_succ, if_true,
        List.head?_cons, getLast?_eq_lastFrom]
      rw [slice_ok buf (p0 + 1) _ hlt hle, hj]
      rfl

/-- **C13, structural form.**  With `rawLines` the untrimmed pieces between consecutive offsets:
the sequence lines are `rawLines`, each with one final CR removed; the raw sequence is `rawLines`
joined by LF, with one final CR removed. -/
theorem raw_eq_join (buf : List UInt8) (bp : BufPos) (h : OffsetsOk buf bp.seqPos) :
    ∃ rawLines : List (List UInt8),
      allSome (seqLines buf bp) = some (rawLines.map trimCr) ∧
      seqRaw buf bp = some (trimCr (joinLF rawLines)) :=
  ⟨rawLines buf bp, seqLines_eq_rawLines buf bp h, seqRaw_eq_join buf bp h⟩

/-! ## deleting the line terminators -/

theorem filter_trimCr (l : List UInt8) : (trimCr l).filter notTerm = l.filter notTerm := by
  unfold trimCr
  cases h : l.getLast? with
  | none => rfl
  | some c =>
    simp only
    split
    · rename_i hc
      subst hc
      obtain ⟨ys, hys⟩ := List.getLast?_eq_some_iff.mp h
      subst hys
      simp [notTerm]
    · rfl

theorem filter_joinLF : ∀ ls : List (List UInt8),
    (joinLF ls).filter notTerm = ls.flatten.filter notTerm
  | [] => rfl
  | [l] => by simp [joinLF]
  | l :: l' :: ls => by
    have ih := filter_joinLF (l' :: ls)
    have hLF : notTerm LF = false := by simp [notTerm]
    rw [joinLF, List.filter_append, List.filter_cons, hLF, ih]
    simp

theorem filter_map_trimCr : ∀ ls : List (List UInt8),
    ((ls.map trimCr).flatten).filter notTerm = ls.flatten.filter notTerm
  | [] => rfl
  | l :: ls => by
    simp only [List.map_cons, List.flatten_cons, List.filter_append, filter_trimCr,
      filter_map_trimCr ls]

/-- **C13, byte form.**  After deleting every LF and CR byte, the raw sequence and the
concatenated sequence lines are the same bytes. -/
theorem raw_filter_eq (buf : List UInt8) (bp : BufPos) (h : OffsetsOk buf bp.seqPos)
    (raw : List UInt8) (lines : List (List UInt8))
    (hr : seqRaw buf bp = some raw) (hl : allSome (seqLines buf bp) = some lines) :
    raw.filter (fun b => decide (b ≠ LF ∧ b ≠ CR)) =
      lines.flatten.filter (fun b => decide (b ≠ LF ∧ b ≠ CR)) := by
  rw [seqRaw_eq_join buf bp h] at hr
  rw [seqLines_eq_rawLines buf bp h] at hl
  injection hr with hr
  injection hl with hl
  subst hr hl
  show (trimCr (joinLF (rawLines buf bp))).filter notTerm = _
  rw [filter_trimCr, filter_joinLF]
  exact (filter_map_trimCr _).symm

/-- the same for `owned_seq()` -/
theorem raw_filter_eq_owned (buf : List UInt8) (bp : BufPos) (h : OffsetsOk buf bp.seqPos)
    (raw owned : List UInt8) (hr : seqRaw buf bp = some raw) (ho : ownedSeq buf bp = some owned) :
    raw.filter (fun b => decide (b ≠ LF ∧ b ≠ CR)) = owned.filter (fun b => decide (b ≠ LF ∧ b ≠ CR)) := by
  unfold ownedSeq at ho
  cases hl : allSome (seqLines buf bp) with
  | none => rw [hl] at ho; cases ho
  | some lines =>
    rw [hl] at ho
    injection ho with ho
    subst ho
    exact raw_filter_eq buf bp h raw lines hr hl

/-! ## no line contains an LF -/

theorem lastFrom_ge : ∀ (s : Nat) (ps : List Nat), (s :: ps).Pairwise (· < ·) → s ≤ lastFrom s ps
  | _, [], _ => Nat.le_refl _
  | s, e :: rest, hp => by
    have := (List.pairwise_cons.mp hp).1 _ (lastFrom_mem s (e :: rest) (by simp))
    exact Nat.le_of_lt this

theorem rawLinesFrom_noLF (buf : List UInt8) : ∀ (s : Nat) (ps : List Nat),
    (s :: ps).Pairwise (· < ·) →
    (∀ q, s < q → q < lastFrom s ps → buf[q]? = some LF → q ∈ s :: ps) →
    ∀ l ∈ rawLinesFrom buf s ps, LF ∉ l
  | _, [], _, _ => by simp [rawLinesFrom]
  | s, e :: rest, hp, hall => by
    have hp' := (List.pairwise_cons.mp hp).2
    have hse : s < e := (List.pairwise_cons.mp hp).1 e (by simp)
    have hel : e ≤ lastFrom e rest := lastFrom_ge e rest hp'
    intro l hl
    simp only [rawLinesFrom, List.mem_cons] at hl
    rcases hl with hl | hl
    · subst hl
      intro hmem
      obtain ⟨idx, hidx⟩ := List.mem_iff_getElem?.mp hmem
      rw [List.getElem?_drop, List.getElem?_take] at hidx
      split at hidx
      · rename_i hlt
        have hq := hall (s + 1 + idx) (by omega) (by show _ < lastFrom e rest; omega) hidx
        simp only [List.mem_cons] at hq
        rcases hq with hq | hq | hq
        · omega
        · omega
        · have := (List.pairwise_cons.mp hp').1 _ hq
          omega
      · cases hidx
    · refine rawLinesFrom_noLF buf e rest hp' ?_ l hl
      intro q hq1 hq2 hq3
      have := hall q (by omega) hq2 hq3
      simp only [List.mem_cons] at this ⊢
      rcases this with h | h
      · omega
      · exact h

theorem rawLines_noLF (buf : List UInt8) (bp : BufPos) (h : OffsetsOk buf bp.seqPos)
    (hall : AllLF buf bp.seqPos) : ∀ l ∈ rawLines buf bp, LF ∉ l := by
  rcases bp with ⟨st, ps⟩
  cases ps with
  | nil => simp [rawLines]
  | cons p0 ps =>
    exact rawLinesFrom_noLF buf p0 ps h.incr
      (fun q h1 h2 h3 => hall p0 (lastFrom p0 ps) q rfl (getLast?_eq_lastFrom p0 ps) h1 h2 h3)

theorem splitLF_joinLF : ∀ ls : List (List UInt8), ls ≠ [] → (∀ l ∈ ls, LF ∉ l) →
    splitLF (joinLF ls) = ls
  | [], h, _ => absurd rfl h
  | [l], _, h => by simpa [joinLF] using splitLF_noLF l (h l (by simp))
  | l :: l' :: ls, _, h => by
    rw [joinLF, splitLF_append _ _ (h l (by simp)),
      splitLF_joinLF (l' :: ls) (by simp) (fun x hx => h x (by simp [hx]))]

/-! ## the three forms from one description -/

/-- `lines` and `raw` come from the same LF-free untrimmed pieces -/
def RawForm (lines : List (List UInt8)) (raw : List UInt8) : Prop :=
  ∃ rawLines : List (List UInt8),
    lines = rawLines.map trimCr ∧ raw = trimCr (joinLF rawLines) ∧ ∀ l ∈ rawLines, LF ∉ l

theorem RawForm.filter_eq {lines : List (List UInt8)} {raw : List UInt8} (h : RawForm lines raw) :
    raw.filter (fun b => decide (b ≠ LF ∧ b ≠ CR)) =
      lines.flatten.filter (fun b => decide (b ≠ LF ∧ b ≠ CR)) := by
  obtain ⟨rl, h1, h2, _⟩ := h
  subst h1 h2
  show (trimCr (joinLF rl)).filter notTerm = _
  rw [filter_trimCr, filter_joinLF]
  exact (filter_map_trimCr _).symm

/-- if there is at least one sequence line: the lines are the LF-separated pieces of the
untrimmed raw sequence `u`, each with one final CR removed; the raw sequence is `u` with one final
CR removed -/
theorem RawForm.split_eq {lines : List (List UInt8)} {raw : List UInt8} (h : RawForm lines raw)
    (hne : lines ≠ []) :
    ∃ u : List UInt8, raw = trimCr u ∧ lines = (splitLF u).map trimCr := by
  obtain ⟨rl, h1, h2, h3⟩ := h
  have hrl : rl ≠ [] := by
    intro e; subst e; exact hne h1
  exact ⟨joinLF rl, h2, by rw [splitLF_joinLF rl hrl h3]; exact h1⟩

/-- no sequence line contains an LF -/
theorem RawForm.lines_noLF {lines : List (List UInt8)} {raw : List UInt8} (h : RawForm lines raw) :
    ∀ l ∈ lines, LF ∉ l := by
  obtain ⟨rl, h1, _, h3⟩ := h
  subst h1
  intro l hl
  obtain ⟨l0, hl0, rfl⟩ := List.mem_map.mp hl
  intro hmem
  apply h3 l0 hl0
  unfold trimCr at hmem
  split at hmem
  · split at hmem
    · exact List.dropLast_subset _ hmem
    · exact hmem
  · exact hmem

/-- **C13 for offsets that are all the LFs of their range** -/
theorem rawForm_of_offsets (buf : List UInt8) (bp : BufPos) (h : OffsetsOk buf bp.seqPos)
    (hall : AllLF buf bp.seqPos) :
    ∃ lines raw, allSome (seqLines buf bp) = some lines ∧ seqRaw buf bp = some raw ∧
      RawForm lines raw :=
  ⟨_, _, seqLines_eq_rawLines buf bp h, seqRaw_eq_join buf bp h,
    rawLines buf bp, rfl, rfl, rawLines_noLF buf bp h hall⟩

/-- **C13, split form.** -/
theorem lines_eq_split (buf : List UInt8) (bp : BufPos) (h : OffsetsOk buf bp.seqPos)
    (hall : AllLF buf bp.seqPos) (hlen : 1 < bp.seqPos.length) :
    ∃ u : List UInt8, seqRaw buf bp = some (trimCr u) ∧
      allSome (seqLines buf bp) = some ((splitLF u).map trimCr) := by
  obtain ⟨lines, raw, h1, h2, hf⟩ := rawForm_of_offsets buf bp h hall
  have hne : lines ≠ [] := by
    rw [seqLines_eq_rawLines buf bp h] at h1
    injection h1 with h1
    subst h1
    rcases bp with ⟨st, ps⟩
    match ps, hlen with
    | p0 :: p1 :: ps, _ => simp [rawLines, rawLinesFrom]
  obtain ⟨u, hu1, hu2⟩ := hf.split_eq hne
  exact ⟨u, by rw [h2, hu1], by rw [h1, hu2]⟩

/-! ## the offsets the record scan produces -/

theorem scan_acc_sub (l : List UInt8) (i : Nat) (acc : List Nat) :
    ∀ p ∈ acc, p ∈ (scan l i acc).2.2 := by
  intro p hp
  rw [scan_acc]
  exact List.mem_append_left _ hp

/-- the stored offsets are strictly increasing -/
theorem scan_pairwise (l : List UInt8) (i : Nat) (acc : List Nat) (h1 : acc.Pairwise (· < ·))
    (h2 : ∀ p ∈ acc, p < i) : (scan l i acc).2.2.Pairwise (· < ·) := by
  fun_induction scan l i acc with
  | case1 i acc => exact h1
  | case2 i acc => exact h1
  | case3 b i acc hb => exact h1
  | case4 rest i acc =>
    exact List.pairwise_append.mpr ⟨h1, by simp, fun a ha b hb => by
      simp only [List.mem_singleton] at hb; subst hb; exact h2 a ha⟩
  | case5 c rest i acc hc ih =>
    apply ih
    · exact List.pairwise_append.mpr ⟨h1, by simp, fun a ha b hb => by
        simp only [List.mem_singleton] at hb; subst hb; exact h2 a ha⟩
    · intro p hp
      simp only [List.mem_append, List.mem_singleton] at hp
      rcases hp with hp | hp
      · have := h2 p hp; omega
      · omega
  | case6 b c rest i acc hb ih =>
    apply ih h1
    intro p hp
    have := h2 p hp; omega

/-- every stored offset is the position of an LF -/
theorem scan_lf (l : List UInt8) (i : Nat) (acc : List Nat) :
    ∀ p ∈ (scan l i acc).2.2, p ∈ acc ∨ (i ≤ p ∧ l[p - i]? = some LF) := by
  fun_induction scan l i acc with
  | case1 i acc => intro p hp; exact Or.inl hp
  | case2 i acc => intro p hp; exact Or.inl hp
  | case3 b i acc hb => intro p hp; exact Or.inl hp
  | case4 rest i acc =>
    intro p hp
    simp only [List.mem_append, List.mem_singleton] at hp
    rcases hp with hp | hp
    · exact Or.inl hp
    · subst hp; right; simp
  | case5 c rest i acc hc ih =>
    intro p hp
    rcases ih p hp with h | ⟨h1, h2⟩
    · simp only [List.mem_append, List.mem_singleton] at h
      rcases h with h | h
      · exact Or.inl h
      · subst h; right; simp
    · right
      refine ⟨by omega, ?_⟩
      have e : p - i = (p - (i + 1)) + 1 := by omega
      rw [e, List.getElem?_cons_succ]
      exact h2
  | case6 b c rest i acc hb ih =>
    intro p hp
    rcases ih p hp with h | ⟨h1, h2⟩
    · exact Or.inl h
    · right
      refine ⟨by omega, ?_⟩
      have e : p - i = (p - (i + 1)) + 1 := by omega
      rw [e, List.getElem?_cons_succ]
      exact h2

/-- every LF before the final search position is stored -/
theorem scan_all (l : List UInt8) (i : Nat) (acc : List Nat) :
    ∀ q, i ≤ q → q < (scan l i acc).2.1 → l[q - i]? = some LF → q ∈ (scan l i acc).2.2 := by
  fun_induction scan l i acc with
  | case1 i acc => intro q h1 h2; simp at h2; omega
  | case2 i acc => intro q h1 h2; simp at h2; omega
  | case3 b i acc hb =>
    intro q h1 h2 h3
    simp only at h2
    have : q = i := by omega
    subst this
    simp only [Nat.sub_self, List.getElem?_cons_zero, Option.some.injEq] at h3
    exact absurd h3 hb
  | case4 rest i acc =>
    intro q h1 h2 h3
    simp only at h2
    have : q = i := by omega
    subst this
    simp
  | case5 c rest i acc hc ih =>
    intro q h1 h2 h3
    rcases Nat.eq_or_lt_of_le h1 with h | h
    · subst h
      exact scan_acc_sub _ _ _ _ (by simp)
    · apply ih q (by omega) h2
      have e : q - i = (q - (i + 1)) + 1 := by omega
      rw [e, List.getElem?_cons_succ] at h3
      exact h3
  | case6 b c rest i acc hb ih =>
    intro q h1 h2 h3
    rcases Nat.eq_or_lt_of_le h1 with h | h
    · subst h
      simp only [Nat.sub_self, List.getElem?_cons_zero, Option.some.injEq] at h3
      exact absurd h3 hb
    · apply ih q (by omega) h2
      have e : q - i = (q - (i + 1)) + 1 := by omega
      rw [e, List.getElem?_cons_succ] at h3
      exact h3

theorem getElem?_drop_sub (inp : List UInt8) (s p : Nat) (h : s ≤ p) :
    (inp.drop s)[p - s]? = inp[p]? := by
  rw [List.getElem?_drop]
  congr 1
  omega

/-- the offsets of the record that starts at `s` satisfy the hypotheses of this file -/
theorem scan_offsetsOk (inp : List UInt8) (s : Nat) (hs : s ≤ inp.length) :
    OffsetsOk inp (finalPos (scan (inp.drop s) s [])) := by
  have hpw := scan_pairwise (inp.drop s) s [] List.Pairwise.nil (by simp)
  have hb := scan_new_bounds (inp.drop s) s []
  have hlf := scan_lf (inp.drop s) s []
  have hsp := (scan_sp_ge (inp.drop s) s []).2
  simp only [List.length_drop] at hsp
  have hlf' : ∀ p ∈ (scan (inp.drop s) s []).2.2, inp[p]? = some LF := by
    intro p hp
    rcases hlf p hp with h | ⟨h1, h2⟩
    · cases h
    · rw [← getElem?_drop_sub inp s p h1]; exact h2
  have hlt : ∀ p ∈ (scan (inp.drop s) s []).2.2, p < (scan (inp.drop s) s []).2.1 := by
    intro p hp
    rcases hb p hp with h | h
    · cases h
    · exact h.2
  unfold finalPos
  split
  · refine ⟨hpw, ?_, fun p hp => hlf' p (List.dropLast_subset _ hp)⟩
    intro p hp
    have := hlt p hp
    omega
  · refine ⟨?_, ?_, ?_⟩
    · exact List.pairwise_append.mpr ⟨hpw, by simp, fun a ha b hb' => by
        simp only [List.mem_singleton] at hb'; subst hb'; exact hlt a ha⟩
    · intro p hp
      simp only [List.mem_append, List.mem_singleton] at hp
      rcases hp with hp | hp
      · have := hlt p hp; omega
      · omega
    · intro p hp
      rw [List.dropLast_concat] at hp
      exact hlf' p hp

/-- … and they are all the LFs of the record's range -/
theorem scan_allLF (inp : List UInt8) (s : Nat) :
    AllLF inp (finalPos (scan (inp.drop s) s [])) := by
  intro p0 pn q h0 hn hq1 hq2 hq3
  have hb := scan_new_bounds (inp.drop s) s []
  have hall := scan_all (inp.drop s) s []
  have hp0 : s ≤ p0 := by
    have hm : p0 ∈ finalPos (scan (inp.drop s) s []) := List.mem_of_mem_head? h0
    unfold finalPos at hm
    split at hm
    · rcases hb p0 hm with h | h
      · cases h
      · exact h.1
    · simp only [List.mem_append, List.mem_singleton] at hm
      rcases hm with hm | hm
      · rcases hb p0 hm with h | h
        · cases h
        · exact h.1
      · rw [hm]; exact (scan_sp_ge (inp.drop s) s []).1
  have hpn : pn ≤ (scan (inp.drop s) s []).2.1 := by
    have hm : pn ∈ finalPos (scan (inp.drop s) s []) := List.mem_of_mem_getLast? hn
    unfold finalPos at hm
    split at hm
    · rcases hb pn hm with h | h
      · cases h
      · exact Nat.le_of_lt h.2
    · simp only [List.mem_append, List.mem_singleton] at hm
      rcases hm with hm | hm
      · rcases hb pn hm with h | h
        · cases h
        · exact Nat.le_of_lt h.2
      · rw [hm]; exact Nat.le_refl _
  have hmem := hall q (by omega) (by omega) (by rw [getElem?_drop_sub inp s q (by omega)]; exact hq3)
  unfold finalPos
  split
  · exact hmem
  · exact List.mem_append_left _ hmem

/-- **C13 for the record that starts at offset `s` of the input** -/
theorem rawForm_of_scan (inp : List UInt8) (s : Nat) (hs : s ≤ inp.length) :
    ∃ lines raw,
      allSome (seqLines inp ⟨s, finalPos (scan (inp.drop s) s [])⟩) = some lines ∧
      seqRaw inp ⟨s, finalPos (scan (inp.drop s) s [])⟩ = some raw ∧
      RawForm lines raw :=
  rawForm_of_offsets inp ⟨s, finalPos (scan (inp.drop s) s [])⟩ (scan_offsetsOk inp s hs)
    (scan_allLF inp s)

/-! ## the record a `next` call returns -/

theorem seqRaw_shift (inp buf ext : List UInt8) (b : Nat) (hb : b ≤ inp.length)
    (hw : inp.drop b = buf ++ ext) (bp : BufPos) (hp : ∀ p ∈ bp.seqPos, p ≤ buf.length) :
    seqRaw buf bp = seqRaw inp ⟨bp.start + b, bp.seqPos.map (· + b)⟩ := by
  rcases bp with ⟨st, ps⟩
  unfold seqRaw
  simp only [List.length_map, List.head?_map, List.getLast?_map]
  split
  · cases h1 : ps.head? with
    | none => rfl
    | some f =>
      cases h2 : ps.getLast? with
      | none => rfl
      | some l =>
        simp only [Option.map_some]
        rw [slice_shift inp buf ext b hb hw (f + 1) l (hp l (List.mem_of_mem_getLast? h2))]
        have e : f + 1 + b = f + b + 1 := by omega
        rw [e]
  · rfl

/-- a completely found record (`RecDone`) in a window of the input (`Win`) -/
theorem rawForm_of_recDone {inp : List UInt8} {r : Reader} {s : Nat} (hw : Win inp r)
    (hd : RecDone inp r s) (hs : s ≤ inp.length) :
    ∃ lines raw, allSome (seqLines r.br.buf r.bp) = some lines ∧
      seqRaw r.br.buf r.bp = some raw ∧ RawForm lines raw := by
  have hble := hw.b.base_le
  have hbp : (⟨r.bp.start + base r, r.bp.seqPos.map (· + base r)⟩ : BufPos) =
      ⟨s, finalPos (scan (inp.drop s) s [])⟩ := by
    rw [hd.start_eq, hd.fin]
  obtain ⟨lines, raw, h1, h2, h3⟩ := rawForm_of_scan inp s hs
  refine ⟨lines, raw, ?_, ?_, h3⟩
  · rw [seqLines_shift inp r.br.buf _ (base r) hble hw.b.win r.bp hd.pos_le, hbp]; exact h1
  · rw [seqRaw_shift inp r.br.buf _ (base r) hble hw.b.win r.bp hd.pos_le, hbp]; exact h2

/-- a successful `next` from a state satisfying the invariant leaves a completely found record -/
theorem next_recDone {inp : List UInt8} {r r' : Reader} {rest : List Obs} {fuel : Nat}
    (h : InvR inp r rest) (hfuel : inp.length < fuel) (hn : next fuel r = (r', .ok true)) :
    ∃ s, s ≤ inp.length ∧ Win inp r' ∧ RecDone inp r' s := by
  cases h with
  | finished hw hst =>
    rw [next_finished fuel r hst] at hn
    injection hn with _ h2
    cases h2
  | parsing hw he hst hsl hsple hbyte hgt hrs =>
    rw [next_parsing fuel r hst hsl] at hn
    have hs1 : ScanSt inp (incRec r) (r.searchPos + base r) :=
      ⟨rfl, Nat.le_refl _, hsple, (by intro p hp; cases hp), rfl⟩
    have hle : r.searchPos + base r ≤ inp.length := by
      have h1 := hw.b.base_add
      have h2 := hw.b.cur_le
      unfold base
      omega
    obtain ⟨r2, new, _, _, hcase⟩ :=
      nextCont_spec (r := incRec r) ⟨hw.b, hw.pol⟩ he hs1 hst hfuel
    rcases hcase with ⟨hnc, _, hw', _, hd, _⟩ | ⟨hnc, _⟩
    · rw [hnc] at hn
      injection hn with h1 _
      subst h1
      exact ⟨_, hle, hw', hd⟩
    · rw [hnc] at hn
      injection hn with _ h2
      cases h2
  | new hfb hst hsq =>
    have hcl := hfb.win.b.cur_le
    obtain ⟨r1, res, hfirst, hw1, hbp1, hsp1, hst1, hlog1, hpol1, hcap1, hpost⟩ :=
      firstByte_spec fuel r hfb (by omega)
    cases res with
    | none =>
      rw [next_new_none fuel r r1 hst hfirst] at hn
      injection hn with _ h2
      cases h2
    | some x =>
      obtain ⟨ln, pos, c⟩ := x
      obtain ⟨he1, hbyte1, hpos, hhead, hskip, l, ls, hl, hc⟩ := hpost
      by_cases hgt : c = GT
      · subst hgt
        rw [next_new_gt fuel r r1 ln pos hst hfirst] at hn
        have hs2 : ScanSt inp (initRec r1 ln pos) (pos + base r1) := by
          refine ⟨rfl, Nat.le_succ _, hpos, ?_, ?_⟩
          · intro p hp
            replace hp : p ∈ r1.bp.seqPos := hp
            rw [hbp1, hsq] at hp
            cases hp
          · show scan (inp.drop (pos + 1 + base r1)) (pos + 1 + base r1)
              (r1.bp.seqPos.map (· + base r1)) = _
            rw [hbp1, hsq, List.map_nil, ← scan_skip_gt _ _ hhead, List.drop_drop]
            have e : pos + base r1 + 1 = pos + 1 + base r1 := by omega
            rw [e]
        have hle : pos + base r1 ≤ inp.length := by
          have h1 := hw1.b.base_add
          have h2 := hw1.b.cur_le
          unfold base
          omega
        obtain ⟨r2, new, _, _, hcase⟩ :=
          nextCont_spec (r := initRec r1 ln pos) ⟨hw1.b, hw1.pol⟩ he1 hs2 rfl hfuel
        rcases hcase with ⟨hnc, _, hw', _, hd, _⟩ | ⟨hnc, _⟩
        · rw [hnc] at hn
          injection hn with h1 _
          subst h1
          exact ⟨_, hle, hw', hd⟩
        · rw [hnc] at hn
          injection hn with _ h2
          cases h2
      · rw [next_new_other fuel r r1 ln pos c hst hgt hfirst] at hn
        injection hn with _ h2
        cases h2

/-- **C13 for the reader.**  From any state satisfying the invariant of `Proofs/FastaStream.lean`
(every state reached from a fresh reader by `next` calls), if `next` returns a record, then
`seq_lines()` and `seq()` of that record do not panic and differ only by line terminators:
there are LF-free pieces `rawLines` such that the lines are `rawLines` with one final CR removed
from each, and the raw sequence is `rawLines` joined by LF, with one final CR removed. -/
theorem next_raw_eq_join {inp : List UInt8} {r r' : Reader} {rest : List Obs} {fuel : Nat}
    (h : InvR inp r rest) (hfuel : inp.length < fuel) (hn : next fuel r = (r', .ok true)) :
    ∃ rawLines : List (List UInt8),
      allSome (seqLines r'.br.buf r'.bp) = some (rawLines.map trimCr) ∧
      seqRaw r'.br.buf r'.bp = some (trimCr (joinLF rawLines)) ∧
      ∀ l ∈ rawLines, LF ∉ l := by
  obtain ⟨s, hs, hw, hd⟩ := next_recDone h hfuel hn
  obtain ⟨lines, raw, h1, h2, rl, h3, h4, h5⟩ := rawForm_of_recDone hw hd hs
  exact ⟨rl, by rw [h1, h3], by rw [h2, h4], h5⟩

/-- the byte form for the reader: deleting LF and CR from `seq()` and from `owned_seq()` gives
the same bytes -/
theorem next_raw_filter_eq {inp : List UInt8} {r r' : Reader} {rest : List Obs} {fuel : Nat}
    (h : InvR inp r rest) (hfuel : inp.length < fuel) (hn : next fuel r = (r', .ok true)) :
    ∃ raw owned, seqRaw r'.br.buf r'.bp = some raw ∧ ownedSeq r'.br.buf r'.bp = some owned ∧
      raw.filter (fun b => decide (b ≠ LF ∧ b ≠ CR)) = owned.filter (fun b => decide (b ≠ LF ∧ b ≠ CR)) := by
  obtain ⟨s, hs, hw, hd⟩ := next_recDone h hfuel hn
  obtain ⟨lines, raw, h1, h2, hf⟩ := rawForm_of_recDone hw hd hs
  exact ⟨raw, lines.flatten, h2, by simp [ownedSeq, h1], hf.filter_eq⟩

/-- the split form for the reader: if the record has at least one sequence line, the lines are
the LF-separated pieces of the untrimmed raw sequence, each with one final CR removed -/
theorem next_lines_eq_split {inp : List UInt8} {r r' : Reader} {rest : List Obs} {fuel : Nat}
    (h : InvR inp r rest) (hfuel : inp.length < fuel) (hn : next fuel r = (r', .ok true))
    (hlen : 1 < r'.bp.seqPos.length) :
    ∃ u : List UInt8, seqRaw r'.br.buf r'.bp = some (trimCr u) ∧
      allSome (seqLines r'.br.buf r'.bp) = some ((splitLF u).map trimCr) := by
  obtain ⟨s, hs, hw, hd⟩ := next_recDone h hfuel hn
  obtain ⟨lines, raw, h1, h2, hf⟩ := rawForm_of_recDone hw hd hs
  have hne : lines ≠ [] := by
    intro e
    subst e
    have hl : (seqLines r'.br.buf r'.bp).length = 0 := by
      generalize seqLines r'.br.buf r'.bp = L at h1
      cases L with
      | nil => rfl
      | cons x xs =>
        cases x with
        | none => simp [allSome] at h1
        | some x =>
          simp only [allSome] at h1
          cases hxs : allSome xs with
          | none => rw [hxs] at h1; cases h1
          | some ys => rw [hxs] at h1; simp at h1
    unfold seqLines at hl
    simp only [List.length_map, List.length_zip, List.length_drop] at hl
    omega
  obtain ⟨u, hu1, hu2⟩ := hf.split_eq hne
  exact ⟨u, by rw [h2, hu1], by rw [h1, hu2]⟩

/-- an instance: `>a⏎A␍⏎G␍⏎` with offsets 2, 5, 8 – the lines are `A`, `G`; the raw sequence
is `A␍⏎G` -/
example :
    let buf : List UInt8 := [62, 97, 10, 65, 13, 10, 71, 13, 10]
    let bp : BufPos := { start := 0, seqPos := [2, 5, 8] }
    rawLines buf bp = [[65, 13], [71, 13]] ∧
    allSome (seqLines buf bp) = some [[65], [71]] ∧
    seqRaw buf bp = some [65, 13, 10, 71] := by decide

end SeqIo.Fasta.Raw
