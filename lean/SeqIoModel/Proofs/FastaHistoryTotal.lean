import SeqIoModel.Proofs.FastaHistoryFSet
import SeqIoModel.Proofs.FastaHistory
/-!
# FASTA histories are total and show genuine records only (property C06)

For EVERY read script (refills may fail at any time and any number of times), every list of
failing seeks, every policy that answers more than the capacity it is passed or refuses
(`PolWfPos`), every input, capacity ≥ 3 and chunk limit, and every finite history of operations:

* `fasta_history_total`: no observation is a panic or an exhausted loop;
* `fasta_history_genuine`: every record shown by `next`, owned `next` or the iteration over a live
  record set is a record of `Spec.fasta inp`.
-/
open SeqIo SeqIo.FillProofs SeqIo.Spec

namespace SeqIo.Fasta.Hist

/-- the weak invariant of the whole machine -/
structure WHInv (inp : List UInt8) (m : MSt) : Prop where
  rd : WRInv inp m.r
  sets : ∀ rs ∈ m.sets, SetGen inp rs

/-- an observation that is fine for C06 -/
def Fine (inp : List UInt8) (o : ObsH) : Prop := o.crash = false ∧ Genuine (items inp) o

theorem WHInv.fuel {inp : List UInt8} {m : MSt} (h : WHInv inp m) :
    2 * inp.length + 2 < fuelOf m.r := by
  unfold fuelOf opFuel
  rw [h.rd.win.b.inp_eq]
  omega

theorem fine_of_readFine_next {inp : List UInt8} {r' : Reader} {res : Res Bool}
    (h : ReadFine inp r' res) : Fine inp (obsNext r' res) := by
  rcases h with ⟨hres, rc, hmem, hv, _, _⟩ | hres | ⟨e, hres⟩
  · subst hres
    simp only [obsNext, hv, view]
    exact ⟨rfl, rc, hmem, rfl, rfl⟩
  · subst hres; exact ⟨rfl, trivial⟩
  · subst hres; exact ⟨rfl, trivial⟩

theorem fine_of_readFine_owned {inp : List UInt8} {r' : Reader} {res : Res Bool}
    (h : ReadFine inp r' res) : Fine inp (obsOwned r' res) := by
  rcases h with ⟨hres, rc, hmem, _, hh, ho⟩ | hres | ⟨e, hres⟩
  · subst hres
    simp only [obsOwned, hh, ho]
    exact ⟨rfl, rc, hmem, rfl, rfl⟩
  · subst hres; exact ⟨rfl, trivial⟩
  · subst hres; exact ⟨rfl, trivial⟩

theorem stepF_next {inp : List UInt8} {m : MSt} (h : WHInv inp m) :
    WHInv inp (stepM m .next).1 ∧ (stepM m .next).1.r.pol.f = m.r.pol.f ∧ Fine inp (stepM m .next).2 := by
  obtain ⟨r', res, hnext, hpf, hinv, hfine⟩ := nextF (fuel := fuelOf m.r) h.rd (by have := h.fuel; omega)
  simp only [stepM, hnext]
  exact ⟨⟨hinv, h.sets⟩, hpf, fine_of_readFine_next hfine⟩

theorem stepF_owned {inp : List UInt8} {m : MSt} (h : WHInv inp m) :
    WHInv inp (stepM m .owned).1 ∧ (stepM m .owned).1.r.pol.f = m.r.pol.f ∧
      Fine inp (stepM m .owned).2 := by
  obtain ⟨r', res, hnext, hpf, hinv, hfine⟩ := nextF (fuel := fuelOf m.r) h.rd (by have := h.fuel; omega)
  simp only [stepM, hnext]
  exact ⟨⟨hinv, h.sets⟩, hpf, fine_of_readFine_owned hfine⟩

theorem stepF_set {inp : List UInt8} {m : MSt} (h : WHInv inp m) (j : Nat) (n : Option Nat) :
    WHInv inp (stepM m (.set j n)).1 ∧ (stepM m (.set j n)).1.r.pol.f = m.r.pol.f ∧
      Fine inp (stepM m (.set j n)).2 := by
  by_cases hn : n = some 0
  · subst hn
    exact ⟨h, rfl, rfl, trivial⟩
  cases hj : m.sets[j]? with
  | none =>
    rw [stepM_set_none hn hj]
    exact ⟨h, rfl, rfl, trivial⟩
  | some rs =>
    rw [stepM_set_some hn hj]
    obtain ⟨r', rs', res, hread, hpf, hinv, hcase⟩ := readSetF h.rd h.fuel rs n
    rw [hread]
    simp only
    have hrs : SetGen inp rs := h.sets rs (mem_of_getElem? hj)
    have hsets : SetGen inp rs' → ∀ x ∈ m.sets.set j rs', SetGen inp x := by
      intro hg x hx
      rcases List.mem_or_eq_of_mem_set hx with h' | h'
      · exact h.sets x h'
      · rw [h']; exact hg
    rcases hcase with ⟨hres, hbuf, hacc⟩ | ⟨hres, hrs'⟩ | ⟨⟨e, hres⟩, hrs'⟩
    · subst hres
      exact ⟨⟨hinv, hsets (setGen_of_accF hinv.win hacc hbuf)⟩, hpf, rfl, trivial⟩
    · subst hres
      exact ⟨⟨hinv, hsets (by rw [hrs']; exact hrs)⟩, hpf, rfl, trivial⟩
    · subst hres
      refine ⟨⟨hinv, hsets ?_⟩, hpf, rfl, trivial⟩
      rcases hrs' with h' | h'
      · rw [h']; exact hrs
      · exact setGen_of_npos_zero h'

theorem stepF_dump {inp : List UInt8} {m : MSt} (h : WHInv inp m) (j : Nat) :
    WHInv inp (stepM m (.dump j)).1 ∧ (stepM m (.dump j)).1.r.pol.f = m.r.pol.f ∧
      Fine inp (stepM m (.dump j)).2 := by
  cases hj : m.sets[j]? with
  | none =>
    have e : stepM m (.dump j) = (m, .done) := by simp only [stepM, hj]
    rw [e]
    exact ⟨h, rfl, rfl, trivial⟩
  | some rs =>
    have e : stepM m (.dump j) = (m, obsDump rs) := by simp only [stepM, hj]
    rw [e]
    obtain ⟨l, hl, hg⟩ := h.sets rs (mem_of_getElem? hj)
    show WHInv inp m ∧ m.r.pol.f = m.r.pol.f ∧ Fine inp (obsDump rs)
    rw [hl]
    refine ⟨h, rfl, rfl, ?_⟩
    intro v hv
    obtain ⟨rc, hmem, hrc⟩ := hg v hv
    exact ⟨rc, hmem, hrc.symm⟩

theorem stepF_seek {inp : List UInt8} {m : MSt} (h : WHInv inp m) (i : Nat) :
    WHInv inp (stepM m (.seekRec i)).1 ∧ (stepM m (.seekRec i)).1.r.pol.f = m.r.pol.f ∧
      Fine inp (stepM m (.seekRec i)).2 := by
  have hinp := h.rd.win.b.inp_eq
  cases hi : (recsOf inp)[i]? with
  | none =>
    have hi' : (items m.r.br.src.inp).recs[i]? = none := by rw [hinp]; exact hi
    have e : stepM m (.seekRec i) = (m, .done) := by simp only [stepM, hi']
    rw [e]
    exact ⟨h, rfl, rfl, trivial⟩
  | some rc =>
    have hi' : (items m.r.br.src.inp).recs[i]? = some rc := by rw [hinp]; exact hi
    obtain ⟨r', res, hseek, hpf, hinv, hres⟩ := seekF h.rd i rc hi
    simp only [stepM, hi', hseek]
    refine ⟨⟨hinv, h.sets⟩, hpf, ?_⟩
    rcases hres with h' | ⟨k, h'⟩ <;> subst h' <;> exact ⟨rfl, trivial⟩

/-- every operation preserves the weak invariant and is observed without crash and without
fabricated records -/
theorem stepF {inp : List UInt8} {m : MSt} (h : WHInv inp m) (op : Op) :
    WHInv inp (stepM m op).1 ∧ (stepM m op).1.r.pol.f = m.r.pol.f ∧ Fine inp (stepM m op).2 := by
  cases op with
  | next => exact stepF_next h
  | owned => exact stepF_owned h
  | set j n => exact stepF_set h j n
  | dump j => exact stepF_dump h j
  | pos => exact ⟨h, rfl, rfl, trivial⟩
  | seekRec i => exact stepF_seek h i

theorem runM_fine {inp : List UInt8} : ∀ (ops : List Op) (m : MSt), WHInv inp m →
    ∀ o ∈ runM m ops, Fine inp o := by
  intro ops
  induction ops with
  | nil => intro m _ o ho; cases ho
  | cons op ops ih =>
    intro m h o ho
    obtain ⟨hinv, _, hfine⟩ := stepF h op
    rw [runM] at ho
    rcases List.mem_cons.mp ho with rfl | ho
    · exact hfine
    · exact ih _ hinv o ho

/-- the initial state, with arbitrary read script and scripted seek failures -/
def mkMStF (inp : List UInt8) (cap : Nat) (pol : Pol) (script : List ReadEv) (chunk : Nat)
    (seekFails : List (Nat × IoKind)) : MSt :=
  { r := mkReader inp cap pol script chunk seekFails }

theorem mkMStF_nil (inp : List UInt8) (cap : Nat) (pol : Pol) (script : List ReadEv) (chunk : Nat) :
    mkMStF inp cap pol script chunk [] = mkMSt inp cap pol script chunk := rfl

theorem whinv_init (inp : List UInt8) (cap : Nat) (hcap : 3 ≤ cap) (pol : Pol) (hpol : PolWfPos pol)
    (script : List ReadEv) (chunk : Nat) (seekFails : List (Nat × IoKind)) :
    WHInv inp (mkMStF inp cap pol script chunk seekFails) := by
  refine ⟨WRInv.fresh ⟨⟨⟨rfl, Nat.le_refl _, Nat.zero_le _, ?_, hcap, Nat.zero_le _⟩, hpol⟩, ?_, ?_, rfl, rfl⟩
    rfl, ?_⟩
  · simp [baseB, mkReader, mkMStF]
  · simp [base, baseB, mkReader, mkMStF]
  · simp [SkipRel, base, baseB, mkReader, mkMStF]
  · intro rs hrs
    have : rs = {} := by
      have hm : (mkMStF inp cap pol script chunk seekFails).sets = [{}, {}, {}] := rfl
      rw [hm] at hrs
      simpa using hrs
    subst this
    exact setGen_of_npos_zero rfl

/-- **C06, no crash.** No history of calls makes the reader panic or run out of fuel – for every
read script (with failures), every scripted seek failure, every policy that answers more than the
capacity it is passed or refuses. -/
theorem fasta_history_total (inp : List UInt8) (cap : Nat) (hcap : 3 ≤ cap) (pol : Pol)
    (hpol : PolWfPos pol) (script : List ReadEv) (chunk : Nat) (seekFails : List (Nat × IoKind))
    (ops : List Op) :
    ∀ o ∈ runM (mkMStF inp cap pol script chunk seekFails) ops, o ≠ .panic ∧ o ≠ .fuel := by
  intro o ho
  have := (runM_fine ops _ (whinv_init inp cap hcap pol hpol script chunk seekFails) o ho).1
  constructor <;> intro h <;> rw [h] at this <;> cases this

/-- **C06, genuine records.** Every record shown by any observation of any history (a record
returned by `next`, an owned record, the records seen when iterating over a live record set) is a
record of `Spec.fasta inp` – also after failed refills, failed seeks and refusals of the policy. -/
theorem fasta_history_genuine (inp : List UInt8) (cap : Nat) (hcap : 3 ≤ cap) (pol : Pol)
    (hpol : PolWfPos pol) (script : List ReadEv) (chunk : Nat) (seekFails : List (Nat × IoKind))
    (ops : List Op) :
    ∀ o ∈ runM (mkMStF inp cap pol script chunk seekFails) ops, Genuine (items inp) o := by
  intro o ho
  exact (runM_fine ops _ (whinv_init inp cap hcap pol hpol script chunk seekFails) o ho).2

/-- the same for `PolWf` policies and the initial state of `fasta_history_accepted` -/
theorem fasta_history_total_genuine (inp : List UInt8) (cap : Nat) (hcap : 3 ≤ cap) (pol : Pol)
    (hpol : PolWf pol) (script : List ReadEv) (chunk : Nat) (ops : List Op) :
    ∀ o ∈ runM (mkMSt inp cap pol script chunk) ops,
      o ≠ .panic ∧ o ≠ .fuel ∧ Genuine (items inp) o := by
  intro o ho
  rw [← mkMStF_nil] at ho
  exact ⟨(fasta_history_total inp cap hcap pol (PolWf.wfPos hpol) script chunk [] ops o ho).1,
    (fasta_history_total inp cap hcap pol (PolWf.wfPos hpol) script chunk [] ops o ho).2,
    fasta_history_genuine inp cap hcap pol (PolWf.wfPos hpol) script chunk [] ops o ho⟩

end SeqIo.Fasta.Hist
