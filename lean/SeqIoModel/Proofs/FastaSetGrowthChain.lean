import SeqIoModel.Proofs.FastaSetGrowthBase
/-!
# Policy requests of record set reads, part 2: the chain of requests (bookkeeping)

Purely structural facts, valid for every read script and for exact-count reads as well: whenever
`resume_incomplete_search` is entered with a full buffer, the log is extended by a `LogChain` from
the capacity on entry to the capacity on exit, every answer is adopted as the new capacity, and
`BufferLimit` is the result iff the last request was refused.
-/
open SeqIo SeqIo.FillProofs SeqIo.Spec

namespace SeqIo.Fasta.Hist

/-- log extended by the chain `new`; `BufferLimit` iff the chain ends with a refusal -/
def ChainOut {α : Type} (r r' : Reader) (res : Res α) (new : List (Nat × Option Nat)) : Prop :=
  Growth r r' new ∧
  ((res ≠ .err .bufferLimit ∧ ∀ e ∈ new, e.2 ≠ none) ∨
   (res = .err .bufferLimit ∧ ∃ pre c, new = pre ++ [(c, none)]))

theorem ChainOut.of_lc {α : Type} {r r' : Reader} {res : Res α} (h : LC r r')
    (hres : res ≠ .err .bufferLimit) : ChainOut r r' res [] :=
  ⟨h.growth, Or.inl ⟨hres, fun e he => by cases he⟩⟩

/-- prefix a chain of answered requests -/
theorem ChainOut.prepend {α : Type} {r r1 r' : Reader} {res : Res α}
    {pre new : List (Nat × Option Nat)} (h1 : Growth r r1 pre) (hs : ∀ e ∈ pre, e.2 ≠ none)
    (h2 : ChainOut r1 r' res new) : ChainOut r r' res (pre ++ new) := by
  refine ⟨h1.trans hs h2.1, ?_⟩
  rcases h2.2 with ⟨hr, hn⟩ | ⟨hr, p', c, hp⟩
  · left
    refine ⟨hr, ?_⟩
    intro e he
    rcases List.mem_append.mp he with h | h
    · exact hs e h
    · exact hn e h
  · right
    exact ⟨hr, pre ++ p', c, by rw [hp, List.append_assoc]⟩

theorem ChainOut.lc_right {α : Type} {r r' r'' : Reader} {res : Res α}
    {new : List (Nat × Option Nat)} (h : ChainOut r r' res new) (h2 : LC r' r'') :
    ChainOut r r'' res new :=
  ⟨growth_lc_right h.1 h2, h.2⟩

theorem ChainOut.lc_left {α : Type} {r0 r r' : Reader} {res : Res α}
    {new : List (Nat × Option Nat)} (h1 : LC r0 r) (h : ChainOut r r' res new) :
    ChainOut r0 r' res new :=
  ⟨growth_lc_left h1 h.1, h.2⟩

theorem ChainOut.res_congr {α β : Type} {r r' : Reader} {res : Res α} {res' : Res β}
    {new : List (Nat × Option Nat)} (h : ChainOut r r' res new)
    (hiff : res' = .err .bufferLimit ↔ res = .err .bufferLimit) : ChainOut r r' res' new := by
  refine ⟨h.1, ?_⟩
  rcases h.2 with ⟨hr, hn⟩ | ⟨hr, hp⟩
  · exact Or.inl ⟨fun h' => hr (hiff.mp h'), hn⟩
  · exact Or.inr ⟨hiff.mpr hr, hp⟩

/-- the part of an iteration of `resume_incomplete_search` behind `grow` / `make_room` -/
def resumeK (f : Nat) (mk : Bool) (r1 : Reader) : Reader × Res Bool :=
  match fillBuf r1.br with
  | (br, .error k) => ({ r1 with br := br }, .err (.io k))
  | (br, .ok _) =>
    match search { r1 with br := br } with
    | none => (r1, .panic)
    | some (r, true) => (r, .ok true)
    | some (r, false) => resume f mk r

theorem resume_eqK (f : Nat) (mk : Bool) (r : Reader) :
    resume (f + 1) mk r =
      match step1 mk r with
      | (r1, .ok ()) => resumeK f mk r1
      | (r1, .err e) => (r1, .err e)
      | (r1, .panic) => (r1, .panic)
      | (r1, .fuel) => (r1, .fuel) := by
  rw [resume_unfold]
  rfl

theorem makeRoom_lc {r r1 : Reader} (h : makeRoom r = some r1) : LC r r1 := by
  unfold makeRoom at h
  simp only at h
  split at h
  · simp only [Option.some.injEq] at h
    subst h
    exact ⟨rfl, rfl, rfl⟩
  · cases h

/-- the precondition of the bookkeeping lemmas -/
structure Pre (r : Reader) : Prop where
  pol : PolWfPos r.pol
  cap : 1 ≤ r.br.cap

theorem Pre.of_growth {r r' : Reader} {new : List (Nat × Option Nat)} (h : Pre r)
    (hg : Growth r r' new) (hcap : r.br.cap ≤ r'.br.cap) : Pre r' :=
  ⟨polWfPos_congr hg.polf h.pol, by have := h.cap; omega⟩

theorem resume_chain (mk : Bool) : ∀ (fu : Nat) (r : Reader), Pre r → r.br.cap ≤ r.br.buf.length →
    ∃ new, ChainOut r (resume fu mk r).1 (resume fu mk r).2 new ∧
      r.br.cap ≤ (resume fu mk r).1.br.cap := by
  intro fu
  induction fu with
  | zero =>
    intro r _ _
    exact ⟨[], ChainOut.of_lc (LC.refl r) (by intro h; cases h), Nat.le_refl _⟩
  | succ f ih =>
    intro r hpre hfull
    -- what follows `grow` / `make_room`
    have hK : ∀ r1 : Reader, Pre r1 →
        ∃ new, ChainOut r1 (resumeK f mk r1).1 (resumeK f mk r1).2 new ∧
          r1.br.cap ≤ (resumeK f mk r1).1.br.cap := by
      intro r1 hpre1
      unfold resumeK
      have hc := fillBuf_cap r1.br
      rcases hfill : fillBuf r1.br with ⟨br, fres⟩
      rw [hfill] at hc
      simp only at hc ⊢
      cases fres with
      | error k =>
        exact ⟨[], ChainOut.of_lc ⟨rfl, rfl, hc⟩ (by intro h; cases h), by show r1.br.cap ≤ br.cap; omega⟩
      | ok n =>
        simp only
        cases hsr : search { r1 with br := br } with
        | none => exact ⟨[], ChainOut.of_lc (LC.refl r1) (by intro h; cases h), Nat.le_refl _⟩
        | some q =>
          obtain ⟨r2, fnd⟩ := q
          have hlc0 : LC r1 { r1 with br := br } := ⟨rfl, rfl, hc⟩
          have hlc : LC r1 r2 := LC.trans hlc0 (search_lc hsr)
          cases fnd with
          | true =>
            exact ⟨[], ChainOut.of_lc hlc (by intro h; cases h), by rw [hlc.cap]; exact Nat.le_refl _⟩
          | false =>
            obtain ⟨hbr, _, _, _, hf⟩ := search_frame hsr
            obtain ⟨_, hfull2⟩ := hf rfl
            obtain ⟨new, hco, hle⟩ := ih r2 ⟨by rw [hlc.pol]; exact hpre1.pol, by rw [hlc.cap]; exact hpre1.cap⟩
              (by rw [hbr]; exact hfull2)
            exact ⟨new, hco.lc_left hlc, by rw [← hlc.cap]; exact hle⟩
    rw [resume_eqK]
    by_cases hc : (!mk || decide (r.bp.start = 0)) = true
    · have hs1 : step1 mk r = grow r := by unfold step1; rw [if_pos hc]
      rw [hs1]
      rcases grow_spec hpre.pol hfull hpre.cap with
        ⟨r1, n, hn, hg, hbr, hlt, hcap, hlog, hpf, _⟩ | ⟨r1, hn, hg, hbr, hlog, hpf⟩
      · rw [hg]
        simp only
        have hg1 : Growth r r1 [(r.br.cap, some n)] := ⟨hlog, hpf, ⟨rfl, hcap⟩⟩
        have hpre1 : Pre r1 := hpre.of_growth hg1 (by omega)
        obtain ⟨new, hco, hle⟩ := hK r1 hpre1
        exact ⟨[(r.br.cap, some n)] ++ new,
          ChainOut.prepend hg1 (by intro e he; simp only [List.mem_singleton] at he; subst he; simp) hco,
          by omega⟩
      · rw [hg]
        simp only
        refine ⟨[(r.br.cap, none)], ⟨⟨hlog, hpf, ⟨rfl, rfl, by rw [hbr]⟩⟩, Or.inr ⟨rfl, [], r.br.cap, rfl⟩⟩,
          by rw [hbr]; exact Nat.le_refl _⟩
    · have hs1 : step1 mk r = match makeRoom r with
          | some r' => (r', .ok ())
          | none => (r, .panic) := by unfold step1; rw [if_neg hc]; rfl
      rw [hs1]
      cases hm : makeRoom r with
      | none => exact ⟨[], ChainOut.of_lc (LC.refl r) (by intro h; cases h), Nat.le_refl _⟩
      | some r1 =>
        simp only
        have hlc := makeRoom_lc hm
        obtain ⟨new, hco, hle⟩ := hK r1 ⟨by rw [hlc.pol]; exact hpre.pol, by rw [hlc.cap]; exact hpre.cap⟩
        exact ⟨new, hco.lc_left hlc, by rw [← hlc.cap]; exact hle⟩

/-! ## the loop of `read_record_set_exact` -/

open SeqIo.Fasta.Fault in
theorem setLoop_chain (fu : Nat) (n : Option Nat) : ∀ (f : Nat) (isNew : Bool) (r : Reader)
    (rs : RecordSet), Pre r → (r.state = .incomplete → r.br.cap ≤ r.br.buf.length) →
    ∃ new, ChainOut r (setLoop f fu n isNew r rs).1 (setLoop f fu n isNew r rs).2.2 new ∧
      r.br.cap ≤ (setLoop f fu n isNew r rs).1.br.cap := by
  intro f
  induction f with
  | zero =>
    intro isNew r rs _ _
    exact ⟨[], ChainOut.of_lc (LC.refl r) (by intro h; cases h), Nat.le_refl _⟩
  | succ f ih =>
    intro isNew r rs hpre hinc
    have hstore : ∀ (r1 : Reader) (rs1 : RecordSet), Pre r1 → r1.state ≠ .incomplete →
        ∃ new, ChainOut r1 (storeK f fu n isNew r1 rs1).1 (storeK f fu n isNew r1 rs1).2.2 new ∧
          r1.br.cap ≤ (storeK f fu n isNew r1 rs1).1.br.cap := by
      intro r1 rs1 hpre1 hni
      unfold storeK
      cases hss : storeStep n r1 rs1 with
      | none => exact ⟨[], ChainOut.of_lc (LC.refl r1) (by intro h; cases h), Nat.le_refl _⟩
      | some q =>
        obtain ⟨r2, rs2, b⟩ := q
        obtain ⟨hlc, hst, _, _⟩ := storeStep_frame hss
        cases b with
        | true => exact ⟨[], ChainOut.of_lc hlc (by intro h; cases h), by rw [hlc.cap]; exact Nat.le_refl _⟩
        | false =>
          obtain ⟨new, hco, hle⟩ := ih isNew r2 rs2 ⟨by rw [hlc.pol]; exact hpre1.pol, by rw [hlc.cap]; exact hpre1.cap⟩
            (fun h => absurd (by rw [← hst]; exact h) hni)
          exact ⟨new, hco.lc_left hlc, by rw [← hlc.cap]; exact hle⟩
    rw [setLoop_eq]
    by_cases hfin : r.state = .finished
    · rw [if_pos hfin]
      exact ⟨[], ChainOut.of_lc (LC.refl r) (by intro h; cases h), Nat.le_refl _⟩
    · rw [if_neg hfin]
      by_cases hi : r.state = .incomplete
      · rw [if_pos hi]
        obtain ⟨new1, hco1, hle1⟩ := resume_chain isNew fu r hpre (hinc hi)
        rcases hres : resume fu isNew r with ⟨r1, res⟩
        rw [hres] at hco1 hle1
        simp only at hco1 hle1 ⊢
        cases res with
        | ok b =>
          cases b with
          | true =>
            simp only
            have hsome : ∀ e ∈ new1, e.2 ≠ none := by
              rcases hco1.2 with ⟨_, h⟩ | ⟨h, _⟩
              · exact h
              · cases h
            have hpre1 : Pre r1 := hpre.of_growth hco1.1 hle1
            by_cases hf : r1.state = .finished
            · rw [if_neg (by rw [hf]; simp)]
              obtain ⟨new2, hco2, hle2⟩ := hstore r1 rs hpre1 (by rw [hf]; intro h; cases h)
              exact ⟨new1 ++ new2, ChainOut.prepend hco1.1 hsome hco2, by omega⟩
            · rw [if_pos hf]
              obtain ⟨new2, hco2, hle2⟩ := hstore { r1 with state := .positioned } rs
                ⟨hpre1.pol, hpre1.cap⟩ (by intro h; cases h)
              have hg : Growth r { r1 with state := .positioned } new1 :=
                ⟨hco1.1.log, hco1.1.polf, hco1.1.chain⟩
              exact ⟨new1 ++ new2, ChainOut.prepend hg hsome hco2,
                by have : r1.br.cap ≤ _ := hle2; omega⟩
          | false => exact ⟨new1, hco1.res_congr (by simp), hle1⟩
        | err e => exact ⟨new1, hco1.res_congr Iff.rfl, hle1⟩
        | panic => exact ⟨new1, hco1.res_congr (by simp), hle1⟩
        | fuel => exact ⟨new1, hco1.res_congr (by simp), hle1⟩
      · rw [if_neg hi]
        cases hsr : search r with
        | none => exact ⟨[], ChainOut.of_lc (LC.refl r) (by intro h; cases h), Nat.le_refl _⟩
        | some q =>
          obtain ⟨r1, fnd⟩ := q
          have hlc := search_lc hsr
          obtain ⟨hbr, _, _, ht, hf⟩ := search_frame hsr
          have hpre1 : Pre r1 := ⟨by rw [hlc.pol]; exact hpre.pol, by rw [hlc.cap]; exact hpre.cap⟩
          cases fnd with
          | true =>
            simp only
            have hni : r1.state ≠ .incomplete := by
              rcases ht rfl with h | h
              · rw [h]; exact hi
              · rw [h]; intro h'; cases h'
            obtain ⟨new, hco, hle⟩ := hstore r1 rs hpre1 hni
            exact ⟨new, hco.lc_left hlc, by rw [← hlc.cap]; exact hle⟩
          | false =>
            simp only
            obtain ⟨_, hfull⟩ := hf rfl
            have hfull1 : r1.state = .incomplete → r1.br.cap ≤ r1.br.buf.length := by
              intro _; rw [hbr]; exact hfull
            unfold afterMiss
            by_cases h0 : rs.npos = 0
            · rw [if_pos h0]
              obtain ⟨new, hco, hle⟩ := ih isNew r1 rs hpre1 hfull1
              exact ⟨new, hco.lc_left hlc, by rw [← hlc.cap]; exact hle⟩
            · rw [if_neg h0]
              cases n with
              | none => exact ⟨[], ChainOut.of_lc hlc (by intro h; cases h), by rw [hlc.cap]; exact Nat.le_refl _⟩
              | some n' =>
                simp only
                by_cases hlt : rs.npos < n'
                · rw [if_pos hlt]
                  obtain ⟨new, hco, hle⟩ := ih false r1 rs hpre1 hfull1
                  exact ⟨new, hco.lc_left hlc, by rw [← hlc.cap]; exact hle⟩
                · rw [if_neg hlt]
                  exact ⟨[], ChainOut.of_lc hlc (by intro h; cases h), by rw [hlc.cap]; exact Nat.le_refl _⟩

/-! ## whole calls -/

theorem firstByte_not_limit : ∀ (fu : Nat) (r : Reader), (firstByte fu r).2 ≠ .err .bufferLimit := by
  intro fu
  induction fu with
  | zero => intro r h; cases h
  | succ f ih =>
    intro r
    rw [firstByte]
    rcases fillBuf r.br with ⟨br, res⟩
    simp only
    cases res with
    | error k => intro h; cases h
    | ok n =>
      cases n with
      | zero => intro h; cases h
      | succ n' =>
        simp only
        cases scanBlank (splitLF br.buf) r.line 0 0 with
        | inl x => intro h; cases h
        | inr x =>
          obtain ⟨ln, pos, ll⟩ := x
          simp only
          cases csub pos (1 + ll) with
          | none => intro h; cases h
          | some c =>
            cases csub ln 1 with
            | none => intro h; cases h
            | some l1 => exact ih _

theorem init_not_limit (fu : Nat) (r : Reader) : (init fu r).2 ≠ .err .bufferLimit := by
  have := firstByte_not_limit fu r
  unfold init
  rcases hfb : firstByte fu r with ⟨r1, res⟩
  rw [hfb] at this
  simp only at this ⊢
  cases res with
  | ok o =>
    cases o with
    | none => intro h; cases h
    | some x =>
      obtain ⟨ln, pos, b⟩ := x
      simp only
      split <;> (intro h; cases h)
  | err e =>
    simp only
    intro h
    apply this
    cases h
    rfl
  | panic => intro h; cases h
  | fuel => intro h; cases h

open SeqIo.Fasta.Fault in
theorem setPre_lc (fu : Nat) (r : Reader) :
    LC r (setPre fu r).1 ∧ (setPre fu r).2 ≠ .err .bufferLimit ∧
      ((setPre fu r).2 = .ok true → (setPre fu r).1.state = .incomplete →
        r.state = .incomplete ∧ (setPre fu r).1 = r) := by
  have hnl := init_not_limit fu r
  unfold setPre
  cases hst : r.state with
  | new =>
    simp only
    have := init_lc fu r
    rcases hi : init fu r with ⟨r1, res⟩
    rw [hi] at this hnl
    simp only at this hnl
    cases res with
    | ok b =>
      cases b with
      | true => exact ⟨⟨this.log, this.pol, this.cap⟩, (by intro h; cases h), fun _ h => by cases h⟩
      | false => exact ⟨this, (by intro h; cases h), fun h => by cases h⟩
    | err e => exact ⟨this, hnl, fun h => by cases h⟩
    | panic => exact ⟨this, (by intro h; cases h), fun h => by cases h⟩
    | fuel => exact ⟨this, (by intro h; cases h), fun h => by cases h⟩
  | finished => exact ⟨LC.refl r, (by intro h; cases h), fun h => by cases h⟩
  | positioned => exact ⟨LC.refl r, (by intro h; cases h), fun _ h => by rw [hst] at h; cases h⟩
  | incomplete => exact ⟨LC.refl r, (by intro h; cases h), fun _ _ => ⟨rfl, rfl⟩⟩
  | parsing =>
    simp only
    cases hinc : incrementRecord r with
    | none => exact ⟨LC.refl r, (by intro h; cases h), fun h => by cases h⟩
    | some r1 =>
      obtain ⟨hlc, _, _⟩ := incrementRecord_frame hinc
      exact ⟨⟨hlc.log, hlc.pol, hlc.cap⟩, (by intro h; cases h), fun _ h => by cases h⟩

/-- **bookkeeping of one record set read** (plain or exact-count, any script): the log is extended
by a chain of requests from the capacity on entry to the capacity on exit; `BufferLimit` is the
result iff the last request was refused -/
theorem readSet_chain (fu : Nat) (r : Reader) (rs : RecordSet) (n : Option Nat) (hpre : Pre r)
    (hinc : r.state = .incomplete → r.br.cap ≤ r.br.buf.length) :
    ∃ new, ChainOut r (readRecordSetExact fu r rs n).1 (readRecordSetExact fu r rs n).2.2 new := by
  rw [Fault.readSet_eq]
  obtain ⟨hlc, hnl, hstate⟩ := setPre_lc fu r
  rcases hp : Fault.setPre fu r with ⟨r1, res⟩
  rw [hp] at hlc hstate hnl
  simp only at hlc hstate hnl
  unfold Fault.setPost
  cases res with
  | ok b =>
    cases b with
    | true =>
      simp only
      have hpre1 : Pre r1 := ⟨by rw [hlc.pol]; exact hpre.pol, by rw [hlc.cap]; exact hpre.cap⟩
      obtain ⟨new, hco, _⟩ := setLoop_chain fu n fu true r1 { rs with npos := 0 } hpre1 (by
        intro hi
        obtain ⟨h1, h2⟩ := hstate rfl hi
        rw [h2]; exact hinc h1)
      rcases hl : setLoop fu fu n true r1 { rs with npos := 0 } with ⟨r2, rs2, res2⟩
      rw [hl] at hco
      simp only at hco ⊢
      refine ⟨new, ?_⟩
      cases res2 with
      | ok b2 =>
        cases b2 with
        | true => exact (hco.lc_left hlc).res_congr (by simp)
        | false => exact hco.lc_left hlc
      | err e => exact hco.lc_left hlc
      | panic => exact hco.lc_left hlc
      | fuel => exact hco.lc_left hlc
    | false => exact ⟨[], ChainOut.of_lc hlc (by intro h; cases h)⟩
  | err e =>
    exact ⟨[], ChainOut.of_lc hlc hnl⟩
  | panic => exact ⟨[], ChainOut.of_lc hlc (by intro h; cases h)⟩
  | fuel => exact ⟨[], ChainOut.of_lc hlc (by intro h; cases h)⟩

/-! ## `next` -/

theorem nextTail_chain (fu : Nat) (r1 : Reader) (hpre : Pre r1)
    (hinc : r1.state = .incomplete → r1.br.cap ≤ r1.br.buf.length) :
    ∃ new, ChainOut r1 (Fault.nextTail fu r1).1 (Fault.nextTail fu r1).2 new := by
  unfold Fault.nextTail
  by_cases hi : r1.state = .incomplete
  · rw [if_pos hi]
    obtain ⟨new, hco, _⟩ := resume_chain true fu r1 hpre (hinc hi)
    rcases hres : resume fu true r1 with ⟨r2, res⟩
    rw [hres] at hco
    simp only at hco ⊢
    refine ⟨new, ?_⟩
    cases res with
    | ok b =>
      cases b with
      | true =>
        simp only
        by_cases hf : r2.state = .finished
        · rw [if_neg (by rw [hf]; simp)]; exact hco
        · rw [if_pos hf]; exact ⟨⟨hco.1.log, hco.1.polf, hco.1.chain⟩, hco.2⟩
      | false => exact hco
    | err e => exact hco
    | panic => exact hco
    | fuel => exact hco
  · rw [if_neg hi]
    exact ⟨[], ChainOut.of_lc (LC.refl r1) (by intro h; cases h)⟩

theorem nextCont_chain (fu : Nat) (r : Reader) (hpre : Pre r)
    (hinc : r.state = .incomplete → r.br.cap ≤ r.br.buf.length) :
    ∃ new, ChainOut r (nextCont fu r).1 (nextCont fu r).2 new := by
  rw [Fault.nextCont_eq]
  by_cases hi : r.state = .incomplete
  · rw [if_neg (by rw [hi]; simp)]
    exact nextTail_chain fu r hpre hinc
  · rw [if_pos hi]
    cases hsr : search r with
    | none => exact ⟨[], ChainOut.of_lc (LC.refl r) (by intro h; cases h)⟩
    | some q =>
      obtain ⟨r1, fnd⟩ := q
      simp only [Option.map_some]
      have hlc := search_lc hsr
      obtain ⟨hbr, _, _, _, hf⟩ := search_frame hsr
      have hpre1 : Pre r1 := ⟨by rw [hlc.pol]; exact hpre.pol, by rw [hlc.cap]; exact hpre.cap⟩
      obtain ⟨new, hco⟩ := nextTail_chain fu r1 hpre1 (by
        intro h1
        cases fnd with
        | false => rw [hbr]; exact (hf rfl).2
        | true =>
          obtain ⟨_, _, _, ht, _⟩ := search_frame hsr
          rcases ht rfl with h | h
          · rw [h] at h1; exact absurd h1 hi
          · rw [h] at h1; cases h1)
      exact ⟨new, hco.lc_left hlc⟩

/-- **bookkeeping of one `next` call**, any script -/
theorem next_chain (fu : Nat) (r : Reader) (hpre : Pre r)
    (hinc : r.state = .incomplete → r.br.cap ≤ r.br.buf.length) :
    ∃ new, ChainOut r (next fu r).1 (next fu r).2 new := by
  unfold next
  cases hst : r.state with
  | new =>
    simp only
    have hlc := init_lc fu r
    have hnl := init_not_limit fu r
    rcases hi : init fu r with ⟨r1, res⟩
    rw [hi] at hlc hnl
    simp only at hlc hnl
    cases res with
    | ok b =>
      cases b with
      | true =>
        simp only
        obtain ⟨new, hco⟩ := nextCont_chain fu { r1 with state := .parsing }
          ⟨by show PolWfPos r1.pol; rw [hlc.pol]; exact hpre.pol, by show 1 ≤ r1.br.cap; rw [hlc.cap]; exact hpre.cap⟩
          (fun h => by cases h)
        have hl0 : LC r { r1 with state := .parsing } := ⟨hlc.log, hlc.pol, hlc.cap⟩
        exact ⟨new, hco.lc_left hl0⟩
      | false => exact ⟨[], ChainOut.of_lc hlc (by intro h; cases h)⟩
    | err e => exact ⟨[], ChainOut.of_lc hlc hnl⟩
    | panic => exact ⟨[], ChainOut.of_lc hlc (by intro h; cases h)⟩
    | fuel => exact ⟨[], ChainOut.of_lc hlc (by intro h; cases h)⟩
  | positioned =>
    simp only
    obtain ⟨new, hco⟩ := nextCont_chain fu { r with state := .parsing } ⟨hpre.pol, hpre.cap⟩
      (fun h => by cases h)
    have hl0 : LC r { r with state := .parsing } := ⟨rfl, rfl, rfl⟩
    exact ⟨new, hco.lc_left hl0⟩
  | finished => exact ⟨[], ChainOut.of_lc (LC.refl r) (by intro h; cases h)⟩
  | parsing =>
    simp only
    cases hinc' : incrementRecord r with
    | none => exact ⟨[], ChainOut.of_lc (LC.refl r) (by intro h; cases h)⟩
    | some r1 =>
      simp only
      obtain ⟨hlc, hst1, _⟩ := incrementRecord_frame hinc'
      obtain ⟨new, hco⟩ := nextCont_chain fu r1
        ⟨by rw [hlc.pol]; exact hpre.pol, by rw [hlc.cap]; exact hpre.cap⟩
        (fun h => by rw [hst1, hst] at h; cases h)
      exact ⟨new, hco.lc_left hlc⟩
  | incomplete =>
    simp only
    exact nextCont_chain fu r hpre hinc

end SeqIo.Fasta.Hist
