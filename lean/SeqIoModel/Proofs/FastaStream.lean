import SeqIoModel.Proofs.FastaStreamInit
/-!
# FASTA stream theorem: `next()` calls of the buffered reader yield exactly what S prescribes

`fasta_next_stream_polGrows`: for every input, capacity ≥ 3, growth policy that never refuses
a request with a positive capacity (`PolGrows`, e.g. `StdPolicy`), read script without failures
and chunk limit, `k` consecutive `next()` calls of the concrete machine give S's records (head,
sequence lines, line number, byte offset) in order, or S's `InvalidStart` error, followed by
`None` forever.  No panic, `opFuel` suffices.

`fasta_next_stream_refusing`: with a policy that may refuse (`PolWfPos`) the same holds up to
the first `BufferLimit`.  `next_growth_log`, `only_when_unfit`, `bufferLimit_iff_refused`,
`fitting_never_grows`: bookkeeping of the policy requests.
-/
open SeqIo SeqIo.FillProofs SeqIo.Spec

namespace SeqIo.Fasta

/-! ## record views of a window are views of the input -/

theorem segsFrom_shift (inp buf ext : List UInt8) (b : Nat) (hb : b ≤ inp.length)
    (hw : inp.drop b = buf ++ ext) (ps : List Nat) (a : Nat) (hp : ∀ p ∈ ps, p ≤ buf.length) :
    segsFrom buf a ps = segsFrom inp (a + b) (ps.map (· + b)) := by
  induction ps generalizing a with
  | nil => rfl
  | cons p ps ih =>
    simp only [segsFrom, List.map_cons]
    rw [slice_shift inp buf ext b hb hw a p (hp p (by simp)), ih (p + 1) (fun q hq => hp q (by simp [hq]))]
    have e : p + 1 + b = p + b + 1 := by omega
    rw [e]

theorem head_shift (inp buf ext : List UInt8) (b : Nat) (hb : b ≤ inp.length)
    (hw : inp.drop b = buf ++ ext) (bp : BufPos) (hp : ∀ p ∈ bp.seqPos, p ≤ buf.length) :
    head buf bp = head inp ⟨bp.start + b, bp.seqPos.map (· + b)⟩ := by
  rcases bp with ⟨st, ps⟩
  cases ps with
  | nil => rfl
  | cons p ps =>
    simp only [head_cons, List.map_cons]
    rw [slice_shift inp buf ext b hb hw (st + 1) p (hp p (by simp))]
    have e : st + 1 + b = st + b + 1 := by omega
    rw [e]

theorem seqLines_shift (inp buf ext : List UInt8) (b : Nat) (hb : b ≤ inp.length)
    (hw : inp.drop b = buf ++ ext) (bp : BufPos) (hp : ∀ p ∈ bp.seqPos, p ≤ buf.length) :
    seqLines buf bp = seqLines inp ⟨bp.start + b, bp.seqPos.map (· + b)⟩ := by
  rcases bp with ⟨st, ps⟩
  cases ps with
  | nil => rfl
  | cons p ps =>
    simp only [seqLines_cons, List.map_cons]
    rw [segsFrom_shift inp buf ext b hb hw ps (p + 1) (fun q hq => hp q (by simp [hq]))]
    have e : p + 1 + b = p + b + 1 := by omega
    rw [e]

/-! ## the invariant between `next` calls -/

/-- absolute offsets at which the records of S start -/
inductive RecStart (inp : List UInt8) : Nat → Prop
  | first {l : List UInt8} {ls : List (List UInt8)} {s ln : Nat} :
      skipBlank (lines inp) 0 1 = (l :: ls, s, ln) → l.head? = some GT → RecStart inp s
  | next {s : Nat} : RecStart inp s → (scan (inp.drop s) s []).1 = true →
      RecStart inp (scan (inp.drop s) s []).2.1

/-- `InvR inp r rest`: `r` is a state between `next` calls on input `inp`, and `rest` is what
S still prescribes for the calls to come. -/
inductive InvR (inp : List UInt8) : Reader → List Obs → Prop
  | new (r : Reader) : FB inp r → r.state = .new → r.bp.seqPos = [] → InvR inp r (specObs inp)
  | parsing (r : Reader) : Win inp r → Eof inp r → r.state = .parsing →
      r.bp.start ≤ r.searchPos → r.searchPos ≤ r.br.buf.length →
      r.byte = r.bp.start + base r →
      (inp.drop (r.searchPos + base r)).head? = some GT →
      RecStart inp (r.searchPos + base r) →
      InvR inp r (specFrom inp (r.searchPos + base r) (r.line + r.bp.seqPos.length))
  | finished (r : Reader) : Win inp r → r.state = .finished → InvR inp r []

/-- states reachable by `next` calls before any `BufferLimit` error, for policies that may refuse
(`PolWfPos`) -/
def InvW (inp : List UInt8) (r : Reader) : Prop := ∃ rest, InvR inp r rest

/-- states reachable by `next` calls with a policy that never refuses (`PolGrows`) -/
def Inv (inp : List UInt8) (r : Reader) : Prop := InvW inp r ∧ PolGrows r.pol

theorem Inv.weak {inp : List UInt8} {r : Reader} (h : Inv inp r) : InvW inp r := h.1

theorem InvR.win {inp : List UInt8} {r : Reader} {rest : List Obs} (h : InvR inp r rest) :
    Win inp r := by
  cases h with
  | new h _ _ => exact h.win
  | parsing h => exact h
  | finished h => exact h

theorem scan_skip_gt (l : List UInt8) (s : Nat) (h : l.head? = some GT) :
    scan (l.drop 1) (s + 1) [] = scan l s [] := by
  match l, h with
  | [b], h =>
    simp only [List.head?_cons, Option.some.injEq] at h
    subst h
    simp [scan, GT, LF]
  | b :: c :: rest, h =>
    simp only [List.head?_cons, Option.some.injEq] at h
    subst h
    rw [scan.eq_3]
    simp [GT, LF]

/-- a completely found record is the record S prescribes -/
theorem rec_done_obs {inp : List UInt8} {r' : Reader} {s ln : Nat} (hw' : Win inp r')
    (he' : Eof inp r') (hd : RecDone inp r' s) (hl' : r'.line = ln) (hb' : r'.byte = s)
    (hst' : r'.state = .parsing ∨ r'.state = .finished)
    (hgt : (inp.drop s).head? = some GT) (hrs : RecStart inp s) :
    ∃ o rest, specFrom inp s ln = o :: rest ∧ observe r' (.ok true) = o ∧ InvR inp r' rest := by
  obtain ⟨H, SL, hH, hSL, hspec, hnext⟩ := rec_spec inp s ln hgt
  have hble := hw'.b.base_le
  have hbp : (⟨r'.bp.start + base r', r'.bp.seqPos.map (· + base r')⟩ : BufPos) =
      ⟨s, finalPos (scan (inp.drop s) s [])⟩ := by
    rw [hd.start_eq, hd.fin]
  have hhead : head r'.br.buf r'.bp = some H := by
    rw [head_shift inp r'.br.buf _ (base r') hble hw'.b.win r'.bp hd.pos_le, hbp, hH]
  have hseq : allSome (seqLines r'.br.buf r'.bp) = some SL := by
    rw [seqLines_shift inp r'.br.buf _ (base r') hble hw'.b.win r'.bp hd.pos_le, hbp, hSL]
  have hne : r'.bp.seqPos ≠ [] := by
    intro h
    unfold head at hhead
    rw [h] at hhead
    simp at hhead
  have hpos : position r' = some (ln, s) := by
    unfold position
    have : r'.bp.seqPos.isEmpty = false := by
      cases h : r'.bp.seqPos with
      | nil => exact absurd h hne
      | cons _ _ => rfl
    rw [this, hl', hb']
    rfl
  refine ⟨_, _, hspec, ?_, ?_⟩
  · simp only [observe, hhead, hseq, hpos]
  · have hlen : (finalPos (scan (inp.drop s) s [])).length = r'.bp.seqPos.length := by
      rw [← hd.fin, List.length_map]
    by_cases hf : (scan (inp.drop s) s []).1 = true
    · rw [if_pos hf]
      obtain ⟨hsp, hsl, hsple⟩ := hd.nxt hf
      have hnf : r'.state ≠ .finished := by
        intro h
        have := hd.st.mp h
        rw [hf] at this
        cases this
      have hpar : r'.state = .parsing := by
        rcases hst' with h | h
        · exact h
        · exact absurd h hnf
      have := InvR.parsing r' hw' he' hpar hsl hsple (by rw [hb', hd.start_eq])
        (by rw [← hsp]; exact hnext hf) (by rw [← hsp]; exact RecStart.next hrs hf)
      rw [← hsp, hl', ← hlen] at this
      exact this
    · rw [if_neg hf]
      have hff : (scan (inp.drop s) s []).1 = false := by
        cases h : (scan (inp.drop s) s []).1 <;> simp_all
      exact InvR.finished r' hw' (hd.st.mpr hff)

/-- the two possible outcomes of an operation that may ask the policy: `good` with a payload, or
`BufferLimit` after a refusal -/
def Refused (r : Reader) (res : Res Bool) (new : List (Nat × Option Nat)) : Prop :=
  res = .err .bufferLimit ∧ (∃ pre c, new = pre ++ [(c, none)]) ∧
    ∃ h c, 1 ≤ c ∧ r.pol.f (h ++ [c]) = none

/-- from a record start: `nextCont` finds the record S prescribes, unless the policy refuses -/
theorem rec_step {inp : List UInt8} {r : Reader} {s ln fuel : Nat} (hw : Win inp r)
    (he : Eof inp r) (hs : ScanSt inp r s) (hst : r.state = .parsing) (hbyte : r.byte = s)
    (hline : r.line = ln) (hgt : (inp.drop s).head? = some GT) (hrs : RecStart inp s)
    (hfuel : inp.length < fuel) :
    ∃ r' res new, nextCont fuel r = (r', res) ∧ Growth r r' new ∧
      (∀ e ∈ new, e.1 < recExtent inp s + 1) ∧
      ((res = .ok true ∧ (∀ e ∈ new, e.2 ≠ none) ∧
          ∃ o rest, specFrom inp s ln = o :: rest ∧ observe r' res = o ∧ InvR inp r' rest) ∨
       Refused r res new) := by
  obtain ⟨r', new, hg, hun, hcase⟩ := nextCont_spec hw he hs hst hfuel
  rcases hcase with ⟨hnc, hsome, hw', he', hd, hl', hb', hst'⟩ | ⟨hnc, hlast, href⟩
  · obtain ⟨o, rest, hspec, hobs, hinv⟩ :=
      rec_done_obs hw' he' hd (by rw [hl', hline]) (by rw [hb', hbyte]) hst' hgt hrs
    exact ⟨r', .ok true, new, hnc, hg, hun, Or.inl ⟨rfl, hsome, o, rest, hspec, hobs, hinv⟩⟩
  · exact ⟨r', _, new, hnc, hg, hun, Or.inr ⟨rfl, hlast, href⟩⟩

theorem specObs_of_skip (inp : List UInt8) (s ln : Nat) (c : UInt8) (l : List UInt8)
    (ls : List (List UInt8))
    (hskip : skipBlank (lines inp) 0 1 = (lines (inp.drop s), s, ln))
    (hl : lines (inp.drop s) = l :: ls) (hc : l.head? = some c) :
    specObs inp = if c = GT then specFrom inp s ln else [.error (.invalidStart ln c)] := by
  unfold specObs Spec.fasta
  rw [hskip, hl]
  simp only [hc]
  by_cases h : c = GT
  · simp only [h, if_true, specFrom, hl]
    rfl
  · simp only [h, if_false]

theorem specObs_of_skip_nil (inp : List UInt8) (h : (skipBlank (lines inp) 0 1).1 = []) :
    specObs inp = [] := by
  unfold specObs Spec.fasta
  rcases hx : skipBlank (lines inp) 0 1 with ⟨ls, b, l⟩
  rw [hx] at h
  simp only at h
  subst h
  rfl

/-! ## one `next` call -/

/-- the state after `increment_record` -/
def incRec (r : Reader) : Reader :=
  { r with line := r.line + r.bp.seqPos.length, byte := r.byte + (r.searchPos - r.bp.start),
           bp := { start := r.searchPos, seqPos := [] } }

/-- the state after a successful `init`, in state `parsing` -/
def initRec (r1 : Reader) (ln pos : Nat) : Reader :=
  { r1 with bp := { r1.bp with start := pos }, byte := r1.byte + pos, line := ln,
            searchPos := pos + 1, state := .parsing }

theorem next_finished (fuel : Nat) (r : Reader) (h : r.state = .finished) :
    next fuel r = (r, .ok false) := by
  simp only [next, h]

theorem next_parsing (fuel : Nat) (r : Reader) (h : r.state = .parsing)
    (hle : r.bp.start ≤ r.searchPos) :
    next fuel r = nextCont fuel (incRec r) := by
  simp only [next, h, incrementRecord, csub, hle, if_true, incRec]

theorem next_new_none (fuel : Nat) (r r1 : Reader) (h : r.state = .new)
    (hf : firstByte fuel r = (r1, .ok none)) :
    next fuel r = ({ r1 with state := .finished }, .ok false) := by
  simp only [next, h, init, hf]

theorem next_new_gt (fuel : Nat) (r r1 : Reader) (ln pos : Nat) (h : r.state = .new)
    (hf : firstByte fuel r = (r1, .ok (some (ln, pos, GT)))) :
    next fuel r = nextCont fuel (initRec r1 ln pos) := by
  simp only [next, h, init, hf, if_true, initRec]

theorem next_new_other (fuel : Nat) (r r1 : Reader) (ln pos : Nat) (c : UInt8) (h : r.state = .new)
    (hc : c ≠ GT) (hf : firstByte fuel r = (r1, .ok (some (ln, pos, c)))) :
    next fuel r = ({ r1 with state := .finished }, .err (.invalidStart ln c)) := by
  simp only [next, h, init, hf, hc, if_false]

/-- the regular outcome of a `next` call: the result is what S prescribes next (`None` once S's
stream is exhausted), and the invariant holds again -/
def Good (inp : List UInt8) (rest : List Obs) (r' : Reader) (res : Res Bool)
    (new : List (Nat × Option Nat)) : Prop :=
  ((∃ b, res = .ok b) ∨ (∃ ln c, res = .err (.invalidStart ln c))) ∧
  (∀ e ∈ new, e.2 ≠ none) ∧
  observe r' res = rest.headD .none ∧ InvR inp r' rest.tail

/-- the unfitting record that caused the policy requests of a call -/
def Unfit (inp : List UInt8) (new : List (Nat × Option Nat)) : Prop :=
  new ≠ [] → ∃ s, RecStart inp s ∧ ∀ e ∈ new, e.1 < recExtent inp s + 1

/-- complete description of one `next` call from a state satisfying the invariant -/
theorem next_step {inp : List UInt8} {r : Reader} {rest : List Obs} {fuel : Nat}
    (h : InvR inp r rest) (hfuel : inp.length < fuel) :
    ∃ r' res new, next fuel r = (r', res) ∧ Growth r r' new ∧ Unfit inp new ∧
      (Good inp rest r' res new ∨ Refused r res new) := by
  have hnil : ∀ e ∈ ([] : List (Nat × Option Nat)), e.2 ≠ none := by intro e he; cases he
  cases h with
  | finished hw hst =>
    exact ⟨r, .ok false, [], next_finished fuel r hst, Growth.same rfl rfl rfl,
      (fun h => absurd rfl h), Or.inl ⟨Or.inl ⟨_, rfl⟩, hnil, rfl, InvR.finished r hw hst⟩⟩
  | parsing hw he hst hsl hsple hbyte hgt hrs =>
    rw [next_parsing fuel r hst hsl]
    have hs1 : ScanSt inp (incRec r) (r.searchPos + base r) :=
      ⟨rfl, Nat.le_refl _, hsple, (by intro p hp; cases hp), rfl⟩
    obtain ⟨r', res, new, hnc, hg, hun, hcase⟩ :=
      rec_step (r := incRec r) (ln := r.line + r.bp.seqPos.length) ⟨hw.b, hw.pol⟩ he hs1 hst
        (by show r.byte + (r.searchPos - r.bp.start) = r.searchPos + base r; omega) rfl hgt hrs hfuel
    refine ⟨r', res, new, hnc, ⟨hg.log, hg.polf, hg.chain⟩, fun _ => ⟨_, hrs, hun⟩, ?_⟩
    rcases hcase with ⟨hres, hsome, o, rest', hspec, hobs, hinv⟩ | href
    · left
      refine ⟨Or.inl ⟨_, hres⟩, hsome, ?_, ?_⟩
      · rw [hspec]; exact hobs
      · rw [hspec]; exact hinv
    · exact Or.inr href
  | new hfb hst hsq =>
    have hcl := hfb.win.b.cur_le
    obtain ⟨r1, res, hfirst, hw1, hbp1, hsp1, hst1, hlog1, hpol1, hcap1, hpost⟩ :=
      firstByte_spec fuel r hfb (by omega)
    cases res with
    | none =>
      rw [next_new_none fuel r r1 hst hfirst]
      refine ⟨{ r1 with state := .finished }, .ok false, [], rfl,
        Growth.same hlog1 (by show r1.pol.f = r.pol.f; rw [hpol1]) hcap1, (fun h => absurd rfl h),
        Or.inl ⟨Or.inl ⟨_, rfl⟩, hnil, ?_, ?_⟩⟩
      · rw [specObs_of_skip_nil inp hpost]; rfl
      · rw [specObs_of_skip_nil inp hpost]
        exact InvR.finished _ ⟨hw1.b, hw1.pol⟩ rfl
    | some x =>
      obtain ⟨ln, pos, c⟩ := x
      obtain ⟨he1, hbyte1, hpos, hhead, hskip, l, ls, hl, hc⟩ := hpost
      have hso := specObs_of_skip inp _ ln c l ls hskip hl hc
      by_cases hgt : c = GT
      · subst hgt
        rw [if_pos rfl] at hso
        rw [next_new_gt fuel r r1 ln pos hst hfirst]
        have hrs : RecStart inp (pos + base r1) := RecStart.first (by rw [hskip, hl]) hc
        have hs2 : ScanSt inp (initRec r1 ln pos) (pos + base r1) := by
          refine ⟨rfl, Nat.le_succ _, hpos, ?_, ?_⟩
          · intro p hp
            replace hp : p ∈ r1.bp.seqPos := hp
            rw [hbp1, hsq] at hp
            cases hp
          · show scan (inp.drop (pos + 1 + base r1)) (pos + 1 + base r1)
              (r1.bp.seqPos.map (· + base r1)) = _
            rw [hbp1, hsq, List.map_nil, ← scan_skip_gt _ _ hhead, List.drop_drop]
            have e : pos + base r1 + 1 = pos + 1 + base r1 := by omega
            rw [e]
        obtain ⟨r', res, new, hnc, hg, hun, hcase⟩ :=
          rec_step (r := initRec r1 ln pos) (ln := ln) ⟨hw1.b, hw1.pol⟩ he1 hs2 rfl
            (by show r1.byte + pos = pos + base r1; omega) rfl hhead hrs hfuel
        have hg' : Growth r r' new := by
          refine ⟨?_, ?_, ?_⟩
          · rw [hg.log]; show r1.log ++ new = _; rw [hlog1]
          · rw [hg.polf]; show r1.pol.f = _; rw [hpol1]
          · have := hg.chain
            rw [← hcap1]; exact this
        refine ⟨r', res, new, hnc, hg', fun _ => ⟨_, hrs, hun⟩, ?_⟩
        rcases hcase with ⟨hres, hsome, o, rest', hspec, hobs, hinv⟩ | ⟨hres, hlast, hh, hc', hc1, hrf⟩
        · left
          refine ⟨Or.inl ⟨_, hres⟩, hsome, ?_, ?_⟩
          · rw [hso, hspec]; exact hobs
          · rw [hso, hspec]; exact hinv
        · right
          refine ⟨hres, hlast, hh, hc', hc1, ?_⟩
          rw [← hpol1]; exact hrf
      · rw [if_neg hgt] at hso
        rw [next_new_other fuel r r1 ln pos c hst hgt hfirst]
        refine ⟨{ r1 with state := .finished }, .err (.invalidStart ln c), [], rfl,
          Growth.same hlog1 (by show r1.pol.f = r.pol.f; rw [hpol1]) hcap1, (fun h => absurd rfl h),
          Or.inl ⟨Or.inr ⟨_, _, rfl⟩, hnil, ?_, ?_⟩⟩
        · rw [hso]; rfl
        · rw [hso]; exact InvR.finished _ ⟨hw1.b, hw1.pol⟩ rfl

theorem Refused.not_grows {r : Reader} {res : Res Bool} {new : List (Nat × Option Nat)}
    (h : Refused r res new) : ¬ PolGrows r.pol := by
  obtain ⟨_, _, hist, c, hc, hf⟩ := h
  intro hg
  obtain ⟨n, hn, _⟩ := hg hist c hc
  rw [hf] at hn
  cases hn

theorem Good.not_refused {inp : List UInt8} {rest : List Obs} {r r' : Reader} {res : Res Bool}
    {new : List (Nat × Option Nat)} (h : Good inp rest r' res new) : ¬ Refused r res new := by
  intro ⟨hres, _, _⟩
  rcases h.1 with ⟨b, hb⟩ | ⟨ln, c, hc⟩
  · rw [hb] at hres; cases hres
  · rw [hc] at hres; cases hres

/-! ## M2: the invariant is preserved; no panic; the fuel suffices -/

theorem opFuel_gt (n m : Nat) : n < opFuel n m := by
  unfold opFuel; omega

/-- the only results of `next` from a state satisfying the (weak) invariant: `Some(Ok(record))`,
`None`, `Some(Err(InvalidStart))`, or `Some(Err(BufferLimit))` -/
theorem invW_next_result {inp : List UInt8} {r : Reader} {fuel : Nat} (h : InvW inp r)
    (hfuel : inp.length < fuel) :
    (∃ b, (next fuel r).2 = .ok b) ∨ (∃ ln c, (next fuel r).2 = .err (.invalidStart ln c)) ∨
      (next fuel r).2 = .err .bufferLimit := by
  obtain ⟨rest, h⟩ := h
  obtain ⟨r', res, new, hn, _, _, hcase⟩ := next_step h hfuel
  rw [hn]
  rcases hcase with hgood | href
  · rcases hgood.1 with h | h
    · exact Or.inl h
    · exact Or.inr (Or.inl h)
  · exact Or.inr (Or.inr href.1)

theorem invW_no_panic {inp : List UInt8} {r : Reader} {fuel : Nat} (h : InvW inp r)
    (hfuel : inp.length < fuel) : (next fuel r).2 ≠ .panic := by
  rcases invW_next_result h hfuel with ⟨b, hb⟩ | ⟨ln, c, hc⟩ | hc
  · rw [hb]; intro h'; cases h'
  · rw [hc]; intro h'; cases h'
  · rw [hc]; intro h'; cases h'

theorem invW_fuel_enough {inp : List UInt8} {r : Reader} {fuel : Nat} (h : InvW inp r)
    (hfuel : inp.length < fuel) : (next fuel r).2 ≠ .fuel := by
  rcases invW_next_result h hfuel with ⟨b, hb⟩ | ⟨ln, c, hc⟩ | hc
  · rw [hb]; intro h'; cases h'
  · rw [hc]; intro h'; cases h'
  · rw [hc]; intro h'; cases h'

/-- the weak invariant is preserved by every call that does not report `BufferLimit` -/
theorem invW_next_preserves {inp : List UInt8} {r : Reader} {fuel : Nat} (h : InvW inp r)
    (hfuel : inp.length < fuel) (hne : (next fuel r).2 ≠ .err .bufferLimit) :
    InvW inp (next fuel r).1 := by
  obtain ⟨rest, h⟩ := h
  obtain ⟨r', res, new, hn, _, _, hcase⟩ := next_step h hfuel
  rw [hn] at hne ⊢
  rcases hcase with hgood | href
  · exact ⟨_, hgood.2.2.2⟩
  · exact absurd href.1 hne

/-- with a policy that never refuses there is no `BufferLimit` -/
theorem no_bufferLimit {inp : List UInt8} {r : Reader} {fuel : Nat} (h : Inv inp r)
    (hfuel : inp.length < fuel) : (next fuel r).2 ≠ .err .bufferLimit := by
  obtain ⟨⟨rest, h⟩, hpol⟩ := h
  obtain ⟨r', res, new, hn, _, _, hcase⟩ := next_step h hfuel
  rw [hn]
  rcases hcase with hgood | href
  · intro hres
    rcases hgood.1 with ⟨b, hb⟩ | ⟨ln, c, hc⟩
    · rw [hb] at hres; cases hres
    · rw [hc] at hres; cases hres
  · exact absurd hpol href.not_grows

theorem next_preserves_inv {inp : List UInt8} {r : Reader} {fuel : Nat} (h : Inv inp r)
    (hfuel : inp.length < fuel) : Inv inp (next fuel r).1 := by
  refine ⟨invW_next_preserves h.1 hfuel (no_bufferLimit h hfuel), ?_⟩
  obtain ⟨⟨rest, h⟩, hpol⟩ := h
  obtain ⟨r', res, new, hn, hg, _, _⟩ := next_step h hfuel
  rw [hn]
  exact polGrows_congr hg.polf hpol

theorem no_panic {inp : List UInt8} {r : Reader} {fuel : Nat} (h : Inv inp r)
    (hfuel : inp.length < fuel) : (next fuel r).2 ≠ .panic := invW_no_panic h.1 hfuel

theorem fuel_enough {inp : List UInt8} {r : Reader} {fuel : Nat} (h : Inv inp r)
    (hfuel : inp.length < fuel) : (next fuel r).2 ≠ .fuel := invW_fuel_enough h.1 hfuel

/-- the only results of `next` with a policy that never refuses: `Some(Ok(record))`, `None`, or
`Some(Err(InvalidStart))` -/
theorem next_result {inp : List UInt8} {r : Reader} {fuel : Nat} (h : Inv inp r)
    (hfuel : inp.length < fuel) :
    (∃ b, (next fuel r).2 = .ok b) ∨ (∃ ln c, (next fuel r).2 = .err (.invalidStart ln c)) := by
  rcases invW_next_result h.1 hfuel with h1 | h1 | h1
  · exact Or.inl h1
  · exact Or.inr h1
  · exact absurd h1 (no_bufferLimit h hfuel)

theorem mem_specFrom_record {inp : List UInt8} {s ln : Nat} {o : Obs} (h : o ∈ specFrom inp s ln) :
    o ≠ .panic ∧ o ≠ .fuel := by
  unfold specFrom at h
  simp only [List.mem_map] at h
  obtain ⟨_, _, rfl⟩ := h
  exact ⟨(by intro h'; cases h'), (by intro h'; cases h')⟩

theorem mem_specObs_ne {inp : List UInt8} {o : Obs} (ho : o ∈ specObs inp) :
    o ≠ .panic ∧ o ≠ .fuel := by
  unfold specObs at ho
  split at ho
  · simp only [List.mem_map] at ho
    obtain ⟨_, _, rfl⟩ := ho
    exact ⟨(by intro h'; cases h'), (by intro h'; cases h')⟩
  · simp only [List.mem_singleton] at ho
    subst ho
    exact ⟨(by intro h'; cases h'), (by intro h'; cases h')⟩

theorem headD_ne {rest : List Obs} (h : ∀ o ∈ rest, o ≠ .panic ∧ o ≠ .fuel) :
    rest.headD .none ≠ .panic ∧ rest.headD .none ≠ .fuel := by
  cases rest with
  | nil => exact ⟨(by intro h'; cases h'), (by intro h'; cases h')⟩
  | cons o _ => exact h o (by simp)

/-- the views of a returned record never panic either -/
theorem invW_observe_no_panic {inp : List UInt8} {r : Reader} {fuel : Nat} (h : InvW inp r)
    (hfuel : inp.length < fuel) :
    observe (next fuel r).1 (next fuel r).2 ≠ .panic ∧ observe (next fuel r).1 (next fuel r).2 ≠ .fuel := by
  obtain ⟨rest, h⟩ := h
  have hrest : ∀ o ∈ rest, o ≠ .panic ∧ o ≠ .fuel := by
    cases h with
    | finished hw hst => intro o ho; cases ho
    | new hfb hst hsq => intro o ho; exact mem_specObs_ne ho
    | parsing hw he hst hsl hsple hbyte hgt => intro o ho; exact mem_specFrom_record ho
  obtain ⟨r', res, new, hn, _, _, hcase⟩ := next_step h hfuel
  rw [hn]
  rcases hcase with hgood | href
  · rw [hgood.2.2.1]; exact headD_ne hrest
  · rw [href.1]; exact ⟨(by intro h'; cases h'), (by intro h'; cases h')⟩

theorem observe_no_panic {inp : List UInt8} {r : Reader} {fuel : Nat} (h : Inv inp r)
    (hfuel : inp.length < fuel) :
    observe (next fuel r).1 (next fuel r).2 ≠ .panic ∧ observe (next fuel r).1 (next fuel r).2 ≠ .fuel :=
  invW_observe_no_panic h.1 hfuel

theorem invR_mkReader (inp : List UInt8) (cap : Nat) (hcap : 3 ≤ cap) (pol : Pol)
    (hpol : PolWfPos pol) (script : List ReadEv) (hs : NoFail script) (chunk : Nat) :
    InvR inp (mkReader inp cap pol script chunk) (specObs inp) := by
  apply InvR.new
  · refine ⟨⟨⟨rfl, Nat.le_refl _, Nat.zero_le _, ?_, hcap, Nat.zero_le _, hs⟩, hpol⟩, rfl, Or.inl rfl, ?_⟩
    · simp [baseB, mkReader]
    · simp [base, baseB, mkReader]
  · rfl
  · rfl

theorem invW_mkReader (inp : List UInt8) (cap : Nat) (hcap : 3 ≤ cap) (pol : Pol)
    (hpol : PolWfPos pol) (script : List ReadEv) (hs : NoFail script) (chunk : Nat) :
    InvW inp (mkReader inp cap pol script chunk) :=
  ⟨_, invR_mkReader inp cap hcap pol hpol script hs chunk⟩

theorem inv_mkReader (inp : List UInt8) (cap : Nat) (hcap : 3 ≤ cap) (pol : Pol)
    (hpol : PolGrows pol) (script : List ReadEv) (hs : NoFail script) (chunk : Nat) :
    Inv inp (mkReader inp cap pol script chunk) :=
  ⟨invW_mkReader inp cap hcap pol hpol.wfPos script hs chunk, hpol⟩

/-! ## M3: the stream theorems -/

theorem take_append_replicate_succ {α : Type} (l : List α) (x : α) (k : Nat) :
    (l ++ List.replicate (k + 1) x).take k = (l ++ List.replicate k x).take k := by
  rw [List.take_append, List.take_append, List.take_replicate, List.take_replicate]
  congr 2
  omega

theorem stream_succ (rest : List Obs) (k : Nat) :
    (rest ++ List.replicate (k + 1) Obs.none).take (k + 1) =
      rest.headD .none :: (rest.tail ++ List.replicate k Obs.none).take k := by
  cases rest with
  | nil => simp [List.replicate_succ]
  | cons o rest' =>
    simp only [List.cons_append, List.take_succ_cons, List.headD_cons, List.tail_cons]
    rw [take_append_replicate_succ]

theorem runNexts_succ (k : Nat) (r r' : Reader) (res : Res Bool)
    (h : next (opFuel r.br.src.inp.length r.br.src.script.length) r = (r', res)) :
    runNexts (k + 1) r = observe r' res :: runNexts k r' := by
  rw [runNexts]
  simp only [h]

theorem runNexts_spec {inp : List UInt8} : ∀ (k : Nat) (r : Reader) (rest : List Obs),
    InvR inp r rest → PolGrows r.pol →
    runNexts k r = (rest ++ List.replicate k Obs.none).take k := by
  intro k
  induction k with
  | zero => intro r rest _ _; rfl
  | succ k ih =>
    intro r rest h hpol
    have hinp : r.br.src.inp = inp := h.win.b.inp_eq
    obtain ⟨r', res, new, hn, hg, _, hcase⟩ :=
      next_step (fuel := opFuel r.br.src.inp.length r.br.src.script.length) h
        (by rw [hinp]; exact opFuel_gt _ _)
    rcases hcase with hgood | href
    · rw [runNexts_succ k r r' res hn, hgood.2.2.1, ih r' _ hgood.2.2.2 (polGrows_congr hg.polf hpol),
        stream_succ]
    · exact absurd hpol href.not_grows

/-- **M3** for policies that never refuse a request with a positive capacity: `k` consecutive
`next()` calls yield exactly S's records in order (or S's `InvalidStart` error), followed by
end-of-input forever. -/
theorem fasta_next_stream_polGrows (inp : List UInt8) (cap : Nat) (hcap : 3 ≤ cap) (pol : Pol)
    (hpol : PolGrows pol) (script : List ReadEv) (hs : NoFail script) (chunk : Nat) (k : Nat) :
    runNexts k (mkReader inp cap pol script chunk) =
      (specObs inp ++ List.replicate k Obs.none).take k :=
  runNexts_spec k _ _ (invR_mkReader inp cap hcap pol hpol.wfPos script hs chunk) hpol

/-- the theorem for the built-in `StdPolicy` -/
theorem fasta_next_stream_std (inp : List UInt8) (cap : Nat) (hcap : 3 ≤ cap)
    (script : List ReadEv) (hs : NoFail script) (chunk : Nat) (k : Nat) :
    runNexts k (mkReader inp cap PolDesc.std.toPol script chunk) =
      (specObs inp ++ List.replicate k Obs.none).take k :=
  fasta_next_stream_polGrows inp cap hcap _ polGrows_std script hs chunk k

/-- the theorem for the built-in `DoubleUntil(t)`, `t ≥ 1` -/
theorem fasta_next_stream_doubleUntil (inp : List UInt8) (cap : Nat) (hcap : 3 ≤ cap) (t : Nat)
    (ht : 1 ≤ t) (script : List ReadEv) (hs : NoFail script) (chunk : Nat) (k : Nat) :
    runNexts k (mkReader inp cap (PolDesc.doubleUntil t).toPol script chunk) =
      (specObs inp ++ List.replicate k Obs.none).take k :=
  fasta_next_stream_polGrows inp cap hcap _ (polGrows_doubleUntil t ht) script hs chunk k

/-- **M3** as first stated (`PolOk` is stronger than `PolGrows`) -/
theorem fasta_next_stream (inp : List UInt8) (cap : Nat) (hcap : 3 ≤ cap) (pol : Pol)
    (hpol : PolOk pol) (script : List ReadEv) (hs : NoFail script) (chunk : Nat) (k : Nat) :
    runNexts k (mkReader inp cap pol script chunk) =
      (specObs inp ++ List.replicate k Obs.none).take k :=
  fasta_next_stream_polGrows inp cap hcap pol (PolOk.grows hpol) script hs chunk k

/-- **M1.** the special case of an ideal source and a buffer that holds the whole input -/
theorem fasta_next_stream_single_buffer (inp : List UInt8) (cap : Nat) (hcap : 3 ≤ cap)
    (_hlen : inp.length < cap) (pol : Pol) (hpol : PolOk pol) (k : Nat) :
    runNexts k (mkReader inp cap pol [] 0) =
      (specObs inp ++ List.replicate k Obs.none).take k :=
  fasta_next_stream inp cap hcap pol hpol [] noFail_nil 0 k

/-- with a policy that may refuse: up to the first `BufferLimit` the observations are exactly S's
stream (no panic, no fuel exhaustion), and the only possible deviation is `BufferLimit` -/
theorem runNexts_refusing {inp : List UInt8} : ∀ (k : Nat) (r : Reader) (rest : List Obs),
    InvR inp r rest →
    ∃ j, j ≤ k ∧ (runNexts k r).take j = ((rest ++ List.replicate k Obs.none).take k).take j ∧
      (j < k → (runNexts k r)[j]? = some (Obs.error .bufferLimit)) := by
  intro k
  induction k with
  | zero => intro r rest _; exact ⟨0, Nat.le_refl _, rfl, fun h => absurd h (Nat.lt_irrefl _)⟩
  | succ k ih =>
    intro r rest h
    have hinp : r.br.src.inp = inp := h.win.b.inp_eq
    obtain ⟨r', res, new, hn, hg, _, hcase⟩ :=
      next_step (fuel := opFuel r.br.src.inp.length r.br.src.script.length) h
        (by rw [hinp]; exact opFuel_gt _ _)
    rw [runNexts_succ k r r' res hn]
    rcases hcase with hgood | href
    · obtain ⟨j, hj, htake, hlim⟩ := ih r' _ hgood.2.2.2
      refine ⟨j + 1, by omega, ?_, ?_⟩
      · rw [stream_succ, List.take_succ_cons, List.take_succ_cons, htake, hgood.2.2.1]
      · intro hlt
        rw [List.getElem?_cons_succ]
        exact hlim (by omega)
    · refine ⟨0, Nat.zero_le _, rfl, fun _ => ?_⟩
      rw [href.1]
      rfl

/-- **C06/C09.** policies that may refuse but answer more than they are passed when they answer -/
theorem fasta_next_stream_refusing (inp : List UInt8) (cap : Nat) (hcap : 3 ≤ cap) (pol : Pol)
    (hpol : PolWfPos pol) (script : List ReadEv) (hs : NoFail script) (chunk : Nat) (k : Nat) :
    ∃ j, j ≤ k ∧
      (runNexts k (mkReader inp cap pol script chunk)).take j =
        ((specObs inp ++ List.replicate k Obs.none).take k).take j ∧
      (j < k → (runNexts k (mkReader inp cap pol script chunk))[j]? = some (Obs.error .bufferLimit)) :=
  runNexts_refusing k _ _ (invR_mkReader inp cap hcap pol hpol script hs chunk)

end SeqIo.Fasta
