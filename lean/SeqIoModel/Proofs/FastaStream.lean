import SeqIoModel.Proofs.FastaStreamInit
/-!
# FASTA stream theorem: `next()` calls of the buffered reader yield exactly what S prescribes

`fasta_next_stream`: for every input, capacity ≥ 3, growth policy that never refuses, read
script without failures and chunk limit, `k` consecutive `next()` calls of the concrete
machine give S's records (head, sequence lines, line number, byte offset) in order, or S's
`InvalidStart` error, followed by `None` forever.  No panic, `opFuel` suffices.
-/
open SeqIo SeqIo.FillProofs SeqIo.Spec

namespace SeqIo.Fasta

/-! ## record views of a window are views of the input -/

theorem segsFrom_shift (inp buf ext : List UInt8) (b : Nat) (hb : b ≤ inp.length)
    (hw : inp.drop b = buf ++ ext) (ps : List Nat) (a : Nat) (hp : ∀ p ∈ ps, p ≤ buf.length) :
    segsFrom buf a ps = segsFrom inp (a + b) (ps.map (· + b)) := by
  induction ps generalizing a with
  | nil => rfl
  | cons p ps ih =>
    simp only [segsFrom, List.map_cons]
    rw [slice_shift inp buf ext b hb hw a p (hp p (by simp)), ih (p + 1) (fun q hq => hp q (by simp [hq]))]
    have e : p + 1 + b = p + b + 1 := by omega
    rw [e]

theorem head_shift (inp buf ext : List UInt8) (b : Nat) (hb : b ≤ inp.length)
    (hw : inp.drop b = buf ++ ext) (bp : BufPos) (hp : ∀ p ∈ bp.seqPos, p ≤ buf.length) :
    head buf bp = head inp ⟨bp.start + b, bp.seqPos.map (· + b)⟩ := by
  rcases bp with ⟨st, ps⟩
  cases ps with
  | nil => rfl
  | cons p ps =>
    simp only [head_cons, List.map_cons]
    rw [slice_shift inp buf ext b hb hw (st + 1) p (hp p (by simp))]
    have e : st + 1 + b = st + b + 1 := by omega
    rw [e]

theorem seqLines_shift (inp buf ext : List UInt8) (b : Nat) (hb : b ≤ inp.length)
    (hw : inp.drop b = buf ++ ext) (bp : BufPos) (hp : ∀ p ∈ bp.seqPos, p ≤ buf.length) :
    seqLines buf bp = seqLines inp ⟨bp.start + b, bp.seqPos.map (· + b)⟩ := by
  rcases bp with ⟨st, ps⟩
  cases ps with
  | nil => rfl
  | cons p ps =>
    simp only [seqLines_cons, List.map_cons]
    rw [segsFrom_shift inp buf ext b hb hw ps (p + 1) (fun q hq => hp q (by simp [hq]))]
    have e : p + 1 + b = p + b + 1 := by omega
    rw [e]

/-! ## the invariant between `next` calls -/

/-- `InvR inp r rest`: `r` is a state between `next` calls on input `inp`, and `rest` is what
S still prescribes for the calls to come. -/
inductive InvR (inp : List UInt8) : Reader → List Obs → Prop
  | new (r : Reader) : FB inp r → r.state = .new → r.bp.seqPos = [] → InvR inp r (specObs inp)
  | parsing (r : Reader) : Win inp r → Eof inp r → r.state = .parsing →
      r.bp.start ≤ r.searchPos → r.searchPos ≤ r.br.buf.length →
      r.byte = r.bp.start + base r →
      (inp.drop (r.searchPos + base r)).head? = some GT →
      InvR inp r (specFrom inp (r.searchPos + base r) (r.line + r.bp.seqPos.length))
  | finished (r : Reader) : Win inp r → r.state = .finished → InvR inp r []

/-- states reachable by `next` calls -/
def Inv (inp : List UInt8) (r : Reader) : Prop := ∃ rest, InvR inp r rest

theorem InvR.win {inp : List UInt8} {r : Reader} {rest : List Obs} (h : InvR inp r rest) :
    Win inp r := by
  cases h with
  | new h _ _ => exact h.win
  | parsing h => exact h
  | finished h => exact h

theorem scan_skip_gt (l : List UInt8) (s : Nat) (h : l.head? = some GT) :
    scan (l.drop 1) (s + 1) [] = scan l s [] := by
  match l, h with
  | [b], h =>
    simp only [List.head?_cons, Option.some.injEq] at h
    subst h
    simp [scan, GT, LF]
  | b :: c :: rest, h =>
    simp only [List.head?_cons, Option.some.injEq] at h
    subst h
    rw [scan.eq_3]
    simp [GT, LF]

/-- from a record start: `nextCont` finds the record S prescribes -/
theorem rec_step {inp : List UInt8} {r : Reader} {s ln fuel : Nat} (hw : Win inp r)
    (he : Eof inp r) (hs : ScanSt inp r s) (hst : r.state = .parsing) (hbyte : r.byte = s)
    (hline : r.line = ln) (hgt : (inp.drop s).head? = some GT) (hfuel : inp.length < fuel) :
    ∃ r' o rest, nextCont fuel r = (r', .ok true) ∧ specFrom inp s ln = o :: rest ∧
      observe r' (.ok true) = o ∧ InvR inp r' rest := by
  obtain ⟨r', hnc, hw', he', hd, hl', hb', hst'⟩ := nextCont_spec hw he hs hst hfuel
  obtain ⟨H, SL, hH, hSL, hspec, hnext⟩ := rec_spec inp s ln hgt
  have hble := hw'.b.base_le
  have hbp : (⟨r'.bp.start + base r', r'.bp.seqPos.map (· + base r')⟩ : BufPos) =
      ⟨s, finalPos (scan (inp.drop s) s [])⟩ := by
    rw [hd.start_eq, hd.fin]
  have hhead : head r'.br.buf r'.bp = some H := by
    rw [head_shift inp r'.br.buf _ (base r') hble hw'.b.win r'.bp hd.pos_le, hbp, hH]
  have hseq : allSome (seqLines r'.br.buf r'.bp) = some SL := by
    rw [seqLines_shift inp r'.br.buf _ (base r') hble hw'.b.win r'.bp hd.pos_le, hbp, hSL]
  have hne : r'.bp.seqPos ≠ [] := by
    intro h
    unfold head at hhead
    rw [h] at hhead
    simp at hhead
  have hpos : position r' = some (ln, s) := by
    unfold position
    have : r'.bp.seqPos.isEmpty = false := by
      cases h : r'.bp.seqPos with
      | nil => exact absurd h hne
      | cons _ _ => rfl
    rw [this, hl', hb', hline, hbyte]
    rfl
  refine ⟨r', _, _, hnc, hspec, ?_, ?_⟩
  · simp only [observe, hhead, hseq, hpos]
  · have hlen : (finalPos (scan (inp.drop s) s [])).length = r'.bp.seqPos.length := by
      rw [← hd.fin, List.length_map]
    by_cases hf : (scan (inp.drop s) s []).1 = true
    · rw [if_pos hf]
      obtain ⟨hsp, hsl, hsple⟩ := hd.nxt hf
      have hnf : r'.state ≠ .finished := by
        intro h
        have := hd.st.mp h
        rw [hf] at this
        cases this
      have hpar : r'.state = .parsing := by
        rcases hst' with h | h
        · exact h
        · exact absurd h hnf
      have := InvR.parsing r' hw' he' hpar hsl hsple (by rw [hb', hbyte, hd.start_eq])
        (by rw [← hsp]; exact hnext hf)
      rw [← hsp, hl', hline, ← hlen] at this
      exact this
    · rw [if_neg hf]
      have hff : (scan (inp.drop s) s []).1 = false := by
        cases h : (scan (inp.drop s) s []).1 <;> simp_all
      exact InvR.finished r' hw' (hd.st.mpr hff)

theorem specObs_of_skip (inp : List UInt8) (s ln : Nat) (c : UInt8) (l : List UInt8)
    (ls : List (List UInt8))
    (hskip : skipBlank (lines inp) 0 1 = (lines (inp.drop s), s, ln))
    (hl : lines (inp.drop s) = l :: ls) (hc : l.head? = some c) :
    specObs inp = if c = GT then specFrom inp s ln else [.error (.invalidStart ln c)] := by
  unfold specObs Spec.fasta
  rw [hskip, hl]
  simp only [hc]
  by_cases h : c = GT
  · simp only [h, if_true, specFrom, hl]
    rfl
  · simp only [h, if_false]

theorem specObs_of_skip_nil (inp : List UInt8) (h : (skipBlank (lines inp) 0 1).1 = []) :
    specObs inp = [] := by
  unfold specObs Spec.fasta
  rcases hx : skipBlank (lines inp) 0 1 with ⟨ls, b, l⟩
  rw [hx] at h
  simp only at h
  subst h
  rfl

/-! ## one `next` call -/

/-- the state after `increment_record` -/
def incRec (r : Reader) : Reader :=
  { r with line := r.line + r.bp.seqPos.length, byte := r.byte + (r.searchPos - r.bp.start),
           bp := { start := r.searchPos, seqPos := [] } }

/-- the state after a successful `init`, in state `parsing` -/
def initRec (r1 : Reader) (ln pos : Nat) : Reader :=
  { r1 with bp := { r1.bp with start := pos }, byte := r1.byte + pos, line := ln,
            searchPos := pos + 1, state := .parsing }

theorem next_finished (fuel : Nat) (r : Reader) (h : r.state = .finished) :
    next fuel r = (r, .ok false) := by
  simp only [next, h]

theorem next_parsing (fuel : Nat) (r : Reader) (h : r.state = .parsing)
    (hle : r.bp.start ≤ r.searchPos) :
    next fuel r = nextCont fuel (incRec r) := by
  simp only [next, h, incrementRecord, csub, hle, if_true, incRec]

theorem next_new_none (fuel : Nat) (r r1 : Reader) (h : r.state = .new)
    (hf : firstByte fuel r = (r1, .ok none)) :
    next fuel r = ({ r1 with state := .finished }, .ok false) := by
  simp only [next, h, init, hf]

theorem next_new_gt (fuel : Nat) (r r1 : Reader) (ln pos : Nat) (h : r.state = .new)
    (hf : firstByte fuel r = (r1, .ok (some (ln, pos, GT)))) :
    next fuel r = nextCont fuel (initRec r1 ln pos) := by
  simp only [next, h, init, hf, if_true, initRec]

theorem next_new_other (fuel : Nat) (r r1 : Reader) (ln pos : Nat) (c : UInt8) (h : r.state = .new)
    (hc : c ≠ GT) (hf : firstByte fuel r = (r1, .ok (some (ln, pos, c)))) :
    next fuel r = ({ r1 with state := .finished }, .err (.invalidStart ln c)) := by
  simp only [next, h, init, hf, hc, if_false]

theorem next_step {inp : List UInt8} {r : Reader} {rest : List Obs} {fuel : Nat}
    (h : InvR inp r rest) (hfuel : inp.length < fuel) :
    ∃ r' res, next fuel r = (r', res) ∧
      ((∃ b, res = .ok b) ∨ (∃ ln c, res = .err (.invalidStart ln c))) ∧
      ((rest = [] ∧ observe r' res = .none ∧ InvR inp r' []) ∨
       (∃ o rest', rest = o :: rest' ∧ observe r' res = o ∧ InvR inp r' rest')) := by
  cases h with
  | finished hw hst =>
    exact ⟨r, .ok false, next_finished fuel r hst, Or.inl ⟨_, rfl⟩,
      Or.inl ⟨rfl, rfl, InvR.finished r hw hst⟩⟩
  | parsing hw he hst hsl hsple hbyte hgt =>
    rw [next_parsing fuel r hst hsl]
    have hs1 : ScanSt inp (incRec r) (r.searchPos + base r) :=
      ⟨rfl, Nat.le_refl _, hsple, (by intro p hp; cases hp), rfl⟩
    obtain ⟨r', o, rest', hnc, hspec, hobs, hinv⟩ :=
      rec_step (r := incRec r) (ln := r.line + r.bp.seqPos.length) ⟨hw.b, hw.pol⟩ he hs1 hst
        (by show r.byte + (r.searchPos - r.bp.start) = r.searchPos + base r; omega) rfl hgt hfuel
    exact ⟨r', .ok true, hnc, Or.inl ⟨_, rfl⟩, Or.inr ⟨o, rest', hspec, hobs, hinv⟩⟩
  | new hfb hst hsq =>
    have hcl := hfb.win.b.cur_le
    obtain ⟨r1, res, hfirst, hw1, hbp1, hsp1, hst1, hpost⟩ := firstByte_spec fuel r hfb (by omega)
    cases res with
    | none =>
      rw [next_new_none fuel r r1 hst hfirst]
      refine ⟨{ r1 with state := .finished }, .ok false, rfl, Or.inl ⟨_, rfl⟩, Or.inl ⟨?_, rfl, ?_⟩⟩
      · exact specObs_of_skip_nil inp hpost
      · exact InvR.finished _ ⟨hw1.b, hw1.pol⟩ rfl
    | some x =>
      obtain ⟨ln, pos, c⟩ := x
      obtain ⟨he1, hbyte1, hpos, hhead, hskip, l, ls, hl, hc⟩ := hpost
      have hso := specObs_of_skip inp _ ln c l ls hskip hl hc
      by_cases hgt : c = GT
      · subst hgt
        rw [if_pos rfl] at hso
        rw [next_new_gt fuel r r1 ln pos hst hfirst]
        have hs2 : ScanSt inp (initRec r1 ln pos) (pos + base r1) := by
          refine ⟨rfl, Nat.le_succ _, hpos, ?_, ?_⟩
          · intro p hp
            replace hp : p ∈ r1.bp.seqPos := hp
            rw [hbp1, hsq] at hp
            cases hp
          · show scan (inp.drop (pos + 1 + base r1)) (pos + 1 + base r1)
              (r1.bp.seqPos.map (· + base r1)) = _
            rw [hbp1, hsq, List.map_nil, ← scan_skip_gt _ _ hhead, List.drop_drop]
            have e : pos + base r1 + 1 = pos + 1 + base r1 := by omega
            rw [e]
        obtain ⟨r', o, rest', hnc, hspec, hobs, hinv⟩ :=
          rec_step (r := initRec r1 ln pos) (ln := ln) ⟨hw1.b, hw1.pol⟩ he1 hs2 rfl
            (by show r1.byte + pos = pos + base r1; omega) rfl hhead hfuel
        refine ⟨r', .ok true, hnc, Or.inl ⟨_, rfl⟩, Or.inr ⟨o, rest', ?_, hobs, hinv⟩⟩
        rw [hso, hspec]
      · rw [if_neg hgt] at hso
        rw [next_new_other fuel r r1 ln pos c hst hgt hfirst]
        exact ⟨{ r1 with state := .finished }, .err (.invalidStart ln c), rfl, Or.inr ⟨_, _, rfl⟩,
          Or.inr ⟨_, [], hso, rfl, InvR.finished _ ⟨hw1.b, hw1.pol⟩ rfl⟩⟩

/-! ## M2: the invariant is preserved; no panic; the fuel suffices -/

theorem opFuel_gt (n m : Nat) : n < opFuel n m := by
  unfold opFuel; omega

theorem next_preserves_inv {inp : List UInt8} {r : Reader} {fuel : Nat} (h : Inv inp r)
    (hfuel : inp.length < fuel) : Inv inp (next fuel r).1 := by
  obtain ⟨rest, h⟩ := h
  obtain ⟨r', res, hn, _, hcase⟩ := next_step h hfuel
  rw [hn]
  rcases hcase with ⟨_, _, hi⟩ | ⟨_, rest', _, _, hi⟩
  · exact ⟨[], hi⟩
  · exact ⟨rest', hi⟩

/-- the only results of `next` from a reachable state: `Some(Ok(record))`, `None`, or
`Some(Err(InvalidStart))` -/
theorem next_result {inp : List UInt8} {r : Reader} {fuel : Nat} (h : Inv inp r)
    (hfuel : inp.length < fuel) :
    (∃ b, (next fuel r).2 = .ok b) ∨ (∃ ln c, (next fuel r).2 = .err (.invalidStart ln c)) := by
  obtain ⟨rest, h⟩ := h
  obtain ⟨r', res, hn, hres, _⟩ := next_step h hfuel
  rw [hn]
  exact hres

theorem no_panic {inp : List UInt8} {r : Reader} {fuel : Nat} (h : Inv inp r)
    (hfuel : inp.length < fuel) : (next fuel r).2 ≠ .panic := by
  rcases next_result h hfuel with ⟨b, hb⟩ | ⟨ln, c, hc⟩
  · rw [hb]; intro h'; cases h'
  · rw [hc]; intro h'; cases h'

theorem fuel_enough {inp : List UInt8} {r : Reader} {fuel : Nat} (h : Inv inp r)
    (hfuel : inp.length < fuel) : (next fuel r).2 ≠ .fuel := by
  rcases next_result h hfuel with ⟨b, hb⟩ | ⟨ln, c, hc⟩
  · rw [hb]; intro h'; cases h'
  · rw [hc]; intro h'; cases h'

theorem no_bufferLimit {inp : List UInt8} {r : Reader} {fuel : Nat} (h : Inv inp r)
    (hfuel : inp.length < fuel) : (next fuel r).2 ≠ .err .bufferLimit := by
  rcases next_result h hfuel with ⟨b, hb⟩ | ⟨ln, c, hc⟩
  · rw [hb]; intro h'; cases h'
  · rw [hc]; intro h'; cases h'

/-- the views of a returned record never panic either -/
theorem observe_no_panic {inp : List UInt8} {r : Reader} {fuel : Nat} (h : Inv inp r)
    (hfuel : inp.length < fuel) :
    observe (next fuel r).1 (next fuel r).2 ≠ .panic ∧ observe (next fuel r).1 (next fuel r).2 ≠ .fuel := by
  obtain ⟨rest, h⟩ := h
  cases h with
  | finished hw hst =>
    rw [next_finished fuel r hst]
    exact ⟨(by intro h'; cases h'), (by intro h'; cases h')⟩
  | new hfb hst hsq =>
    obtain ⟨r', res, hn, _, hcase⟩ := next_step (InvR.new r hfb hst hsq) hfuel
    rw [hn]
    rcases hcase with ⟨_, hobs, _⟩ | ⟨o, rest', hrest, hobs, _⟩
    · rw [hobs]; exact ⟨(by intro h'; cases h'), (by intro h'; cases h')⟩
    · rw [hobs]
      have ho : o ∈ specObs inp := by rw [hrest]; simp
      unfold specObs at ho
      split at ho
      · simp only [List.mem_map] at ho
        obtain ⟨_, _, rfl⟩ := ho
        exact ⟨(by intro h'; cases h'), (by intro h'; cases h')⟩
      · simp only [List.mem_singleton] at ho
        subst ho
        exact ⟨(by intro h'; cases h'), (by intro h'; cases h')⟩
  | parsing hw he hst hsl hsple hbyte hgt =>
    obtain ⟨r', res, hn, _, hcase⟩ := next_step (InvR.parsing r hw he hst hsl hsple hbyte hgt) hfuel
    rw [hn]
    rcases hcase with ⟨_, hobs, _⟩ | ⟨o, rest', hrest, hobs, _⟩
    · rw [hobs]; exact ⟨(by intro h'; cases h'), (by intro h'; cases h')⟩
    · rw [hobs]
      have ho : o ∈ specFrom inp (r.searchPos + base r) (r.line + r.bp.seqPos.length) := by
        rw [hrest]; simp
      unfold specFrom at ho
      simp only [List.mem_map] at ho
      obtain ⟨_, _, rfl⟩ := ho
      exact ⟨(by intro h'; cases h'), (by intro h'; cases h')⟩

theorem inv_mkReader (inp : List UInt8) (cap : Nat) (hcap : 3 ≤ cap) (pol : Pol) (hpol : PolOk pol)
    (script : List ReadEv) (hs : NoFail script) (chunk : Nat) :
    Inv inp (mkReader inp cap pol script chunk) := by
  refine ⟨specObs inp, ?_⟩
  apply InvR.new
  · refine ⟨⟨⟨rfl, Nat.le_refl _, Nat.zero_le _, ?_, hcap, Nat.zero_le _, hs⟩, hpol⟩, rfl, Or.inl rfl, ?_⟩
    · simp [baseB, mkReader]
    · simp [base, baseB, mkReader]
  · rfl
  · rfl

/-! ## M3: the stream theorem -/

theorem take_append_replicate_succ {α : Type} (l : List α) (x : α) (k : Nat) :
    (l ++ List.replicate (k + 1) x).take k = (l ++ List.replicate k x).take k := by
  rw [List.take_append, List.take_append, List.take_replicate, List.take_replicate]
  congr 2
  omega

theorem runNexts_spec {inp : List UInt8} : ∀ (k : Nat) (r : Reader) (rest : List Obs),
    InvR inp r rest → runNexts k r = (rest ++ List.replicate k Obs.none).take k := by
  intro k
  induction k with
  | zero => intro r rest _; rfl
  | succ k ih =>
    intro r rest h
    have hinp : r.br.src.inp = inp := h.win.b.inp_eq
    obtain ⟨r', res, hn, _, hcase⟩ :=
      next_step (fuel := opFuel r.br.src.inp.length r.br.src.script.length) h
        (by rw [hinp]; exact opFuel_gt _ _)
    rw [runNexts]
    simp only [hn]
    rcases hcase with ⟨rfl, hobs, hi⟩ | ⟨o, rest', rfl, hobs, hi⟩
    · rw [hobs, ih r' [] hi]
      simp [List.replicate_succ]
    · rw [hobs, ih r' rest' hi]
      simp only [List.cons_append, List.take_succ_cons]
      rw [take_append_replicate_succ]

theorem invR_mkReader (inp : List UInt8) (cap : Nat) (hcap : 3 ≤ cap) (pol : Pol) (hpol : PolOk pol)
    (script : List ReadEv) (hs : NoFail script) (chunk : Nat) :
    InvR inp (mkReader inp cap pol script chunk) (specObs inp) := by
  apply InvR.new
  · refine ⟨⟨⟨rfl, Nat.le_refl _, Nat.zero_le _, ?_, hcap, Nat.zero_le _, hs⟩, hpol⟩, rfl, Or.inl rfl, ?_⟩
    · simp [baseB, mkReader]
    · simp [base, baseB, mkReader]
  · rfl
  · rfl

/-- **M3.** `k` consecutive `next()` calls yield exactly S's records in order (or S's
`InvalidStart` error), followed by end-of-input forever. -/
theorem fasta_next_stream (inp : List UInt8) (cap : Nat) (hcap : 3 ≤ cap) (pol : Pol)
    (hpol : PolOk pol) (script : List ReadEv) (hs : NoFail script) (chunk : Nat) (k : Nat) :
    runNexts k (mkReader inp cap pol script chunk) =
      (specObs inp ++ List.replicate k Obs.none).take k :=
  runNexts_spec k _ _ (invR_mkReader inp cap hcap pol hpol script hs chunk)

/-- **M1.** the special case of an ideal source and a buffer that holds the whole input -/
theorem fasta_next_stream_single_buffer (inp : List UInt8) (cap : Nat) (hcap : 3 ≤ cap)
    (_hlen : inp.length < cap) (pol : Pol) (hpol : PolOk pol) (k : Nat) :
    runNexts k (mkReader inp cap pol [] 0) =
      (specObs inp ++ List.replicate k Obs.none).take k :=
  fasta_next_stream inp cap hcap pol hpol [] noFail_nil 0 k

end SeqIo.Fasta
