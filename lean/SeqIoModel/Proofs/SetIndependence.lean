import SeqIoModel.Model.History
import SeqIoModel.Model.HistoryFq
/-!
# A record-set read does not depend on what the set held before (P17, property C04)

`readRecordSetExact` (FASTA and FASTQ) is run on the same reader with two arbitrary record sets
`rs`, `rs'`.  The new reader state, the result and everything a caller can see of the set afterwards
coincide.
-/

namespace SeqIo.SetIndependence

/-! ## FASTA -/

namespace Fa
open SeqIo.Fasta

/-- the two sets show the same records: same count, same visible prefix (and the count is within the
stored positions, an invariant of every set that went through `npos := 0` and `store`). -/
structure Sim (rs rs' : RecordSet) : Prop where
  npos : rs.npos = rs'.npos
  le : rs.npos ≤ rs.positions.length
  le' : rs'.npos ≤ rs'.positions.length
  vis : rs.positions.take rs.npos = rs'.positions.take rs'.npos

theorem sim_zero (rs rs' : RecordSet) : Sim { rs with npos := 0 } { rs' with npos := 0 } :=
  ⟨rfl, Nat.zero_le _, Nat.zero_le _, by simp⟩

theorem store_le (rs : RecordSet) (bp : BufPos) (h : rs.npos ≤ rs.positions.length) :
    (rs.store bp).npos ≤ (rs.store bp).positions.length := by
  simp only [RecordSet.store]
  split <;> simp <;> omega

/-- `store` writes slot `npos` only: the visible prefix grows by exactly the stored position, whether
the slot is overwritten (`set`) or appended. -/
theorem store_take (rs : RecordSet) (bp : BufPos) (h : rs.npos ≤ rs.positions.length) :
    (rs.store bp).positions.take (rs.store bp).npos = rs.positions.take rs.npos ++ [bp] := by
  simp only [RecordSet.store]
  split
  · rename_i hlt
    apply List.ext_getElem?
    intro i
    simp only [List.getElem?_take, List.getElem?_set, List.getElem?_append, List.length_take]
    by_cases h1 : i < rs.npos
    · have h2 : ¬ rs.npos = i := by omega
      have h3 : i < rs.npos + 1 := by omega
      have h4 : i < min rs.npos rs.positions.length := by omega
      simp [h1, h2, h3, h4]
    · by_cases h2 : i = rs.npos
      · subst h2
        simp [hlt, Nat.min_eq_left h]
      · have h3 : ¬ i < rs.npos + 1 := by omega
        have h4 : ¬ i < min rs.npos rs.positions.length := by omega
        have h5 : i - min rs.npos rs.positions.length ≠ 0 := by omega
        simp [h3, h4, h5]
  · have he : rs.npos = rs.positions.length := by omega
    rw [he]
    rw [List.take_of_length_le (by simp), List.take_of_length_le (Nat.le_refl _)]

theorem store_sim (rs rs' : RecordSet) (bp : BufPos) (h : Sim rs rs') : Sim (rs.store bp) (rs'.store bp) :=
  ⟨by simp [RecordSet.store, h.npos], store_le rs bp h.le, store_le rs' bp h.le',
   by rw [store_take rs bp h.le, store_take rs' bp h.le', h.vis]⟩

theorem storeStep_eq (n : Option Nat) (r : Reader) (rs : RecordSet) :
    storeStep n r rs =
      match incrementRecord r with
      | none => none
      | some r' => some (r', rs.store r.bp, decide (n = some (rs.npos + 1))) := rfl

/-- `resume` never answers `None` -/
theorem resume_ne_ok_false : ∀ (f : Nat) (mk : Bool) (r : Reader), (resume f mk r).2 ≠ .ok false := by
  intro f
  induction f with
  | zero => intro mk r; simp [resume]
  | succ f ih =>
    intro mk r
    rw [resume]
    split
    · split
      · simp
      · split
        · simp
        · simp
        · exact ih _ _
    all_goals simp

/-- outcomes of the loop on two sets that show the same records -/
def Rel (a b : Reader × RecordSet × Res Bool) : Prop :=
  a.1 = b.1 ∧ a.2.2 = b.2.2 ∧ Sim a.2.1 b.2.1

theorem storeCont_rel (n : Option Nat) (r : Reader) (rs rs' : RecordSet) (h : Sim rs rs')
    (k : Reader → RecordSet → Reader × RecordSet × Res Bool)
    (hk : ∀ r s s', Sim s s' → Rel (k r s) (k r s')) :
    Rel (match storeStep n r rs with
          | none => (r, rs, .panic)
          | some (r, rs, true) => (r, rs, .ok true)
          | some (r, rs, false) => k r rs)
        (match storeStep n r rs' with
          | none => (r, rs', .panic)
          | some (r, rs, true) => (r, rs, .ok true)
          | some (r, rs, false) => k r rs) := by
  rw [storeStep_eq, storeStep_eq, ← h.npos]
  cases incrementRecord r with
  | none => exact ⟨rfl, rfl, h⟩
  | some r1 =>
    cases decide (n = some (rs.npos + 1)) with
    | true => exact ⟨rfl, rfl, store_sim _ _ _ h⟩
    | false => exact hk _ _ _ (store_sim _ _ _ h)

/-- the loop: equal readers, equal results, sets that show the same records -/
theorem setLoop_rel (fuel : Nat) (n : Option Nat) : ∀ (f : Nat) (isNew : Bool) (r : Reader)
    (rs rs' : RecordSet), Sim rs rs' →
    Rel (setLoop f fuel n isNew r rs) (setLoop f fuel n isNew r rs') := by
  intro f
  induction f with
  | zero => intro isNew r rs rs' h; exact ⟨rfl, rfl, h⟩
  | succ f ih =>
    intro isNew r rs rs' h
    rw [setLoop, setLoop]
    by_cases hfin : r.state = .finished
    · simp only [hfin, if_true]; exact ⟨rfl, rfl, h⟩
    · simp only [hfin, if_false]
      by_cases hinc : r.state = .incomplete
      · simp only [hinc, if_true]
        rcases resume fuel isNew r with ⟨r1, o⟩
        cases o with
        | ok b =>
          cases b with
          | true => exact storeCont_rel n _ rs rs' h _ (fun r s s' hs => ih isNew r s s' hs)
          | false => exact ⟨rfl, rfl, h⟩
        | err e => exact ⟨rfl, rfl, sim_zero _ _⟩
        | panic => exact ⟨rfl, rfl, h⟩
        | fuel => exact ⟨rfl, rfl, h⟩
      · simp only [hinc, if_false]
        cases search r with
        | none => exact ⟨rfl, rfl, h⟩
        | some x =>
          rcases x with ⟨r1, b⟩
          cases b with
          | true => exact storeCont_rel n _ rs rs' h _ (fun r s s' hs => ih isNew r s s' hs)
          | false =>
            simp only [← h.npos]
            by_cases h0 : rs.npos = 0
            · simp only [h0, if_true]; exact ih _ _ _ _ h
            · simp only [h0, if_false]
              cases n with
              | none => exact ⟨rfl, rfl, h⟩
              | some n' =>
                by_cases hlt : rs.npos < n'
                · simp only [hlt, if_true]; exact ih _ _ _ _ h
                · simp only [hlt, if_false]; exact ⟨rfl, rfl, h⟩

/-- one-sided facts about an outcome of the loop started on `rs`: the buffer of the set is not touched,
the loop never answers `None`, and after an error the set shows nothing -/
def Frame (rs : RecordSet) (a : Reader × RecordSet × Res Bool) : Prop :=
  a.2.1.buffer = rs.buffer ∧ a.2.2 ≠ .ok false ∧ ∀ e, a.2.2 = .err e → a.2.1.npos = 0

theorem Frame.trans {rs rs1 : RecordSet} {a : Reader × RecordSet × Res Bool} (hb : rs1.buffer = rs.buffer)
    (h : Frame rs1 a) : Frame rs a := ⟨h.1.trans hb, h.2.1, h.2.2⟩

theorem storeCont_frame (n : Option Nat) (r : Reader) (rs : RecordSet)
    (k : Reader → RecordSet → Reader × RecordSet × Res Bool)
    (hk : ∀ r s, Frame s (k r s)) :
    Frame rs (match storeStep n r rs with
          | none => (r, rs, .panic)
          | some (r, rs, true) => (r, rs, .ok true)
          | some (r, rs, false) => k r rs) := by
  rw [storeStep_eq]
  cases incrementRecord r with
  | none => exact ⟨rfl, by simp, by simp⟩
  | some r1 =>
    cases decide (n = some (rs.npos + 1)) with
    | true => exact ⟨rfl, by simp, by simp⟩
    | false => exact (hk r1 (rs.store r.bp)).trans rfl

theorem setLoop_frame (fuel : Nat) (n : Option Nat) : ∀ (f : Nat) (isNew : Bool) (r : Reader)
    (rs : RecordSet), Frame rs (setLoop f fuel n isNew r rs) := by
  intro f
  induction f with
  | zero => intro isNew r rs; exact ⟨rfl, by simp [setLoop], by simp [setLoop]⟩
  | succ f ih =>
    intro isNew r rs
    rw [setLoop]
    by_cases hfin : r.state = .finished
    · simp only [hfin, if_true]; exact ⟨rfl, by simp, by simp⟩
    · simp only [hfin, if_false]
      by_cases hinc : r.state = .incomplete
      · simp only [hinc, if_true]
        have hne := resume_ne_ok_false fuel isNew r
        generalize resume fuel isNew r = x at hne
        rcases x with ⟨r1, o⟩
        cases o with
        | ok b =>
          cases b with
          | true => exact storeCont_frame n _ rs _ (fun r s => ih isNew r s)
          | false => exact absurd rfl hne
        | err e => exact ⟨rfl, by simp, by simp⟩
        | panic => exact ⟨rfl, by simp, by simp⟩
        | fuel => exact ⟨rfl, by simp, by simp⟩
      · simp only [hinc, if_false]
        cases search r with
        | none => exact ⟨rfl, by simp, by simp⟩
        | some x =>
          rcases x with ⟨r1, b⟩
          cases b with
          | true => exact storeCont_frame n _ rs _ (fun r s => ih isNew r s)
          | false =>
            by_cases h0 : rs.npos = 0
            · simp only [h0, if_true]; exact ih _ _ _
            · simp only [h0, if_false]
              cases n with
              | none => exact ⟨rfl, by simp, by simp⟩
              | some n' =>
                by_cases hlt : rs.npos < n'
                · simp only [hlt, if_true]; exact ih _ _ _
                · simp only [hlt, if_false]; exact ⟨rfl, by simp, by simp⟩

/-- the stage of `read_record_set_exact` before `rset.npos = 0` -/
def pre (fuel : Nat) (r : Reader) : Reader × Res Bool :=
  match r.state with
  | .new =>
    match init fuel r with
    | (r, .ok true) => ({ r with state := .positioned }, .ok true)
    | x => x
  | .finished => (r, .ok false)
  | .parsing =>
    match incrementRecord r with
    | some r => ({ r with state := .positioned }, .ok true)
    | none => (r, .panic)
  | .positioned => (r, .ok true)
  | .incomplete => (r, .ok true)

/-- how `read_record_set_exact` is put together from the first stage and the loop -/
def assemble (p : Reader × Res Bool) (rs : RecordSet) (loop : Reader → Reader × RecordSet × Res Bool) :
    Reader × RecordSet × Res Bool :=
  match p with
  | (r, .ok true) =>
    match loop r with
    | (r, rs, .ok true) => (r, { rs with buffer := r.br.buf }, .ok true)
    | x => x
  | (r, .ok false) => (r, rs, .ok false)
  | (r, .err e) => (r, rs, .err e)
  | (r, .panic) => (r, rs, .panic)
  | (r, .fuel) => (r, rs, .fuel)

theorem readRecordSetExact_eq (fuel : Nat) (r : Reader) (rs : RecordSet) (n : Option Nat) :
    readRecordSetExact fuel r rs n =
      assemble (pre fuel r) rs (fun r0 => setLoop fuel fuel n true r0 { rs with npos := 0 }) := rfl

/-- an error of the stage before the loop can only be an error of `init` on a new reader -/
theorem pre_err (fuel : Nat) (r : Reader) (e : Err) (h : (pre fuel r).2 = .err e) :
    r.state = .new ∧ (init fuel r).2 = .err e := by
  unfold pre at h
  split at h
  · refine ⟨by assumption, ?_⟩
    split at h
    · simp at h
    · exact h
  · simp at h
  · split at h <;> simp at h
  · simp at h
  · simp at h

/-- the last step of a read whose loop ran: a successful read installs the reader's buffer -/
def finish (x : Reader × RecordSet × Res Bool) : Reader × RecordSet × Res Bool :=
  match x with
  | (r, rs, .ok true) => (r, { rs with buffer := r.br.buf }, .ok true)
  | x => x

theorem assemble_ok (r0 : Reader) (rs : RecordSet) (loop : Reader → Reader × RecordSet × Res Bool) :
    assemble (r0, .ok true) rs loop = finish (loop r0) := rfl

theorem assemble_cases (p : Reader × Res Bool) (rs rs' : RecordSet)
    (x y : Reader → Reader × RecordSet × Res Bool)
    (hrel : ∀ r0, Rel (x r0) (y r0)) (hfa : ∀ r0, Frame rs (x r0)) (hfb : ∀ r0, Frame rs' (y r0)) :
    (assemble p rs x).1 = (assemble p rs' y).1 ∧ (assemble p rs x).2.2 = (assemble p rs' y).2.2 ∧
    ((p.2 ≠ .ok true ∧ (assemble p rs x).2.2 = p.2 ∧ (assemble p rs x).2.1 = rs ∧ (assemble p rs' y).2.1 = rs') ∨
     (p.2 = .ok true ∧ (assemble p rs x).2.2 ≠ .ok false ∧ Sim (assemble p rs x).2.1 (assemble p rs' y).2.1 ∧
      ((assemble p rs x).2.2 = .ok true →
        (assemble p rs x).2.1.buffer = (assemble p rs x).1.br.buf ∧
        (assemble p rs' y).2.1.buffer = (assemble p rs x).1.br.buf) ∧
      ((assemble p rs x).2.2 ≠ .ok true →
        (assemble p rs x).2.1.buffer = rs.buffer ∧ (assemble p rs' y).2.1.buffer = rs'.buffer) ∧
      (∀ e, (assemble p rs x).2.2 = .err e → (assemble p rs x).2.1.npos = 0 ∧ (assemble p rs' y).2.1.npos = 0))) := by
  rcases p with ⟨r0, o⟩
  cases o with
  | ok b0 =>
    cases b0 with
    | false => exact ⟨rfl, rfl, .inl ⟨by simp, rfl, rfl, rfl⟩⟩
    | true =>
      have hrel := hrel r0
      have hfa := hfa r0
      have hfb := hfb r0
      rw [assemble_ok, assemble_ok]
      generalize x r0 = xa at hrel hfa
      generalize y r0 = ya at hrel hfb
      rcases xa with ⟨ra, sa, oa⟩
      rcases ya with ⟨rb, sb, ob⟩
      rcases hrel with ⟨h1, h2, h3⟩
      rcases hfa with ⟨ha1, ha2, ha3⟩
      rcases hfb with ⟨hb1, hb2, hb3⟩
      simp only at h1 h2 h3 ha1 ha2 ha3 hb1 hb2 hb3
      subst h1 h2
      cases oa with
      | ok b1 =>
        cases b1 with
        | true =>
          exact ⟨rfl, rfl, .inr ⟨rfl, by simp [finish], ⟨h3.npos, h3.le, h3.le', h3.vis⟩, fun _ => ⟨rfl, rfl⟩,
            fun h => absurd rfl h, fun e h => by simp [finish] at h⟩⟩
        | false => exact absurd rfl ha2
      | err e =>
        exact ⟨rfl, rfl, .inr ⟨rfl, by simp [finish], h3, fun h => by simp [finish] at h, fun _ => ⟨ha1, hb1⟩,
          fun e' h => ⟨ha3 e' h, hb3 e' h⟩⟩⟩
      | panic =>
        exact ⟨rfl, rfl, .inr ⟨rfl, by simp [finish], h3, fun h => by simp [finish] at h, fun _ => ⟨ha1, hb1⟩,
          fun e' h => by simp [finish] at h⟩⟩
      | fuel =>
        exact ⟨rfl, rfl, .inr ⟨rfl, by simp [finish], h3, fun h => by simp [finish] at h, fun _ => ⟨ha1, hb1⟩,
          fun e' h => by simp [finish] at h⟩⟩
  | err e => exact ⟨rfl, rfl, .inl ⟨by simp, rfl, rfl, rfl⟩⟩
  | panic => exact ⟨rfl, rfl, .inl ⟨by simp, rfl, rfl, rfl⟩⟩
  | fuel => exact ⟨rfl, rfl, .inl ⟨by simp, rfl, rfl, rfl⟩⟩

/-- **Everything** about the two reads, by the stage at which the read ended.

* Either the read ended before the set was touched (end of input, or a failure of `init` on a new
  reader): both sets are exactly what they were.
* Or the loop ran: the result is never `None`; both sets show the same records (`Sim`); after a
  successful read both carry the reader's buffer, otherwise each keeps its old buffer; after an error
  both show nothing. -/
theorem fasta_set_read_cases (fuel : Nat) (r : Reader) (rs rs' : RecordSet) (n : Option Nat) :
    let a := readRecordSetExact fuel r rs n
    let b := readRecordSetExact fuel r rs' n
    a.1 = b.1 ∧ a.2.2 = b.2.2 ∧
    (((pre fuel r).2 ≠ .ok true ∧ a.2.2 = (pre fuel r).2 ∧ a.2.1 = rs ∧ b.2.1 = rs') ∨
     ((pre fuel r).2 = .ok true ∧ a.2.2 ≠ .ok false ∧ Sim a.2.1 b.2.1 ∧
      (a.2.2 = .ok true → a.2.1.buffer = a.1.br.buf ∧ b.2.1.buffer = a.1.br.buf) ∧
      (a.2.2 ≠ .ok true → a.2.1.buffer = rs.buffer ∧ b.2.1.buffer = rs'.buffer) ∧
      (∀ e, a.2.2 = .err e → a.2.1.npos = 0 ∧ b.2.1.npos = 0))) := by
  intro a b
  exact assemble_cases (pre fuel r) rs rs' _ _
    (fun r0 => setLoop_rel fuel n fuel true r0 _ _ (sim_zero rs rs'))
    (fun r0 => (setLoop_frame fuel n fuel true r0 { rs with npos := 0 }).trans rfl)
    (fun r0 => (setLoop_frame fuel n fuel true r0 { rs' with npos := 0 }).trans rfl)

/-- sets that show the same records in the same buffer are observed identically -/
theorem obsDump_congr {s s' : RecordSet} (h : Sim s s') (hb : s.buffer = s'.buffer) :
    Hist.obsDump s = Hist.obsDump s' := by
  simp only [Hist.obsDump, h.vis, hb]

theorem obsDump_of_npos_zero (s : RecordSet) (h : s.npos = 0) : Hist.obsDump s = .dump [] := by
  simp [Hist.obsDump, h, allSome]

/-- **P17, FASTA.**  Same reader state and same result whatever the set held; after a successful read
the same visible records; after end of input both sets are exactly what they were; after an error
both sets show nothing – *unless* the error came from `init` of a new reader, which returns before
`rset.npos = 0`: then both sets are exactly what they were (see `fasta_error_clause_counterexample`). -/
theorem fasta_set_read_independent_of_old_set (fuel : Nat) (r : Reader) (rs rs' : RecordSet) (n : Option Nat) :
    let a := readRecordSetExact fuel r rs n
    let b := readRecordSetExact fuel r rs' n
    a.1 = b.1 ∧ a.2.2 = b.2.2 ∧
    (a.2.2 = .ok true →
       a.2.1.npos = b.2.1.npos ∧ a.2.1.buffer = b.2.1.buffer ∧
       a.2.1.positions.take a.2.1.npos = b.2.1.positions.take b.2.1.npos ∧
       Hist.obsDump a.2.1 = Hist.obsDump b.2.1) ∧
    (a.2.2 = .ok false → a.2.1 = rs ∧ b.2.1 = rs') ∧
    (∀ e, a.2.2 = .err e →
       (a.2.1.npos = 0 ∧ b.2.1.npos = 0 ∧ Hist.obsDump a.2.1 = .dump [] ∧ Hist.obsDump b.2.1 = .dump []) ∨
       (r.state = .new ∧ (init fuel r).2 = .err e ∧ a.2.1 = rs ∧ b.2.1 = rs')) ∧
    (r.state ≠ .new → (∃ e, a.2.2 = .err e) → a.2.1.npos = 0 ∧ b.2.1.npos = 0) := by
  intro a b
  have key := fasta_set_read_cases fuel r rs rs' n
  simp only at key
  rcases key with ⟨h1, h2, hc⟩
  have herr : ∀ e, a.2.2 = .err e →
      (a.2.1.npos = 0 ∧ b.2.1.npos = 0 ∧ Hist.obsDump a.2.1 = .dump [] ∧ Hist.obsDump b.2.1 = .dump []) ∨
      (r.state = .new ∧ (init fuel r).2 = .err e ∧ a.2.1 = rs ∧ b.2.1 = rs') := by
    intro e he
    rcases hc with ⟨_, hp, hs, hs'⟩ | ⟨_, _, _, _, _, hz⟩
    · have hp' : (pre fuel r).2 = .err e := hp.symm.trans he
      exact .inr ⟨(pre_err fuel r e hp').1, (pre_err fuel r e hp').2, hs, hs'⟩
    · have hz' := hz e he
      exact .inl ⟨hz'.1, hz'.2, obsDump_of_npos_zero _ hz'.1, obsDump_of_npos_zero _ hz'.2⟩
  refine ⟨h1, h2, ?_, ?_, herr, ?_⟩
  · intro hok
    rcases hc with ⟨hne, hp, _, _⟩ | ⟨_, _, hsim, hbuf, _, _⟩
    · exact absurd (hp.symm.trans hok) hne
    · have hb := hbuf hok
      have hbb : a.2.1.buffer = b.2.1.buffer := hb.1.trans hb.2.symm
      exact ⟨hsim.npos, hbb, hsim.vis, obsDump_congr hsim hbb⟩
  · intro hf
    rcases hc with ⟨_, _, hs, hs'⟩ | ⟨_, hne, _⟩
    · exact ⟨hs, hs'⟩
    · exact absurd hf hne
  · intro hnew ⟨e, he⟩
    rcases herr e he with h | h
    · exact ⟨h.1, h.2.1⟩
    · exact absurd h.1 hnew

/-- Counterexample to the error clause as first proposed ("after an error both sets show nothing"):
a new reader whose first read fails (here: the input does not start with `>`) returns the error
before `rset.npos = 0`, so a set filled earlier (by another reader) still shows its old records. -/
theorem fasta_error_clause_counterexample :
    let r := mkReader [120] 8 PolDesc.std.toPol
    let rs : RecordSet := { buffer := [62, 97, 10, 65, 10], positions := [{ start := 0, seqPos := [2, 4] }], npos := 1 }
    let a := readRecordSetExact 10 r rs none
    a.2.2 = .err (.invalidStart 1 120) ∧ a.2.1.npos = 1 ∧
      Hist.obsDump a.2.1 = .dump [([97], [[65]])] := by
  decide

/-- **Two readers sharing a set.**  Filling `rs` from `r1` and then from `r2` shows, after a successful
second read, exactly what filling a fresh set from `r2` shows (and leaves `r2` in the same state). -/
theorem fasta_shared_set_shows_only_second_reader (f1 f2 : Nat) (r1 r2 : Reader) (rs : RecordSet)
    (n1 n2 : Option Nat)
    (hok : (readRecordSetExact f2 r2 (readRecordSetExact f1 r1 rs n1).2.1 n2).2.2 = .ok true) :
    Hist.obsDump (readRecordSetExact f2 r2 (readRecordSetExact f1 r1 rs n1).2.1 n2).2.1 =
      Hist.obsDump (readRecordSetExact f2 r2 {} n2).2.1 ∧
    (readRecordSetExact f2 r2 (readRecordSetExact f1 r1 rs n1).2.1 n2).1 = (readRecordSetExact f2 r2 {} n2).1 ∧
    (readRecordSetExact f2 r2 {} n2).2.2 = .ok true := by
  have h := fasta_set_read_independent_of_old_set f2 r2 (readRecordSetExact f1 r1 rs n1).2.1 {} n2
  simp only at h
  exact ⟨(h.2.2.1 hok).2.2.2, h.1, h.2.1.symm.trans hok⟩

/-- The same with two real readers: `r1` fills the set, then a new reader `r2` whose very first read
fails with an I/O error is asked to refill it.  The error is returned, and the set still shows the
record of `r1`. -/
theorem fasta_two_readers_init_error_keeps_old_records :
    let r1 := mkReader [62, 97, 10, 65, 10] 8 PolDesc.std.toPol               -- ">a\nA\n"
    let r2 := mkReader [62, 98, 10, 67, 10] 8 PolDesc.std.toPol [.fail 5]     -- ">b\nC\n", first read fails
    let s1 := (readRecordSetExact 10 r1 {} none).2.1
    let a := readRecordSetExact 10 r2 s1 none
    a.2.2 = .err (.io 5) ∧ a.2.1 = s1 ∧ Hist.obsDump a.2.1 = .dump [([97], [[65]])] := by
  decide

end Fa

/-! ## FASTQ -/

namespace Fq
open SeqIo.Fastq

/-- outcomes of the loop on two sets with the same positions -/
def Rel (a b : Reader × RecordSet × Res Bool) : Prop :=
  a.1 = b.1 ∧ a.2.2 = b.2.2 ∧ a.2.1.positions = b.2.1.positions

/-- one-sided facts about an outcome of the loop started on `rs`: the buffer of the set is not touched;
after an error and after `None` the set is empty -/
def Frame (rs : RecordSet) (a : Reader × RecordSet × Res Bool) : Prop :=
  a.2.1.buffer = rs.buffer ∧ (∀ e, a.2.2 = .err e → a.2.1.positions = []) ∧
    (a.2.2 = .ok false → a.2.1.positions = [])

theorem Frame.trans {rs rs1 : RecordSet} {a : Reader × RecordSet × Res Bool} (hb : rs1.buffer = rs.buffer)
    (h : Frame rs1 a) : Frame rs a := ⟨h.1.trans hb, h.2.1, h.2.2⟩

theorem storeStep_eq (n : Option Nat) (r : Reader) (rs : RecordSet) :
    storeStep n r rs =
      match incrementRecord r with
      | none => none
      | some r' => some (r', { rs with positions := rs.positions ++ [r.bp] },
          decide (n = some (rs.positions ++ [r.bp]).length)) := rfl

theorem storeCont_rel (n : Option Nat) (r : Reader) (rs rs' : RecordSet) (h : rs.positions = rs'.positions)
    (k : Reader → RecordSet → Reader × RecordSet × Res Bool)
    (hk : ∀ r s s', s.positions = s'.positions → Rel (k r s) (k r s')) :
    Rel (match storeStep n r rs with
          | none => (r, rs, .panic)
          | some (r, rs, true) => (r, rs, .ok true)
          | some (r, rs, false) => k r rs)
        (match storeStep n r rs' with
          | none => (r, rs', .panic)
          | some (r, rs, true) => (r, rs, .ok true)
          | some (r, rs, false) => k r rs) := by
  rw [storeStep_eq, storeStep_eq, ← h]
  cases incrementRecord r with
  | none => exact ⟨rfl, rfl, h⟩
  | some r1 =>
    cases decide (n = some (rs.positions ++ [r.bp]).length) with
    | true => exact ⟨rfl, rfl, by simp [h]⟩
    | false => exact hk _ _ _ (by simp [h])

theorem storeCont_frame (n : Option Nat) (r : Reader) (rs : RecordSet)
    (k : Reader → RecordSet → Reader × RecordSet × Res Bool)
    (hk : ∀ r s, Frame s (k r s)) :
    Frame rs (match storeStep n r rs with
          | none => (r, rs, .panic)
          | some (r, rs, true) => (r, rs, .ok true)
          | some (r, rs, false) => k r rs) := by
  rw [storeStep_eq]
  cases incrementRecord r with
  | none => exact ⟨rfl, by simp, by simp⟩
  | some r1 =>
    cases decide (n = some (rs.positions ++ [r.bp]).length) with
    | true => exact ⟨rfl, by simp, by simp⟩
    | false => exact (hk r1 _).trans rfl

theorem setLoop_rel (fuel : Nat) (n : Option Nat) : ∀ (f : Nat) (isNew : Bool) (r : Reader)
    (rs rs' : RecordSet), rs.positions = rs'.positions →
    Rel (setLoop f fuel n isNew r rs) (setLoop f fuel n isNew r rs') := by
  intro f
  induction f with
  | zero => intro isNew r rs rs' h; exact ⟨rfl, rfl, h⟩
  | succ f ih =>
    intro isNew r rs rs' h
    rw [setLoop, setLoop]
    by_cases hfin : r.state = .finished
    · simp only [hfin, if_true]; exact ⟨rfl, rfl, h⟩
    · simp only [hfin, if_false]
      cases r.incompletePos with
      | some ip =>
        simp only
        rcases resume fuel ip isNew { r with incompletePos := none } with ⟨r1, o⟩
        cases o with
        | ok b =>
          cases b with
          | true => exact storeCont_rel n _ rs rs' h _ (fun r s s' hs => ih isNew r s s' hs)
          | false =>
            simp only [← h]
            cases rs.positions.isEmpty <;> exact ⟨rfl, rfl, h⟩
        | err e => exact ⟨rfl, rfl, rfl⟩
        | panic => exact ⟨rfl, rfl, h⟩
        | fuel => exact ⟨rfl, rfl, h⟩
      | none =>
        simp only
        rcases search r with ⟨r1, o⟩
        cases o with
        | ok b =>
          cases b with
          | true => exact storeCont_rel n _ rs rs' h _ (fun r s s' hs => ih isNew r s s' hs)
          | false =>
            simp only [← h]
            cases rs.positions.isEmpty with
            | true => exact ih _ _ _ _ h
            | false =>
              cases n with
              | none => exact ⟨rfl, rfl, h⟩
              | some n' =>
                by_cases hlt : rs.positions.length < n'
                · simp only [hlt, if_true]; exact ih _ _ _ _ h
                · simp only [hlt, if_false]; exact ⟨rfl, rfl, h⟩
        | err e => exact ⟨rfl, rfl, rfl⟩
        | panic => exact ⟨rfl, rfl, h⟩
        | fuel => exact ⟨rfl, rfl, h⟩

theorem setLoop_frame (fuel : Nat) (n : Option Nat) : ∀ (f : Nat) (isNew : Bool) (r : Reader)
    (rs : RecordSet), Frame rs (setLoop f fuel n isNew r rs) := by
  intro f
  induction f with
  | zero => intro isNew r rs; exact ⟨rfl, by simp [setLoop], by simp [setLoop]⟩
  | succ f ih =>
    intro isNew r rs
    rw [setLoop]
    by_cases hfin : r.state = .finished
    · simp only [hfin, if_true]; exact ⟨rfl, by simp, by simp⟩
    · simp only [hfin, if_false]
      cases r.incompletePos with
      | some ip =>
        simp only
        rcases resume fuel ip isNew { r with incompletePos := none } with ⟨r1, o⟩
        cases o with
        | ok b =>
          cases b with
          | true => exact storeCont_frame n _ rs _ (fun r s => ih isNew r s)
          | false =>
            cases hemp : rs.positions.isEmpty with
            | true => exact ⟨rfl, by simp, fun _ => List.isEmpty_iff.mp hemp⟩
            | false => exact ⟨rfl, by simp, by simp⟩
        | err e => exact ⟨rfl, by simp, by simp⟩
        | panic => exact ⟨rfl, by simp, by simp⟩
        | fuel => exact ⟨rfl, by simp, by simp⟩
      | none =>
        simp only
        rcases search r with ⟨r1, o⟩
        cases o with
        | ok b =>
          cases b with
          | true => exact storeCont_frame n _ rs _ (fun r s => ih isNew r s)
          | false =>
            cases rs.positions.isEmpty with
            | true => exact ih _ _ _
            | false =>
              cases n with
              | none => exact ⟨rfl, by simp, by simp⟩
              | some n' =>
                by_cases hlt : rs.positions.length < n'
                · simp only [hlt, if_true]; exact ih _ _ _
                · simp only [hlt, if_false]; exact ⟨rfl, by simp, by simp⟩
        | err e => exact ⟨rfl, by simp, by simp⟩
        | panic => exact ⟨rfl, by simp, by simp⟩
        | fuel => exact ⟨rfl, by simp, by simp⟩

/-- the stage of `read_record_set_exact` before `rset.positions.clear()` -/
def pre (r : Reader) : Reader × Res Bool :=
  match r.state with
  | .new =>
    match init r with
    | (r, .ok true) => ({ r with state := .positioned }, .ok true)
    | x => x
  | .finished => (r, .ok false)
  | .parsing =>
    match incrementRecord r with
    | some r => ({ r with state := .positioned }, .ok true)
    | none => (r, .panic)
  | .positioned => (r, .ok true)

/-- how `read_record_set_exact` is put together from the first stage and the loop -/
def assemble (p : Reader × Res Bool) (rs : RecordSet) (loop : Reader → Reader × RecordSet × Res Bool) :
    Reader × RecordSet × Res Bool :=
  match p with
  | (r, .ok true) =>
    match loop r with
    | (r, rs, .ok true) => (r, { rs with buffer := r.br.buf }, .ok true)
    | x => x
  | (r, .ok false) => (r, rs, .ok false)
  | (r, .err e) => (r, rs, .err e)
  | (r, .panic) => (r, rs, .panic)
  | (r, .fuel) => (r, rs, .fuel)

theorem readRecordSetExact_eq (fuel : Nat) (r : Reader) (rs : RecordSet) (n : Option Nat) :
    readRecordSetExact fuel r rs n =
      assemble (pre r) rs (fun r0 => setLoop fuel fuel n true r0 { rs with positions := [] }) := rfl

/-- an error of the stage before the loop can only be an error of `init` on a new reader -/
theorem pre_err (r : Reader) (e : Err) (h : (pre r).2 = .err e) :
    r.state = .new ∧ (init r).2 = .err e := by
  unfold pre at h
  split at h
  · refine ⟨by assumption, ?_⟩
    split at h
    · simp at h
    · exact h
  · simp at h
  · split at h <;> simp at h
  · simp at h

def finish (x : Reader × RecordSet × Res Bool) : Reader × RecordSet × Res Bool :=
  match x with
  | (r, rs, .ok true) => (r, { rs with buffer := r.br.buf }, .ok true)
  | x => x

theorem assemble_ok (r0 : Reader) (rs : RecordSet) (loop : Reader → Reader × RecordSet × Res Bool) :
    assemble (r0, .ok true) rs loop = finish (loop r0) := rfl

theorem assemble_cases (p : Reader × Res Bool) (rs rs' : RecordSet)
    (x y : Reader → Reader × RecordSet × Res Bool)
    (hrel : ∀ r0, Rel (x r0) (y r0)) (hfa : ∀ r0, Frame rs (x r0)) (hfb : ∀ r0, Frame rs' (y r0)) :
    (assemble p rs x).1 = (assemble p rs' y).1 ∧ (assemble p rs x).2.2 = (assemble p rs' y).2.2 ∧
    ((p.2 ≠ .ok true ∧ (assemble p rs x).2.2 = p.2 ∧ (assemble p rs x).2.1 = rs ∧ (assemble p rs' y).2.1 = rs') ∨
     (p.2 = .ok true ∧ (assemble p rs x).2.1.positions = (assemble p rs' y).2.1.positions ∧
      ((assemble p rs x).2.2 = .ok true →
        (assemble p rs x).2.1 = (assemble p rs' y).2.1 ∧
        (assemble p rs x).2.1.buffer = (assemble p rs x).1.br.buf) ∧
      ((assemble p rs x).2.2 ≠ .ok true →
        (assemble p rs x).2.1.buffer = rs.buffer ∧ (assemble p rs' y).2.1.buffer = rs'.buffer) ∧
      (((assemble p rs x).2.2 = .ok false ∨ ∃ e, (assemble p rs x).2.2 = .err e) →
        (assemble p rs x).2.1.positions = [] ∧ (assemble p rs' y).2.1.positions = []))) := by
  rcases p with ⟨r0, o⟩
  cases o with
  | ok b0 =>
    cases b0 with
    | false => exact ⟨rfl, rfl, .inl ⟨by simp, rfl, rfl, rfl⟩⟩
    | true =>
      have hrel := hrel r0
      have hfa := hfa r0
      have hfb := hfb r0
      rw [assemble_ok, assemble_ok]
      generalize x r0 = xa at hrel hfa
      generalize y r0 = ya at hrel hfb
      rcases xa with ⟨ra, sa, oa⟩
      rcases ya with ⟨rb, sb, ob⟩
      rcases hrel with ⟨h1, h2, h3⟩
      rcases hfa with ⟨ha1, ha2, ha3⟩
      rcases hfb with ⟨hb1, hb2, hb3⟩
      simp only at h1 h2 h3 ha1 ha2 ha3 hb1 hb2 hb3
      subst h1 h2
      cases oa with
      | ok b1 =>
        cases b1 with
        | true =>
          refine ⟨rfl, rfl, .inr ⟨rfl, h3, fun _ => ⟨?_, rfl⟩, fun h => absurd rfl h, fun h => ?_⟩⟩
          · simp [finish, h3]
          · simp [finish] at h
        | false =>
          exact ⟨rfl, rfl, .inr ⟨rfl, h3, fun h => by simp [finish] at h, fun _ => ⟨ha1, hb1⟩,
            fun _ => ⟨ha3 rfl, hb3 rfl⟩⟩⟩
      | err e =>
        exact ⟨rfl, rfl, .inr ⟨rfl, h3, fun h => by simp [finish] at h, fun _ => ⟨ha1, hb1⟩,
          fun _ => ⟨ha2 e rfl, hb2 e rfl⟩⟩⟩
      | panic =>
        exact ⟨rfl, rfl, .inr ⟨rfl, h3, fun h => by simp [finish] at h, fun _ => ⟨ha1, hb1⟩,
          fun h => by simp [finish] at h⟩⟩
      | fuel =>
        exact ⟨rfl, rfl, .inr ⟨rfl, h3, fun h => by simp [finish] at h, fun _ => ⟨ha1, hb1⟩,
          fun h => by simp [finish] at h⟩⟩
  | err e => exact ⟨rfl, rfl, .inl ⟨by simp, rfl, rfl, rfl⟩⟩
  | panic => exact ⟨rfl, rfl, .inl ⟨by simp, rfl, rfl, rfl⟩⟩
  | fuel => exact ⟨rfl, rfl, .inl ⟨by simp, rfl, rfl, rfl⟩⟩

/-- **Everything** about the two FASTQ reads, by the stage at which the read ended.

* Either the read ended before the set was touched (end of input seen before the loop, or a failure of
  `init` on a new reader): both sets are exactly what they were.
* Or the loop ran: both sets hold the same positions; after a successful read the two sets are EQUAL and
  carry the reader's buffer; otherwise each keeps its old buffer; after `None` and after an error both
  are empty. -/
theorem fastq_set_read_cases (fuel : Nat) (r : Reader) (rs rs' : RecordSet) (n : Option Nat) :
    let a := readRecordSetExact fuel r rs n
    let b := readRecordSetExact fuel r rs' n
    a.1 = b.1 ∧ a.2.2 = b.2.2 ∧
    (((pre r).2 ≠ .ok true ∧ a.2.2 = (pre r).2 ∧ a.2.1 = rs ∧ b.2.1 = rs') ∨
     ((pre r).2 = .ok true ∧ a.2.1.positions = b.2.1.positions ∧
      (a.2.2 = .ok true → a.2.1 = b.2.1 ∧ a.2.1.buffer = a.1.br.buf) ∧
      (a.2.2 ≠ .ok true → a.2.1.buffer = rs.buffer ∧ b.2.1.buffer = rs'.buffer) ∧
      ((a.2.2 = .ok false ∨ ∃ e, a.2.2 = .err e) → a.2.1.positions = [] ∧ b.2.1.positions = []))) := by
  intro a b
  exact assemble_cases (pre r) rs rs' _ _
    (fun r0 => setLoop_rel fuel n fuel true r0 _ _ rfl)
    (fun r0 => (setLoop_frame fuel n fuel true r0 { rs with positions := [] }).trans rfl)
    (fun r0 => (setLoop_frame fuel n fuel true r0 { rs' with positions := [] }).trans rfl)

theorem obsDump_of_positions_nil (s : RecordSet) (h : s.positions = []) : Hist.obsDump s = .dump [] := by
  simp [Hist.obsDump, h, Hist.viewAll]

/-- **P17, FASTQ.**  Same reader state and same result whatever the set held; after a successful read
the two sets are equal; after `None` and after an error the two sets are either both empty (the loop
ran) or both exactly what they were (the read ended before `positions.clear()`: end of input known
beforehand, or `init` of a new reader failed); in every case both sets hold the same positions or are
both untouched. -/
theorem fastq_set_read_independent_of_old_set (fuel : Nat) (r : Reader) (rs rs' : RecordSet) (n : Option Nat) :
    let a := readRecordSetExact fuel r rs n
    let b := readRecordSetExact fuel r rs' n
    a.1 = b.1 ∧ a.2.2 = b.2.2 ∧
    (a.2.2 = .ok true → a.2.1 = b.2.1 ∧ Hist.obsDump a.2.1 = Hist.obsDump b.2.1) ∧
    (a.2.2 = .ok false →
       (a.2.1.positions = [] ∧ b.2.1.positions = [] ∧ a.2.1.buffer = rs.buffer ∧ b.2.1.buffer = rs'.buffer) ∨
       (a.2.1 = rs ∧ b.2.1 = rs')) ∧
    (∀ e, a.2.2 = .err e →
       (a.2.1.positions = [] ∧ b.2.1.positions = [] ∧ a.2.1.buffer = rs.buffer ∧ b.2.1.buffer = rs'.buffer ∧
          Hist.obsDump a.2.1 = .dump [] ∧ Hist.obsDump b.2.1 = .dump []) ∨
       (r.state = .new ∧ (init r).2 = .err e ∧ a.2.1 = rs ∧ b.2.1 = rs')) ∧
    (r.state ≠ .new → (∃ e, a.2.2 = .err e) → a.2.1.positions = [] ∧ b.2.1.positions = []) ∧
    ((a.2.1 = rs ∧ b.2.1 = rs') ∨ a.2.1.positions = b.2.1.positions) := by
  intro a b
  have key := fastq_set_read_cases fuel r rs rs' n
  simp only at key
  rcases key with ⟨h1, h2, hc⟩
  have herr : ∀ e, a.2.2 = .err e →
      (a.2.1.positions = [] ∧ b.2.1.positions = [] ∧ a.2.1.buffer = rs.buffer ∧ b.2.1.buffer = rs'.buffer ∧
          Hist.obsDump a.2.1 = .dump [] ∧ Hist.obsDump b.2.1 = .dump []) ∨
      (r.state = .new ∧ (init r).2 = .err e ∧ a.2.1 = rs ∧ b.2.1 = rs') := by
    intro e he
    rcases hc with ⟨_, hp, hs, hs'⟩ | ⟨_, _, _, hbuf, hz⟩
    · have hp' : (pre r).2 = .err e := hp.symm.trans he
      exact .inr ⟨(pre_err r e hp').1, (pre_err r e hp').2, hs, hs'⟩
    · have hz' := hz (.inr ⟨e, he⟩)
      have hb := hbuf (by rw [he]; simp)
      exact .inl ⟨hz'.1, hz'.2, hb.1, hb.2, obsDump_of_positions_nil _ hz'.1, obsDump_of_positions_nil _ hz'.2⟩
  refine ⟨h1, h2, ?_, ?_, herr, ?_, ?_⟩
  · intro hok
    rcases hc with ⟨hne, hp, _, _⟩ | ⟨_, _, heq, _, _⟩
    · exact absurd (hp.symm.trans hok) hne
    · have := (heq hok).1
      exact ⟨this, by rw [this]⟩
  · intro hf
    rcases hc with ⟨_, _, hs, hs'⟩ | ⟨_, _, _, hbuf, hz⟩
    · exact .inr ⟨hs, hs'⟩
    · have hz' := hz (.inl hf)
      have hb := hbuf (by rw [hf]; simp)
      exact .inl ⟨hz'.1, hz'.2, hb.1, hb.2⟩
  · intro hnew ⟨e, he⟩
    rcases herr e he with h | h
    · exact ⟨h.1, h.2.1⟩
    · exact absurd h.1 hnew
  · rcases hc with ⟨_, _, hs, hs'⟩ | ⟨_, hpos, _⟩
    · exact .inl ⟨hs, hs'⟩
    · exact .inr hpos

/-- Counterexample to "the two sets are EQUAL whenever the read got past the first stage": after an
error inside the loop (here an invalid separator line) both sets are empty, but each keeps its old
`buffer` field (the buffer is only installed after a successful read).  Nothing of it is visible:
both dumps are empty. -/
theorem fastq_sets_differ_in_buffer_after_loop_error :
    let r := mkReader [64, 97, 10, 65, 67, 10, 45, 10, 33, 33, 10] 64 PolDesc.std.toPol   -- "@a\nAC\n-\n!!\n"
    let a := readRecordSetExact 20 r { buffer := [1] } none
    let b := readRecordSetExact 20 r {} none
    a.2.2 = .err (.invalidSep 45 { line := 3, id := some [97] }) ∧
      a.2.1 = { buffer := [1], positions := [] } ∧ b.2.1 = { buffer := [], positions := [] } ∧ a.2.1 ≠ b.2.1 := by
  decide

/-- Counterexample to "after an error both sets show nothing": `r1` fills the set, then a new reader
`r2` whose very first read fails with an I/O error is asked to refill it.  `init` returns the error
before `positions.clear()`, and the set still shows the record of `r1`. -/
theorem fastq_two_readers_init_error_keeps_old_records :
    let r1 := mkReader [64, 97, 10, 65, 67, 10, 43, 10, 33, 33, 10] 64 PolDesc.std.toPol              -- "@a\nAC\n+\n!!\n"
    let r2 := mkReader [64, 98, 10, 71, 10, 43, 10, 33, 10] 64 PolDesc.std.toPol [.fail 5]           -- first read fails
    let s1 := (readRecordSetExact 20 r1 {} none).2.1
    let a := readRecordSetExact 20 r2 s1 none
    a.2.2 = .err (.io 5) ∧ a.2.1 = s1 ∧
      Hist.obsDump a.2.1 = .dump [{ head := [97], seq := [65, 67], qual := [33, 33] }] := by
  decide

/-- **Two readers sharing a set.**  Filling `rs` from `r1` and then from `r2` gives, after a successful
second read, exactly the set that filling a fresh set from `r2` gives (and leaves `r2` in the same
state). -/
theorem fastq_shared_set_shows_only_second_reader (f1 f2 : Nat) (r1 r2 : Reader) (rs : RecordSet)
    (n1 n2 : Option Nat)
    (hok : (readRecordSetExact f2 r2 (readRecordSetExact f1 r1 rs n1).2.1 n2).2.2 = .ok true) :
    (readRecordSetExact f2 r2 (readRecordSetExact f1 r1 rs n1).2.1 n2).2.1 = (readRecordSetExact f2 r2 {} n2).2.1 ∧
    Hist.obsDump (readRecordSetExact f2 r2 (readRecordSetExact f1 r1 rs n1).2.1 n2).2.1 =
      Hist.obsDump (readRecordSetExact f2 r2 {} n2).2.1 ∧
    (readRecordSetExact f2 r2 (readRecordSetExact f1 r1 rs n1).2.1 n2).1 = (readRecordSetExact f2 r2 {} n2).1 ∧
    (readRecordSetExact f2 r2 {} n2).2.2 = .ok true := by
  have h := fastq_set_read_independent_of_old_set f2 r2 (readRecordSetExact f1 r1 rs n1).2.1 {} n2
  simp only at h
  exact ⟨(h.2.2.1 hok).1, (h.2.2.1 hok).2, h.1, h.2.1.symm.trans hok⟩

end Fq

end SeqIo.SetIndependence

