import SeqIoModel.Proofs.FastaStreamScan
import SeqIoModel.Proofs.Fill
/-!
# FASTA stream proof, part 2: the buffer window and the record scan across refills

`base r` is the file offset of `buf[0]`.  `Win` says that the buffer is a window of the input;
`ScanSt` says that the stored search state, read in absolute coordinates, is an intermediate
state of the scan of the whole rest of the input from the record start `s`.
-/
open SeqIo SeqIo.FillProofs

namespace SeqIo.Fasta

/-! ## the window -/

def baseB (b : BufRd) : Nat := b.src.cursor - b.buf.length

def base (r : Reader) : Nat := baseB r.br

structure WinB (inp : List UInt8) (b : BufRd) : Prop where
  inp_eq : b.src.inp = inp
  len_le : b.buf.length ≤ b.src.cursor
  cur_le : b.src.cursor ≤ inp.length
  win : inp.drop (baseB b) = b.buf ++ inp.drop b.src.cursor
  cap_ge : 3 ≤ b.cap
  len_cap : b.buf.length ≤ b.cap
  nofail : NoFail b.src.script

/-- "a buffer that is not full has seen the end of the input" -/
def EofB (inp : List UInt8) (b : BufRd) : Prop := b.buf.length < b.cap → b.src.cursor = inp.length

theorem WinB.base_le {inp : List UInt8} {b : BufRd} (h : WinB inp b) : baseB b ≤ inp.length := by
  have := h.cur_le
  unfold baseB
  omega

theorem WinB.base_add {inp : List UInt8} {b : BufRd} (h : WinB inp b) :
    baseB b + b.buf.length = b.src.cursor := by
  have := h.len_le
  unfold baseB
  omega

theorem noFail_suffix {u s : List ReadEv} (h : NoFail (u ++ s)) : NoFail s := by
  intro e he k
  exact h e (List.mem_append_right _ he) k

/-- effect of a refill on a window -/
theorem fill_win {inp : List UInt8} {b : BufRd} (h : WinB inp b) :
    ∃ b' n, fillBuf b = (b', .ok n) ∧ WinB inp b' ∧ EofB inp b' ∧ baseB b' = baseB b ∧
      b'.cap = b.cap ∧ b'.buf = b.buf ++ (inp.drop b.src.cursor).take n ∧
      b'.src.cursor = b.src.cursor + n ∧
      n = min (b.cap - b.buf.length) (inp.length - b.src.cursor) ∧
      b'.src.script.length ≤ b.src.script.length := by
  obtain ⟨b', n, hr⟩ := fillBuf_noFail_ok b h.nofail
  obtain ⟨hn, used, hst⟩ := fillBuf_ok b b' n hr
  have hrem : b.src.remaining = inp.length - b.src.cursor := by
    simp only [Src.remaining, h.inp_eq]
  rw [hrem] at hn
  have hlen : b'.buf.length = b.buf.length + n := hst.buf_length
  have hbase : baseB b' = baseB b := by
    unfold baseB
    rw [hst.cursor, hlen]
    have := h.len_le
    omega
  have hbuf : b'.buf = b.buf ++ (inp.drop b.src.cursor).take n := by
    rw [hst.buf, h.inp_eq]
  have hcl := h.cur_le
  have hll := h.len_le
  have hlc := h.len_cap
  refine ⟨b', n, hr, ?_, ?_, hbase, hst.cap, hbuf, hst.cursor, hn, ?_⟩
  · refine ⟨by rw [hst.inp, h.inp_eq], by rw [hst.cursor, hlen]; omega, by rw [hst.cursor]; omega,
      ?_, by rw [hst.cap]; exact h.cap_ge, by rw [hst.cap, hlen]; omega, ?_⟩
    · rw [hbase, h.win, hbuf, hst.cursor, List.append_assoc, ← List.drop_drop,
        List.take_append_drop]
    · have := h.nofail
      rw [hst.script] at this
      exact noFail_suffix this
  · intro hlt
    rw [hst.cap, hlen] at hlt
    rw [hst.cursor]
    omega
  · have := congrArg List.length hst.script
    simp only [List.length_append] at this
    omega

/-- dropping a prefix of the buffer (`consume` + `make_room`) -/
theorem consume_win {inp : List UInt8} {b : BufRd} (h : WinB inp b) (c : Nat) (hc : c ≤ b.buf.length) :
    WinB inp (b.consume c) ∧ baseB (b.consume c) = baseB b + c := by
  have hll := h.len_le
  have hbase : baseB (b.consume c) = baseB b + c := by
    simp only [baseB, BufRd.consume, List.length_drop]
    omega
  refine ⟨⟨h.inp_eq, ?_, h.cur_le, ?_, h.cap_ge, ?_, h.nofail⟩, hbase⟩
  · simp only [BufRd.consume, List.length_drop]; omega
  · rw [hbase, ← List.drop_drop, h.win]
    simp only [BufRd.consume]
    rw [List.drop_append_of_le_length hc]
  · have := h.len_cap
    simp only [BufRd.consume, List.length_drop]; omega

theorem reserve_buf (b : BufRd) (a : Nat) : (b.reserve a).buf = b.buf := by
  unfold BufRd.reserve
  simp only
  split
  · rfl
  · split <;> rfl

theorem reserve_src (b : BufRd) (a : Nat) : (b.reserve a).src = b.src := by
  unfold BufRd.reserve
  simp only
  split
  · rfl
  · split <;> rfl

theorem reserve_cap_ge (b : BufRd) (a : Nat) : b.cap ≤ (b.reserve a).cap := by
  unfold BufRd.reserve
  simp only
  split
  · exact Nat.le_refl _
  · split <;> simp only <;> omega

theorem reserve_cap_gt (b : BufRd) (a : Nat) (hfull : b.cap ≤ b.buf.length) (ha : 0 < a) :
    b.cap < (b.reserve a).cap := by
  unfold BufRd.reserve
  simp only
  split
  · omega
  · split <;> simp only <;> omega

theorem reserve_win {inp : List UInt8} {b : BufRd} (h : WinB inp b) (a : Nat) :
    WinB inp (b.reserve a) ∧ baseB (b.reserve a) = baseB b := by
  have hb : baseB (b.reserve a) = baseB b := by
    simp only [baseB, reserve_buf, reserve_src]
  refine ⟨⟨by rw [reserve_src]; exact h.inp_eq, by rw [reserve_src, reserve_buf]; exact h.len_le,
    by rw [reserve_src]; exact h.cur_le, ?_, ?_, ?_, by rw [reserve_src]; exact h.nofail⟩, hb⟩
  · rw [hb, reserve_buf, reserve_src]; exact h.win
  · have := reserve_cap_ge b a; have := h.cap_ge; omega
  · have := reserve_cap_ge b a; have := h.len_cap; rw [reserve_buf]; omega

theorem win_drop {inp : List UInt8} {b : BufRd} (h : WinB inp b) (k : Nat) (hk : k ≤ b.buf.length) :
    inp.drop (k + baseB b) = b.buf.drop k ++ inp.drop b.src.cursor := by
  rw [Nat.add_comm, ← List.drop_drop, h.win, List.drop_append_of_le_length hk]

/-! ## scanning a window -/

theorem scan_window_found (w ext : List UInt8) (sp : Nat) (acc : List Nat) (B : Nat)
    (h : (scan w sp acc).1 = true) :
    scan (w ++ ext) (sp + B) (acc.map (· + B)) = shiftRes B (scan w sp acc) := by
  rw [scan_shift]
  congr 1
  have e : scan w sp acc = (true, (scan w sp acc).2.1, (scan w sp acc).2.2) := by rw [← h]
  rw [scan_resume_found w ext sp acc _ _ e, ← e]

theorem scan_window_notfound (w ext : List UInt8) (sp : Nat) (acc : List Nat) (B : Nat)
    (h : (scan w sp acc).1 = false) :
    scan (w ++ ext) (sp + B) (acc.map (· + B)) =
      scan (w.drop ((scan w sp acc).2.1 - sp) ++ ext) ((scan w sp acc).2.1 + B)
        ((scan w sp acc).2.2.map (· + B)) := by
  rw [scan_shift, scan_shift]
  congr 1
  have e : scan w sp acc = (false, (scan w sp acc).2.1, (scan w sp acc).2.2) := by rw [← h]
  exact scan_resume_notfound w ext sp acc _ _ e

/-! ## policies -/

/-- what the reader needs from a policy to never report `BufferLimit`: asked with a capacity
≥ 1 it never refuses and answers more than it was passed (`PolOk` demands this for capacity 0
as well, which the doubling built-in policies do not satisfy) -/
def PolGrows (p : Pol) : Prop :=
  ∀ (h : List Nat) (cur : Nat), 1 ≤ cur → ∃ n, p.f (h ++ [cur]) = some n ∧ cur < n

/-- a policy that may refuse, but when it answers a request with capacity ≥ 1, answers more
than it was passed (`PolWf` restricted to positive capacities) -/
def PolWfPos (p : Pol) : Prop :=
  ∀ (h : List Nat) (cur n : Nat), 1 ≤ cur → p.f (h ++ [cur]) = some n → cur < n

theorem PolOk.grows {p : Pol} (h : PolOk p) : PolGrows p := fun hist cur _ => h hist cur

theorem PolGrows.wfPos {p : Pol} (h : PolGrows p) : PolWfPos p := by
  intro hist cur n hc hn
  obtain ⟨m, hm, hlt⟩ := h hist cur hc
  rw [hm] at hn
  cases hn
  exact hlt

theorem PolWf.wfPos {p : Pol} (h : PolWf p) : PolWfPos p := fun hist cur n _ hn => h hist cur n hn

theorem polGrows_std : PolGrows PolDesc.std.toPol := by
  intro h cur hc
  refine ⟨_, rfl, ?_⟩
  simp only [List.getLastD_eq_getLast?, List.getLast?_append, List.getLast?_singleton,
    Option.some_or, Option.getD_some]
  split <;> omega

theorem polGrows_doubleUntil (t : Nat) (ht : 1 ≤ t) : PolGrows (PolDesc.doubleUntil t).toPol := by
  intro h cur hc
  refine ⟨_, rfl, ?_⟩
  simp only [List.getLastD_eq_getLast?, List.getLast?_append, List.getLast?_singleton,
    Option.some_or, Option.getD_some]
  split <;> omega

theorem polGrows_congr {p q : Pol} (h : q.f = p.f) (hp : PolGrows p) : PolGrows q := by
  intro hist cur hc
  rw [h]
  exact hp hist cur hc

theorem polWfPos_congr {p q : Pol} (h : q.f = p.f) (hp : PolWfPos p) : PolWfPos q := by
  intro hist cur n hc
  rw [h]
  exact hp hist cur n hc

/-! ## reader-level invariants -/

structure Win (inp : List UInt8) (r : Reader) : Prop where
  b : WinB inp r.br
  pol : PolWfPos r.pol

def Eof (inp : List UInt8) (r : Reader) : Prop := EofB inp r.br

/-- the stored search state is an intermediate state of the scan of the record that starts
at absolute offset `s` -/
structure ScanSt (inp : List UInt8) (r : Reader) (s : Nat) : Prop where
  start_eq : r.bp.start + base r = s
  start_le : r.bp.start ≤ r.searchPos
  sp_le : r.searchPos ≤ r.br.buf.length
  pos_lt : ∀ p ∈ r.bp.seqPos, r.bp.start ≤ p ∧ p < r.searchPos
  resum : scan (inp.drop (r.searchPos + base r)) (r.searchPos + base r)
      (r.bp.seqPos.map (· + base r)) = scan (inp.drop s) s []

/-- the record that starts at absolute offset `s` has been found completely -/
structure RecDone (inp : List UInt8) (r : Reader) (s : Nat) : Prop where
  start_eq : r.bp.start + base r = s
  pos_le : ∀ p ∈ r.bp.seqPos, p ≤ r.br.buf.length
  fin : r.bp.seqPos.map (· + base r) = finalPos (scan (inp.drop s) s [])
  st : r.state = .finished ↔ (scan (inp.drop s) s []).1 = false
  nxt : (scan (inp.drop s) s []).1 = true →
    (scan (inp.drop s) s []).2.1 = r.searchPos + base r ∧ r.bp.start ≤ r.searchPos ∧
      r.searchPos ≤ r.br.buf.length

/-! ## `search` -/

theorem search_eq (r : Reader) (h : r.searchPos ≤ r.br.buf.length) :
    search r =
      if (scan (r.br.buf.drop r.searchPos) r.searchPos r.bp.seqPos).1 then
        some ({ r with searchPos := (scan (r.br.buf.drop r.searchPos) r.searchPos r.bp.seqPos).2.1,
                       bp := { r.bp with seqPos := (scan (r.br.buf.drop r.searchPos) r.searchPos r.bp.seqPos).2.2 } }, true)
      else if r.br.buf.length < r.br.cap then
        some ({ r with searchPos := (scan (r.br.buf.drop r.searchPos) r.searchPos r.bp.seqPos).2.1,
                       bp := { r.bp with seqPos := (scan (r.br.buf.drop r.searchPos) r.searchPos r.bp.seqPos).2.2 ++
                         [(scan (r.br.buf.drop r.searchPos) r.searchPos r.bp.seqPos).2.1] },
                       state := .finished }, true)
      else
        some ({ r with searchPos := (scan (r.br.buf.drop r.searchPos) r.searchPos r.bp.seqPos).2.1,
                       bp := { r.bp with seqPos := (scan (r.br.buf.drop r.searchPos) r.searchPos r.bp.seqPos).2.2 },
                       state := .incomplete }, false) := by
  unfold search search_
  simp only [h, if_true]
  generalize scan (r.br.buf.drop r.searchPos) r.searchPos r.bp.seqPos = x
  rcases x with ⟨f, sp, acc⟩
  cases f <;> simp

theorem finalPos_shift (B : Nat) (x : Bool × Nat × List Nat) :
    finalPos (shiftRes B x) = (finalPos x).map (· + B) := by
  rcases x with ⟨f, sp, acc⟩
  cases f <;> simp [finalPos, shiftRes]

/-- one `search` from a scan state -/
theorem search_step {inp : List UInt8} {r : Reader} {s : Nat}
    (hw : Win inp r) (he : Eof inp r) (hs : ScanSt inp r s) (hst : r.state ≠ .finished) :
    ∃ r' f, search r = some (r', f) ∧ r'.br = r.br ∧ r'.pol = r.pol ∧ r'.log = r.log ∧
      r'.line = r.line ∧ r'.byte = r.byte ∧ r'.bp.start = r.bp.start ∧
      (f = true → RecDone inp r' s ∧ (r'.state = r.state ∨ r'.state = .finished)) ∧
      (f = false → ScanSt inp r' s ∧ r'.state = .incomplete ∧ r.br.cap ≤ r.br.buf.length ∧
        r.br.buf.length ≤ r'.searchPos + 1) := by
  have hsp := hs.sp_le
  have hwd := win_drop hw.b r.searchPos hsp
  have hres := hs.resum
  unfold base at hres
  rw [hwd] at hres
  have hge := scan_sp_ge (r.br.buf.drop r.searchPos) r.searchPos r.bp.seqPos
  simp only [List.length_drop] at hge
  have hnb := scan_new_bounds (r.br.buf.drop r.searchPos) r.searchPos r.bp.seqPos
  rw [search_eq r hsp]
  generalize hx : scan (r.br.buf.drop r.searchPos) r.searchPos r.bp.seqPos = x at hge hnb
  by_cases hf : x.1 = true
  · -- found in the buffer
    rw [if_pos hf]
    have hS : scan (inp.drop s) s [] = shiftRes (baseB r.br) x := by
      rw [← hres, ← hx]
      exact scan_window_found _ _ _ _ _ (by rw [hx]; exact hf)
    refine ⟨_, _, rfl, rfl, rfl, rfl, rfl, rfl, rfl, ?_, by intro h; cases h⟩
    intro _
    refine ⟨⟨hs.start_eq, ?_, ?_, ?_, ?_⟩, Or.inl rfl⟩
    · intro p hp
      show p ≤ r.br.buf.length
      rcases hnb p hp with h | h
      · have := (hs.pos_lt p h).2; omega
      · omega
    · rw [hS]
      simp [finalPos, shiftRes, hf, base]
    · rw [hS]
      simp only [shiftRes, hf]
      constructor
      · intro h; exact absurd h hst
      · intro h; cases h
    · intro _
      rw [hS]
      refine ⟨rfl, ?_, ?_⟩
      · show r.bp.start ≤ x.2.1
        have := hs.start_le; omega
      · show x.2.1 ≤ r.br.buf.length
        omega
  · have hf' : x.1 = false := by cases h : x.1 <;> simp_all
    rw [if_neg hf]
    by_cases hlt : r.br.buf.length < r.br.cap
    · -- end of input
      rw [if_pos hlt]
      have hcur : r.br.src.cursor = inp.length := he hlt
      have hS : scan (inp.drop s) s [] = shiftRes (baseB r.br) x := by
        rw [← hres, ← hx, hcur, List.drop_length, List.append_nil]
        exact scan_shift _ _ _ _
      refine ⟨_, _, rfl, rfl, rfl, rfl, rfl, rfl, rfl, ?_, by intro h; cases h⟩
      intro _
      refine ⟨⟨hs.start_eq, ?_, ?_, ?_, ?_⟩, Or.inr rfl⟩
      · intro p hp
        show p ≤ r.br.buf.length
        replace hp : p ∈ x.2.2 ++ [x.2.1] := hp
        simp only [List.mem_append, List.mem_singleton] at hp
        rcases hp with hp | hp
        · rcases hnb p hp with h | h
          · have := (hs.pos_lt p h).2; omega
          · omega
        · omega
      · rw [hS, finalPos_shift]
        simp [finalPos, hf', base]
      · rw [hS]
        simp only [shiftRes, hf']
      · intro h
        rw [hS] at h
        simp only [shiftRes, hf'] at h
        cases h
    · -- buffer exhausted without result
      rw [if_neg hlt]
      have hnear := scan_notfound_sp (r.br.buf.drop r.searchPos) r.searchPos r.bp.seqPos
        (by rw [hx]; exact hf')
      rw [hx, List.length_drop] at hnear
      refine ⟨_, _, rfl, rfl, rfl, rfl, rfl, rfl, rfl, (by intro h; cases h), ?_⟩
      intro _
      refine ⟨⟨hs.start_eq, ?_, ?_, ?_, ?_⟩, rfl, by omega, (by show r.br.buf.length ≤ x.2.1 + 1; omega)⟩
      · have := hs.start_le
        show r.bp.start ≤ x.2.1
        omega
      · show x.2.1 ≤ r.br.buf.length
        omega
      · intro p hp
        show r.bp.start ≤ p ∧ p < x.2.1
        rcases hnb p hp with h | h
        · have := hs.pos_lt p h; omega
        · have := hs.start_le; omega
      · show scan (inp.drop (x.2.1 + baseB r.br)) (x.2.1 + baseB r.br) (x.2.2.map (· + baseB r.br)) = _
        have h1 := scan_window_notfound (r.br.buf.drop r.searchPos) (inp.drop r.br.src.cursor)
          r.searchPos r.bp.seqPos (baseB r.br) (by rw [hx]; exact hf')
        rw [hx] at h1
        have e : r.searchPos + (x.2.1 - r.searchPos) = x.2.1 := by omega
        rw [← hres, win_drop hw.b x.2.1 (by omega), h1, List.drop_drop, e]

/-! ## growth bookkeeping -/

/-- `LogChain c0 new cf`: the policy requests `new` form a chain that starts with the capacity
`c0`; every request is made with the current capacity, an answer `some n` makes `n` the current
capacity, a refusal ends the chain; `cf` is the capacity at the end. -/
def LogChain : Nat → List (Nat × Option Nat) → Nat → Prop
  | c0, [], cf => cf = c0
  | c0, (c, some n) :: rest, cf => c = c0 ∧ LogChain n rest cf
  | c0, (c, none) :: rest, cf => c = c0 ∧ rest = [] ∧ cf = c0

theorem LogChain.append {pre post : List (Nat × Option Nat)} {a b c : Nat}
    (h1 : LogChain a pre b) (hs : ∀ e ∈ pre, e.2 ≠ none) (h2 : LogChain b post c) :
    LogChain a (pre ++ post) c := by
  induction pre generalizing a with
  | nil =>
    simp only [LogChain] at h1
    subst h1
    exact h2
  | cons e pre ih =>
    rcases e with ⟨x, _ | n⟩
    · exact absurd rfl (hs (x, none) (by simp))
    · simp only [LogChain, List.cons_append] at h1 ⊢
      exact ⟨h1.1, ih h1.2 (fun e he => hs e (by simp [he]))⟩

/-- the extent of the record that starts at absolute offset `s`: up to and including the
terminator before the next record, or up to the end of the input -/
def recExtent (inp : List UInt8) (s : Nat) : Nat :=
  if (scan (inp.drop s) s []).1 then (scan (inp.drop s) s []).2.1 - s else inp.length - s

/-- what one operation does to the policy log, the policy and the capacity -/
structure Growth (r r' : Reader) (new : List (Nat × Option Nat)) : Prop where
  log : r'.log = r.log ++ new
  polf : r'.pol.f = r.pol.f
  chain : LogChain r.br.cap new r'.br.cap

theorem Growth.same {r r' : Reader} (hl : r'.log = r.log) (hp : r'.pol.f = r.pol.f)
    (hc : r'.br.cap = r.br.cap) : Growth r r' [] :=
  ⟨by rw [hl, List.append_nil], hp, hc⟩

theorem Growth.trans {r r1 r' : Reader} {pre post : List (Nat × Option Nat)}
    (h1 : Growth r r1 pre) (hs : ∀ e ∈ pre, e.2 ≠ none) (h2 : Growth r1 r' post) :
    Growth r r' (pre ++ post) :=
  ⟨by rw [h2.log, h1.log, List.append_assoc], by rw [h2.polf, h1.polf],
    h1.chain.append hs h2.chain⟩

/-! ## `grow`, `make_room` -/

theorem polWfPos_hist (p : Pol) (h : List Nat) (hp : PolWfPos p) : PolWfPos { p with hist := h } := hp

theorem reserve_cap_full (b : BufRd) (n : Nat) (hfull : b.cap ≤ b.buf.length) (hn : b.cap < n) :
    (b.reserve (n - b.cap)).cap = n := by
  unfold BufRd.reserve
  simp only
  split
  · omega
  · split <;> simp only <;> omega

/-- `grow` with a full buffer: the policy is asked with the current capacity; an answer becomes
the new capacity, a refusal is `BufferLimit` -/
theorem grow_spec {r : Reader} (hp : PolWfPos r.pol) (hfull : r.br.cap ≤ r.br.buf.length)
    (hcap : 1 ≤ r.br.cap) :
    (∃ r' n, r.pol.f (r.pol.hist ++ [r.br.cap]) = some n ∧ grow r = (r', .ok ()) ∧
      r'.br = r.br.reserve (n - r.br.cap) ∧ r.br.cap < n ∧ r'.br.cap = n ∧
      r'.log = r.log ++ [(r.br.cap, some n)] ∧ r'.pol.f = r.pol.f ∧
      r'.bp = r.bp ∧ r'.line = r.line ∧ r'.byte = r.byte ∧ r'.searchPos = r.searchPos ∧
      r'.state = r.state) ∨
    (∃ r', r.pol.f (r.pol.hist ++ [r.br.cap]) = none ∧ grow r = (r', .err .bufferLimit) ∧
      r'.br = r.br ∧ r'.log = r.log ++ [(r.br.cap, none)] ∧ r'.pol.f = r.pol.f) := by
  cases hn : r.pol.f (r.pol.hist ++ [r.br.cap]) with
  | none =>
    right
    refine ⟨{ r with pol := { r.pol with hist := r.pol.hist ++ [r.br.cap] },
                     log := r.log ++ [(r.br.cap, none)] }, rfl, ?_, rfl, rfl, rfl⟩
    simp only [grow, Pol.growTo, hn]
  | some n =>
    left
    have hlt : r.br.cap < n := hp _ _ _ hcap hn
    have hle : r.br.cap ≤ n := by omega
    refine ⟨{ r with pol := { r.pol with hist := r.pol.hist ++ [r.br.cap] },
                     log := r.log ++ [(r.br.cap, some n)],
                     br := r.br.reserve (n - r.br.cap) }, n, rfl, ?_, rfl, hlt,
      reserve_cap_full _ _ hfull hlt, rfl, rfl, rfl, rfl, rfl, rfl, rfl⟩
    simp only [grow, Pol.growTo, hn, csub, hle, if_true]

theorem mapSub_eq (c : Nat) (l : List Nat) (h : ∀ p ∈ l, c ≤ p) :
    mapSub c l = some (l.map (· - c)) := by
  induction l with
  | nil => rfl
  | cons x xs ih =>
    have hx : c ≤ x := h x (by simp)
    simp only [mapSub, csub, hx, if_true, ih (fun p hp => h p (by simp [hp])), List.map_cons]

theorem makeRoom_eq (r : Reader) (h1 : r.bp.start ≤ r.searchPos)
    (h2 : ∀ p ∈ r.bp.seqPos, r.bp.start ≤ p) :
    makeRoom r = some { r with br := r.br.consume r.bp.start,
                               bp := { start := 0, seqPos := r.bp.seqPos.map (· - r.bp.start) },
                               searchPos := r.searchPos - r.bp.start } := by
  simp only [makeRoom, csub, h1, if_true, mapSub_eq _ _ h2]

theorem scanSt_of_br {inp : List UInt8} {r r' : Reader} {s : Nat} (h : ScanSt inp r s)
    (hb : base r' = base r) (hbp : r'.bp = r.bp) (hsp : r'.searchPos = r.searchPos)
    (hlen : r.br.buf.length ≤ r'.br.buf.length) : ScanSt inp r' s := by
  refine ⟨?_, ?_, ?_, ?_, ?_⟩
  · rw [hbp, hb]; exact h.start_eq
  · rw [hbp, hsp]; exact h.start_le
  · rw [hsp]; have := h.sp_le; omega
  · rw [hbp, hsp]; exact h.pos_lt
  · rw [hbp, hsp, hb]; exact h.resum

theorem makeRoom_scanSt {inp : List UInt8} {r : Reader} {s : Nat} (hw : Win inp r)
    (h : ScanSt inp r s) :
    ∃ r', makeRoom r = some r' ∧ Win inp r' ∧ ScanSt inp r' s ∧ r'.state = r.state ∧
      r'.br.buf.length = r.br.buf.length - r.bp.start ∧ r'.br.cap = r.br.cap ∧
      r'.br.src.cursor = r.br.src.cursor ∧ r'.line = r.line ∧ r'.byte = r.byte ∧
      r'.log = r.log ∧ r'.pol = r.pol := by
  have hsl := h.start_le
  have hsp := h.sp_le
  have hc : r.bp.start ≤ r.br.buf.length := by omega
  obtain ⟨hwb, hbase⟩ := consume_win hw.b r.bp.start hc
  refine ⟨_, makeRoom_eq r hsl (fun p hp => (h.pos_lt p hp).1), ⟨hwb, hw.pol⟩, ?_, rfl, ?_, rfl, rfl, rfl, rfl, rfl, rfl⟩
  · refine ⟨?_, ?_, ?_, ?_, ?_⟩
    · show 0 + baseB (r.br.consume r.bp.start) = s
      rw [hbase, ← h.start_eq]; unfold base; omega
    · exact Nat.zero_le _
    · show r.searchPos - r.bp.start ≤ (r.br.consume r.bp.start).buf.length
      simp only [BufRd.consume, List.length_drop]; omega
    · intro p hp
      replace hp : p ∈ r.bp.seqPos.map (· - r.bp.start) := hp
      show 0 ≤ p ∧ p < r.searchPos - r.bp.start
      simp only [List.mem_map] at hp
      obtain ⟨q, hq, rfl⟩ := hp
      have := h.pos_lt q hq
      omega
    · show scan (inp.drop (r.searchPos - r.bp.start + baseB (r.br.consume r.bp.start)))
        (r.searchPos - r.bp.start + baseB (r.br.consume r.bp.start))
        ((r.bp.seqPos.map (· - r.bp.start)).map (· + baseB (r.br.consume r.bp.start))) = _
      have e1 : r.searchPos - r.bp.start + baseB (r.br.consume r.bp.start) = r.searchPos + base r := by
        rw [hbase]; unfold base; omega
      have e2 : (r.bp.seqPos.map (· - r.bp.start)).map (· + baseB (r.br.consume r.bp.start)) =
          r.bp.seqPos.map (· + base r) := by
        rw [List.map_map]
        apply List.map_congr_left
        intro p hp
        have := (h.pos_lt p hp).1
        simp only [Function.comp, hbase, base]
        omega
      rw [e1, e2]
      exact h.resum
  · simp only [BufRd.consume, List.length_drop]

/-! ## `resume_incomplete_search` -/

/-- a full buffer that starts with the record and does not contain its end: the record does not
fit the capacity -/
theorem unfit_of_full {inp : List UInt8} {r : Reader} {s : Nat} (hw : Win inp r)
    (hs : ScanSt inp r s) (h0 : r.bp.start = 0) (hfull : r.br.cap ≤ r.br.buf.length)
    (hnear : r.br.buf.length ≤ r.searchPos + 1) : r.br.cap < recExtent inp s + 1 := by
  have hse := hs.start_eq
  rw [h0, Nat.zero_add] at hse
  have hba := hw.b.base_add
  have hcl := hw.b.cur_le
  unfold base at hse
  unfold recExtent
  split
  · rename_i hf
    have hlt := scan_found_lt (inp.drop (r.searchPos + base r)) (r.searchPos + base r)
      (r.bp.seqPos.map (· + base r)) (by rw [hs.resum]; exact hf)
    rw [hs.resum] at hlt
    unfold base at hlt
    omega
  · omega

/-- first half of a loop iteration: make space, either by shifting or by growing -/
theorem resume_step1 {inp : List UInt8} {r : Reader} {s : Nat} (hw : Win inp r)
    (hs : ScanSt inp r s) (hfull : r.br.cap ≤ r.br.buf.length)
    (hnear : r.br.buf.length ≤ r.searchPos + 1) :
    ∃ r1 pre, Growth r r1 pre ∧ (∀ e ∈ pre, e.1 < recExtent inp s + 1) ∧
      ((((r.bp.start = 0 ∧ grow r = (r1, Out.ok ())) ∨ (r.bp.start ≠ 0 ∧ makeRoom r = some r1)) ∧
        (∀ e ∈ pre, e.2 ≠ none) ∧
        Win inp r1 ∧ ScanSt inp r1 s ∧ r1.state = r.state ∧ r1.br.buf.length < r1.br.cap ∧
        r1.br.src.cursor = r.br.src.cursor ∧ r1.line = r.line ∧ r1.byte = r.byte) ∨
       (r.bp.start = 0 ∧ grow r = (r1, .err .bufferLimit) ∧ pre = [(r.br.cap, none)] ∧
        r.pol.f (r.pol.hist ++ [r.br.cap]) = none)) := by
  have hcap3 := hw.b.cap_ge
  by_cases h0 : r.bp.start = 0
  · have hun := unfit_of_full hw hs h0 hfull hnear
    rcases grow_spec hw.pol hfull (by omega) with
      ⟨r1, n, hn, hg, hbr, hlt, hcap, hlog, hpf, hbp, hl, hb, hsp, hst⟩ | ⟨r1, hn, hg, hbr, hlog, hpf⟩
    · obtain ⟨hwb, hbase⟩ := reserve_win hw.b (n - r.br.cap)
      rw [← hbr] at hwb hbase
      refine ⟨r1, [(r.br.cap, some n)], ⟨hlog, hpf, ?_⟩, ?_, Or.inl ⟨Or.inl ⟨h0, hg⟩, ?_,
        ⟨hwb, polWfPos_congr hpf hw.pol⟩, ?_, hst, ?_, ?_, hl, hb⟩⟩
      · simp only [LogChain]; exact ⟨trivial, hcap⟩
      · intro e he
        simp only [List.mem_singleton] at he
        subst he
        exact hun
      · intro e he
        simp only [List.mem_singleton] at he
        subst he
        intro h; cases h
      · exact scanSt_of_br hs hbase hbp hsp (by rw [hbr, reserve_buf]; exact Nat.le_refl _)
      · have := hw.b.len_cap
        rw [hcap, hbr, reserve_buf]; omega
      · rw [hbr, reserve_src]
    · refine ⟨r1, [(r.br.cap, none)], ⟨hlog, hpf, ?_⟩, ?_, Or.inr ⟨h0, hg, rfl, hn⟩⟩
      · exact ⟨rfl, rfl, by rw [hbr]⟩
      · intro e he
        simp only [List.mem_singleton] at he
        subst he
        exact hun
  · obtain ⟨r1, hm, hw1, hs1, hst, hlen, hcap, hcur, hl, hb, hlog, hpol⟩ := makeRoom_scanSt hw hs
    refine ⟨r1, [], Growth.same hlog (by rw [hpol]) hcap, (by intro e he; cases he),
      Or.inl ⟨Or.inr ⟨h0, hm⟩, (by intro e he; cases he), hw1, hs1, hst, ?_, hcur, hl, hb⟩⟩
    have := hw.b.len_cap
    rw [hlen, hcap]
    omega

theorem resume_spec {inp : List UInt8} : ∀ (fuel : Nat) (r : Reader) (s : Nat),
    Win inp r → ScanSt inp r s → r.state = .incomplete → r.br.cap ≤ r.br.buf.length →
    r.br.buf.length ≤ r.searchPos + 1 →
    inp.length - r.br.src.cursor < fuel →
    ∃ r' new, Growth r r' new ∧ (∀ e ∈ new, e.1 < recExtent inp s + 1) ∧
      ((resume fuel true r = (r', .ok true) ∧ (∀ e ∈ new, e.2 ≠ none) ∧
          Win inp r' ∧ Eof inp r' ∧ RecDone inp r' s ∧
          r'.line = r.line ∧ r'.byte = r.byte ∧ (r'.state = .incomplete ∨ r'.state = .finished)) ∨
       (resume fuel true r = (r', .err .bufferLimit) ∧ (∃ pre c, new = pre ++ [(c, none)]) ∧
          ∃ h c, 1 ≤ c ∧ r.pol.f (h ++ [c]) = none)) := by
  intro fuel
  induction fuel with
  | zero => intro r s _ _ _ _ _ h; omega
  | succ f ih =>
    intro r s hw hs hst hfull hnear hfuel
    obtain ⟨r1, pre, hg1, hun1, hcase⟩ := resume_step1 hw hs hfull hnear
    rcases hcase with ⟨h1, hsome1, hw1, hs1, hst1, hlt1, hcur1, hl1, hb1⟩ | ⟨h0, hg, hpre, hrefuse⟩
    · obtain ⟨br2, n, hfill, hwb2, heof2, hbase2, hcap2, hbuf2, hcur2, hn, _⟩ := fill_win hw1.b
      have hw2 : Win inp { r1 with br := br2 } := ⟨hwb2, hw1.pol⟩
      have hs2 : ScanSt inp { r1 with br := br2 } s :=
        scanSt_of_br hs1 hbase2 rfl rfl (by show r1.br.buf.length ≤ br2.buf.length; rw [hbuf2]; simp)
      have hst2 : ({ r1 with br := br2 } : Reader).state ≠ .finished := by
        show r1.state ≠ .finished
        rw [hst1, hst]; intro h; cases h
      obtain ⟨r3, fnd, hsearch, hbr3, hpol3, hlog3, hl3, hb3, hstart3, htrue, hfalse⟩ :=
        search_step hw2 heof2 hs2 hst2
      have hg13 : Growth r1 r3 [] :=
        Growth.same hlog3 (by rw [hpol3]) (by rw [hbr3]; exact hcap2)
      have hres : resume (f + 1) true r =
          (if fnd = true then (r3, Out.ok true) else resume f true r3) := by
        rcases h1 with ⟨h0, hg⟩ | ⟨h0, hm⟩
        · simp only [resume, h0, hg, hfill, hsearch, Bool.not_true, Bool.false_or, decide_true, if_true]
          cases fnd <;> rfl
        · simp only [resume, h0, hm, hfill, hsearch, Bool.not_true, Bool.false_or, decide_false,
            Bool.false_eq_true, if_false]
          cases fnd <;> rfl
      rw [hres]
      have hw3 : Win inp r3 := ⟨by rw [hbr3]; exact hwb2, by rw [hpol3]; exact hw1.pol⟩
      cases fnd with
      | true =>
        obtain ⟨hdone, hstate⟩ := htrue rfl
        have hg3 : Growth r r3 (pre ++ []) := hg1.trans hsome1 hg13
        rw [List.append_nil] at hg3
        refine ⟨r3, pre, hg3, hun1, Or.inl ⟨by simp, hsome1, hw3,
          by unfold Eof; rw [hbr3]; exact heof2, hdone, by rw [hl3]; exact hl1,
          by rw [hb3]; exact hb1, ?_⟩⟩
        rcases hstate with h | h
        · left; rw [h]; show r1.state = _; rw [hst1, hst]
        · right; exact h
      | false =>
        obtain ⟨hs3, hst3, hfull3, hnear3⟩ := hfalse rfl
        have hfull3' : br2.cap ≤ br2.buf.length := hfull3
        have hlen2 : br2.buf.length = r1.br.buf.length + n := by
          rw [hbuf2, List.length_append, List.length_take, List.length_drop]; omega
        have hcl := hw1.b.cur_le
        obtain ⟨r', new', hg', hun', hcase'⟩ := ih r3 s hw3 hs3 hst3
          (by rw [hbr3]; exact hfull3') (by rw [hbr3]; exact hnear3) (by rw [hbr3, hcur2]; omega)
        have hgr : Growth r r' (pre ++ new') := by
          have := (hg1.trans hsome1 hg13).trans (by simpa using hsome1) hg'
          simpa using this
        have hunr : ∀ e ∈ pre ++ new', e.1 < recExtent inp s + 1 := by
          intro e he
          rcases List.mem_append.mp he with h | h
          · exact hun1 e h
          · exact hun' e h
        refine ⟨r', pre ++ new', hgr, hunr, ?_⟩
        rcases hcase' with ⟨hres', hsome', hw', he', hd', hl', hb', hst'⟩ | ⟨hres', ⟨p', c', hp'⟩, hh, hc, hc1, hrf⟩
        · refine Or.inl ⟨by simpa using hres', ?_, hw', he', hd', by rw [hl', hl3]; exact hl1,
            by rw [hb', hb3]; exact hb1, hst'⟩
          intro e he
          rcases List.mem_append.mp he with h | h
          · exact hsome1 e h
          · exact hsome' e h
        · refine Or.inr ⟨by simpa using hres', ⟨pre ++ p', c', by rw [hp', List.append_assoc]⟩,
            hh, hc, hc1, ?_⟩
          rw [← hg1.polf, ← hg13.polf]
          exact hrf
    · have hres : resume (f + 1) true r = (r1, .err .bufferLimit) := by
        simp only [resume, h0, hg, Bool.not_true, Bool.false_or, decide_true, if_true]
      have hcap3 := hw.b.cap_ge
      exact ⟨r1, pre, hg1, hun1, Or.inr ⟨hres, ⟨[], r.br.cap, by rw [hpre]; rfl⟩,
        r.pol.hist, r.br.cap, by omega, hrefuse⟩⟩

/-! ## second half of `next` -/

theorem recDone_parsing {inp : List UInt8} {r : Reader} {s : Nat} (h : RecDone inp r s)
    (hst : r.state ≠ .finished) : RecDone inp { r with state := .parsing } s := by
  refine ⟨h.start_eq, h.pos_le, h.fin, ?_, h.nxt⟩
  constructor
  · intro h'; cases h'
  · intro h'; exact absurd (h.st.mpr h') hst

/-- `nextCont` from a record start: either the record is found (possibly after growing the
buffer), or the policy refused and the result is `BufferLimit` -/
theorem nextCont_spec {inp : List UInt8} {r : Reader} {s fuel : Nat} (hw : Win inp r)
    (he : Eof inp r) (hs : ScanSt inp r s) (hst : r.state = .parsing) (hfuel : inp.length < fuel) :
    ∃ r' new, Growth r r' new ∧ (∀ e ∈ new, e.1 < recExtent inp s + 1) ∧
      ((nextCont fuel r = (r', .ok true) ∧ (∀ e ∈ new, e.2 ≠ none) ∧
          Win inp r' ∧ Eof inp r' ∧ RecDone inp r' s ∧
          r'.line = r.line ∧ r'.byte = r.byte ∧ (r'.state = .parsing ∨ r'.state = .finished)) ∨
       (nextCont fuel r = (r', .err .bufferLimit) ∧ (∃ pre c, new = pre ++ [(c, none)]) ∧
          ∃ h c, 1 ≤ c ∧ r.pol.f (h ++ [c]) = none)) := by
  obtain ⟨r1, fnd, hsearch, hbr1, hpol1, hlog1, hl1, hb1, hstart1, htrue, hfalse⟩ :=
    search_step hw he hs (by rw [hst]; intro h; cases h)
  have hw1 : Win inp r1 := ⟨by rw [hbr1]; exact hw.b, by rw [hpol1]; exact hw.pol⟩
  have hne : r.state ≠ .incomplete := by rw [hst]; intro h; cases h
  have hg01 : Growth r r1 [] := Growth.same hlog1 (by rw [hpol1]) (by rw [hbr1])
  cases fnd with
  | true =>
    obtain ⟨hdone, hstate⟩ := htrue rfl
    have hni : r1.state ≠ .incomplete := by
      rcases hstate with h | h <;> rw [h] <;> (try rw [hst]) <;> intro h' <;> cases h'
    refine ⟨r1, [], hg01, (by intro e he; cases he), Or.inl ⟨?_, (by intro e he; cases he), hw1,
      by unfold Eof; rw [hbr1]; exact he, hdone, hl1, hb1, ?_⟩⟩
    · simp only [nextCont, hne, ne_eq, not_false_eq_true, if_true, hsearch, Option.map_some, hni,
        if_false]
    · rcases hstate with h | h
      · left; rw [h, hst]
      · right; exact h
  | false =>
    obtain ⟨hs1, hst1, hfull, hnear⟩ := hfalse rfl
    have hcl := hw.b.cur_le
    obtain ⟨r2, new, hg2, hun, hcase⟩ := resume_spec fuel r1 s hw1 hs1 hst1
      (by rw [hbr1]; exact hfull) (by rw [hbr1]; exact hnear) (by omega)
    have hg02 : Growth r r2 new := by
      have := hg01.trans (by intro e he; cases he) hg2
      simpa using this
    rcases hcase with ⟨hres, hsome, hw2, he2, hd2, hl2, hb2, hst2⟩ | ⟨hres, hlast, hh, hc, hc1, hrf⟩
    · rcases hst2 with h2 | h2
      · have hnf : r2.state ≠ .finished := by rw [h2]; intro h; cases h
        refine ⟨{ r2 with state := .parsing }, new, ⟨hg02.log, hg02.polf, hg02.chain⟩, hun,
          Or.inl ⟨?_, hsome, ⟨hw2.b, hw2.pol⟩, he2, recDone_parsing hd2 hnf,
          by rw [← hl1, ← hl2], by rw [← hb1, ← hb2], Or.inl rfl⟩⟩
        simp only [nextCont, hne, ne_eq, not_false_eq_true, if_true, hsearch, Option.map_some, hst1,
          hres, hnf]
      · refine ⟨r2, new, hg02, hun, Or.inl ⟨?_, hsome, hw2, he2, hd2, by rw [hl2, hl1],
          by rw [hb2, hb1], Or.inr h2⟩⟩
        simp only [nextCont, hne, ne_eq, not_false_eq_true, if_true, hsearch, Option.map_some, hst1,
          hres, h2, not_true_eq_false, if_false]
    · refine ⟨r2, new, hg02, hun, Or.inr ⟨?_, hlast, hh, hc, hc1, by rw [← hpol1]; exact hrf⟩⟩
      simp only [nextCont, hne, ne_eq, not_false_eq_true, if_true, hsearch, Option.map_some, hst1,
        hres]

end SeqIo.Fasta
