import SeqIoModel.Proofs.WriteRoundtrip
import SeqIoModel.Proofs.EndToEnd
import SeqIoModel.Proofs.Unchanged
import SeqIoModel.Proofs.FastaUnchanged
/-!
# C11 – FASTQ writing round-trips; unchanged writing reproduces the input bytes

The FASTQ writer round trips through S; `write_unchanged` of the FASTQ machine emits exactly the
record's extent in the input plus LF, for every capacity and chunking (M level), and concatenating
these outputs over a well-formed file reproduces the file up to a final terminator; the FASTA
counterpart is proved at the S level (extent = the record's lines) and at the M level
(`Proofs/FastaUnchanged.lean`: what `write_unchanged` of the FASTA machine emits, every configuration).
-/

namespace SeqIo.Thm.C11
open SeqIo SeqIo.Spec SeqIo.Write

/-- `fastq::write_to` / `Record::write`: header, sequence and quality parse back exactly -/
theorem fastq_write_roundtrip (h s q : List UInt8) (hh : HeadOk h) (hs : FieldOk s) (hq : FieldOk q)
    (hl : s.length = q.length) :
    Spec.fastq (Write.fqTo h s q) = [.record { byte := 0, line := 1, head := h, seq := s, qual := q }] :=
  WriteProofs.fastq_fqTo_roundtrip h s q hh hs hq hl

/-- many records written consecutively parse to the same list, without any error item -/
theorem fastq_write_many_roundtrip (rs : List (List UInt8 × List UInt8 × List UInt8))
    (hok : ∀ p ∈ rs, HeadOk p.1 ∧ FieldOk p.2.1 ∧ FieldOk p.2.2 ∧ p.2.1.length = p.2.2.length) :
    (Spec.fastq (rs.flatMap fun p => Write.fqTo p.1 p.2.1 p.2.2)).filterMap
        (fun it => match it with | .record r => some (r.head, r.seq, r.qual) | .err _ _ _ => none) = rs ∧
    (Spec.fastq (rs.flatMap fun p => Write.fqTo p.1 p.2.1 p.2.2)).length = rs.length :=
  WriteProofs.fastq_many_roundtrip rs hok

example : HeadOk [97, 32, 98] ∧ FieldOk [65, 67] ∧ FieldOk [73, 74] := by decide

/-- M level: after any successful `next()` the FASTQ machine's `write_unchanged` emits exactly the
record's original bytes (its four lines without the final LF, line endings included) plus LF -/
theorem fastq_write_unchanged_bytes (inp : List UInt8) (G : Prop) (fuel : Nat) (r : Fastq.Reader)
    (items : List FqItem) (hg : Fastq.Good inp G r items) (hfuel : r.br.src.inp.length + 2 ≤ fuel)
    (hok : (Fastq.next fuel r).2 = .ok true) :
    ∃ (x : FqRec) (rest : List FqItem), items = .record x :: rest ∧
      Fastq.Good inp G (Fastq.next fuel r).1 rest ∧ (Fastq.next fuel r).1.byte = x.byte ∧
      Fastq.writeUnchanged (Fastq.next fuel r).1.br.buf (Fastq.next fuel r).1.bp = some (Unchanged.rawFq inp x ++ [LF]) ∧
      Unchanged.rawFq inp x =
        (inp.drop x.byte).take ((Fastq.next fuel r).1.bp.pos1 - (Fastq.next fuel r).1.bp.pos0) :=
  Fastq.Unch.fastq_unchanged_bytes inp G fuel r items hg hfuel hok

/-- end to end: reading a well-formed LF or CRLF file (with or without final terminator) with the
FASTQ machine at any capacity, policy and chunking and writing every record unchanged reproduces the
file, plus an LF if the last line was unterminated -/
theorem fastq_unchanged_reproduces_file (recs : List Recode.FqContent) (hok : Recode.FqOk recs)
    (t : Recode.Term) (final : Bool) (cap : Nat) (hcap : 3 ≤ cap) (pol : Pol) (hpol : Fastq.PolGrows pol)
    (script : List ReadEv) (hs : FillProofs.NoFail script) (chunk : Nat) (k : Nat) (hk : recs.length ≤ k) :
    Fastq.Unch.runWrites k (Fastq.mkReader (Recode.encodeFastq recs t final) cap pol script chunk) =
      some (Recode.encodeFastq recs t final ++ (if final || recs.isEmpty then [] else [LF])) :=
  Fastq.Unch.fastq_write_unchanged_file recs hok t final cap hcap pol hpol script hs chunk k hk

/-- trailing blank lines are dropped -/
theorem fastq_unchanged_drops_trailing_blank (recs : List Recode.FqContent) (hok : Recode.FqOk recs)
    (t : Recode.Term) (trail : Nat) (htrail : trail ≤ 2) :
    (Spec.fastq (Recode.encodeFastq recs t true ++ (List.replicate trail t.bytes).flatten)).flatMap
        (Unchanged.fqOut (Recode.encodeFastq recs t true ++ (List.replicate trail t.bytes).flatten)) =
      Recode.encodeFastq recs t true :=
  Unchanged.fastq_unchanged_trailing recs hok t trail htrail

/-- FASTA counterpart (S level): the records' extents (plus LF) concatenate to the file, plus an LF if
the last line was unterminated – for any per-line mixture of terminators -/
theorem fasta_unchanged_reproduces_file (recs : List (List UInt8 × List (List UInt8))) (hok : Recode.FaOk recs)
    (terms : Nat → Recode.Term) (final : Bool) :
    ∃ rs, Spec.fasta (Recode.encodeFasta recs terms final) = .records rs ∧
      rs.flatMap (Unchanged.faOut (Recode.encodeFasta recs terms final)) =
        Recode.encodeFasta recs terms final ++ (if final || recs.isEmpty then [] else [LF]) :=
  Unchanged.fasta_unchanged_concat recs hok terms final

/-- FASTA, M level: after any successful `next()` the machine's `write_unchanged` emits the record's
original bytes (header line and sequence lines with their own line ends), plus LF unless those bytes
already end in LF – which happens exactly when the record's last line is blank, so a trailing blank
line of a record is normalised away, as the property allows -/
theorem fasta_write_unchanged_bytes (inp : List UInt8) (fuel : Nat) (r : Fasta.Reader) (x : FaRec)
    (rest : List FaRec) (hg : Fasta.InvR inp r ((x :: rest).map Fasta.toObs))
    (hfuel : r.br.src.inp.length < fuel) (hok : (Fasta.next fuel r).2 = .ok true) :
    Fasta.InvR inp (Fasta.next fuel r).1 (rest.map Fasta.toObs) ∧ (Fasta.next fuel r).1.byte = x.byte ∧
    Fasta.writeUnchanged (Fasta.next fuel r).1.br.buf (Fasta.next fuel r).1.bp = some (Fasta.Unch.faEmit inp x) ∧
    (x.seqLines.getLast? ≠ some [] →
      Fasta.writeUnchanged (Fasta.next fuel r).1.br.buf (Fasta.next fuel r).1.bp =
        some (Unchanged.rawFa inp x ++ [LF])) :=
  Fasta.Unch.fasta_unchanged_bytes inp fuel r x rest hg hfuel hok

/-- FASTA, M level, whole stream: for every input S accepts and every configuration, `next()` /
`write_unchanged` in a loop writes the normalised extents of S's records in order -/
theorem fasta_write_unchanged_stream (inp : List UInt8) (rs : List FaRec)
    (hrs : Spec.fasta inp = .records rs) (cap : Nat) (hcap : 3 ≤ cap) (pol : Pol)
    (hpol : Fasta.PolGrows pol) (script : List ReadEv) (hs : FillProofs.NoFail script) (chunk : Nat) (k : Nat) :
    Fasta.Unch.runWrites k (Fasta.mkReader inp cap pol script chunk) =
      some ((rs.take k).flatMap (Fasta.Unch.faEmit inp)) :=
  (Fasta.Unch.fasta_write_unchanged_stream inp rs hrs cap hcap pol hpol script hs chunk k).1

/-- FASTA, end to end at the M level: reading a well-formed file (any per-line mixture of LF and CRLF,
with or without final terminator) at any capacity ≥ 3, growing policy, failure-free script and
chunking, and writing every record unchanged reproduces the file byte for byte (plus LF if the last
line had no terminator) -/
theorem fasta_write_unchanged_file (recs : List (List UInt8 × List (List UInt8)))
    (hok : Recode.FaOk recs) (terms : Nat → Recode.Term) (final : Bool) (cap : Nat) (hcap : 3 ≤ cap)
    (pol : Pol) (hpol : Fasta.PolGrows pol) (script : List ReadEv) (hs : FillProofs.NoFail script) (chunk : Nat)
    (k : Nat) (hk : recs.length ≤ k) :
    Fasta.Unch.runWrites k (Fasta.mkReader (Recode.encodeFasta recs terms final) cap pol script chunk) =
      some (Recode.encodeFasta recs terms final ++ (if final || recs.isEmpty then [] else [LF])) :=
  Fasta.Unch.fasta_write_unchanged_file recs hok terms final cap hcap pol hpol script hs chunk k hk

/-- the blank-line normalisation on a concrete input: `>a⏎⏎>b⏎` is written back as `>a⏎>b⏎` -/
example : Fasta.Unch.runWrites 3 (Fasta.mkReader [62, 97, 10, 10, 62, 98, 10] 3 PolDesc.std.toPol [] 2) =
    some [62, 97, 10, 62, 98, 10] := by decide

/-- end to end: a record written by `fastq::write_to` and read back by the FASTQ reader at ANY capacity ≥ 3,
never-refusing policy and chunking is exactly that record, then end of input (composition with C02) -/
theorem fastq_written_record_reads_back (h s q : List UInt8) (hh : HeadOk h) (hsq : FieldOk s) (hq : FieldOk q)
    (hl : s.length = q.length) (cap : Nat) (hcap : 3 ≤ cap) (pol : Pol) (hpol : PolOk pol)
    (script : List ReadEv) (hs : FillProofs.NoFail script) (chunk k : Nat) :
    Fastq.runNexts k (Fastq.mkReader (Write.fqTo h s q) cap pol script chunk) =
      ([Fastq.Obs.record h s q 1 0] ++ List.replicate k Fastq.Obs.none).take k :=
  E2E.fastq_written_record_reads_back h s q hh hsq hq hl cap hcap pol hpol script hs chunk k

end SeqIo.Thm.C11
