import SeqIoModel.Proofs.WriteRoundtrip
/-!
# C11 – FASTQ writing round-trips; unchanged writing reproduces the input bytes

Proved in this file: the FASTQ writer round trips through S.  The unchanged-writing theorems are in
`Proofs/Unchanged.lean` when present (see evidence); `write_unchanged` is otherwise covered by the
correspondence run (output compared byte-exactly with the model for every record of every case) and
by the oracle that concatenates the outputs over well-formed inputs in all encodings.
-/

namespace SeqIo.Thm.C11
open SeqIo SeqIo.Spec SeqIo.Write

/-- `fastq::write_to` / `Record::write`: header, sequence and quality parse back exactly -/
theorem fastq_write_roundtrip (h s q : List UInt8) (hh : HeadOk h) (hs : FieldOk s) (hq : FieldOk q)
    (hl : s.length = q.length) :
    Spec.fastq (Write.fqTo h s q) = [.record { byte := 0, line := 1, head := h, seq := s, qual := q }] :=
  WriteProofs.fastq_fqTo_roundtrip h s q hh hs hq hl

/-- many records written consecutively parse to the same list, without any error item -/
theorem fastq_write_many_roundtrip (rs : List (List UInt8 × List UInt8 × List UInt8))
    (hok : ∀ p ∈ rs, HeadOk p.1 ∧ FieldOk p.2.1 ∧ FieldOk p.2.2 ∧ p.2.1.length = p.2.2.length) :
    (Spec.fastq (rs.flatMap fun p => Write.fqTo p.1 p.2.1 p.2.2)).filterMap
        (fun it => match it with | .record r => some (r.head, r.seq, r.qual) | .err _ _ _ => none) = rs ∧
    (Spec.fastq (rs.flatMap fun p => Write.fqTo p.1 p.2.1 p.2.2)).length = rs.length :=
  WriteProofs.fastq_many_roundtrip rs hok

example : HeadOk [97, 32, 98] ∧ FieldOk [65, 67] ∧ FieldOk [73, 74] := by decide

end SeqIo.Thm.C11
