import SeqIoModel.Proofs.WriteRoundtrip
import SeqIoModel.Proofs.Unchanged
/-!
# C11 – FASTQ writing round-trips; unchanged writing reproduces the input bytes

The FASTQ writer round trips through S; `write_unchanged` of the FASTQ machine emits exactly the
record's extent in the input plus LF, for every capacity and chunking (M level), and concatenating
these outputs over a well-formed file reproduces the file up to a final terminator; the FASTA
counterpart is proved at the S level (extent = the record's lines).
-/

namespace SeqIo.Thm.C11
open SeqIo SeqIo.Spec SeqIo.Write

/-- `fastq::write_to` / `Record::write`: header, sequence and quality parse back exactly -/
theorem fastq_write_roundtrip (h s q : List UInt8) (hh : HeadOk h) (hs : FieldOk s) (hq : FieldOk q)
    (hl : s.length = q.length) :
    Spec.fastq (Write.fqTo h s q) = [.record { byte := 0, line := 1, head := h, seq := s, qual := q }] :=
  WriteProofs.fastq_fqTo_roundtrip h s q hh hs hq hl

/-- many records written consecutively parse to the same list, without any error item -/
theorem fastq_write_many_roundtrip (rs : List (List UInt8 × List UInt8 × List UInt8))
    (hok : ∀ p ∈ rs, HeadOk p.1 ∧ FieldOk p.2.1 ∧ FieldOk p.2.2 ∧ p.2.1.length = p.2.2.length) :
    (Spec.fastq (rs.flatMap fun p => Write.fqTo p.1 p.2.1 p.2.2)).filterMap
        (fun it => match it with | .record r => some (r.head, r.seq, r.qual) | .err _ _ _ => none) = rs ∧
    (Spec.fastq (rs.flatMap fun p => Write.fqTo p.1 p.2.1 p.2.2)).length = rs.length :=
  WriteProofs.fastq_many_roundtrip rs hok

example : HeadOk [97, 32, 98] ∧ FieldOk [65, 67] ∧ FieldOk [73, 74] := by decide

/-- M level: after any successful `next()` the FASTQ machine's `write_unchanged` emits exactly the
record's original bytes (its four lines without the final LF, line endings included) plus LF -/
theorem fastq_write_unchanged_bytes (inp : List UInt8) (G : Prop) (fuel : Nat) (r : Fastq.Reader)
    (items : List FqItem) (hg : Fastq.Good inp G r items) (hfuel : r.br.src.inp.length + 2 ≤ fuel)
    (hok : (Fastq.next fuel r).2 = .ok true) :
    ∃ (x : FqRec) (rest : List FqItem), items = .record x :: rest ∧
      Fastq.Good inp G (Fastq.next fuel r).1 rest ∧ (Fastq.next fuel r).1.byte = x.byte ∧
      Fastq.writeUnchanged (Fastq.next fuel r).1.br.buf (Fastq.next fuel r).1.bp = some (Unchanged.rawFq inp x ++ [LF]) ∧
      Unchanged.rawFq inp x =
        (inp.drop x.byte).take ((Fastq.next fuel r).1.bp.pos1 - (Fastq.next fuel r).1.bp.pos0) :=
  Fastq.Unch.fastq_unchanged_bytes inp G fuel r items hg hfuel hok

/-- end to end: reading a well-formed LF or CRLF file (with or without final terminator) with the
FASTQ machine at any capacity, policy and chunking and writing every record unchanged reproduces the
file, plus an LF if the last line was unterminated -/
theorem fastq_unchanged_reproduces_file (recs : List Recode.FqContent) (hok : Recode.FqOk recs)
    (t : Recode.Term) (final : Bool) (cap : Nat) (hcap : 3 ≤ cap) (pol : Pol) (hpol : Fastq.PolGrows pol)
    (script : List ReadEv) (hs : FillProofs.NoFail script) (chunk : Nat) (k : Nat) (hk : recs.length ≤ k) :
    Fastq.Unch.runWrites k (Fastq.mkReader (Recode.encodeFastq recs t final) cap pol script chunk) =
      some (Recode.encodeFastq recs t final ++ (if final || recs.isEmpty then [] else [LF])) :=
  Fastq.Unch.fastq_write_unchanged_file recs hok t final cap hcap pol hpol script hs chunk k hk

/-- trailing blank lines are dropped -/
theorem fastq_unchanged_drops_trailing_blank (recs : List Recode.FqContent) (hok : Recode.FqOk recs)
    (t : Recode.Term) (trail : Nat) (htrail : trail ≤ 2) :
    (Spec.fastq (Recode.encodeFastq recs t true ++ (List.replicate trail t.bytes).flatten)).flatMap
        (Unchanged.fqOut (Recode.encodeFastq recs t true ++ (List.replicate trail t.bytes).flatten)) =
      Recode.encodeFastq recs t true :=
  Unchanged.fastq_unchanged_trailing recs hok t trail htrail

/-- FASTA counterpart (S level): the records' extents (plus LF) concatenate to the file, plus an LF if
the last line was unterminated – for any per-line mixture of terminators -/
theorem fasta_unchanged_reproduces_file (recs : List (List UInt8 × List (List UInt8))) (hok : Recode.FaOk recs)
    (terms : Nat → Recode.Term) (final : Bool) :
    ∃ rs, Spec.fasta (Recode.encodeFasta recs terms final) = .records rs ∧
      rs.flatMap (Unchanged.faOut (Recode.encodeFasta recs terms final)) =
        Recode.encodeFasta recs terms final ++ (if final || recs.isEmpty then [] else [LF]) :=
  Unchanged.fasta_unchanged_concat recs hok terms final

end SeqIo.Thm.C11
