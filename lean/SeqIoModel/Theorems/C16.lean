import SeqIoModel.Proofs.ParallelInvariants
/-!
# C16 – parallel processing uses a fixed number of recycled data sets
-/

namespace SeqIo.Thm.C16
open SeqIo.Par

/-- at most `Q + 1` data sets are ever created, however many batches the input has -/
theorem created_le_Q1 (c : Cfg) (s : St) (hT : 0 < c.T) (hQ : 0 < c.Q) (h : Reach c s) :
    s.dsCalls ≤ c.Q + 1 :=
  created_le c s hT hQ h

/-- the reader is never more than `Q` batches ahead of the consumer -/
theorem runahead_le_Q (c : Cfg) (s : St) (hT : 0 < c.T) (hQ : 0 < c.Q) (h : Reach c s) :
    s.filled ≤ s.got + c.Q :=
  runahead_le c s hT hQ h

/-- channels and pool are bounded by `Q` and `T` -/
theorem channels_and_pool_bounded (c : Cfg) (s : St) (hT : 0 < c.T) (hQ : 0 < c.Q) (h : Reach c s) :
    s.emptyCh.length ≤ c.Q ∧ s.doneCh.length ≤ c.Q ∧ s.working.length + s.sending.length ≤ c.T :=
  channels_bounded c s hT hQ h

/-- while the reader is in its loop and the consumer alive, every created data set is in exactly one
place: all later batches reuse the same `≤ Q + 1` sets -/
theorem recycled_not_recreated (c : Cfg) (s : St) (hT : 0 < c.T) (hQ : 0 < c.Q) (h : Reach c s)
    (hl : s.rd.inLoop = true) (hca : s.consumerAlive = true) (hme : s.mainErr = false)
    (d : Nat) (hd : d < s.dsCalls) : dsCount s d = 1 :=
  ds_exactly_one c s hT hQ h hl hca hme d hd

end SeqIo.Thm.C16
