import SeqIoModel.Proofs.ParallelInvariants
import SeqIoModel.Proofs.Alloc
/-!
# C16 – parallel processing uses a fixed number of recycled data sets
-/

namespace SeqIo.Thm.C16
open SeqIo.Par

/-- at most `Q + 1` data sets are ever created, however many batches the input has -/
theorem created_le_Q1 (c : Cfg) (s : St) (hT : 0 < c.T) (hQ : 0 < c.Q) (h : Reach c s) :
    s.dsCalls ≤ c.Q + 1 :=
  created_le c s hT hQ h

/-- the reader is never more than `Q` batches ahead of the consumer -/
theorem runahead_le_Q (c : Cfg) (s : St) (hT : 0 < c.T) (hQ : 0 < c.Q) (h : Reach c s) :
    s.filled ≤ s.got + c.Q :=
  runahead_le c s hT hQ h

/-- channels and pool are bounded by `Q` and `T` -/
theorem channels_and_pool_bounded (c : Cfg) (s : St) (hT : 0 < c.T) (hQ : 0 < c.Q) (h : Reach c s) :
    s.emptyCh.length ≤ c.Q ∧ s.doneCh.length ≤ c.Q ∧ s.working.length + s.sending.length ≤ c.T :=
  channels_bounded c s hT hQ h

/-- while the reader is in its loop and the consumer alive, every created data set is in exactly one
place: all later batches reuse the same `≤ Q + 1` sets -/
theorem recycled_not_recreated (c : Cfg) (s : St) (hT : 0 < c.T) (hQ : 0 < c.Q) (h : Reach c s)
    (hl : s.rd.inLoop = true) (hca : s.consumerAlive = true) (hme : s.mainErr = false)
    (d : Nat) (hd : d < s.dsCalls) : dsCount s d = 1 :=
  ds_exactly_one c s hT hQ h hl hca hme d hd

/-! ## the sets themselves: overwritten in place, memory independent of the input length

`Model/Alloc.lean` carries the capacities of the `Vec`s of a record set as ghost state (tied to the code by exact
comparison of allocation counts and `buf_capacity()` on every run, see C18).  A recycled set's buffer is
`clear(); extend(batch)`ed, its position vector cleared and pushed to: -/

/-- however many batches a recycled record set receives, its buffer never has more than twice the room of the
largest batch (or the minimum non-zero capacity of a `Vec<u8>`): memory does not grow with the input length -/
theorem recycled_buffer_memory_bounded (M : Nat) (c : SeqIo.Alloc.Cap) (batches : List Nat)
    (hb : ∀ n ∈ batches, n ≤ M) (hc : c.lb ≤ max 8 (2 * M)) :
    (batches.foldl (fun c n => (c.extend 8 n).1) c).lb ≤ max 8 (2 * M) :=
  SeqIo.Alloc.extend_history_bound 8 M c batches hb hc

/-- the same for the vector of record positions (one push per record of the batch) -/
theorem recycled_positions_memory_bounded (M : Nat) (c : SeqIo.Alloc.Cap) (batchSizes : List Nat)
    (hb : ∀ n ∈ batchSizes, n ≤ M) (hc : c.lb ≤ max 4 (2 * M)) :
    (batchSizes.foldl (fun c n => (c.push 4 n).1) c).lb ≤ max 4 (2 * M) :=
  SeqIo.Alloc.push_history_bound 4 M c batchSizes hb hc

/-- a fresh set (capacity 0) satisfies the hypothesis -/
example : ({ lb := 0 } : SeqIo.Alloc.Cap).lb ≤ max 8 (2 * 100) := by decide

end SeqIo.Thm.C16
