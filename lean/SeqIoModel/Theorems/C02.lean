import SeqIoModel.Proofs.FastqStream
import SeqIoModel.Proofs.FastqStreamVerdict
/-!
# C02 – FASTQ reading returns exactly the valid four-line records and the first error
-/

namespace SeqIo.Thm.C02
open SeqIo SeqIo.Fastq SeqIo.FillProofs

/-- For EVERY input, capacity ≥ 3, never-refusing policy, read script without failures and number of
calls: the reader returns S's records (header, sequence, quality, line and byte of the record) in
order, then S's first error with all of its fields exactly once, then end of input forever.  No panic,
no fuel exhaustion, no buffer-limit error. -/
theorem fastq_reading_is_spec (inp : List UInt8) (cap : Nat) (hcap : 3 ≤ cap) (pol : Pol) (hpol : PolOk pol)
    (script : List ReadEv) (hs : NoFail script) (chunk : Nat) (k : Nat) :
    runNexts k (mkReader inp cap pol script chunk) = (specObs inp ++ List.replicate k Obs.none).take k :=
  fastq_next_stream inp cap hcap pol hpol script hs chunk k

/-- the same for the crate's default policy (`StdPolicy`), which the hypothesis `PolOk` does not cover -/
theorem fastq_reading_is_spec_std (inp : List UInt8) (cap : Nat) (hcap : 3 ≤ cap)
    (script : List ReadEv) (hs : NoFail script) (chunk : Nat) (k : Nat) :
    runNexts k (mkReader inp cap PolDesc.std.toPol script chunk) = (specObs inp ++ List.replicate k Obs.none).take k :=
  fastq_next_stream_std inp cap hcap script hs chunk k

/-- The length verdict on the property's claimed domain, terminated quality line: if sequence and
quality line end with the same terminator, the group is a record iff the field lengths are equal. -/
theorem length_verdict_terminated (h s p q : List UInt8) (byte line : Nat)
    (hh : h.head? = some AT) (hp : p.head? = some PLUS)
    (hterm : s.getLast? = some CR ↔ q.getLast? = some CR) :
    (∃ r, Spec.fqGroup false h s p q byte line false = .record r) ↔ (trimCr s).length = (trimCr q).length :=
  fqGroup_length_verdict h s p q byte line hh hp hterm

/-- … and for a quality line ended by the end of the input (which counts as either terminator) the
verdict is the comparison of the field lengths, unconditionally (this is what the pinned tree got
wrong in both directions: findings D3 and D10) -/
theorem length_verdict_end_of_input (h s p q : List UInt8) (byte line : Nat)
    (hh : h.head? = some AT) (hp : p.head? = some PLUS) :
    (∃ r, Spec.fqGroup false h s p q byte line true = .record r) ↔ (trimCr s).length = (trimCr q).length :=
  fqGroup_length_verdict_eof h s p q byte line hh hp

/-- non-vacuity -/
example : specObs [64, 97, 10, 65, 67, 10, 43, 10, 73, 73, 10, 64] =
    [.record [97] [65, 67] [73, 73] 1 0, .error (.unexpectedEnd { line := 5, id := none })] := by decide

end SeqIo.Thm.C02
