import SeqIoModel.Proofs.SerdeRoundtrip
/-!
# C19 – owned records and record sets survive serialisation

`ser*` / `de*` model what `#[derive(Serialize, Deserialize)]` does on the serde data model; the JSON
text `serde_json` produces is compared byte-exactly with `Json.render (ser x)` on every run, and the
real round trip is executed there.  What is proved: deserialising the serialised value gives back
the identical value – all fields, including offsets beyond `npos` that a reused set still carries –
hence iterating the result yields the same records with the same contents.
-/

namespace SeqIo.Thm.C19
open SeqIo SeqIo.Serde

theorem fasta_owned_roundtrip (r : FaOwned) : deFaOwned (serFaOwned r) = some r := deFaOwned_ser r
theorem fastq_owned_roundtrip (r : FqOwned) : deFqOwned (serFqOwned r) = some r := deFqOwned_ser r
theorem fasta_record_set_roundtrip (rs : Fasta.RecordSet) : deFaSet (serFaSet rs) = some rs := deFaSet_ser rs
theorem fastq_record_set_roundtrip (rs : Fastq.RecordSet) : deFqSet (serFqSet rs) = some rs := deFqSet_ser rs

/-- a reused set with stale offsets beyond its length -/
example : deFaSet (serFaSet { buffer := [62, 97, 10, 65], positions := [⟨0, [2, 4]⟩, ⟨9, [11, 15]⟩], npos := 1 }) =
    some { buffer := [62, 97, 10, 65], positions := [⟨0, [2, 4]⟩, ⟨9, [11, 15]⟩], npos := 1 } :=
  deFaSet_ser _

end SeqIo.Thm.C19
