import SeqIoModel.Proofs.FastaStream
import SeqIoModel.Proofs.FastqStream
import SeqIoModel.Proofs.FastaHistoryTotal
import SeqIoModel.Proofs.FastqHistorySafe
import SeqIoModel.Proofs.FastqHistoryGenuine
import SeqIoModel.Proofs.FastaOrderAfterFault
import SeqIoModel.Proofs.FastqOrderAfterFault
/-!
# C06 – readers are total: no panic, hang or fabricated record

Every slice, index and checked subtraction of the Rust code is a checked operation in M that yields
`Out.panic`; every loop takes fuel and yields `Out.fuel` when it runs out.  "No panic" and "no hang"
are therefore theorems about M.  Proved so far (this file): all `next()` histories on all inputs,
capacities and chunkings, FASTA also with policies that refuse.  Histories with record sets, seeks
and injected source failures are theorems of `Proofs/*History*.lean` when present (see the evidence
file for what the current tree contains) and are otherwise covered by the correspondence run and
the membership oracle only – the open finding D9 lives there.
-/

namespace SeqIo.Thm.C06
open SeqIo SeqIo.FillProofs

/-- FASTA: from every state reachable by `next` calls (policy may refuse): no panic, no fuel
exhaustion, in the call and in the views of the returned record; the result is a record / end of
input, the invalid-start error, or the buffer-limit error -/
theorem fasta_next_total {inp : List UInt8} {r : Fasta.Reader} {fuel : Nat} (h : Fasta.InvW inp r)
    (hfuel : inp.length < fuel) :
    (Fasta.next fuel r).2 ≠ .panic ∧ (Fasta.next fuel r).2 ≠ .fuel ∧
    Fasta.observe (Fasta.next fuel r).1 (Fasta.next fuel r).2 ≠ .panic ∧
    Fasta.observe (Fasta.next fuel r).1 (Fasta.next fuel r).2 ≠ .fuel ∧
    ((∃ b, (Fasta.next fuel r).2 = .ok b) ∨ (∃ ln c, (Fasta.next fuel r).2 = .err (.invalidStart ln c)) ∨
      (Fasta.next fuel r).2 = .err .bufferLimit) :=
  ⟨Fasta.invW_no_panic h hfuel, Fasta.invW_fuel_enough h hfuel,
   (Fasta.invW_observe_no_panic h hfuel).1, (Fasta.invW_observe_no_panic h hfuel).2,
   Fasta.invW_next_result h hfuel⟩

/-- the initial state satisfies the invariant for every input, capacity ≥ 3, policy that answers
more than it is passed (or refuses) and failure-free script -/
theorem fasta_initial (inp : List UInt8) (cap : Nat) (hcap : 3 ≤ cap) (pol : Pol)
    (hpol : Fasta.PolWfPos pol) (script : List ReadEv) (hs : NoFail script) (chunk : Nat) :
    Fasta.InvW inp (Fasta.mkReader inp cap pol script chunk) :=
  Fasta.invW_mkReader inp cap hcap pol hpol script hs chunk

/-- genuine records only, also after errors and after the end: every observation of a `next()`
history is S's (a record of the input, S's error, end of input) up to the first refusal -/
theorem fasta_genuine_until_refusal (inp : List UInt8) (cap : Nat) (hcap : 3 ≤ cap) (pol : Pol)
    (hpol : Fasta.PolWfPos pol) (script : List ReadEv) (hs : NoFail script) (chunk k : Nat) :
    ∃ j, j ≤ k ∧ (Fasta.runNexts k (Fasta.mkReader inp cap pol script chunk)).take j =
        ((Fasta.specObs inp ++ List.replicate k Fasta.Obs.none).take k).take j ∧
      (j < k → (Fasta.runNexts k (Fasta.mkReader inp cap pol script chunk))[j]? = some (Fasta.Obs.error .bufferLimit)) :=
  Fasta.fasta_next_stream_refusing inp cap hcap pol hpol script hs chunk k

/-- FASTQ: from every state reachable by `next` calls: invariant preserved, no panic (call and views),
enough fuel -/
theorem fastq_next_total (inp : List UInt8) (r : Fastq.Reader) (h : Fastq.Inv inp r) :
    Fastq.Inv inp (Fastq.next (opFuel r.br.src.inp.length r.br.src.script.length) r).1 ∧
    (Fastq.next (opFuel r.br.src.inp.length r.br.src.script.length) r).2 ≠ .panic ∧
    (Fastq.next (opFuel r.br.src.inp.length r.br.src.script.length) r).2 ≠ .fuel := by
  have hf : r.br.src.inp.length + 2 ≤ opFuel r.br.src.inp.length r.br.src.script.length := by
    unfold opFuel; omega
  exact ⟨Fastq.next_preserves_inv inp _ r h hf, (Fastq.no_panic inp _ r h hf).1, Fastq.fuel_enough inp r h⟩

/-- after the first error every further read reports end of input (FASTQ stream, all inputs): the
stream is S's items followed by `none` forever -/
theorem fastq_after_error_end (inp : List UInt8) (cap : Nat) (hcap : 3 ≤ cap) (pol : Pol) (hpol : Fastq.PolGrows pol)
    (script : List ReadEv) (hs : NoFail script) (chunk : Nat) (k : Nat) :
    Fastq.runNexts k (Fastq.mkReader inp cap pol script chunk) =
      (Fastq.specObs inp ++ List.replicate k Fastq.Obs.none).take k :=
  Fastq.fastq_next_stream_polGrows inp cap hcap pol hpol script hs chunk k

/-- FASTA, full strength: for EVERY input, capacity ≥ 3, policy that answers more than it is passed
or refuses, read script (failures of any kind at any call, interrupted reads), scripted seek failures
and history of operations (reads of all kinds, set iteration, seeks, calls after errors and after the
end): no observation is a panic or fuel exhaustion … -/
theorem fasta_any_history_total (inp : List UInt8) (cap : Nat) (hcap : 3 ≤ cap) (pol : Pol)
    (hpol : Fasta.PolWfPos pol) (script : List ReadEv) (chunk : Nat) (seekFails : List (Nat × IoKind))
    (ops : List Fasta.Hist.Op) :
    ∀ o ∈ Fasta.Hist.runM (Fasta.Hist.mkMStF inp cap pol script chunk seekFails) ops, o ≠ .panic ∧ o ≠ .fuel :=
  Fasta.Hist.fasta_history_total inp cap hcap pol hpol script chunk seekFails ops

/-- … and every record shown by any observation (next, owned, record-set iteration) is a record of
the input (`Genuine`: head and lines of some record of S) – no fabricated or truncated record, also
after errors (this is the statement the former finding D9 violated) -/
theorem fasta_any_history_genuine (inp : List UInt8) (cap : Nat) (hcap : 3 ≤ cap) (pol : Pol)
    (hpol : Fasta.PolWfPos pol) (script : List ReadEv) (chunk : Nat) (seekFails : List (Nat × IoKind))
    (ops : List Fasta.Hist.Op) :
    ∀ o ∈ Fasta.Hist.runM (Fasta.Hist.mkMStF inp cap pol script chunk seekFails) ops,
      Fasta.Hist.Genuine (Fasta.Hist.items inp) o :=
  Fasta.Hist.fasta_history_genuine inp cap hcap pol hpol script chunk seekFails ops

/-- FASTQ, totality at full strength: every input, capacity ≥ 1, policy that answers more than it is
passed or refuses, read script with failures anywhere, scripted seek failures, history: no panic, no
fuel exhaustion -/
theorem fastq_any_history_total (inp : List UInt8) (cap : Nat) (hcap : 1 ≤ cap) (pol : Pol)
    (hpol : PolWf pol) (script : List ReadEv) (chunk : Nat) (seekFails : List (Nat × IoKind))
    (ops : List Fastq.Hist.Op) :
    ∀ o ∈ Fastq.Hist.runM (Fastq.Hist.mkM inp cap pol script chunk seekFails) ops, o ≠ .panic ∧ o ≠ .fuel :=
  Fastq.fastq_history_total inp cap hcap pol hpol script chunk seekFails ops

/-- FASTQ, genuine records at full strength: for every input, capacity, policy that may refuse, read
script with failures anywhere, scripted seek failures and history, every record shown by any observation
(next, owned, record-set iteration) is a record of S -/
theorem fastq_any_history_genuine (inp : List UInt8) (cap : Nat) (hcap : 3 ≤ cap) (pol : Pol)
    (hpol : PolWf pol) (script : List ReadEv) (chunk : Nat) (seekFails : List (Nat × IoKind))
    (ops : List Fastq.Hist.Op) (hops : ∀ op ∈ ops, op.wf = true) :
    ∀ o ∈ Fastq.Hist.runM (Fastq.Hist.mkM inp cap pol script chunk seekFails) ops,
      ∀ x ∈ Fastq.recsOf o, x ∈ Fastq.allRecs inp :=
  Fastq.fastq_history_genuine inp cap hcap pol hpol script chunk seekFails ops hops

/-! ## "… or further genuine records IN ORDER": the order of what is delivered after errors -/

/-- FASTA: under ARBITRARY read scripts (failures anywhere), scripted seek failures and refusing
policies, along any history without seeks the records returned by single reads (`next` / owned
reads; (header, concatenated sequence)) form, in the order they were returned, a sub-sequence of S's
records – none twice, none out of order, whatever errors occurred in between and whatever set reads
were interleaved -/
theorem fasta_records_in_order_after_faults (inp : List UInt8) (cap : Nat) (hcap : 3 ≤ cap) (pol : Pol)
    (hpol : Fasta.PolWfPos pol) (script : List ReadEv) (chunk : Nat) (seekFails : List (Nat × IoKind))
    (ops : List Fasta.Hist.Op) (hsf : Fasta.Hist.SeekFree ops) :
    List.Sublist
      (Fasta.Hist.singles (Fasta.Hist.runM (Fasta.Hist.mkMStF inp cap pol script chunk seekFails) ops))
      ((Fasta.Hist.items inp).recs.map fun rc => (rc.head, rc.seq)) :=
  Fasta.Hist.fasta_records_in_order_after_faults inp cap hcap pol hpol script chunk seekFails ops hsf

/-- … and so does everything delivered – single reads AND the batches of record set reads (each
batch as a `dump` of the set right after the call shows it), in the order of the calls -/
theorem fasta_all_delivered_in_order_after_faults (inp : List UInt8) (cap : Nat) (hcap : 3 ≤ cap)
    (pol : Pol) (hpol : Fasta.PolWfPos pol) (script : List ReadEv) (chunk : Nat)
    (seekFails : List (Nat × IoKind)) (ops : List Fasta.Hist.Op) (hsf : Fasta.Hist.SeekFree ops) :
    List.Sublist (Fasta.Hist.delivered (Fasta.Hist.mkMStF inp cap pol script chunk seekFails) ops)
      ((Fasta.Hist.items inp).recs.map fun rc => (rc.head, rc.seq)) :=
  Fasta.Hist.fasta_all_delivered_in_order_after_faults inp cap hcap pol hpol script chunk seekFails ops hsf

/-- … and every batch is a contiguous segment of S's records (any history, seeks included): a `dump`
right after a record set read that returned `c` records shows the records `k0, …, k0 + c - 1` -/
theorem fasta_batch_contiguous_after_faults (inp : List UInt8) (cap : Nat) (hcap : 3 ≤ cap)
    (pol : Pol) (hpol : Fasta.PolWfPos pol) (script : List ReadEv) (chunk : Nat)
    (seekFails : List (Nat × IoKind)) (ops : List Fasta.Hist.Op) (j : Nat) (n : Option Nat) (c : Nat)
    (o : Fasta.Hist.ObsH)
    (h : Fasta.Hist.runM (Fasta.Hist.mkMStF inp cap pol script chunk seekFails)
        (ops ++ [.set j n, .dump j]) =
      Fasta.Hist.runM (Fasta.Hist.mkMStF inp cap pol script chunk seekFails) ops ++ [.batch c, o]) :
    ∃ k0, 1 ≤ c ∧ k0 + c ≤ (Fasta.Hist.items inp).recs.length ∧
      o = .dump ((((Fasta.Hist.items inp).recs.drop k0).take c).map Fasta.Hist.view) :=
  Fasta.Hist.fasta_batch_contiguous_after_faults inp cap hcap pol hpol script chunk seekFails ops j n c o h

/-- FASTQ: the same three statements (well-formed histories, as in `fastq_any_history_genuine`) -/
theorem fastq_records_in_order_after_faults (inp : List UInt8) (cap : Nat) (hcap : 3 ≤ cap) (pol : Pol)
    (hpol : PolWf pol) (script : List ReadEv) (chunk : Nat) (seekFails : List (Nat × IoKind))
    (ops : List Fastq.Hist.Op) (hops : ∀ op ∈ ops, op.wf = true) (hsf : Fastq.Hist.SeekFree ops) :
    List.Sublist
      (Fastq.Hist.singles (Fastq.Hist.runM (Fastq.Hist.mkM inp cap pol script chunk seekFails) ops))
      (Fastq.allRecs inp) :=
  Fastq.fastq_records_in_order_after_faults inp cap hcap pol hpol script chunk seekFails ops hops hsf

theorem fastq_all_delivered_in_order_after_faults (inp : List UInt8) (cap : Nat) (hcap : 3 ≤ cap)
    (pol : Pol) (hpol : PolWf pol) (script : List ReadEv) (chunk : Nat)
    (seekFails : List (Nat × IoKind)) (ops : List Fastq.Hist.Op) (hops : ∀ op ∈ ops, op.wf = true)
    (hsf : Fastq.Hist.SeekFree ops) :
    List.Sublist (Fastq.Hist.delivered (Fastq.Hist.mkM inp cap pol script chunk seekFails) ops)
      (Fastq.allRecs inp) :=
  Fastq.fastq_all_delivered_in_order_after_faults inp cap hcap pol hpol script chunk seekFails ops hops hsf

theorem fastq_batch_contiguous_after_faults (inp : List UInt8) (cap : Nat) (hcap : 3 ≤ cap)
    (pol : Pol) (hpol : PolWf pol) (script : List ReadEv) (chunk : Nat)
    (seekFails : List (Nat × IoKind)) (ops : List Fastq.Hist.Op) (hops : ∀ op ∈ ops, op.wf = true)
    (j : Nat) (n : Option Nat) (hwf : (Fastq.Hist.Op.set j n).wf = true) (c : Nat) (o : Fastq.Hist.ObsH)
    (h : Fastq.Hist.runM (Fastq.Hist.mkM inp cap pol script chunk seekFails) (ops ++ [.set j n, .dump j]) =
      Fastq.Hist.runM (Fastq.Hist.mkM inp cap pol script chunk seekFails) ops ++ [.batch c, o]) :
    ∃ (k : Nat) (ys : List Spec.FqRec), 1 ≤ c ∧ ys.length = c ∧
      ((Spec.fastq inp).drop k).take c = ys.map Spec.FqItem.record ∧
      o = .dump (ys.map Fastq.Hist.recOf) :=
  Fastq.fastq_batch_contiguous_after_faults inp cap hcap pol hpol script chunk seekFails ops hops j n hwf c o h

end SeqIo.Thm.C06
