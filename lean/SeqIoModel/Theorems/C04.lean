import SeqIoModel.Proofs.FastaStream
import SeqIoModel.Proofs.FastqStream
import SeqIoModel.Proofs.FastaHistory
import SeqIoModel.Proofs.FastqHistorySeek
import SeqIoModel.Proofs.AbstractReader
import SeqIoModel.Proofs.SetIndependence
/-!
# C04 – all ways of reading one reader deliver the same records exactly once

`Model/History.lean` defines the history-level machine (`Hist.stepM`: reader plus three live record
sets, operations next / owned / set j (plain or exact n) / dump j / pos / seekRec i) and the abstract
reader A (`Hist.acceptA`: a cursor into S's records; a plain set read may deliver any m ≥ 1 records,
an exact read exactly min n remaining, end of input only when nothing is left, sets are snapshots).
FASTA: EVERY finite history on every input, capacity, growing policy and chunking is accepted by A.
FASTQ: single and owned reads here; histories in `Proofs/FastqHistory*.lean` when present (see the
evidence), otherwise correspondence run + acceptor oracle.
-/

namespace SeqIo.Thm.C04
open SeqIo SeqIo.FillProofs

theorem fasta_single_reads_exactly_once (inp : List UInt8) (cap : Nat) (hcap : 3 ≤ cap) (pol : Pol)
    (hpol : Fasta.PolGrows pol) (script : List ReadEv) (hs : NoFail script) (chunk : Nat) (k : Nat) :
    Fasta.runNexts k (Fasta.mkReader inp cap pol script chunk) =
      (Fasta.specObs inp ++ List.replicate k Fasta.Obs.none).take k :=
  Fasta.fasta_next_stream_polGrows inp cap hcap pol hpol script hs chunk k

theorem fastq_single_reads_exactly_once (inp : List UInt8) (cap : Nat) (hcap : 3 ≤ cap) (pol : Pol)
    (hpol : Fastq.PolGrows pol) (script : List ReadEv) (hs : NoFail script) (chunk : Nat) (k : Nat) :
    Fastq.runNexts k (Fastq.mkReader inp cap pol script chunk) =
      (Fastq.specObs inp ++ List.replicate k Fastq.Obs.none).take k :=
  Fastq.fastq_next_stream_polGrows inp cap hcap pol hpol script hs chunk k

/-- FASTA: every history of single reads, owned reads, record-set reads, exact-count reads, set
iteration, position queries and seeks to record positions is accepted by the abstract reader -/
theorem fasta_all_histories_accepted (inp : List UInt8) (cap : Nat) (hcap : 3 ≤ cap) (pol : Pol)
    (hpol : Fasta.PolGrows pol) (script : List ReadEv) (hs : NoFail script) (chunk : Nat)
    (ops : List Fasta.Hist.Op) :
    Fasta.Hist.runA (Fasta.Hist.items inp) Fasta.Hist.aInit ops
      (Fasta.Hist.runM (Fasta.Hist.mkMSt inp cap pol script chunk) ops) = true :=
  Fasta.Hist.fasta_history_accepted inp cap hcap pol hpol script hs chunk ops

/-- … in particular with the crate's default policy -/
theorem fasta_all_histories_accepted_std (inp : List UInt8) (cap : Nat) (hcap : 3 ≤ cap)
    (script : List ReadEv) (hs : NoFail script) (chunk : Nat) (ops : List Fasta.Hist.Op) :
    Fasta.Hist.runA (Fasta.Hist.items inp) Fasta.Hist.aInit ops
      (Fasta.Hist.runM (Fasta.Hist.mkMSt inp cap PolDesc.std.toPol script chunk) ops) = true :=
  Fasta.Hist.fasta_history_accepted_std inp cap hcap script hs chunk ops

/-- FASTQ: every history (operations as the harness generates them: set indices 0-2, exact counts ≥ 1)
of single reads, owned reads, record-set reads, exact-count reads, set iteration, position queries and
seeks to the position of any item – a record or the invalid group – is accepted by the FASTQ abstract
reader (`Model/HistoryFq.lean`: if an invalid record lies ahead, set reads deliver only records that
precede it and then report its error; afterwards end of input) -/
theorem fastq_all_histories_accepted (inp : List UInt8) (cap : Nat) (hcap : 3 ≤ cap) (pol : Pol)
    (hpol : Fastq.PolGrows pol) (script : List ReadEv) (hs : NoFail script) (chunk : Nat)
    (ops : List Fastq.Hist.Op) (hops : ∀ op ∈ ops, op.wf = true) :
    Fastq.Hist.accepted inp (Fastq.Hist.mkM inp cap pol script chunk) ops = true :=
  Fastq.fastq_history_accepted inp cap hcap pol hpol script hs chunk ops hops

/-- What acceptance by the abstract reader MEANS (pure statement about A): along any accepted seek-free
history the records delivered – single reads, owned reads and batches – are, concatenated in order,
exactly the next `deliveredCounts` records of S from the starting cursor: a contiguous, in-order,
duplicate-free segment, nothing lost, nothing invented -/
theorem accepted_means_in_order_exactly_once {it : Fasta.Hist.Items} {a : Fasta.Hist.AState}
    {ops : List Fasta.Hist.Op} {obs : List Fasta.Hist.ObsH}
    (hns : Fasta.Hist.SeekFree ops) (h : Fasta.Hist.runA it a ops obs = true) :
    ∃ a', Fasta.Hist.execA it a ops obs = some a' ∧
      a'.k = a.k + Fasta.Hist.deliveredCounts ops obs ∧
      Fasta.Hist.deliveredRecs it a ops obs =
        ((it.recs.drop a.k).take (Fasta.Hist.deliveredCounts ops obs)).map Fasta.Hist.view :=
  Fasta.Hist.runA_delivers hns h

/-- End to end (FASTA): for every input, capacity, growing policy, chunking and seek-free history of
reads of all kinds, what the concrete machine delivers is exactly the first `deliveredCounts` records of
S, in order, each once -/
theorem fasta_reads_deliver_each_record_once (inp : List UInt8) (cap : Nat) (hcap : 3 ≤ cap) (pol : Pol)
    (hpol : Fasta.PolGrows pol) (script : List ReadEv) (hs : NoFail script) (chunk : Nat)
    (ops : List Fasta.Hist.Op) (hns : Fasta.Hist.SeekFree ops) :
    Fasta.Hist.deliveredRecs (Fasta.Hist.items inp) Fasta.Hist.aInit ops
        (Fasta.Hist.runM (Fasta.Hist.mkMSt inp cap pol script chunk) ops) =
      ((Fasta.Hist.items inp).recs.take
        (Fasta.Hist.deliveredCounts ops (Fasta.Hist.runM (Fasta.Hist.mkMSt inp cap pol script chunk) ops))).map
        Fasta.Hist.view := by
  obtain ⟨a', _, _, h3⟩ := Fasta.Hist.runA_delivers hns
    (Fasta.Hist.fasta_history_accepted inp cap hcap pol hpol script hs chunk ops)
  simpa [Fasta.Hist.aInit] using h3

/-- batch sizes: a successful plain set read yields at least one record; an exact-count read yields
exactly the requested number unless fewer remain, in which case all of those (pure statements about A) -/
theorem accepted_batch_sizes {it : Fasta.Hist.Items} {a a' : Fasta.Hist.AState} {j m : Nat} :
    (Fasta.Hist.acceptA it a (.set j none) (.batch m) = some a' →
      1 ≤ m ∧ m ≤ it.recs.length - a.k ∧ a'.k = a.k + m) ∧
    (∀ n, Fasta.Hist.acceptA it a (.set j (some n)) (.batch m) = some a' →
      1 ≤ n ∧ 1 ≤ m ∧ m = min n (it.recs.length - a.k) ∧ a'.k = a.k + m) :=
  ⟨Fasta.Hist.accepted_batch_sizes_plain, fun _ => Fasta.Hist.accepted_batch_sizes_exact⟩

/-- earlier filled sets stay unchanged: a dump of set `j` shows exactly the batch it was last filled
with, whatever was read in between (other sets, single reads, seeks) -/
theorem accepted_sets_are_snapshots {it : Fasta.Hist.Items} {a a' : Fasta.Hist.AState} {j m : Nat}
    {n : Option Nat} {mid : List Fasta.Hist.Op} {obsMid : List Fasta.Hist.ObsH} {l : List Fasta.Hist.RecView}
    (hlen : mid.length = obsMid.length) (hmid : ∀ n', Fasta.Hist.Op.set j n' ∉ mid)
    (h : Fasta.Hist.execA it a (.set j n :: (mid ++ [.dump j])) (.batch m :: (obsMid ++ [.dump l])) = some a') :
    l = ((it.recs.drop a.k).take m).map Fasta.Hist.view :=
  (Fasta.Hist.accepted_dump_snapshot hlen hmid h).1

/-- FASTQ: the same reading of acceptance – delivered records are a contiguous segment of S's items,
all of them records -/
theorem fastq_accepted_means_in_order_exactly_once {items : List Spec.FqItem} {a : Fastq.Hist.AState}
    {ops : List Fastq.Hist.Op} {obs : List Fastq.Hist.ObsH}
    (hns : Fastq.Hist.SeekFree ops) (hne : Fastq.Hist.NoErrObs obs)
    (h : Fastq.Hist.acceptsA items a ops obs = true) :
    ∃ a', Fastq.Hist.execA items a ops obs = some a' ∧
      a'.k = a.k + Fastq.Hist.deliveredCounts ops obs ∧
      Fastq.Hist.IsSegment items a.k (a.k + Fastq.Hist.deliveredCounts ops obs)
        (Fastq.Hist.deliveredRecs items a ops obs) :=
  Fastq.Hist.acceptsA_delivers hns hne h

/-! ## "a refilled record set contains only the new batch" – whatever the set held before, from whichever reader

A record set is a value of its own: it may have been filled by the same reader, by ANOTHER reader over another
input, or never.  What a set read does – the new reader state, the result and everything a caller can see of the set
afterwards – does not depend on the previous contents of the set (`Proofs/SetIndependence.lean`; the error clause is
exact: after an error both sets show nothing, except when a NEW reader fails in its very first fill, which happens
before the set is touched – then the set is left as it was). -/

theorem fasta_shared_set_shows_only_second_reader (f1 f2 : Nat) (r1 r2 : Fasta.Reader) (rs : Fasta.RecordSet)
    (n1 n2 : Option Nat)
    (hok : (Fasta.readRecordSetExact f2 r2 (Fasta.readRecordSetExact f1 r1 rs n1).2.1 n2).2.2 = .ok true) :
    Fasta.Hist.obsDump (Fasta.readRecordSetExact f2 r2 (Fasta.readRecordSetExact f1 r1 rs n1).2.1 n2).2.1 =
      Fasta.Hist.obsDump (Fasta.readRecordSetExact f2 r2 {} n2).2.1 :=
  (SetIndependence.Fa.fasta_shared_set_shows_only_second_reader f1 f2 r1 r2 rs n1 n2 hok).1

theorem fastq_shared_set_shows_only_second_reader (f1 f2 : Nat) (r1 r2 : Fastq.Reader) (rs : Fastq.RecordSet)
    (n1 n2 : Option Nat)
    (hok : (Fastq.readRecordSetExact f2 r2 (Fastq.readRecordSetExact f1 r1 rs n1).2.1 n2).2.2 = .ok true) :
    (Fastq.readRecordSetExact f2 r2 (Fastq.readRecordSetExact f1 r1 rs n1).2.1 n2).2.1 =
      (Fastq.readRecordSetExact f2 r2 {} n2).2.1 :=
  (SetIndependence.Fq.fastq_shared_set_shows_only_second_reader f1 f2 r1 r2 rs n1 n2 hok).1

end SeqIo.Thm.C04
