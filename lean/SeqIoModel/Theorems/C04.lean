import SeqIoModel.Proofs.FastaStream
import SeqIoModel.Proofs.FastqStream
/-!
# C04 – all ways of reading one reader deliver the same records exactly once

Proved in this file: single-record reads and owned-record iterators (`RecordsIter::next` is
`Reader::next` followed by `to_owned_record`, whose content is `head` and the concatenated lines
that `Obs.record` already carries) deliver every record of S exactly once, in order, then end of
input.  Histories mixing record-set reads, exact-count reads and seeks are theorems of
`Proofs/*History*.lean` when present (see evidence); otherwise they are covered by the correspondence
run and the abstract-reader oracle (acceptor A) only.
-/

namespace SeqIo.Thm.C04
open SeqIo SeqIo.FillProofs

theorem fasta_single_reads_exactly_once (inp : List UInt8) (cap : Nat) (hcap : 3 ≤ cap) (pol : Pol)
    (hpol : Fasta.PolGrows pol) (script : List ReadEv) (hs : NoFail script) (chunk : Nat) (k : Nat) :
    Fasta.runNexts k (Fasta.mkReader inp cap pol script chunk) =
      (Fasta.specObs inp ++ List.replicate k Fasta.Obs.none).take k :=
  Fasta.fasta_next_stream_polGrows inp cap hcap pol hpol script hs chunk k

theorem fastq_single_reads_exactly_once (inp : List UInt8) (cap : Nat) (hcap : 3 ≤ cap) (pol : Pol)
    (hpol : Fastq.PolGrows pol) (script : List ReadEv) (hs : NoFail script) (chunk : Nat) (k : Nat) :
    Fastq.runNexts k (Fastq.mkReader inp cap pol script chunk) =
      (Fastq.specObs inp ++ List.replicate k Fastq.Obs.none).take k :=
  Fastq.fastq_next_stream_polGrows inp cap hcap pol hpol script hs chunk k

end SeqIo.Thm.C04
