import SeqIoModel.Proofs.FastaStream
import SeqIoModel.Proofs.FastqStream
import SeqIoModel.Proofs.FastaHistory
import SeqIoModel.Proofs.FastqHistorySeek
/-!
# C04 – all ways of reading one reader deliver the same records exactly once

`Model/History.lean` defines the history-level machine (`Hist.stepM`: reader plus three live record
sets, operations next / owned / set j (plain or exact n) / dump j / pos / seekRec i) and the abstract
reader A (`Hist.acceptA`: a cursor into S's records; a plain set read may deliver any m ≥ 1 records,
an exact read exactly min n remaining, end of input only when nothing is left, sets are snapshots).
FASTA: EVERY finite history on every input, capacity, growing policy and chunking is accepted by A.
FASTQ: single and owned reads here; histories in `Proofs/FastqHistory*.lean` when present (see the
evidence), otherwise correspondence run + acceptor oracle.
-/

namespace SeqIo.Thm.C04
open SeqIo SeqIo.FillProofs

theorem fasta_single_reads_exactly_once (inp : List UInt8) (cap : Nat) (hcap : 3 ≤ cap) (pol : Pol)
    (hpol : Fasta.PolGrows pol) (script : List ReadEv) (hs : NoFail script) (chunk : Nat) (k : Nat) :
    Fasta.runNexts k (Fasta.mkReader inp cap pol script chunk) =
      (Fasta.specObs inp ++ List.replicate k Fasta.Obs.none).take k :=
  Fasta.fasta_next_stream_polGrows inp cap hcap pol hpol script hs chunk k

theorem fastq_single_reads_exactly_once (inp : List UInt8) (cap : Nat) (hcap : 3 ≤ cap) (pol : Pol)
    (hpol : Fastq.PolGrows pol) (script : List ReadEv) (hs : NoFail script) (chunk : Nat) (k : Nat) :
    Fastq.runNexts k (Fastq.mkReader inp cap pol script chunk) =
      (Fastq.specObs inp ++ List.replicate k Fastq.Obs.none).take k :=
  Fastq.fastq_next_stream_polGrows inp cap hcap pol hpol script hs chunk k

/-- FASTA: every history of single reads, owned reads, record-set reads, exact-count reads, set
iteration, position queries and seeks to record positions is accepted by the abstract reader -/
theorem fasta_all_histories_accepted (inp : List UInt8) (cap : Nat) (hcap : 3 ≤ cap) (pol : Pol)
    (hpol : Fasta.PolGrows pol) (script : List ReadEv) (hs : NoFail script) (chunk : Nat)
    (ops : List Fasta.Hist.Op) :
    Fasta.Hist.runA (Fasta.Hist.items inp) Fasta.Hist.aInit ops
      (Fasta.Hist.runM (Fasta.Hist.mkMSt inp cap pol script chunk) ops) = true :=
  Fasta.Hist.fasta_history_accepted inp cap hcap pol hpol script hs chunk ops

/-- … in particular with the crate's default policy -/
theorem fasta_all_histories_accepted_std (inp : List UInt8) (cap : Nat) (hcap : 3 ≤ cap)
    (script : List ReadEv) (hs : NoFail script) (chunk : Nat) (ops : List Fasta.Hist.Op) :
    Fasta.Hist.runA (Fasta.Hist.items inp) Fasta.Hist.aInit ops
      (Fasta.Hist.runM (Fasta.Hist.mkMSt inp cap PolDesc.std.toPol script chunk) ops) = true :=
  Fasta.Hist.fasta_history_accepted_std inp cap hcap script hs chunk ops

/-- FASTQ: every history (operations as the harness generates them: set indices 0-2, exact counts ≥ 1)
of single reads, owned reads, record-set reads, exact-count reads, set iteration, position queries and
seeks to the position of any item – a record or the invalid group – is accepted by the FASTQ abstract
reader (`Model/HistoryFq.lean`: if an invalid record lies ahead, set reads deliver only records that
precede it and then report its error; afterwards end of input) -/
theorem fastq_all_histories_accepted (inp : List UInt8) (cap : Nat) (hcap : 3 ≤ cap) (pol : Pol)
    (hpol : Fastq.PolGrows pol) (script : List ReadEv) (hs : NoFail script) (chunk : Nat)
    (ops : List Fastq.Hist.Op) (hops : ∀ op ∈ ops, op.wf = true) :
    Fastq.Hist.accepted inp (Fastq.Hist.mkM inp cap pol script chunk) ops = true :=
  Fastq.fastq_history_accepted inp cap hcap pol hpol script hs chunk ops hops

end SeqIo.Thm.C04
