import SeqIoModel.Proofs.FastaScan
import SeqIoModel.Model.Spec
/-!
# C01 – FASTA reading returns exactly the records the format rules define

Property theorems only; helper lemmas live in `Proofs/`.
-/

namespace SeqIo.Thm.C01
open SeqIo SeqIo.Fasta

/-- The record scan is resumable (found case): a scan that finds the end of the record in a
window finds the same end, with the same line offsets, in every extension of the window –
the size of the buffer does not influence where a record ends. -/
theorem scan_window_independent_found (win ext : List UInt8) (i : Nat) (acc : List Nat)
    (sp : Nat) (acc1 : List Nat) (h : scan win i acc = (true, sp, acc1)) :
    scan (win ++ ext) i acc = (true, sp, acc1) :=
  scan_resume_found win ext i acc sp acc1 h

/-- The record scan is resumable (not-found case): continuing an unfinished scan from the
stored `search_pos` / `seq_pos` after the window has been extended (refill, growth) gives the
same result as scanning the extended window from the start. -/
theorem scan_window_independent_resume (win ext : List UInt8) (i : Nat) (acc : List Nat)
    (sp : Nat) (acc1 : List Nat) (h : scan win i acc = (false, sp, acc1)) :
    scan (win ++ ext) i acc = scan (win.drop (sp - i) ++ ext) sp acc1 :=
  scan_resume_notfound win ext i acc sp acc1 h

end SeqIo.Thm.C01
