import SeqIoModel.Proofs.FastaStream
/-!
# C01 – FASTA reading returns exactly the records the format rules define

`Fasta.runNexts k r` = what a caller sees from `k` consecutive `next()` calls of the concrete machine
M (`Model/Fasta.lean`, function-by-function mirror of `fasta.rs`); `Fasta.specObs inp` = the stream the
reference semantics S prescribes (`Model/Spec.lean`, line-based, no buffers).
-/

namespace SeqIo.Thm.C01
open SeqIo SeqIo.Fasta SeqIo.FillProofs

/-- For EVERY input, capacity ≥ 3, never-refusing policy, read script without failures (any chunking,
any pattern of interrupted reads) and number of calls: the reader returns exactly S's records – header,
sequence lines, 1-based line number and byte offset – in order, or S's single invalid-start error,
followed by end of input forever.  No panic, no fuel exhaustion, no buffer-limit error. -/
theorem fasta_reading_is_spec (inp : List UInt8) (cap : Nat) (hcap : 3 ≤ cap) (pol : Pol) (hpol : PolOk pol)
    (script : List ReadEv) (hs : NoFail script) (chunk : Nat) (k : Nat) :
    runNexts k (mkReader inp cap pol script chunk) = (specObs inp ++ List.replicate k Obs.none).take k :=
  fasta_next_stream inp cap hcap pol hpol script hs chunk k

/-- the invariant behind it is preserved by every `next()` call, and from it: no panic, enough fuel -/
theorem next_total (inp : List UInt8) (r : Reader) (fuel : Nat) (hi : Inv inp r) (hf : inp.length < fuel) :
    Inv inp (next fuel r).1 ∧ (next fuel r).2 ≠ .panic ∧ (next fuel r).2 ≠ .fuel ∧
      (next fuel r).2 ≠ .err .bufferLimit :=
  ⟨next_preserves_inv hi hf, no_panic hi hf, fuel_enough hi hf, no_bufferLimit hi hf⟩

/-- the record scan does not depend on the window it runs in (found case) -/
theorem scan_window_independent_found (win ext : List UInt8) (i : Nat) (acc : List Nat)
    (sp : Nat) (acc1 : List Nat) (h : scan win i acc = (true, sp, acc1)) :
    scan (win ++ ext) i acc = (true, sp, acc1) :=
  scan_resume_found win ext i acc sp acc1 h

/-- … and an unfinished scan resumed from the stored offsets equals a scan from the start -/
theorem scan_window_independent_resume (win ext : List UInt8) (i : Nat) (acc : List Nat)
    (sp : Nat) (acc1 : List Nat) (h : scan win i acc = (false, sp, acc1)) :
    scan (win ++ ext) i acc = scan (win.drop (sp - i) ++ ext) sp acc1 :=
  scan_resume_notfound win ext i acc sp acc1 h

/-- non-vacuity: a policy satisfying the hypothesis exists, and the theorem speaks about real records -/
example : PolOk (PolDesc.add 1).toPol := by
  intro h cur
  refine ⟨cur + 1, ?_, by omega⟩
  simp [PolDesc.toPol]

example : specObs [62, 97, 10, 65, 67, 10, 62, 98] =
    [.record [97] [[65, 67]] 1 0, .record [98] [] 3 6] := by decide

end SeqIo.Thm.C01
