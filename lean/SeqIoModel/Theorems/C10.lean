import SeqIoModel.Proofs.WriteRoundtrip
import SeqIoModel.Proofs.EndToEnd
/-!
# C10 – FASTA writing round-trips and wraps at the requested width

Statements about the writer model (`Model/Write.lean`, a line-by-line mirror of the `fasta::write_*`
functions and record methods, compared byte-exactly with the real functions on every run) and the
reference parser S.  The lift from S to the real reader at every capacity is C01.
-/

namespace SeqIo.Thm.C10
open SeqIo SeqIo.Spec SeqIo.Write

/-- `write_to` / `OwnedRecord::write`: header and sequence parse back exactly. -/
theorem write_to_roundtrip (h s : List UInt8) (hh : HeadOk h) (hs : SeqOk s) :
    ∃ r : FaRec, Spec.fasta (Write.faTo h s) = .records [r] ∧ r.head = h ∧ r.seq = s ∧ r.byte = 0 ∧ r.line = 1 :=
  WriteProofs.fasta_faTo_roundtrip h s hh hs

/-- `write_parts`: id and optional description. -/
theorem write_parts_roundtrip (id : List UInt8) (desc : Option (List UInt8)) (s : List UInt8)
    (hh : HeadOk (id ++ (match desc with | some d => SP :: d | none => []))) (hs : SeqOk s) :
    ∃ r : FaRec, Spec.fasta (Write.faParts id desc s) = .records [r] ∧
      r.head = id ++ (match desc with | some d => SP :: d | none => []) ∧ r.seq = s :=
  WriteProofs.fasta_faParts_roundtrip id desc s hh hs

/-- many records written back to back parse to the same list -/
theorem write_many_roundtrip (rs : List (List UInt8 × List UInt8))
    (hok : ∀ p ∈ rs, HeadOk p.1 ∧ SeqOk p.2) :
    ∃ recs : List FaRec, Spec.fasta (rs.flatMap fun p => Write.faTo p.1 p.2) = .records recs ∧
      recs.map (fun r => (r.head, r.seq)) = rs :=
  WriteProofs.fasta_many_roundtrip rs hok

/-- wrapped output: the chunks concatenate to the sequence, none is empty or longer than the
width, and all but the last have exactly the width -/
theorem wrap_widths (w : Nat) (s : List UInt8) (hw : 0 < w) :
    (Write.chunks w s).flatten = s ∧
    (∀ c ∈ Write.chunks w s, 0 < c.length ∧ c.length ≤ w) ∧
    (∀ c ∈ (Write.chunks w s).dropLast, c.length = w) :=
  ⟨WriteProofs.chunks_flatten w s hw, WriteProofs.chunks_width w s hw⟩

/-- for a non-empty sequence the wrapped output is the same whether the sequence is supplied
whole or split into arbitrary (even empty) chunks (`write_wrap_seq_iter` vs `write_wrap_seq`) -/
theorem wrap_iter_eq_whole (segs : List (List UInt8)) (w : Nat) (hw : 0 < w) (hne : segs.flatten ≠ []) :
    Write.wrapSeqIter segs w = Write.wrapSeq segs.flatten w :=
  WriteProofs.wrapSeqIter_eq_wrapSeq segs w hw hne

/-- wrapped records parse back to the header and the unwrapped sequence -/
theorem write_wrap_roundtrip (h s : List UInt8) (w : Nat) (hw : 0 < w) (hh : HeadOk h) (hs : SeqOk s) :
    ∃ out r, Write.faOwnedWrap h s w = some out ∧ Spec.fasta out = .records [r] ∧ r.head = h ∧ r.seq = s :=
  WriteProofs.fasta_wrap_roundtrip h s w hw hh hs

/-- `RefRecord::write` (header, then the record's sequence lines through `write_seq_iter`) writes
what `write_to` writes for the concatenated sequence – so it round-trips too -/
theorem ref_record_write_eq (h : List UInt8) (lines : List (List UInt8)) :
    Write.faRefWrite h lines = Write.faTo h lines.flatten := by
  simp [Write.faRefWrite, Write.faTo, Write.seqIter, Write.seq]

/-- `RefRecord::write_wrap` (lines through `write_wrap_seq_iter`) equals `OwnedRecord::write_wrap` of the
concatenated sequence, for a non-empty sequence and any line structure of the input record -/
theorem ref_record_write_wrap_eq (h : List UInt8) (lines : List (List UInt8)) (w : Nat) (hw : 0 < w)
    (hne : lines.flatten ≠ []) :
    Write.faRefWrap h lines w = Write.faOwnedWrap h lines.flatten w := by
  simp [Write.faRefWrap, Write.faOwnedWrap, WriteProofs.wrapSeqIter_eq_wrapSeq lines w hw hne]

/-- non-vacuity: the hypotheses are satisfiable and the statement is about a real record -/
example : HeadOk [105, 100, 32, 100] ∧ SeqOk [65, 67, 71, 84, 65, 67] ∧ (0 < 4) := by decide

/-! ## end to end: written text read back by the concrete reader M at every configuration
(composition with C01's `fasta_reading_is_spec`) -/

/-- a record written by `write_to` / `OwnedRecord::write`, read with the FASTA reader at ANY capacity ≥ 3,
never-refusing policy and chunking: exactly that header and sequence, then end of input -/
theorem written_record_reads_back (h s : List UInt8) (hh : HeadOk h) (hsq : SeqOk s)
    (cap : Nat) (hcap : 3 ≤ cap) (pol : Pol) (hpol : PolOk pol) (script : List ReadEv)
    (hs : FillProofs.NoFail script) (chunk k : Nat) :
    ∃ r : FaRec, r.head = h ∧ r.seq = s ∧ r.byte = 0 ∧ r.line = 1 ∧
      Fasta.runNexts k (Fasta.mkReader (Write.faTo h s) cap pol script chunk) =
        ([Fasta.Obs.record r.head r.seqLines r.line r.byte] ++ List.replicate k Fasta.Obs.none).take k :=
  E2E.fasta_written_record_reads_back h s hh hsq cap hcap pol hpol script hs chunk k

/-- many records written back to back are read back as the same list -/
theorem written_records_read_back (rs : List (List UInt8 × List UInt8))
    (hok : ∀ p ∈ rs, HeadOk p.1 ∧ SeqOk p.2)
    (cap : Nat) (hcap : 3 ≤ cap) (pol : Pol) (hpol : PolOk pol) (script : List ReadEv)
    (hs : FillProofs.NoFail script) (chunk k : Nat) :
    ∃ recs : List FaRec, recs.map (fun r => (r.head, r.seq)) = rs ∧
      Fasta.runNexts k (Fasta.mkReader (rs.flatMap fun p => Write.faTo p.1 p.2) cap pol script chunk) =
        (recs.map (fun r => Fasta.Obs.record r.head r.seqLines r.line r.byte) ++ List.replicate k Fasta.Obs.none).take k :=
  E2E.fasta_written_records_read_back rs hok cap hcap pol hpol script hs chunk k

/-- wrapped output is read back as the header and the unwrapped sequence -/
theorem wrapped_record_reads_back (h s : List UInt8) (w : Nat) (hw : 0 < w) (hh : HeadOk h) (hsq : SeqOk s)
    (cap : Nat) (hcap : 3 ≤ cap) (pol : Pol) (hpol : PolOk pol) (script : List ReadEv)
    (hs : FillProofs.NoFail script) (chunk k : Nat) :
    ∃ (out : List UInt8) (r : FaRec), Write.faOwnedWrap h s w = some out ∧ r.head = h ∧ r.seq = s ∧
      Fasta.runNexts k (Fasta.mkReader out cap pol script chunk) =
        ([Fasta.Obs.record r.head r.seqLines r.line r.byte] ++ List.replicate k Fasta.Obs.none).take k :=
  E2E.fasta_wrapped_record_reads_back h s w hw hh hsq cap hcap pol hpol script hs chunk k

end SeqIo.Thm.C10
