import SeqIoModel.Proofs.FastaStream
import SeqIoModel.Proofs.FastqStream
/-!
# C05 – positions are true file coordinates and seeking to one restores the stream

Position part: `Fasta.Obs.record h ls line byte` / `Fastq.Obs.record h s q line byte` carry what
`position()` reports right after the record was returned; the stream theorems say these are S's
`line` and `byte`, i.e. the true 1-based line number and byte offset in the input, for every capacity,
policy and chunking.  The seek part is proved in `Proofs/*History*.lean` when present (see evidence);
otherwise it is covered by the correspondence run and the abstract-reader oracle only.
-/

namespace SeqIo.Thm.C05
open SeqIo SeqIo.FillProofs

/-- FASTA: the position reported after each record is its true location (S's coordinates), the same
for every buffer capacity, policy (incl. `StdPolicy`) and chunking -/
theorem fasta_positions_true (inp : List UInt8) (cap : Nat) (hcap : 3 ≤ cap) (pol : Pol) (hpol : Fasta.PolGrows pol)
    (script : List ReadEv) (hs : NoFail script) (chunk : Nat) (k : Nat) :
    Fasta.runNexts k (Fasta.mkReader inp cap pol script chunk) =
      (Fasta.specObs inp ++ List.replicate k Fasta.Obs.none).take k :=
  Fasta.fasta_next_stream_polGrows inp cap hcap pol hpol script hs chunk k

/-- FASTQ: the same -/
theorem fastq_positions_true (inp : List UInt8) (cap : Nat) (hcap : 3 ≤ cap) (pol : Pol) (hpol : Fastq.PolGrows pol)
    (script : List ReadEv) (hs : NoFail script) (chunk : Nat) (k : Nat) :
    Fastq.runNexts k (Fastq.mkReader inp cap pol script chunk) =
      (Fastq.specObs inp ++ List.replicate k Fastq.Obs.none).take k :=
  Fastq.fastq_next_stream_polGrows inp cap hcap pol hpol script hs chunk k

/-- S's coordinates on an input with leading blank lines (the case the pinned tree got wrong, D1):
record `a` starts at byte 5 on line 6 -/
example : Fasta.specObs [10, 10, 10, 10, 10, 62, 97, 10, 65, 67, 10] = [.record [97] [[65, 67]] 6 5] := by decide

end SeqIo.Thm.C05
