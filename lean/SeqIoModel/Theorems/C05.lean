import SeqIoModel.Proofs.FastaStream
import SeqIoModel.Proofs.FastqStream
import SeqIoModel.Proofs.FastaHistory
import SeqIoModel.Proofs.FastqHistorySeek
/-!
# C05 – positions are true file coordinates and seeking to one restores the stream

Position part: `Fasta.Obs.record h ls line byte` / `Fastq.Obs.record h s q line byte` carry what
`position()` reports right after the record was returned; the stream theorems say these are S's
`line` and `byte`, i.e. the true 1-based line number and byte offset in the input, for every capacity,
policy and chunking.  The seek part is proved in `Proofs/*History*.lean` when present (see evidence);
otherwise it is covered by the correspondence run and the abstract-reader oracle only.
-/

namespace SeqIo.Thm.C05
open SeqIo SeqIo.FillProofs

/-- FASTA: the position reported after each record is its true location (S's coordinates), the same
for every buffer capacity, policy (incl. `StdPolicy`) and chunking -/
theorem fasta_positions_true (inp : List UInt8) (cap : Nat) (hcap : 3 ≤ cap) (pol : Pol) (hpol : Fasta.PolGrows pol)
    (script : List ReadEv) (hs : NoFail script) (chunk : Nat) (k : Nat) :
    Fasta.runNexts k (Fasta.mkReader inp cap pol script chunk) =
      (Fasta.specObs inp ++ List.replicate k Fasta.Obs.none).take k :=
  Fasta.fasta_next_stream_polGrows inp cap hcap pol hpol script hs chunk k

/-- FASTQ: the same -/
theorem fastq_positions_true (inp : List UInt8) (cap : Nat) (hcap : 3 ≤ cap) (pol : Pol) (hpol : Fastq.PolGrows pol)
    (script : List ReadEv) (hs : NoFail script) (chunk : Nat) (k : Nat) :
    Fastq.runNexts k (Fastq.mkReader inp cap pol script chunk) =
      (Fastq.specObs inp ++ List.replicate k Fastq.Obs.none).take k :=
  Fastq.fastq_next_stream_polGrows inp cap hcap pol hpol script hs chunk k

/-- S's coordinates on an input with leading blank lines (the case the pinned tree got wrong, D1):
record `a` starts at byte 5 on line 6 -/
example : Fasta.specObs [10, 10, 10, 10, 10, 62, 97, 10, 65, 67, 10] = [.record [97] [[65, 67]] 6 5] := by decide

/-- FASTA, seek part: in the abstract reader `seekRec i` sets the cursor to record `i`, `pos` after a
record must be its true coordinates and after a set read (if reported) those of the next unread
record; every history with seeks from any reader state – target inside the buffer or not – is
accepted, i.e. after a seek the reads return record `i` and then the rest exactly as sequential
reading does. -/
theorem fasta_seek_restores_stream (inp : List UInt8) (cap : Nat) (hcap : 3 ≤ cap) (pol : Pol)
    (hpol : Fasta.PolGrows pol) (script : List ReadEv) (hs : NoFail script) (chunk : Nat)
    (ops : List Fasta.Hist.Op) :
    Fasta.Hist.runA (Fasta.Hist.items inp) Fasta.Hist.aInit ops
      (Fasta.Hist.runM (Fasta.Hist.mkMSt inp cap pol script chunk) ops) = true :=
  Fasta.Hist.fasta_history_accepted inp cap hcap pol hpol script hs chunk ops

/-- FASTQ, seek part: `seekItem i` sets the abstract cursor to item `i` – a record, or the invalid group,
whose error is then reproduced by the next read; `pos` after a seek is the target, after a record its
true coordinates, after a set read those of the next unread record -/
theorem fastq_seek_restores_stream (inp : List UInt8) (cap : Nat) (hcap : 3 ≤ cap) (pol : Pol)
    (hpol : Fastq.PolGrows pol) (script : List ReadEv) (hs : NoFail script) (chunk : Nat)
    (ops : List Fastq.Hist.Op) (hops : ∀ op ∈ ops, op.wf = true) :
    Fastq.Hist.accepted inp (Fastq.Hist.mkM inp cap pol script chunk) ops = true :=
  Fastq.fastq_history_accepted inp cap hcap pol hpol script hs chunk ops hops

end SeqIo.Thm.C05
