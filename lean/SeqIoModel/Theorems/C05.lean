import SeqIoModel.Proofs.FastaStream
import SeqIoModel.Proofs.FastqStream
import SeqIoModel.Proofs.FastaHistory
import SeqIoModel.Proofs.FastqHistorySeek
import SeqIoModel.Proofs.FastaSeekAfterFault
import SeqIoModel.Proofs.FastqSeekAfterFault
/-!
# C05 – positions are true file coordinates and seeking to one restores the stream

Position part: `Fasta.Obs.record h ls line byte` / `Fastq.Obs.record h s q line byte` carry what
`position()` reports right after the record was returned; the stream theorems say these are S's
`line` and `byte`, i.e. the true 1-based line number and byte offset in the input, for every capacity,
policy and chunking.  The seek part is proved in `Proofs/*History*.lean` when present (see evidence);
otherwise it is covered by the correspondence run and the abstract-reader oracle only.
-/

namespace SeqIo.Thm.C05
open SeqIo SeqIo.FillProofs

/-- FASTA: the position reported after each record is its true location (S's coordinates), the same
for every buffer capacity, policy (incl. `StdPolicy`) and chunking -/
theorem fasta_positions_true (inp : List UInt8) (cap : Nat) (hcap : 3 ≤ cap) (pol : Pol) (hpol : Fasta.PolGrows pol)
    (script : List ReadEv) (hs : NoFail script) (chunk : Nat) (k : Nat) :
    Fasta.runNexts k (Fasta.mkReader inp cap pol script chunk) =
      (Fasta.specObs inp ++ List.replicate k Fasta.Obs.none).take k :=
  Fasta.fasta_next_stream_polGrows inp cap hcap pol hpol script hs chunk k

/-- FASTQ: the same -/
theorem fastq_positions_true (inp : List UInt8) (cap : Nat) (hcap : 3 ≤ cap) (pol : Pol) (hpol : Fastq.PolGrows pol)
    (script : List ReadEv) (hs : NoFail script) (chunk : Nat) (k : Nat) :
    Fastq.runNexts k (Fastq.mkReader inp cap pol script chunk) =
      (Fastq.specObs inp ++ List.replicate k Fastq.Obs.none).take k :=
  Fastq.fastq_next_stream_polGrows inp cap hcap pol hpol script hs chunk k

/-- S's coordinates on an input with leading blank lines (the case the pinned tree got wrong, D1):
record `a` starts at byte 5 on line 6 -/
example : Fasta.specObs [10, 10, 10, 10, 10, 62, 97, 10, 65, 67, 10] = [.record [97] [[65, 67]] 6 5] := by decide

/-- FASTA, seek part: in the abstract reader `seekRec i` sets the cursor to record `i`, `pos` after a
record must be its true coordinates and after a set read (if reported) those of the next unread
record; every history with seeks from any reader state – target inside the buffer or not – is
accepted, i.e. after a seek the reads return record `i` and then the rest exactly as sequential
reading does. -/
theorem fasta_seek_restores_stream (inp : List UInt8) (cap : Nat) (hcap : 3 ≤ cap) (pol : Pol)
    (hpol : Fasta.PolGrows pol) (script : List ReadEv) (hs : NoFail script) (chunk : Nat)
    (ops : List Fasta.Hist.Op) :
    Fasta.Hist.runA (Fasta.Hist.items inp) Fasta.Hist.aInit ops
      (Fasta.Hist.runM (Fasta.Hist.mkMSt inp cap pol script chunk) ops) = true :=
  Fasta.Hist.fasta_history_accepted inp cap hcap pol hpol script hs chunk ops

/-- FASTQ, seek part: `seekItem i` sets the abstract cursor to item `i` – a record, or the invalid group,
whose error is then reproduced by the next read; `pos` after a seek is the target, after a record its
true coordinates, after a set read those of the next unread record -/
theorem fastq_seek_restores_stream (inp : List UInt8) (cap : Nat) (hcap : 3 ≤ cap) (pol : Pol)
    (hpol : Fastq.PolGrows pol) (script : List ReadEv) (hs : NoFail script) (chunk : Nat)
    (ops : List Fastq.Hist.Op) (hops : ∀ op ∈ ops, op.wf = true) :
    Fastq.Hist.accepted inp (Fastq.Hist.mkM inp cap pol script chunk) ops = true :=
  Fastq.fastq_history_accepted inp cap hcap pol hpol script hs chunk ops hops

/-! ## "from any reader state": also from states left behind by source failures

`fasta/fastq_seek_restores_stream` quantify over histories on failure-free sources.  The following two theorems
remove that restriction for the state the seek starts from: `s` is the state after ANY history `ops` under ANY
read script (failures of any kind at any call, interrupted reads), scripted seek failures and (FASTA) a policy that
may refuse – possibly a state in which the last call returned an error.  If the seek to the position of item `i`
then succeeds and the source does not fail any more, the following reads show exactly what sequential reading shows
from item `i` on (records with their positions, the error of an invalid FASTQ group, end of input). -/

theorem fasta_seek_restores_after_faults
    (inp : List UInt8) (cap : Nat) (hcap : 3 ≤ cap) (pol : Pol) (hpol : Fasta.PolWfPos pol) (hgrow : Fasta.PolGrows pol)
    (script : List ReadEv) (chunk : Nat) (seekFails : List (Nat × IoKind)) (ops : List Fasta.Hist.Op)
    (i : Nat) (hi : i < (Fasta.Hist.items inp).recs.length) :
    let s := Fasta.Hist.runMSt (Fasta.Hist.mkMStF inp cap pol script chunk seekFails) ops
    let rc := (Fasta.Hist.items inp).recs[i]
    ∀ r', Fasta.seek s.r rc.line rc.byte = (r', .ok ()) →
      NoFail r'.br.src.script →
      ∀ k, Fasta.runNexts k r' = ((Fasta.specObs inp).drop i ++ List.replicate k Fasta.Obs.none).take k :=
  Fasta.fasta_seek_restores_after_faults inp cap hcap pol hpol hgrow script chunk seekFails ops i hi

theorem fastq_seek_restores_after_faults
    (inp : List UInt8) (cap : Nat) (hcap : 3 ≤ cap) (pol : Pol) (hgrow : Fastq.PolGrows pol)
    (script : List ReadEv) (chunk : Nat) (seekFails : List (Nat × IoKind)) (ops : List Fastq.Hist.Op)
    (hops : ∀ op ∈ ops, op.wf = true) (i : Nat) (hi : i < (Spec.fastq inp).length) :
    let s := Fastq.Hist.runMSt (Fastq.Hist.mkM inp cap pol script chunk seekFails) ops
    let it := (Spec.fastq inp)[i]
    ∀ r', Fastq.seek s.r (Fastq.Hist.itemPos it).1 (Fastq.Hist.itemPos it).2 = (r', .ok ()) →
      NoFail r'.br.src.script →
      ∀ k, Fastq.runNexts k r' = ((Fastq.specObs inp).drop i ++ List.replicate k Fastq.Obs.none).take k :=
  Fastq.fastq_seek_restores_after_faults inp cap hcap pol hgrow script chunk seekFails ops hops i hi

end SeqIo.Thm.C05
