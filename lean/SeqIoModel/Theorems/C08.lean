import SeqIoModel.Proofs.ParallelTermination
import SeqIoModel.Proofs.ParallelInvariants
/-!
# C08 – parallel processing always terminates, also on early exit and errors

For every thread count, queue length, number of batches, consumer plan (`stopAfter = none`: drain;
`some k`: return after `k` results, `some 0`: never ask; continue or stop after an error), reader
error, reader-init failure and data-set-init failure at any call (all are fields of `Cfg`, all
universally quantified).
-/

namespace SeqIo.Thm.C08
open SeqIo.Par

/-- every step of every thread lowers the potential: no interleaving runs forever -/
theorem every_step_decreases (c : Cfg) (s s' : St) (t : Tid) (h : step c s t = some s') :
    pot c s' < pot c s :=
  step_decreases c s s' t h

/-- explicit bound on the length of every schedule from the initial state -/
theorem schedule_length_bounded (c : Cfg) (s : St) (ts : List Tid) (h : runSched c init ts = some s) :
    ts.length ≤ 8 * c.N + 2 * c.Q + 15 :=
  sched_bounded_init c s ts h

/-- no deadlock: in every reachable state in which the call has not returned some thread can move -/
theorem no_deadlock (c : Cfg) (s : St) (hT : 0 < c.T) (hQ : 0 < c.Q) (h : Reach c s)
    (hnf : s.mn ≠ .returned) : ∃ t s', step c s t = some s' :=
  progress c s hT hQ h hnf

/-- hence every maximal schedule ends with the call having returned – and by then the reader thread
has exited (the main thread only returns from `joining` when `rd = exited`) -/
theorem always_returns (c : Cfg) (ts : List Tid) (s : St) (hT : 0 < c.T) (hQ : 0 < c.Q)
    (hrun : runSched c init ts = some s) (hmax : ∀ t, step c s t = none) : s.mn = .returned :=
  SeqIo.Par.always_returns c ts s hT hQ hrun hmax

/-- The hypothesis `0 < c.Q` of `no_deadlock` / `always_returns` cannot be dropped – and the code agrees (finding D17):
with queue length 0, a reader that starts and a consumer that asks for a result, two steps lead to a state in which the
call has not returned and no thread can move.  The main thread's fill loop runs zero times, so the reader never gets a
data set to fill; the consumer waits for a result that cannot come.  (`parallel_fasta(rdr, 2, 0, ..)` on two records
does not come back; the check replays this on every run and lists it as a known finding.) -/
theorem queue_len_zero_deadlocks (c : Cfg) (hQ : c.Q = 0) (hri : c.readerInitFails = false)
    (hds : c.dsInitFailAt = none) (hstop : c.stopAfter ≠ some 0) :
    ∃ ts s, runSched c init ts = some s ∧ s.mn ≠ .returned ∧ ∀ t, step c s t = none := by
  refine ⟨[.main, .reader], { (init : St) with dsCalls := 1, cur := some 0, mn := .recvDone, rd := .recvEmpty }, ?_, ?_, ?_⟩
  · simp [runSched, step, init, hQ, hri, hds, afterResult, hstop]
  · simp
  · intro t
    cases t <;> simp [step, init, doneSenders, readerAlive] <;> decide

/-- two workers, queue length 0, two batches, a consumer that drains -/
def plainQueueZero : Cfg :=
  { T := 2, Q := 0, N := 2, endErr := false, readerInitFails := false, dsInitFailAt := none, stopAfter := none }

/-- the premises of `queue_len_zero_deadlocks` are met by a plain configuration -/
example : ∃ ts s, runSched plainQueueZero init ts = some s ∧ s.mn ≠ .returned ∧
    ∀ t, step plainQueueZero s t = none :=
  queue_len_zero_deadlocks plainQueueZero rfl rfl rfl (by simp [plainQueueZero])

end SeqIo.Thm.C08
