import SeqIoModel.Proofs.Fill
import SeqIoModel.Proofs.FastaStreamGrowth
import SeqIoModel.Proofs.FastqGrowth
import SeqIoModel.Proofs.FastaSetGrowth
import SeqIoModel.Proofs.FastqSetGrowth
/-!
# C09 – the buffer grows only as the policy directs and only when a record does not fit

Reader-level theorems are stated for `next()` of both machines (FASTA: `InvW` = invariant of all states
reachable by `next` calls with a policy that may refuse; FASTQ: `Good`).  Set reads are covered by the correspondence
run (request log compared exactly with the model after every operation).
-/

namespace SeqIo.Thm.C09
open SeqIo SeqIo.Fasta SeqIo.FillProofs

/-- Growth only via the policy: the requests of one `next()` call form a chain – the first request
passes the current capacity, every later one the previous answer – and the capacity afterwards is
the last answer (`LogChain`); the policy object itself is untouched. -/
theorem growth_only_via_policy {inp : List UInt8} {r : Reader} {fuel : Nat} (h : InvW inp r)
    (hfuel : inp.length < fuel) :
    ∃ new, (next fuel r).1.log = r.log ++ new ∧
      LogChain r.br.cap new (next fuel r).1.br.cap ∧ (next fuel r).1.pol.f = r.pol.f :=
  next_growth_log h hfuel

/-- the capacity reached by a chain is its last positive answer (or the old capacity) -/
theorem adopted_size_is_answer {c0 cf : Nat} {new : List (Nat × Option Nat)} (h : LogChain c0 new cf) :
    cf = (new.filterMap (·.2)).getLastD c0 :=
  logChain_final_cap h

/-- without a request the capacity does not change -/
theorem no_request_no_growth {inp : List UInt8} {r : Reader} {fuel : Nat}
    (h : InvW inp r) (hfuel : inp.length < fuel) (hlog : (next fuel r).1.log = r.log) :
    (next fuel r).1.br.cap = r.br.cap :=
  cap_unchanged_without_request h hfuel hlog

/-- only when needed: every request made during a `next()` call passes a capacity into which the
record being parsed (extent up to the next record start or the end of input, plus the one byte
needed to recognise its end) does not fit -/
theorem request_only_when_unfit {inp : List UInt8} {r : Reader} {fuel : Nat} (h : InvW inp r)
    (hfuel : inp.length < fuel) (new : List (Nat × Option Nat))
    (hlog : (next fuel r).1.log = r.log ++ new) (hne : new ≠ []) :
    ∃ s, RecStart inp s ∧ ∀ e ∈ new, e.1 < recExtent inp s + 1 :=
  only_when_unfit h hfuel new hlog hne

/-- input whose records all fit never causes growth, however long it is -/
theorem fitting_input_never_grows (inp : List UInt8) (cap : Nat) (hcap : 3 ≤ cap) (pol : Pol)
    (hpol : PolWfPos pol) (script : List ReadEv) (hs : NoFail script) (chunk : Nat) (k : Nat)
    (hfit : Fits inp cap) :
    (runState k (mkReader inp cap pol script chunk)).log = [] ∧
      (runState k (mkReader inp cap pol script chunk)).br.cap = cap :=
  fitting_never_grows inp cap hcap pol hpol script hs chunk k hfit

/-- a buffer-limit error is returned if and only if the policy refused (the last request of the
call was answered `None`) -/
theorem buffer_limit_iff_refused {inp : List UInt8} {r : Reader} {fuel : Nat} (h : InvW inp r)
    (hfuel : inp.length < fuel) :
    (next fuel r).2 = .err .bufferLimit ↔
      ∃ pre c, (next fuel r).1.log = r.log ++ (pre ++ [(c, none)]) :=
  bufferLimit_iff_refused h hfuel

/-- records that fit within the permitted sizes are parsed normally: with a policy that may refuse,
everything before the first refusal is exactly S's stream -/
theorem permitted_sizes_parse_normally (inp : List UInt8) (cap : Nat) (hcap : 3 ≤ cap) (pol : Pol)
    (hpol : PolWfPos pol) (script : List ReadEv) (hs : NoFail script) (chunk k : Nat) :
    ∃ j, j ≤ k ∧ (runNexts k (mkReader inp cap pol script chunk)).take j =
        ((specObs inp ++ List.replicate k Obs.none).take k).take j ∧
      (j < k → (runNexts k (mkReader inp cap pol script chunk))[j]? = some (Obs.error .bufferLimit)) :=
  fasta_next_stream_refusing inp cap hcap pol hpol script hs chunk k

/-- the built-in policies compute the documented sizes -/
theorem builtin_policies (t l c : Nat) :
    stdGrow c = doubleUntilGrow (2 ^ 23) c ∧
    (c < t → doubleUntilGrow t c = some (c * 2)) ∧
    (t ≤ c → doubleUntilGrow t c = some (c + t)) ∧
    (∀ n, limitedGrow t l c = some n ↔ doubleUntilGrow t c = some n ∧ n ≤ l) ∧
    (limitedGrow t l c = none ↔ ∃ n, doubleUntilGrow t c = some n ∧ l < n) :=
  ⟨std_is_doubleUntil c, doubleUntil_below t c, doubleUntil_above t c,
   fun n => limited_some_iff t l c n, limited_none_iff t l c⟩

/-- … and honour the contract the readers rely on: a permitted size exceeds the current one -/
theorem builtin_policies_grow (t l c n : Nat) (hc : 0 < c) (ht : 0 < t) :
    (doubleUntilGrow t c = some n → c < n) ∧ (limitedGrow t l c = some n → c < n ∧ n ≤ l) :=
  ⟨doubleUntil_grows t c n hc ht, limited_grows t l c n hc ht⟩

/-- a policy installed in mid-stream takes over without disturbing the stream: `set_policy` changes
nothing but the policy field -/
theorem set_policy_transparent (r : Reader) (p : Pol) :
    (setPolicy r p).br = r.br ∧ (setPolicy r p).bp = r.bp ∧ (setPolicy r p).line = r.line ∧
    (setPolicy r p).byte = r.byte ∧ (setPolicy r p).searchPos = r.searchPos ∧
    (setPolicy r p).state = r.state ∧ (setPolicy r p).log = r.log ∧ (setPolicy r p).pol = p := by
  simp [setPolicy]

/-- FASTQ: the requests of one `next()` call form a chain from the capacity on entry to the capacity
on exit (`GrowLog`), buffer-limit is returned iff the last request was refused, and every request is
made while the group being parsed does not fit the capacity passed -/
theorem fastq_growth_bookkeeping (inp : List UInt8) (G : Prop) (fuel : Nat) (r : Fastq.Reader)
    (its : List Spec.FqItem) (hg : Fastq.Good inp G r its) (hfuel : r.br.src.inp.length + 2 ≤ fuel) :
    ∃ new b, (Fastq.next fuel r).1.log = r.log ++ new ∧
      Fastq.GrowLog r.br.cap new (Fastq.next fuel r).1.br.cap b ∧
      ((Fastq.next fuel r).2 = .err .bufferLimit ↔ b = true) ∧
      (∀ c a, (c, a) ∈ new → ¬ Fastq.Fits (inp.drop (Fastq.nextByte r)) c) :=
  Fastq.next_growth_log inp G fuel r its hg hfuel

/-- FASTQ: without a request the capacity does not change -/
theorem fastq_no_request_no_growth (inp : List UInt8) (G : Prop) (fuel : Nat) (r : Fastq.Reader)
    (its : List Spec.FqItem) (hg : Fastq.Good inp G r its) (hfuel : r.br.src.inp.length + 2 ≤ fuel)
    (h : (Fastq.next fuel r).1.log = r.log) : (Fastq.next fuel r).1.br.cap = r.br.cap :=
  Fastq.next_no_request_cap inp G fuel r its hg hfuel h

/-- FASTQ: input whose groups all fit never causes growth, however long it is -/
theorem fastq_fitting_input_never_grows (inp : List UInt8) (cap : Nat) (hcap : 3 ≤ cap) (pol : Pol)
    (hwf : Fastq.PolWf1 pol) (script : List ReadEv) (hs : NoFail script) (chunk : Nat)
    (hfit : Fastq.AllFit inp cap) (k : Nat) :
    (Fastq.nextN k (Fastq.mkReader inp cap pol script chunk)).log = [] ∧
      (Fastq.nextN k (Fastq.mkReader inp cap pol script chunk)).br.cap = cap :=
  Fastq.fitting_never_grows inp cap hcap pol hwf script hs chunk hfit k

/-- FASTA record-set reads (plain and exact-count) from any state a history can reach (`HInv`): the
requests form a chain, buffer-limit iff the last request was refused, and for PLAIN set reads every
request is made while the first record of the batch does not fit -/
theorem fasta_set_read_growth {inp : List UInt8} {m : Fasta.Hist.MSt} {a : Fasta.Hist.AState}
    (h : Fasta.Hist.HInv inp m a) (rs : Fasta.RecordSet) (n : Option Nat) :
    ∃ new, (Fasta.readRecordSetExact (Fasta.Hist.fuelOf m.r) m.r rs n).1.log = m.r.log ++ new ∧
      Fasta.LogChain m.r.br.cap new (Fasta.readRecordSetExact (Fasta.Hist.fuelOf m.r) m.r rs n).1.br.cap ∧
      (Fasta.readRecordSetExact (Fasta.Hist.fuelOf m.r) m.r rs n).1.pol.f = m.r.pol.f ∧
      ((Fasta.readRecordSetExact (Fasta.Hist.fuelOf m.r) m.r rs n).2.2 = .err .bufferLimit ↔
        ∃ pre c, new = pre ++ [(c, none)]) ∧
      (n = none → new = [] ∨ ∃ rc, (Fasta.Hist.recsOf inp)[a.k]? = some rc ∧ Fasta.RecStart inp rc.byte ∧
        ∀ e ∈ new, e.1 < Fasta.recExtent inp rc.byte + 1) :=
  Fasta.Hist.set_growth_log h rs n

/-- input whose records all fit never causes growth under ANY history of single reads, owned reads,
plain record-set reads, set iteration and position queries – and such a history is then accepted by
the abstract reader even with a policy that would refuse -/
theorem fasta_fitting_never_grows_any_history (inp : List UInt8) (cap : Nat) (hcap : 3 ≤ cap) (pol : Pol)
    (hpol : Fasta.PolWfPos pol) (script : List ReadEv) (hs : NoFail script) (chunk : Nat)
    (ops : List Fasta.Hist.Op) (hplain : ∀ op ∈ ops, Fasta.Hist.PlainOp op) (hfit : Fasta.Fits inp cap) :
    ((Fasta.Hist.finalM (Fasta.Hist.mkMSt inp cap pol script chunk) ops).r.log = [] ∧
      (Fasta.Hist.finalM (Fasta.Hist.mkMSt inp cap pol script chunk) ops).r.br.cap = cap) ∧
    Fasta.Hist.runA (Fasta.Hist.items inp) Fasta.Hist.aInit ops
      (Fasta.Hist.runM (Fasta.Hist.mkMSt inp cap pol script chunk) ops) = true :=
  ⟨Fasta.Hist.fitting_never_grows_history inp cap hcap pol hpol script hs chunk ops hplain hfit,
   Fasta.Hist.fitting_history_accepted inp cap hcap pol hpol script hs chunk ops hplain hfit⟩

/-- FASTQ record-set reads: chain of requests, buffer-limit iff refused, and for plain set reads every
request is made while the first group of the batch does not fit -/
theorem fastq_set_read_growth (inp : List UInt8) (G : Prop) (fuel : Nat) (r : Fastq.Reader) (rs : Fastq.RecordSet)
    (n : Option Nat) (its : List Spec.FqItem) (hg : Fastq.Good inp G r its)
    (hfuel : 2 * r.br.src.inp.length + 4 ≤ fuel) :
    ∃ new b, (Fastq.readRecordSetExact fuel r rs n).1.log = r.log ++ new ∧
      Fastq.GrowLog r.br.cap new (Fastq.readRecordSetExact fuel r rs n).1.br.cap b ∧
      ((Fastq.readRecordSetExact fuel r rs n).2.2 = .err .bufferLimit ↔ b = true) ∧
      (n = none → ∀ c a, (c, a) ∈ new → ¬ Fastq.Fits (inp.drop (Fastq.nextByte r)) c) := by
  obtain ⟨new, b, h1, h2, h3, h4, _⟩ := Fastq.set_growth_log inp G fuel r rs n its hg hfuel
  exact ⟨new, b, h1, h2, h3, h4⟩

/-- FASTQ: input whose groups all fit never causes growth under ANY history of single reads, owned reads,
plain record-set reads, set iteration and position queries -/
theorem fastq_fitting_never_grows_any_history (inp : List UInt8) (cap : Nat) (hcap : 3 ≤ cap) (pol : Pol)
    (hwf : Fastq.PolWf1 pol) (script : List ReadEv) (hs : NoFail script) (chunk : Nat)
    (hfit : Fastq.AllFit inp cap) (ops : List Fastq.Hist.Op) (hops : ∀ op ∈ ops, Fastq.plainOp op = true) :
    (Fastq.runEnd (Fastq.Hist.mkM inp cap pol script chunk) ops).r.log = [] ∧
      (Fastq.runEnd (Fastq.Hist.mkM inp cap pol script chunk) ops).r.br.cap = cap :=
  Fastq.fitting_never_grows_history inp cap hcap pol hwf script hs chunk hfit ops hops

end SeqIo.Thm.C09
