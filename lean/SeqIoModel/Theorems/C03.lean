import SeqIoModel.Proofs.FastaStream
import SeqIoModel.Proofs.FastqStream
import SeqIoModel.Proofs.HistoryDeterminism
/-!
# C03 – results do not depend on buffer capacity, growth policy or read chunking

Two configurations are compared with each other directly: the statement does not mention the
reference semantics (the proof goes through it).
-/

namespace SeqIo.Thm.C03
open SeqIo SeqIo.FillProofs

/-- FASTA: any two configurations (capacity ≥ 3 × never-refusing policy × read script without failures
× chunk limit) show the caller the same records, positions, errors and end of input, for any number
of calls. -/
theorem fasta_config_independent (inp : List UInt8)
    (cap₁ cap₂ : Nat) (h₁ : 3 ≤ cap₁) (h₂ : 3 ≤ cap₂) (pol₁ pol₂ : Pol) (hp₁ : PolOk pol₁) (hp₂ : PolOk pol₂)
    (script₁ script₂ : List ReadEv) (hs₁ : NoFail script₁) (hs₂ : NoFail script₂) (chunk₁ chunk₂ : Nat) (k : Nat) :
    Fasta.runNexts k (Fasta.mkReader inp cap₁ pol₁ script₁ chunk₁) =
      Fasta.runNexts k (Fasta.mkReader inp cap₂ pol₂ script₂ chunk₂) := by
  rw [Fasta.fasta_next_stream inp cap₁ h₁ pol₁ hp₁ script₁ hs₁ chunk₁ k,
      Fasta.fasta_next_stream inp cap₂ h₂ pol₂ hp₂ script₂ hs₂ chunk₂ k]

/-- FASTQ: the same -/
theorem fastq_config_independent (inp : List UInt8)
    (cap₁ cap₂ : Nat) (h₁ : 3 ≤ cap₁) (h₂ : 3 ≤ cap₂) (pol₁ pol₂ : Pol) (hp₁ : PolOk pol₁) (hp₂ : PolOk pol₂)
    (script₁ script₂ : List ReadEv) (hs₁ : NoFail script₁) (hs₂ : NoFail script₂) (chunk₁ chunk₂ : Nat) (k : Nat) :
    Fastq.runNexts k (Fastq.mkReader inp cap₁ pol₁ script₁ chunk₁) =
      Fastq.runNexts k (Fastq.mkReader inp cap₂ pol₂ script₂ chunk₂) := by
  rw [Fastq.fastq_next_stream inp cap₁ h₁ pol₁ hp₁ script₁ hs₁ chunk₁ k,
      Fastq.fastq_next_stream inp cap₂ h₂ pol₂ hp₂ script₂ hs₂ chunk₂ k]

/-- one refill is blind to chunking and interrupted reads (the mechanism) -/
theorem refill_chunking_blind (b : BufRd) (script : List ReadEv) (chunk : Nat)
    (h1 : NoFail b.src.script) (h2 : NoFail script) :
    let b2 : BufRd := { b with src := { b.src with script := script, chunk := chunk } }
    (fillBuf b).1.buf = (fillBuf b2).1.buf ∧ (fillBuf b).2 = (fillBuf b2).2 ∧
    (fillBuf b).1.src.cursor = (fillBuf b2).1.src.cursor :=
  fillBuf_chunk_independent b script chunk h1 h2

/-- FASTA, beyond plain iteration: any history of single reads, owned reads and seeks to record positions
(in any order, any number of times) shows the caller exactly the same under any two configurations
(capacity ≥ 3 × growing policy, e.g. the default one × failure-free read script × chunk limit).
The proof never compares buffers: both runs are accepted by the abstract reader, which fixes the
observation of each of these operations completely. -/
theorem fasta_history_config_independent (inp : List UInt8)
    (cap₁ cap₂ : Nat) (h₁ : 3 ≤ cap₁) (h₂ : 3 ≤ cap₂) (pol₁ pol₂ : Pol)
    (hp₁ : Fasta.PolGrows pol₁) (hp₂ : Fasta.PolGrows pol₂)
    (script₁ script₂ : List ReadEv) (hs₁ : NoFail script₁) (hs₂ : NoFail script₂) (chunk₁ chunk₂ : Nat)
    (ops : List Fasta.Hist.Op) (hd : ∀ op ∈ ops, op.det = true) :
    Fasta.Hist.runM (Fasta.Hist.mkMSt inp cap₁ pol₁ script₁ chunk₁) ops =
      Fasta.Hist.runM (Fasta.Hist.mkMSt inp cap₂ pol₂ script₂ chunk₂) ops :=
  Fasta.Hist.runA_det ops hd Fasta.Hist.aInit _ _
    (Fasta.Hist.fasta_history_accepted inp cap₁ h₁ pol₁ hp₁ script₁ hs₁ chunk₁ ops)
    (Fasta.Hist.fasta_history_accepted inp cap₂ h₂ pol₂ hp₂ script₂ hs₂ chunk₂ ops)

/-- FASTQ: the same for histories of single reads, owned reads and seeks to the position of any item
(a record or the invalid group) -/
theorem fastq_history_config_independent (inp : List UInt8)
    (cap₁ cap₂ : Nat) (h₁ : 3 ≤ cap₁) (h₂ : 3 ≤ cap₂) (pol₁ pol₂ : Pol)
    (hp₁ : Fastq.PolGrows pol₁) (hp₂ : Fastq.PolGrows pol₂)
    (script₁ script₂ : List ReadEv) (hs₁ : NoFail script₁) (hs₂ : NoFail script₂) (chunk₁ chunk₂ : Nat)
    (ops : List Fastq.Hist.Op) (hd : ∀ op ∈ ops, op.det = true) :
    Fastq.Hist.runM (Fastq.Hist.mkM inp cap₁ pol₁ script₁ chunk₁) ops =
      Fastq.Hist.runM (Fastq.Hist.mkM inp cap₂ pol₂ script₂ chunk₂) ops := by
  have hwf : ∀ op ∈ ops, op.wf = true := by
    intro op hop
    have := hd op hop
    cases op <;> simp_all [Fastq.Hist.Op.det, Fastq.Hist.Op.wf]
  exact Fastq.Hist.acceptsA_det ops hd {} _ _
    (Fastq.fastq_history_accepted inp cap₁ h₁ pol₁ hp₁ script₁ hs₁ chunk₁ ops hwf)
    (Fastq.fastq_history_accepted inp cap₂ h₂ pol₂ hp₂ script₂ hs₂ chunk₂ ops hwf)

/-- the hypotheses are satisfiable: a history with a seek back to the first record -/
example : ∀ op ∈ [Fasta.Hist.Op.next, .owned, .seekRec 0, .next], op.det = true := by decide

end SeqIo.Thm.C03
