import SeqIoModel.Proofs.FastaStream
import SeqIoModel.Proofs.FastqStream
/-!
# C03 – results do not depend on buffer capacity, growth policy or read chunking

Two configurations are compared with each other directly: the statement does not mention the
reference semantics (the proof goes through it).
-/

namespace SeqIo.Thm.C03
open SeqIo SeqIo.FillProofs

/-- FASTA: any two configurations (capacity ≥ 3 × never-refusing policy × read script without failures
× chunk limit) show the caller the same records, positions, errors and end of input, for any number
of calls. -/
theorem fasta_config_independent (inp : List UInt8)
    (cap₁ cap₂ : Nat) (h₁ : 3 ≤ cap₁) (h₂ : 3 ≤ cap₂) (pol₁ pol₂ : Pol) (hp₁ : PolOk pol₁) (hp₂ : PolOk pol₂)
    (script₁ script₂ : List ReadEv) (hs₁ : NoFail script₁) (hs₂ : NoFail script₂) (chunk₁ chunk₂ : Nat) (k : Nat) :
    Fasta.runNexts k (Fasta.mkReader inp cap₁ pol₁ script₁ chunk₁) =
      Fasta.runNexts k (Fasta.mkReader inp cap₂ pol₂ script₂ chunk₂) := by
  rw [Fasta.fasta_next_stream inp cap₁ h₁ pol₁ hp₁ script₁ hs₁ chunk₁ k,
      Fasta.fasta_next_stream inp cap₂ h₂ pol₂ hp₂ script₂ hs₂ chunk₂ k]

/-- FASTQ: the same -/
theorem fastq_config_independent (inp : List UInt8)
    (cap₁ cap₂ : Nat) (h₁ : 3 ≤ cap₁) (h₂ : 3 ≤ cap₂) (pol₁ pol₂ : Pol) (hp₁ : PolOk pol₁) (hp₂ : PolOk pol₂)
    (script₁ script₂ : List ReadEv) (hs₁ : NoFail script₁) (hs₂ : NoFail script₂) (chunk₁ chunk₂ : Nat) (k : Nat) :
    Fastq.runNexts k (Fastq.mkReader inp cap₁ pol₁ script₁ chunk₁) =
      Fastq.runNexts k (Fastq.mkReader inp cap₂ pol₂ script₂ chunk₂) := by
  rw [Fastq.fastq_next_stream inp cap₁ h₁ pol₁ hp₁ script₁ hs₁ chunk₁ k,
      Fastq.fastq_next_stream inp cap₂ h₂ pol₂ hp₂ script₂ hs₂ chunk₂ k]

/-- one refill is blind to chunking and interrupted reads (the mechanism) -/
theorem refill_chunking_blind (b : BufRd) (script : List ReadEv) (chunk : Nat)
    (h1 : NoFail b.src.script) (h2 : NoFail script) :
    let b2 : BufRd := { b with src := { b.src with script := script, chunk := chunk } }
    (fillBuf b).1.buf = (fillBuf b2).1.buf ∧ (fillBuf b).2 = (fillBuf b2).2 ∧
    (fillBuf b).1.src.cursor = (fillBuf b2).1.src.cursor :=
  fillBuf_chunk_independent b script chunk h1 h2

end SeqIo.Thm.C03
