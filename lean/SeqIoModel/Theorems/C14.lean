import SeqIoModel.Proofs.Fill
import SeqIoModel.Proofs.FastaFault
import SeqIoModel.Proofs.FastqFault
/-!
# C14 – source errors surface unchanged; interrupted reads are invisible

Every read of the source made by either reader goes through `fill_buf` (`init`/`first_byte`,
`resume_incomplete_search`, `seek`); `Model/Fasta.lean` and `Model/Fastq.lean` map its error `k`
to `Err.io k` of the very operation that called it and return at once (by definition of `next`,
`resume`, `seek` – see the `.error k => (…, .err (.io k))` arms).  What is proved here is the
behaviour of `fill_buf` itself for every script.
-/

namespace SeqIo.Thm.C14
open SeqIo SeqIo.FillProofs

/-- Complete description of one `fill_buf` call for EVERY read script: on success exactly
`min(free space, remaining input)` bytes are appended whatever the script said (interrupted reads
and short reads are invisible); on failure the kind is that of the FIRST failing event, and the
bytes read before it stay in the buffer (nothing is lost, nothing is turned into end of input). -/
theorem fill_buf_behaviour (b : BufRd) :
    match fillBuf b with
    | (b', .ok n) =>
        n = min (b.cap - b.buf.length) b.src.remaining ∧
        b'.buf = b.buf ++ (b.src.inp.drop b.src.cursor).take n ∧
        b'.cap = b.cap ∧ b'.src.inp = b.src.inp ∧ b'.src.cursor = b.src.cursor + n ∧
        b'.src.chunk = b.src.chunk ∧ b'.src.seekFails = b.src.seekFails ∧ b'.src.seekCount = b.src.seekCount ∧
        (∃ used, b.src.script = used ++ b'.src.script ∧ NoFail used)
    | (b', .error k) =>
        ∃ used rest m, b.src.script = used ++ ReadEv.fail k :: rest ∧ NoFail used ∧ b'.src.script = rest ∧
          m ≤ min (b.cap - b.buf.length) b.src.remaining ∧
          b'.buf = b.buf ++ (b.src.inp.drop b.src.cursor).take m ∧
          b'.cap = b.cap ∧ b'.src.inp = b.src.inp ∧ b'.src.cursor = b.src.cursor + m :=
  fillBuf_spec b

/-- a script without failing events can never produce an error -/
theorem no_fail_no_error (b : BufRd) (h : NoFail b.src.script) : ∃ b' n, fillBuf b = (b', .ok n) := by
  have := fillBuf_noFail_ok b h
  exact this

/-- interrupted reads are invisible: without failing events the result does not depend on the
script or the chunk limit at all -/
theorem interrupted_invisible (b : BufRd) (script : List ReadEv) (chunk : Nat)
    (h1 : NoFail b.src.script) (h2 : NoFail script) :
    let b2 : BufRd := { b with src := { b.src with script := script, chunk := chunk } }
    (fillBuf b).1.buf = (fillBuf b2).1.buf ∧ (fillBuf b).2 = (fillBuf b2).2 ∧
    (fillBuf b).1.src.cursor = (fillBuf b2).1.src.cursor :=
  fillBuf_chunk_independent b script chunk h1 h2

/-- Reader level (FASTA), for every input, capacity, growing policy, ARBITRARY read script and history
of operations (reads of all kinds, set iteration, positions, seeks):
(c) if no I/O error is observed the whole history is accepted by the abstract reader;
(a, b) everything observed before the first I/O error is accepted by the abstract reader – exactly the
leading records, nothing invented, no premature end of input, no format error out of thin air – and that
first I/O error carries the kind of the FIRST failing event of the script;
(d) a script without failing events (any chunking, any pattern of interrupted reads) never produces an
I/O error. -/
theorem fasta_first_fault_surfaces (inp : List UInt8) (cap : Nat) (hcap : 3 ≤ cap) (pol : Pol)
    (hpol : Fasta.PolGrows pol) (script : List ReadEv) (chunk : Nat) (ops : List Fasta.Hist.Op) :
    ((∀ o ∈ Fasta.Hist.runM (Fasta.Hist.mkMSt inp cap pol script chunk) ops, Fasta.Fault.isIoErr o = false) →
      Fasta.Hist.runA (Fasta.Hist.items inp) Fasta.Hist.aInit ops
        (Fasta.Hist.runM (Fasta.Hist.mkMSt inp cap pol script chunk) ops) = true) ∧
    (∀ j o, (Fasta.Hist.runM (Fasta.Hist.mkMSt inp cap pol script chunk) ops)[j]? = some o →
      Fasta.Fault.isIoErr o = true →
      (∀ i o', i < j → (Fasta.Hist.runM (Fasta.Hist.mkMSt inp cap pol script chunk) ops)[i]? = some o' →
        Fasta.Fault.isIoErr o' = false) →
      Fasta.Hist.runA (Fasta.Hist.items inp) Fasta.Hist.aInit (ops.take j)
        ((Fasta.Hist.runM (Fasta.Hist.mkMSt inp cap pol script chunk) ops).take j) = true ∧
      ∃ used k rest, script = used ++ .fail k :: rest ∧ NoFail used ∧ o = .error (.io k)) ∧
    (NoFail script → ∀ o ∈ Fasta.Hist.runM (Fasta.Hist.mkMSt inp cap pol script chunk) ops,
      Fasta.Fault.isIoErr o = false) :=
  Fasta.Fault.fasta_first_fault_surfaces inp cap hcap pol hpol script chunk ops

/-- Reader level (FASTQ), including seeks and scripted seek failures: everything before the first I/O
error is accepted by the abstract reader; that error carries the kind of the first failing read event –
or, if it is a seek that failed, the kind scripted for that very seek call; without failing events no
I/O error is ever observed -/
theorem fastq_first_fault_surfaces (inp : List UInt8) (cap : Nat) (hcap : 3 ≤ cap) (pol : Pol)
    (hpol : Fastq.PolGrows pol) (script : List ReadEv) (chunk : Nat)
    (ops : List Fastq.Hist.Op) (hops : ∀ op ∈ ops, op.wf = true) :
    ((∀ o ∈ Fastq.Hist.runM (Fastq.Hist.mkM inp cap pol script chunk) ops, Fastq.Fault.isIoErr o = false) →
      Fastq.Hist.acceptsA (Spec.fastq inp) {} ops (Fastq.Hist.runM (Fastq.Hist.mkM inp cap pol script chunk) ops) = true) ∧
    (∀ j o, (Fastq.Hist.runM (Fastq.Hist.mkM inp cap pol script chunk) ops)[j]? = some o →
      Fastq.Fault.isIoErr o = true →
      (∀ i o', i < j → (Fastq.Hist.runM (Fastq.Hist.mkM inp cap pol script chunk) ops)[i]? = some o' →
        Fastq.Fault.isIoErr o' = false) →
      Fastq.Hist.acceptsA (Spec.fastq inp) {} (ops.take j)
        ((Fastq.Hist.runM (Fastq.Hist.mkM inp cap pol script chunk) ops).take j) = true ∧
      ∃ used k rest, script = used ++ .fail k :: rest ∧ NoFail used ∧ o = .error (.io k)) ∧
    (NoFail script → ∀ o ∈ Fastq.Hist.runM (Fastq.Hist.mkM inp cap pol script chunk) ops,
      Fastq.Fault.isIoErr o = false) :=
  Fastq.Fault.fastq_first_fault_surfaces_read inp cap hcap pol hpol script chunk ops hops

end SeqIo.Thm.C14
