import SeqIoModel.Proofs.Recode
import SeqIoModel.Proofs.EndToEnd
/-!
# C12 – LF and CRLF versions of a file parse identically

A well-formed file is its logical content (`recs`); an encoding chooses terminators.  The expected
result (`faExpected`, `fqExpected`: heads, sequence lines / sequence and quality, 1-based line numbers)
is computed from the content alone, so the right-hand sides do not mention the encoding at all:
every encoding parses to the same records with the same line numbers, and no error appears.
Statements are about S; the readers return S's stream for every capacity (C01, C02).
-/

namespace SeqIo.Thm.C12
open SeqIo SeqIo.Spec SeqIo.Recode

/-- FASTA: ANY per-line mixture of LF and CRLF (`terms i` = terminator of line `i`), with or without a
terminator after the last line -/
theorem fasta_recode_invariant (recs : List (List UInt8 × List (List UInt8))) (hok : FaOk recs)
    (terms : Nat → Term) (final : Bool) :
    ∃ rs, Spec.fasta (encodeFasta recs terms final) = .records rs ∧
      rs.map (fun r => (r.head, r.seqLines, r.line)) = faExpected recs 1 :=
  Recode.fasta_recode_invariant recs hok terms final

/-- FASTQ: {LF, CRLF} × {final terminator present, absent}: the same records, lines 1, 5, 9, …, no error
item (the CRLF / no final terminator case is where the pinned tree failed: findings D3, D10) -/
theorem fastq_recode_invariant (recs : List FqContent) (hok : FqOk recs) (t : Term) (final : Bool) :
    ∃ rs : List FqRec, Spec.fastq (encodeFastq recs t final) = rs.map FqItem.record ∧
      rs.map (fun r => (r.head, r.seq, r.qual, r.line)) = fqExpected recs 1 :=
  Recode.fastq_recode_invariant recs hok t final

/-- up to two blank lines after the terminated last line change nothing -/
theorem fastq_trailing_blank_lines (recs : List FqContent) (hok : FqOk recs) (t : Term) (trail : Nat)
    (htrail : trail ≤ 2) :
    ∃ rs : List FqRec,
      Spec.fastq (encodeFastq recs t true ++ (List.replicate trail t.bytes).flatten) = rs.map FqItem.record ∧
      rs.map (fun r => (r.head, r.seq, r.qual, r.line)) = fqExpected recs 1 :=
  Recode.fastq_recode_trailing recs hok t trail htrail

/-- no carriage return shows up in any returned header, sequence line or quality -/
theorem fasta_no_cr_in_fields (recs : List (List UInt8 × List (List UInt8))) (hok : FaOk recs)
    (hcr : ∀ p ∈ recs, CR ∉ p.1) (terms : Nat → Term) (final : Bool) :
    ∃ rs, Spec.fasta (encodeFasta recs terms final) = .records rs ∧
      ∀ r ∈ rs, CR ∉ r.head ∧ ∀ s ∈ r.seqLines, CR ∉ s :=
  Recode.fasta_no_cr recs hok hcr terms final

theorem fastq_no_cr_in_fields (recs : List FqContent) (hok : FqOk recs) (hcr : ∀ p ∈ recs, CR ∉ p.1)
    (t : Term) (final : Bool) :
    ∃ rs : List FqRec, Spec.fastq (encodeFastq recs t final) = rs.map FqItem.record ∧
      ∀ r ∈ rs, CR ∉ r.head ∧ CR ∉ r.seq ∧ CR ∉ r.qual :=
  Recode.fastq_no_cr recs hok hcr t final

/-! ## end to end: what the concrete readers M show (composition with C01 / C02) -/

/-- FASTA: two encodings of the same content – ANY per-line mixtures of LF and CRLF, with or without a final
terminator – read under two ARBITRARY configurations (capacity ≥ 3, never-refusing policy, chunking) show, call by
call, the same records with the same sequence lines and line numbers; no error appears -/
theorem fasta_encodings_read_identically (recs : List (List UInt8 × List (List UInt8))) (hok : FaOk recs)
    (terms terms' : Nat → Term) (final final' : Bool)
    (cap cap' : Nat) (hcap : 3 ≤ cap) (hcap' : 3 ≤ cap') (pol pol' : Pol) (hpol : PolOk pol) (hpol' : PolOk pol')
    (script script' : List ReadEv) (hs : FillProofs.NoFail script) (hs' : FillProofs.NoFail script')
    (chunk chunk' k : Nat) :
    (Fasta.runNexts k (Fasta.mkReader (encodeFasta recs terms final) cap pol script chunk)).map E2E.faNoByte =
    (Fasta.runNexts k (Fasta.mkReader (encodeFasta recs terms' final') cap' pol' script' chunk')).map E2E.faNoByte :=
  E2E.fasta_encodings_read_identically recs hok terms terms' final final' cap cap' hcap hcap' pol pol' hpol hpol'
    script script' hs hs' chunk chunk' k

/-- FASTQ: {LF, CRLF} × {final terminator present, absent}, two arbitrary configurations -/
theorem fastq_encodings_read_identically (recs : List FqContent) (hok : FqOk recs)
    (t t' : Term) (final final' : Bool)
    (cap cap' : Nat) (hcap : 3 ≤ cap) (hcap' : 3 ≤ cap') (pol pol' : Pol) (hpol : PolOk pol) (hpol' : PolOk pol')
    (script script' : List ReadEv) (hs : FillProofs.NoFail script) (hs' : FillProofs.NoFail script')
    (chunk chunk' k : Nat) :
    (Fastq.runNexts k (Fastq.mkReader (encodeFastq recs t final) cap pol script chunk)).map E2E.fqNoByte =
    (Fastq.runNexts k (Fastq.mkReader (encodeFastq recs t' final') cap' pol' script' chunk')).map E2E.fqNoByte :=
  E2E.fastq_encodings_read_identically recs hok t t' final final' cap cap' hcap hcap' pol pol' hpol hpol'
    script script' hs hs' chunk chunk' k

end SeqIo.Thm.C12
