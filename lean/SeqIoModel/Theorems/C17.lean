import SeqIoModel.Proofs.FastaStream
import SeqIoModel.Proofs.FastqStream
import SeqIoModel.Proofs.Display
/-!
# C17 – parse errors pinpoint the offending record

The stream theorems include the error observations: `Obs.error e` carries the kind and every field
(line, found byte, lengths, id bytes), and the theorems say it is S's error – identical for every
buffer size and chunking.  S defines the fields from the whole input: line = true 1-based line
(`Spec.fasta`: first non-blank line; `Spec.fqGroup`/`fqGo`: header line for invalid start and unequal
lengths, `line + 2` for the separator, `line + k` for a record truncated after `k` lines), found =
the byte at that place, lengths = the trimmed field lengths, id = the header up to the first space.
The message text (`Display`) is compared byte-exactly with `Model/Fmt.lean` on every run; that it
contains the values is `Proofs/Display.lean` when present (see evidence).
-/

namespace SeqIo.Thm.C17
open SeqIo SeqIo.FillProofs

/-- FASTA: the invalid-start error (line, found byte) is S's for every configuration -/
theorem fasta_error_is_specs (inp : List UInt8) (cap : Nat) (hcap : 3 ≤ cap) (pol : Pol) (hpol : Fasta.PolGrows pol)
    (script : List ReadEv) (hs : NoFail script) (chunk : Nat) (k : Nat) :
    Fasta.runNexts k (Fasta.mkReader inp cap pol script chunk) =
      (Fasta.specObs inp ++ List.replicate k Fasta.Obs.none).take k :=
  Fasta.fasta_next_stream_polGrows inp cap hcap pol hpol script hs chunk k

/-- FASTQ: the first error, with kind, line, found byte, lengths and id, is S's for every configuration -/
theorem fastq_error_is_specs (inp : List UInt8) (cap : Nat) (hcap : 3 ≤ cap) (pol : Pol) (hpol : Fastq.PolGrows pol)
    (script : List ReadEv) (hs : NoFail script) (chunk : Nat) (k : Nat) :
    Fastq.runNexts k (Fastq.mkReader inp cap pol script chunk) =
      (Fastq.specObs inp ++ List.replicate k Fastq.Obs.none).take k :=
  Fastq.fastq_next_stream_polGrows inp cap hcap pol hpol script hs chunk k

/-- S on malformed inputs: the line is the true line, the byte the one found there -/
example : Fasta.specObs [13, 10, 10, 65, 10] = [.error (.invalidStart 3 65)] := by decide
example : Fastq.specObs [64, 97, 32, 98, 10, 65, 10, 45, 10, 73, 10] =
    [.error (.invalidSep 45 { line := 3, id := some [97] })] := by decide

/-- the human-readable message contains the reported values: FASTA line and found byte -/
theorem fasta_message_contains (line : Nat) (found : UInt8) :
    DisplayProofs.isInfix (Fmt.dec line) (Fmt.fastaErr (.invalidStart line found)) ∧
    DisplayProofs.isInfix (Fmt.escapeDefault found) (Fmt.fastaErr (.invalidStart line found)) :=
  DisplayProofs.fasta_msg_contains line found

/-- FASTQ: "line N" for the error's position -/
theorem fastq_message_contains_line (e : Fastq.Err) (p : Fastq.ErrPos) (he : DisplayProofs.errPosOf e = some p) :
    DisplayProofs.isInfix (Fmt.str "line " ++ Fmt.dec p.line) (Fmt.fastqErr e) :=
  DisplayProofs.fastq_msg_contains_line e p he

/-- FASTQ: both lengths -/
theorem fastq_message_contains_lengths (s q : Nat) (p : Fastq.ErrPos) :
    DisplayProofs.isInfix (Fmt.dec s) (Fmt.fastqErr (.unequalLengths s q p)) ∧
    DisplayProofs.isInfix (Fmt.dec q) (Fmt.fastqErr (.unequalLengths s q p)) :=
  DisplayProofs.fastq_msg_contains_lengths s q p

/-- FASTQ: the byte actually found -/
theorem fastq_message_contains_found (f : UInt8) (p : Fastq.ErrPos) :
    DisplayProofs.isInfix (Fmt.escapeDefault f) (Fmt.fastqErr (.invalidStart f p)) ∧
    DisplayProofs.isInfix (Fmt.escapeDefault f) (Fmt.fastqErr (.invalidSep f p)) :=
  DisplayProofs.fastq_msg_contains_found f p

end SeqIo.Thm.C17
