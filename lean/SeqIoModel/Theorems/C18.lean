import SeqIoModel.Proofs.FastaStreamGrowth
import SeqIoModel.Proofs.FastqGrowth
/-!
# C18 – steady-state reading allocates nothing and keeps the buffer size

What a model can carry: the buffer capacity changes only through a logged policy request, and input
whose records fit never produces one – so the buffer size stays unchanged in steady state; returned
records are views (pairs of the reader's buffer and offsets: `Fasta.head`, `Fasta.seqLines` take the
buffer, they do not copy).  That no heap allocation happens is a fact about `Vec` and the allocator:
it is observed on every run by a counting global allocator, not proved.
-/

namespace SeqIo.Thm.C18
open SeqIo SeqIo.Fasta SeqIo.FillProofs

/-- the buffer capacity stays unchanged across a `next()` call that makes no policy request -/
theorem capacity_unchanged_without_request {inp : List UInt8} {r : Reader} {fuel : Nat}
    (h : InvW inp r) (hfuel : inp.length < fuel) (hlog : (next fuel r).1.log = r.log) :
    (next fuel r).1.br.cap = r.br.cap :=
  cap_unchanged_without_request h hfuel hlog

/-- records that fit the buffer: no request and the same capacity after any number of reads -/
theorem steady_state_keeps_buffer (inp : List UInt8) (cap : Nat) (hcap : 3 ≤ cap) (pol : Pol)
    (hpol : PolWfPos pol) (script : List ReadEv) (hs : NoFail script) (chunk : Nat) (k : Nat)
    (hfit : Fits inp cap) :
    (runState k (mkReader inp cap pol script chunk)).log = [] ∧
      (runState k (mkReader inp cap pol script chunk)).br.cap = cap :=
  fitting_never_grows inp cap hcap pol hpol script hs chunk k hfit

/-- FASTQ: groups that fit the buffer: no request, same capacity after any number of reads -/
theorem fastq_steady_state_keeps_buffer (inp : List UInt8) (cap : Nat) (hcap : 3 ≤ cap) (pol : Pol)
    (hwf : Fastq.PolWf1 pol) (script : List ReadEv) (hs : NoFail script) (chunk : Nat)
    (hfit : Fastq.AllFit inp cap) (k : Nat) :
    (Fastq.nextN k (Fastq.mkReader inp cap pol script chunk)).log = [] ∧
      (Fastq.nextN k (Fastq.mkReader inp cap pol script chunk)).br.cap = cap :=
  Fastq.fitting_never_grows inp cap hcap pol hwf script hs chunk hfit k

end SeqIo.Thm.C18
