import SeqIoModel.Proofs.FastaStreamGrowth
import SeqIoModel.Proofs.FastqGrowth
import SeqIoModel.Proofs.Alloc
import SeqIoModel.Proofs.AllocFasta
import SeqIoModel.Proofs.AllocFastq
/-!
# C18 – steady-state reading allocates nothing and keeps the buffer size

What a model can carry: the buffer capacity changes only through a logged policy request, and input
whose records fit never produces one – so the buffer size stays unchanged in steady state; returned
records are views (pairs of the reader's buffer and offsets: `Fasta.head`, `Fasta.seqLines` take the
buffer, they do not copy).

Heap allocation itself: the readers and record sets own a fixed handful of `Vec`s that are only cleared and
refilled.  `Model/Alloc.lean` adds their capacities as ghost state on top of M, following `RawVec`'s growth
rule; the number of allocator calls it predicts for every `next()` / `read_record_set(_exact)` / `seek()` call
is compared with a counting global allocator on every run (`A` cases: arbitrary histories, records of
varying shape).  Proved here: a call in which no container has to hold more than it has room for allocates
nothing and changes no capacity, capacities never shrink, hence "no larger than what was already processed"
(read per container) means zero allocations, for single reads, reused FASTA sets and reused FASTQ sets, at any
point of any history.  `Vec`'s growth rule and the allocator are modelled, not verified.
-/

namespace SeqIo.Thm.C18
open SeqIo SeqIo.Fasta SeqIo.FillProofs

/-- the buffer capacity stays unchanged across a `next()` call that makes no policy request -/
theorem capacity_unchanged_without_request {inp : List UInt8} {r : Reader} {fuel : Nat}
    (h : InvW inp r) (hfuel : inp.length < fuel) (hlog : (next fuel r).1.log = r.log) :
    (next fuel r).1.br.cap = r.br.cap :=
  cap_unchanged_without_request h hfuel hlog

/-- records that fit the buffer: no request and the same capacity after any number of reads -/
theorem steady_state_keeps_buffer (inp : List UInt8) (cap : Nat) (hcap : 3 ≤ cap) (pol : Pol)
    (hpol : PolWfPos pol) (script : List ReadEv) (hs : NoFail script) (chunk : Nat) (k : Nat)
    (hfit : Fits inp cap) :
    (runState k (mkReader inp cap pol script chunk)).log = [] ∧
      (runState k (mkReader inp cap pol script chunk)).br.cap = cap :=
  fitting_never_grows inp cap hcap pol hpol script hs chunk k hfit

/-- FASTQ: groups that fit the buffer: no request, same capacity after any number of reads -/
theorem fastq_steady_state_keeps_buffer (inp : List UInt8) (cap : Nat) (hcap : 3 ≤ cap) (pol : Pol)
    (hwf : Fastq.PolWf1 pol) (script : List ReadEv) (hs : NoFail script) (chunk : Nat)
    (hfit : Fastq.AllFit inp cap) (k : Nat) :
    (Fastq.nextN k (Fastq.mkReader inp cap pol script chunk)).log = [] ∧
      (Fastq.nextN k (Fastq.mkReader inp cap pol script chunk)).br.cap = cap :=
  Fastq.fitting_never_grows inp cap hcap pol hwf script hs chunk hfit k

/-! ## allocations (ghost capacities, `Model/Alloc.lean`) -/

open SeqIo.Alloc in
/-- `next()` / `seek()`: a record with no more lines than `seq_pos` has room for: no allocation, same capacity -/
theorem next_allocates_nothing_when_it_fits (seqCap : Alloc.Cap) (r' : Reader)
    (h : r'.bp.seqPos.length ≤ seqCap.lb) : Alloc.Fa.readerStep seqCap r' = (seqCap, some 0) :=
  Alloc.Fa.readerStep_fits seqCap r' h

/-- in ANY history of `next()` calls, a call returning a record with no more lines than some record returned
earlier allocates nothing -/
theorem next_steady_state_allocates_nothing (c : Alloc.Cap) (before : List Reader) (r : Reader)
    (h : r.bp.seqPos.length ≤ c.lb ∨ ∃ q ∈ before, r.bp.seqPos.length ≤ q.bp.seqPos.length) :
    (Alloc.Fa.runNextSteps c (before ++ [r])).2 = (Alloc.Fa.runNextSteps c before).2 ++ [some 0] :=
  Alloc.Fa.next_history_steady c before r h

/-- a FASTA set read in which no container exceeds its room: no allocation, all capacities unchanged -/
theorem fasta_set_read_allocates_nothing_when_it_fits (seqCap : Alloc.Cap) (sc : Alloc.SetCaps)
    (rs' : RecordSet) (r' : Reader) (copied : Bool)
    (hseq : max (Alloc.Fa.maxLen rs'.positions) r'.bp.seqPos.length ≤ seqCap.lb)
    (hslots : Alloc.Fa.SlotsFit sc.slots rs'.positions) (hlen : sc.slots.length = rs'.positions.length)
    (hpos : rs'.positions.length ≤ sc.pos.lb) (hbuf : rs'.buffer.length ≤ sc.buf.lb) :
    Alloc.Fa.setStep seqCap sc rs' r' copied = (seqCap, sc, some 0) :=
  Alloc.Fa.setStep_fits seqCap sc rs' r' copied hseq hslots hlen hpos hbuf

/-- reused FASTA record set: a batch that is position by position no larger than the previous successful
one is stored without allocation -/
theorem fasta_reused_set_steady_state (seqCap : Alloc.Cap) (sc : Alloc.SetCaps) (rs1 rs2 : RecordSet)
    (r1 r2 : Reader) (c2 : Bool)
    (hn : Alloc.Fa.NoLarger rs2.positions rs1.positions) (hlen : rs1.positions.length ≤ rs2.positions.length)
    (hr : r2.bp.seqPos.length ≤ max (Alloc.Fa.maxLen rs1.positions) r1.bp.seqPos.length)
    (hb : rs2.buffer.length ≤ rs1.buffer.length) :
    Alloc.Fa.setStep (Alloc.Fa.setStep seqCap sc rs1 r1 true).1 (Alloc.Fa.setStep seqCap sc rs1 r1 true).2.1 rs2 r2 c2 =
      ((Alloc.Fa.setStep seqCap sc rs1 r1 true).1, (Alloc.Fa.setStep seqCap sc rs1 r1 true).2.1, some 0) :=
  Alloc.Fa.set_steady seqCap sc rs1 rs2 r1 r2 c2 hn hlen hr hb

/-- reused FASTQ record set: a batch with no more records and no more buffered bytes than the previous
successful one is stored without allocation (`next()` of the FASTQ reader touches no `Vec` at all) -/
theorem fastq_reused_set_steady_state (sc : Alloc.SetCaps) (rs1 rs2 : Fastq.RecordSet) (c1 c2 : Bool)
    (hn : rs2.positions.length ≤ rs1.positions.length) (hb : rs2.buffer.length ≤ rs1.buffer.length)
    (hc : c2 = true → c1 = true) :
    Alloc.Fq.setStep (Alloc.Fq.setStep sc rs1 c1 false).1 rs2 c2 false = ((Alloc.Fq.setStep sc rs1 c1 false).1, some 0) :=
  Alloc.Fq.set_steady sc rs1 rs2 c1 c2 hn hb hc

/-- END TO END, for EVERY input S accepts, capacity ≥ 3, policy that grows when asked, failure-free read script
and chunking: the `next()` call that returns record `j` performs no allocation (ghost model, any initial
capacity of `seq_pos`) whenever an earlier record `i` had at least as many sequence lines.  Together with
`steady_state_keeps_buffer` (no policy request for records that fit) this is the property's first half for single
reads. -/
theorem fasta_steady_state_allocates_nothing (inp : List UInt8) (rs : List Spec.FaRec)
    (hrs : Spec.fasta inp = .records rs) (cap : Nat) (hcap : 3 ≤ cap) (pol : Pol) (hpol : Fasta.PolGrows pol)
    (script : List ReadEv) (hs : NoFail script) (chunk : Nat) (c : Alloc.Cap) (i j : Nat) (hij : i < j)
    (hj : j < rs.length) (hle : (rs[j]'hj).seqLines.length ≤ (rs[i]'(by omega)).seqLines.length) :
    (Alloc.Fa.runNextSteps c (Alloc.Fa.runStates (j + 1) (mkReader inp cap pol script chunk))).2[j]? = some (some 0) :=
  Alloc.Fa.fasta_steady_state_no_alloc_polGrows inp rs hrs cap hcap pol hpol script hs chunk c i j hij hj hle

/-- the ghost step is justified by the machine: within one `next()` the offset vector is cleared at most once, at
the very start, and afterwards only grows – so the length it has after the call is the largest it had -/
theorem seq_pos_only_grows_within_a_call (r : Reader) (fuel : Nat) :
    ((r.state = .incomplete ∨ r.state = .positioned) → r.bp.seqPos.length ≤ (next fuel r).1.bp.seqPos.length) ∧
    (r.state = .finished → (next fuel r).1 = r) :=
  Alloc.Fa.next_seqPos_after_clear fuel r

/-- FASTQ: inside a set read `buf_positions` only grows, one `push` per stored record, unless the call ends in an
error (then it is cleared and the ghost step gives up exactness) – the justification of `Alloc.Fq.setStep` -/
theorem fastq_positions_only_grow_within_a_call (f fuel : Nat) (n : Option Nat) (isNew : Bool) (r : Fastq.Reader)
    (rs : Fastq.RecordSet) :
    (∃ e, (Fastq.setLoop f fuel n isNew r rs).2.2 = .err e) ∨
      rs.positions <+: (Fastq.setLoop f fuel n isNew r rs).2.1.positions :=
  Alloc.Fq.setLoop_positions_prefix f fuel n isNew r rs

/-- a record set never loses position slots (they are overwritten in place or appended) -/
theorem record_set_keeps_its_slots (fuel : Nat) (r : Reader) (rs : RecordSet) (n : Option Nat) :
    rs.positions.length ≤ (readRecordSetExact fuel r rs n).2.1.positions.length :=
  Alloc.Fa.readRecordSetExact_positions_length fuel r rs n

/-- capacities never shrink (the containers are cleared and refilled, never replaced) -/
theorem capacities_never_shrink (mnz : Nat) (c : Alloc.Cap) (n : Nat) :
    c.lb ≤ (c.push mnz n).1.lb ∧ c.lb ≤ (c.extend mnz n).1.lb ∧ n ≤ (c.push mnz n).1.lb ∧ n ≤ (c.extend mnz n).1.lb :=
  ⟨Alloc.Cap.push_lb_mono mnz c n, Alloc.Cap.extend_lb_mono mnz c n, Alloc.Cap.push_lb_ge mnz c n, Alloc.Cap.extend_lb_ge mnz c n⟩

/-- non-vacuity and the growth rule on concrete numbers: `seq_pos` starts with room for one offset; a record
with four lines (five offsets) costs two re-allocations (1 → 4 → 8), the next such record none -/
example : (Alloc.Cap.push 4 { lb := 1 } 5) = ({ lb := 8 }, some 2) ∧
    (Alloc.Cap.push 4 { lb := 8 } 5) = ({ lb := 8 }, some 0) := by decide

end SeqIo.Thm.C18
