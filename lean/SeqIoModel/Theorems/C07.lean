import SeqIoModel.Proofs.ParallelInvariants
import SeqIoModel.Proofs.FastaHistory
import SeqIoModel.Proofs.AbstractReader
import SeqIoModel.Proofs.FastqHistorySeek
/-!
# C07 – parallel processing delivers every record set exactly once with its own result

Theorems about the protocol model `Model/Parallel.lean` (transition system of `read_parallel_init`;
every interleaving of main thread, reader thread and pool workers is a path of `step`), for every
thread count `T ≥ 1`, queue length `Q ≥ 1` and number of batches `N`, with no bound on any of them.
The recorded traces of the real code are accepted by this model on every run (correspondence).
-/

namespace SeqIo.Thm.C07
open SeqIo SeqIo.Par

/-- no batch reaches the consumer twice, and only batches the reader produced -/
theorem delivered_exactly_once (c : Cfg) (s : St) (hT : 0 < c.T) (hQ : 0 < c.Q) (h : Reach c s) :
    (s.delivered.map (·.2)).Nodup ∧ (∀ b ∈ s.delivered.map (·.2), b < s.filled) ∧ s.got = s.delivered.length :=
  ⟨(delivered_nodup c s hT hQ h).1, (delivered_nodup c s hT hQ h).2, got_eq_delivered c s hT hQ h⟩

/-- while the consumer is draining, nothing is lost: every batch read so far has been delivered or is
still in flight (queued, being worked on, being sent, or in the result channel) -/
theorem nothing_lost (c : Cfg) (s : St) (hT : 0 < c.T) (hQ : 0 < c.Q) (h : Reach c s)
    (hD : Drains c) (hca : s.consumerAlive = true) :
    s.got + cnt Msg.isRes s.doneCh + s.jobs.length + s.working.length + s.sending.length = s.filled :=
  no_batch_lost c s hT hQ h hD hca

/-- a consumer that drains the results has received all `N` batches (hence, with `delivered_exactly_once`,
each exactly once) and the end marker when the call returns – in every interleaving -/
theorem drained_complete (c : Cfg) (s : St) (hT : 0 < c.T) (hQ : 0 < c.Q) (h : Reach c s)
    (hf : s.mn = .returned) (h1 : c.stopAfter = none) (h2 : c.readerInitFails = false)
    (h3 : c.dsInitFailAt = none) (h4 : c.endErr = false ∨ c.contAfterErr = true) :
    s.got = c.N ∧ s.finSeen = true ∧ (c.endErr = true → s.errsSeen = 1) :=
  drained_gets_all c s hT hQ h hf h1 h2 h3 h4

/-- with a single worker thread the batches arrive in file order -/
theorem single_worker_in_order (c : Cfg) (s : St) (hT : 0 < c.T) (hQ : 0 < c.Q) (h : Reach c s)
    (h1 : c.T = 1) : s.delivered.map (·.2) = List.range s.got :=
  in_order_T1 c s hT hQ h h1

/-- every data set is in at most one place (channel, reader, pool, result message, consumer) – a
result message therefore carries the data set its worker was given, and with it that batch -/
theorem data_set_in_one_place (c : Cfg) (s : St) (hT : 0 < c.T) (hQ : 0 < c.Q) (h : Reach c s) (d : Nat) :
    dsCount s d ≤ 1 ∧ (s.dsCalls ≤ d → dsCount s d = 0) :=
  ds_conserved c s hT hQ h d

/-- the recycled per-record output vector (`parallel_fasta` / `parallel_fastq`): whatever its previous
length, the consumer sees record `i` paired with the output computed for record `i` -/
theorem per_record_outputs {R D : Type} (work : R → D → D) (initD : D) (out : List D) (recs : List R) :
    consumerZip recs (recycleZip work initD out recs) =
      (recs.zipIdx).map (fun p => (p.1, work p.1 ((out[p.2]?).getD initD))) ∧
    recs.length ≤ (recycleZip work initD out recs).length :=
  ⟨consumerZip_spec work initD out recs, recycleZip_length work initD out recs⟩

/-- Link from record sets to records: `fill_data` of a FASTA reader is `read_record_set`; the batches
it produces (any number of calls) are consecutive segments of S's records – concatenated they are
exactly the first records of the input, in order, each once.  Together with `delivered_exactly_once`
and `drained_complete` (every batch reaches a draining consumer exactly once): every record of the
input reaches the consumer exactly once, with the records inside a set in file order. -/
theorem fasta_batches_partition_records (inp : List UInt8) (cap : Nat) (hcap : 3 ≤ cap) (pol : Pol)
    (hpol : SeqIo.Fasta.PolGrows pol) (script : List SeqIo.ReadEv) (hs : SeqIo.FillProofs.NoFail script)
    (chunk n : Nat) :
    SeqIo.Fasta.Hist.deliveredRecs (SeqIo.Fasta.Hist.items inp) SeqIo.Fasta.Hist.aInit
        (List.replicate n (SeqIo.Fasta.Hist.Op.set 0 none))
        (SeqIo.Fasta.Hist.runM (SeqIo.Fasta.Hist.mkMSt inp cap pol script chunk)
          (List.replicate n (SeqIo.Fasta.Hist.Op.set 0 none))) =
      ((SeqIo.Fasta.Hist.items inp).recs.take
        (SeqIo.Fasta.Hist.deliveredCounts (List.replicate n (SeqIo.Fasta.Hist.Op.set 0 none))
          (SeqIo.Fasta.Hist.runM (SeqIo.Fasta.Hist.mkMSt inp cap pol script chunk)
            (List.replicate n (SeqIo.Fasta.Hist.Op.set 0 none))))).map SeqIo.Fasta.Hist.view := by
  have hns : SeqIo.Fasta.Hist.SeekFree (List.replicate n (SeqIo.Fasta.Hist.Op.set 0 none)) := by
    intro op hop
    rw [List.eq_of_mem_replicate hop]
    rfl
  obtain ⟨a', _, _, h3⟩ := SeqIo.Fasta.Hist.runA_delivers hns
    (SeqIo.Fasta.Hist.fasta_history_accepted inp cap hcap pol hpol script hs chunk _)
  simpa [SeqIo.Fasta.Hist.aInit] using h3

/-- The same link for FASTQ: as long as no error is observed, the batches produced by repeated
`read_record_set` calls are, concatenated, exactly the first items of S – all of them records –
in order, each once (when the input contains an invalid record the batches stop before it and its
error follows: `C04.fastq_all_histories_accepted`, `C15`). -/
theorem fastq_batches_partition_records (inp : List UInt8) (cap : Nat) (hcap : 3 ≤ cap) (pol : Pol)
    (hpol : SeqIo.Fastq.PolGrows pol) (script : List SeqIo.ReadEv) (hs : SeqIo.FillProofs.NoFail script)
    (chunk n : Nat)
    (hne : SeqIo.Fastq.Hist.NoErrObs
      (SeqIo.Fastq.Hist.runM (SeqIo.Fastq.Hist.mkM inp cap pol script chunk)
        (List.replicate n (SeqIo.Fastq.Hist.Op.set 0 none)))) :
    SeqIo.Fastq.Hist.IsSegment (SeqIo.Spec.fastq inp) 0
      (SeqIo.Fastq.Hist.deliveredCounts (List.replicate n (SeqIo.Fastq.Hist.Op.set 0 none))
        (SeqIo.Fastq.Hist.runM (SeqIo.Fastq.Hist.mkM inp cap pol script chunk)
          (List.replicate n (SeqIo.Fastq.Hist.Op.set 0 none))))
      (SeqIo.Fastq.Hist.deliveredRecs (SeqIo.Spec.fastq inp) {}
        (List.replicate n (SeqIo.Fastq.Hist.Op.set 0 none))
        (SeqIo.Fastq.Hist.runM (SeqIo.Fastq.Hist.mkM inp cap pol script chunk)
          (List.replicate n (SeqIo.Fastq.Hist.Op.set 0 none)))) := by
  have hns : SeqIo.Fastq.Hist.SeekFree (List.replicate n (SeqIo.Fastq.Hist.Op.set 0 none)) := by
    intro op hop
    rw [List.eq_of_mem_replicate hop]
    rfl
  have hwf : ∀ op ∈ List.replicate n (SeqIo.Fastq.Hist.Op.set 0 none), op.wf = true := by
    intro op hop
    rw [List.eq_of_mem_replicate hop]
    rfl
  obtain ⟨a', _, _, h3⟩ := SeqIo.Fastq.Hist.acceptsA_delivers hns hne
    (SeqIo.Fastq.fastq_history_accepted inp cap hcap pol hpol script hs chunk _ hwf)
  simpa using h3

/-- non-vacuity: a concrete schedule of a two-worker configuration reaches a state with a delivery -/
def exampleCfg : Cfg :=
  { T := 2, Q := 1, N := 1, endErr := false, readerInitFails := false, dsInitFailAt := none, stopAfter := none }

example : (runSched exampleCfg init
      [.main, .main, .reader, .reader, .reader, .workerTake, .workerFinish 0, .workerSend 0, .main]).map (·.delivered)
      = some [(0, 0)] := by decide

end SeqIo.Thm.C07
