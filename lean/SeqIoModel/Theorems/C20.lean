import SeqIoModel.Proofs.Iterators
import SeqIoModel.Proofs.FastaStream
import SeqIoModel.Proofs.FastqStream
/-!
# C20 – iterators obey the iterator contracts at every step

`SeqLinesIt` mirrors `Zip<slice::Iter<usize>, Skip<slice::Iter<usize>>>` step by step (what
`SeqLines` wraps after the repair of `SeqLines::len`).  The record-set iterators (`slice::Iter` + `Take`) are modelled as a forward cursor over the stored
positions, the owned-record iterators as repeated `Reader::next`.
-/

namespace SeqIo.Thm.C20
open SeqIo SeqIo.Fasta SeqIo.IterProofs

/-- After ANY sequence of front/back steps the iterator has yielded exactly what a double-ended
queue over the record's lines yields, the items still to come are the queue's remainder, and the
exact length it reports is the number of items still to come. -/
theorem seq_lines_deque (bp : BufPos) (steps : List Step) :
    (runIt (SeqLinesIt.mk' bp) steps).2 = (runList (bp.seqPos.zip (bp.seqPos.drop 1)) steps).2 ∧
    items (runIt (SeqLinesIt.mk' bp) steps).1 = (runList (bp.seqPos.zip (bp.seqPos.drop 1)) steps).1 ∧
    (runIt (SeqLinesIt.mk' bp) steps).1.len = (runList (bp.seqPos.zip (bp.seqPos.drop 1)) steps).1.length :=
  run_deque bp steps

/-- fused: once the end has been reported from either side, every further step reports the end -/
theorem seq_lines_fused (bp : BufPos) (steps : List Step) (s s' : Step)
    (h : (stepIt (runIt (SeqLinesIt.mk' bp) steps).1 s).2 = none) :
    (stepIt (stepIt (runIt (SeqLinesIt.mk' bp) steps).1 s).1 s').2 = none :=
  fused bp steps s s' h

/-- consuming from the front yields every line exactly once, in order -/
theorem seq_lines_exhaust_front (bp : BufPos) :
    ((runIt (SeqLinesIt.mk' bp) (List.replicate (bp.seqPos.length) Step.front)).2.filterMap id)
      = bp.seqPos.zip (bp.seqPos.drop 1) :=
  exhaust_front bp

/-- consuming from the back yields every line exactly once, in reverse order -/
theorem seq_lines_exhaust_back (bp : BufPos) :
    ((runIt (SeqLinesIt.mk' bp) (List.replicate (bp.seqPos.length) Step.back)).2.filterMap id)
      = (bp.seqPos.zip (bp.seqPos.drop 1)).reverse :=
  exhaust_back bp

/-- the reported length is the number of remaining items in every state (this is what the pinned
tree violated: a stored length that was never decremented) -/
theorem seq_lines_len (it : SeqLinesIt) : it.len = (items it).length := len_eq it

/-- non-vacuity: three lines, mixed steps -/
example : (runIt (SeqLinesIt.mk' ⟨0, [3, 8, 12, 20]⟩) [.front, .back, .back, .front]).2
    = [some (3, 8), some (12, 20), some (8, 12), none] := by decide

/-- helper: in `(l ++ d, d, d, …).take k` with `d ∉ l`, once `d` appears it stays -/
theorem take_append_replicate_fused {α : Type} (l : List α) (d : α) (hd : d ∉ l) (k i j : Nat)
    (hij : i ≤ j) (hj : j < k) (hi : ((l ++ List.replicate k d).take k)[i]? = some d) :
    ((l ++ List.replicate k d).take k)[j]? = some d := by
  have hik : i < k := by omega
  rw [List.getElem?_take_of_lt hik] at hi
  rw [List.getElem?_take_of_lt hj]
  by_cases hil : i < l.length
  · rw [List.getElem?_append_left hil] at hi
    exact absurd (List.mem_of_getElem? hi) hd
  · have hjl : l.length ≤ j := by omega
    rw [List.getElem?_append_right hjl]
    rw [List.getElem?_replicate]
    have : j - l.length < k := by omega
    simp [this]

/-- the owned-record iterators (`records()`, `into_records()`: `Reader::next` mapped to an owned copy) are
fused: once a FASTA reader has reported the end, every later call reports the end – for every input,
capacity, growing policy and chunking -/
theorem fasta_records_iter_fused (inp : List UInt8) (cap : Nat) (hcap : 3 ≤ cap) (pol : Pol)
    (hpol : Fasta.PolGrows pol) (script : List ReadEv) (hs : FillProofs.NoFail script) (chunk : Nat)
    (k i j : Nat) (hij : i ≤ j) (hj : j < k)
    (hi : (Fasta.runNexts k (Fasta.mkReader inp cap pol script chunk))[i]? = some Fasta.Obs.none) :
    (Fasta.runNexts k (Fasta.mkReader inp cap pol script chunk))[j]? = some Fasta.Obs.none := by
  rw [Fasta.fasta_next_stream_polGrows inp cap hcap pol hpol script hs chunk k] at hi ⊢
  refine take_append_replicate_fused _ _ ?_ k i j hij hj hi
  unfold Fasta.specObs
  split <;> simp

/-- the same for the FASTQ reader -/
theorem fastq_records_iter_fused (inp : List UInt8) (cap : Nat) (hcap : 3 ≤ cap) (pol : Pol)
    (hpol : Fastq.PolGrows pol) (script : List ReadEv) (hs : FillProofs.NoFail script) (chunk : Nat)
    (k i j : Nat) (hij : i ≤ j) (hj : j < k)
    (hi : (Fastq.runNexts k (Fastq.mkReader inp cap pol script chunk))[i]? = some Fastq.Obs.none) :
    (Fastq.runNexts k (Fastq.mkReader inp cap pol script chunk))[j]? = some Fastq.Obs.none := by
  rw [Fastq.fastq_next_stream_polGrows inp cap hcap pol hpol script hs chunk k] at hi ⊢
  refine take_append_replicate_fused _ _ ?_ k i j hij hj hi
  unfold Fastq.specObs
  intro h
  obtain ⟨x, _, hx⟩ := List.mem_map.mp h
  split at hx <;> cases hx

/-! ## the record-set iterators: `slice::Iter` (+ `Take(npos)` for FASTA) over the stored positions -/

/-- forward cursor over a list – the model of `slice::Iter` as the record-set iterators use it -/
def cursorRun {α : Type} : List α → Nat → List (Option α)
  | _, 0 => []
  | [], k + 1 => none :: cursorRun [] k
  | x :: xs, k + 1 => some x :: cursorRun xs k

theorem take_replicate_succ {α : Type} (l : List α) (d : α) (k : Nat) :
    (l ++ List.replicate (k + 1) d).take k = (l ++ List.replicate k d).take k := by
  rw [List.replicate_succ', ← List.append_assoc]
  exact List.take_append_of_le_length (l₁ := l ++ List.replicate k d) (by simp)

theorem none_not_mem_map_some {α : Type} (l : List α) : (none : Option α) ∉ l.map some := by
  intro h
  obtain ⟨x, _, hx⟩ := List.mem_map.mp h
  cases hx

theorem cursorRun_eq {α : Type} (l : List α) (k : Nat) :
    cursorRun l k = (l.map some ++ List.replicate k none).take k := by
  induction k generalizing l with
  | zero => simp [cursorRun]
  | succ k ih =>
    cases l with
    | nil =>
      simp only [cursorRun, ih, List.map_nil, List.nil_append, List.take_replicate, Nat.min_self]
      rfl
    | cons x xs =>
      simp only [cursorRun, ih, List.map_cons, List.cons_append, List.take_succ_cons]
      rw [take_replicate_succ]

/-- Iterating over a FASTA record set shows exactly the first `npos` stored positions (stale positions
of an earlier, larger batch are never shown), each once, in order, and then reports the end for
ever; the remaining length after `i` steps is `npos' - i` where `npos' = min npos positions.length`. -/
theorem fasta_record_set_iter_contract (rs : Fasta.RecordSet) (k : Nat) :
    cursorRun (rs.positions.take rs.npos) k =
      ((rs.positions.take rs.npos).map some ++ List.replicate k none).take k ∧
    (∀ i j, i ≤ j → j < k → (cursorRun (rs.positions.take rs.npos) k)[i]? = some none →
      (cursorRun (rs.positions.take rs.npos) k)[j]? = some none) := by
  refine ⟨cursorRun_eq _ k, ?_⟩
  intro i j hij hj hi
  rw [cursorRun_eq] at hi ⊢
  exact take_append_replicate_fused _ none (none_not_mem_map_some _) k i j hij hj hi

/-- FASTQ record sets: the same over all stored positions -/
theorem fastq_record_set_iter_contract (rs : Fastq.RecordSet) (k : Nat) :
    cursorRun rs.positions k = (rs.positions.map some ++ List.replicate k none).take k ∧
    (∀ i j, i ≤ j → j < k → (cursorRun rs.positions k)[i]? = some none →
      (cursorRun rs.positions k)[j]? = some none) := by
  refine ⟨cursorRun_eq _ k, ?_⟩
  intro i j hij hj hi
  rw [cursorRun_eq] at hi ⊢
  exact take_append_replicate_fused _ none (none_not_mem_map_some _) k i j hij hj hi

example : cursorRun [1, 2] 4 = [some 1, some 2, none, none] := by decide

end SeqIo.Thm.C20
