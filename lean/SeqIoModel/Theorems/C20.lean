import SeqIoModel.Proofs.Iterators
/-!
# C20 – iterators obey the iterator contracts at every step

`SeqLinesIt` mirrors `Zip<slice::Iter<usize>, Skip<slice::Iter<usize>>>` step by step (what
`SeqLines` wraps after the repair of `SeqLines::len`).  The record-set and owned-record
iterators are thin wrappers (`slice::Iter` + `Take`, `Reader::next` + `map`) whose contracts are
checked by the correspondence run only.
-/

namespace SeqIo.Thm.C20
open SeqIo SeqIo.Fasta SeqIo.IterProofs

/-- After ANY sequence of front/back steps the iterator has yielded exactly what a double-ended
queue over the record's lines yields, the items still to come are the queue's remainder, and the
exact length it reports is the number of items still to come. -/
theorem seq_lines_deque (bp : BufPos) (steps : List Step) :
    (runIt (SeqLinesIt.mk' bp) steps).2 = (runList (bp.seqPos.zip (bp.seqPos.drop 1)) steps).2 ∧
    items (runIt (SeqLinesIt.mk' bp) steps).1 = (runList (bp.seqPos.zip (bp.seqPos.drop 1)) steps).1 ∧
    (runIt (SeqLinesIt.mk' bp) steps).1.len = (runList (bp.seqPos.zip (bp.seqPos.drop 1)) steps).1.length :=
  run_deque bp steps

/-- fused: once the end has been reported from either side, every further step reports the end -/
theorem seq_lines_fused (bp : BufPos) (steps : List Step) (s s' : Step)
    (h : (stepIt (runIt (SeqLinesIt.mk' bp) steps).1 s).2 = none) :
    (stepIt (stepIt (runIt (SeqLinesIt.mk' bp) steps).1 s).1 s').2 = none :=
  fused bp steps s s' h

/-- consuming from the front yields every line exactly once, in order -/
theorem seq_lines_exhaust_front (bp : BufPos) :
    ((runIt (SeqLinesIt.mk' bp) (List.replicate (bp.seqPos.length) Step.front)).2.filterMap id)
      = bp.seqPos.zip (bp.seqPos.drop 1) :=
  exhaust_front bp

/-- consuming from the back yields every line exactly once, in reverse order -/
theorem seq_lines_exhaust_back (bp : BufPos) :
    ((runIt (SeqLinesIt.mk' bp) (List.replicate (bp.seqPos.length) Step.back)).2.filterMap id)
      = (bp.seqPos.zip (bp.seqPos.drop 1)).reverse :=
  exhaust_back bp

/-- the reported length is the number of remaining items in every state (this is what the pinned
tree violated: a stored length that was never decremented) -/
theorem seq_lines_len (it : SeqLinesIt) : it.len = (items it).length := len_eq it

/-- non-vacuity: three lines, mixed steps -/
example : (runIt (SeqLinesIt.mk' ⟨0, [3, 8, 12, 20]⟩) [.front, .back, .back, .front]).2
    = [some (3, 8), some (12, 20), some (8, 12), none] := by decide

end SeqIo.Thm.C20
