import SeqIoModel.Proofs.Iterators
import SeqIoModel.Proofs.RawSeq
/-!
# C13 – all views of a record agree with each other
-/

namespace SeqIo.Thm.C13
open SeqIo SeqIo.Fasta SeqIo.IterProofs

/-- the number of lines equals the length of the line iterator … -/
theorem num_lines_eq_iter_len (bp : BufPos) : numSeqLines bp = (SeqLinesIt.mk' bp).len :=
  numSeqLines_eq_items bp

/-- … and the number of lines the iteration actually yields -/
theorem num_lines_eq_lines (buf : List UInt8) (bp : BufPos) : numSeqLines bp = (seqLines buf bp).length :=
  numSeqLines_eq buf bp

/-- the owned sequence is the concatenation of the sequence lines -/
theorem owned_eq_lines_concat (buf : List UInt8) (bp : BufPos) (ls : List (List UInt8))
    (h : allSome (seqLines buf bp) = some ls) : ownedSeq buf bp = some ls.flatten :=
  ownedSeq_eq_flatten buf bp ls h

/-- with a single line the raw sequence is that line: `full_seq` may borrow it -/
theorem single_line_borrowable (buf : List UInt8) (bp : BufPos) (l : List UInt8)
    (h : allSome (seqLines buf bp) = some [l]) : seqRaw buf bp = some l :=
  single_line_raw buf bp l h

/-- id = header up to the first space, description = the rest -/
theorem id_desc_split (h : List UInt8) :
    idBytes h ++ (match descBytes h with | some d => SP :: d | none => []) = h ∧
    SP ∉ idBytes h ∧ (descBytes h = none ↔ SP ∉ h) :=
  ⟨id_desc_join h, id_no_space h, desc_none_iff h⟩

/-- the text accessors agree: the whole header is valid UTF-8 exactly when id and description
are (`id_desc()` validates the header, `id()` / `desc()` validate the parts) -/
theorem utf8_header_iff_parts (h : List UInt8) :
    validUtf8 h = (validUtf8 (idBytes h) && (match descBytes h with | some d => validUtf8 d | none => true)) :=
  validUtf8_id_desc h

example : idBytes [97, 98, 32, 99, 100, 32, 101] = [97, 98] ∧
    descBytes [97, 98, 32, 99, 100, 32, 101] = some [99, 100, 32, 101] := by decide

/-- the raw sequence differs from the lines only by line terminators (for every record `next()` returns,
at every capacity): there are LF-free raw lines such that the sequence lines are these with one final CR
removed each, and the raw sequence is these joined by LF with one final CR removed -/
theorem raw_is_lines_joined {inp : List UInt8} {r r' : Reader} {rest : List Obs} {fuel : Nat}
    (h : InvR inp r rest) (hfuel : inp.length < fuel) (hn : next fuel r = (r', .ok true)) :
    ∃ rawLines : List (List UInt8),
      allSome (seqLines r'.br.buf r'.bp) = some (rawLines.map trimCr) ∧
      seqRaw r'.br.buf r'.bp = some (trimCr (Raw.joinLF rawLines)) ∧
      ∀ l ∈ rawLines, LF ∉ l :=
  Raw.next_raw_eq_join h hfuel hn

/-- … hence deleting LF and CR bytes from the raw sequence and from the owned sequence gives the same -/
theorem raw_and_owned_differ_by_terminators {inp : List UInt8} {r r' : Reader} {rest : List Obs} {fuel : Nat}
    (h : InvR inp r rest) (hfuel : inp.length < fuel) (hn : next fuel r = (r', .ok true)) :
    ∃ raw owned, seqRaw r'.br.buf r'.bp = some raw ∧ ownedSeq r'.br.buf r'.bp = some owned ∧
      raw.filter (fun b => decide (b ≠ LF ∧ b ≠ CR)) = owned.filter (fun b => decide (b ≠ LF ∧ b ≠ CR)) :=
  Raw.next_raw_filter_eq h hfuel hn

end SeqIo.Thm.C13
