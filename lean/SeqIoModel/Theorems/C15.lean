import SeqIoModel.Proofs.ParallelInvariants
/-!
# C15 – errors reach the caller of the parallel functions
-/

namespace SeqIo.Thm.C15
open SeqIo.Par

/-- the consumer receives the reader's error at most once, and only if the reader failed -/
theorem error_at_most_once (c : Cfg) (s : St) (hT : 0 < c.T) (hQ : 0 < c.Q) (h : Reach c s) :
    s.errsSeen ≤ 1 ∧ (s.errsSeen = 1 → c.endErr = true) :=
  SeqIo.Par.error_at_most_once c s hT hQ h

/-- each earlier set is received at most once (sets read after the error do not exist: the reader
stops at the error) -/
theorem earlier_sets_at_most_once (c : Cfg) (s : St) (hT : 0 < c.T) (hQ : 0 < c.Q) (h : Reach c s) :
    (s.delivered.map (·.2)).Nodup ∧ ∀ b ∈ s.delivered.map (·.2), b < s.filled :=
  delivered_nodup c s hT hQ h

/-- a consumer that keeps draining receives all earlier sets, the error exactly once, and the end marker -/
theorem drain_gets_all_then_end (c : Cfg) (s : St) (hT : 0 < c.T) (hQ : 0 < c.Q) (h : Reach c s)
    (hf : s.mn = .returned) (h1 : c.stopAfter = none) (h2 : c.readerInitFails = false)
    (h3 : c.dsInitFailAt = none) (he : c.endErr = true) (hc : c.contAfterErr = true) :
    s.got = c.N ∧ s.finSeen = true ∧ s.errsSeen = 1 := by
  have := drained_gets_all c s hT hQ h hf h1 h2 h3 (Or.inr hc)
  exact ⟨this.1, this.2.1, this.2.2 he⟩

/-- a failing initialisation closure is returned to the caller as an error: the call returns (C08) and
the returned state carries the error flag; there is no panic state in the repaired protocol -/
theorem init_failure_is_returned (c : Cfg) (s : St) (h : Reach c s) (hf : s.mn = .returned) :
    (c.readerInitFails = true → s.readerErr = true ∨ s.mainErr = true) ∧
      (s.mainErr = true → c.dsInitFailAt.isSome) :=
  init_failure_returned c s h hf

end SeqIo.Thm.C15
