import SeqIoModel.Model.Basic
import SeqIoModel.Model.Source
import SeqIoModel.Model.Policy
import SeqIoModel.Model.Fasta
import SeqIoModel.Model.Fastq
import SeqIoModel.Model.Spec
import SeqIoModel.Model.Fmt
