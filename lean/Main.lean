import SeqIoModel.Model.Fmt
import SeqIoModel.Model.Spec
import SeqIoModel.Model.Write
import SeqIoModel.Model.Utf8
import SeqIoModel.Model.Serde
import SeqIoModel.Model.History
import SeqIoModel.Model.HistoryFq
import SeqIoModel.Model.ParallelCheck
import SeqIoModel.Model.Alloc
/-!
# Model driver: line protocol

Reads case lines from stdin, runs the concrete machine M and the reference semantics S on
each and prints `M <observations>` and `S <items>` lines.  Lines it does not understand are
answered with `M bad-case`.
-/

open SeqIo

namespace Drv

def hexDigitC (n : Nat) : Char := if n < 10 then Char.ofNat (48 + n) else Char.ofNat (87 + n)

def hexOf (l : List UInt8) : String :=
  String.ofList (l.flatMap fun b => [hexDigitC (b.toNat / 16), hexDigitC (b.toNat % 16)])

def hexVal (c : Char) : Option Nat :=
  if '0' ≤ c ∧ c ≤ '9' then some (c.toNat - 48)
  else if 'a' ≤ c ∧ c ≤ 'f' then some (c.toNat - 87)
  else none

def unhexAux : List Char → Option (List UInt8)
  | [] => some []
  | [_] => none
  | a :: b :: rest =>
    match hexVal a, hexVal b, unhexAux rest with
    | some x, some y, some r => some ((x * 16 + y).toUInt8 :: r)
    | _, _, _ => none

def unhex (s : String) : Option (List UInt8) :=
  if s = "-" then some [] else unhexAux s.toList

def parseList {α : Type} (s : String) (sep : String) (f : String → Option α) : Option (List α) :=
  if s = "-" ∨ s = "" then some []
  else (s.splitOn sep).mapM f

def parsePol (s : String) : Option PolDesc :=
  match s.splitOn "." with
  | ["std"] => some .std
  | ["du", t] => t.toNat?.map .doubleUntil
  | ["dul", t, l] => match t.toNat?, l.toNat? with
    | some t, some l => some (.limited t l)
    | _, _ => none
  | ["add", k] => k.toNat?.map .add
  | ["ref", c] => c.toNat?.map .refuseAt
  | "tab" :: l => (l.mapM String.toNat?).map .table
  | _ => none

def parseEv (s : String) : Option ReadEv :=
  match s.toList with
  | ['i'] => some .intr
  | 'd' :: n => (String.ofList n).toNat?.map .data
  | 'f' :: n => (String.ofList n).toNat?.map .fail
  | _ => none

def parseSeekFail (s : String) : Option (Nat × Nat) :=
  match s.splitOn "." with
  | [a, b] => match a.toNat?, b.toNat? with
    | some a, some b => some (a, b)
    | _, _ => none
  | _ => none

inductive Op where
  | next | owned
  | set (j : Nat) | exact (j n : Nat) | dump (j : Nat)
  | pos | capture (r : Nat) | seekSlot (r : Nat) | seekTo (line byte : Nat)
  | setPolicy (p : PolDesc)
  | json (j : Nat) | ownedJson
  | shrink (j : Nat)
  /-- open a second reader over this input and make it the active one (record sets and slots are shared) -/
  | second (inp : List UInt8)
  /-- make the other reader the active one -/
  | toggle
deriving Repr

def parseOp (s : String) : Option Op :=
  match s.toList with
  | ['n'] => some .next
  | ['o'] => some .owned
  | ['p'] => some .pos
  | ['y'] => some .ownedJson
  | ['w'] => some .toggle
  | 'T' :: rest => (unhex (String.ofList rest)).map .second
  | 'j' :: j => (String.ofList j).toNat?.map .json
  | 'h' :: j => (String.ofList j).toNat?.map .shrink
  | 's' :: j => (String.ofList j).toNat?.map .set
  | 'i' :: j => (String.ofList j).toNat?.map .dump
  | 'c' :: j => (String.ofList j).toNat?.map .capture
  | 'k' :: j => (String.ofList j).toNat?.map .seekSlot
  | 'e' :: rest =>
    match (String.ofList rest).splitOn "." with
    | [j, n] => match j.toNat?, n.toNat? with
      | some j, some n => some (.exact j n)
      | _, _ => none
    | _ => none
  | 'K' :: rest =>
    match (String.ofList rest).splitOn "." with
    | [l, b] => match l.toNat?, b.toNat? with
      | some l, some b => some (.seekTo l b)
      | _, _ => none
    | _ => none
  | 'P' :: rest => (parsePol (String.ofList rest)).map .setPolicy
  | _ => none

def idStr : Option (List UInt8) → String
  | none => "-"
  | some l => "=" ++ hexOf l

/-- id / description bytes and the verdicts of `id()`, `desc()`, `id_desc()` (plus "all agree") -/
def idDescStr (h : List UInt8) : String :=
  let id := idBytes h
  let d := descBytes h
  let b (x : Bool) : String := if x then "1" else "0"
  let vd := match d with | some x => validUtf8 x | none => true
  s!"i={hexOf id}:d=" ++ (match d with | some x => "~" ++ hexOf x | none => "-") ++
    ":v=" ++ b (validUtf8 id) ++ b vd ++ b (validUtf8 h) ++ "1"

def logStr (log : List (Nat × Option Nat)) : String :=
  ",".intercalate (log.map fun (c, a) => s!"{c}>" ++ (match a with | some n => toString n | none => "x"))

/-! ## FASTA -/

namespace Fa
open Fasta

def errStr (e : Err) : String :=
  (match e with
   | .io k => s!"io.{k}"
   | .invalidStart l f => s!"is.{l}.{f.toNat}"
   | .bufferLimit => "bl") ++ "/m=" ++ hexOf (Fmt.fastaErr e)

def linesStr (ls : List (List UInt8)) : String := String.join (ls.map fun l => hexOf l ++ ".")

/-- all views of a record, `none` = some accessor panics -/
def recStr (buf : List UInt8) (bp : BufPos) : Option String := do
  let h ← head buf bp
  let ls ← allSome (seqLines buf bp)
  let raw ← seqRaw buf bp
  let u ← writeUnchanged buf bp
  let n := numSeqLines bp
  let o ← ownedSeq buf bp
  let x ← Write.faRefWrap h ls 3
  some (s!"h={hexOf h}:l={linesStr ls}:r={hexOf raw}:n={n}:b={if n = 1 then 1 else 0}:o={hexOf o}:f={hexOf o}:u={hexOf u}:" ++
    s!"w={hexOf (Write.faRefWrite h ls)}:x={hexOf x}:" ++ idDescStr h)

def ownedStr (buf : List UInt8) (bp : BufPos) : Option String := do
  let h ← head buf bp
  let s ← ownedSeq buf bp
  some s!"h={hexOf h}:s={hexOf s}"

structure St where
  r : Reader
  sets : List RecordSet := [{}, {}, {}]
  slots : List (Option (Nat × Nat)) := [none, none, none, none]
  dead : Bool := false
  /-- the inactive one of two readers sharing the record sets (ops `T<input>` / `w`) -/
  other : Option Reader := none
  /-- its captured positions (the slots belong to the reader they were taken from) -/
  otherSlots : List (Option (Nat × Nat)) := [none, none, none, none]
  /-- how a second reader is opened: same capacity, policy description and chunking, no faults -/
  mk2 : List UInt8 → Option Reader := fun _ => none
  /-- all policy requests of both readers in the order they were made -/
  glog : List (Nat × Option Nat) := []

def St.total (s : St) : Nat := s.r.log.length + (match s.other with | some o => o.log.length | none => 0)

def fuelOf (r : Reader) : Nat := 2 * r.br.src.inp.length + 2 * r.br.src.script.length + 16

def outStr {α : Type} (o : Out Err α) (okStr : α → String) : String × Bool :=
  match o with
  | .ok a => (okStr a, false)
  | .err e => ("E:" ++ errStr e, false)
  | .panic => ("PANIC", true)
  | .fuel => ("HANG", true)

def dumpSet (rs : RecordSet) : String :=
  let recs := (rs.positions.take rs.npos).map (recStr rs.buffer)
  match allSome recs with
  | some l => "I:" ++ "/".intercalate l
  | none => "PANIC"

def step (s : St) (op : Op) : St × String :=
  if s.dead then (s, "") else
  match op with
  | .next =>
    let (r, o) := next (fuelOf s.r) s.r
    match o with
    | .ok true =>
      match recStr r.br.buf r.bp with
      | some x => ({ s with r := r }, "R:" ++ x)
      | none => ({ s with r := r, dead := true }, "PANIC")
    | .ok false => ({ s with r := r }, "N")
    | o => let (x, d) := outStr o (fun _ => ""); ({ s with r := r, dead := d }, x)
  | .owned =>
    let (r, o) := next (fuelOf s.r) s.r
    match o with
    | .ok true =>
      match ownedStr r.br.buf r.bp with
      | some x => ({ s with r := r }, "O:" ++ x)
      | none => ({ s with r := r, dead := true }, "PANIC")
    | .ok false => ({ s with r := r }, "N")
    | o => let (x, d) := outStr o (fun _ => ""); ({ s with r := r, dead := d }, x)
  | .set j => runSet s j none
  | .exact j n => runSet s j (some n)
  | .dump j =>
    match s.sets[j]? with
    | some rs => let x := dumpSet rs; (if x = "PANIC" then { s with dead := true } else s, x)
    | none => (s, "bad-op")
  | .pos =>
    match position s.r with
    | some (l, b) => (s, s!"P{l}.{b}")
    | none => (s, "P-")
  | .capture k =>
    match position s.r with
    | some (l, b) => ({ s with slots := s.slots.set k (some (l, b)) }, s!"C{l}.{b}")
    | none => (s, "C-")
  | .seekSlot k =>
    match s.slots[k]? with
    | some (some (l, b)) => runSeek s l b
    | _ => (s, "K?")
  | .seekTo l b => runSeek s l b
  | .setPolicy p => ({ s with r := setPolicy s.r p.toPol }, "Y")
  | .json j =>
    match s.sets[j]? with
    | some rs => (s, "J:" ++ hexOf (Serde.serFaSet rs).render.toUTF8.toList ++ ":rt=1")
    | none => (s, "bad-op")
  | .shrink j =>
    match s.sets[j]? with
    | some rs => (s, s!"H{rs.npos}")
    | none => (s, "bad-op")
  | .second inp =>
    match s.mk2 inp with
    | some r2 => ({ s with other := some s.r, r := r2, otherSlots := s.slots, slots := [none, none, none, none] }, "W")
    | none => (s, "bad-op")
  | .toggle =>
    match s.other with
    | some o => ({ s with r := o, other := some s.r, slots := s.otherSlots, otherSlots := s.slots }, "W")
    | none => (s, "W")
  | .ownedJson =>
    let (r, o) := next (fuelOf s.r) s.r
    match o with
    | .ok true =>
      match head r.br.buf r.bp, ownedSeq r.br.buf r.bp with
      | some h, some sq =>
        ({ s with r := r }, "Y:" ++ hexOf (Serde.serFaOwned { head := h, seq := sq }).render.toUTF8.toList ++ ":rt=1")
      | _, _ => ({ s with r := r, dead := true }, "PANIC")
    | .ok false => ({ s with r := r }, "N")
    | o => let (x, d) := outStr o (fun _ => ""); ({ s with r := r, dead := d }, x)
where
  runSet (s : St) (j : Nat) (n : Option Nat) : St × String :=
    match s.sets[j]? with
    | none => (s, "bad-op")
    | some rs =>
      let (r, rs, o) := readRecordSetExact (fuelOf s.r) s.r rs n
      let s := { s with r := r, sets := s.sets.set j rs }
      match o with
      | .ok true => (s, s!"S{rs.npos}")
      | .ok false => (s, "N")
      | o => let (x, d) := outStr o (fun _ => ""); ({ s with dead := d }, x)
  runSeek (s : St) (l b : Nat) : St × String :=
    let (r, o) := seek s.r l b
    let (x, d) := outStr o (fun _ => "K")
    ({ s with r := r, dead := d }, x)

def specStr (inp : List UInt8) : String :=
  match Spec.fasta inp with
  | .invalidStart l f => s!"E:is.{l}.{f.toNat}"
  | .records rs =>
    "/".intercalate (rs.map fun r => s!"h={hexOf r.head}:l={linesStr r.seqLines}:p={r.line}.{r.byte}")

end Fa

/-! ## FASTQ -/

namespace Fq
open Fastq

def posStr (p : ErrPos) : String := s!"{p.line}.{idStr p.id}"

def errStr (e : Err) : String :=
  (match e with
   | .io k => s!"io.{k}"
   | .unequalLengths s q p => s!"ul.{s}.{q}.{posStr p}"
   | .invalidStart f p => s!"is.{f.toNat}.{posStr p}"
   | .invalidSep f p => s!"sep.{f.toNat}.{posStr p}"
   | .unexpectedEnd p => s!"ue.{posStr p}"
   | .bufferLimit => "bl") ++ "/m=" ++ hexOf (Fmt.fastqErr e)

def recStr (buf : List UInt8) (bp : BufPos) : Option String := do
  let h ← head buf bp
  let s ← seq buf bp
  let q ← qual buf bp
  let u ← writeUnchanged buf bp
  some (s!"h={hexOf h}:s={hexOf s}:q={hexOf q}:u={hexOf u}:w={hexOf (Write.fqTo h s q)}:" ++ idDescStr h)

def ownedStr (buf : List UInt8) (bp : BufPos) : Option String := do
  let h ← head buf bp
  let s ← seq buf bp
  let q ← qual buf bp
  some s!"h={hexOf h}:s={hexOf s}:q={hexOf q}"

structure St where
  r : Reader
  sets : List RecordSet := [{}, {}, {}]
  slots : List (Option (Nat × Nat)) := [none, none, none, none]
  dead : Bool := false
  /-- the inactive one of two readers sharing the record sets (ops `T<input>` / `w`) -/
  other : Option Reader := none
  /-- its captured positions (the slots belong to the reader they were taken from) -/
  otherSlots : List (Option (Nat × Nat)) := [none, none, none, none]
  /-- how a second reader is opened: same capacity, policy description and chunking, no faults -/
  mk2 : List UInt8 → Option Reader := fun _ => none
  /-- all policy requests of both readers in the order they were made -/
  glog : List (Nat × Option Nat) := []

def St.total (s : St) : Nat := s.r.log.length + (match s.other with | some o => o.log.length | none => 0)

def fuelOf (r : Reader) : Nat := 2 * r.br.src.inp.length + 2 * r.br.src.script.length + 16

def outStr {α : Type} (o : Out Err α) (okStr : α → String) : String × Bool :=
  match o with
  | .ok a => (okStr a, false)
  | .err e => ("E:" ++ errStr e, false)
  | .panic => ("PANIC", true)
  | .fuel => ("HANG", true)

def dumpSet (rs : RecordSet) : String :=
  match Fasta.allSome (rs.positions.map (recStr rs.buffer)) with
  | some l => "I:" ++ "/".intercalate l
  | none => "PANIC"

def step (s : St) (op : Op) : St × String :=
  if s.dead then (s, "") else
  match op with
  | .next =>
    let (r, o) := next (fuelOf s.r) s.r
    match o with
    | .ok true =>
      match recStr r.br.buf r.bp with
      | some x => ({ s with r := r }, "R:" ++ x)
      | none => ({ s with r := r, dead := true }, "PANIC")
    | .ok false => ({ s with r := r }, "N")
    | o => let (x, d) := outStr o (fun _ => ""); ({ s with r := r, dead := d }, x)
  | .owned =>
    let (r, o) := next (fuelOf s.r) s.r
    match o with
    | .ok true =>
      match ownedStr r.br.buf r.bp with
      | some x => ({ s with r := r }, "O:" ++ x)
      | none => ({ s with r := r, dead := true }, "PANIC")
    | .ok false => ({ s with r := r }, "N")
    | o => let (x, d) := outStr o (fun _ => ""); ({ s with r := r, dead := d }, x)
  | .set j => runSet s j none
  | .exact j n => runSet s j (some n)
  | .dump j =>
    match s.sets[j]? with
    | some rs => let x := dumpSet rs; (if x = "PANIC" then { s with dead := true } else s, x)
    | none => (s, "bad-op")
  | .pos => let (l, b) := position s.r; (s, s!"P{l}.{b}")
  | .capture k =>
    let (l, b) := position s.r
    ({ s with slots := s.slots.set k (some (l, b)) }, s!"C{l}.{b}")
  | .seekSlot k =>
    match s.slots[k]? with
    | some (some (l, b)) => runSeek s l b
    | _ => (s, "K?")
  | .seekTo l b => runSeek s l b
  | .setPolicy p => ({ s with r := setPolicy s.r p.toPol }, "Y")
  | .json j =>
    match s.sets[j]? with
    | some rs => (s, "J:" ++ hexOf (Serde.serFqSet rs).render.toUTF8.toList ++ ":rt=1")
    | none => (s, "bad-op")
  | .shrink j =>
    match s.sets[j]? with
    | some rs => (s, s!"H{rs.positions.length}")
    | none => (s, "bad-op")
  | .second inp =>
    match s.mk2 inp with
    | some r2 => ({ s with other := some s.r, r := r2, otherSlots := s.slots, slots := [none, none, none, none] }, "W")
    | none => (s, "bad-op")
  | .toggle =>
    match s.other with
    | some o => ({ s with r := o, other := some s.r, slots := s.otherSlots, otherSlots := s.slots }, "W")
    | none => (s, "W")
  | .ownedJson =>
    let (r, o) := next (fuelOf s.r) s.r
    match o with
    | .ok true =>
      match head r.br.buf r.bp, seq r.br.buf r.bp, qual r.br.buf r.bp with
      | some h, some sq, some q =>
        ({ s with r := r }, "Y:" ++ hexOf (Serde.serFqOwned { head := h, seq := sq, qual := q }).render.toUTF8.toList ++ ":rt=1")
      | _, _, _ => ({ s with r := r, dead := true }, "PANIC")
    | .ok false => ({ s with r := r }, "N")
    | o => let (x, d) := outStr o (fun _ => ""); ({ s with r := r, dead := d }, x)
where
  runSet (s : St) (j : Nat) (n : Option Nat) : St × String :=
    match s.sets[j]? with
    | none => (s, "bad-op")
    | some rs =>
      let (r, rs, o) := readRecordSetExact (fuelOf s.r) s.r rs n
      let s := { s with r := r, sets := s.sets.set j rs }
      match o with
      | .ok true => (s, s!"S{rs.positions.length}")
      | .ok false => (s, "N")
      | o => let (x, d) := outStr o (fun _ => ""); ({ s with dead := d }, x)
  runSeek (s : St) (l b : Nat) : St × String :=
    let (r, o) := seek s.r l b
    let (x, d) := outStr o (fun _ => "K")
    ({ s with r := r, dead := d }, x)

def itemStr : Spec.FqItem → String
  | .record r => s!"h={hexOf r.head}:s={hexOf r.seq}:q={hexOf r.qual}:p={r.line}.{r.byte}"
  | .err (.unequalLengths s q l id) b gl => s!"E:ul.{s}.{q}.{l}.{idStr id}@{gl}.{b}"
  | .err (.invalidStart f l) b gl => s!"E:is.{f.toNat}.{l}.-@{gl}.{b}"
  | .err (.invalidSep f l id) b gl => s!"E:sep.{f.toNat}.{l}.{idStr id}@{gl}.{b}"
  | .err (.unexpectedEnd l id) b gl => s!"E:ue.{l}.{idStr id}@{gl}.{b}"

def specStr (inp : List UInt8) : String :=
  "/".intercalate ((Spec.fastq inp).map itemStr)

end Fq

def runOps {σ : Type} (step : σ → Op → σ × String) (logLen : σ → Nat) (s : σ) (ops : List Op) :
    σ × List String :=
  ops.foldl (fun (acc : σ × List String) op =>
    let (s', x) := step acc.1 op
    let x := if logLen s' ≠ logLen acc.1 then x ++ s!"#{logLen s'}" else x
    (s', if x = "" then acc.2 else x :: acc.2)) (s, [])

/-! ## tie of `Model/History.lean` (the machine and acceptor the history theorems are about) to the
driver's machine: same observations on the same history -/

namespace FaHist
open Fasta.Hist

def toHistOp (inp : List UInt8) : Op → Option Fasta.Hist.Op
  | .next => some .next
  | .owned => some .owned
  | .set j => if j < 3 then some (.set j none) else none
  | .exact j n => if j < 3 ∧ n ≥ 1 then some (.set j (some n)) else none
  | .dump j => if j < 3 then some (.dump j) else none
  | .pos => some .pos
  | .seekTo l b =>
    ((items inp).recs.findIdx? (fun rc => rc.line = l ∧ rc.byte = b)).map .seekRec
  | _ => none

def base (tok : String) : String := (tok.splitOn "#").headD ""

def matchTok (tok : String) : ObsH → Bool
  | .record h ls => (base tok).startsWith ("R:h=" ++ hexOf h ++ ":l=" ++ Fa.linesStr ls ++ ":")
  | .owned h s => base tok == "O:h=" ++ hexOf h ++ ":s=" ++ hexOf s
  | .batch m => base tok == s!"S{m}"
  | .dump recs =>
    let t := base tok
    if !t.startsWith "I:" then false
    else
      let parts := if t == "I:" then [] else ((t.drop 2).toString.splitOn "/")
      parts.length == recs.length &&
        (parts.zip recs).all fun (p, r) => p.startsWith ("h=" ++ hexOf r.1 ++ ":l=" ++ Fa.linesStr r.2 ++ ":")
  | .pos none => base tok == "P-"
  | .pos (some (l, b)) => base tok == s!"P{l}.{b}"
  | .done => base tok == "K"
  | .none => base tok == "N"
  | .error e => (base tok).startsWith ("E:" ++ ((Fa.errStr e).splitOn "/m=").headD "")
  | .panic => base tok == "PANIC"
  | .fuel => base tok == "HANG"

def parsePosTok (t : String) : Option (Nat × Nat) :=
  match ((base t).drop 1).toString.splitOn "." with
  | [l, b] => match l.toNat?, b.toNat? with
    | some l, some b => some (l, b)
    | _, _ => none
  | _ => none

/-- translate the driver's history (with position slots) into the history model's operations;
`none` = outside its language (set_policy, seek to something that is not a record position, …) -/
def translate (inp : List UInt8) : List (Op × String) → List (Option (Nat × Nat)) →
    Option (List (Fasta.Hist.Op × String))
  | [], _ => some []
  | (op, tok) :: rest, slots =>
    match op with
    | .capture r =>
      let slots' := if (base tok) == "C-" then slots else slots.set r (parsePosTok tok)
      (translate inp rest slots').map (((.pos : Fasta.Hist.Op), "P" ++ ((base tok).drop 1).toString) :: ·)
    | .seekSlot r =>
      match slots[r]? with
      | some (some (l, b)) =>
        match (items inp).recs.findIdx? (fun rc => rc.line = l ∧ rc.byte = b) with
        | some i => (translate inp rest slots).map ((.seekRec i, tok) :: ·)
        | none => none
      | _ => if base tok == "K?" then translate inp rest slots else none
    | .json _ | .shrink _ =>
      -- serialising a set or shrinking its buffer does not touch the reader or the records: not part of the history
      translate inp rest slots
    | op =>
      match toHistOp inp op with
      | some h => (translate inp rest slots).map ((h, tok) :: ·)
      | none => none

/-- "H=1": `Hist.runM` shows what the driver's machine shows; "A=1": the abstract reader accepts it -/
def check (inp : List UInt8) (cap : Nat) (pol : Pol) (script : List ReadEv) (chunk : Nat)
    (ops : List Op) (toks : List String) : String :=
  if ops.length != toks.length then "" else
  match translate inp (ops.zip toks) [none, none, none, none] with
  | none => ""
  | some pairs =>
    let hops := pairs.map (·.1)
    let toks := pairs.map (·.2)
    let obs := runM (mkMSt inp cap pol script chunk) hops
    let h := obs.length == toks.length && (toks.zip obs).all fun (t, o) => matchTok t o
    -- the abstract reader specifies failure-free sources and policies that never refuse
    let clean := script.all (fun e => match e with | .fail _ => false | _ => true) &&
      toks.all (fun t => !(base t).startsWith "E:bl")
    let a := !clean || runA (items inp) aInit hops obs
    s!" H={if h then 1 else 0} A={if a then 1 else 0}"

end FaHist

namespace FqHist
open Fastq.Hist

def itemIdx (inp : List UInt8) (l b : Nat) : Option Nat :=
  (Spec.fastq inp).findIdx? (fun it => itemPos it = (l, b))

def translate (inp : List UInt8) : List (Op × String) → List (Option (Nat × Nat)) →
    Option (List (Fastq.Hist.Op × String))
  | [], _ => some []
  | (op, tok) :: rest, slots =>
    let cont (h : Fastq.Hist.Op) (t : String) (sl : List (Option (Nat × Nat))) :=
      (translate inp rest sl).map ((h, t) :: ·)
    match op with
    | .next => cont .next tok slots
    | .owned => cont .owned tok slots
    | .set j => if j < 3 then cont (.set j none) tok slots else none
    | .exact j n => if j < 3 ∧ n ≥ 1 then cont (.set j (some n)) tok slots else none
    | .dump j => if j < 3 then cont (.dump j) tok slots else none
    | .pos => cont .pos tok slots
    | .capture r => cont .pos ("P" ++ ((FaHist.base tok).drop 1).toString) (slots.set r (FaHist.parsePosTok tok))
    | .seekSlot r =>
      match slots[r]? with
      | some (some (l, b)) =>
        match itemIdx inp l b with
        | some i => cont (.seekItem i) tok slots
        | none => none
      | _ => if FaHist.base tok == "K?" then translate inp rest slots else none
    | .seekTo l b =>
      match itemIdx inp l b with
      | some i => cont (.seekItem i) tok slots
      | none => none
    | .json _ | .shrink _ => translate inp rest slots
    | _ => none

def recPrefix (x : Rec) : String := "h=" ++ hexOf x.head ++ ":s=" ++ hexOf x.seq ++ ":q=" ++ hexOf x.qual

def matchTok (tok : String) : ObsH → Bool
  | .record x =>
    let t := FaHist.base tok
    t.startsWith ("R:" ++ recPrefix x ++ ":") || t == "O:" ++ recPrefix x
  | .batch m => FaHist.base tok == s!"S{m}"
  | .dump recs =>
    let t := FaHist.base tok
    if !t.startsWith "I:" then false
    else
      let parts := if t == "I:" then [] else ((t.drop 2).toString.splitOn "/")
      parts.length == recs.length && (parts.zip recs).all fun (p, r) => p.startsWith (recPrefix r ++ ":")
  | .position l b => FaHist.base tok == s!"P{l}.{b}"
  | .done => FaHist.base tok == "K"
  | .badOp => false
  | .none => FaHist.base tok == "N"
  | .error e => (FaHist.base tok).startsWith ("E:" ++ ((Fq.errStr e).splitOn "/m=").headD "")
  | .panic => FaHist.base tok == "PANIC"
  | .fuel => FaHist.base tok == "HANG"

def check (inp : List UInt8) (cap : Nat) (pol : Pol) (script : List ReadEv) (chunk : Nat)
    (sf : List (Nat × Nat)) (ops : List Op) (toks : List String) : String :=
  if ops.length != toks.length then "" else
  match translate inp (ops.zip toks) [none, none, none, none] with
  | none => ""
  | some pairs =>
    let hops := pairs.map (·.1)
    let toks := pairs.map (·.2)
    let obs := runM (mkM inp cap pol script chunk sf) hops
    let h := obs.length == toks.length && (toks.zip obs).all fun (t, o) => matchTok t o
    let clean := sf.isEmpty && script.all (fun e => match e with | .fail _ => false | _ => true) &&
      toks.all (fun t => !(FaHist.base t).startsWith "E:bl")
    let a := !clean || acceptsA (Spec.fastq inp) {} hops obs
    s!" H={if h then 1 else 0} A={if a then 1 else 0}"

end FqHist

/-! ## allocation counts (`A` cases): ghost capacities threaded through the history -/

namespace AllocDrv
open Alloc

structure G where
  seqCap : Cap := { lb := 1 }      -- `Vec::with_capacity(1)` in `fasta::Reader::with_capacity`
  sets : List SetCaps := [{}, {}, {}]

def cntStr : Cnt → String
  | some n => s!"@{n}"
  | none => "@?"

/-- `RecordSet::buf_capacity()` after a set operation -/
def capStr (g : List SetCaps) (op : Op) : String :=
  let j? : Option Nat := match op with
    | .set j | .exact j _ | .shrink j => some j
    | _ => none
  match j? with
  | none => ""
  | some j =>
    match g[j]? with
    | some sc => if sc.buf.exact then s!"^{sc.buf.lb}" else "^?"
    | none => "^?"

/-- the count of a call is only claimed when it returned a record, a batch, the end or `Ok(())` and made no
policy request: error values own heap data (ids, boxed I/O errors), `reserve` of the buffer is buffer_redux's -/
def claimed (tok : String) (grew : Bool) (c : Cnt) : Cnt :=
  if grew || tok.startsWith "E:" || tok == "PANIC" || tok == "HANG" || tok == "bad-op" then none else c

def faStep (acc : Fa.St × G × List String) (op : Op) : Fa.St × G × List String :=
  let (s, g, outs) := acc
  let (s', x) := Fa.step s op
  if x = "" then (s', g, outs) else
  let grew := s'.r.log.length ≠ s.r.log.length
  let sfx := if grew then s!"#{s'.r.log.length}" else ""
  let (g', c) : G × Cnt :=
    match op with
    | .next | .seekSlot _ | .seekTo _ _ =>
      let r := Alloc.Fa.readerStep g.seqCap s'.r
      ({ g with seqCap := r.1 }, if x = "K?" then none else r.2)
    | .owned | .ownedJson =>
      let r := Alloc.Fa.readerStep g.seqCap s'.r
      ({ g with seqCap := r.1 }, none)
    | .set j | .exact j _ =>
      match g.sets[j]?, s'.sets[j]? with
      | some sc, some rs' =>
        let r := Alloc.Fa.setStep g.seqCap sc rs' s'.r (x.startsWith "S")
        ({ seqCap := r.1, sets := g.sets.set j r.2.1 }, r.2.2)
      | _, _ => (g, none)
    | .shrink j =>
      match g.sets[j]?, s'.sets[j]? with
      | some sc, some rs' => ({ g with sets := g.sets.set j (shrinkStep sc rs'.buffer.length) }, none)
      | _, _ => (g, none)
    | _ => (g, none)
  (s', g', (x ++ sfx ++ cntStr (claimed x grew c) ++ capStr g'.sets op) :: outs)

def fqStep (acc : Fq.St × G × List String) (op : Op) : Fq.St × G × List String :=
  let (s, g, outs) := acc
  let (s', x) := Fq.step s op
  if x = "" then (s', g, outs) else
  let grew := s'.r.log.length ≠ s.r.log.length
  let sfx := if grew then s!"#{s'.r.log.length}" else ""
  let (g', c) : G × Cnt :=
    match op with
    | .next | .seekSlot _ | .seekTo _ _ => (g, if x = "K?" then none else some 0)
    | .set j | .exact j _ =>
      match g.sets[j]?, s'.sets[j]? with
      | some sc, some rs' =>
        let r := Alloc.Fq.setStep sc rs' (x.startsWith "S") (x.startsWith "E:" || x == "PANIC" || x == "HANG")
        ({ g with sets := g.sets.set j r.1 }, r.2)
      | _, _ => (g, none)
    | .shrink j =>
      match g.sets[j]?, s'.sets[j]? with
      | some sc, some rs' => ({ g with sets := g.sets.set j (shrinkStep sc rs'.buffer.length) }, none)
      | _, _ => (g, none)
    | _ => (g, none)
  (s', g', (x ++ sfx ++ cntStr (claimed x grew c) ++ capStr g'.sets op) :: outs)

end AllocDrv

/-! ## the abstract readers A (the objects the history theorems are about) judging the IMPLEMENTATION's observations

The harness's observation line of a case is handed to the driver (`O` line after the case); its tokens are parsed
into `ObsH` values and `runA` / `acceptsA` decide whether the real reader's history is one the abstract reader
allows.  Only for histories inside A's specification: failure-free source, no refusal, operations of the
history language. -/

namespace ImplObs

def fieldOf (key : String) (rc : String) : Option String :=
  (rc.splitOn ":").findSome? fun f =>
    if f.startsWith (key ++ "=") then some (f.drop (key.length + 1)).toString else none

def linesOf (l : String) : Option (List (List UInt8)) :=
  ((l.splitOn ".").dropLast).mapM fun x => unhexAux x.toList

def bytesOf (x : String) : Option (List UInt8) := unhexAux x.toList

def errPrefix (x : String) : String := (x.splitOn "/m=").headD ""

def utf8Ok : Option (List UInt8) → Bool
  | none => true
  | some l => validUtf8 l

def faRec (rc : String) : Option Fasta.Hist.RecView := do
  let h ← fieldOf "h" rc
  let l ← fieldOf "l" rc
  let hb ← bytesOf h
  let ls ← linesOf l
  some (hb, ls)

/-- `none` = the token is outside what the abstract reader speaks about (the verdict is then not computed) -/
def faObs (it : Fasta.Hist.Items) (tok : String) : Option Fasta.Hist.ObsH :=
  let t := FaHist.base tok
  if t == "N" then some .none
  else if t == "K" then some .done
  else if t == "PANIC" then some .panic
  else if t == "HANG" then some .fuel
  else if t == "P-" then some (.pos none)
  else if t.startsWith "P" then (FaHist.parsePosTok t).map fun p => .pos (some p)
  else if t.startsWith "S" then ((t.drop 1).toString.toNat?).map .batch
  else if t.startsWith "R:" then (faRec (t.drop 2).toString).map fun v => .record v.1 v.2
  else if t.startsWith "O:" then do
    let rc := (t.drop 2).toString
    let h ← fieldOf "h" rc
    let sq ← fieldOf "s" rc
    let hb ← bytesOf h
    let sb ← bytesOf sq
    some (.owned hb sb)
  else if t.startsWith "I:" then
    if t == "I:" then some (.dump [])
    else (((t.drop 2).toString.splitOn "/").mapM faRec).map .dump
  else if t.startsWith "E:" then
    match it.err with
    | some e => if errPrefix ("E:" ++ Fa.errStr e) == errPrefix t then some (.error e) else some (.error (.io 424242))
    | none => some (.error (.io 424242))
  else none

def fqRec (rc : String) : Option Fastq.Hist.Rec := do
  let h ← fieldOf "h" rc
  let sq ← fieldOf "s" rc
  let q ← fieldOf "q" rc
  let hb ← bytesOf h
  let sb ← bytesOf sq
  let qb ← bytesOf q
  some { head := hb, seq := sb, qual := qb }

def fqErrId : Spec.FqErr → Option (List UInt8)
  | .unequalLengths _ _ _ id => id
  | .invalidStart _ _ => none
  | .invalidSep _ _ id => id
  | .unexpectedEnd _ id => id

def fqObs (items : List Spec.FqItem) (tok : String) : Option Fastq.Hist.ObsH :=
  let t := FaHist.base tok
  if t == "N" then some .none
  else if t == "K" then some .done
  else if t == "PANIC" then some .panic
  else if t == "HANG" then some .fuel
  else if t.startsWith "P" then (FaHist.parsePosTok t).map fun p => .position p.1 p.2
  else if t.startsWith "S" then ((t.drop 1).toString.toNat?).map .batch
  else if t.startsWith "R:" || t.startsWith "O:" then (fqRec (t.drop 2).toString).map .record
  else if t.startsWith "I:" then
    if t == "I:" then some (.dump [])
    else (((t.drop 2).toString.splitOn "/").mapM fqRec).map .dump
  else if t.startsWith "E:" then
    -- ids are reported after lossy UTF-8 decoding; the comparison is only made when S's ids are valid UTF-8
    if items.any (fun it => match it with | .err e _ _ => !utf8Ok (fqErrId e) | _ => false) then none
    else
      match items.findSome? (fun it => match it with
          | .err e _ _ =>
            if errPrefix ("E:" ++ Fq.errStr (Fastq.specErr e)) == errPrefix t then some (Fastq.specErr e) else none
          | _ => none) with
      | some e => some (.error e)
      | none => some (.error (.io 424242))
  else none

def cleanCase (script : List ReadEv) (sf : List (Nat × Nat)) (toks : List String) : Bool :=
  sf.isEmpty && script.all (fun e => match e with | .fail _ => false | _ => true) &&
    toks.all (fun t => let b := FaHist.base t; !(b.startsWith "E:bl") && !(b.startsWith "E:io"))

/-- " AI=1": the abstract reader accepts the implementation's history; " AI=0": it rejects it; "": not judged -/
def judgeFa (inp : List UInt8) (script : List ReadEv) (sf : List (Nat × Nat)) (ops : List Op) (impl : String) : String :=
  let toks := (((impl.splitOn " L=").headD "").splitOn ";").filter (· ≠ "")
  if ops.length != toks.length || !cleanCase script sf toks then "" else
  match FaHist.translate inp (ops.zip toks) [none, none, none, none] with
  | none => ""
  | some pairs =>
    let it := Fasta.Hist.items inp
    match (pairs.map (·.2)).mapM (faObs it) with
    | none => ""
    | some obs => if Fasta.Hist.runA it Fasta.Hist.aInit (pairs.map (·.1)) obs then " AI=1" else " AI=0"

def judgeFq (inp : List UInt8) (script : List ReadEv) (sf : List (Nat × Nat)) (ops : List Op) (impl : String) : String :=
  let toks := (((impl.splitOn " L=").headD "").splitOn ";").filter (· ≠ "")
  if ops.length != toks.length || !cleanCase script sf toks then "" else
  match FqHist.translate inp (ops.zip toks) [none, none, none, none] with
  | none => ""
  | some pairs =>
    let items := Spec.fastq inp
    match (pairs.map (·.2)).mapM (fqObs items) with
    | none => ""
    | some obs => if Fastq.Hist.acceptsA items {} (pairs.map (·.1)) obs then " AI=1" else " AI=0"

end ImplObs

/-- `R <fmt> <cap> <pol> <chunk> <script> <seekfails> <inputhex> <ops>` -/
def runReaderCase (toks : List String) (alloc : Bool := false) (impl : Option String := none) :
    Option (String × String) :=
  match toks with
  | [fmt, cap, pol, chunk, script, sf, inp, ops] => do
    let cap ← cap.toNat?
    let pol ← parsePol pol
    let chunk ← chunk.toNat?
    let script ← parseList script "," parseEv
    let sf ← parseList sf "," parseSeekFail
    let inp ← unhex inp
    let ops ← parseList ops "," parseOp
    if fmt = "fa" then
      let r := Fasta.mkReader inp cap pol.toPol script chunk sf
      let (s, outs) : Fa.St × List String :=
        if alloc then
          let r3 := ops.foldl AllocDrv.faStep (({ r := r } : Fa.St), ({} : AllocDrv.G), [])
          (r3.1, r3.2.2)
        else runOps (fun (s : Fa.St) op =>
            let (s', x) := Fa.step s op
            let added := s'.total - s.total
            ({ s' with glog := s.glog ++ s'.r.log.drop (s'.r.log.length - added) }, x))
          (fun s => s.glog.length)
          ({ r := r, mk2 := fun i => some (Fasta.mkReader i cap pol.toPol [] chunk []) } : Fa.St) ops
      let hist := if alloc then "" else if sf.isEmpty && !s.dead then FaHist.check inp cap pol.toPol script chunk ops outs.reverse else ""
      let ai := match impl with
        | some o => if alloc then "" else ImplObs.judgeFa inp script sf ops o
        | none => ""
      let seconds := ops.filterMap fun op => match op with | .second i => some i | _ => none
      let spec2 := String.join (seconds.map fun i => " || " ++ Fa.specStr i)
      some (";".intercalate outs.reverse ++ " L=" ++ logStr (if alloc then s.r.log else s.glog), Fa.specStr inp ++ spec2 ++ hist ++ ai)
    else if fmt = "fq" then
      let r := Fastq.mkReader inp cap pol.toPol script chunk sf
      let (s, outs) : Fq.St × List String :=
        if alloc then
          let r3 := ops.foldl AllocDrv.fqStep (({ r := r } : Fq.St), ({} : AllocDrv.G), [])
          (r3.1, r3.2.2)
        else runOps (fun (s : Fq.St) op =>
            let (s', x) := Fq.step s op
            let added := s'.total - s.total
            ({ s' with glog := s.glog ++ s'.r.log.drop (s'.r.log.length - added) }, x))
          (fun s => s.glog.length)
          ({ r := r, mk2 := fun i => some (Fastq.mkReader i cap pol.toPol [] chunk []) } : Fq.St) ops
      let hist := if alloc then "" else if !s.dead then FqHist.check inp cap pol.toPol script chunk sf ops outs.reverse else ""
      let ai := match impl with
        | some o => if alloc then "" else ImplObs.judgeFq inp script sf ops o
        | none => ""
      let seconds := ops.filterMap fun op => match op with | .second i => some i | _ => none
      let spec2 := String.join (seconds.map fun i => " || " ++ Fq.specStr i)
      some (";".intercalate outs.reverse ++ " L=" ++ logStr (if alloc then s.r.log else s.glog), Fq.specStr inp ++ spec2 ++ hist ++ ai)
    else none
  | _ => none

/-! ## writer cases -/

def argOf (s : String) : Option (Option (List UInt8)) :=
  if s = "~" then some none else (unhex s).map some

def segsOf (s : String) : List (List UInt8) :=
  if s = "~" then [] else (s.splitOn "|").map fun x => (unhex x).getD []

def reparseFa (out : List UInt8) : String :=
  match Spec.fasta out with
  | .invalidStart _ _ => "E"
  | .records rs => "/".intercalate (rs.map fun r => s!"h={hexOf r.head}:s={hexOf r.seq}")

def reparseFq (out : List UInt8) : String :=
  "/".intercalate ((Spec.fastq out).map fun
    | .record r => s!"h={hexOf r.head}:s={hexOf r.seq}:q={hexOf r.qual}"
    | .err _ _ _ => "E")

/-- `none` = bad case, `some none` = panic -/
def runWrite (f : String) (w : Nat) (a : List String) : Option (Option (List UInt8)) :=
  match a with
  | [a0, a1, a2, a3] =>
    match f with
    | "fa_to" => do let h ← unhex a0; let s ← unhex a1; some (some (Write.faTo h s))
    | "fa_parts" => do let id ← unhex a0; let d ← argOf a1; let s ← unhex a2; some (some (Write.faParts id d s))
    | "fa_wrap" => do let id ← unhex a0; let d ← argOf a1; let s ← unhex a2; some (Write.faWrap id d s w)
    | "fa_wrapseq" => do let id ← unhex a0; let d ← argOf a1; let s ← unhex a2; some (Write.faWrap id d s w)
    | "fa_seqiter" => do let h ← unhex a0; some (some (Write.faRefWrite h (segsOf a1)))
    | "fa_wrapiter" => do let h ← unhex a0; some (Write.faRefWrap h (segsOf a1) w)
    | "fa_seq" => do let h ← unhex a0; let s ← unhex a1; some (some (Write.faTo h s))
    | "fa_owned" => do let h ← unhex a0; let s ← unhex a1; some (some (Write.faTo h s))
    | "fa_owned_wrap" => do let h ← unhex a0; let s ← unhex a1; some (Write.faOwnedWrap h s w)
    | "fa_many" =>
      (a0.splitOn "|").foldlM (fun (acc : Option (List UInt8)) rec =>
        match rec.splitOn ":" with
        | [h, s] => do let h ← unhexAux h.toList; let s ← unhexAux s.toList; some (acc.map (· ++ Write.faTo h s))
        | _ => none) (some [])
    | "fq_to" => do let h ← unhex a0; let s ← unhex a1; let q ← unhex a2; some (some (Write.fqTo h s q))
    | "fq_parts" => do
      let id ← unhex a0; let d ← argOf a1; let s ← unhex a2; let q ← unhex a3
      some (some (Write.fqParts id d s q))
    | "fq_owned" => do let h ← unhex a0; let s ← unhex a1; let q ← unhex a2; some (some (Write.fqTo h s q))
    | "fq_many" =>
      (a0.splitOn "|").foldlM (fun (acc : Option (List UInt8)) rec =>
        match rec.splitOn ":" with
        | [h, s, q] => do
          let h ← unhexAux h.toList; let s ← unhexAux s.toList; let q ← unhexAux q.toList
          some (acc.map (· ++ Write.fqTo h s q))
        | _ => none) (some [])
    | _ => none
  | _ => none

def handleWrite (toks : List String) : String :=
  match toks with
  | f :: w :: rest =>
    match w.toNat? with
    | none => "bad-case"
    | some w =>
      match runWrite f w rest with
      | none => "bad-case"
      | some none => "PANIC"
      | some (some out) =>
        let rt := if f.startsWith "fa" then reparseFa out else reparseFq out
        (if out.isEmpty then "-" else hexOf out) ++ " RT:" ++ rt
  | _ => "bad-case"

/-! ## parallel protocol traces -/

def parseEvTok (s : String) : Option Par.Ev :=
  let two (r : String) : Option (Nat × Nat) :=
    match r.splitOn "." with
    | [a, b] => match a.toNat?, b.toNat? with
      | some a, some b => some (a, b)
      | _, _ => none
    | _ => none
  if s = "ri1" then some (.ri true) else if s = "ri0" then some (.ri false)
  else if s = "di1" then some (.di true) else if s = "di0" then some (.di false)
  else if s = "ce" then some .ce else if s = "cn" then some .cn else if s = "cx" then some .cx
  else if s.startsWith "ret" then (s.drop 3).toString.toNat?.map .ret
  else if s.startsWith "fe" then (s.drop 2).toString.toNat?.map .fErr
  else if s.startsWith "fn" then (s.drop 2).toString.toNat?.map .fNone
  else if s.startsWith "we" then (two (s.drop 2).toString).map fun p => .we p.1 p.2
  else if s.startsWith "cr" then (two (s.drop 2).toString).map fun p => .cr p.1 p.2
  else if s.startsWith "f" then (two (s.drop 1).toString).map fun p => .fOk p.1 p.2
  else none

def optNat (s : String) : Option (Option Nat) := if s = "-" then some none else s.toNat?.map some

/-- `X T Q N endErr riFail dsFail stop cont seed trace` -/
def handlePar (toks : List String) : String :=
  match toks with
  | [t, q, n, ee, rf, df, st, ct, _seed, trace] =>
    match t.toNat?, q.toNat?, n.toNat?, optNat df, optNat st with
    | some t, some q, some n, some df, some st =>
      let c : Par.Cfg := { T := t, Q := q, N := n, endErr := ee = "1", readerInitFails := rf = "1",
                           dsInitFailAt := df, stopAfter := st, contAfterErr := ct = "1" }
      match parseList trace "," parseEvTok with
      | none => "bad-trace"
      | some evs =>
        let verdict := match Par.accept c evs with
          | none => "accept"
          | some i => s!"reject@{i}"
        if t ≤ 2 && q ≤ 2 && n ≤ 3 then
          let (a, b, d, f) := Par.explore c 2000000
          s!"{verdict} states={a} trans={b} dead={d} final={f}"
        else verdict
    | _, _, _, _, _ => "bad-case"
  | _ => "bad-case"

/-! ## iterator contracts (`I <n> <steps>`) -/

def buildRecord (n : Nat) : List UInt8 :=
  [62, 104, 32, 120, 10] ++ (List.range n).flatMap fun i => List.replicate (i + 1) (65 + i).toUInt8 ++ [10]

def hintStr (n : Nat) : String := s!"{n}.{n}"

def handleIter (toks : List String) : String :=
  match toks with
  | [n, steps] =>
    match n.toNat? with
    | none => "bad-case"
    | some n =>
      let steps := if steps = "-" then [] else steps.toList
      let inp := buildRecord n
      let r0 := Fasta.mkReader inp 65536 PolDesc.std.toPol
      let (r, o) := Fasta.next 100000 r0
      match o with
      | .ok true =>
        let bp := r.bp
        let idx (p : Nat × Nat) : String :=
          match bp.seqPos.findIdx? (· = p.1) with
          | some i => toString i
          | none => "?"
        -- the steps on the model of `Zip<Iter, Skip<Iter>>`
        let run := steps.foldl (fun (acc : Fasta.SeqLinesIt × List String) c =>
          let (it', x) := if c = 'f' then acc.1.next else acc.1.nextBack
          let item := match x with | some p => idx p | none => "-"
          (it', acc.2 ++ [s!"{item}:{it'.len}:{hintStr it'.len}"])) (Fasta.SeqLinesIt.mk' bp, [])
        -- adaptors by their list semantics on the record's lines 0 … n-1
        let ids := List.range n
        let er := (ids.map fun i => s!"{i}.{i}").reverse
        let ea := ((ids.drop 1).zipIdx.map fun (l, i) => s!"{i}.{l}").reverse
        let rv := ids.reverse.map toString
        let zp := (ids.zip ids.reverse).map fun (a, b) => s!"{a}.{b}"
        let sk := n - 1
        let sets := if n = 0 then "" else
          ",".intercalate (List.replicate (n + 1) "b" ++ ["N"])
        let ow := String.join (List.replicate n "S" ++ List.replicate 3 "N")
        ",".intercalate run.2 ++ "|er=" ++ ",".intercalate er ++ "|ea=" ++ ",".intercalate ea ++
          "|rv=" ++ ",".intercalate rv ++ "|zp=" ++ ",".intercalate zp ++ s!"|sk={sk}|ct={n}" ++
          "|rs=" ++ sets ++ "|rq=" ++ sets ++ "|ow=" ++ ow ++ ow ++ ow ++ ow
      | _ => "PANIC"
  | _ => "bad-case"

def handle (line : String) (impl : Option String := none) : List String :=
  match line.trimAscii.toString.splitOn " " with
  | "F" :: fmt :: _cap :: _pol :: _chunk :: _script :: _sf :: inp :: _ =>
    -- sources outside the model's contract (premature Ok(0)): only S is computed
    match unhex inp with
    | some b => ["M skip", "S " ++ (if fmt = "fa" then Fa.specStr b else Fq.specStr b)]
    | none => ["M bad-case"]
  | "A" :: toks =>
    match runReaderCase toks true with
    | some (m, s) => ["M " ++ m, "S " ++ s]
    | none => ["M bad-case"]
  | "R" :: toks =>
    match runReaderCase toks false impl with
    | some (m, s) => ["M " ++ m, "S " ++ s]
    | none => ["M bad-case"]
  | "W" :: toks => ["M " ++ handleWrite toks]
  | ["Q", pol, cur] =>
    -- a built-in policy asked directly with one capacity
    match parsePol pol, cur.toNat? with
    | some p, some c =>
      match (p.toPol.growTo c).1 with
      | some n => [s!"M {n}"]
      | none => ["M x"]
    | _, _ => ["M bad-case"]
  | ["Q", pol, cap, fmt, len] =>
    -- a reader of capacity `cap` under the policy reads a file of ONE record of `len` bytes in all (sizes far beyond what
    -- the byte-level machine is run on): the requests it makes are the chain from `cap` on, continued while the record
    -- does not fit – FASTA has to see the end of the input (buffer not full), a terminated FASTQ record only its four lines
    match parsePol pol, cap.toNat?, len.toNat? with
    | some p, some c, some n =>
      let fits (c : Nat) : Bool := if fmt = "fa" then n < c else n ≤ c
      let rec chain (fuel : Nat) (p : Pol) (c : Nat) (acc : List (Nat × Option Nat)) : List (Nat × Option Nat) × Bool :=
        match fuel with
        | 0 => (acc.reverse, true)
        | fuel + 1 =>
          if fits c then (acc.reverse, true)
          else
            match p.growTo c with
            | (some c', p') => chain fuel p' c' ((c, some c') :: acc)
            | (none, _) => (((c, none) :: acc).reverse, false)
      let (log, ok) := chain 5000 p.toPol c []
      ["M " ++ (if ok then "R" else "E:bl") ++ " L=" ++ logStr log]
    | _, _, _ => ["M bad-case"]
  | "I" :: toks => ["M " ++ handleIter toks]
  | "X" :: toks => ["M " ++ handlePar toks]
  | "Z" :: _ => ["M ok"]
  | ["Y", fmt, _, _, _, _, inp] =>
    match unhex inp with
    | some b => ["M ok", "S " ++ (if fmt.startsWith "fa" then Fa.specStr b else Fq.specStr b)]
    | none => ["M bad-case"]
  | _ => ["M bad-case"]

partial def loop (h : IO.FS.Stream) (out : IO.FS.Stream) (withImpl : Bool) : IO Unit := do
  let line ← h.getLine
  if line.isEmpty then return ()
  if line.startsWith "R " || line.startsWith "A " || line.startsWith "F " || line.startsWith "I " || line.startsWith "W " || line.startsWith "Q " || line.startsWith "X " || line.startsWith "Y " || line.startsWith "Z " then
    -- `--with-impl`: every case line is followed by one `O <observation of the implementation>` line
    let impl ← if withImpl then do
        let o ← h.getLine
        pure (if o.startsWith "O " then some (o.drop 2).toString.trimAscii.toString else none)
      else pure none
    for l in handle line impl do
      out.putStrLn l
  loop h out withImpl

end Drv

def main (args : List String) : IO Unit := do
  let stdin ← IO.getStdin
  let stdout ← IO.getStdout
  Drv.loop stdin stdout (args.contains "--with-impl")
